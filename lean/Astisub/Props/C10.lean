import Astisub.Lemmas.OpsFragment
import Astisub.Props.C12

/-!
# C10 — Fragment: cuts at every multiple of the period and preserves the timeline

`Ops.fragment` models `Subtitles.Fragment` (as repaired by the `fix:` commit): every cue is cut
by `Ops.cut` (the inner loop), then the list is ordered.  Statements hold for every list
(overlaps, nesting, duplicates, the cue that starts last not ending last, any length) and
every period `f > 0`.
-/

namespace Astisub
namespace C10
open Ops Spec List

/-- Per cue: the pieces are consecutive (`[s,b₁),[b₁,b₂),…,[b_k,e)`), carry the cue's content,
    contain no multiple of `f`, every cut point is a multiple of `f` strictly inside the cue,
    the original pointer is the last piece and the others are fresh copies. -/
theorem cut_spec (f : Int) (hf : 0 < f) (it : Item) : Pieces f it (cut f it) := cut_pieces f hf it

/-- … and the cue is cut at *every* multiple of `f` strictly inside it. -/
theorem cut_at_every_multiple (f : Int) (hf : 0 < f) (it : Item) (m : Int) (hm : isMultiple f m)
    (h1 : it.startAt < m) (h2 : m < it.endAt) : ∃ p ∈ (cut f it).dropLast, p.endAt = m := by
  have hp := cut_pieces f hf it
  have key : ∀ (ps : List Item) (it : Item), Chain it ps → (∀ p ∈ ps, NoMult f p) →
      it.startAt < m → m < it.endAt → ∃ p ∈ ps.dropLast, p.endAt = m := by
    intro ps
    induction ps with
    | nil => intro it hc; exact absurd hc (by simp [Chain])
    | cons p rest ih =>
      intro it hc hn h1 h2
      cases rest with
      | nil =>
        obtain ⟨hs, he, _⟩ := hc
        obtain ⟨k, rfl⟩ := hm
        exact absurd ⟨k, by omega, by omega⟩ (hn p (by simp))
      | cons q rest =>
        obtain ⟨hs, _, hlt, hrest⟩ := hc
        rw [dropLast_cons_of_ne_nil (by simp)]
        by_cases hmp : m < p.endAt
        · obtain ⟨k, rfl⟩ := hm
          exact absurd ⟨k, by omega, by omega⟩ (hn p (by simp))
        · by_cases heq : m = p.endAt
          · exact ⟨p, by simp, heq.symm⟩
          · obtain ⟨p', hp', hpe⟩ := ih { it with startAt := p.endAt } hrest
              (fun x hx => hn x (by simp [hx])) (by simp only; omega) (by simpa using h2)
            exact ⟨p', mem_cons_of_mem _ hp', hpe⟩
  exact key _ it hp.chain hp.noMult h1 h2

/-- cues containing no multiple of `f` are left as they were -/
theorem cut_noop (f : Int) (hf : 0 < f) (it : Item) (h : NoMult f it) : cut f it = [it] :=
  Astisub.cut_noop f hf it h

/-- Timeline: the result is exactly (a rearrangement of) the pieces of every original cue —
    nothing lost, nothing invented. -/
theorem fragment_perm (f : Int) (hf : 0 < f) (xs : List Item) :
    fragment f xs ~ xs.flatMap (cut f) := by
  unfold fragment
  by_cases h : xs = []
  · subst h; simp
  · have : ¬ (xs = [] ∨ f ≤ 0) := by simp [h]; omega
    simp only [this, ↓reduceIte]
    exact C12.order_perm _

/-- cues are ordered by start afterwards -/
theorem fragment_sorted (f : Int) (hf : 0 < f) (xs : List Item)
    (hs : xs.Pairwise (fun a b => a.startAt ≤ b.startAt)) :
    (fragment f xs).Pairwise (fun a b => a.startAt ≤ b.startAt) := by
  unfold fragment
  by_cases h : xs = []
  · subst h; simp
  · have : ¬ (xs = [] ∨ f ≤ 0) := by simp [h]; omega
    simp only [this, ↓reduceIte]
    exact C12.order_sorted _

/-- afterwards no cue strictly contains a multiple of `f` -/
theorem fragment_no_strict_multiple (f : Int) (hf : 0 < f) (xs : List Item) :
    ∀ p ∈ fragment f xs, ¬ ∃ k : Int, p.startAt < k * f ∧ k * f < p.endAt := by
  intro p hp
  have hp' := (fragment_perm f hf xs).mem_iff.mp hp
  obtain ⟨it, _, hpit⟩ := mem_flatMap.mp hp'
  exact (cut_pieces f hf it).noMult p hpit

/-- every cue of the result is a piece of an original cue and every piece of every original cue
    is in the result (with `cut_spec`: it carries that cue's text, style and region) -/
theorem fragment_pieces (f : Int) (hf : 0 < f) (xs : List Item) (p : Item) :
    p ∈ fragment f xs ↔ ∃ it ∈ xs, p ∈ cut f it := by
  rw [(fragment_perm f hf xs).mem_iff]
  exact mem_flatMap

/-- the number of cues afterwards: one per original cue plus one per cut point -/
theorem fragment_length (f : Int) (hf : 0 < f) (xs : List Item) :
    (fragment f xs).length = (xs.map (fun it => (cut f it).length)).sum := by
  rw [(fragment_perm f hf xs).length_eq, length_flatMap]

/-- a list in which no cue contains a multiple of `f` is only reordered (here: already ordered ⇒ unchanged) -/
theorem fragment_noop (f : Int) (hf : 0 < f) (xs : List Item)
    (hs : xs.Pairwise (fun a b => a.startAt ≤ b.startAt)) (hn : ∀ it ∈ xs, NoMult f it) :
    fragment f xs = xs := by
  unfold fragment
  by_cases h : xs = []
  · simp [h]
  · have : ¬ (xs = [] ∨ f ≤ 0) := by simp [h]; omega
    simp only [this, ↓reduceIte]
    have hfm : xs.flatMap (cut f) = xs := by
      clear hs h this
      induction xs with
      | nil => rfl
      | cons a rest ih =>
        rw [flatMap_cons, Astisub.cut_noop f hf a (hn a (by simp)), ih (fun it hit => hn it (by simp [hit]))]
        rfl
    rw [hfm]
    exact C12.order_of_sorted xs hs

/-- a non-positive period or an empty list changes nothing (the repaired code returns early) -/
theorem fragment_guard (f : Int) (xs : List Item) (h : xs = [] ∨ f ≤ 0) : fragment f xs = xs := by
  simp [fragment, h]

end C10
end Astisub
