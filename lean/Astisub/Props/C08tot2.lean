import Astisub.Lemmas.Tot2Duration
import Astisub.Lemmas.Tot2TTML
import Astisub.Lemmas.Tot2TTMLW
import Astisub.Lemmas.Tot2SRT
import Astisub.Lemmas.Tot2STL
import Astisub.Lemmas.Tot2SSA
import Astisub.Lemmas.Tot2VTT

/-!
# C08 (totality), part 3 — the TTML reader and the five writers, panic-aware

`Props/C08tot.lean` made the index obligations of the SRT, WebVTT, SSA, STL and teletext *readers*
explicit.  This file does the same for what was left:

* `parseDuration` (shared by all text readers) and the TTML reader — `TTMLInDuration.UnmarshalText` with its regular
  expression submatch indexes, `TTMLInDuration.duration` with its `big.Int` quotients, `propagateTTMLAttributes`,
  the language cut, the map look-ups of styles / regions, the `begin` / `end` pointers of a paragraph (defect D6),
  the line loop;
* the five writers — every nil test on `s.Metadata`, `Style.InlineStyle`, `Region.InlineStyle`, `Item.InlineStyle`,
  `LineItem.InlineStyle`, `Item.Style`, `Item.Region`, pointer fields of the metadata; the `…[:len-1]` slices that remove a
  trailing separator; `o[len(o)-1]` of `encodeTextSTL` (D17); the tag indexes of the WebVTT writer; `BytesPad` cuts;
* the blank-line arm of the WebVTT reader (`sa.WebVTTStyles[len(sa.WebVTTStyles)-1]`).

As before a *checked* variant (`Lemmas/Tot2*.lean`) is the model function written in `Chk = Except Panic` with
every Go index expression, slice expression, integer / `big.Int` division, map-miss-then-dereference and pointer
dereference a primitive that can answer `.error panic`; the guards are copied from the Go code.  Indexes of the form
`len(x)-1` are computed in `Int` (`Tot.lastC`, `Tot.initC`, `Tot.idxI`, `Tot.slcToI`): on an empty `x` they are `-1` and
the primitive panics, which natural-number subtraction would hide.

Every headline theorem reads `checked input = .ok (model input)` **for all inputs** — the cue lists range over the
whole model type, so every optional part (`none` metadata, no styles, no regions, `none` inline styles, dangling
or absent references, no lines, empty lines, empty texts) is covered.  It says (a) the checked code never panics and
(b) its value is the model's: no `getD` / `take` / `dropLast` default of the model is ever used.  The `…_needs_…`
theorems show the converse for the guards: without the guard the checked code panics.
-/

namespace Astisub
namespace C08tot2
open Tot

/-- how to read the theorems below: a checked computation that equals `.ok _` did not panic -/
theorem checked_implies_no_panic {α} {c : Chk α} {a : α} (h : c = .ok a) : c.safe = true := safe_of_eq_ok h

/-! ## `parseDuration` (`subtitles.go`), used by the SRT, WebVTT, SSA and TTML readers -/

/-- **`parseDuration` never panics and is what the model says, for every string, separator and digit count.**
    Checked: `parts[len(parts)-1]` and `parts[:len(parts)-1]` (behind `len(parts) >= 2`), `parts[1]`, `parts[0]`
    (behind `len(parts) == 2`), `parts[2]`, `parts[1]`, `parts[0]` (behind `len(parts) == 3`). -/
theorem parse_duration_checked (i : Go.Str) (sep : Char) (digits : Nat) :
    Tot.Dur.parseC i sep digits = .ok (Duration.parse i sep digits) :=
  Tot.Dur.parseC_eq i sep digits

/-! ## TTML reader (`ttml.go`) -/

/-- **`TTMLInDuration.UnmarshalText` never panics and is what the model says, for every attribute text.**
    Checked: `matches[1]`, `matches[2]`, `matches[3]`, `matches[1][:len(matches[1])-len(matches[2])]`, `matches[2][1:]` of the
    offset-time branch; the `big.Int` quotient by `10^len(fraction)`; `indexes[0]`, `indexes[1]`,
    `text[indexes[0]+1:indexes[1]]`, `text[:indexes[0]]` of the clock-time-with-frames branch; `parseDuration`. -/
theorem ttml_time_checked (text : Go.Str) : Tot.TTML.timeExprC text = .ok (TTML.timeExpr text) :=
  Tot.TTML.timeExprC_eq text

/-- **`TTMLInDuration.duration()` never panics for any parsed value and any frame / tick rate** (zero and negative
    rates included): the `big.Int` quotient of `ttmlUnitsDuration` is reached only behind `rate > 0`. -/
theorem ttml_duration_checked (d : TTML.InDur) (framerate tickrate : Int) :
    Tot.TTML.durationC d framerate tickrate = .ok (TTML.duration d framerate tickrate) :=
  Tot.TTML.durationC_eq d framerate tickrate

/-- the `tickrate > 0` guard is necessary: ticks in a document without tick rate would divide by zero -/
theorem ttml_duration_needs_rate_guard (d : TTML.InDur) (h : d.ticks > 0 ∨ d.ticksFraction ≠ []) :
    Tot.TTML.durationU d 0 = .error .divZero :=
  Tot.TTML.durationU_panics d h

example : (({ ticks := 10 } : TTML.InDur).ticks > 0 ∨ ({ ticks := 10 } : TTML.InDur).ticksFraction ≠ []) := Or.inl (by decide)

/-- **`propagateTTMLAttributes` never panics, for every set of style attributes**: the four pointer dereferences are
    behind their nil tests, `dimensions[0]`, `dimensions[1]`, `coordinates[0]`, `coordinates[1]` behind `len(…) > 1`. -/
theorem ttml_style_attributes_checked (a : KV) : Tot.TTML.styleAttributesC a = .ok (TTML.styleAttributes a) :=
  Tot.TTML.styleAttributesC_eq a

/-- the `len(dimensions) > 1` test is necessary: an extent without a space indexes past the split -/
theorem ttml_extent_needs_length_guard (e : Go.Str) (h : (Go.splitC ' ' e).length ≤ 1) : (Tot.TTML.extOfU e).safe = false :=
  Tot.TTML.extOfU_panics e h

example : (Go.splitC ' ' "100%".toList).length ≤ 1 := by decide

/-- the map look-up behind its `ok` test: the stored pointer's `ID` is the identifier asked for, and a miss
    is the error return, never a dereference -/
theorem ttml_lookup_checked (l : List TTML.InDef) (id : Go.Str) :
    Tot.TTML.resolveC l id = .ok (if (l.map (·.id)).contains id then some id else none) :=
  Tot.TTML.resolveC_eq l id

/-- without the `ok` test an identifier that is not in the map is a nil dereference -/
theorem ttml_lookup_needs_ok_test (l : List TTML.InDef) (id : Go.Str) (h : (l.map (·.id)).contains id = false) :
    Tot.TTML.resolveU l id = .error .nilDeref :=
  Tot.TTML.resolveU_panics l id h

example : (([] : List TTML.InDef).map (·.id)).contains "s1".toList = false := by decide

/-- **the "loop through texts" of `ReadFromTTML`, written as in Go (outer loop over the items, inner loop over
    `strings.Split(tt.Text, "\n")` with `idx > 0 ⇒ new line`, style look-up per piece), never panics and equals the
    model's closed form** (`getLast?` / `dropLast` of the pieces), for every item list and every loop state. -/
theorem ttml_line_loop_checked (styles : List TTML.InDef) (items : List TTML.InItem) (done : List Line) (cur : List LItem) :
    Tot.TTML.linesLoopC styles items done cur = .ok (TTML.linesLoop (styles.map (·.id)) items done cur) :=
  Tot.TTML.linesLoopC_eq styles items done cur

/-- one paragraph of any document: time attributes, `begin` / `end` nil test (D6), region / style look-ups, line loop -/
theorem ttml_paragraph_checked (t : TTML.TIn) (ts : TTML.InSub) :
    Tot.TTML.readSubC t ts = .ok (TTML.readSub t (t.styles.map (·.id)) (t.regions.map (·.id)) ts) :=
  Tot.TTML.readSubC_eq t ts

/-- **`ReadFromTTML` (after `xml.Decode`, which stays a contract) never panics and is what the model says, for every
    decoded document** — any frame / tick rate, any language string, any styles, regions and paragraphs, any number of
    `begin` / `end` attributes per paragraph (none included), any token list. -/
theorem ttml_read_checked (tin : Option TTML.TIn) : Tot.TTML.readC tin = .ok (TTML.read tin) :=
  Tot.TTML.readC_eq tin

/-- (a) alone -/
theorem ttml_read_never_panics (tin : Option TTML.TIn) : (Tot.TTML.readC tin).safe = true :=
  safe_of_eq_ok (ttml_read_checked tin)

/-- **the D6 guard is necessary**: with the pinned code (no `ts.Begin == nil || ts.End == nil` test) a `<p>` without
    `begin` whose `end` attributes parse is a nil dereference … -/
theorem ttml_needs_begin_guard (t : TTML.TIn) (ts : TTML.InSub) (hb : ts.begins = []) (he : (TTML.parseTimes ts.ends).isSome) :
    Tot.TTML.readSubU t ts = .error .nilDeref :=
  Tot.TTML.readSubU_no_begin t ts hb he

/-- … and so is a `<p>` with `begin` but without `end` -/
theorem ttml_needs_end_guard (t : TTML.TIn) (ts : TTML.InSub) (b : TTML.InDur)
    (hb : TTML.parseTimes ts.begins = some (some b)) (he : ts.ends = []) :
    Tot.TTML.readSubU t ts = .error .nilDeref :=
  Tot.TTML.readSubU_no_end t ts b hb he

example : (TTML.parseTimes ["00:00:01.000".toList]).isSome := by decide

/-! ## TTML writer (`ttml.go`) -/

/-- **`WriteToTTML` never panics and is what the model says, for every cue list.**  Checked: `s.Metadata != nil`;
    `ttmlOutStyleAttributesFromStyleAttributes` on a nil pointer (regions, styles, cues, runs); `.Style != nil` /
    `.Region != nil` in front of `.ID` (regions, styles, cues, runs); "remove last line break"
    `Items[:len(Items)-1]` behind `len(Items) > 0`. -/
theorem ttml_write_checked (s : Subs) : Tot.TTMLW.writeC s = .ok (TTML.write s) :=
  Tot.TTMLW.writeC_eq s

/-- one `<p>`: in particular the model's `items.take (items.length - 2)` on the flattened token list is the Go
    slice `Items[:len(Items)-1]` on the item list — for a cue without lines both are empty, no negative bound is hidden -/
theorem ttml_cue_checked (it : CItem) : Tot.TTMLW.subToksC it = .ok (TTML.subToks it) :=
  Tot.TTMLW.subToksC_eq it

/-- the `len(ttmlSubtitle.Items) > 0` test is necessary: for a cue without lines the slice bound is `-1` -/
theorem ttml_write_needs_items_guard (it : CItem) (h : it.lines = []) : Tot.TTMLW.subItemsU it = .error .slice :=
  Tot.TTMLW.subItemsU_no_lines it h

/-- the `s == nil` test of `ttmlOutStyleAttributesFromStyleAttributes` and the `s.Metadata != nil` test are necessary -/
theorem ttml_write_needs_nil_guards :
    Tot.TTMLW.outAttrsU none = .error .nilDeref ∧ Tot.TTMLW.metaU none = .error .nilDeref :=
  ⟨Tot.TTMLW.outAttrsU_nil, Tot.TTMLW.metaU_nil⟩

/-- `s.Regions[id]` / `s.Styles[id]` for the `ID` fields collected from the map's *values* (`WriteToTTML`,
    `WriteToWebVTT`): when every value is stored under its own `ID` no look-up misses.  (The models identify
    key and `ID`; a value stored under another key is outside their type — and does panic, see the `example`
    next to `Tot.byIdC_safe`.) -/
theorem map_by_id_checked {α} (idOf : α → Go.Str) (m : List (Go.Str × α)) (h : ∀ p ∈ m, p.1 = idOf p.2) :
    (Tot.byIdC idOf m).safe = true :=
  Tot.byIdC_safe idOf m h

example : ∀ p ∈ [("a".toList, ("a".toList, 1)), ("b".toList, ("b".toList, 2))], p.1 = (fun (v : Go.Str × Nat) => v.1) p.2 := by
  decide

/-! ## SubRip writer (`srt.go`) -/

/-- **`WriteToSRT` never panics and is what the model says, for every cue list.**  Checked: the five
    `li.InlineStyle != nil` tests and `li.InlineStyle.SRTColor != nil` of `LineItem.srtBytes`; the final `c[:len(c)-1]`. -/
theorem srt_write_checked (s : Subs) : Tot.SRTW.writeC s = .ok (SRT.write s) :=
  Tot.SRTW.writeC_eq s

/-- the nil test on the inline style is necessary (a plain run has none) -/
theorem srt_write_needs_nil_guard (k : String) : Tot.SRTW.strU none k = .error .nilDeref :=
  Tot.SRTW.strU_nil k

/-- the final slice is in range whatever follows the byte order mark -/
theorem srt_final_slice_checked (body : Go.Str) : (Tot.initC (SRT.bom ++ body)).safe = true :=
  Tot.SRTW.final_slice_safe body

/-! ## SSA / ASS writer (`ssa.go`) -/

/-- **`WriteToSSA` never panics, for every cue list** — `none` metadata, styles without inline style, cues without
    style / inline style / lines, runs without inline style.  Checked: `m != nil` of `newSSAScriptInfo`;
    `s.Metadata != nil` of the `v4plus` test (D9); `i.InlineStyle == nil` of `newSSAStyleFromStyle` (D9 / D13);
    `i.Style != nil`, `i.InlineStyle != nil`, `item.InlineStyle != nil` of `newSSAEventFromItem`; the pointer fields
    (`*int`, `*bool`, `*float64`, `*Color`) of `ssaScriptInfo.bytes`, `ssaStyle.string`, `ssaEvent.string`; the store
    `format[0] = "Layer"`; the look-ups `styles[n]` followed by a method call. -/
theorem ssa_write_never_panics (s : Subs) : (Tot.SSAW.writeC s).safe = true :=
  Tot.SSAW.writeC_safe s

/-- **… and is what the model says when the style list is a map** (one entry per identifier — as the keys of Go's
    `Styles` map are).  Hypothesis added because the Go code files every style under its name and then looks the
    names up: with two entries of one identifier it writes the last one twice, the model writes both
    (`Tot.SSAW.writeC_eq_Statement_false` refutes the statement without the hypothesis). -/
theorem ssa_write_checked (s : Subs) (h : (s.styles.map (·.id)).Nodup) : Tot.SSAW.writeC s = .ok (SSA.write s) :=
  Tot.SSAW.writeC_eq s h

example : (Tot.SSAW.subs1.styles.map (·.id)).Nodup ∧ Tot.SSAW.subs1.styles ≠ [] := by decide

/-- for **all** cue lists: the checked writer is the model on the style list as the look-ups see it (every entry
    replaced by the last entry of the same identifier) -/
theorem ssa_write_checked_all (s : Subs) :
    Tot.SSAW.writeC s = .ok (SSA.write { s with styles := Tot.SSAW.lastWins s.styles }) :=
  Tot.SSAW.writeC_lastWins s

/-- **the D9 / D13 guards are necessary, and exactly so**: the pinned writer (no `s.Metadata != nil` in the `v4plus`
    test, no `i.InlineStyle == nil` in `newSSAStyleFromStyle`) panics iff there is a cue and the metadata is nil or
    some style has no inline style -/
theorem ssa_write_needs_nil_guards (s : Subs) :
    (Tot.SSAW.writeU s).safe = false ↔ s.items ≠ [] ∧ (s.metadata = none ∨ ∃ d ∈ s.styles, d.attrs = none) :=
  Tot.SSAW.writeU_panics_iff s

/-- a cue list read from SubRip (no metadata) sent to the pinned SSA writer: nil dereference -/
theorem ssa_write_pinned_panics_without_metadata (s : Subs) (h1 : s.items ≠ []) (h2 : s.metadata = none) :
    Tot.SSAW.writeU s = .error .nilDeref :=
  Tot.SSAW.writeU_nil_metadata s h1 h2

example : Tot.SSAW.subs0.items ≠ [] ∧ Tot.SSAW.subs0.metadata = none := by decide

/-- `newSSAEventFromItem` for every cue -/
theorem ssa_event_of_item_checked (it : CItem) : Tot.SSAW.eventOfItemC it = .ok (SSA.eventOfItem it) :=
  Tot.SSAW.eventOfItemC_eq it

/-- `newSSAStyleFromStyle`: the pinned code panics exactly on a style without inline style -/
theorem ssa_style_needs_nil_guard (d : Def) : Tot.SSAW.styleOfDefU d = .error .nilDeref ↔ d.attrs = none :=
  Tot.SSAW.styleOfDefU_panics_iff d

/-! ## WebVTT (`webvtt.go`) -/

/-- **`ReadFromWebVTT` with the blank-line arm made explicit** (`blockName != "style" || sa == nil ||
    len(sa.WebVTTStyles) == 0 || HasSuffix(sa.WebVTTStyles[len(sa.WebVTTStyles)-1], "}")`, then `sa.WebVTTTags = …`), on top
    of the checked reader of `C08tot`: never panics and is what the model says, for every list of scanned lines.
    The model's `st.styles.getLast?.getD []` never uses its default. -/
theorem vtt_read_checked (lines : List (Option Go.Str)) : Tot.VTT.readC2 lines = .ok (VTT.read lines) :=
  Tot.VTT.readC2_eq lines

/-- the `len(sa.WebVTTStyles) == 0` disjunct is necessary: a blank line in a `STYLE` block that has no line yet indexes at `-1` -/
theorem vtt_read_needs_styles_guard (st : VTT.St) (raw : Go.Str) (hb : st.block = .style) (hs : st.styles = [])
    (hl : Go.trimSpace raw = []) : Tot.VTT.stepU st (some raw) = .error .index :=
  Tot.VTT.stepU_blank_panics st raw hb hs hl

example : ({ block := .style } : VTT.St).block = .style ∧ ({ block := .style } : VTT.St).styles = [] ∧ Go.trimSpace "  ".toList = [] := by
  decide

/-- **`WriteToWebVTT` never panics, for every cue list.**  Checked: `s.Metadata != nil` and the timestamp-map pointer;
    `st != nil && st.InlineStyle != nil` of the styles loop; `s.Regions[id]` look-ups; `inlineStyle == nil ⇒ &StyleAttributes{}`
    for regions and cues; `.Style != nil && .Style.InlineStyle != nil` (ten places); `item.Region != nil`; the final
    `c[:len(c)-1]`; `&l.Items[idx-1]`, `&l.Items[idx+1]`, `l.Items[idx]`; `li.InlineStyle != nil`, `TTMLColor != nil`;
    `WebVTTTags[webVTTCommonTags(li, previous):]`; `WebVTTTags[i]` of the closing loop; `a[n]`, `b[n]` of `webVTTCommonTags`. -/
theorem vtt_write_never_panics (s : Subs) : (Tot.VTTW.writeC s).safe = true :=
  Tot.VTTW.writeC_safe' s

/-- **… and is what the model says when the style and region lists are maps** (one entry per identifier).
    Hypotheses added because Go looks styles and regions up by identifier while the model walks the entries. -/
theorem vtt_write_checked (s : Subs) (hs : Tot.VTTW.UniqueIds s.styles) (hr : Tot.VTTW.UniqueIds s.regions) :
    Tot.VTTW.writeC s = .ok (VTT.write s) :=
  Tot.VTTW.writeC_eq s hs hr

example : Tot.VTTW.UniqueIds Tot.VTTW.sNil.styles ∧ Tot.VTTW.UniqueIds Tot.VTTW.sNil.regions ∧ Tot.VTTW.sNil.regions ≠ [] := by
  decide

/-- `webVTTCommonTags` (three nil guards, `a[n]`, `b[n]`) for every run and every neighbour (or none) -/
theorem vtt_common_tags_checked (li : LItem) (other : Option LItem) :
    Tot.VTTW.commonTagsC li other = .ok (Tot.VTTW.common li other) :=
  Tot.VTTW.commonTagsC_eq li other

/-- the tag count is within the run's own stack: the slice `WebVTTTags[n:]` is in range -/
theorem vtt_common_tags_in_range (a b : List VTT.Tag) : VTT.commonTags a b ≤ a.length :=
  Tot.VTTW.commonTags_le_left a b

/-- `LineItem.webVTTBytes` for every run and every pair of neighbours: colour pointer, opening slice, closing loop -/
theorem vtt_run_checked (prev next : Option LItem) (li : LItem) :
    Tot.VTTW.runBytesC prev next li = .ok (VTT.runBytes prev next li) :=
  Tot.VTTW.runBytesC_eq prev next li

/-- `Line.webVTTBytes` written on indexes as in Go, for every line (no items, one item, many) -/
theorem vtt_line_checked (l : Line) : Tot.VTTW.lineBytesC l = .ok (VTT.lineBytes l) :=
  Tot.VTTW.lineBytesC_eq l

/-- the nil tests the pinned writer lacked are necessary: a region without inline style … -/
theorem vtt_write_needs_region_guard (s : Subs) (d : Def) (h : d.attrs = none) : Tot.VTTW.regionBytesU s d = .error .nilDeref :=
  Tot.VTTW.regionBytesU_panics s d h

/-- … a cue without inline style … -/
theorem vtt_write_needs_cue_guard (s : Subs) (h : ∃ it ∈ s.items, it.attrs = none) : Tot.VTTW.writeU s = .error .nilDeref :=
  Tot.VTTW.writeU_panics_cue s h

example : ∃ it ∈ Tot.VTTW.sNil.items, it.attrs = none := by decide

/-- … a style without inline style -/
theorem vtt_write_needs_style_guard (s : Subs) (hi : s.items ≠ []) (hu : Tot.VTTW.UniqueIds s.styles)
    (h : ∃ d ∈ s.styles, d.attrs = none) : Tot.VTTW.writeU s = .error .nilDeref :=
  Tot.VTTW.writeU_panics_style s hi hu h

/-- slicing the tag stack at the neighbour's depth instead of the common depth panics when the neighbour's stack is deeper -/
theorem vtt_open_tags_needs_common_bound (x li : LItem) (a : KV) (h : li.attrs = some a)
    (hlt : (Tot.VTTW.tagsOf a).length < (VTT.tagsOfAttrs x.attrs).length) : Tot.VTTW.opensU (some x) li = .error .slice :=
  Tot.VTTW.opensU_panics x li a h hlt

/-! ## EBU STL writer (`stl.go`) -/

/-- **`WriteToSTL` never panics and is what the model says, for every clock value, every metadata (or none) and
    every cue list.**  Checked: `s.Metadata != nil` and the four pointer fields of the metadata in `newGSIBlock`;
    `s.Items[0]` behind `len(s.Items) > 0`; the 36 `astikit.BytesPad` calls of `gsiBlock.bytes` with their cut `i[:length]`
    and the padding loop's final `o[:length]`; `bs[1:]`, `bs[:2]`; the justification / vertical-position pointers;
    `o[:len(o)-1]`, `o[len(o)-1]` of `encodeTextSTL` behind `len(o) == 0` (repair of D17); the frame quotient. -/
theorem stl_write_checked (now : STL.Date) (md : Option STL.Meta) (cues : List STL.WCue) :
    Tot.STLW.writeC now md cues = .ok (STL.write now md cues) :=
  Tot.STLW.writeC_eq now md cues

/-- **`encodeTextSTL` never panics and is what the model says, for every text** (a text starting with combining
    marks included); the Go code appends to a forward slice, the model keeps the output reversed -/
theorem stl_encode_checked (s : List Nat) : Tot.STLW.encodeTextC s = .ok (STL.encodeText s) :=
  Tot.STLW.encodeTextC_eq s

/-- **the D17 guard is necessary, and exactly so**: the pinned step panics iff the output is still empty and the rune
    is a floating diacritic -/
theorem stl_encode_needs_empty_guard (o : STL.Bytes) (c : Nat) :
    (Tot.STLW.encStepU o c).safe = false ↔ (o = [] ∧ Tot.STLW.isDiacritic c = true) :=
  Tot.STLW.encStepU_safe_iff o c

/-- … so a text whose decomposition starts with a combining mark makes the pinned encoder panic -/
theorem stl_encode_pinned_panics (s : List Nat) (c : Nat) (rest : List Nat) (hs : STL.nfd s = c :: rest)
    (hc : Tot.STLW.isDiacritic c = true) : Tot.STLW.encodeTextU s = .error .slice :=
  Tot.STLW.encodeTextU_panics s c rest hs hc

example : STL.nfd [0x0301] = [0x0301] ∧ Tot.STLW.isDiacritic 0x0301 = true := ⟨Tot.STLW.nfd_acute, by decide⟩

/-- `newGSIBlock`: which guards are needed, exactly — the block is built without panic iff the metadata is there or
    its nil test is, each of the four pointer fields is set or has its nil test, and the cue list is non-empty or
    `len(s.Items) > 0` is tested -/
theorem stl_gsi_guards_exact (g : Tot.STLW.Guards) (now : STL.Date) (md : Option STL.Meta) (cues : List STL.WCue) :
    (Tot.STLW.newGSIG g now md cues).safe =
      ((g.metadata || md.isSome) &&
       (match md with
        | none => true
        | some m => (g.creation || m.creation.isSome) && (g.maxChars || m.maxChars.isSome) &&
                    (g.maxRows || m.maxRows.isSome) && (g.revisionDate || m.revisionDate.isSome)) &&
       (g.items || !cues.isEmpty)) :=
  Tot.STLW.newGSIG_safe g now md cues

/-- **the D15 guard is necessary**: the pinned writer on a cue list without metadata (e.g. read from SubRip) is a nil dereference -/
theorem stl_write_needs_metadata_guard (now : STL.Date) (cues : List STL.WCue) (h : cues ≠ []) :
    Tot.STLW.writeU now none cues = .error .nilDeref :=
  Tot.STLW.writeU_no_metadata now cues h

/-- the `getD` defaults of the model's `gsiBytes` (`creation`, `revisionDate`, `maxChars`, `maxRows`) are never used:
    `newGSI` fills all four -/
theorem stl_gsi_bytes_checked (now : STL.Date) (md : Option STL.Meta) (cues : List STL.WCue) :
    Tot.STLW.gsiBytesC (STL.newGSI now md cues) = .ok (STL.gsiBytes (STL.newGSI now md cues)) :=
  Tot.STLW.gsiBytesC_newGSI now md cues

/-- the cut `i[:length]` of `BytesPad` needs its `len(i) > length` test -/
theorem stl_pad_needs_length_guard (n : Nat) (s : STL.Bytes) : Tot.STLW.padCutU n s = .error .slice ↔ s.length < n :=
  Tot.STLW.padCutU_panics_iff n s

end C08tot2
end Astisub
