import Astisub.Model.SSAStyleKeys
import Astisub.Props.C19

/-!
# Props/C19c — style entries sharing an identifier under different map keys (D32)

`C19.ssa_deterministic` needs distinct identifiers (`Nodup`), which a Go map guarantees for its *keys* only.  At the
excluded point — two keys, one `Style.ID` — the pinned `WriteToSSA` was not deterministic: which of the two styles it
wrote (twice) followed the map's iteration order (`pinned_depends_on_map_order`, replayed on the library by the
stream `det.dupid`).  After the repair (entries visited in sorted key order) the emitted style lines are a function
of the map (`emitted_perm_invariant`), and the entry with the greatest key is the one written (`winner`).
-/

namespace Astisub
namespace C19c
open List SSAKeys Go

theorem leKey_trans (a b c : Entry) : leKey a b → leKey b c → leKey a c := by
  unfold leKey strLt
  simp only [Bool.not_eq_true', decide_eq_false_iff_not]
  intro h1 h2 h3
  have := String.le_trans (String.not_lt.mp h1) (String.not_lt.mp h2)
  exact absurd h3 (String.not_lt.mpr this)

theorem leKey_total (a b : Entry) : (leKey a b || leKey b a) = true := by
  unfold leKey strLt
  simp only [Bool.or_eq_true, Bool.not_eq_true', decide_eq_false_iff_not]
  rcases String.le_total (String.ofList a.key) (String.ofList b.key) with h | h
  · exact Or.inl (String.not_lt.mpr h)
  · exact Or.inr (String.not_lt.mpr h)

theorem leKey_antisymm (a b : Entry) : leKey a b → leKey b a → a.key = b.key := by
  unfold leKey strLt
  simp only [Bool.not_eq_true', decide_eq_false_iff_not]
  intro h1 h2
  exact C19.ofList_inj (String.le_antisymm (String.not_lt.mp h1) (String.not_lt.mp h2))

theorem eq_of_key_eq (l : List Entry) (hn : (l.map (·.key)).Nodup) :
    ∀ x ∈ l, ∀ y ∈ l, x.key = y.key → x = y := by
  induction l with
  | nil => intro x hx; cases hx
  | cons z zs ih =>
    intro x hx y hy hxy
    simp only [map_cons, nodup_cons, mem_map, not_exists, not_and] at hn
    rcases mem_cons.mp hx with rfl | hx' <;> rcases mem_cons.mp hy with rfl | hy'
    · rfl
    · exact absurd hxy.symm (hn.1 y hy')
    · exact absurd hxy (hn.1 x hx')
    · exact ih hn.2 x hx' y hy' hxy

/-- two enumerations of one map (keys distinct, identifiers arbitrary) are visited in the same order -/
theorem byKey_perm_invariant (l₁ l₂ : List Entry) (hp : l₁ ~ l₂) (hn : (l₁.map (·.key)).Nodup) :
    byKey l₁ = byKey l₂ := by
  unfold byKey
  apply Perm.eq_of_pairwise (le := fun a b => leKey a b = true)
  · intro a b ha hb hab hba
    exact eq_of_key_eq l₁ hn a (mem_mergeSort.mp ha) b (hp.mem_iff.mpr (mem_mergeSort.mp hb))
      (leKey_antisymm a b hab hba)
  · exact pairwise_mergeSort leKey_trans leKey_total l₁
  · exact pairwise_mergeSort leKey_trans leKey_total l₂
  · exact (mergeSort_perm l₁ leKey).trans (hp.trans (mergeSort_perm l₂ leKey).symm)

/-- **the repaired writer is deterministic without any hypothesis on the identifiers**: the style lines do not depend
    on the order in which the runtime enumerates the map, even when several entries carry the same `Style.ID` -/
theorem emitted_perm_invariant (l₁ l₂ : List Entry) (hp : l₁ ~ l₂) (hn : (l₁.map (·.key)).Nodup) :
    emitted l₁ = emitted l₂ ∧ table l₁ = table l₂ := by
  unfold emitted table
  rw [byKey_perm_invariant l₁ l₂ hp hn]
  exact ⟨rfl, rfl⟩

private def wA : Entry := ⟨['a'], { id := ['x'], attrs := some [(['f'], ['A'])] }⟩
private def wB : Entry := ⟨['b'], { id := ['x'], attrs := some [(['f'], ['B'])] }⟩

/-- **the pinned writer was not** (the negation, with the witness the library is replayed on): the same two-entry map
    enumerated in its two orders holds different styles under the emitted name `x` -/
theorem pinned_depends_on_map_order :
    ∃ (l₁ l₂ : List Entry) (n : Str), l₁ ~ l₂ ∧ (l₁.map (·.key)).Nodup ∧ n ∈ names l₁ ∧
      (tableIn l₁).lookup n ≠ (tableIn l₂).lookup n := by
  refine ⟨[wA, wB], [wB, wA], ['x'], Perm.swap _ _ _, by decide, ?_, by decide⟩
  unfold names; rw [mem_mergeSort]; decide

theorem lookup_tableIn_aux (l : List Entry) (t : List (Str × Def)) (n : Str) :
    (l.foldl (fun t e => (e.d.id, e.d) :: t) t).lookup n =
      match (l.filter (fun e => n == e.d.id)).getLast? with
      | some e => some e.d
      | none => t.lookup n := by
  induction l generalizing t with
  | nil => simp
  | cons e es ih =>
    rw [foldl_cons, ih]
    by_cases hne : (n == e.d.id) = true
    · simp only [filter_cons, hne, if_true]
      cases hf : (es.filter (fun e => n == e.d.id)) with
      | nil => simp [lookup_cons, hne]
      | cons y ys => rw [getLast?_cons_cons, getLast?_cons]
    · have hne' : (n == e.d.id) = false := by simpa using hne
      simp only [filter_cons, hne', Bool.false_eq_true, if_false]
      cases hf : (es.filter (fun e => n == e.d.id)).getLast? with
      | some y => rfl
      | none => simp [lookup_cons, hne']

/-- **which entry is written**: under a name, the style of the last entry in key order that carries it, i.e. the one
    with the greatest key -/
theorem winner (es : List Entry) (n : Str) :
    (table es).lookup n = (((byKey es).filter (fun e => n == e.d.id)).getLast?).map (·.d) := by
  unfold table tableIn
  rw [lookup_tableIn_aux]
  cases ((byKey es).filter (fun e => n == e.d.id)).getLast? <;> simp

/-- `byKey` really is sorted by key (so "last" above means "greatest key") and holds the same entries -/
theorem byKey_sorted (es : List Entry) : (byKey es).Pairwise (fun a b => leKey a b = true) ∧ byKey es ~ es :=
  ⟨pairwise_mergeSort leKey_trans leKey_total es, mergeSort_perm es leKey⟩

/-- one `Style:` line per stored entry (a shared name is written as often as it is stored) -/
theorem emitted_length (es : List Entry) : (emitted es).length = es.length := by
  unfold emitted emittedIn names byKey
  simp [length_mergeSort]

/-- every line written is a stored style carrying the name it is written under -/
theorem emitted_stored (es : List Entry) (o : Option Def) (h : o ∈ emitted es) :
    ∃ e ∈ es, o = some e.d := by
  unfold emitted emittedIn at h
  obtain ⟨n, hn, rfl⟩ := mem_map.mp h
  have hn' : n ∈ (byKey es).map (·.d.id) := by
    unfold names at hn; exact mem_mergeSort.mp hn
  obtain ⟨e0, he0, rfl⟩ := mem_map.mp hn'
  have hw := winner es e0.d.id
  unfold table at hw
  rw [hw]
  have hne : (byKey es).filter (fun e => e0.d.id == e.d.id) ≠ [] := by
    intro hnil
    have : e0 ∈ (byKey es).filter (fun e => e0.d.id == e.d.id) := mem_filter.mpr ⟨he0, by simp⟩
    rw [hnil] at this; cases this
  cases hl : ((byKey es).filter (fun e => e0.d.id == e.d.id)).getLast? with
  | none => exact absurd (getLast?_eq_none_iff.mp hl) hne
  | some e1 =>
    have hm : e1 ∈ (byKey es).filter (fun e => e0.d.id == e.d.id) := mem_of_getLast? hl
    have hm' : e1 ∈ byKey es := (mem_filter.mp hm).1
    exact ⟨e1, (mergeSort_perm es leKey).mem_iff.mp hm', rfl⟩

/-- non-vacuity of `winner`: with keys `a`, `b` sharing the name `x`, visiting in key order leaves `b`'s style -/
example : (tableIn [wA, wB]).lookup ['x'] = some wB.d := by decide

end C19c
end Astisub
