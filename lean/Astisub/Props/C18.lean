import Astisub.Lemmas.Scan
import Astisub.Model.IO
import Astisub.Props.C17

/-!
# C18 — I/O faults are reported, never swallowed: no silent truncation

Readers: `IO.lineReader true` over `Go.scan` (SRT, WebVTT, SSA after the `fix:` commit that
checks `scanner.Err()`), `IO.stlBlocks` (STL).  Writers: `IO.writeAll` (a sequence of `Write`
calls against a destination that fails after `cap` bytes).  For every schedule, every fault
offset, every document.  TTML (`encoding/xml`) and teletext (`go-astits`) are covered by the
`io.fault` / `io.wfault` correspondence streams only.
-/

namespace Astisub
namespace C18
open Go IO List

/-- a stream that fails (at any offset, under any chunking) never yields a successful read -/
theorem read_fault_is_error {α : Type} (parse : List (List UInt8) → Outcome α)
    (cs : List (List UInt8)) : lineReader true parse (scan true [] cs .fault 0) = .err := by
  unfold lineReader
  have h := scan_fault true [] cs 0
  cases hp : parse (scan true [] cs .fault 0).1 with
  | err => rfl
  | ok v =>
    have : (scan true [] cs .fault 0).2.isSome = true := by
      cases hh : (scan true [] cs .fault 0).2 with
      | none => exact absurd hh h
      | some _ => rfl
    simp [this]

/-- the pinned readers never consulted `scanner.Err()`: whenever the lines read so far parse,
    the fault is swallowed (defect D3) -/
theorem pinned_swallows_fault {α : Type} (parse : List (List UInt8) → Outcome α)
    (cs : List (List UInt8)) (v : α) (hp : parse (scan true [] cs .fault 0).1 = .ok v) :
    lineReader false parse (scan true [] cs .fault 0) = .ok v := by
  simp [lineReader, hp]

/-- no partial success: a reader returns a value only if the stream ended with EOF, the scanner
    hit none of its limits, and then the value is the parse of *all* lines of *all* bytes -/
theorem no_partial_success {α : Type} (parse : List (List UInt8) → Outcome α)
    (cs : List (List UInt8)) (e : End) (v : α)
    (h : lineReader true parse (scan true [] cs e 0) = .ok v) :
    e = .eof ∧ parse (linesOf cs.flatten) = .ok v := by
  unfold lineReader at h
  cases hp : parse (scan true [] cs e 0).1 with
  | err => rw [hp] at h; cases h
  | ok w =>
    rw [hp] at h
    simp only at h
    cases herr : (scan true [] cs e 0).2 with
    | some x => rw [herr] at h; simp at h
    | none =>
      rw [herr] at h
      simp at h
      subst h
      have ⟨he, ht⟩ := C17.no_error_all_lines cs e herr
      exact ⟨he, by rw [← ht]; exact hp⟩

/-! ### a line the repaired scanner refuses: more than `maxLineSize = 65535` bytes, terminator excluded -/

/-- **A long line fails, and the bytes say with which error.** If some line of the bytes is longer
    than 65535 bytes, then — for every schedule on which the reader is well behaved — the
    scanner's error is `bufio.ErrTooLong`; or, when the stream ends with a read error and that
    error was latched before the split function met the long line, the read error
    (`Scanner.setErr` keeps the first error that is not `io.EOF`). Never nil. -/
theorem long_line_fails (cs : List (List UInt8)) (e : End)
    (hlong : ∃ l ∈ linesOf cs.flatten, maxLineSize < l.length)
    (h : NoStall (scan true [] cs e 0).2) :
    (scan true [] cs e 0).2 = some .tooLong ∨ (e = .fault ∧ (scan true [] cs e 0).2 = some .io) := by
  have hf := (firstLong_iff cs.flatten).mpr hlong
  rcases (C17.scan_bytes cs e h).2 with h2 | ⟨_, h2⟩
  · rw [hf] at h2
    cases e with
    | eof => left; exact h2
    | fault => right; exact ⟨rfl, h2⟩
  · left; exact h2

/-- stream ending with `io.EOF`: exactly `bufio.ErrTooLong`, and the lines before the long one -/
theorem long_line_fails_eof (cs : List (List UInt8))
    (hlong : ∃ l ∈ linesOf cs.flatten, maxLineSize < l.length)
    (h : NoStall (scan true [] cs .eof 0).2) :
    scan true [] cs .eof 0 = (linesBefore cs.flatten, some .tooLong) := by
  rw [C17.scan_bytes_eof cs h, (firstLong_iff cs.flatten).mpr hlong]; rfl

/-- with no hypothesis on the reader: the error is never nil (so, by `lineReader`, every reader
    fails) — the other possible errors are the scanner's complaints about the reader -/
theorem long_line_is_error (cs : List (List UInt8)) (e : End)
    (hlong : ∃ l ∈ linesOf cs.flatten, maxLineSize < l.length) :
    (scan true [] cs e 0).2 ≠ none := by
  by_cases h : NoStall (scan true [] cs e 0).2
  · rcases long_line_fails cs e hlong h with h2 | ⟨_, h2⟩ <;> rw [h2] <;> simp
  · intro hn; apply h; rw [hn]; simp [NoStall]

/-- conversely the repaired scanner never delivers such a line -/
theorem no_long_line_delivered (cs : List (List UInt8)) (e : End) :
    ∀ t ∈ (scan true [] cs e 0).1, t.length ≤ maxLineSize :=
  scan_tok_le [] cs e 0

/-- … and a document all of whose lines fit is read in full, without error, on every
    well-behaved delivery that ends with `io.EOF`: the limit is exactly 65535 -/
theorem short_lines_pass (cs : List (List UInt8))
    (hshort : ∀ l ∈ linesOf cs.flatten, l.length ≤ maxLineSize)
    (h : NoStall (scan true [] cs .eof 0).2) :
    scan true [] cs .eof 0 = (linesOf cs.flatten, none) := by
  have hf : firstLong cs.flatten = false := by
    cases hc : firstLong cs.flatten with
    | false => rfl
    | true =>
      obtain ⟨l, hl, hlen⟩ := (firstLong_iff _).mp hc
      have := hshort l hl; omega
  rw [C17.scan_bytes_eof cs h, hf, linesBefore_eq_of_not_long hf]; rfl

theorem long_line_reader_error {α : Type} (parse : List (List UInt8) → Outcome α)
    (cs : List (List UInt8)) (e : End)
    (hlong : ∃ l ∈ linesOf cs.flatten, maxLineSize < l.length) :
    lineReader true parse (scan true [] cs e 0) = .err := by
  have h := long_line_is_error cs e hlong
  unfold lineReader
  cases hp : parse (scan true [] cs e 0).1 with
  | err => rfl
  | ok v =>
    have : (scan true [] cs e 0).2.isSome = true := by
      cases hh : (scan true [] cs e 0).2 with
      | none => exact absurd hh h
      | some _ => rfl
    simp [this]

/-- non-vacuity, without evaluating a 65536-element list: a document whose first line is 65536
    letters — followed by anything — has a long line; delivered one byte per `Read` it ends with
    `bufio.ErrTooLong` and no token -/
theorem long_line_example (rest : List UInt8) :
    (∃ l ∈ linesOf (List.replicate (maxLineSize + 1) 97 ++ rest), maxLineSize < l.length) ∧
    scan true [] ((List.replicate (maxLineSize + 1) 97 ++ rest).map fun b => [b]) .eof 0 =
      ([], some .tooLong) := by
  have hl := lineTooLong_of_noEOL rest (noEOL_replicate (maxLineSize + 1)) (by rw [List.length_replicate]; omega)
  have ⟨h1, h2⟩ := firstLong_of_lineTooLong hl
  refine ⟨(firstLong_iff _).mp h2, ?_⟩
  rw [C17.bytewise, h1, h2]; rfl

/-! ### STL block reader -/

/-- a faulting stream never ends the block loop cleanly -/
theorem stl_fault_not_clean (fuel : Nat) (cs : List (List UInt8)) (hf : cs.flatten.length < fuel) :
    (ttiBlocks .fault fuel cs).2 = .fault := by
  induction fuel generalizing cs with
  | zero => omega
  | succ fuel ih =>
    unfold ttiBlocks
    simp only
    split
    · rename_i h128
      have hspec := C17.readFull_spec 128 cs
      have hlen : (readFull 128 cs).2.flatten.length < fuel := by
        rw [hspec.2, List.length_drop]
        have : (readFull 128 cs).1.length ≤ cs.flatten.length := by
          rw [hspec.1, List.length_take]; omega
        omega
      exact ih _ hlen
    · simp

/-! ### writers -/

theorem writeAll_spec (cap : Nat) (ws : List (List UInt8)) :
    ((writeAll cap ws).2 = true ↔ ws.flatten.length ≤ cap) ∧
      (writeAll cap ws).1 = ws.flatten.take cap := by
  induction ws generalizing cap with
  | nil => simp [writeAll]
  | cons w ws ih =>
    unfold writeAll
    by_cases hw : w.length ≤ cap
    · simp only [hw, ↓reduceIte]
      obtain ⟨h1, h2⟩ := ih (cap - w.length)
      constructor
      · rw [h1]; simp; omega
      · rw [h2]; simp [List.take_append, List.take_of_length_le hw]
    · simp only [hw, ↓reduceIte]
      have hlt : cap < w.length := by omega
      constructor
      · simp; omega
      · simp [List.take_append_of_le_length (Nat.le_of_lt hlt)]

/-- if the destination fails before the document is complete, the writer reports an error -/
theorem write_fault_is_error (cap : Nat) (ws : List (List UInt8)) (h : cap < ws.flatten.length) :
    (writeAll cap ws).2 = false := by
  have := (writeAll_spec cap ws).1
  cases hb : (writeAll cap ws).2 with
  | false => rfl
  | true => have := this.mp hb; omega

/-- a successful return means the complete document was handed to the destination -/
theorem write_success_complete (cap : Nat) (ws : List (List UInt8)) (h : (writeAll cap ws).2 = true) :
    (writeAll cap ws).1 = ws.flatten := by
  have ⟨h1, h2⟩ := writeAll_spec cap ws
  rw [h2, List.take_of_length_le (h1.mp h)]

end C18
end Astisub
