import Astisub.Lemmas.Scan
import Astisub.Model.IO
import Astisub.Props.C17

/-!
# C18 — I/O faults are reported, never swallowed: no silent truncation

Readers: `IO.lineReader true` over `Go.scan` (SRT, WebVTT, SSA after the `fix:` commit that
checks `scanner.Err()`), `IO.stlBlocks` (STL).  Writers: `IO.writeAll` (a sequence of `Write`
calls against a destination that fails after `cap` bytes).  For every schedule, every fault
offset, every document.  TTML (`encoding/xml`) and teletext (`go-astits`) are covered by the
`io.fault` / `io.wfault` correspondence streams only.
-/

namespace Astisub
namespace C18
open Go IO List

/-- a stream that fails (at any offset, under any chunking) never yields a successful read -/
theorem read_fault_is_error {α : Type} (parse : List (List UInt8) → Outcome α)
    (cs : List (List UInt8)) : lineReader true parse (scan true [] cs .fault 0) = .err := by
  unfold lineReader
  have h := scan_fault true [] cs 0
  cases hp : parse (scan true [] cs .fault 0).1 with
  | err => rfl
  | ok v =>
    have : (scan true [] cs .fault 0).2.isSome = true := by
      cases hh : (scan true [] cs .fault 0).2 with
      | none => exact absurd hh h
      | some _ => rfl
    simp [this]

/-- the pinned readers never consulted `scanner.Err()`: whenever the lines read so far parse,
    the fault is swallowed (defect D3) -/
theorem pinned_swallows_fault {α : Type} (parse : List (List UInt8) → Outcome α)
    (cs : List (List UInt8)) (v : α) (hp : parse (scan true [] cs .fault 0).1 = .ok v) :
    lineReader false parse (scan true [] cs .fault 0) = .ok v := by
  simp [lineReader, hp]

/-- no partial success: a reader returns a value only if the stream ended with EOF, the scanner
    hit none of its limits, and then the value is the parse of *all* lines of *all* bytes -/
theorem no_partial_success {α : Type} (parse : List (List UInt8) → Outcome α)
    (cs : List (List UInt8)) (e : End) (v : α)
    (h : lineReader true parse (scan true [] cs e 0) = .ok v) :
    e = .eof ∧ parse (linesOf cs.flatten) = .ok v := by
  unfold lineReader at h
  cases hp : parse (scan true [] cs e 0).1 with
  | err => rw [hp] at h; cases h
  | ok w =>
    rw [hp] at h
    simp only at h
    cases herr : (scan true [] cs e 0).2 with
    | some x => rw [herr] at h; simp at h
    | none =>
      rw [herr] at h
      simp at h
      subst h
      have hlf : LimitFree (scan true [] cs e 0).2 := by
        rw [herr]; exact ⟨by simp, by simp, by simp⟩
      have ⟨ht, he⟩ := C17.tokens_are_lines cs e hlf
      rw [herr] at he
      refine ⟨?_, by rw [← ht]; exact hp⟩
      cases e with
      | eof => rfl
      | fault => simp [endErr] at he

/-- a line the scanner cannot buffer: if the document has a line of more than 65536 bytes, the
    scanner ends with an error under every schedule (so, by `lineReader`, every reader does) -/
theorem long_line_is_error (cs : List (List UInt8)) (e : End)
    (hlong : ∃ l ∈ linesOf cs.flatten, maxTokenSize < l.length) :
    (scan true [] cs e 0).2 ≠ none := by
  intro hnone
  have hlf : LimitFree (scan true [] cs e 0).2 := by
    rw [hnone]; exact ⟨by simp, by simp, by simp⟩
  have ⟨ht, _⟩ := C17.tokens_are_lines cs e hlf
  obtain ⟨l, hl, hlen⟩ := hlong
  have := scan_tok_len true [] cs e 0 (by simp) l (by rw [ht]; exact hl)
  omega

theorem long_line_reader_error {α : Type} (parse : List (List UInt8) → Outcome α)
    (cs : List (List UInt8)) (e : End)
    (hlong : ∃ l ∈ linesOf cs.flatten, maxTokenSize < l.length) :
    lineReader true parse (scan true [] cs e 0) = .err := by
  have h := long_line_is_error cs e hlong
  unfold lineReader
  cases hp : parse (scan true [] cs e 0).1 with
  | err => rfl
  | ok v =>
    have : (scan true [] cs e 0).2.isSome = true := by
      cases hh : (scan true [] cs e 0).2 with
      | none => exact absurd hh h
      | some _ => rfl
    simp [this]

/-! ### STL block reader -/

/-- a faulting stream never ends the block loop cleanly -/
theorem stl_fault_not_clean (fuel : Nat) (cs : List (List UInt8)) (hf : cs.flatten.length < fuel) :
    (ttiBlocks .fault fuel cs).2 = .fault := by
  induction fuel generalizing cs with
  | zero => omega
  | succ fuel ih =>
    unfold ttiBlocks
    simp only
    split
    · rename_i h128
      have hspec := C17.readFull_spec 128 cs
      have hlen : (readFull 128 cs).2.flatten.length < fuel := by
        rw [hspec.2, List.length_drop]
        have : (readFull 128 cs).1.length ≤ cs.flatten.length := by
          rw [hspec.1, List.length_take]; omega
        omega
      exact ih _ hlen
    · simp

/-! ### writers -/

theorem writeAll_spec (cap : Nat) (ws : List (List UInt8)) :
    ((writeAll cap ws).2 = true ↔ ws.flatten.length ≤ cap) ∧
      (writeAll cap ws).1 = ws.flatten.take cap := by
  induction ws generalizing cap with
  | nil => simp [writeAll]
  | cons w ws ih =>
    unfold writeAll
    by_cases hw : w.length ≤ cap
    · simp only [hw, ↓reduceIte]
      obtain ⟨h1, h2⟩ := ih (cap - w.length)
      constructor
      · rw [h1]; simp; omega
      · rw [h2]; simp [List.take_append, List.take_of_length_le hw]
    · simp only [hw, ↓reduceIte]
      have hlt : cap < w.length := by omega
      constructor
      · simp; omega
      · simp [List.take_append_of_le_length (Nat.le_of_lt hlt)]

/-- if the destination fails before the document is complete, the writer reports an error -/
theorem write_fault_is_error (cap : Nat) (ws : List (List UInt8)) (h : cap < ws.flatten.length) :
    (writeAll cap ws).2 = false := by
  have := (writeAll_spec cap ws).1
  cases hb : (writeAll cap ws).2 with
  | false => rfl
  | true => have := this.mp hb; omega

/-- a successful return means the complete document was handed to the destination -/
theorem write_success_complete (cap : Nat) (ws : List (List UInt8)) (h : (writeAll cap ws).2 = true) :
    (writeAll cap ws).1 = ws.flatten := by
  have ⟨h1, h2⟩ := writeAll_spec cap ws
  rw [h2, List.take_of_length_le (h1.mp h)]

end C18
end Astisub
