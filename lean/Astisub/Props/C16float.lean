import Astisub.Lemmas.C16FFrac
import Astisub.Lemmas.C16FStl
import Astisub.Props.C16

/-!
# C16 (float) — the integer model of the timestamp writers is what binary64 arithmetic computes

`Model/Duration.lean` models the fraction field of `formatDuration` and the hour / minute / second
fields of the STL timecode writers by integer division, while the Go code computes them through
`float64`:

* `formatDuration` (`subtitles.go`): `math.Floor(float64(n) / float64(time.Millisecond) /
  float64(math.Pow(10, 3-float64(digits))))` with `n = i % time.Second`;
* `formatDurationSTL`, `formatDurationSTLBytes` (`stl.go`): `math.Floor(d.Hours())`,
  `math.Floor(d.Minutes())`, `math.Floor(d.Seconds())` and the test `d.Hours() < 10`, where
  `Duration.Hours()` is `float64(d / Hour) + float64(d % Hour) / (60*60*1e9)` (`time/time.go`).

This file evaluates those expression trees with the executable binary64 model `Go/Float53.lean`
— proved correctly rounded (round-to-nearest-even, 53 bits) in `Props/C15float.lean` — and proves
that the result is the integer formula of the model, for **all** inputs in the stated ranges.
The integer model is thereby derived from IEEE-754 arithmetic instead of being assumed; what
remains assumed is that the hardware's float64 is the executable model (stream `lib.f53`, bit for
bit) and that `FormatFloat(v, 'f', 0, 64)` / `int(v)` of an integer-valued double `v` give that
integer.

Everything else in the timestamp codec is integer arithmetic in the Go code as well (hours,
minutes, seconds of `formatDuration`; `parseDuration` except the table look-up `math.Pow10`,
see `reader_scale_exact`; STL frames since the `fix:` commit D16; TTML offsets / frames / ticks
use `math/big`).
-/

namespace Astisub
namespace C16float
open Go Duration F53 C16F

/-! ## 1. The three float primitives added to the model are the IEEE operations -/

/-- `Dy.floor` (`math.Floor` read as an integer) is the mathematical floor of the double's value. -/
theorem floor_correct (x : Dy) : x.floor = ⌊x.val⌋ := floor_val x

/-- On a non-negative double `math.Floor` and Go's float → int conversion agree. -/
theorem floor_is_trunc (x : Dy) (h : 0 ≤ x.val) : x.floor = x.trunc := floor_eq_trunc x h

/-- `x + y` is the correctly rounded sum (round-to-nearest-even of the exact rational sum). -/
theorem add_correct (x y : Dy) : (Dy.add x y).val = rnd (x.val + y.val) := add_val x y

/-- The comparison `x < y` of two doubles is the comparison of their values. -/
theorem lt_correct (x y : Dy) : Dy.lt x y = true ↔ x.val < y.val := lt_val x y

/-! ## 2. The fraction field of `formatDuration` -/

/-- the remainder `n = i % time.Second` of a non-negative instant -/
def RemOK (n : Int) : Prop := 0 ≤ n ∧ n < 1000000000

instance (n : Int) : Decidable (RemOK n) := by unfold RemOK; infer_instance

example : RemOK 999999999 := by decide
example : RemOK 123456789 := by decide
example : ¬ RemOK 1000000000 := by decide

/-- **The float fraction is the integer quotient.** For every remainder `0 ≤ n < 10⁹` and every
    digit count, the binary64 evaluation of
    `math.Floor(float64(n) / 1e6 / float64(10^(3-digits)))` — two correctly rounded divisions, then
    floor — equals the integer division `n / (10⁶ · 10^(3-digits))`: neither rounding pushes the
    quotient across an integer. (`3 - digits` is the natural subtraction of the model, so the
    divisor is 1000, 100, 10, 1 for `digits = 0 … 3`; the package passes 2 and 3 only. For
    `digits > 3` the Go expression would divide by a negative power of ten, which neither `fracF`
    nor `Duration.format` models.) -/
theorem frac_float_eq_int (n : Int) (digits : Nat) (h : RemOK n) :
    fracF n digits = n / (1000000 * 10 ^ (3 - digits)) := fracF_eq n digits h.1 h.2

/-- three digits (SRT, WebVTT, TTML): the float expression yields the milliseconds `n / 10⁶` … -/
theorem frac_float_ms (n : Int) (h : RemOK n) : fracF n 3 = n / 1000000 := by
  rw [frac_float_eq_int n 3 h]; rfl

/-- … two digits (SSA): the centiseconds `n / 10⁷`. -/
theorem frac_float_cs (n : Int) (h : RemOK n) : fracF n 2 = n / 10000000 := by
  rw [frac_float_eq_int n 2 h]; rfl

/-- The float fraction has at most `digits` decimal digits: `0 ≤ fracF n 3 < 1000`, `… 2 < 100`. -/
theorem frac_float_range (n : Int) (h : RemOK n) :
    0 ≤ fracF n 3 ∧ fracF n 3 < 1000 ∧ 0 ≤ fracF n 2 ∧ fracF n 2 < 100 := by
  rw [frac_float_ms n h, frac_float_cs n h]
  unfold RemOK at h
  omega

/-- the model really rounds: `1 ns / 1e6` is not a double (the quotient is inexact), and the
    evaluation of the largest remainder is computed by the kernel -/
example : Dy.div (Dy.ofInt 1) (Dy.ofInt 1000000) = ⟨4722366482869645, -72⟩ := by decide
example : fracF 999999999 3 = 999 := by decide
example : fracF 999999999 2 = 99 := by decide

/-- The exponent handed to `math.Pow` is computed exactly: `3 - float64(digits)` is the double
    `3 - digits` (0 for three digits, 1 for two — the two cases in which Go's `pow` returns `1` and
    `x = 10` through its special cases, without any arithmetic). -/
theorem pow_exponent_exact (digits : Nat) (h : digits ≤ 3) :
    (Dy.sub (Dy.ofInt 3) (Dy.ofInt digits)).val = ((3 - digits : Nat) : ℚ) := by
  have h1 : |((digits : ℤ))| ≤ 2 ^ 53 := by rw [abs_of_nonneg (by omega)]; omega
  have h2 : |((3 : ℤ) - (digits : ℤ))| ≤ 2 ^ 53 := by rw [abs_of_nonneg (by omega)]; omega
  rw [sub_val, ofInt_val, ofInt_val, rnd_int 3 (by decide), rnd_int _ h1]
  have : ((3 : ℤ) : ℚ) - ((digits : ℤ) : ℚ) = (((3 : ℤ) - (digits : ℤ) : ℤ) : ℚ) := by push_cast; ring
  rw [this, rnd_int _ h2]
  push_cast [Nat.cast_sub h]; ring

/-! ## 3. `Duration.format` is the float evaluation -/

/-- **The fraction field the model prints is the float fraction.** For every instant `t ≥ 0`, the
    text `Duration.format t sep digits` is `HH:MM:SS<sep>` followed by the decimal of
    `fracF (t % 10⁹) digits` — the binary64 value of the Go expression — left-padded with zeros
    to `digits` places. (`Int.tdiv` / `Int.tmod` are Go's `/` and `%`.) -/
theorem format_fraction_is_float (t : Int) (sep : Char) (digits : Nat) (h0 : 0 ≤ t) :
    Duration.format t sep digits
      = pad2 (Int.tdiv t 3600000000000).toNat ++ ':' ::
        pad2 (Int.tdiv (Int.tmod t 3600000000000) 60000000000).toNat ++ ':' ::
        pad2 (Int.tdiv (Int.tmod t 60000000000) 1000000000).toNat ++ sep ::
        padLeft0 digits (itoa (fracF (Int.tmod t 1000000000) digits)) :=
  format_eq_formatF t sep digits h0

/-- the same, as an equation between the two formatters (`formatF` = the right-hand side above) -/
theorem format_is_float (t : Int) (sep : Char) (digits : Nat) (h0 : 0 ≤ t) :
    Duration.format t sep digits = formatF t sep digits := format_eq_formatF t sep digits h0

/-- the remainder handed to the float expression is in range for every `t ≥ 0` -/
theorem rem_ok (t : Int) (h0 : 0 ≤ t) : RemOK (Int.tmod t 1000000000) := by
  rw [Int.tmod_eq_emod_of_nonneg h0]; unfold RemOK; omega

/-- the C16 range of instants: `0 ≤ t < 100 h` -/
def InstantOK (t : Int) : Prop := 0 ≤ t ∧ t < 360000000000000

instance (t : Int) : Decidable (InstantOK t) := by unfold InstantOK; infer_instance

example : InstantOK 359999999999999 := by decide
example : InstantOK 86399999999999 := by decide

/-! ### the C16 theorems, restated for the formatter that computes its fraction in binary64 -/

/-- **Shape, float formatter.** For `0 ≤ t < 100 h` the formatter with the binary64 fraction
    renders exactly `HH:MM:SS<sep>FFF`, and the fields add up to `t` truncated to the millisecond. -/
theorem float_shape3 (t : Int) (sep : Char) (h : InstantOK t) :
    ∃ hh m s f : Nat, hh < 100 ∧ m < 60 ∧ s < 60 ∧ f < 1000 ∧
      formatF t sep 3 = C16.canon3 hh m s f sep ∧
      (f : Int) * nsPerMs + (s : Int) * nsPerS + (m : Int) * nsPerMin + (hh : Int) * nsPerH
        = t - t % 1000000 := by
  rw [← format_eq_formatF t sep 3 h.1]; exact C16.format_shape3 t sep h.1 h.2

/-- … two fraction digits (SSA), truncated to the centisecond. -/
theorem float_shape2 (t : Int) (sep : Char) (h : InstantOK t) :
    ∃ hh m s f : Nat, hh < 100 ∧ m < 60 ∧ s < 60 ∧ f < 100 ∧
      formatF t sep 2 = C16.canon2 hh m s f sep ∧
      (f : Int) * 10 * nsPerMs + (s : Int) * nsPerS + (m : Int) * nsPerMin + (hh : Int) * nsPerH
        = t - t % 10000000 := by
  rw [← format_eq_formatF t sep 2 h.1]; exact C16.format_shape2 t sep h.1 h.2

/-- **Round trip, float formatter.** The reader maps the text produced with the binary64 fraction
    back to `t` truncated to the millisecond (separator `.` or `,`) … -/
theorem float_roundtrip3 (t : Int) (sep : Char) (hsep : sep = '.' ∨ sep = ',') (h : InstantOK t) :
    parse (formatF t sep 3) sep 3 = some (t - t % 1000000) := by
  rw [← format_eq_formatF t sep 3 h.1]; exact C16.parse_format3 t sep hsep h.1 h.2

/-- … and the two-digit text (SSA writer, three-digit reader) to `t` truncated to the centisecond. -/
theorem float_roundtrip2 (t : Int) (sep : Char) (hsep : sep = '.' ∨ sep = ',') (h : InstantOK t) :
    parse (formatF t sep 2) sep 3 = some (t - t % 10000000) := by
  rw [← format_eq_formatF t sep 2 h.1]; exact C16.parse_format2 t sep hsep h.1 h.2

/-- per format: SRT (`,`, 3 digits), WebVTT and TTML clock times (`.`, 3 digits), SSA (`.`, 2 digits) -/
theorem srt_roundtrip_float (t : Int) (h : InstantOK t) :
    parseSRT (formatF t ',' 3) = some (t - t % 1000000) := by
  rw [← format_eq_formatF t ',' 3 h.1]; exact C16.srt_roundtrip t h.1 h.2

theorem vtt_roundtrip_float (t : Int) (h : InstantOK t) :
    parseVTT (formatF t '.' 3) = some (t - t % 1000000) := by
  rw [← format_eq_formatF t '.' 3 h.1]; exact C16.vtt_roundtrip t h.1 h.2

theorem ssa_roundtrip_float (t : Int) (h : InstantOK t) :
    parseSSA (formatF t '.' 2) = some (t - t % 10000000) := by
  rw [← format_eq_formatF t '.' 2 h.1]; exact C16.ssa_roundtrip t h.1 h.2

/-- **Self-inverse, float formatter.** Formatting the value read back gives the identical text. -/
theorem float_idem3 (t : Int) (sep : Char) (h0 : 0 ≤ t) :
    formatF (t - t % 1000000) sep 3 = formatF t sep 3 := by
  rw [← format_eq_formatF t sep 3 h0, ← format_eq_formatF _ sep 3 (by omega)]
  exact C16.format_idem3 t sep h0

theorem float_idem2 (t : Int) (sep : Char) (h0 : 0 ≤ t) :
    formatF (t - t % 10000000) sep 2 = formatF t sep 2 := by
  rw [← format_eq_formatF t sep 2 h0, ← format_eq_formatF _ sep 2 (by omega)]
  exact C16.format_idem2 t sep h0

/-! ## 4. The other float expressions of the timestamp codec -/

/-! ### 4a. reader side: `parseDuration` -/

/-- **Reader.** The only float in `parseDuration` is the scale `int(math.Pow10(digits - len(s)))`
    (a table look-up followed by truncation); it is the exact power of ten the model multiplies by
    (the reader has `digits = 3`, `1 ≤ len(s) ≤ 3`, so `k ≤ 2`). -/
theorem reader_scale_exact (k : Nat) (hk : k ≤ 15) : pow10F k = 10 ^ k := pow10F_eq k hk

example : pow10F 2 = 100 := by decide

/-! ### 4b. writer side: the STL timecodes (`Duration.Hours()`, `.Minutes()`, `.Seconds()`) -/

/-- the range in which the float fields are proved: `0 ≤ d < 4096 h` (the C16 STL clause needs
    `< 24 h`) -/
def StlOK (d : Int) : Prop := 0 ≤ d ∧ d < 4096 * 3600000000000

instance (d : Int) : Decidable (StlOK d) := by unfold StlOK; infer_instance

example : StlOK 86399999999999 := by decide
example : StlOK (4096 * 3600000000000 - 1) := by decide

/-- **`math.Floor(d.Hours())` is `d / Hour`** for `0 ≤ d < 4096 h`: the rounded division and the
    rounded addition of `float64(d/Hour) + float64(d%Hour)/3.6e12` never reach the next integer. -/
theorem stl_hours_floor (d : Int) (h : StlOK d) : (hoursF d).floor = d / 3600000000000 :=
  unitsF_floor _ d (by decide) (by decide) h.1 h.2

/-- the same for any unit `U ≤ 1 h` and quotient below 4096: minutes of a duration below
    4096 min, seconds of a duration below 4096 s (the Go code calls them on `d % Hour`, `d % Minute`) -/
theorem stl_units_floor (U d : Int) (hU0 : 0 < U) (hU : U ≤ 3600000000000) (hd0 : 0 ≤ d)
    (hd : d < 4096 * U) : (unitsF U d).floor = d / U := unitsF_floor U d hU0 hU hd0 hd

/-- **`d.Hours() < 10` is `d / Hour < 10`** (the leading-zero test), same range. -/
theorem stl_hours_lt10 (d : Int) (h : StlOK d) :
    Dy.lt (hoursF d) (Dy.ofInt 10) = decide (d / 3600000000000 < 10) :=
  unitsF_lt10 _ d (by decide) (by decide) h.1 h.2

/-- **The bound 4096 h is sharp.** At `d = 4097 h − 1 ns` the sum `4096 + 0.99999999999972…`
    rounds to the double `4097.0` (half an ulp there is `2⁻⁴¹ > 2.8·10⁻¹³`), so
    `math.Floor(d.Hours())` is one more than `d / Hour`, and the text timecode of the float
    evaluation is `40970-15924` instead of the model's `4096595924` (the real function prints
    the same; such durations — 170 days — are far outside the STL range of 24 h). -/
theorem stl_hours_sharp :
    (hoursF (4097 * 3600000000000 - 1)).floor = 4097 ∧
    (4097 * 3600000000000 - 1 : Int) / 3600000000000 = 4096 ∧
    formatSTLF (4097 * 3600000000000 - 1) 25 = "40970-15924".toList ∧
    formatSTL (4097 * 3600000000000 - 1) 25 = "4096595924".toList := by
  refine ⟨by decide, by decide, by decide, by decide⟩

/-- **STL text timecode.** `formatDurationSTL` evaluated with binary64 hours / minutes / seconds
    (floor and `< 10` test on doubles, duration reduced step by step as in the Go code) prints
    exactly what the integer model `Duration.formatSTL` prints, for `0 ≤ d < 4096 h`, any frame rate. -/
theorem stl_text_is_float (d : Int) (fr : Nat) (h : StlOK d) :
    formatSTLF d fr = formatSTL d fr := formatSTLF_eq d fr h.1 h.2

/-- **STL binary timecode.** Likewise `formatDurationSTLBytes` (`byte(uint8(v))` = `v mod 256`),
    for a frame rate that fits a byte. -/
theorem stl_bytes_is_float (d : Int) (fr : Nat) (hfr : fr ≤ 256) (h : StlOK d) :
    formatSTLBytesF d fr = formatSTLBytes d fr := formatSTLBytesF_eq d fr hfr h.1 h.2

/-- **C16 STL clause, float writer.** At 25 and 30 fps, for `0 ≤ t < 24 h`: reading the four bytes
    the float writer emits and writing them again (float writer) changes no field, and the fields
    are in range. -/
theorem stl_bytes_rewrite_float (t : Int) (fr : Nat) (hfr : fr = 25 ∨ fr = 30) (h0 : 0 ≤ t)
    (h1 : t < 86400000000000) :
    formatSTLBytesF (parseSTLBytes true (formatSTLBytesF t fr) fr) fr = formatSTLBytesF t fr ∧
    (∃ h m s f, formatSTLBytesF t fr = [h, m, s, f] ∧ h < 24 ∧ m < 60 ∧ s < 60 ∧ f < fr) := by
  have hfr' : fr ≤ 256 := by rcases hfr with rfl | rfl <;> decide
  have e : formatSTLBytesF t fr = formatSTLBytes t fr :=
    formatSTLBytesF_eq t fr hfr' h0 (by omega)
  obtain ⟨hrw, hh, m, s, f, hfm, b1, b2, b3, b4⟩ := C16.stl_bytes_rewrite t fr hfr h0 h1
  rw [e]
  refine ⟨?_, ⟨hh, m, s, f, hfm, b1, b2, b3, b4⟩⟩
  -- the value read back is again a non-negative duration below 4096 h
  have hp0 : 0 ≤ parseSTLBytes true (formatSTLBytes t fr) fr ∧
      parseSTLBytes true (formatSTLBytes t fr) fr < 4096 * 3600000000000 := by
    rw [hfm]
    unfold parseSTLBytes framesToNs nsPerH nsPerMin nsPerS
    simp only [↓reduceIte]
    have hfr0 : (0 : Int) < (fr : Int) := by rcases hfr with rfl | rfl <;> decide
    have hf0 : (0 : Int) ≤ 1000000000 * (f : Int) + (fr : Int) - 1 := by omega
    rw [Int.tdiv_eq_ediv_of_nonneg hf0]
    have hq0 : 0 ≤ (1000000000 * (f : Int) + (fr : Int) - 1) / (fr : Int) :=
      Int.ediv_nonneg hf0 (le_of_lt hfr0)
    have hq1 : (1000000000 * (f : Int) + (fr : Int) - 1) / (fr : Int) < 1000000000 * 31 := by
      apply Int.ediv_lt_of_lt_mul hfr0
      rcases hfr with rfl | rfl <;> omega
    generalize (1000000000 * (f : Int) + (fr : Int) - 1) / (fr : Int) = K at hq0 hq1
    omega
  rw [formatSTLBytesF_eq _ fr hfr' hp0.1 hp0.2]
  exact hrw

end C16float
end Astisub
