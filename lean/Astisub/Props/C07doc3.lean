import Astisub.Props.C07doc2
import Astisub.Lemmas.Conv3TTML
import Astisub.Lemmas.Conv3Erase
import Astisub.Lemmas.Conv3Chain

/-!
# C07 (document level, third part) — conversion to TTML preserves the cues; all writable destinations at once

`Props/C07doc.lean` proves the conversion clause for the destinations `srt` and `vtt`, `Props/C07doc2.lean`
for `ssa`, `ass` and `stl` (display standard 0).  This file proves it for the last writable destination,
`ttml`, and then states the clause once for all six destinations (`conv_all`).

## TTML

The TTML writer model ends at the element tree handed to `xml.Encoder`, the reader model starts at the
`TTMLIn` value `xml.Decoder.Decode` filled.  **`encoding/xml` in both directions is the ASSUMED CONTRACT of
`Props/C03doc.lean`**, written down as the function `TTMLDoc.unmarshal ix` (`Lemmas/TTMLDocXml.lean`), in
which the bytes of every paragraph's inner XML are an arbitrary function `ix` of its tokens.  Every statement
below that mentions `viaTTML ix` is **for every `ix`**, and is a statement about

    viaTTML ix s  =  TTML.write s,  then  TTMLDoc.unmarshal ix,  then  TTML.read.

For **every** cue list `s` — whatever its source format left in it — that is in range
(`Driver.inRange "ttml"`, the check's own clause: instants in `[0, 100 h)`) and plain (`Conv3TTML.PlainTTML`,
decidable), the conversion succeeds and returns `back` with

    Driver.convOk strict "ttml" s back = true      and      viewOf back = truncView 1000000 (viewOf s)

(same cues, same order, instants truncated to the millisecond, same text lines).

`Conv3TTML.PlainTTML s` asks for
* at least one cue; every cue has at least one line (a cue without lines comes back with one empty line:
  `convOk` still holds — `ttml_conv_rep` — but the views differ in the `blank` flag);
* every run's text `simpleText` (letters, digits, blanks, `, . ! ?`); it may be empty, and may begin or end
  with a blank.  What this excludes and must be excluded: a line feed in a text, which the reader takes for a
  line break (known finding `ttml-newline-in-text-becomes-line-break`);
* TTML's own parts representable: `TTMLZIndex`, where set (run, cue, style, region), is an integer (`attrsOk`:
  anything else makes `xml.Decode` fail); every style / region reference (run, cue, style parent, region style)
  is empty or the identifier of a defined style / region (the reader answers an error otherwise); style
  identifiers pairwise distinct, region identifiers pairwise distinct (map keys in Go);
* identifiers, references, `TTML…` attribute values, title and copyright XML-legal (the domain on which the
  `encoding/xml` contract is claimed, `TTMLDoc.xmlCarries`; simple text is XML-legal).
Everything else is free: attributes of other formats (`SRT…`, `WebVTT…`, `SSA…`, `STL…`, `Teletext…`)
anywhere, start offsets, voices, comments, indexes, how a line is cut into runs, empty runs, empty lines, all
other metadata.  `TTML…` attributes, styles, regions and references are allowed (they are not foreign).

Further: the TTML writer ignores foreign attributes (`ttml_write_ignores_foreign`), and so do plainness and
the whole conversion; the composition with `Driver.applyOps`; SubRip → TTML → SubRip (the view stays the
source's truncated to the millisecond) and WebVTT → TTML → SSA (only what centiseconds lose is lost);
`conv_all`: one statement for `dst ∈ {srt, vtt, ssa, ass, stl, ttml}`; witnesses showing which provisos the
conclusion itself needs.
-/

namespace Astisub
namespace C07doc3
open Go Spec.Conv Driver ConvView C07doc
open Conv3TTML (viaTTML PlainTTML)

/-! ## destination TTML -/

/-- **Plain cue lists carrying foreign attributes are representable.** a plain cue list in range satisfies
    the proviso `TTMLDoc.rep` of the TTML document round trip (`C03doc.write_read`) and lies in the domain
    `TTMLDoc.xmlCarries` on which the `encoding/xml` contract is claimed; the writer answers an element tree -/
theorem ttml_plain_representable (s : Subs) (hr : inRange "ttml" s = true) (hp : PlainTTML s = true) :
    TTMLDoc.rep s = true ∧ TTMLDoc.xmlCarries s = true ∧ ∃ w, TTML.write s = some w := by
  obtain ⟨h1, h2, _⟩ := Conv3TTML.rep_of_plain s hr hp
  obtain ⟨w, hw, _⟩ := C03doc.write_read (fun _ => []) s h1 h2
  exact ⟨h1, h2, w, hw⟩

/-- **The TTML writer ignores foreign attributes.**  `eraseTTML s` keeps of every run its text, inline style
    reference and the 24 `TTML…` attributes of `TTML.attrTable`; of every line its runs; of every cue its
    instants, style and region references, `TTML…` attributes and lines; of every style / region its
    identifier, reference and `TTML…` attributes; of the metadata `Language`, `TTMLCopyright`, `Title` — and
    drops everything else (`SRT…`, `WebVTT…`, `SSA…`, `STL…`, `Teletext…` attributes, start offsets, voices,
    comments, indexes, all other metadata).  The element tree `WriteToTTML` hands to `xml.Encoder` is the
    same, for EVERY cue list. -/
theorem ttml_write_ignores_foreign (s : Subs) : TTML.write (Conv3Erase.eraseTTML s) = TTML.write s :=
  Conv3Erase.ttml_write_erase s

/-- hence the whole conversion does not see them either, and neither do the view, the range clause and
    plainness -/
theorem viaTTML_ignores_foreign (ix : List TTML.XTok → Str) (s : Subs) :
    viaTTML ix (Conv3Erase.eraseTTML s) = viaTTML ix s ∧ viewOf (Conv3Erase.eraseTTML s) = viewOf s ∧
    inRange "ttml" (Conv3Erase.eraseTTML s) = inRange "ttml" s ∧
    PlainTTML (Conv3Erase.eraseTTML s) = PlainTTML s := by
  refine ⟨?_, Conv3Erase.view_eraseTTML s, Conv3Erase.inRange_eraseTTML "ttml" s, Conv3Erase.plain_eraseTTML s⟩
  simp only [viaTTML, Conv3Erase.ttml_write_erase]

/-- **Conversion to TTML, for every representable cue list** (`TTMLDoc.rep`, `Props/C03doc.lean`: styles,
    regions, `tts:*` attributes, any text without a line feed are all allowed), under the `encoding/xml`
    contract, for every inner-XML rendering `ix`: the reader returns the normal form `TTMLDoc.norm s`, and
    `convOk` holds on (the cue list, the TTML document read back) — also when some cues have no line.  When
    every cue has a line the view of what comes back is the source's at millisecond resolution. -/
theorem ttml_conv_rep (ix : List TTML.XTok → Str) (strict : Bool) (s : Subs) (hrep : TTMLDoc.rep s = true)
    (hx : TTMLDoc.xmlCarries s = true) :
    viaTTML ix s = some (TTMLDoc.norm s) ∧ convOk strict "ttml" s (TTMLDoc.norm s) = true ∧
    ((∀ it ∈ s.items, it.lines ≠ []) → viewOf (TTMLDoc.norm s) = truncView 1000000 (viewOf s)) :=
  ⟨Conv3TTML.via_rep ix s hrep hx, Conv3TTML.convOk_norm strict s, Conv3TTML.view_norm s⟩

/-- what the conversion returns for a plain cue list, explicitly: the normal form `TTMLDoc.norm s` of
    `Props/C03doc.lean` (instants truncated to the millisecond, lines and runs kept, attributes through
    `TTMLInStyleAttributes.styleAttributes()`, styles and regions in identifier order, title, copyright, language) -/
theorem ttml_conv_back (ix : List TTML.XTok → Str) (s : Subs) (hr : inRange "ttml" s = true) (hp : PlainTTML s = true) :
    viaTTML ix s = some (TTMLDoc.norm s) := by
  obtain ⟨h1, h2, _⟩ := Conv3TTML.rep_of_plain s hr hp
  exact Conv3TTML.via_rep ix s h1 h2

/-- **C07, destination `ttml`.** For EVERY cue list in range and plain — whatever attributes other formats
    left in it — and every inner-XML rendering `ix` of the assumed `encoding/xml` contract, the conversion
    succeeds, and the check's predicate holds on (the cue list, the TTML document read back): same number of
    cues, same order, instants truncated to the millisecond, same text lines -/
theorem ttml_conv (ix : List TTML.XTok → Str) (strict : Bool) (s : Subs) (hr : inRange "ttml" s = true)
    (hp : PlainTTML s = true) :
    ∃ back, viaTTML ix s = some back ∧ convOk strict "ttml" s back = true ∧
      viewOf back = truncView 1000000 (viewOf s) := by
  obtain ⟨_, _, hl⟩ := Conv3TTML.rep_of_plain s hr hp
  exact ⟨_, ttml_conv_back ix s hr hp, Conv3TTML.convOk_norm strict s, Conv3TTML.view_norm s hl⟩

example : PlainTTML Conv3TTML.exampleForeign = true ∧ inRange "ttml" Conv3TTML.exampleForeign = true :=
  ⟨Conv3TTML.exampleForeign_plain, Conv3TTML.exampleForeign_range⟩

/-- the rendering of the inner XML does not matter: two contracts that differ in `ix` only return the same cue list -/
theorem ttml_conv_any_ix (ix ix' : List TTML.XTok → Str) (s : Subs) (hr : inRange "ttml" s = true)
    (hp : PlainTTML s = true) : viaTTML ix s = viaTTML ix' s := by
  rw [ttml_conv_back ix s hr hp, ttml_conv_back ix' s hr hp]

/-! ## with operations in between -/

/-- **Operations, then TTML.**  Let `expected` be what the transformation models make of the source's cues
    under ANY operation sequence (`Driver.applyOps`: add, fragment, unfragment, merge, optimize, order, linear
    correction, with any parameters and merge arguments), and `opsS` a cue list that shows exactly these cues
    (the correspondence clause the check establishes for the library's result).  If `opsS` is in range and
    plain then it converts, `convOk` holds, and the TTML document read back shows the model's cues at
    millisecond resolution. -/
theorem ttml_conv_ops (ix : List TTML.XTok → Str) (strict : Bool) (src : Subs) (margs : List Subs) (ops : List String)
    (expected : List Item) (opsS : Subs)
    (_hops : applyOps (itemsOf src) (margs.map itemsOf) ops = some expected)
    (hcorr : vOfItems expected = viewOf opsS)
    (hr : inRange "ttml" opsS = true) (hp : PlainTTML opsS = true) :
    ∃ back, viaTTML ix opsS = some back ∧ convOk strict "ttml" opsS back = true ∧
      viewOf back = truncView 1000000 (vOfItems expected) := by
  rw [hcorr]
  exact ttml_conv ix strict opsS hr hp

/-- **Purely in the model**: the transformation models followed by the conversion to TTML -/
theorem ops_then_ttml (ix : List TTML.XTok → Str) (xs : List Item) (args : List (List Item)) (ops : List String)
    (ys : List Item) (_hops : applyOps xs args ops = some ys)
    (hr : inRange "ttml" (subsOfItems ys) = true) (hp : PlainTTML (subsOfItems ys) = true) :
    ∃ back, viaTTML ix (subsOfItems ys) = some back ∧ viewOf back = truncView 1000000 (vOfItems ys) := by
  obtain ⟨back, h1, _, h3⟩ := ttml_conv ix false _ hr hp
  exact ⟨back, h1, by rw [h3, view_subsOfItems]⟩

/-- non-vacuity: the example of `Props/C07doc.lean` (two cues shifted by a quarter of a millisecond) -/
example : inRange "ttml" (subsOfItems exampleResult) = true ∧ PlainTTML (subsOfItems exampleResult) = true := by
  refine ⟨?_, ?_⟩ <;> decide +kernel

/-! ## one conversion after the other -/

/-- **SubRip, then TTML.** what SubRip returned for a plain cue list in range, every cue of which has text,
    converts to TTML, and the TTML document read back shows the original cues at millisecond resolution
    (nothing is lost at the second hop) -/
theorem srt_then_ttml (ix : List TTML.XTok → Str) (s : Subs) (hr : inRange "srt" s = true)
    (hp : ConvSRT.PlainSRT s = true) (hl : ∀ it ∈ s.items, it.lines ≠ []) :
    ∃ b1 b2, viaSRT s = some b1 ∧ viaTTML ix b1 = some b2 ∧
      convOk false "ttml" b1 b2 = true ∧ viewOf b2 = truncView 1000000 (viewOf s) := by
  obtain ⟨hr2, hp2⟩ := Conv3Chain.plainTTML_norm_srt s hr hp hl
  obtain ⟨b2, h2, hc2, hv2⟩ := ttml_conv ix false _ hr2 hp2
  refine ⟨_, b2, srt_conv_back s hr hp, h2, hc2, ?_⟩
  rw [hv2, ConvSRT.view_norm_merge, ConvChain.truncView_idem]

/-- **SubRip → TTML → SubRip keeps the view truncated to the millisecond.** three conversions in a row succeed
    and the last file shows the original cues with instants truncated to the millisecond — exactly the view
    of the first SubRip file and of the TTML document in the middle -/
theorem srt_ttml_srt (ix : List TTML.XTok → Str) (s : Subs) (hr : inRange "srt" s = true)
    (hp : ConvSRT.PlainSRT s = true) (hl : ∀ it ∈ s.items, it.lines ≠ []) :
    ∃ b1 b2 b3, viaSRT s = some b1 ∧ viaTTML ix b1 = some b2 ∧ viaSRT b2 = some b3 ∧
      viewOf b3 = truncView 1000000 (viewOf s) ∧ viewOf b3 = viewOf b2 ∧ viewOf b2 = viewOf b1 := by
  obtain ⟨hr2, hp2⟩ := Conv3Chain.plainTTML_norm_srt s hr hp hl
  obtain ⟨_, _, hl2⟩ := Conv3TTML.rep_of_plain _ hr2 hp2
  have h2 := ttml_conv_back ix _ hr2 hp2
  have hv2 := Conv3TTML.view_norm _ hl2
  obtain ⟨hr3, hp3⟩ := Conv3Chain.plainSRT_norm_ttml s hr hp hl
  obtain ⟨b3, h3, _, hv3⟩ := srt_conv false _ hr3 hp3
  have e1 : viewOf (SRTDoc.norm (SRTDoc.mergeS s)) = truncView 1000000 (viewOf s) := ConvSRT.view_norm_merge s
  have e2 : viewOf (TTMLDoc.norm (SRTDoc.norm (SRTDoc.mergeS s))) = truncView 1000000 (viewOf s) := by
    rw [hv2, e1, ConvChain.truncView_idem]
  refine ⟨_, _, b3, srt_conv_back s hr hp, h2, h3, ?_, ?_, ?_⟩
  · rw [hv3, e2, ConvChain.truncView_idem]
  · rw [hv3, e2, ConvChain.truncView_idem]
  · rw [e2, e1]

/-- **WebVTT, then TTML.** what WebVTT returned for a plain cue list in range, every cue of which has text,
    converts to TTML, and the TTML document read back shows the original cues at millisecond resolution -/
theorem vtt_then_ttml (ix : List TTML.XTok → Str) (s : Subs) (hr : inRange "vtt" s = true)
    (hp : ConvVTT.PlainVTT s = true) (hl : ∀ it ∈ s.items, it.lines ≠ []) :
    ∃ b1 b2, viaVTT s = some b1 ∧ viaTTML ix b1 = some b2 ∧
      convOk false "ttml" b1 b2 = true ∧ viewOf b2 = truncView 1000000 (viewOf s) := by
  obtain ⟨hr2, hp2⟩ := Conv3Chain.plainTTML_read_vtt s hr hp hl
  obtain ⟨b2, h2, hc2, hv2⟩ := ttml_conv ix false _ hr2 hp2
  refine ⟨_, b2, vtt_conv_back s hr hp, h2, hc2, ?_⟩
  rw [hv2, Conv3Chain.view_vtt_back, ConvChain.truncView_idem]

/-- **WebVTT → TTML → SSA loses only what centiseconds lose.** three conversions in a row succeed (when the
    SSA document passes the scanner: `docFit`, no carriage return and no line of 64 KiB or more), the check's
    predicate holds at the last hop, and the SSA file shows the original cues with instants truncated to the
    centisecond — the TTML document in the middle loses nothing the WebVTT file had -/
theorem vtt_ttml_ssa (ix : List TTML.XTok → Str) (s : Subs) (hr : inRange "vtt" s = true)
    (hp : ConvVTT.PlainVTT s = true) (hl : ∀ it ∈ s.items, it.lines ≠ [])
    (hfit : Conv2SSA.docFit (TTMLDoc.norm (VTT.readSubs (ConvVTT.flatS s))) = true) :
    ∃ b1 b2 b3, viaVTT s = some b1 ∧ viaTTML ix b1 = some b2 ∧ viaSSA b2 = some b3 ∧
      convOk false "ssa" b2 b3 = true ∧ viewOf b3 = truncView 10000000 (viewOf s) ∧ viewOf b2 = viewOf b1 := by
  obtain ⟨hr2, hp2⟩ := Conv3Chain.plainTTML_read_vtt s hr hp hl
  obtain ⟨_, _, hl2⟩ := Conv3TTML.rep_of_plain _ hr2 hp2
  have h2 := ttml_conv_back ix _ hr2 hp2
  have hv2 := Conv3TTML.view_norm _ hl2
  obtain ⟨hr3, hp3⟩ := Conv3Chain.plainSSA_norm_ttml_vtt s hr hp hl hfit
  obtain ⟨b3, h3, hc3, hv3⟩ := C07doc2.ssa_conv false _ hr3 hp3
  have e1 := Conv3Chain.view_vtt_back s
  have e2 : viewOf (TTMLDoc.norm (VTT.readSubs (ConvVTT.flatS s))) = truncView 1000000 (viewOf s) := by
    rw [hv2, e1, ConvChain.truncView_idem]
  refine ⟨_, _, b3, vtt_conv_back s hr hp, h2, h3, hc3, ?_, ?_⟩
  · rw [hv3, e2, Conv2Chain.truncView_ms_cs]
  · rw [e2, e1]

/-! ## every writable destination format, in one place -/

/-- the conversion to EBU STL as the check's model side computes it, written on day `now`: the writer model on
    the cues and metadata the stream hands it, then the reader model -/
def viaSTL (now : STL.Date) (s : Subs) : Option Subs :=
  match STL.write now (STLD.metaOf s.metadata) (s.items.map STLD.cueOf) with
  | .ok out => (match STL.read false out with
    | .ok (_, items) => some { items := items }
    | _ => none)
  | _ => none

/-- **the model pipeline of the conversion to `dst`**, for the six destination formats the library writes
    (teletext is read-only): `ix` is the inner-XML rendering of the assumed `encoding/xml` contract (used by
    `ttml` only), `now` the day of writing (used by `stl` only) -/
def viaDst (ix : List TTML.XTok → Str) (now : STL.Date) (dst : String) (s : Subs) : Option Subs :=
  if dst = "srt" then viaSRT s
  else if dst = "vtt" then viaVTT s
  else if dst = "ssa" ∨ dst = "ass" then viaSSA s
  else if dst = "stl" then viaSTL now s
  else if dst = "ttml" then viaTTML ix s
  else none

/-- **plain for the destination `dst`** (decidable): the plainness predicate of the destination's theorem; for
    `stl` also display standard 0 (the other display standards are the known finding D23) and metadata that fits -/
def PlainDst (now : STL.Date) (dst : String) (s : Subs) : Bool :=
  if dst = "srt" then ConvSRT.PlainSRT s
  else if dst = "vtt" then ConvVTT.PlainVTT s
  else if dst = "ssa" ∨ dst = "ass" then Conv2SSA.PlainSSA s
  else if dst = "stl" then
    Conv2STL.PlainSTL s && decide (SRT.kvGet s.metadata "STLDisplayStandardCode" = some "0".toList) &&
      Conv2STL.stlMetaOK now s
  else if dst = "ttml" then PlainTTML s
  else false

/-- the view the destination must return: the source's cues with every instant at the destination's
    resolution — the millisecond (`srt`, `vtt`, `ttml`), the centisecond (`ssa`, `ass`), the frame (`stl`) -/
def viewAt (dst : String) (s : Subs) : List VCue :=
  if dst = "stl" then Conv2STL.truncViewSTL s else truncView (unitOfDst dst) (viewOf s)

/-- `PlainDst` can only hold for one of the six writable destinations -/
theorem plainDst_writable (now : STL.Date) (dst : String) (s : Subs) (hp : PlainDst now dst s = true) :
    dst ∈ ["srt", "vtt", "ssa", "ass", "stl", "ttml"] := by
  unfold PlainDst at hp
  by_cases h1 : dst = "srt"
  · simp [h1]
  by_cases h2 : dst = "vtt"
  · simp [h2]
  by_cases h3 : dst = "ssa" ∨ dst = "ass"
  · rcases h3 with h | h <;> simp [h]
  by_cases h4 : dst = "stl"
  · simp [h4]
  by_cases h5 : dst = "ttml"
  · simp [h5]
  simp [h1, h2, h3, h4, h5] at hp

/-- **C07 for every writable destination format.**  For `dst ∈ {srt, vtt, ssa, ass, stl, ttml}` (the
    destinations for which `PlainDst` can hold), EVERY cue list in `dst`'s range (`Driver.inRange`, the check's
    own clause) and plain for `dst` — whatever attributes other formats left in it — both modes of the check,
    every day of writing and every inner-XML rendering of the assumed `encoding/xml` contract: the model
    pipeline of the conversion succeeds, the check's predicate `convOk` holds on (the cue list, the destination
    read back), and the view of what comes back is the source's at the destination's resolution: same number
    of cues, same order, instants truncated, same text lines. -/
theorem conv_all (ix : List TTML.XTok → Str) (now : STL.Date) (strict : Bool) (dst : String) (s : Subs)
    (hr : inRange dst s = true) (hp : PlainDst now dst s = true) :
    ∃ back, viaDst ix now dst s = some back ∧ convOk strict dst s back = true ∧ viewOf back = viewAt dst s := by
  unfold PlainDst at hp
  by_cases h1 : dst = "srt"
  · subst h1
    simp only [if_true] at hp
    have hd : ("srt" = "stl") = False := by decide
    simpa only [viaDst, viewAt, if_true, hd, if_false, ConvSRT.unit_srt] using srt_conv strict s hr hp
  by_cases h2 : dst = "vtt"
  · subst h2
    have hd : ("vtt" = "stl") = False := by decide
    have h0 : ("vtt" = "srt") = False := by decide
    simp only [h0, if_false, if_true] at hp
    simpa only [viaDst, viewAt, h0, if_true, hd, if_false, ConvVTT.unit_vtt] using vtt_conv strict s hr hp
  by_cases h3 : dst = "ssa"
  · subst h3
    have hd : ("ssa" = "stl") = False := by decide
    have h0 : ("ssa" = "srt") = False := by decide
    have h0' : ("ssa" = "vtt") = False := by decide
    simp only [h0, h0', if_false, true_or, if_true] at hp
    simpa only [viaDst, viewAt, h0, h0', true_or, if_true, hd, if_false, Conv2SSA.unit_ssa]
      using C07doc2.ssa_conv strict s hr hp
  by_cases h4 : dst = "ass"
  · subst h4
    have hd : ("ass" = "stl") = False := by decide
    have h0 : ("ass" = "srt") = False := by decide
    have h0' : ("ass" = "vtt") = False := by decide
    simp only [h0, h0', if_false, or_true, if_true] at hp
    simpa only [viaDst, viewAt, h0, h0', or_true, if_true, hd, if_false]
      using C07doc2.ass_conv strict s hr hp
  by_cases h5 : dst = "stl"
  · subst h5
    have h0 : ("stl" = "srt") = False := by decide
    have h0' : ("stl" = "vtt") = False := by decide
    have h0'' : ("stl" = "ssa" ∨ "stl" = "ass") = False := by decide
    simp only [h0, h0', h0'', if_false, if_true, Bool.and_eq_true, decide_eq_true_eq] at hp
    obtain ⟨⟨hp1, hp2⟩, hp3⟩ := hp
    obtain ⟨out, md, items, hw, hrd, hc, hv⟩ := C07doc2.stl_conv_on now strict s hr hp1 hp2 hp3
    refine ⟨{ items := items }, ?_, hc, ?_⟩
    · simp only [viaDst, h0, h0', h0'', if_false, if_true, viaSTL, hw, hrd]
    · simp only [viewAt, if_true, hv]
  by_cases h6 : dst = "ttml"
  · subst h6
    have hd : ("ttml" = "stl") = False := by decide
    have h0 : ("ttml" = "srt") = False := by decide
    have h0' : ("ttml" = "vtt") = False := by decide
    have h0'' : ("ttml" = "ssa" ∨ "ttml" = "ass") = False := by decide
    simp only [h0, h0', h0'', hd, if_false, if_true] at hp
    simpa only [viaDst, viewAt, h0, h0', h0'', hd, if_false, if_true, Conv3TTML.unit_ttml]
      using ttml_conv ix strict s hr hp
  simp [h1, h2, h3, h4, h5, h6] at hp

/-- `PlainDst` destination by destination -/
theorem plainDst_cases (now : STL.Date) (s : Subs) :
    PlainDst now "srt" s = ConvSRT.PlainSRT s ∧ PlainDst now "vtt" s = ConvVTT.PlainVTT s ∧
    PlainDst now "ssa" s = Conv2SSA.PlainSSA s ∧ PlainDst now "ass" s = Conv2SSA.PlainSSA s ∧
    PlainDst now "ttml" s = PlainTTML s ∧
    PlainDst now "stl" s = (Conv2STL.PlainSTL s &&
      decide (SRT.kvGet s.metadata "STLDisplayStandardCode" = some "0".toList) && Conv2STL.stlMetaOK now s) := by
  refine ⟨?_, ?_, ?_, ?_, ?_, ?_⟩ <;> simp [PlainDst]

/-- non-vacuity of `conv_all`: for each of the six destinations a cue list with foreign attributes that is in
    range and plain -/
example (now : STL.Date) :
    (PlainDst now "srt" ConvSRT.exampleForeign = true ∧ inRange "srt" ConvSRT.exampleForeign = true) ∧
    (PlainDst now "vtt" ConvVTT.exampleForeign = true ∧ inRange "vtt" ConvVTT.exampleForeign = true) ∧
    (PlainDst now "ttml" Conv3TTML.exampleForeign = true ∧ inRange "ttml" Conv3TTML.exampleForeign = true) ∧
    (PlainDst now "ssa" Conv2SSA.exampleForeign = true ∧ inRange "ssa" Conv2SSA.exampleForeign = true) ∧
    (PlainDst now "ass" Conv2SSA.exampleForeign = true ∧ inRange "ass" Conv2SSA.exampleForeign = true) ∧
    (PlainDst now "stl" Conv2STL.exampleSTL = true ∧ inRange "stl" Conv2STL.exampleSTL = true) := by
  obtain ⟨e1, e2, e3, e4, e5, _⟩ := plainDst_cases now ConvSRT.exampleForeign
  have f2 := (plainDst_cases now ConvVTT.exampleForeign).2.1
  have f3 := (plainDst_cases now Conv2SSA.exampleForeign).2.2.1
  have f4 := (plainDst_cases now Conv2SSA.exampleForeign).2.2.2.1
  have f5 := (plainDst_cases now Conv3TTML.exampleForeign).2.2.2.2.1
  have f6 := (plainDst_cases now Conv2STL.exampleSTL).2.2.2.2.2
  refine ⟨⟨?_, by decide +kernel⟩, ⟨?_, by decide +kernel⟩, ⟨?_, Conv3TTML.exampleForeign_range⟩,
    ⟨?_, by decide +kernel⟩, ⟨?_, by decide +kernel⟩, ⟨?_, by decide +kernel⟩⟩
  · rw [e1]; decide +kernel
  · rw [f2]
    show ConvVTT.PlainVTT ConvVTT.exampleForeign = true
    simp only [ConvVTT.PlainVTT, ConvVTT.exampleForeign_styleLines]
    decide +kernel
  · rw [f5]; exact Conv3TTML.exampleForeign_plain
  · rw [f3]; exact Conv2SSA.exampleForeign_plain
  · rw [f4]; exact Conv2SSA.exampleForeign_plain
  · rw [f6, Conv2STL.exampleSTL_plain, Conv2STL.exampleSTL_metaOK now]
    decide

/-! ## TTML: which provisos are needed (witnesses)

Evaluated through the whole pipeline `viaTTML` (writer model, `encoding/xml` contract, reader model) with the
inner-XML rendering `fun _ => []` (any other gives the same, `ttml_conv_any_ix`). -/

/-- `some b`: written and read; `b` = `convOk` holds and the view is the source's at millisecond resolution -/
def ttmlOkL (s : Subs) : Option Bool :=
  match viaTTML (fun _ => []) s with
  | some back => some (convOk false "ttml" s back && (viewOf back == truncView 1000000 (viewOf s)))
  | none => none

/-- the same with `convOk` alone -/
def ttmlOkC (s : Subs) : Option Bool :=
  match viaTTML (fun _ => []) s with
  | some back => some (convOk false "ttml" s back)
  | none => none

-- plain lines pass, however they are cut into runs and with blanks at the edges
example : ttmlOkL (oneLine [{ text := "a".toList }, { text := " b ".toList }]) = some true := by decide +kernel
-- an empty cue list is not written
example : TTML.write { items := [] } = none := by decide +kernel
-- needed for `convOk` itself: a line feed in a text comes back as a line break, so the cue has two lines instead
-- of one (known finding `ttml-newline-in-text-becomes-line-break`; the view disregards white space, so the
-- source line counts as simple text "ab")
example : ttmlOkC (oneLine [{ text := "a\nb".toList }]) = some false := by decide +kernel
-- needed: a `zIndex` that is not an integer (run or cue) makes `xml.Decode` fail
example : ttmlOkL (oneLine [{ text := "a".toList, attrs := some [("TTMLZIndex".toList, "auto".toList)] }]) = none := by
  decide +kernel
example : ttmlOkL { items := [{ startAt := 0, endAt := 1000000000, attrs := some [("TTMLZIndex".toList, "auto".toList)],
                                lines := [{ items := [{ text := "a".toList }] }] }] } = none := by decide +kernel
-- needed: a reference to a style / region the document does not define is an error of the reader
example : ttmlOkL (oneLine [{ text := "a".toList, style := some "x".toList }]) = none := by decide +kernel
example : ttmlOkL { items := [{ startAt := 0, endAt := 1000000000, region := some "r".toList,
                                lines := [{ items := [{ text := "a".toList }] }] }] } = none := by decide +kernel
example : ttmlOkL { items := [{ startAt := 0, endAt := 1000000000, lines := [{ items := [{ text := "a".toList }] }] }],
                    styles := [{ id := "x".toList, ref := some "y".toList }] } = none := by decide +kernel
-- needed (the check's range clause): a negative instant does not come back
example : ttmlOkL { items := [{ startAt := -1000000, endAt := 1000000000, lines := [{ items := [{ text := "a".toList }] }] }] }
    = some false := by decide +kernel
-- needed for the view equality, not for `convOk`: a cue without lines comes back with one empty line
example : ttmlOkC { items := [{ startAt := 0, endAt := 1000000000, lines := [] }] } = some true ∧
          ttmlOkL { items := [{ startAt := 0, endAt := 1000000000, lines := [] }] } = some false := by decide +kernel
-- proviso of the statement only (`simpleText`; `ttml_conv_rep` does not need it): text that is not simple but has
-- no line feed comes back unchanged
example : ttmlOkL (oneLine [{ text := " a<é> ".toList }]) = some true := by decide +kernel

end C07doc3
end Astisub
