import Astisub.Lemmas.SSAW2Final
import Astisub.Props.C04doc2
import Astisub.Props.C04read
import Astisub.Driver.SSA

/-!
# C04 (W2) — SSA / ASS: the independent decoder accepts what the writer produces

`C04doc2.decode_write_Statement` says: for every cue list with `Spec.SSA.denote s = some want`, the text `WriteToSSA`
answers decodes (`Spec.SSA.decode`, the decoder written from the format description) to exactly `want`, and the view
of what the reader answers on that text is `want` too.  This file

* **refutes** the statement as first written (`decode_write_Statement_false`) — `denote` accepts cue lists the
  round trip cannot carry; six kernel-checked counterexamples, one per missing proviso (`needs_*`);
* **proves** it, both conjuncts, for **all** cue lists of the explicit decidable class
  `denote s = some want ∧ RepRead s ∧ Extra s want` (`decode_write`);
* restates it as the predicate the `ssa.write` stream evaluates (`Driver.SSAD.writeOk`) for the model's answer
  (`writeOk_model`, `writeOk_tokens`);
* gives the layers the proof is made of, each for all inputs of its own class: lines (`decoder_lines`), sections
  (`decoder_sections`), script info (`decoder_script_info`), a style cell / row / section (`decoder_style_cell`,
  `decoder_style_row`, `decoder_styles_section`), event text (`decoder_runs`, `decoder_text`), a `Dialogue:` row and the
  events section (`decoder_dialogue_row`, `decoder_events_section`), the document (`decoder_document`), and the bridge
  from `denote` to the writer's typed values (`denote_is_docG`).

The class.  `RepRead` (`Lemmas/SSA2Read.lean`) is the representability predicate of the write → read theorem
(`C04doc2.write_read`).  `Extra` (`Lemmas/SSAW2Defs.lean`) adds what only the *decoder* needs: 64-bit integers in the
denotation, floats that survive the decoder's float reader (`decFloat3`, `decTimer`: like `floatOK` / `timerOK` but
through `Spec.SSA.floatOf`, which refuses more than 40 characters), no `\n` / `\N` / CR inside a written line
(override blocks included) and no reference to a style whose identifier is empty.  `denote s = some want` does *not*
imply `RepRead s` (`needs_repRead`: an empty `Title` is representable for `denote`, and is read back as unset).

Floats: as in `C04doc` / `C04doc2` no general theorem about `FormatFloat` / `ParseFloat` is proved; the decidable
predicates `decFloat3` / `decTimer` are hypotheses (they imply `floatOK` / `timerOK`: `decFloat3_floatOK`,
`decTimer_timerOK`).
-/

namespace Astisub
namespace C04w2
open Go SSA SSAR SSAW
open Spec.SSA (decode view denote GDoc GRun)

/-! ## 1. the statement as first written is false -/

/-- on `s`: `denote` answers, the writer answers, and the decoder does **not** return the denotation -/
def refutes (s : Subs) : Bool :=
  match denote s, write s with
  | some want, .ok out => decide (decode out ≠ some want)
  | _, _ => false

theorem refutes_spec {s : Subs} (h : refutes s = true) :
    ∃ out want, denote s = some want ∧ write s = .ok out ∧ decode out ≠ some want := by
  unfold refutes at h
  cases hd : denote s with
  | none => simp [hd] at h
  | some want =>
    cases hw : write s with
    | ok out =>
      simp only [hd, hw, decide_eq_true_eq] at h
      exact ⟨out, want, rfl, rfl, h⟩
    | err => simp [hd, hw] at h
    | unmodelled => simp [hd, hw] at h

/-- a cue with one plain run -/
def plainCue : CItem := { startAt := 0, endAt := 10000000, lines := [{ items := [mkRun (none, "x".toList)] }] }

/-- `\n` inside an override block: `denote` only looks at the texts; the decoder cuts the line there -/
def cexBreak : Subs :=
  { items := [{ startAt := 0, endAt := 10000000, lines := [{ items := [mkRun (some "{\\n}".toList, "x".toList)] }] }] }
/-- a carriage return inside an override block: the decoder ends the line there -/
def cexCR : Subs :=
  { items := [{ startAt := 0, endAt := 10000000, lines := [{ items := [mkRun (some "{\r}".toList, "x".toList)] }] }] }
/-- an empty `Title`: set for `denote`, unset for every reader -/
def cexTitle : Subs := { items := [plainCue], metadata := some [("Title".toList, [])] }
/-- `Timer` = 1e100: 101 characters when written; the decoder refuses floats of more than 40 characters -/
def cexTimer : Subs := { items := [plainCue], metadata := some [("SSATimer".toList, "f6103021453049119613".toList)] }
/-- `PlayResX` beyond 64 bits: `denote` counts in unbounded arithmetic -/
def cexInt : Subs := { items := [plainCue], metadata := some [("SSAPlayResX".toList, "99999999999999999999".toList)] }
/-- a cue referring to a style whose identifier is the empty string: the empty `Style` cell means "no style" -/
def cexRef : Subs :=
  { items := [{ plainCue with style := some [] }], styles := [{ id := [], attrs := some [("SSABold".toList, "true".toList)] }] }

set_option maxRecDepth 100000 in
/-- `Extra.breaks` is needed … -/
theorem needs_breaks : refutes cexBreak = true := by decide +kernel
set_option maxRecDepth 100000 in
/-- … even `RepFix` does not exclude it -/
theorem needs_breaks_rep : RepFix cexBreak := by decide +kernel
set_option maxRecDepth 100000 in
/-- `Extra.cr` is needed … -/
theorem needs_cr : refutes cexCR = true := by decide +kernel
set_option maxRecDepth 100000 in
/-- … `RepRead` only excludes line feeds -/
theorem needs_cr_rep : RepRead cexCR := by decide +kernel
set_option maxRecDepth 100000 in
/-- `RepRead` is needed … -/
theorem needs_repRead : refutes cexTitle = true := by decide +kernel
set_option maxRecDepth 100000 in
/-- … and does not follow from `denote` -/
theorem needs_repRead_rep : (denote cexTitle).isSome = true ∧ ¬ RepRead cexTitle := by decide +kernel
set_option maxRecDepth 100000 in
/-- `Extra.timer` is needed … -/
theorem needs_timer : refutes cexTimer = true := by decide +kernel
set_option maxRecDepth 100000 in
/-- … `timerOK` (hence `RepFix`) holds of 1e100 -/
theorem needs_timer_rep : RepFix cexTimer := by decide +kernel
set_option maxRecDepth 100000 in
/-- `Extra.ints` is needed … -/
theorem needs_ints : refutes cexInt = true := by decide +kernel
set_option maxRecDepth 100000 in
/-- … `RepFix` holds (the model's `Atoi` clamps) -/
theorem needs_ints_rep : RepFix cexInt := by decide +kernel
set_option maxRecDepth 100000 in
/-- `Extra.styleRef` is needed … -/
theorem needs_styleRef : refutes cexRef = true := by decide +kernel
set_option maxRecDepth 100000 in
/-- … `RepFix` holds -/
theorem needs_styleRef_rep : RepFix cexRef := by decide +kernel

/-- **`C04doc2.decode_write_Statement` is false as first written.** -/
theorem decode_write_Statement_false : ¬ C04doc2.decode_write_Statement := by
  intro h
  obtain ⟨out, want, hd, hw, hne⟩ := refutes_spec needs_breaks
  exact hne (h cexBreak out want hd hw).1

/-! ## 2. the theorem -/

/-- **W2.** For every cue list in the class — `denote s = some want`, `RepRead s`, `Extra s want` — if `WriteToSSA`
    answers `out` then the independent decoder, run on `out`, returns exactly `want`, and the view of the normal
    form `norm s` (what `ReadFromSSA` answers on `out`, `C04doc2.write_read`) is `want` too.
    This is `C04doc2.decode_write_Statement` with the two provisos made explicit. -/
theorem decode_write (s : Subs) (out : Str) (want : GDoc) (hd : denote s = some want) (hr : RepRead s)
    (hx : Extra s want) (hw : write s = .ok out) :
    decode out = some want ∧ view (norm s) = some want :=
  decode_write_both s out want hd hr hx hw

/-- the decoder accepts the written text (first conjunct alone) -/
theorem decoder_accepts_written (s : Subs) (out : Str) (want : GDoc) (hd : denote s = some want) (hr : RepRead s)
    (hx : Extra s want) (hw : write s = .ok out) : decode out = some want :=
  (decode_write s out want hd hr hx hw).1

/-- the written text contains no carriage return -/
theorem written_without_cr (s : Subs) (out : Str) (want : GDoc) (hd : denote s = some want) (hr : RepRead s)
    (hx : Extra s want) (hw : write s = .ok out) : '\r' ∉ out :=
  written_no_cr s out want hd hr hx hw

/-- the written text is in the class `InClass` of the read clause (`C04read.read_view`) -/
theorem written_in_class (s : Subs) (out : Str) (want : GDoc) (hd : denote s = some want) (hr : RepRead s)
    (hx : Extra s want) (hw : write s = .ok out) : InClass out = true :=
  written_inClass s out want hd hr hx hw

/-- the writer does answer on every `RepRead` cue list with at least one cue: the hypothesis `write s = .ok out`
    can always be met -/
theorem writer_answers (s : Subs) (hr : RepRead s) (hne : s.items ≠ []) : ∃ out, write s = .ok out :=
  C04doc2.writer_answers s hr hne

/-! ### non-vacuity -/

/-- `denote` answers and `Extra` holds of its answer, as a `Bool` (for kernel evaluation on concrete cue lists) -/
def extraB (s : Subs) : Bool :=
  match denote s with
  | some want => decide (Extra s want)
  | none => false

theorem extraB_spec {s : Subs} (h : extraB s = true) : ∃ want, denote s = some want ∧ Extra s want := by
  unfold extraB at h
  cases hd : denote s with
  | none => simp [hd] at h
  | some want =>
    simp only [hd, decide_eq_true_eq] at h
    exact ⟨want, rfl, h⟩

/-- a cue list with comments, five script-info keys (a string with a colon, an integer, `Timer`, the script type), a
    style (boolean, font name with a space, float, colour, negative integer) and two cues (style reference, effect with
    `;`, margin, two lines, an override block, commas and a colon in the text; a cue with nothing set, ending after 1 h) -/
def exW2 : Subs :=
  { items := [{ startAt := 1000000000, endAt := 2500000000, style := some "Top".toList,
                attrs := some [("SSAEffect".toList, "Scroll up;20".toList), ("SSAMarginLeft".toList, "12".toList)],
                lines := [{ voice := "Bob".toList, items := [mkRun (none, "Hello, ".toList), mkRun (some "{\\i1}".toList, "world".toList)] },
                          { voice := "Bob".toList, items := [mkRun (none, "bye: now".toList)] }] },
              { startAt := 3000000000, endAt := 3723450000000,
                lines := [{ items := [mkRun (none, "second cue".toList)] }] }],
    styles := [{ id := "Top".toList, attrs := some [("SSABold".toList, "true".toList), ("SSAFontName".toList, "Arial Black".toList),
                                                     ("SSAFontSize".toList, "f4626322717216342016".toList),
                                                     ("SSAMarginVertical".toList, "-5".toList),
                                                     ("SSAPrimaryColour".toList, "00ffffff".toList)] }],
    metadata := some [("Comments".toList, "made by hand\nsecond comment".toList),
                      ("SSAPlayResX".toList, "384".toList),
                      ("SSAScriptType".toList, "v4.00+".toList),
                      ("SSATimer".toList, "f4636737291354636288".toList),
                      ("Title".toList, "An example: with colon".toList)] }

set_option maxRecDepth 100000 in
/-- it is representable (so is `C04doc2.exDoc`, with two styles: `C04doc2.exDoc_repFix`; the kernel cannot evaluate
    `List.mergeSort` on two elements, so the one-style variant is the one evaluated here) … -/
theorem exW2_rep : RepRead exW2 := by decide +kernel

set_option maxRecDepth 100000 in
/-- … `denote` answers on it and `Extra` holds -/
theorem exW2_extra : extraB exW2 = true := by decide +kernel

/-- the class is inhabited by a non-trivial cue list on which the writer answers -/
theorem class_nonempty : ∃ s want out, denote s = some want ∧ RepRead s ∧ Extra s want ∧ write s = .ok out := by
  obtain ⟨want, hd, hx⟩ := extraB_spec exW2_extra
  obtain ⟨out, hw⟩ := C04doc2.writer_answers exW2 exW2_rep (by decide)
  exact ⟨exW2, want, out, hd, exW2_rep, hx, hw⟩

set_option maxRecDepth 100000 in
/-- the float predicates hold of 20, 0.1, 100 and 1/3 (`Timer`), and exclude something: 1/3 as a style float
    (not exact to three decimals), 1e100 as `Timer` -/
example : decFloat3 0x4034000000000000 = true ∧ decFloat3 0x3FB999999999999A = true ∧ decFloat3 0x3FD5555555555555 = false ∧
    decTimer 0x4059000000000000 = true ∧ decTimer 0x3FD5555555555555 = true ∧ decTimer 0x54B249AD2594C37D = false := by
  decide +kernel

/-- the decoder's float predicates imply the model's -/
theorem decFloat3_floatOK (bits : Nat) (h : decFloat3 bits = true) : floatOK bits = true := floatOK_of_decFloat3 bits h
theorem decTimer_timerOK (bits : Nat) (h : decTimer bits = true) : timerOK bits = true := timerOK_of_decTimer bits h

/-! ## 3. the driver's predicate -/

/-- `Driver.SSAD.writeOk` after the answer tokens have been parsed: `bytes` the written bytes, `back` what the
    library read from them, `bytes2` what it wrote for `back` -/
def writeOkModel (s : Subs) (bytes : List UInt8) (back : Subs) (bytes2 : List UInt8) : Bool :=
  match denote s with
  | none => true
  | some want =>
    (match Driver.decodeLine bytes with
     | some text => decode text == some want
     | none => false) &&
    view back == some want &&
    bytes2 == bytes

/-- **The model's answer to the `ssa.write` stream.** For a cue list of the class with `RepFix` (so that writing
    twice is defined): whenever the driver's model of `ReadFromSSA` is defined on the written bytes (`readBytes … =
    some r`: no line of 64 KiB, durations in range), it answers the normal form, writing the normal form gives the
    same text, and the three clauses of the predicate hold of these three values. -/
theorem writeOk_model (s : Subs) (out : Str) (want : GDoc) (hd : denote s = some want) (hf : RepFix s)
    (hx : Extra s want) (hw : write s = .ok out) (r : Res Subs)
    (hrb : Driver.SSAD.readBytes (Driver.utf8 out) = some r) :
    r = .ok (norm s) ∧ write (norm s) = .ok out ∧
      writeOkModel s (Driver.utf8 out) (norm s) (Driver.utf8 out) = true := by
  obtain ⟨h1, h2⟩ := decode_write s out want hd hf.1 hx hw
  refine ⟨readBytes_written s out want hd hf.1 hx hw r hrb, by rw [C04doc2.rewrite_fixpoint s hf, hw], ?_⟩
  unfold writeOkModel
  simp only [hd, SRTDoc.decodeLine_utf8, h1, h2, beq_self_eq_true, Bool.and_self]

/-- **The driver's predicate itself.** `Driver.SSAD.writeOk s impl = true` for every answer `impl` whose tokens
    parse (`Proto.decBytes`, `Proto.decSubs`: the print / parse round trip of the line protocol is outside this
    file) into the model's answer: the bytes of `out`, the normal form, the same bytes again. -/
theorem writeOk_tokens (s : Subs) (out : Str) (want : GDoc) (hd : denote s = some want) (hf : RepFix s)
    (hx : Extra s want) (hw : write s = .ok out) (bytes : String) (rest : List String)
    (hb : Proto.decBytes bytes = some (Driver.utf8 out)) (hs : Proto.decSubs rest = some (norm s, [bytes])) :
    Driver.SSAD.writeOk s ("ok" :: bytes :: "ok" :: rest) = true := by
  obtain ⟨h1, h2⟩ := decode_write s out want hd hf.1 hx hw
  have hne : s.items.isEmpty = false := by
    cases hi : s.items with
    | nil => unfold write at hw; simp [hi] at hw
    | cons _ _ => rfl
  unfold Driver.SSAD.writeOk
  simp only [hne, Bool.false_eq_true, ↓reduceIte, hd, hb, hs, SRTDoc.decodeLine_utf8, h1, h2, beq_self_eq_true,
    Bool.and_self]
  -- the driver first asks whether the cue list is outside the representable class (`ssaWriteOutside`): either way
  split <;> rfl

/-! ## 4. layer by layer -/

/-- **Lines.** The decoder's splitter cuts lines without LF / CR, each followed by LF, back into these lines. -/
theorem decoder_lines (ls : List Str) (h : ∀ l ∈ ls, '\n' ∉ l ∧ '\r' ∉ l) :
    Spec.SSA.splitLines (unlines ls) [] = ls := splitLines_unlines ls h

/-- **Shape.** Every line of the written document: `[Script Info]`, one `; c` per comment, one `Header: text` per
    set key, then the styles block (absent without styles) and the events block. -/
theorem written_document_lines (s : Subs) (out : Str) (h : write s = .ok out) :
    ∃ rows, allSome ((writerStyles s).map fun st => st.row (formatOf (formatFlds (writerStyles s)))) = some rows ∧
      out = unlines (docLinesW s rows) := written_lines s out h

/-- **Sections.** The trimmed non-blank lines of the written document are grouped into script info, styles
    (absent without styles) and events, each with exactly its body lines. -/
theorem decoder_sections (s : Subs) (rows : List Str) (hr : ∀ r ∈ rows, Trimmed r)
    (he : ∀ e ∈ s.items.map eventOfItem, Trimmed e.text) :
    Spec.SSA.sections (docLinesT s rows) =
      some (if rows = [] then
              [(.info, infoBody (infoOfMeta s.metadata)), (.events, eventsBodyT (isV4plus s) (s.items.map eventOfItem))]
            else
              [(.info, infoBody (infoOfMeta s.metadata)), (.styles, stylesBodyT (formatFlds (writerStyles s)) rows),
               (.events, eventsBodyT (isV4plus s) (s.items.map eventOfItem))]) :=
  sections_written s rows hr he

/-- **Script info.** On the body of the written block of a good script info (`InfoOK`, `Timer` surviving the
    decoder) the decoder collects exactly the comments and returns every set key, in table order, with the writer's
    typed value (integers through `Itoa`, `Timer` through `,`, strings as they are). -/
theorem decoder_script_info (b : Info) (h : InfoDec b) :
    Spec.SSA.commentsOf (infoBody b) = b.comments ∧ Spec.SSA.infoOf (infoBody b) = some (infoG b) :=
  infoOf_written b h

/-- **Style cell.** The decoder reads every good cell the writer emits (boolean `1`/`0`, colour `&Haabbggrr`,
    three-decimal float, integer, font name) as the writer's typed value; the cell is not empty. -/
theorem decoder_style_cell (f : Fld) (v : Val) (cell : Str) (h : CellOK f v) (hf : valFloat3 v = true)
    (hc : v.ssa = some cell) : Spec.SSA.valOf (gk f.kind) cell = some (gval v) ∧ cell ≠ [] :=
  valOf_cell f v cell h hf hc

/-- **Style row.** Under the Format `Name, <distinct columns covering the style's attributes>` the decoder reads the
    row `ssaStyle.string` writes as the style's name and exactly its set attributes (unset ones are empty cells). -/
theorem decoder_style_row (s : Style) (fs : List Fld) (row : Str) (hs : StyleOK s) (hnd : fs.Nodup)
    (hfl : ∀ f ∈ Fld.all, ∀ v, s.vals.get f = some v → valFloat3 v = true)
    (hcov : ∀ f, (s.vals.get f).isSome → f ∈ fs) (hrow : s.row (formatOf fs) = some row) :
    specStyleRow ((formatOf fs).map Spec.SSA.normCol) row = some (styleG s) :=
  specStyleRow_row s fs row hs hnd hfl hcov hrow

/-- **Styles section.** `Format:` line and `Style:` rows of the writer → the styles, in order. -/
theorem decoder_styles_section (fs : List Fld) (hnd : fs.Nodup) (ss : List Style) (rows : List Str)
    (h : ∀ s ∈ ss, StyleOK s ∧ StyleTrimmed s ∧ (∀ f ∈ Fld.all, ∀ v, s.vals.get f = some v → valFloat3 v = true) ∧
      (∀ f, (s.vals.get f).isSome → f ∈ fs))
    (hrows : allSome (ss.map fun s => s.row (formatOf fs)) = some rows) :
    Spec.SSA.stylesOf (stylesBodyT fs rows) none = some (ss.map styleG) :=
  stylesOf_block fs hnd ss rows h hrows

/-- **Runs.** The decoder's override-block scanner cuts the concatenation of the runs of a good line (an optional
    plain first run, then `{…}` + brace-free text) back into these runs. -/
theorem decoder_runs (runs : List Run) (h : GoodLine runs) :
    Spec.SSA.runsOf ((SSA.lineStr runs).length + 2) (SSA.lineStr runs) none [] [] = some (runs.map grun) :=
  runsOf_goodLine runs h

/-- **Event text.** Lines (no `\n` / `\N`, nothing to trim) of good runs, joined with `\n`, are decoded into these
    lines of these runs. -/
theorem decoder_text (ls : List (List Run)) (hne : ls ≠ []) (hg : ∀ l ∈ ls, GoodLine l)
    (hl : ∀ l ∈ ls, LineOK (SSA.lineStr l)) :
    Spec.SSA.textOf (join "\\n".toList (ls.map SSA.lineStr)) = some (ls.map fun l => l.map grun) :=
  textOf_written ls hne hg hl

/-- **Dialogue row.** Under the writer's Format (v4 or v4+) the decoder reads the row `ssaEvent.string` writes for an
    event with good cells as: both instants in centiseconds, `Layer` (v4+) or `Marked` (v4), the three margins
    explicit, effect, name, style name, and the lines it decodes from the text. -/
theorem decoder_dialogue_row (v : Bool) (e : Event) (lines : List (List GRun)) (h : EventCells e)
    (ht : Spec.SSA.textOf e.text = some lines) :
    Spec.SSA.eventOf ((eventFormat v).map String.ofList) (e.row v) = some (eventR v e lines) :=
  eventOf_row v e lines h ht

/-- **Events section.** `Format:` line and `Dialogue:` rows of the writer → one raw event per row, in order. -/
theorem decoder_events_section (v : Bool) (es : List Event) (tl : Event → List (List GRun))
    (h : ∀ e ∈ es, EventCells e ∧ Trimmed e.text ∧ Spec.SSA.textOf e.text = some (tl e)) :
    Spec.SSA.eventsOf (eventsBodyT v es) none = some (es.map fun e => eventR v e (tl e)) :=
  eventsOf_block v es tl h

/-- **Document.** On the written text (without CR) the decoder returns `docG s`: comments, script info, styles
    sorted by name, one event per cue with its style reference resolved — all spelled out from the writer's typed
    values. -/
theorem decoder_document (s : Subs) (out : Str) (want : GDoc) (hd : denote s = some want) (hr : RepRead s)
    (hx : Extra s want) (hw : write s = .ok out) (hcr : '\r' ∉ out) : decode out = some (docG s) :=
  decode_docG s out want hd hr hx hw hcr

/-- **Bridge.** What `denote` says of a cue list of the class is that same document `docG s`: canonical texts and
    typed values agree (`true`/`false`, 8 hexadecimal digits, `f` + bits, decimal integers of 64 bits), the two sort
    orders give the same list, style references resolve to themselves. -/
theorem denote_is_docG (s : Subs) (want : GDoc) (hd : denote s = some want) (hr : RepRead s) (hx : Extra s want) :
    want = docG s := bridge s want hd hr hx

end C04w2
end Astisub
