import Astisub.Model.Conc
import Astisub.Generated.Globals

/-!
# C20 — Independent calls are safe to run concurrently

What a proof can carry is the *logic* of the claim: calls that only read shared immutable state and
write their own private state return, under **every** interleaving of their steps (any number of
calls, any lengths), exactly what they return when run alone.  The structural premise — no
instruction of the package writes package-level state after initialisation — is re-established
from `/repo`'s working tree on every run (`Generated.globalWrites`, extracted with go/ssa) and is a
theorem here, so a change that caches into or patches a shared table in place breaks this file.
What the extraction cannot decide by itself is *pinned*: the list of package-level variables with their
types, the module-internal imports, the files excluded by build constraints, the places where a reference
into package-level state is handed to code the extraction does not see into, and the variables whose type
holds state. Each is a theorem `Generated.<list> = <literal, as reviewed>`; any change of a list breaks it.

What no Lean model can exhibit is a data race as the Go memory model defines it: that part of the
property is searched dynamically (`conc.batch` under the race detector).
-/

namespace Astisub
namespace C20
open Conc List

/-- **Premise, tied to the code.** No instruction outside package initialisation writes package-level state:
    no store through an address derived from a package-level variable — followed through loads, through fields of
    per-call objects that hold a reference loaded from such a variable, through locals and captured variables,
    through call results and through any depth of parameter passing —, no update of a package-level map, no
    `copy`/`append`/`delete`/`clear` into one, no mutating container method on one; no write to a variable captured
    by a function that outlives package initialisation; no write to another package's variables and no call of a
    process-wide setter; no package-level variable whose own type holds a synchronisation primitive or a channel;
    and the bare address of no package-level variable leaves the analysed code.
    (Re-checked against the list regenerated from the working tree on every run.) -/
theorem no_global_writes : Generated.globalWrites = [] := rfl

/-- **The package-level variables are exactly these, with exactly these types.** A change that adds a variable
    (a cache, a pool, a scratch buffer, a memoising function value, a lazily built table …), removes one or changes
    the type of one changes the regenerated list and breaks this theorem: somebody has to look at the new variable
    and re-pin the list. -/
theorem globals_pinned : Generated.packageGlobals =
  [("BytesBOM", "[]byte"),
   ("ColorBlack", "*Color"),
   ("ColorBlue", "*Color"),
   ("ColorCyan", "*Color"),
   ("ColorGray", "*Color"),
   ("ColorGreen", "*Color"),
   ("ColorLime", "*Color"),
   ("ColorMagenta", "*Color"),
   ("ColorMaroon", "*Color"),
   ("ColorNavy", "*Color"),
   ("ColorOlive", "*Color"),
   ("ColorPurple", "*Color"),
   ("ColorRed", "*Color"),
   ("ColorSilver", "*Color"),
   ("ColorTeal", "*Color"),
   ("ColorWhite", "*Color"),
   ("ColorYellow", "*Color"),
   ("ErrInvalidExtension", "error"),
   ("ErrNoSubtitlesToWrite", "error"),
   ("ErrNoValidTeletextPID", "error"),
   ("JustificationCentered", "Justification"),
   ("JustificationLeft", "Justification"),
   ("JustificationRight", "Justification"),
   ("JustificationUnchanged", "Justification"),
   ("Now", "func() time.Time"),
   ("bytesLineSeparator", "[]byte"),
   ("bytesSRTTimeBoundariesSeparator", "[]byte"),
   ("bytesSpace", "[]byte"),
   ("bytesWebVTTItalicEndTag", "[]byte"),
   ("bytesWebVTTItalicStartTag", "[]byte"),
   ("bytesWebVTTTimeBoundariesSeparator", "[]byte"),
   ("htmlEscaper", "*strings.Replacer"),
   ("htmlUnescaper", "*strings.Replacer"),
   ("ssaRegexpEffect", "*regexp.Regexp"),
   ("stlCharacterCodeTables", "map[uint16]*github.com/asticode/go-astikit.BiMap"),
   ("stlFramerateMapping", "*github.com/asticode/go-astikit.BiMap"),
   ("stlLanguageMapping", "*github.com/asticode/go-astikit.BiMap"),
   ("stlUnicodeDiacritic", "*github.com/asticode/go-astikit.BiMap"),
   ("stlUnicodeMapping", "*github.com/asticode/go-astikit.BiMap"),
   ("teletextCharsetG0Arabic", "*teletextCharset"),
   ("teletextCharsetG0CyrillicOption1", "*teletextCharset"),
   ("teletextCharsetG0CyrillicOption2", "*teletextCharset"),
   ("teletextCharsetG0CyrillicOption3", "*teletextCharset"),
   ("teletextCharsetG0Greek", "*teletextCharset"),
   ("teletextCharsetG0Hebrew", "*teletextCharset"),
   ("teletextCharsetG0Latin", "*teletextCharset"),
   ("teletextCharsetG2Arabic", "*teletextCharset"),
   ("teletextCharsetG2Cyrillic", "*teletextCharset"),
   ("teletextCharsetG2Greek", "*teletextCharset"),
   ("teletextCharsetG2Latin", "*teletextCharset"),
   ("teletextCharsets", "map[uint8]map[uint8]struct{g0 *teletextCharset; g2 *teletextCharset; national *teletextNationalSubset}"),
   ("teletextNationalSubsetCharactersPositionInG0", "[13]uint8"),
   ("teletextNationalSubsetCzechSlovak", "*teletextNationalSubset"),
   ("teletextNationalSubsetEnglish", "*teletextNationalSubset"),
   ("teletextNationalSubsetEstonian", "*teletextNationalSubset"),
   ("teletextNationalSubsetFrench", "*teletextNationalSubset"),
   ("teletextNationalSubsetGerman", "*teletextNationalSubset"),
   ("teletextNationalSubsetItalian", "*teletextNationalSubset"),
   ("teletextNationalSubsetLettishLithuanian", "*teletextNationalSubset"),
   ("teletextNationalSubsetPolish", "*teletextNationalSubset"),
   ("teletextNationalSubsetPortugueseSpanish", "*teletextNationalSubset"),
   ("teletextNationalSubsetRomanian", "*teletextNationalSubset"),
   ("teletextNationalSubsetSerbianCroatianSlovenian", "*teletextNationalSubset"),
   ("teletextNationalSubsetSwedishFinnishHungarian", "*teletextNationalSubset"),
   ("teletextNationalSubsetTurkish", "*teletextNationalSubset"),
   ("ttmlLanguageMapping", "*github.com/asticode/go-astikit.BiMap"),
   ("ttmlRegexpClockTimeFrames", "*regexp.Regexp"),
   ("ttmlRegexpOffsetTime", "*regexp.Regexp"),
   ("webVTTRegexpInlineTimestamp", "*regexp.Regexp"),
   ("webVTTRegexpTag", "*regexp.Regexp")] := rfl

/-- the only injectable package-level state is the documented clock; it is among the package's variables, it is
    a function value, and (`no_global_writes`) nothing in the package assigns it -/
theorem clock_is_a_global : ("Now", "func() time.Time") ∈ Generated.packageGlobals := by decide

/-- **The library is one package.** The root package imports no other package of its own module, so there is no
    package-level state of the library outside the variables listed above (if it ever does, the functions and
    variables of those packages are analysed as well, and this list must be re-pinned). -/
theorem internal_imports_pinned : Generated.internalImports =
  [] := rfl

/-- **The extractor sees every file the harness builds.** It loads the package with `-tags verif`, like the
    harness; these are the non-test files of the package directory that build constraints still exclude. A new
    file behind a build tag (`race`, an operating system, `!verif` …) shows up here. -/
theorem ignored_files_pinned : Generated.ignoredFiles =
  [] := rfl

/-- **Every place where a reference into package-level state leaves the analysed code, as of today.** These are
    the calls of functions of other packages on the shared tables (the read-only methods of `regexp.Regexp`,
    `strings.Replacer`, `astikit.BiMap`), the calls through the injectable clock, the sentinel errors that are
    returned, and the places where a per-call object keeps a reference to (or a copy of) a shared table. None of
    them writes. A new entry — `io.ReadFull` into a package-level buffer, `sort.Strings` of a package-level
    slice, `(*Regexp).Longest`, a method of a package-level `*bytes.Buffer`, a table pointer kept in a decoder
    instead of a copy of the table … — breaks this theorem and has to be looked at. -/
theorem handovers_pinned : Generated.sharedHandovers =
  ["appended teletextCharsetG0Latin as []byte",
   "appended teletextCharsets as []byte",
   "dynamic call <- Now",
   "foreign (*github.com/asticode/go-astikit.BiMap).Get <- stlCharacterCodeTables",
   "foreign (*github.com/asticode/go-astikit.BiMap).Get <- stlFramerateMapping",
   "foreign (*github.com/asticode/go-astikit.BiMap).Get <- stlLanguageMapping",
   "foreign (*github.com/asticode/go-astikit.BiMap).Get <- stlUnicodeDiacritic",
   "foreign (*github.com/asticode/go-astikit.BiMap).Get <- stlUnicodeMapping",
   "foreign (*github.com/asticode/go-astikit.BiMap).Get <- ttmlLanguageMapping",
   "foreign (*github.com/asticode/go-astikit.BiMap).GetInverse <- stlFramerateMapping",
   "foreign (*github.com/asticode/go-astikit.BiMap).GetInverse <- stlLanguageMapping",
   "foreign (*github.com/asticode/go-astikit.BiMap).GetInverse <- stlUnicodeDiacritic",
   "foreign (*github.com/asticode/go-astikit.BiMap).GetInverse <- stlUnicodeMapping",
   "foreign (*github.com/asticode/go-astikit.BiMap).GetInverse <- ttmlLanguageMapping",
   "foreign (*regexp.Regexp).FindAllStringIndex <- ssaRegexpEffect",
   "foreign (*regexp.Regexp).FindAllStringSubmatchIndex <- webVTTRegexpInlineTimestamp",
   "foreign (*regexp.Regexp).FindStringIndex <- ttmlRegexpClockTimeFrames",
   "foreign (*regexp.Regexp).FindStringSubmatch <- ttmlRegexpOffsetTime",
   "foreign (*regexp.Regexp).FindStringSubmatch <- webVTTRegexpTag",
   "foreign (*strings.Replacer).Replace <- htmlEscaper",
   "foreign (*strings.Replacer).Replace <- htmlUnescaper",
   "foreign (time.Time).Format <- Now",
   "returned (github.com/asticode/go-astisub.Subtitles).Write ErrInvalidExtension",
   "returned (github.com/asticode/go-astisub.Subtitles).Write ErrNoSubtitlesToWrite",
   "returned (github.com/asticode/go-astisub.Subtitles).WriteToSRT ErrNoSubtitlesToWrite",
   "returned (github.com/asticode/go-astisub.Subtitles).WriteToSSA ErrNoSubtitlesToWrite",
   "returned (github.com/asticode/go-astisub.Subtitles).WriteToSTL ErrNoSubtitlesToWrite",
   "returned (github.com/asticode/go-astisub.Subtitles).WriteToTTML ErrNoSubtitlesToWrite",
   "returned (github.com/asticode/go-astisub.Subtitles).WriteToWebVTT ErrNoSubtitlesToWrite",
   "returned Open ErrInvalidExtension",
   "returned Open ErrNoValidTeletextPID",
   "returned OpenFile ErrInvalidExtension",
   "returned OpenFile ErrNoValidTeletextPID",
   "returned ReadFromTeletext ErrNoValidTeletextPID",
   "stored ColorBlack as *Color into StyleAttributes.TeletextColor",
   "stored ColorBlue as *Color into StyleAttributes.TeletextColor",
   "stored ColorCyan as *Color into StyleAttributes.TeletextColor",
   "stored ColorGreen as *Color into StyleAttributes.TeletextColor",
   "stored ColorMagenta as *Color into StyleAttributes.TeletextColor",
   "stored ColorRed as *Color into StyleAttributes.TeletextColor",
   "stored ColorWhite as *Color into StyleAttributes.TeletextColor",
   "stored ColorYellow as *Color into StyleAttributes.TeletextColor",
   "stored ErrInvalidExtension as any into element of *[2]any",
   "stored ErrNoSubtitlesToWrite as any into element of *[2]any",
   "stored ErrNoValidTeletextPID as any into element of *[1]any",
   "stored ErrNoValidTeletextPID as any into element of *[2]any",
   "stored Now as time.Time into gsiBlock.creationDate",
   "stored Now as time.Time into gsiBlock.revisionDate",
   "stored stlCharacterCodeTables as *github.com/asticode/go-astikit.BiMap into stlCharacterHandler.m",
   "stored teletextCharsetG0Latin as []byte into element of *[1][]byte",
   "stored teletextCharsetG0Latin as teletextCharset into teletextCharacterDecoder.c",
   "stored teletextCharsets as []byte into element of *[1][]byte",
   "stored teletextCharsets as []byte into element of teletextCharacterDecoder.c",
   "stored teletextCharsets as teletextCharset into teletextCharacterDecoder.c"] := rfl

/-- **Package-level variables whose type holds state of some kind, looked into across packages, as of today**:
    the sentinel errors (interface values), the clock (a function value), the replacers (`sync.Once` inside
    `strings.Replacer`, documented safe for concurrent use) and the lock-protected `astikit.BiMap`s. -/
theorem stateful_pinned : Generated.statefulForeign =
  ["ErrInvalidExtension: interface",
   "ErrNoSubtitlesToWrite: interface",
   "ErrNoValidTeletextPID: interface",
   "Now: func",
   "htmlEscaper: sync.Once in strings.Replacer",
   "htmlUnescaper: sync.Once in strings.Replacer",
   "stlCharacterCodeTables: interface in github.com/asticode/go-astikit.BiMap",
   "stlFramerateMapping: interface in github.com/asticode/go-astikit.BiMap",
   "stlLanguageMapping: interface in github.com/asticode/go-astikit.BiMap",
   "stlUnicodeDiacritic: interface in github.com/asticode/go-astikit.BiMap",
   "stlUnicodeMapping: interface in github.com/asticode/go-astikit.BiMap",
   "ttmlLanguageMapping: interface in github.com/asticode/go-astikit.BiMap"] := rfl

theorem tick_length {S L : Type} (s : S) (ps : List (Proc S L)) (i : Nat) : (tick s ps i).length = ps.length := by
  induction ps generalizing i with
  | nil => rfl
  | cons p ps ih =>
    cases i with
    | zero => unfold tick; split <;> simp
    | succ i => simp [tick, ih]

/-- one tick never changes what any call will eventually return -/
theorem tick_outcome {S L : Type} (s : S) (ps : List (Proc S L)) (i : Nat) :
    (tick s ps i).map (outcome s) = ps.map (outcome s) := by
  induction ps generalizing i with
  | nil => rfl
  | cons p ps ih =>
    cases i with
    | zero =>
      unfold tick
      cases h : p.todo with
      | nil => simp
      | cons st rest => simp [outcome, solo, h]
    | succ i => simp [tick, ih]

/-- **Interleaving theorem.** Under every schedule, what each call will have computed when it
    finishes is what it computes alone. -/
theorem exec_outcome {S L : Type} (s : S) (ps : List (Proc S L)) (sched : List Nat) :
    (exec s ps sched).map (outcome s) = ps.map (outcome s) := by
  unfold exec
  induction sched generalizing ps with
  | nil => rfl
  | cons i rest ih => rw [foldl_cons, ih, tick_outcome]

/-- in particular: once a schedule has let every call finish, each call's private state is exactly
    its solo result, whatever the interleaving was -/
theorem finished_equals_solo {S L : Type} (s : S) (calls : List (List (Step S L) × L)) (sched : List Nat)
    (hdone : ∀ p ∈ exec s (calls.map fun c => { todo := c.1, loc := c.2 }) sched, p.todo = []) :
    (exec s (calls.map fun c => { todo := c.1, loc := c.2 }) sched).map (·.loc)
      = calls.map fun c => solo s c.1 c.2 := by
  have h := exec_outcome s (calls.map fun c => ({ todo := c.1, loc := c.2 } : Proc S L)) sched
  have hl : (exec s (calls.map fun c => ({ todo := c.1, loc := c.2 } : Proc S L)) sched).map (outcome s)
      = (exec s (calls.map fun c => ({ todo := c.1, loc := c.2 } : Proc S L)) sched).map (·.loc) := by
    apply map_congr_left
    intro p hp
    simp [outcome, solo, hdone p hp]
  rw [← hl, h]
  simp [outcome, Function.comp_def]

/-- non-vacuity: two calls of two steps each, interleaved 0,1,1,0, end as when run alone -/
example : (exec (10 : Nat) [⟨[fun s l => l + s, fun s l => l * s], 1⟩, ⟨[fun s l => l + 2 * s, fun _ l => l + 1], 5⟩] [0, 1, 1, 0]).map (·.loc)
    = [solo 10 [fun s l => l + s, fun s l => l * s] 1, solo 10 [fun s l => l + 2 * s, fun _ l => l + 1] 5] := by decide

end C20
end Astisub
