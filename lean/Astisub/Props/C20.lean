import Astisub.Model.Conc
import Astisub.Generated.Globals

/-!
# C20 — Independent calls are safe to run concurrently

What a proof can carry is the *logic* of the claim: calls that only read shared immutable state and
write their own private state return, under **every** interleaving of their steps (any number of
calls, any lengths), exactly what they return when run alone.  The structural premise — no
instruction of the package writes package-level state after initialisation — is re-established
from `/repo`'s working tree on every run (`Generated.globalWrites`, extracted with go/ssa) and is a
theorem here, so a change that caches into or patches a shared table in place breaks this file.

What no Lean model can exhibit is a data race as the Go memory model defines it: that part of the
property is searched dynamically (`conc.batch` under the race detector).
-/

namespace Astisub
namespace C20
open Conc List

/-- **Premise, tied to the code.** No instruction outside package initialisation stores through an
    address derived from a package-level variable, updates a package-level map, passes such an address
    to a function that stores through it, or calls a mutating container method on a package-level
    value; no package-level variable's own type holds a synchronisation primitive, pool or channel
    (state meant to be mutated by concurrent callers); and the address of no package-level variable
    is handed to code the extraction does not see into (dynamic call, call into another package,
    closure, heap store, return value).  (Re-checked against the regenerated list on every run.) -/
theorem no_global_writes : Generated.globalWrites = [] := rfl

/-- the only injectable package-level state is the documented clock; it is among the package's
    variables and nothing in the package assigns it -/
theorem clock_is_a_global : "Now" ∈ Generated.packageGlobals := by decide

theorem tick_length {S L : Type} (s : S) (ps : List (Proc S L)) (i : Nat) : (tick s ps i).length = ps.length := by
  induction ps generalizing i with
  | nil => rfl
  | cons p ps ih =>
    cases i with
    | zero => unfold tick; split <;> simp
    | succ i => simp [tick, ih]

/-- one tick never changes what any call will eventually return -/
theorem tick_outcome {S L : Type} (s : S) (ps : List (Proc S L)) (i : Nat) :
    (tick s ps i).map (outcome s) = ps.map (outcome s) := by
  induction ps generalizing i with
  | nil => rfl
  | cons p ps ih =>
    cases i with
    | zero =>
      unfold tick
      cases h : p.todo with
      | nil => simp
      | cons st rest => simp [outcome, solo, h]
    | succ i => simp [tick, ih]

/-- **Interleaving theorem.** Under every schedule, what each call will have computed when it
    finishes is what it computes alone. -/
theorem exec_outcome {S L : Type} (s : S) (ps : List (Proc S L)) (sched : List Nat) :
    (exec s ps sched).map (outcome s) = ps.map (outcome s) := by
  unfold exec
  induction sched generalizing ps with
  | nil => rfl
  | cons i rest ih => rw [foldl_cons, ih, tick_outcome]

/-- in particular: once a schedule has let every call finish, each call's private state is exactly
    its solo result, whatever the interleaving was -/
theorem finished_equals_solo {S L : Type} (s : S) (calls : List (List (Step S L) × L)) (sched : List Nat)
    (hdone : ∀ p ∈ exec s (calls.map fun c => { todo := c.1, loc := c.2 }) sched, p.todo = []) :
    (exec s (calls.map fun c => { todo := c.1, loc := c.2 }) sched).map (·.loc)
      = calls.map fun c => solo s c.1 c.2 := by
  have h := exec_outcome s (calls.map fun c => ({ todo := c.1, loc := c.2 } : Proc S L)) sched
  have hl : (exec s (calls.map fun c => ({ todo := c.1, loc := c.2 } : Proc S L)) sched).map (outcome s)
      = (exec s (calls.map fun c => ({ todo := c.1, loc := c.2 } : Proc S L)) sched).map (·.loc) := by
    apply map_congr_left
    intro p hp
    simp [outcome, solo, hdone p hp]
  rw [← hl, h]
  simp [outcome, Function.comp_def]

/-- non-vacuity: two calls of two steps each, interleaved 0,1,1,0, end as when run alone -/
example : (exec (10 : Nat) [⟨[fun s l => l + s, fun s l => l * s], 1⟩, ⟨[fun s l => l + 2 * s, fun _ l => l + 1], 5⟩] [0, 1, 1, 0]).map (·.loc)
    = [solo 10 [fun s l => l + s, fun s l => l * s] 1, solo 10 [fun s l => l + 2 * s, fun _ l => l + 1] 5] := by decide

end C20
end Astisub
