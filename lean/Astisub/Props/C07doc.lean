import Astisub.Lemmas.ConvSRT
import Astisub.Lemmas.ConvVTT
import Astisub.Lemmas.ConvErase
import Astisub.Lemmas.ConvChain
import Astisub.Driver.SSA
import Astisub.Driver.STL

/-!
# C07 (document level) — conversion to SubRip and to WebVTT preserves the cues, for all plain cue lists

`Props/C07.lean` proves the laws the conversion predicate rests on (dispatch, truncation algebra,
CLI).  This file proves the conversion clause itself for the Lean model, for the destinations
`srt` and `vtt`: for **every** cue list `s` — whatever its source format left in it — that is in
the destination's range (`Driver.inRange`, the check's own range clause) and plain (`PlainSRT` /
`PlainVTT`, decidable), writing `s` with the destination's writer model and reading the bytes with
the destination's reader model (UTF-8, line scanner, decoding: exactly what the driver computes)
succeeds and returns a cue list `back` with

    Driver.convOk strict dst s back = true

— literally the predicate the `conv.pair` check evaluates: same number of cues in the same order,
each with start and end equal to the source's truncated to the millisecond, and the same text
lines.  In fact more is proved: `viewOf back = truncView 1000000 (viewOf s)`, an equality of views.

Vocabulary (all executable; `Lemmas/ConvView.lean`, `ConvSRT.lean`, `ConvVTT.lean`):

* `viaSRT s`, `viaVTT s` — write, encode, scan, decode, read; `none` when the writer refuses or
  the reader fails or leaves its modelled class.
* `truncView u v` — the view `v` with every instant `t` replaced by `truncTo u t`.
* `ConvSRT.PlainSRT s` — at least one cue, at most 2⁶³−1; in every line no run has SubRip markup
  (`SRTBold`, `SRTItalics`, `SRTUnderline`, non-empty `SRTColor` / `SRTPosition`) and the line's
  text (its runs concatenated) consists of letters, digits, blanks and `, . ! ?` (`simpleText`), is
  not empty and neither begins nor ends with a blank.  Everything else is free: any other run / cue
  / style / metadata attribute (`TTMLColor`, `WebVTTTags`, `STL…`, `SSA…`, `Teletext…`), voices,
  comments, regions, styles, indexes, how a line is cut into runs, empty runs, cues without lines.
* `ConvVTT.PlainVTT s` — the same for WebVTT: no run with `WebVTTTags`, a *named* `TTMLColor`
  (one of the five colours the writer turns into a `<c.…>` class) or a positive start offset; no
  voice; cues without comments and region, cue settings absent or single words; no region
  definitions, no `STYLE` text in a style, no timestamp map.  Everything else is free.

Further statements: the writers ignore foreign attributes (`srt_write_ignores_foreign`,
`vtt_write_ignores_foreign`: erasing them leaves the written text unchanged) and the way a line is
cut into runs (`…_ignores_runs`); the same conversions with SubRip / WebVTT markup allowed
(`srt_conv_rep`, `vtt_conv_ok`); the composition with any operation sequence of `Driver.applyOps`
(`srt_conv_ops`, `vtt_conv_ops`, `ops_then_convert`); two conversions in a row (`srt_twice`,
`srt_then_vtt`).  NOT proved, kept as statements: the destinations SSA / ASS and STL
(`ssa_conv_Statement`, `stl_conv_Statement`).

Which provisos beyond range are needed for the conclusion itself, and which only for the round-trip
theorems this rests on, is shown by witnesses at the end.
-/

namespace Astisub
namespace C07doc
open Go Spec.Conv Driver ConvView

/-- the conversion to SubRip as the check's model side computes it: write, UTF-8 encode, cut into
    lines with the scanner model, decode, read -/
def viaSRT (s : Subs) : Option Subs :=
  match SRT.write s with
  | none => none
  | some doc => match SRT.read (docLines (utf8 doc)) with
    | .ok back => some back
    | _ => none

/-- the conversion to WebVTT, likewise -/
def viaVTT (s : Subs) : Option Subs :=
  match VTT.write s with
  | none => none
  | some doc => match VTT.read (docLines (utf8 doc)) with
    | .ok back => some back
    | _ => none

/-! ## the predicate -/

/-- **What `convOk` needs.** if the destination read back shows the source's cues at the
    destination's resolution (same cues, same order, truncated instants, same lines), the check's
    predicate holds; for every destination but STL and in both modes of the check -/
theorem convOk_of_view (strict : Bool) (dst : String) (hd : dst ≠ "stl") (s back : Subs)
    (h : viewOf back = truncView (unitOfDst dst) (viewOf s)) : convOk strict dst s back = true :=
  ConvView.convOk_of_view strict dst hd s back h

/-- what the view equality says cue by cue: as many cues, the `k`-th with start and end equal to the
    source's truncated, and with the same non-blank text lines (white space disregarded) -/
theorem view_facts (u : Int) (s back : Subs) (h : viewOf back = truncView u (viewOf s)) :
    back.items.length = s.items.length ∧
    ∀ (k : Nat) (a b : CItem), s.items[k]? = some a → back.items[k]? = some b →
      b.startAt = truncTo u a.startAt ∧ b.endAt = truncTo u a.endAt ∧ (cueView b).lines = (cueView a).lines :=
  ConvView.view_facts u s back h

/-! ## the writers ignore what other formats left in the cue list -/

/-- **The SubRip writer ignores foreign attributes.**  `eraseSRT s` keeps of every cue its two
    instants and its lines, of every run its text and the five SubRip attributes (`SRTBold`,
    `SRTColor`, `SRTItalics`, `SRTPosition`, `SRTUnderline`) — and drops everything else: all other
    run attributes (`TTMLColor`, `WebVTTTags`, `STL…`, `SSA…`, `Teletext…`), start offsets, inline
    style references, voices, cue attributes / style / region / comments / index, the region and
    style tables, the metadata.  The written text is the same, for every cue list. -/
theorem srt_write_ignores_foreign (s : Subs) : SRT.write (ConvErase.eraseSRT s) = SRT.write s :=
  ConvErase.srt_write_erase s

/-- **The WebVTT writer ignores foreign attributes.**  `eraseVTT s` keeps of every run its text,
    start offset, `WebVTTTags` and `TTMLColor`; of every line its voice; of every cue its instants,
    comments, region and style references and the five cue settings (`WebVTTAlign`, `WebVTTLine`,
    `WebVTTPosition`, `WebVTTSize`, `WebVTTVertical`); the region and style tables and the metadata
    whole — and drops all other run and cue attributes, inline style references and indexes.  The
    written text is the same, for every cue list.  (`TTMLColor` is *not* foreign to this writer: a
    colour with a CSS name is written as a `<c.…>` class.) -/
theorem vtt_write_ignores_foreign (s : Subs) : VTT.write (ConvErase.eraseVTT s) = VTT.write s :=
  ConvErase.vtt_write_erase s

/-- hence the whole conversion does not see them either, and neither does the view -/
theorem via_ignores_foreign (s : Subs) :
    viaSRT (ConvErase.eraseSRT s) = viaSRT s ∧ viaVTT (ConvErase.eraseVTT s) = viaVTT s ∧
    viewOf (ConvErase.eraseSRT s) = viewOf s ∧ viewOf (ConvErase.eraseVTT s) = viewOf s := by
  refine ⟨?_, ?_, ConvErase.view_eraseSRT s, ConvErase.view_eraseVTT s⟩
  · simp only [viaSRT, ConvErase.srt_write_erase]
  · simp only [viaVTT, ConvErase.vtt_write_erase]

/-! ## destination SubRip -/

/-- **The SubRip writer ignores foreign attributes and the run structure.** the written text only
    depends on the instants, on the five SubRip attributes of every run and on the texts: merging
    adjacent runs without SubRip markup changes nothing (so a line cut into runs by another format's
    reader is written as its concatenation) -/
theorem srt_write_ignores_runs (s : Subs) (h : SRTDoc.noPosition s = true) :
    SRT.write (SRTDoc.mergeS s) = SRT.write s :=
  SRTDoc.write_mergeS s h

/-- **Conversion to SubRip, with SubRip markup allowed.** every cue list without position tags that is
    representable once adjacent unstyled runs are merged (`SRTDoc.Rep`, `Props/C01doc.lean`: bold,
    italics, underline, colours, text with `<`, `&` … are all allowed) converts: the reader returns the
    normal form, whose view is the source's at millisecond resolution, and `convOk` holds -/
theorem srt_conv_rep (strict : Bool) (s : Subs) (hpos : SRTDoc.noPosition s = true)
    (hrep : SRTDoc.Rep (SRTDoc.mergeS s) = true) :
    viaSRT s = some (SRTDoc.norm (SRTDoc.mergeS s)) ∧
    viewOf (SRTDoc.norm (SRTDoc.mergeS s)) = truncView 1000000 (viewOf s) ∧
    convOk strict "srt" s (SRTDoc.norm (SRTDoc.mergeS s)) = true := by
  have hv := ConvSRT.view_norm_merge s
  refine ⟨?_, hv, ConvView.convOk_of_view strict "srt" (by decide) s _ (by rw [ConvSRT.unit_srt]; exact hv)⟩
  have hne : s.items ≠ [] := by
    intro e
    simp [SRTDoc.Rep, SRTDoc.mergeS, e] at hrep
  obtain ⟨doc, hw⟩ : ∃ doc, SRT.write s = some doc := ⟨_, SRTDoc.write_eq_lines s hne⟩
  have hr := C01doc.read_write_bytes (SRTDoc.mergeS s) hrep doc (by rw [SRTDoc.write_mergeS s hpos]; exact hw)
  simp only [viaSRT, hw, hr]

/-- **C07, destination `srt`.** For EVERY cue list in range and plain — whatever attributes other
    formats left in it — the conversion succeeds, and the check's predicate holds on (the cue list,
    the SubRip file read back): same number of cues, same order, instants truncated to the
    millisecond, same text lines -/
theorem srt_conv (strict : Bool) (s : Subs) (hr : inRange "srt" s = true) (hp : ConvSRT.PlainSRT s = true) :
    ∃ back, viaSRT s = some back ∧ convOk strict "srt" s back = true ∧
      viewOf back = truncView 1000000 (viewOf s) := by
  obtain ⟨hpos, hrep⟩ := ConvSRT.rep_of_plain s hr hp
  obtain ⟨h1, h2, h3⟩ := srt_conv_rep strict s hpos hrep
  exact ⟨_, h1, h3, h2⟩

/-- … and what comes back is explicit: cue `k` numbered `k+1`, instants truncated, every line one
    run without attributes carrying the line's text; styles, regions, metadata dropped -/
theorem srt_conv_back (s : Subs) (hr : inRange "srt" s = true) (hp : ConvSRT.PlainSRT s = true) :
    viaSRT s = some (SRTDoc.norm (SRTDoc.mergeS s)) :=
  (srt_conv_rep false s (ConvSRT.rep_of_plain s hr hp).1 (ConvSRT.rep_of_plain s hr hp).2).1

example : ConvSRT.PlainSRT ConvSRT.exampleForeign = true ∧ inRange "srt" ConvSRT.exampleForeign = true := by decide

/-! ## destination WebVTT -/

/-- **The WebVTT writer ignores foreign attributes and the run structure** of lines without
    WebVTT markup: collapsing every line into one attribute-free run carrying the line's text changes
    nothing in the written text, provided no run has `WebVTTTags`, a named `TTMLColor` or a positive
    start offset (`bareS`) -/
theorem vtt_write_ignores_runs (s : Subs) (h : ConvVTT.bareS s = true) :
    VTT.write (ConvVTT.flatS s) = VTT.write s :=
  ConvVTT.write_flatS s h

/-- **Conversion to WebVTT, with WebVTT markup allowed.** every cue list that satisfies the provisos of
    the document round trip of `Props/C02doc.lean` (tags, voices, inline timestamps, cue settings are
    all allowed) converts: the reader returns `readSubs s`, whose view is the source's at millisecond
    resolution, and `convOk` holds -/
theorem vtt_conv_ok (strict : Bool) (s : Subs) (hne : s.items ≠ []) (hok : ∀ it ∈ s.items, VTT.cueOk s it = true)
    (hlen : s.items.length ≤ int64Max) (hreg : s.regions = []) (hsty : VTT.styleLines s = [])
    (hmeta : SRT.kvGet s.metadata "WebVTTTimestampMap" = none) :
    viaVTT s = some (VTT.readSubs s) ∧
    viewOf (VTT.readSubs s) = truncView 1000000 (viewOf s) ∧
    convOk strict "vtt" s (VTT.readSubs s) = true := by
  have hv := ConvVTT.view_readSubs s
  refine ⟨?_, hv, ConvView.convOk_of_view strict "vtt" (by decide) s _ (by rw [ConvVTT.unit_vtt]; exact hv)⟩
  obtain ⟨doc, hw, hr⟩ := ConvVTT.read_write_bytes s hne hok hlen hreg hsty hmeta
  simp only [viaVTT, hw, hr]

/-- what the reader returns for a plain cue list: `readSubs` of the flattened list -/
theorem vtt_conv_back (s : Subs) (hr : inRange "vtt" s = true) (hp : ConvVTT.PlainVTT s = true) :
    viaVTT s = some (VTT.readSubs (ConvVTT.flatS s)) := by
  obtain ⟨h1, h2, h3, h4, h5⟩ := ConvVTT.doc_facts s hp
  have h := (vtt_conv_ok false (ConvVTT.flatS s) h1 (ConvVTT.cueOk_flat s hr hp) h2 h3 h4 h5).1
  simpa only [viaVTT, ConvVTT.write_flatS s (ConvVTT.bareS_of_plain s hp)] using h

/-- **C07, destination `vtt`.** For EVERY cue list in range and plain — whatever attributes other
    formats left in it — the conversion succeeds, and the check's predicate holds on (the cue list,
    the WebVTT file read back): same number of cues, same order, instants truncated to the
    millisecond, same text lines -/
theorem vtt_conv (strict : Bool) (s : Subs) (hr : inRange "vtt" s = true) (hp : ConvVTT.PlainVTT s = true) :
    ∃ back, viaVTT s = some back ∧ convOk strict "vtt" s back = true ∧
      viewOf back = truncView 1000000 (viewOf s) := by
  have hv : viewOf (VTT.readSubs (ConvVTT.flatS s)) = truncView 1000000 (viewOf s) := by
    rw [ConvVTT.view_readSubs, ConvVTT.view_flatS]
  exact ⟨_, vtt_conv_back s hr hp,
    ConvView.convOk_of_view strict "vtt" (by decide) s _ (by rw [ConvVTT.unit_vtt]; exact hv), hv⟩

example : inRange "vtt" ConvVTT.exampleForeign = true := by decide

/-! ## both destinations at once -/

/-- the conversion to the destination `dst` (the two destinations covered here) -/
def via (dst : String) (s : Subs) : Option Subs :=
  if dst = "srt" then viaSRT s else if dst = "vtt" then viaVTT s else none

/-- plain for the destination `dst` -/
def Plain (dst : String) (s : Subs) : Bool :=
  if dst = "srt" then ConvSRT.PlainSRT s else if dst = "vtt" then ConvVTT.PlainVTT s else false

/-- **C07 for D ∈ {srt, vtt}.** For every destination `dst` for which `Plain dst` can hold, every
    cue list in `dst`'s range and plain for `dst`: the conversion succeeds and `convOk` holds on the
    cue list and the destination read back, whose view is the source's with every instant truncated
    to `unitOfDst dst` -/
theorem conv (strict : Bool) (dst : String) (s : Subs) (hr : inRange dst s = true) (hp : Plain dst s = true) :
    ∃ back, via dst s = some back ∧ convOk strict dst s back = true ∧
      viewOf back = truncView (unitOfDst dst) (viewOf s) := by
  unfold Plain at hp
  by_cases h1 : dst = "srt"
  · subst h1
    simp only [if_true] at hp
    simpa only [via, if_true, ConvSRT.unit_srt] using srt_conv strict s hr hp
  · by_cases h2 : dst = "vtt"
    · subst h2
      simp only [h1, if_false, if_true] at hp
      have := vtt_conv strict s hr hp
      simpa only [via, h1, if_false, if_true, ConvVTT.unit_vtt] using this
    · simp [h1, h2] at hp

example : Plain "srt" ConvSRT.exampleForeign = true := by decide

/-! ## with operations in between -/

/-- **Operations, then SubRip.**  Let `expected` be what the transformation models make of the
    source's cues under ANY operation sequence (`Driver.applyOps`: add, fragment, unfragment, merge,
    optimize, order, linear correction, with any parameters and merge arguments), and `opsS` a cue list
    that shows exactly these cues (`vOfItems expected = viewOf opsS`: the correspondence clause the
    check establishes for the library's result).  If `opsS` is in range and plain then it converts,
    `convOk` holds, and the SubRip file read back shows the model's cues at millisecond resolution —
    the operations' specifications composed with the truncation. -/
theorem srt_conv_ops (strict : Bool) (src : Subs) (margs : List Subs) (ops : List String) (expected : List Item)
    (opsS : Subs) (_hops : applyOps (itemsOf src) (margs.map itemsOf) ops = some expected)
    (hcorr : vOfItems expected = viewOf opsS)
    (hr : inRange "srt" opsS = true) (hp : ConvSRT.PlainSRT opsS = true) :
    ∃ back, viaSRT opsS = some back ∧ convOk strict "srt" opsS back = true ∧
      viewOf back = truncView 1000000 (vOfItems expected) := by
  rw [hcorr]
  exact srt_conv strict opsS hr hp

/-- **Operations, then WebVTT**: the same for the destination `vtt` -/
theorem vtt_conv_ops (strict : Bool) (src : Subs) (margs : List Subs) (ops : List String) (expected : List Item)
    (opsS : Subs) (_hops : applyOps (itemsOf src) (margs.map itemsOf) ops = some expected)
    (hcorr : vOfItems expected = viewOf opsS)
    (hr : inRange "vtt" opsS = true) (hp : ConvVTT.PlainVTT opsS = true) :
    ∃ back, viaVTT opsS = some back ∧ convOk strict "vtt" opsS back = true ∧
      viewOf back = truncView 1000000 (vOfItems expected) := by
  rw [hcorr]
  exact vtt_conv strict opsS hr hp

/-- the cue list that carries exactly the model's items: one attribute-free run per text -/
def subsOfItems (xs : List Item) : Subs :=
  { items := xs.map fun it =>
      { startAt := it.startAt, endAt := it.endAt,
        lines := it.lines.map fun l => { items := l.map fun t => { text := t.toList } } } }

/-- it shows the model's cues: the correspondence clause holds for it by construction -/
theorem view_subsOfItems (xs : List Item) : viewOf (subsOfItems xs) = vOfItems xs := by
  simp only [viewOf, subsOfItems, vOfItems, List.map_map]
  apply List.map_congr_left
  intro it _
  have e : ∀ l : List String, ((l.map fun t => ({ text := t.toList } : LItem)).map (·.text)).flatten = (String.join l).toList := by
    intro l
    simp [String.toList_join, List.flatMap_def, Function.comp_def]
  have e2 : ((fun (l : Line) => squash (l.items.map (·.text)).flatten) ∘
      fun (l : List String) => ({ items := l.map fun t => ({ text := t.toList } : LItem) } : Line))
      = fun l => squash (String.join l).toList := by
    funext l
    exact congrArg squash (e l)
  simp only [Function.comp_apply, List.map_map, e2]

/-- **Purely in the model.** the transformation models followed by either conversion: whatever the
    operations, if their result (as a cue list) is in range and plain, the file read back shows the
    models' result at millisecond resolution -/
theorem ops_then_convert (xs : List Item) (args : List (List Item)) (ops : List String) (ys : List Item)
    (_hops : applyOps xs args ops = some ys) :
    (inRange "srt" (subsOfItems ys) = true → ConvSRT.PlainSRT (subsOfItems ys) = true →
      ∃ back, viaSRT (subsOfItems ys) = some back ∧ viewOf back = truncView 1000000 (vOfItems ys)) ∧
    (inRange "vtt" (subsOfItems ys) = true → ConvVTT.PlainVTT (subsOfItems ys) = true →
      ∃ back, viaVTT (subsOfItems ys) = some back ∧ viewOf back = truncView 1000000 (vOfItems ys)) := by
  constructor
  · intro hr hp
    obtain ⟨back, h1, _, h3⟩ := srt_conv false _ hr hp
    exact ⟨back, h1, by rw [h3, view_subsOfItems]⟩
  · intro hr hp
    obtain ⟨back, h1, _, h3⟩ := vtt_conv false _ hr hp
    exact ⟨back, h1, by rw [h3, view_subsOfItems]⟩

/-- non-vacuity: two cues, shifted by a quarter of a millisecond, are plain and in range -/
def exampleItems : List Item :=
  [{ uid := 1, startAt := 1500000000, endAt := 4000000000, lines := [["Hello, ", "world"]], pay := 1 },
   { uid := 2, startAt := 500000000, endAt := 900000001, lines := [["Is it?"], ["Yes."]], pay := 2 }]

/-- what `applyOps … ["add:250000"]` computes (the driver parses the operation names at run time;
    the kernel does not evaluate `String.splitOn`, so the result is spelled out) -/
def exampleResult : List Item := Ops.add 250000 exampleItems

example : applyOps exampleItems [] [] = some exampleItems := rfl
example : exampleResult.length = 2 ∧
    inRange "srt" (subsOfItems exampleResult) = true ∧ ConvSRT.PlainSRT (subsOfItems exampleResult) = true ∧
    inRange "vtt" (subsOfItems exampleResult) = true := by
  refine ⟨?_, ?_, ?_, ?_⟩ <;> decide

/-! ## one conversion after the other -/

/-- **Second generation.** what SubRip returned for a plain cue list in range is again in range and
    plain for SubRip: converting it once more gives the same view (truncation is idempotent) -/
theorem srt_twice (s : Subs) (hr : inRange "srt" s = true) (hp : ConvSRT.PlainSRT s = true) :
    ∃ b1 b2, viaSRT s = some b1 ∧ viaSRT b1 = some b2 ∧ viewOf b2 = viewOf b1 := by
  obtain ⟨hpos, hrep⟩ := ConvSRT.rep_of_plain s hr hp
  obtain ⟨h1, _, _⟩ := srt_conv_rep false s hpos hrep
  obtain ⟨hs1, hs2, hs3⟩ := C01doc.norm_stable (SRTDoc.mergeS s) hrep
  refine ⟨_, _, h1, ?_, rfl⟩
  have hw : ∃ doc, SRT.write (SRTDoc.norm (SRTDoc.mergeS s)) = some doc := by
    cases h : SRT.write (SRTDoc.norm (SRTDoc.mergeS s)) with
    | some d => exact ⟨d, rfl⟩
    | none =>
      exfalso
      have hne : (SRTDoc.norm (SRTDoc.mergeS s)).items ≠ [] := by
        intro e
        simp [SRTDoc.Rep, e] at hs1
      rw [SRTDoc.write_eq_lines _ hne] at h
      cases h
  obtain ⟨doc, hd⟩ := hw
  have := C01doc.read_write_fixpoint (SRTDoc.mergeS s) hrep doc hd
  simp only [viaSRT, hd, this]

/-- **Two conversions in a row: SubRip, then WebVTT.** what SubRip returned for a plain cue list in
    range is in WebVTT's range and plain for WebVTT; converting it to WebVTT succeeds too and the
    WebVTT file read back still shows the original cues at millisecond resolution (nothing is lost
    at the second hop) -/
theorem srt_then_vtt (s : Subs) (hr : inRange "srt" s = true) (hp : ConvSRT.PlainSRT s = true) :
    ∃ b1 b2, viaSRT s = some b1 ∧ viaVTT b1 = some b2 ∧
      convOk false "vtt" b1 b2 = true ∧ viewOf b2 = truncView 1000000 (viewOf s) := by
  obtain ⟨hr2, hp2⟩ := ConvChain.plainVTT_norm s hr hp
  obtain ⟨b2, h2, hc2, hv2⟩ := vtt_conv false _ hr2 hp2
  refine ⟨_, b2, srt_conv_back s hr hp, h2, hc2, ?_⟩
  rw [hv2, ConvSRT.view_norm_merge, ConvChain.truncView_idem]

/-! ## destinations SSA / ASS and STL: NOT proved (statements only)

The document-level round trips these would rest on are only partly available: for SSA the script
info clause and the assembly of the cues from the events are not proved in `Props/C04doc.lean`
(`write_read_Statement` there is itself unproved); for STL `C05doc.stl_roundtrip` speaks about the
codec's own cue type, and `truncSTL` has not been related to `ttiCue`. -/

/-- the conversion to SSA as the check's model side computes it -/
def viaSSA (s : Subs) : Option Subs :=
  match SSA.write s with
  | .ok out => (match SSAD.readBytes (utf8 out) with
    | some (.ok back) => some back
    | _ => none)
  | _ => none

/-- UNPROVED (statement only): C07 for the destination `ssa` (and `ass`: same codec, same unit), for a
    plainness predicate `Plain` still to be fixed (simple text without `{`, `\\N`, `\\n`; style, voice and
    effect cells without commas; style table with writable cells; no SSA override blocks) -/
def ssa_conv_Statement (Plain : Subs → Bool) : Prop :=
  ∀ (strict : Bool) (s : Subs), inRange "ssa" s = true → Plain s = true →
    ∃ back, viaSSA s = some back ∧ convOk strict "ssa" s back = true ∧
      viewOf back = truncView 10000000 (viewOf s)

/-- UNPROVED (statement only): C07 for the destination `stl` under display standard 0 (open
    subtitling), for a plainness predicate `Plain` still to be fixed (simple text, rows that fit,
    frame rate 25 / 30, metadata that fits its fields: `C05doc.MetaOK`, `RCue.ok`) -/
def stl_conv_Statement (Plain : Subs → Bool) : Prop :=
  ∀ (now : STL.Date) (s : Subs), inRange "stl" s = true → Plain s = true →
    SRT.kvGet s.metadata "STLDisplayStandardCode" = some "0".toList →
    ∃ out md items, STL.write now (STLD.metaOf s.metadata) (s.items.map STLD.cueOf) = .ok out ∧
      STL.read false out = .ok (md, items) ∧ convOk false "stl" s { items := items } = true

/-! ## which provisos are needed: witnesses

The range clause and the shape of `convOk` are the check's own.  Of the plainness provisos, some are
needed for the conclusion itself — the witnesses below make the conversion fail or return another
text in the model — and some only for the round-trip theorems used (`Props/C01doc.lean`,
`Props/C02doc.lean`): a blank at the edge of a line is trimmed by the readers (the views, which
disregard white space, still agree), and a named `TTMLColor`, a voice or an inline timestamp are
written as WebVTT markup that the reader takes off again.  (Lines are cut at line feeds here: the
kernel does not evaluate the UTF-8 layer of `viaSRT` / `viaVTT`.) -/

def oneLine (runs : List LItem) : Subs :=
  { items := [{ startAt := 0, endAt := 1000000000, lines := [{ items := runs }] }] }

def srtOkL (s : Subs) : Bool :=
  match SRT.write s with
  | some doc => (match SRT.read ((splitC '\n' doc).map some) with
    | .ok back => convOk false "srt" s back
    | _ => false)
  | none => false

/-- for WebVTT the reader is given the lines `VTT.docLineList s`, which are the lines of the written
    text when there are no comments, regions, style blocks and timestamp map (`C02doc.written_lines`) -/
def vttOkL (s : Subs) : Bool :=
  match VTT.read ((VTT.docLineList s).map some) with
  | .ok back => convOk false "vtt" s back
  | _ => false

-- the plain examples pass
example : srtOkL ConvSRT.exampleForeign = true := by decide
example : srtOkL (oneLine [{ text := "a".toList }, { text := " b".toList }]) = true := by decide
-- an empty cue list is not written
example : srtOkL { items := [] } = false ∧ VTT.write { items := [] } = none := by decide
-- `SRTPosition`: the tag `{\an8}` comes back as text
example : srtOkL (oneLine [{ text := "a".toList, attrs := some [("SRTPosition".toList, "8".toList)] }]) = false := by decide
-- a text that is not simple: `-->` makes the line a timing line, both readers fail
example : srtOkL (oneLine [{ text := "a --> b".toList }]) = false ∧ vttOkL (oneLine [{ text := "a --> b".toList }]) = false := by
  decide
-- a negative instant is written as something the reader rejects
example : srtOkL { items := [{ startAt := -1000000, endAt := 1000000000, lines := [{ items := [{ text := "a".toList }] }] }] } = false := by
  decide
-- WebVTT: a cue that refers to a region the file does not define is rejected by the reader
example : vttOkL { items := [{ startAt := 0, endAt := 1000000000, region := some "r".toList,
                               lines := [{ items := [{ text := "a".toList }] }] }] } = false := by decide
-- WebVTT: a cue setting with a blank inside is cut in two and rejected
example : vttOkL { items := [{ startAt := 0, endAt := 1000000000, attrs := some [("WebVTTAlign".toList, "a b".toList)],
                               lines := [{ items := [{ text := "a".toList }] }] }] } = false := by decide
-- provisos of the round-trip theorems only: the predicate still holds in these cases
example : srtOkL (oneLine [{ text := " a ".toList }]) = true ∧ vttOkL (oneLine [{ text := " a ".toList }]) = true := by decide
example : vttOkL (oneLine [{ text := "a".toList, attrs := some [("TTMLColor".toList, "#ff0000".toList)] }]) = true := by decide

end C07doc
end Astisub
