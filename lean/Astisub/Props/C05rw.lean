import Astisub.Lemmas.STLRWShape
import Astisub.Props.C05doc2

/-!
# C05 (rewrite) — EBU STL: reading a written file and writing it again gives the same file

`Props/C05doc2.lean` proves that a rewrite keeps every timecode and leaves the byte equality of the whole TTI
blocks as a statement (`rewrite_tti_blocks_Statement`).  This file proves that statement and the rest of the
fixpoint, for display standard 0 (open subtitling) and for **all** inputs of an explicit decidable class
(`RewriteOK`):

* `out`    = the file the writer model produces for metadata `m` and cues `cs` on day `now`;
* `(m2, items2)` = what the reader model returns for `out` (with or without `IgnoreTimecodeStartOfProgramme`);
* `again`  = the file the writer model produces on day `now2` for `m2` and the cues
  `items2.map Driver.STLD.cueOf` — the view of the read-back cues the `stl.write` stream hands to the writer.

Results:

1. the second write **always answers**, and **every byte of every TTI block** of `again` is that of `out`
   (`rewrite_tti_blocks_any`; `rewrite_tti_blocks`: the statement of `C05doc2` is a theorem) — subtitle number,
   cumulative status, timecodes, vertical position, justification, and the 112-byte text field with its style codes,
   blanks between runs and `0x8F` padding.  Ingredients a reader may care about: what `cueOf` makes of a cue that was
   read back (`reread_cue`), why the text field is the same although reading joins adjacent unstyled runs
   (`row_rewrite`), justification / vertical position survive whatever was given (`just_vp_stable`), and the
   one-block theorem (`block_rewrite`);
2. the **GSI block**: bytes 0–255 and 264–1023 of `again` are those of `out` — on whatever day the second write
   happens, because the reader always supplies both dates (`rewrite_gsi`, `written_gsi_layout`,
   `read_supplies_options`, `rewrite_ignores_clock`); bytes 256–263 (programme start, TCP) too when the reader did
   not ignore the programme start, and they are `00000000` when it did;
3. **`write (read (write s)) = write s`** on bytes (`rewrite_fixpoint`, `write_read_write`, `rewrite_function`; every
   further generation is the same file: `rewrite_fixpoint_again`; with the programme start ignored the second file is
   the first with a zeroed programme-start field: `rewrite_ignored_tcp`).
4. the proviso "no white space at the ends of a run" is necessary for 1–3 (`Example3.trimmed_runs_needed`, a
   kernel-evaluated witness).

Vocabulary (new here; defined in `Lemmas/STLRW*.lean`):

* `backRow l : List RRun` — the row `l` after one read, over repertoire units again: every stretch of adjacent
  unstyled runs is one run whose units are the units of the parts with the blank unit `spaceU` in between.
* `backCue G off c : MCue` — the cue the reader returns for the block written from `c` (GSI `G`, programme start
  `off` subtracted), as a cue over units: frame instants minus `off`, `just = some (justOf (justCode c.just))`,
  `vp = some (vpByte (c.vp.getD 20) G.m.dsc)`, rows `backRow`.
* `gsiHead g` / `gsiTcpField g` / `gsiTail g` — bytes 0–255 / 256–263 / 264–1023 of `gsiBytes g` (`gsi_split`).
-/

namespace Astisub
namespace C05
open Go STL

/-! ## the class of inputs -/

/-- **the inputs the rewrite theorems speak about** (decidable): the class of `C05.stl_roundtrip_multirun` — at least
    one cue; metadata the format can carry under display standard 0 (`MetaOK`: frame rate 25 / 30, display standard
    0, text values that fit, existing dates, numbers within 0–99, programme start and first cue below 100 h);
    programme start not negative; every cue well-formed (`MCue.ok`: every row has a run, every run is repertoire text
    that is not empty and has no white space at its ends, the encoded text fits the 112 bytes) — with the instants
    (cue time plus programme start) inside a day, as a TTI timecode requires (`InDay`, instead of `MTimesOK` = not
    negative).  Nothing is assumed about justification and vertical position. -/
def RewriteOK (now : Date) (m : Meta) (cs : List MCue) : Prop :=
  cs ≠ [] ∧ MetaOK now m (firstStart (cs.map MCue.toW)) ∧ 0 ≤ m.tcp ∧ (∀ c ∈ cs, c.ok) ∧
  (∀ c ∈ cs, InDay (c.startAt + m.tcp) ∧ InDay (c.endAt + m.tcp))

instance (now : Date) (m : Meta) (cs : List MCue) : Decidable (RewriteOK now m cs) := by
  unfold RewriteOK; infer_instance

/-- the class is inside the class of `stl_roundtrip_multirun`: the first write answers and the file reads back -/
theorem RewriteOK.roundtrip {now : Date} {m : Meta} {cs : List MCue} (h : RewriteOK now m cs) (ig : Bool) :
    ∃ b, write now (some m) (cs.map MCue.toW) = .ok b ∧
      STL.read ig b
        = .ok (readMeta ig (gsiBack (newGSI now (some m) (cs.map MCue.toW))),
               cs.map fun c => ttiCueM (gsiBack (newGSI now (some m) (cs.map MCue.toW))) (newGSI now (some m) (cs.map MCue.toW))
                 (readMeta ig (gsiBack (newGSI now (some m) (cs.map MCue.toW)))).tcp c) :=
  stl_roundtrip_multirun ig now m cs h.1 h.2.1 h.2.2.1 h.2.2.2.1 (fun c hc => ⟨(h.2.2.2.2 c hc).1.1, (h.2.2.2.2 c hc).2.1⟩)

/-! ## rows and cues: what the second write is handed -/

/-- **A row after one read, and why the second write emits the same bytes for it.**  For a row of runs that are
    carried as they are (`okT`): `backRow l` is, in the view (text, italics, underline, boxing), the row written with
    adjacent unstyled runs joined (what both readers return, `C05.row_read_back`); its runs are carried as they are
    again and there is at least one; and **its bytes in the text field are the bytes of `l`** — the blank inside a
    joined run is the blank the writer had put between the runs. -/
theorem row_rewrite (l : List RRun) (hne : l ≠ []) (h : ∀ r ∈ l, r.okT) :
    (backRow l).map wv = mergePlain (l.map wv) ∧ backRow l ≠ [] ∧ (∀ r ∈ backRow l, r.okT) ∧
      lineBytes (backRow l) = lineBytes l :=
  ⟨backRow_wv l (fun r hr => (h r hr).2.1), backRow_ne_nil l hne (fun r hr => (h r hr).2.1), backRow_okT l h,
    backRow_bytes l (fun r hr => (h r hr).2.1)⟩

/-- `backCue`, field by field (its definition) -/
theorem backCue_fields (G : WGSI) (off : Int) (c : MCue) :
    backCue G off c =
      { startAt := frameInstant G.m.framerate (c.startAt + G.m.tcp) - off,
        endAt := frameInstant G.m.framerate (c.endAt + G.m.tcp) - off,
        just := some ((justOf (justCode c.just) : Nat) : Int),
        vp := some ((vpByte (c.vp.getD 20) G.m.dsc : Nat) : Int),
        rows := c.rows.map backRow } := rfl

/-- **What the check's `cueOf` makes of a cue that was read back.**  For the cue the reader returns for the block of
    a cue `c` whose runs are carried as they are: the times are the reader's, `STLJustification` parses
    (`String.toInt?`) to the justification the block's code stands for, the first component of `STLPosition` parses
    to the vertical position byte, and the runs — text as code points, effective style flags — are `backRow` of the
    rows written.  In short: `cueOf` of it is the writer's view of `backCue`. -/
theorem reread_cue (R : GSI) (G : WGSI) (off : Int) (c : MCue) (h : ∀ l ∈ c.rows, ∀ r ∈ l, r.okT) :
    Driver.STLD.cueOf (ttiCueM R G off c) = (backCue G off c).toW :=
  cueOf_ttiCueM R G off c h

/-- the cue read back is well-formed again, and its encoded text is the encoded text of the cue written -/
theorem reread_cue_ok (G : WGSI) (off : Int) (c : MCue) (hok : c.ok) :
    (backCue G off c).ok ∧ encodeText (cueString (backCue G off c).toW) = encodeText (cueString c.toW) :=
  ⟨backCue_ok G off c hok, backCue_text G off c hok⟩

/-- **Justification and vertical position survive a rewrite, whatever was given** (absent, out of range, …): the
    justification read back is written as the same code, and under display standard 0 the vertical position byte
    read back is written as the same byte. -/
theorem just_vp_stable (j : Option Int) (vp : Int) :
    justCode (some ((justOf (justCode j) : Nat) : Int)) = justCode j ∧
    vpByte ((vpByte vp [0x30] : Nat) : Int) [0x30] = vpByte vp [0x30] :=
  ⟨justCode_back j, vpByte_back vp⟩

/-- **One TTI block.**  `G` the GSI block of the first write, `G2` that of the second: same frame rate (25 / 30), both
    display standard 0, and the programme start of `G2` is the one the reader subtracted.  For a well-formed cue `c`
    with both instants within a day, the 128 bytes written from the cue read back are the 128 bytes written from
    `c`: subtitle number, cumulative status, timecode in / out, vertical position, justification, comment flag,
    text field. -/
theorem block_rewrite (G G2 : WGSI) (off : Int) (fr : Nat) (idx : Nat) (c : MCue)
    (hfr : fr = 25 ∨ fr = 30) (hg : G.m.framerate = (fr : Int)) (hg2 : G2.m.framerate = (fr : Int))
    (hdsc : G.m.dsc = [0x30]) (hdsc2 : G2.m.dsc = [0x30]) (htcp : G2.m.tcp = off) (hok : c.ok)
    (hs : InDay (c.startAt + G.m.tcp)) (he : InDay (c.endAt + G.m.tcp)) :
    ttiBytes G2 idx (backCue G off c).toW = ttiBytes G idx c.toW :=
  ttiBytes_back G G2 off fr idx c hfr hg hg2 hdsc hdsc2 htcp hok hs he

/-! ## whole files -/

/-- **The two files side by side** (the lemma behind everything below).  For input of the class `RewriteOK`, `out`
    the first file and `(m2, items2)` what the reader returned: the second write answers with a file
    `H ++ (M' ++ (T ++ B))` where `out = H ++ (M ++ (T ++ B))`: the same 256 bytes `H`, the same 760 bytes `T`, the
    same TTI blocks `B` (128 bytes per cue); the programme-start fields `M'`, `M` (8 bytes) are equal when the
    programme start was not ignored and lies within a day, and `M'` is `00000000` when it was ignored. -/
theorem rewrite_files (ig : Bool) (now now2 : Date) (m : Meta) (cs : List MCue) (h : RewriteOK now m cs)
    (out : Bytes) (m2 : Meta) (items2 : List CItem)
    (hw : write now (some m) (cs.map MCue.toW) = .ok out) (hr : STL.read ig out = .ok (m2, items2)) :
    ∃ H M M' T B, write now2 (some m2) (items2.map Driver.STLD.cueOf) = .ok (H ++ (M' ++ (T ++ B))) ∧
      out = H ++ (M ++ (T ++ B)) ∧ H.length = 256 ∧ M.length = 8 ∧ M'.length = 8 ∧ T.length = 760 ∧
      B.length = 128 * cs.length ∧
      (ig = false → InDay m.tcp → M' = M) ∧ (ig = true → M' = lit "00000000") :=
  rewrite_shape ig now now2 m cs h.1 h.2.1 h.2.2.1 h.2.2.2.1 h.2.2.2.2 out m2 items2 hw hr

/-- **Target 1 — the TTI blocks are byte-identical, and the second write always answers** (with or without
    `IgnoreTimecodeStartOfProgramme`, on whatever day).  For input of the class `RewriteOK`, `out` the file written
    and `(m2, items2)` what the reader returns for it: the writer model produces a file `again` for `m2` and
    `items2.map cueOf`, of the same length, and everything after the GSI block is unchanged —
    `again.drop 1024 = out.drop 1024`: per cue the subtitle number, cumulative status, both timecodes, vertical
    position, justification and the 112-byte text field (style codes, blanks and padding included). -/
theorem rewrite_tti_blocks_any (ig : Bool) (now now2 : Date) (m : Meta) (cs : List MCue) (h : RewriteOK now m cs)
    (out : Bytes) (m2 : Meta) (items2 : List CItem)
    (hw : write now (some m) (cs.map MCue.toW) = .ok out) (hr : STL.read ig out = .ok (m2, items2)) :
    ∃ again, write now2 (some m2) (items2.map Driver.STLD.cueOf) = .ok again ∧
      again.drop 1024 = out.drop 1024 ∧ again.length = out.length := by
  obtain ⟨H, M, M', T, B, hw2, hout, hH, hM, hM', hT, _, _, _⟩ := rewrite_files ig now now2 m cs h out m2 items2 hw hr
  refine ⟨_, hw2, ?_, ?_⟩
  · rw [hout, shape_drop1024 H M' T B hH hM' hT, shape_drop1024 H M T B hH hM hT]
  · rw [hout, shape_length H M' T B hH hM' hT, shape_length H M T B hH hM hT]

/-- **`rewrite_tti_blocks_Statement` of `Props/C05doc2.lean` holds.**  (Its hypotheses "every cue has a row",
    "justification within 1–4", "vertical position within a byte" and "programme start below a day" are not needed;
    `InDay m.tcp` is used only for `0 ≤ m.tcp`.) -/
theorem rewrite_tti_blocks : rewrite_tti_blocks_Statement := by
  intro now now2 m cs hne hm hok hday htcp _
  have h : RewriteOK now m cs := ⟨hne, hm, htcp.1, fun c hc => (hok c hc).1, hday⟩
  obtain ⟨out, hw, hr⟩ := h.roundtrip false
  obtain ⟨again, hw2, hd, _⟩ := rewrite_tti_blocks_any false now now2 m cs h out _ _ hw hr
  exact ⟨out, _, _, again, hw, hr, hw2, hd⟩

/-- **Target 2 — the GSI block on rewrite.**  Under the hypotheses of `rewrite_tti_blocks_any`, for the second file
    `again` (written on whatever day `now2`):
    * bytes 0–255 are unchanged (`written_gsi_layout`: code page number, disk format code = frame rate, display
      standard, character code table, language code, original / translated programme and episode titles,
      translator's name and contact, subtitle list reference code, **creation date, revision date**, revision
      number, TNB, TNS, TNG (the counts: same number of cues), maximum characters / rows, time code status);
    * bytes 264–1023 and all TTI blocks are unchanged (first in-cue TCF, number of disks, disk sequence number,
      country of origin, publisher, editor's name and contact, spare bytes);
    * bytes 256–263, the programme start TCP: unchanged — hence the **whole file** — when the programme start was
      not ignored and lies within a day; `00000000` when the reader was told to ignore it.
    Nothing "legitimately changes" with the clock: the dates of `again` come from the file (the reader always
    supplies them, `read_supplies_options`), never from `now2`. -/
theorem rewrite_gsi (ig : Bool) (now now2 : Date) (m : Meta) (cs : List MCue) (h : RewriteOK now m cs)
    (out : Bytes) (m2 : Meta) (items2 : List CItem)
    (hw : write now (some m) (cs.map MCue.toW) = .ok out) (hr : STL.read ig out = .ok (m2, items2)) :
    ∃ again, write now2 (some m2) (items2.map Driver.STLD.cueOf) = .ok again ∧
      again.take 256 = out.take 256 ∧ again.drop 264 = out.drop 264 ∧
      (ig = false → InDay m.tcp → again = out) ∧
      (ig = true → (again.drop 256).take 8 = lit "00000000") := by
  obtain ⟨H, M, M', T, B, hw2, hout, hH, hM, hM', hT, _, hsame, hzero⟩ := rewrite_files ig now now2 m cs h out m2 items2 hw hr
  refine ⟨_, hw2, ?_, ?_, ?_, ?_⟩
  · rw [hout, shape_take256 H M' T B hH, shape_take256 H M T B hH]
  · rw [hout, shape_drop264 H M' T B hH hM', shape_drop264 H M T B hH hM]
  · intro hig hd
    rw [hout, hsame hig hd]
  · intro hig
    rw [shape_tcp H M' T B hH hM', hzero hig]

/-- which fields lie in the three parts of the GSI block of a written file: `gsiHead` (bytes 0–255), `gsiTcpField`
    (256–263), `gsiTail` (264–1023) of the writer's GSI value — see their definitions in `Lemmas/STLRWFile.lean` -/
theorem written_gsi_layout (now : Date) (md : Option Meta) (cs : List MCue) :
    (writeBody now md (cs.map MCue.toW)).take 256 = gsiHead (newGSI now md (cs.map MCue.toW)) ∧
    ((writeBody now md (cs.map MCue.toW)).drop 256).take 8 = gsiTcpField (newGSI now md (cs.map MCue.toW)) ∧
    ((writeBody now md (cs.map MCue.toW)).drop 264).take 760 = gsiTail (newGSI now md (cs.map MCue.toW)) :=
  written_parts now md cs

/-- the three parts, spelled out (definitions): every field of `gsiBytes` is in exactly one of them -/
theorem gsi_parts (g : WGSI) :
    gsiBytes g = gsiHead g ++ (gsiTcpField g ++ gsiTail g) ∧
    gsiHead g =
      [0x38, 0x35, 0x30] ++ padR 0x20 8 ((dfcOf g.m.framerate).getD []) ++ padR 0x20 1 g.m.dsc ++ [0x30, 0x30]
        ++ padR 0x20 2 g.langCode ++ padR 0x20 32 g.m.title ++ padR 0x20 32 g.m.origEpisode ++ padR 0x20 32 g.m.translProgram
        ++ padR 0x20 32 g.m.translEpisode ++ padR 0x20 32 g.m.translName ++ padR 0x20 32 g.m.translContact
        ++ padR 0x20 16 g.m.slr ++ padR 0x20 6 (formatDate (g.m.creation.getD zeroDate))
        ++ padR 0x20 6 (formatDate (g.m.revisionDate.getD zeroDate))
        ++ num 2 g.m.revisionNumber ++ num 5 (g.n : Int) ++ num 5 (g.n : Int) ++ num 3 1 ++ num 2 (g.m.maxChars.getD 0)
        ++ num 2 (g.m.maxRows.getD 0) ++ [0x31] ∧
    gsiTcpField g = padR 0x20 8 (ascii (Duration.formatSTL g.m.tcp g.m.framerate.toNat)) ∧
    gsiTail g =
      padR 0x20 8 (ascii (Duration.formatSTL g.tcf g.m.framerate.toNat))
        ++ [0x31, 0x31] ++ padR 0x20 3 g.m.country ++ padR 0x20 32 g.m.publisher ++ padR 0x20 32 g.m.editorName
        ++ padR 0x20 32 g.m.editorContact ++ List.replicate 651 0x20 :=
  ⟨gsi_split g, rfl, rfl, rfl⟩

/-- **The reader always supplies the optional metadata** — for *every* file it accepts, written by the library or
    not: creation date, revision date (a blank field is the zero time), maximum characters and rows are set. -/
theorem read_supplies_options (ig : Bool) (doc : Bytes) (m2 : Meta) (items : List CItem)
    (h : STL.read ig doc = .ok (m2, items)) :
    m2.creation.isSome ∧ m2.revisionDate.isSome ∧ m2.maxChars.isSome ∧ m2.maxRows.isSome :=
  read_options ig doc m2 items h

/-- **… so writing what was read never looks at the clock**: for metadata returned by the reader (any file, any
    cues) the writer model gives the same answer on any two days. -/
theorem rewrite_ignores_clock (ig : Bool) (doc : Bytes) (m2 : Meta) (items : List CItem) (now now' : Date)
    (cues : List WCue) (h : STL.read ig doc = .ok (m2, items)) :
    write now (some m2) cues = write now' (some m2) cues :=
  write_clock now now' m2 cues (read_options ig doc m2 items h).1 (read_options ig doc m2 items h).2.1

/-- **Target 3 — `write (read (write s)) = write s`, on bytes.**  For input of the class `RewriteOK` with the
    programme start within a day, read without `IgnoreTimecodeStartOfProgramme`: writing — on whatever day — the
    metadata and the cues that were read back from the written file gives the written file again, byte for byte
    (the STL analogue of `C04doc2.rewrite_fixpoint` / `C01doc.norm_stable`). -/
theorem rewrite_fixpoint (now now2 : Date) (m : Meta) (cs : List MCue) (h : RewriteOK now m cs) (htcp : InDay m.tcp)
    (out : Bytes) (m2 : Meta) (items2 : List CItem)
    (hw : write now (some m) (cs.map MCue.toW) = .ok out) (hr : STL.read false out = .ok (m2, items2)) :
    write now2 (some m2) (items2.map Driver.STLD.cueOf) = .ok out := by
  obtain ⟨again, hw2, _, _, hsame, _⟩ := rewrite_gsi false now now2 m cs h out m2 items2 hw hr
  rw [hw2, hsame rfl htcp]

/-- … end to end: the first write answers, the file is read back, and the second write is the first -/
theorem write_read_write (now now2 : Date) (m : Meta) (cs : List MCue) (h : RewriteOK now m cs) (htcp : InDay m.tcp) :
    ∃ out m2 items2, write now (some m) (cs.map MCue.toW) = .ok out ∧ STL.read false out = .ok (m2, items2) ∧
      write now2 (some m2) (items2.map Driver.STLD.cueOf) = .ok out := by
  obtain ⟨out, hw, hr⟩ := h.roundtrip false
  exact ⟨out, _, _, hw, hr, rewrite_fixpoint now now2 m cs h htcp out _ _ hw hr⟩

/-- … as one function: `rewriteOf` (write, read, write again through `cueOf`) answers and returns the same file twice -/
theorem rewrite_function (now now2 : Date) (m : Meta) (cs : List MCue) (h : RewriteOK now m cs) (htcp : InDay m.tcp) :
    ∃ out, rewriteOf now now2 m (cs.map MCue.toW) = some (out, out) := by
  obtain ⟨out, m2, items2, hw, hr, hw2⟩ := write_read_write now now2 m cs h htcp
  exact ⟨out, rewriteOf_eq now now2 m _ out out m2 items2 hw hr hw2⟩

/-- **With the programme start ignored** the second file is the first one with the programme-start field zeroed
    (the cue times read are then absolute, and are written back as they are) -/
theorem rewrite_ignored_tcp (now now2 : Date) (m : Meta) (cs : List MCue) (h : RewriteOK now m cs)
    (out : Bytes) (m2 : Meta) (items2 : List CItem)
    (hw : write now (some m) (cs.map MCue.toW) = .ok out) (hr : STL.read true out = .ok (m2, items2)) :
    write now2 (some m2) (items2.map Driver.STLD.cueOf) = .ok (out.take 256 ++ (lit "00000000" ++ out.drop 264)) := by
  obtain ⟨H, M, M', T, B, hw2, hout, hH, hM, _, _, _, _, hzero⟩ := rewrite_files true now now2 m cs h out m2 items2 hw hr
  rw [hw2, hout, shape_take256 H M T B hH, shape_drop264 H M T B hH hM, hzero rfl]

/-- … and once more: the file is a fixpoint of read-then-write, so every further generation is the same file -/
theorem rewrite_fixpoint_again (now now2 now3 : Date) (m : Meta) (cs : List MCue) (h : RewriteOK now m cs) (htcp : InDay m.tcp)
    (out again : Bytes) (m2 m3 : Meta) (items2 items3 : List CItem)
    (hw : write now (some m) (cs.map MCue.toW) = .ok out) (hr : STL.read false out = .ok (m2, items2))
    (hw2 : write now2 (some m2) (items2.map Driver.STLD.cueOf) = .ok again) (hr2 : STL.read false again = .ok (m3, items3)) :
    write now3 (some m3) (items3.map Driver.STLD.cueOf) = .ok again := by
  have e := rewrite_fixpoint now now2 m cs h htcp out m2 items2 hw hr
  rw [hw2] at e
  have e' : again = out := Res.ok.inj e
  subst e'
  rw [hr] at hr2
  obtain ⟨rfl, rfl⟩ := Prod.mk.inj (Res.ok.inj hr2)
  exact rewrite_fixpoint now now3 m cs h htcp again m2 items2 hw hr

/-! ## the hypotheses are satisfiable (non-vacuity) -/

namespace Example3
open Example2

theorem cue1_ok : cue1.ok := by decide +kernel
theorem cue2_ok : cue2.ok := by decide +kernel
theorem meta_ok : MetaOK Example.day Example.meta1 (firstStart ([cue1, cue2].map MCue.toW)) := by decide +kernel

/-- the two cues of `C05.Example2` (four runs on one row, two of them adjacent and unstyled; justification 3 and
    vertical position 20 in the first cue, none in the second) with the metadata of `C05.Example` (programme start
    10 h) are in the class -/
example : RewriteOK Example.day Example.meta1 [cue1, cue2] :=
  ⟨by decide, meta_ok, by decide, by
    intro c hc
    simp only [List.mem_cons, List.not_mem_nil, or_false] at hc
    rcases hc with rfl | rfl
    · exact cue1_ok
    · exact cue2_ok, by decide⟩

example : InDay Example.meta1.tcp := by decide

/-- the lemmas' hypothesis on the first GSI block (`Gsi1`: frame rate 25 / 30, display standard 0, options set, stable
    language code) holds of the block written for this input -/
example : Gsi1 (newGSI Example.day (some Example.meta1) ([cue1, cue2].map MCue.toW)) :=
  newGSI_gsi1 _ _ _ meta_ok

/-- the first row after one read: "N" (italics), "a b" (one unstyled run: the units of "a", the blank unit, the units
    of "b"), "x" (underline) -/
example : (backRow [rA, rB, rC, rD]).map (fun r => (r.units.map (·.bytes), r.flags))
    = [([[0x4E]], (true, false, false)), ([[0x61], [0x20], [0x62]], (false, false, false)), ([[0x78]], (false, true, false))] := by
  decide +kernel

/-- … and it is written as the same bytes -/
example : lineBytes (backRow [rA, rB, rC, rD]) = [0x80, 0x4E, 0x81, 0x20, 0x61, 0x20, 0x62, 0x20, 0x82, 0x78, 0x83] := by
  decide +kernel
example : lineBytes [rA, rB, rC, rD] = [0x80, 0x4E, 0x81, 0x20, 0x61, 0x20, 0x62, 0x20, 0x82, 0x78, 0x83] := by
  decide +kernel

/-- justification: absent is written as code 1 and read as 2 (left), which is written as code 1 again; 7 likewise -/
example : justCode none = 1 ∧ justOf 1 = 2 ∧ justCode (some 2) = 1 ∧ justCode (some 7) = 1 := by decide

/-- the run " a": a blank unit, then "a" -/
def rU : RRun := { units := [spaceU, charUnit (0x61, [0x61])] }
def cueU : MCue := { startAt := 1000000000, endAt := 2000000000, rows := [[rU]] }

example : ∀ l ∈ cueU.rows, l ≠ [] ∧ ∀ r ∈ l, (∀ u ∈ r.units, RepUnit u) ∧ trimSpace (str r.text) ≠ [] := by decide +kernel
example : ¬ rU.okT := by decide +kernel

/-- **"no white space at the ends of a run" is necessary.**  A run " a" is repertoire text and not blank — everything
    `MCue.ok` asks except that — and the writer emits `20 61`; the reader trims it, so the second write emits `61`
    and the TTI block changes (bytes 16–19 of the first block: `20 61 8F 8F` before, `61 8F 8F 8F` after). -/
theorem trimmed_runs_needed :
    (rewriteOf Example.day Example.day Example.meta1 [cueU.toW]).map
        (fun p => ((p.1.drop 1040).take 4, (p.2.drop 1040).take 4))
      = some ([0x20, 0x61, 0x8F, 0x8F], [0x61, 0x8F, 0x8F, 0x8F]) := by decide +kernel

end Example3

end C05
end Astisub
