import Astisub.Model.Dispatch
import Astisub.Model.CLI
import Astisub.Spec.Conv

/-!
# C07 — Any-to-any conversion (library file API and CLI) preserves cues

The conversion clause itself ("for every readable source and every destination format the
destination read back holds the same cues, truncated to the destination's resolution, also with
any sequence of operations in between, through the library and through the CLI") is a statement
about the composition of a reader, the transformations and a writer/reader pair of *different*
codecs.  It is decided on every run by the `conv.pair` stream: all 7 × 6 format pairs, documents
from the C01–C06 generators, operation sequences of length 0..4, the file API (`Open`/`Write` with
extension spellings in mixed case) **and** the CLI binary; the Lean driver composes the
transformation models (`Ops.*`, `LinCorr.apply`) on the cues the library read and evaluates the
predicate `Driver.convOk` (count, order, truncated instants, text modulo white space) on what the
library re-reads.  What is proved here, for all inputs, are the laws that predicate rests on:
extension dispatch, the algebra of time truncation across formats, and the CLI's flag validation.
-/

namespace Astisub
namespace C07
open Dispatch CLI Spec.Conv

/-! ### extension dispatch -/

/-- exactly seven extensions are readable … -/
theorem open_codecs (e : String) :
    (openCodec e).isSome ↔ e = "srt" ∨ e = "ssa" ∨ e = "ass" ∨ e = "stl" ∨ e = "ts" ∨ e = "ttml" ∨ e = "vtt" := by
  unfold openCodec
  split <;> simp_all

/-- … six of them writable: a transport stream cannot be written -/
theorem write_codecs (e : String) :
    (writeCodec e).isSome ↔ e = "srt" ∨ e = "ssa" ∨ e = "ass" ∨ e = "stl" ∨ e = "ttml" ∨ e = "vtt" := by
  by_cases h1 : e = "srt"; · subst h1; decide
  by_cases h2 : e = "ssa"; · subst h2; decide
  by_cases h3 : e = "ass"; · subst h3; decide
  by_cases h4 : e = "stl"; · subst h4; decide
  by_cases h5 : e = "ts"; · subst h5; decide
  by_cases h6 : e = "ttml"; · subst h6; decide
  by_cases h7 : e = "vtt"; · subst h7; decide
  have hn : openCodec e = none := by
    cases h : openCodec e with
    | none => rfl
    | some c =>
      have := (open_codecs e).mp (by simp [h])
      simp [h1, h2, h3, h4, h5, h6, h7] at this
  simp [writeCodec, hn, h1, h2, h3, h4, h6, h7]

/-- `.ass` and `.ssa` select the same codec, for reading and for writing -/
theorem ass_is_ssa : openCodec "ass" = openCodec "ssa" ∧ writeCodec "ass" = writeCodec "ssa" := by decide

/-- the codec is chosen on the lower-cased extension: spelling does not matter -/
theorem dispatch_case_insensitive (e e' : String)
    (h : Go.toLowerAscii e.toList = Go.toLowerAscii e'.toList) :
    openCodec (lowerExt e) = openCodec (lowerExt e') ∧ writeCodec (lowerExt e) = writeCodec (lowerExt e') := by
  unfold lowerExt; rw [h]; exact ⟨rfl, rfl⟩

theorem examples_mixed_case :
    openCodec (lowerExt "SRT") = some .srt ∧ openCodec (lowerExt "Vtt") = some .vtt ∧
    openCodec (lowerExt "TtMl") = some .ttml ∧ writeCodec (lowerExt "TS") = none ∧ openCodec (lowerExt "txt") = none := by
  decide

/-! ### time resolution across formats -/

theorem trunc_le (u t : Int) (hu : 0 < u) : truncTo u t ≤ t ∧ t < truncTo u t + u := by
  unfold truncTo
  have h1 := Int.emod_nonneg t (by omega : u ≠ 0)
  have h2 := Int.emod_lt_of_pos t hu
  omega

theorem trunc_multiple (u t : Int) : truncTo u t % u = 0 := by
  unfold truncTo
  simp [Int.sub_emod]

theorem trunc_idem (u t : Int) : truncTo u (truncTo u t) = truncTo u t := by
  have := trunc_multiple u t
  unfold truncTo at *
  omega

/-- converting through a finer format first changes nothing: ms then cs = cs (e.g. srt → ssa) -/
theorem trunc_chain_ms_cs (t : Int) : truncTo 10000000 (truncTo 1000000 t) = truncTo 10000000 t := by
  unfold truncTo; omega

/-- a coarser destination loses what the finer had: cs then ms = cs (e.g. ssa → vtt) -/
theorem trunc_chain_cs_ms (t : Int) : truncTo 1000000 (truncTo 10000000 t) = truncTo 10000000 t := by
  unfold truncTo; omega

/-- conversion never reorders instants -/
theorem trunc_monotone_ms (t t' : Int) (h : t ≤ t') : truncTo 1000000 t ≤ truncTo 1000000 t' := by
  unfold truncTo; omega

theorem trunc_monotone_cs (t t' : Int) (h : t ≤ t') : truncTo 10000000 t ≤ truncTo 10000000 t' := by
  unfold truncTo; omega

/-- a sync by a whole number of milliseconds commutes with a conversion to a millisecond format -/
theorem trunc_shift_ms (t k : Int) : truncTo 1000000 (t + k * 1000000) = truncTo 1000000 t + k * 1000000 := by
  unfold truncTo; omega

/-- STL: the value read back is within one frame below-or-at the instant (25 and 30 fps, no programme start) -/
theorem truncSTL_bounds (fr : Int) (hfr : fr = 25 ∨ fr = 30) (t : Int) (h0 : 0 ≤ t) :
    truncSTL fr 0 t ≤ t + 1 ∧ t < truncSTL fr 0 t + 40000001 := by
  unfold truncSTL
  rcases hfr with rfl | rfl <;> simp only [Int.add_zero, Int.sub_zero] <;> omega

/-! ### the command-line tool -/

/-- nothing is done without an input and an output -/
theorem cli_needs_io (cmd : String) (fl : Flags) (h : fl.inputs = 0 ∨ fl.output = false) : plan cmd fl = none := by
  unfold plan
  rcases h with h | h <;> simp [h]

/-- `sync` refuses a zero shift and otherwise shifts by exactly `-s` -/
theorem cli_sync (fl : Flags) (hi : fl.inputs ≠ 0) (ho : fl.output = true) :
    plan "sync" fl = if fl.s = 0 then none else some (.sync fl.s) := by
  unfold plan; simp [hi, ho]

/-- `fragment` refuses a non-positive period -/
theorem cli_fragment (fl : Flags) (hi : fl.inputs ≠ 0) (ho : fl.output = true) :
    plan "fragment" fl = if fl.f ≤ 0 then none else some (.fragment fl.f) := by
  unfold plan; simp [hi, ho]

/-- `apply-linear-correction` needs four positive durations -/
theorem cli_linear (fl : Flags) (hi : fl.inputs ≠ 0) (ho : fl.output = true) :
    (plan "apply-linear-correction" fl).isSome ↔ 0 < fl.a1 ∧ 0 < fl.d1 ∧ 0 < fl.a2 ∧ 0 < fl.d2 := by
  unfold plan
  simp only [hi, ho, ↓reduceIte, Bool.not_true, Bool.false_eq_true]
  by_cases h : fl.a1 ≤ 0 || fl.d1 ≤ 0 || fl.a2 ≤ 0 || fl.d2 ≤ 0
  · simp only [h, ↓reduceIte, Option.isSome_none, Bool.false_eq_true, false_iff]
    simp only [Bool.or_eq_true, decide_eq_true_eq] at h
    omega
  · simp only [h, Bool.false_eq_true, ↓reduceIte, Option.isSome_some, true_iff]
    simp only [Bool.or_eq_true, decide_eq_true_eq, not_or] at h
    omega

/-- `merge` needs a second input; an unknown sub-command does nothing -/
theorem cli_merge_and_unknown (fl : Flags) (hi : fl.inputs ≠ 0) (ho : fl.output = true) :
    (plan "merge" fl = if fl.inputs = 1 then none else some .merge) ∧ plan "bogus" fl = none ∧ plan "" fl = none := by
  unfold plan; simp [hi, ho]

end C07
end Astisub
