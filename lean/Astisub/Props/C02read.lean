import Astisub.Lemmas.VTTRead2Layer

/-!
# C02 (read clause) — WebVTT: the reader model returns what the independent decoder says a document denotes

The property: *reading any well-formed document returns exactly what it denotes.*  `Spec.VTT.decode`
(written from the format's standard) says which documents are well-formed (`some g`) and what they
denote (`g`).  The `vtt.read` case of `Driver/VTT.lean` judges every generated document this way:

    decodeLine doc = some text → Spec.VTT.decode text = some g →
      answer = "ok s"  and  (vttView s).map norm == some (norm g)

(unless the reader model answers `unmodelled`: such a case is not judged).  This file proves that
judgement **for the reader model's own answer** `VTT.read (docLines doc)`, from the bytes, for every
document of the decoder's class that lies in the decidable class `InClass`:

* `read_view` — from the bytes (`Driver.docLines`: scanner lines, each decoded as UTF-8);
* `read_view_chars` — the same on the character lines `Spec.VTT.splitLines`;
* `read_ok`, `read_not_err` — spelled out: the model does not answer `err` on such a document, and if
  it answers `ok s` the normalised view of `s` is the normalised denotation.

`MAIN` for *all* documents of the decoder's class is **false** — `read_decode_Statement` is kept as a
`Prop`, `read_decode_Statement_false` refutes it with a concrete document (found while proving).  The
decoder's class contains documents on which the reader model (and the library) differ from the decoder;
`InClass` excludes exactly the kinds found, each with a witness below (`Finding …`):

1. `NOTE<tab>text` (a tab after `NOTE`): the library only knows `NOTE ` (space): the line is read as a
   cue identifier, the comment is lost.                                         → `noteOK`
2. `NOTE␣␣text` (more white space after `NOTE␣`): the library keeps the extra white space in the comment.
   Since the upstream change of `Spec.VTT.norm` (comments are trimmed before comparing) this is no longer
   a difference of the judged views; `noteOK` still excludes it (the proof relates comments exactly) —
   the exclusion is stronger than necessary.                                     → `noteOK`
3. `Region: … lines=N` with `N ≥ 2^63`: `strconv.Atoi` fails, the reader returns an error; the decoder
   takes any digit string.                                                       → `regionOK`
4. inside a tag, `=` followed by a quote: the HTML tokenizer reads a quoted attribute value, so
   `<c a="x>y">` is one tag for the library and ends at the first `>` for the decoder; with an
   unterminated quote (`<c a='>text`) the library drops the rest of the line.    → `scanOK` (`=`)
5. a form feed inside a tag is white space for the tokenizer and for `\s`, not for the decoder
   (`<c\x0cfoo>`: name `c` + annotation `foo` against name `c\x0cfoo`).          → `scanOK` (`\x0c`)
6. `|` inside a tag: not a difference of the library — the protocol carries the tag list of a run in one
   attribute string joined by `|`, so `Driver.vttView` cannot give an annotation containing `|` back.
                                                                                  → `scanOK` (`|`)
7. inline timestamps (`<00:01.000>`): excluded as a whole (`<` + digit).  Two real differences live
   there: `<00:00.000>` is "no timestamp" for the library (`ts = none`) and `some 0` for the decoder;
   white space between a tag and a timestamp is dropped by the library's text-token loop but is a run
   of its own for the decoder (witness of the coordinator: `a:b</v> <00:02.506>Été`, since resolved
   upstream by dropping white-space-only runs in `normLine` before merging).  Not proved here.

What is *in* the class: BOM, any EOL convention, text after `WEBVTT`, header metadata glued to the header,
blank-line padding, indentation, identifiers (numeric or not), all timing forms and settings of the
decoder, comments (with one space after `NOTE`), STYLE blocks, regions, timestamp map, cue text with
character references, nested tags with classes and annotations, voices, tags left open across the lines
of a cue.  `inClass_example(2)` / `decode_example(2)` show two small documents (longer ones were checked with `#eval`).

Proof structure (as for teletext, `Props/C06doc.lean`): a simulation relation `VTTRead.R` between the
decoder's document state and the reader's loop state, block by block (`sim_note`, `sim_style`, `sim_meta`,
`sim_cue` → `sim_block` → `sim_go`, `sim_lines`), line by line inside a block; the cue-text layer
(`VTTRead.textLayer`: HTML tokenizer model + tag expression + text tokens against the decoder's
character-level `textLine`, `Lemmas/VTTRead2Text*.lean`); timing (`parseVTT_of_timeMs`), settings
(`settings_of_cueSettings`), regions (`regionParts_of_regionLine`), timestamp map
(`parseTsMap_of_tsmapLine`); the final view (`view_result`); bytes → lines (`docLines_of_decodeLine`:
for *every* byte string that is valid UTF-8, any mixture of LF / CRLF / CR).
-/

namespace Astisub
namespace C02read
open Go Spec.VTT VTTRead

/-! ### the class -/

/-- `InClass` is decidable and not empty: a comment, a voice, a character reference and a tag with a class
    (kept short: `decide` runs both decoders in the kernel) -/
def exampleDoc : Str := "WEBVTT\n\nNOTE a\n\n00:01 --> 00:02\n<v B>x &amp; <c.b>y</c>".toList

set_option maxRecDepth 4000 in
theorem inClass_example : InClass exampleDoc = true := by decide

set_option maxRecDepth 4000 in
theorem decode_example : (decode exampleDoc).isSome = true := by decide

/-- header text, a glued timestamp map, a region and a cue using it with an identifier -/
def exampleDoc2 : Str := "WEBVTT x\nRegion: id=r lines=3\n\nid\n00:01 --> 00:02 region:r\ny".toList

set_option maxRecDepth 4000 in
theorem inClass_example2 : InClass exampleDoc2 = true := by decide

set_option maxRecDepth 4000 in
theorem decode_example2 : (decode exampleDoc2).isSome = true := by decide

/-! ### the headline theorems -/

/-- **Read clause, from the bytes.**  For every byte string `doc` that is UTF-8 text `text`, well-formed
    for the independent decoder (`decode text = some g`) and in the class `InClass`: the reader model run
    on the scanner lines of the bytes either is not covered by the tokenizer / overflow model
    (`unmodelled`: the driver does not judge such a case) or succeeds with a cue list whose normalised
    WebVTT view is the normalised denotation — exactly what the `vtt.read` case checks. -/
theorem read_view (doc : List UInt8) (text : Str) (g : GDoc)
    (hdec : Driver.decodeLine doc = some text) (hin : InClass text = true) (h : decode text = some g) :
    Good (VTT.read (Driver.docLines doc)) g :=
  read_bytes doc text g hdec hin h

/-- The same on the character lines of the text (LF, CRLF, lone CR each end a line). -/
theorem read_view_chars (text : Str) (g : GDoc) (hin : InClass text = true) (h : decode text = some g) :
    Good (VTT.read ((splitLines text []).map some)) g :=
  read_chars text g hin h

/-- Spelled out (1): on such a document the reader model never answers with an error. -/
theorem read_not_err (doc : List UInt8) (text : Str) (g : GDoc)
    (hdec : Driver.decodeLine doc = some text) (hin : InClass text = true) (h : decode text = some g) :
    VTT.read (Driver.docLines doc) ≠ .err := by
  intro e
  rcases read_view doc text g hdec hin h with h1 | ⟨s, h1, _⟩ <;> rw [e] at h1 <;> cases h1

/-- Spelled out (2): whatever cue list the reader model returns, its normalised view is the normalised
    denotation of the document. -/
theorem read_ok (doc : List UInt8) (text : Str) (g : GDoc) (s : Subs)
    (hdec : Driver.decodeLine doc = some text) (hin : InClass text = true) (h : decode text = some g)
    (hr : VTT.read (Driver.docLines doc) = .ok s) :
    (Driver.vttView s).map norm = some (norm g) := by
  rcases read_view doc text g hdec hin h with h1 | ⟨s', h1, h2⟩
  · rw [hr] at h1; cases h1
  · rw [hr] at h1; cases h1; exact h2

/-- The bytes → lines layer on its own: for every valid UTF-8 byte string the reader sees exactly the
    decoder's lines (`bufio.ScanLines` with the repaired CR handling = LF / CRLF / CR line ends). -/
theorem bytes_lines (doc : List UInt8) (text : Str) (hdec : Driver.decodeLine doc = some text) :
    Driver.docLines doc = (splitLines text []).map some :=
  docLines_of_decodeLine doc text hdec

/-- The cue-text layer on its own: a line of cue text the decoder accepts (no inline timestamp, `lineOK`)
    is parsed by the reader model (tokenizer, tag expression, text tokens) into the same tag stack, voice
    and runs — for any tag stack left open by the previous lines of the cue. -/
theorem text_line (l : Str) (stack : List GTag) (st : TextSt) (hok : lineOK l = true)
    (hstack : ∀ t ∈ stack, goodName t.name = true)
    (h : textLine (l.length + 2) l { stack := stack } = some st) :
    VTT.parseText l (stack.map modelTag) = .unmodelled ∨
    VTT.parseText l (stack.map modelTag) =
      .ok (st.stack.map modelTag, { voice := st.voice.getD [], items := st.runs.map runItem }) :=
  parseText_of_textLine l stack st hok hstack h

/-- Timestamps: every time the decoder accepts (`[h+:]mm:ss[.f{1,3}]`, any white space around) is parsed
    by the library's `parseDuration` to the same instant. -/
theorem time_agree (s : Str) (ms : Nat) (h : timeMs s = some ms) :
    Duration.parseVTT s = some ((ms : Int) * 1000000) :=
  parseVTT_of_timeMs s ms h

/-! ### MAIN for all documents: kept as a statement, and refuted -/

/-- MAIN as targeted: for every document of the decoder's class.  **Not proved — it is false**
    (`read_decode_Statement_false`). -/
def read_decode_Statement : Prop :=
  ∀ (doc : List UInt8) (text : Str) (g : GDoc), Driver.decodeLine doc = some text → decode text = some g →
    Good (VTT.read (Driver.docLines doc)) g

def isErr {α} : SRT.Res α → Bool
  | .err => true
  | _ => false

/-- Finding 3: a region whose number of lines does not fit an `int` -/
def findingRegion : Str := "WEBVTT\n\nRegion: id=a lines=99999999999999999999".toList

theorem findingRegion_decoded : (decode findingRegion).isSome = true := by decide
theorem findingRegion_err : isErr (VTT.read ((splitLines findingRegion []).map some)) = true := by decide
theorem findingRegion_outside : InClass findingRegion = false := by decide

theorem read_decode_Statement_false : ¬ read_decode_Statement := by
  intro hall
  cases hd : decode findingRegion with
  | none => have := findingRegion_decoded; rw [hd] at this; cases this
  | some g =>
    have h1 := hall (Driver.utf8 findingRegion) findingRegion g (SRTDoc.decodeLine_utf8 _) hd
    rw [docLines_utf8] at h1
    have h2 := findingRegion_err
    rcases h1 with h1 | ⟨s, h1, _⟩ <;> rw [h1] at h2 <;> cases h2

/-! ### the other findings: in the decoder's class, outside `InClass`
(the differing views were computed with `#eval`; see the file header and the report) -/

def findingNoteTab : Str := "WEBVTT\n\nNOTE\tfoo\n\n00:01.000 --> 00:02.000\nx".toList
theorem findingNoteTab_decoded : (decode findingNoteTab).isSome = true := by decide
theorem findingNoteTab_outside : InClass findingNoteTab = false := by decide

def findingQuote : Str := "WEBVTT\n\n00:01.000 --> 00:02.000\n<c a='>text".toList
theorem findingQuote_decoded : (decode findingQuote).isSome = true := by decide
theorem findingQuote_outside : InClass findingQuote = false := by decide

def findingFormFeed : Str := "WEBVTT\n\n00:01.000 --> 00:02.000\n<c\x0cfoo>text".toList
theorem findingFormFeed_decoded : (decode findingFormFeed).isSome = true := by decide
theorem findingFormFeed_outside : InClass findingFormFeed = false := by decide

def findingZeroTs : Str := "WEBVTT\n\n00:01.000 --> 00:02.000\n<00:00.000>text".toList
theorem findingZeroTs_decoded : (decode findingZeroTs).isSome = true := by decide
theorem findingZeroTs_outside : InClass findingZeroTs = false := by decide

end C02read
end Astisub
