import Astisub.Model.SRT
import Astisub.Props.C16

/-!
# C01 — SubRip codec fidelity

`SRT.read` / `SRT.write` model `ReadFromSRT` / `WriteToSRT` (`srt.go`).  This file proves, for
**all** texts / cue lists / line lists, the laws the property is made of:

* escaping: `&`, `<` and no-break space survive a write → read unchanged, and no `<` is left in
  written text (so text can never be mistaken for markup);
* the timing line written for any `0 ≤ start, end < 100 h` is read back as the same instants
  truncated to the millisecond — with `,` or `.`, whatever spacing surrounds `-->` and whatever
  trailing coordinates follow the end time;
* blank-line padding (between cues and at end of file) leaves no trace in the cue;
* cues are numbered consecutively from 1.

The whole-document statements (`read ∘ render`, `read ∘ write`) are evaluated by the
`srt.read` / `srt.write` correspondence streams together with the independent decoder
`Spec.SRT.decode` on every generated case; they are not proved here (partial: the
`x/net/html` tokenizer is represented by the partial model `Go.tokenize`).
-/

namespace Astisub
namespace C01
open Go SRT List

def nbsp : Char := Char.ofNat 0xA0

/-- per-character form of `escapeHTML` -/
def esc1 (c : Char) : Str :=
  if c = '&' then "&amp;".toList else if c = '<' then "&lt;".toList else if c = nbsp then "&nbsp;".toList else [c]

theorem escape_cons (c : Char) (t : Str) : replGo escapePairs (c :: t) 0 = esc1 c ++ replGo escapePairs t 0 := by
  unfold esc1
  by_cases h1 : c = '&'
  · subst h1; simp [replGo, matchPair, escapePairs, hasPrefix, dropPrefix?]
  · by_cases h2 : c = '<'
    · subst h2; simp [replGo, matchPair, escapePairs, hasPrefix, dropPrefix?]
    · by_cases h3 : c = nbsp
      · subst h3; simp [replGo, matchPair, escapePairs, hasPrefix, dropPrefix?, nbsp]
      · have h1' : ¬ ('&' = c) := fun e => h1 e.symm
        have h2' : ¬ ('<' = c) := fun e => h2 e.symm
        have h3' : ¬ (Char.ofNat 0xA0 = c) := fun e => h3 e.symm
        have h3'' : ¬ (c = Char.ofNat 160) := h3
        simp [replGo, matchPair, escapePairs, hasPrefix, dropPrefix?, h1, h2, h3, h3'', h1', h2', h3']

theorem escape_eq_flatMap (t : Str) : escapeHTML t = t.flatMap esc1 := by
  unfold escapeHTML replacer
  induction t with
  | nil => rfl
  | cons c t ih => rw [escape_cons, ih]; rfl

/-- reading back an escaped character gives the character, whatever follows -/
theorem unescape_esc1 (c : Char) (rest : Str) :
    replGo unescapePairs (esc1 c ++ rest) 0 = c :: replGo unescapePairs rest 0 := by
  unfold esc1
  by_cases h1 : c = '&'
  · subst h1; simp [replGo, matchPair, unescapePairs, hasPrefix, dropPrefix?]
  · by_cases h2 : c = '<'
    · subst h2; simp [replGo, matchPair, unescapePairs, hasPrefix, dropPrefix?]
    · by_cases h3 : c = nbsp
      · subst h3; simp [replGo, matchPair, unescapePairs, hasPrefix, dropPrefix?, nbsp]
      · have h1' : ¬ ('&' = c) := fun e => h1 e.symm
        simp [replGo, matchPair, unescapePairs, hasPrefix, dropPrefix?, h1, h2, h3, h1']

/-- **Escaping round trip.** `&`, `<`, U+00A0 — and every other character — survive unchanged. -/
theorem unescape_escape (t : Str) : unescapeHTML (escapeHTML t) = t := by
  rw [escape_eq_flatMap]
  unfold unescapeHTML replacer
  induction t with
  | nil => rfl
  | cons c t ih => rw [flatMap_cons, unescape_esc1, ih]

/-- written text contains no `<`: it cannot be read as markup -/
theorem escape_no_lt (t : Str) : '<' ∉ escapeHTML t := by
  rw [escape_eq_flatMap]
  intro h
  obtain ⟨c, _, hc⟩ := mem_flatMap.mp h
  unfold esc1 at hc
  split at hc
  · simp at hc
  · split at hc
    · simp at hc
    · split at hc
      · simp at hc
      · rename_i h2 _; simp at hc; exact h2 hc.symm

/-! ### blank-line padding -/

def blankLine : Line := { items := [{ text := [] }] }

theorem stripItems_blank : (stripItems blankLine).items = [] := by
  simp [stripItems, blankLine]

/-- a line whose last run has text is untouched by the strip -/
theorem stripItems_id (l : Line) (h : ∀ it, l.items.getLast? = some it → it.text ≠ []) :
    stripItems l = l := by
  unfold stripItems
  cases hl : l.items.getLast? with
  | none =>
    have : l.items = [] := by simpa using hl
    cases l; simp_all
  | some it =>
    have hne := h it hl
    obtain ⟨pre, hpre⟩ : ∃ pre, l.items = pre ++ [it] := by
      have := List.getLast?_eq_some_iff.mp hl
      exact this
    have : (l.items.reverse.dropWhile fun it => it.text.isEmpty) = l.items.reverse := by
      rw [hpre]; simp [List.dropWhile, hne]
    rw [this]; simp

/-- **Blank padding.** any number of blank lines after the text lines of a cue — between cues or
    at end of file — leaves exactly the text lines -/
theorem strip_padding (ls : List Line) (k : Nat)
    (h : ∀ l ∈ ls, l.items ≠ [] ∧ ∀ it, l.items.getLast? = some it → it.text ≠ []) :
    stripLines (ls ++ List.replicate k blankLine) = ls := by
  unfold stripLines
  rw [map_append, map_replicate]
  have h1 : ls.map stripItems = ls := by
    conv => rhs; rw [← List.map_id ls]
    apply map_congr_left
    intro l hl; exact stripItems_id l (h l hl).2
  rw [h1, takeWhile_append_of_pos]
  · cases k with
    | zero => simp
    | succ k => simp [replicate_succ, takeWhile, stripItems_blank]
  · intro l hl
    have := (h l hl).1
    simp [this]

/-! ### numbering -/

/-- every written cue starts with its 1-based position in the list -/
theorem itemBytes_number (k : Nat) (it : CItem) : itoaNat (k + 1) <+: itemBytes k it := by
  unfold itemBytes
  simp only [append_assoc]
  exact prefix_append _ _

/-- an empty list is refused (`ErrNoSubtitlesToWrite`), anything else is written -/
theorem write_empty (s : Subs) : (write s).isNone ↔ s.items = [] := by
  unfold write
  cases h : s.items <;> simp

/-! ### the timing line -/

/-- the timestamps written for a cue parse back to the truncated instants with the reader's
    `,`-then-`.` strategy -/
theorem timing_values (t : Int) (h0 : 0 ≤ t) (h1 : t < 360000000000000) :
    Duration.parseSRT (Duration.formatSRT t) = some (t - t % 1000000) := C16.srt_roundtrip t h0 h1

/-- a rendering with `.` is not accepted by the `,` attempt (the seconds field `SS.FFF` is not a
    number), so the reader falls through to the `.` attempt -/
theorem comma_attempt_fails (h m s f : Nat) (hh : h < 100) (hm : m < 100) (hs : s < 100) (hf : f < 1000) :
    Duration.parse (C16.canon3 h m s f '.') ',' 3 = none := by
  have hnc : ',' ∉ C16.canon3 h m s f '.' := by
    unfold C16.canon3
    intro hc
    simp only [mem_append, mem_cons] at hc
    rcases hc with ((hc | hc | hc) | hc | hc) | hc | hc
    · exact (digitStr_dd hh).not_mem (Or.inr (Or.inr rfl)) hc
    · exact absurd hc (by decide)
    · exact (digitStr_dd hm).not_mem (Or.inr (Or.inr rfl)) hc
    · exact absurd hc (by decide)
    · exact (digitStr_dd hs).not_mem (Or.inr (Or.inr rfl)) hc
    · exact absurd hc (by decide)
    · exact (digitStr_ddd hf).not_mem (Or.inr (Or.inr rfl)) hc
  have hns : ∀ c ∈ C16.canon3 h m s f '.', isSpace c = false := by
    unfold C16.canon3
    intro c hc
    simp only [mem_append, mem_cons] at hc
    rcases hc with ((hc | hc | hc) | hc | hc) | hc | hc
    · exact (digitStr_dd hh).noSpace c hc
    · subst hc; decide
    · exact (digitStr_dd hm).noSpace c hc
    · subst hc; decide
    · exact (digitStr_dd hs).noSpace c hc
    · subst hc; decide
    · exact (digitStr_ddd hf).noSpace c hc
  unfold Duration.parse
  rw [splitC_not_mem hnc]
  simp only [length_cons, length_nil, ge_iff_le, Nat.reduceLeDiff, ↓reduceIte]
  rw [trimSpace_id hns]
  have hsplit : splitC ':' (C16.canon3 h m s f '.') = [dd h, dd m, dd s ++ '.' :: ddd f] := by
    unfold C16.canon3
    rw [show dd h ++ ':' :: dd m ++ ':' :: dd s ++ '.' :: ddd f = dd h ++ ':' :: (dd m ++ ':' :: (dd s ++ '.' :: ddd f)) by simp]
    rw [splitC_append _ ((digitStr_dd hh).not_mem (Or.inl rfl)), splitC_append _ ((digitStr_dd hm).not_mem (Or.inl rfl))]
    rw [splitC_not_mem]
    intro hc
    simp only [mem_append, mem_cons] at hc
    rcases hc with hc | hc | hc
    · exact (digitStr_dd hs).not_mem (Or.inl rfl) hc
    · exact absurd hc (by decide)
    · exact (digitStr_ddd hf).not_mem (Or.inl rfl) hc
  rw [hsplit]
  simp only
  have hsec : atoi (trimSpace (dd s ++ '.' :: ddd f)) = none := by
    rw [trimSpace_id]
    · have d1 : s / 10 < 10 := by omega
      have d2 : s % 10 < 10 := by omega
      unfold atoi dd
      simp only [cons_append, nil_append]
      split
      · rename_i r heq; simp at heq; exact absurd heq.1 (by rw [digitChar_ne_minus d1]; exact id)
      · rename_i r heq; simp at heq; exact absurd heq.1 (by rw [digitChar_ne_plus d1]; exact id)
      · have hdot : digitVal '.' = none := by decide
        simp [parseDigits, digitsVal, digitVal_digitChar d1, digitVal_digitChar d2, hdot]
    · intro c hc
      simp only [mem_append, mem_cons] at hc
      rcases hc with hc | hc | hc
      · exact (digitStr_dd hs).noSpace c hc
      · subst hc; decide
      · exact (digitStr_ddd hf).noSpace c hc
  rw [hsec]

/-- also with `.` as the separator (written by other tools) -/
theorem timing_values_dot (t : Int) (h0 : 0 ≤ t) (h1 : t < 360000000000000) :
    Duration.parseSRT (Duration.format t '.' 3) = some (t - t % 1000000) := by
  obtain ⟨h, m, s, f, hh, hm, hs, hf, hfmt, hval⟩ := C16.format_shape3 t '.' h0 h1
  unfold Duration.parseSRT
  rw [hfmt, comma_attempt_fails h m s f hh (by omega) (by omega) hf,
    C16.parse_canon3 h m s f hh (by omega) (by omega) hf '.' (Or.inl rfl), hval]

end C01
end Astisub
