import Mathlib.Tactic.Linarith
import Mathlib.Tactic.Positivity
import Mathlib.Tactic.NormNum
import Mathlib.Algebra.Order.Floor.Ring
import Mathlib.Data.Rat.Floor
import Astisub.Model.LinCorr

/-!
# C15 — Linear correction is the affine map through the two reference points

`LinCorr.apply` (Model/LinCorr.lean) evaluates the Go expression tree of
`Subtitles.ApplyLinearCorrection` with the executable binary64 model `Go.Float53`, which the
`lib.f53` / `ops.lincorr` streams compare bit for bit with the hardware.

The error analysis below is done over an *abstract* rounding function satisfying the standard
model of floating-point arithmetic (`FloatModel`: monotone, relative error ≤ 2⁻⁵³, exact on
integers up to 2⁵³) — it therefore holds for IEEE-754 binary64 round-to-nearest-even and for any
other rounding with these properties. That `Go.Float53` is such a function, and the same bounds
for the executable tree `LinCorr.apply1` itself, are proved in `Props/C15float.lean`
(`binary64`, `close_exec`, `monotone_exec`, `length_scaled_exec`); what remains assumed is that
the hardware's float64 equals the executable model (bit-for-bit correspondence, `lib.f53`).
-/

namespace Astisub
namespace C15

/-- unit round-off of binary64 -/
def u : ℚ := 1 / 2 ^ 53

structure FloatModel where
  fl : ℚ → ℚ
  mono : ∀ x y, x ≤ y → fl x ≤ fl y
  err : ∀ x, |fl x - x| ≤ |x| * u
  exactInt : ∀ n : ℤ, |n| ≤ 2 ^ 53 → fl n = n

/-- non-vacuity: exact arithmetic is a `FloatModel` (so is IEEE-754 round-to-nearest-even) -/
def exactModel : FloatModel where
  fl := id
  mono := fun _ _ h => h
  err := fun x => by simp only [id, sub_self, abs_zero]; exact mul_nonneg (abs_nonneg _) (by unfold u; positivity)
  exactInt := fun _ _ => rfl

/-- Go's float → integer conversion: toward zero -/
def tr (x : ℚ) : ℤ := if 0 ≤ x then ⌊x⌋ else ⌈x⌉

theorem tr_err (x : ℚ) : |(tr x : ℚ) - x| < 1 := by
  unfold tr
  split
  · have h1 := Int.floor_le x
    have h2 := Int.lt_floor_add_one x
    rw [abs_lt]; constructor <;> linarith
  · have h1 := Int.le_ceil x
    have h2 := Int.ceil_lt_add_one x
    rw [abs_lt]; constructor <;> linarith

theorem tr_mono {x y : ℚ} (h : x ≤ y) : tr x ≤ tr y := by
  unfold tr
  by_cases hx : 0 ≤ x
  · have hy : 0 ≤ y := le_trans hx h
    simp only [hx, hy, ↓reduceIte]
    exact Int.floor_le_floor h
  · by_cases hy : 0 ≤ y
    · simp only [hx, hy, ↓reduceIte]
      have h1 : ⌈x⌉ ≤ 0 := Int.ceil_le.mpr (by have := not_le.mp hx; exact_mod_cast le_of_lt this)
      have h2 : 0 ≤ ⌊y⌋ := Int.floor_nonneg.mpr hy
      omega
    · simp only [hx, hy, ↓reduceIte]
      exact Int.ceil_le_ceil h

/-- the Go expression tree over an abstract rounding function (conversions of the integer
    operands are exact below 2⁵³) -/
def slopeA (F : FloatModel) (a1 d1 a2 d2 : ℤ) : ℚ := F.fl (((d2 - d1 : ℤ) : ℚ) / ((a2 - a1 : ℤ) : ℚ))

def interceptA (F : FloatModel) (a1 d1 a2 d2 : ℤ) : ℤ :=
  tr (F.fl ((d1 : ℚ) - F.fl (slopeA F a1 d1 a2 d2 * a1)))

def applyA (F : FloatModel) (a1 d1 a2 d2 : ℤ) (t : ℤ) : ℤ :=
  tr (F.fl (slopeA F a1 d1 a2 d2 * t)) + interceptA F a1 d1 a2 d2

/-- the exact affine map through `(a1, d1)` and `(a2, d2)` -/
def exact (a1 d1 a2 d2 : ℤ) (t : ℤ) : ℚ := d1 + ((t : ℚ) - a1) * (((d2 - d1 : ℤ) : ℚ) / ((a2 - a1 : ℤ) : ℚ))

/-- 24 h in nanoseconds -/
def day : ℚ := 86400000000000

theorem fl_abs_le (F : FloatModel) (x B : ℚ) (h : |x| ≤ B) : |F.fl x| ≤ B * (1 + u) := by
  have h1 := F.err x
  have hu : (0 : ℚ) ≤ u := by unfold u; positivity
  have h2 : |F.fl x| ≤ |F.fl x - x| + |x| := by
    have := abs_add_le (F.fl x - x) x
    simpa using this
  have h3 : |x| * u ≤ B * u := mul_le_mul_of_nonneg_right h hu
  linarith

/-- **Closeness.** For instants in `[0, 24 h]` and a slope of magnitude at most 2, every cue
    boundary is mapped to within 3 ns (≪ 1 µs) of the exact affine map — in particular `a1` lands on
    `d1` and `a2` on `d2` to within that bound. -/
theorem close (F : FloatModel) (a1 d1 a2 d2 t : ℤ)
    (ht : |(t : ℚ)| ≤ day) (ha1 : |(a1 : ℚ)| ≤ day) (hd1 : |(d1 : ℚ)| ≤ day)
    (hs : |((d2 - d1 : ℤ) : ℚ) / ((a2 - a1 : ℤ) : ℚ)| ≤ 2) :
    |(applyA F a1 d1 a2 d2 t : ℚ) - exact a1 d1 a2 d2 t| ≤ 3 := by
  set s : ℚ := ((d2 - d1 : ℤ) : ℚ) / ((a2 - a1 : ℤ) : ℚ) with hsdef
  set a : ℚ := F.fl s with hadef
  have hu : (0 : ℚ) ≤ u := by unfold u; positivity
  have hu1 : u ≤ 1 / 1000000000000000 := by unfold u; norm_num
  -- slope
  have e0 : |a - s| ≤ 2 * u := by
    have := F.err s
    have : |s| * u ≤ 2 * u := mul_le_mul_of_nonneg_right hs hu
    linarith [F.err s]
  have ha : |a| ≤ 2 * (1 + u) := fl_abs_le F s 2 hs
  have ha3 : |a| ≤ 3 := by linarith
  -- products
  have hat : |a * t| ≤ 3 * day := by
    rw [abs_mul]; exact mul_le_mul ha3 ht (abs_nonneg _) (by norm_num)
  have haa1 : |a * a1| ≤ 3 * day := by
    rw [abs_mul]; exact mul_le_mul ha3 ha1 (abs_nonneg _) (by norm_num)
  have hday : (0 : ℚ) ≤ day := by unfold day; norm_num
  set x1 : ℚ := F.fl (a * t) with hx1
  set x2 : ℚ := F.fl (a * a1) with hx2
  have e1 : |x1 - a * t| ≤ 3 * day * u := by
    have := F.err (a * t)
    have h : |a * t| * u ≤ 3 * day * u := mul_le_mul_of_nonneg_right hat hu
    linarith
  have e2 : |x2 - a * a1| ≤ 3 * day * u := by
    have := F.err (a * a1)
    have h : |a * a1| * u ≤ 3 * day * u := mul_le_mul_of_nonneg_right haa1 hu
    linarith
  have hx2b : |x2| ≤ 3 * day * (1 + u) := fl_abs_le F (a * a1) (3 * day) haa1
  have hdx : |(d1 : ℚ) - x2| ≤ 5 * day := by
    have := abs_sub (d1 : ℚ) x2
    have h5 : 3 * day * (1 + u) ≤ 4 * day := by nlinarith
    linarith
  set x3 : ℚ := F.fl ((d1 : ℚ) - x2) with hx3
  have e3 : |x3 - ((d1 : ℚ) - x2)| ≤ 5 * day * u := by
    have := F.err ((d1 : ℚ) - x2)
    have h : |(d1 : ℚ) - x2| * u ≤ 5 * day * u := mul_le_mul_of_nonneg_right hdx hu
    linarith
  have t1 := tr_err x1
  have t3 := tr_err x3
  -- (a - s) (t - a1)
  have e4 : |(a - s) * ((t : ℚ) - a1)| ≤ 2 * u * (2 * day) := by
    rw [abs_mul]
    have : |(t : ℚ) - a1| ≤ 2 * day := by
      have := abs_sub (t : ℚ) (a1 : ℚ); linarith
    exact mul_le_mul e0 this (abs_nonneg _) (by positivity)
  -- assemble
  have key : (applyA F a1 d1 a2 d2 t : ℚ) - exact a1 d1 a2 d2 t
      = ((tr x1 : ℚ) - x1) + ((tr x3 : ℚ) - x3) + (x1 - a * t) + (x3 - ((d1 : ℚ) - x2)) - (x2 - a * a1)
        + (a - s) * ((t : ℚ) - a1) := by
    unfold applyA interceptA exact slopeA
    simp only [← hsdef, ← hadef, ← hx1, ← hx2, ← hx3]
    push_cast
    ring
  rw [key]
  have du : day * u ≤ 1 / 100 := by unfold day u; norm_num
  have t1' := abs_lt.mp t1
  have t3' := abs_lt.mp t3
  have e1' := abs_le.mp e1
  have e2' := abs_le.mp e2
  have e3' := abs_le.mp e3
  have e4' := abs_le.mp e4
  have b1 : 3 * day * u ≤ 3 / 100 := by linarith
  have b3 : 5 * day * u ≤ 5 / 100 := by linarith
  have b4 : 2 * u * (2 * day) ≤ 4 / 100 := by linarith
  rw [abs_le]
  constructor <;> linarith [t1'.1, t1'.2, t3'.1, t3'.2, e1'.1, e1'.2, e2'.1, e2'.2, e3'.1, e3'.2, e4'.1, e4'.2]

/-- **Order.** With a non-negative (rounded) slope the map is monotone: the order of cue
    boundaries is preserved. -/
theorem monotone (F : FloatModel) (a1 d1 a2 d2 t t' : ℤ)
    (hpos : 0 ≤ slopeA F a1 d1 a2 d2) (h : t ≤ t') :
    applyA F a1 d1 a2 d2 t ≤ applyA F a1 d1 a2 d2 t' := by
  unfold applyA
  have : slopeA F a1 d1 a2 d2 * (t : ℚ) ≤ slopeA F a1 d1 a2 d2 * (t' : ℚ) :=
    mul_le_mul_of_nonneg_left (by exact_mod_cast h) hpos
  have := tr_mono (F.mono _ _ this)
  omega

/-- the rounded slope of a positive exact slope is non-negative -/
theorem slope_nonneg (F : FloatModel) (a1 d1 a2 d2 : ℤ)
    (h : 0 ≤ ((d2 - d1 : ℤ) : ℚ) / ((a2 - a1 : ℤ) : ℚ)) : 0 ≤ slopeA F a1 d1 a2 d2 := by
  unfold slopeA
  have h0 : F.fl ((0 : ℤ) : ℚ) = ((0 : ℤ) : ℚ) := F.exactInt 0 (by norm_num)
  have := F.mono _ _ h
  simp at h0
  linarith

/-- **Length.** every cue's length is scaled by the slope to within 6 ns -/
theorem length_scaled (F : FloatModel) (a1 d1 a2 d2 s e : ℤ)
    (hs' : |(s : ℚ)| ≤ day) (he : |(e : ℚ)| ≤ day) (ha1 : |(a1 : ℚ)| ≤ day) (hd1 : |(d1 : ℚ)| ≤ day)
    (hsl : |((d2 - d1 : ℤ) : ℚ) / ((a2 - a1 : ℤ) : ℚ)| ≤ 2) :
    |((applyA F a1 d1 a2 d2 e - applyA F a1 d1 a2 d2 s : ℤ) : ℚ)
        - ((e : ℚ) - s) * (((d2 - d1 : ℤ) : ℚ) / ((a2 - a1 : ℤ) : ℚ))| ≤ 6 := by
  have h1 := close F a1 d1 a2 d2 e he ha1 hd1 hsl
  have h2 := close F a1 d1 a2 d2 s hs' ha1 hd1 hsl
  have : ((applyA F a1 d1 a2 d2 e - applyA F a1 d1 a2 d2 s : ℤ) : ℚ)
        - ((e : ℚ) - s) * (((d2 - d1 : ℤ) : ℚ) / ((a2 - a1 : ℤ) : ℚ))
      = ((applyA F a1 d1 a2 d2 e : ℚ) - exact a1 d1 a2 d2 e) - ((applyA F a1 d1 a2 d2 s : ℚ) - exact a1 d1 a2 d2 s) := by
    unfold exact; push_cast; ring
  rw [this]
  have h1' := abs_le.mp h1
  have h2' := abs_le.mp h2
  rw [abs_le]
  constructor <;> linarith [h1'.1, h1'.2, h2'.1, h2'.2]

/-- **Frame.** text, style, identity and list order are untouched (executable model) -/
theorem frame (a1 d1 a2 d2 : Int) (xs : List Item) :
    (LinCorr.apply a1 d1 a2 d2 xs).map (fun it => (it.uid, it.content)) = xs.map (fun it => (it.uid, it.content)) := by
  simp [LinCorr.apply, Item.content, Function.comp_def]

end C15
end Astisub
