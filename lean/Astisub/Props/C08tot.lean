import Astisub.Lemmas.TotSTL
import Astisub.Lemmas.TotTeletextPage
import Astisub.Lemmas.TotLines
import Astisub.Lemmas.TotSSA
import Astisub.Lemmas.TotWrite

/-!
# C08 (totality), part 2 — the guards of the readers suffice

The reader models totalise Go's indexing: `getD`, `head?`, `take`/`drop`, pattern matches with a
catch-all arm.  A bounds check missing from the Go code is therefore invisible in a theorem about
them.  Here the index obligations are explicit.  For each reader there is a *checked* variant
(`Lemmas/Tot*.lean`) in which every index expression `l[i]`, slice expression `l[lo:hi]`, integer
division and pointer dereference of the corresponding Go function is a primitive that can answer
`.error panic` (`Tot.idx`, `Tot.slc`, `Tot.slcFrom`, `Tot.slcTo`, `Tot.tdivC`, `Tot.deref`), and the
rest of the code — in particular every guard — is copied from the model.

Each headline theorem has the form `checked input = .ok (model input)` for **all** inputs.  It says
two things at once: (a) the checked reader never panics — the guards that are there suffice — and
(b) its value is the value of the totalised model — no default of `getD`/`head?`/`take` and no
catch-all arm is ever used, the model is faithful.  The `…_needs_…` theorems show the other
direction for the guards that were missing in the pinned code: without the guard the checked code
does panic.

The writers are total by construction in Lean; for them the theorems say exactly when the answer
is the error `ErrNoSubtitlesToWrite`.
-/

namespace Astisub
namespace C08tot
open Tot

/-- how to read the theorems below: a checked computation that equals `.ok _` did not panic -/
theorem checked_implies_no_panic {α} {c : Chk α} {a : α} (h : c = .ok a) : c.safe = true := safe_of_eq_ok h

/-! ## EBU STL (`stl.go`) -/

/-- **`ReadFromSTL` never panics and is what the model says, for every byte string** (bytes are
    arbitrary naturals, `ignoreTCP` arbitrary).  Checked: the 31 slice/index expressions of
    `parseGSIBlock` on the 1024-byte block, the 11 of `parseTTIBlock` on every 128-byte block, the four
    2-character slices of `parseDurationSTL`, the four indexes of `parseDurationSTLBytes`, and the
    division by the frame rate in both.  Guards used: `readNBytes` delivers exactly 1024 / 128 bytes
    or the reader errors; unknown disk format code ⇒ error (so the frame rate is 25 or 30);
    a GSI time code shorter than 8 characters ⇒ error. -/
theorem stl_read_checked (ignoreTCP : Bool) (doc : List Nat) :
    Tot.STL.readC ignoreTCP doc = .ok (STL.read ignoreTCP doc) :=
  Tot.STL.readC_eq ignoreTCP doc

/-- (a) alone: no panic on any input -/
theorem stl_read_never_panics (ignoreTCP : Bool) (doc : List Nat) : (Tot.STL.readC ignoreTCP doc).safe = true :=
  safe_of_eq_ok (stl_read_checked ignoreTCP doc)

/-- `parseGSIBlock` on any block of exactly 1024 bytes: every fixed offset (the largest is 448) is in range -/
theorem stl_gsi_checked (b : List Nat) (hb : b.length = 1024) : Tot.STL.parseGSIC b = .ok (STL.parseGSI b) :=
  Tot.STL.parseGSIC_eq b hb

example : (List.replicate 1024 0x20).length = 1024 := List.length_replicate

/-- a GSI block that `parseGSIBlock` accepts carries a non-zero frame rate: the divisor of
    `parseDurationSTL` / `parseDurationSTLBytes` is never 0.  The guard is the error for a disk format
    code missing from `stlFramerateMapping`. -/
theorem stl_framerate_nonzero {b : List Nat} {g : STL.GSI} (h : STL.parseGSI b = some g) : g.m.framerate ≠ 0 :=
  Tot.STL.parseGSI_framerate h

/-- `parseTTIBlock` + the loop body on any block of exactly 128 bytes, for any GSI with a non-zero frame rate -/
theorem stl_tti_checked (g : STL.GSI) (off : Int) (acc : Option Nat) (p : List Nat) (hp : p.length = 128)
    (hfr : g.m.framerate ≠ 0) : Tot.STL.ttiItemC g off acc p = .ok (STL.ttiItem g off acc p) :=
  Tot.STL.ttiItemC_eq g off acc p hp hfr

/-- `parseDurationSTL` on any string of at least 8 characters and any non-zero frame rate -/
theorem stl_timecode_checked (ceil : Bool) (i : Go.Str) (fr : Int) (hlen : 8 ≤ i.length) (hfr : fr ≠ 0) :
    Tot.STL.parseSTLC ceil i fr = .ok (Duration.parseSTL ceil i fr) :=
  Tot.STL.parseSTLC_eq ceil i fr hlen hfr

/-- `parseDurationSTLBytes` on any 4 bytes and any non-zero frame rate -/
theorem stl_timecode_bytes_checked (ceil : Bool) (b : List Nat) (fr : Int) (hlen : b.length = 4) (hfr : fr ≠ 0) :
    Tot.STL.parseSTLBytesC ceil b fr = .ok (Duration.parseSTLBytes ceil b fr) :=
  Tot.STL.parseSTLBytesC_eq ceil b fr hlen hfr

/-- the length guard in front of `parseDurationSTL` is necessary: on fewer than 8 characters the slicing panics -/
theorem stl_timecode_needs_length (ceil : Bool) (i : Go.Str) (fr : Int) (hlen : i.length < 8) :
    (Tot.STL.parseSTLC ceil i fr).safe = false :=
  Tot.STL.parseSTLC_short ceil i fr hlen

/-- the frame rate guard is necessary: a zero frame rate is a division by zero -/
theorem stl_timecode_needs_framerate (ceil : Bool) (f : Int) : Tot.STL.framesToNsC ceil f 0 = .error .divZero :=
  Tot.STL.framesToNsC_zero ceil f

/-- the block size guard is necessary: `parseTTIBlock` on a block shorter than 128 bytes panics -/
theorem stl_tti_needs_block_size (g : STL.GSI) (off : Int) (acc : Option Nat) (p : List Nat) (hp : p.length < 128) :
    (Tot.STL.ttiItemC g off acc p).safe = false :=
  Tot.STL.ttiItemC_short g off acc p hp

/-! ## Teletext (`teletext.go`) -/

open Tot.Teletext in
/-- **`teletextPageBuffer.process` never panics and is what the model says, for every payload of
    bytes and every page buffer state in which "receiving" implies "has a current page"** (the state
    `newTeletextPageBuffer` creates satisfies this and `process` preserves it: `teletext_buffer_invariant`).
    Checked: `d.Data[0]`, `d.Data[offset]`, `d.Data[offset+1]`, `d.Data[offset+2:offsetEnd]` of `process`;
    `i[1]`, `i[2]`, `i[3]`, `i[4:]` of `parseDataUnit`; `i[0]`, `i[1:]` of `parsePacket`; `i[0]`, `i[1]`, `i[5]`,
    `i[7]` of `parsePacketHeader`; `i[0]`…`i[39]` and the `currentPage` dereference of `parsePacketData`;
    `i[0]`, `i[1]`, `i[2]` of `parsePacket28And29`; the 256-entry Hamming and parity tables.
    Guards used: empty payload ⇒ return; loop while two bytes are left; `offsetEnd > len` ⇒ break;
    `len(i) < 44` ⇒ skip the data unit; `parsePacketData` only while receiving. -/
theorem teletext_process_checked (b : Teletext.Buf) (data : List Nat) (t : Int) (hb : BufOk b) (hd : Bytes256 data) :
    processC b data t = .ok (Teletext.process b data t) :=
  processC_eq b data t hb hd

open Tot.Teletext in
/-- the page buffer invariant holds initially and after every call of `process` -/
theorem teletext_buffer_invariant :
    (∀ page, BufOk (Teletext.newBuf page)) ∧
    (∀ b data t, BufOk b → BufOk (Teletext.process b data t).1) :=
  ⟨newBuf_ok, process_ok⟩

open Tot.Teletext in
example : Bytes256 [0x10, 0x03, 0x2c, 0x00, 0xe4] ∧ BufOk (Teletext.newBuf 888) := ⟨by decide, newBuf_ok 888⟩

open Tot.Teletext in
/-- `parseDataUnit` on a data unit of **any** length (the `len(i) < 44` guard decides) -/
theorem teletext_data_unit_checked (b : Teletext.Buf) (i : List Nat) (id : Nat) (t : Int) (hb : BufOk b) (hi : Bytes256 i) :
    parseDataUnitC b i id t = .ok (Teletext.parseDataUnit b i id t) :=
  parseDataUnitC_eq b i id t hb hi

open Tot.Teletext in
/-- the invariant is necessary: `parsePacketData` on a buffer without a current page is a nil dereference -/
theorem teletext_data_needs_current_page (b : Teletext.Buf) (i : List Nat) (y : Nat) (hc : b.current = none) :
    parseDataC b i y = .error .nilDeref :=
  parseDataC_nil b i y hc

open Tot.Teletext in
/-- `updateCharset`'s table work never panics, for every triplet and every page character set code:
    the `*v2.g0` dereference (every entry of `teletextCharsets` has a G0 set), the G0 / national subset
    references, and the thirteen stores `d.c[positions[k]] = v` (all positions are below 96); the
    resulting table has 96 entries, which is what makes `d.c[b-0x20]` of `decode` safe for `0x20 ≤ b ≤ 0x7f` -/
theorem teletext_charset_checked (triplet code : Nat) :
    computeCharsetC triplet code = .ok (Teletext.computeCharset triplet code) ∧
    (Teletext.computeCharset triplet code).length = 96 :=
  computeCharsetC_eq triplet code

open Tot.Teletext in
/-- **the data loop of `ReadFromTeletext` and the final page parse never panic and are what the model
    says, for every sequence of demultiplexer results whose PES payloads are byte strings**, every page
    number, PID and way the pass ended -/
theorem teletext_read_checked (page pid : Nat) (pass : List Teletext.Data) (endOk : Bool) (h : ∀ d ∈ pass, DataOk d) :
    readLoopC page pid pass endOk = .ok (Teletext.readLoop page pid pass endOk) :=
  readLoopC_eq page pid pass endOk h

open Tot.Teletext in
example : ∀ d ∈ [Teletext.Data.pes 256 (some 189) (some 0) none [0x10, 0x03, 0x01, 0xff], .nil, .other], DataOk d := by
  intro d hd
  simp at hd
  rcases hd with rfl | rfl | rfl
  · show Bytes256 _; decide
  · trivial
  · trivial

open Tot.Teletext in
/-- the same for the hook driver the harness compares with (`VerifTeletextRun`) -/
theorem teletext_run_checked (page : Nat) (pes : List (Int × List Nat)) (h : ∀ p ∈ pes, Bytes256 p.2) :
    runPESC page pes = .ok (Teletext.runPES page pes) :=
  runPESC_eq page pes h

/-! ## SubRip and WebVTT (`srt.go`, `webvtt.go`) -/

/-- a string that contains the separator splits into at least two parts: `s1[1]` after
    `strings.Contains(line, "-->")` is in range, the catch-all error arm of the models is dead code -/
theorem split_after_contains (sep s : Go.Str) (hsep : sep ≠ []) (hc : Go.contains sep s = true) :
    2 ≤ (Go.splitOn sep s).length :=
  splitOn_length_of_contains sep s hsep hc

/-- **`ReadFromSRT` never panics and is what the model says, for every list of scanned lines**
    (`none` = a line that is not valid UTF-8).  Checked: `s1[0]`, `s1[1]`, `s2[0]`.  Guards used: the
    branch is entered only when the line contains `-->`; `len(s2) == 0` ⇒ error (repair of D4). -/
theorem srt_read_checked (lines : List (Option Go.Str)) : Tot.SRT.readC lines = .ok (SRT.read lines) :=
  Tot.SRT.readC_eq lines

/-- the `len(s2) == 0` guard is necessary: without it a line with nothing after `-->` panics -/
theorem srt_needs_field_guard : (timingUnguardedC "00:00:01,000 -->".toList).safe = false :=
  timing_unguarded_panics

/-- **`ReadFromWebVTT` never panics and is what the model says, for every list of scanned lines.**
    Checked: `left[0]`, `left[1]`, `right[0]`, `right[1:]` of the timing line; `split[0]`, `split[1]` of every
    cue setting, of every part of a `Region: ` line, of `X-TIMESTAMP-MAP=…` and of each of its parts.
    Guards used: contains `-->`; `len(right) == 0` ⇒ error; `len(split) <= 1` ⇒ error (four places). -/
theorem vtt_read_checked (lines : List (Option Go.Str)) : Tot.VTT.readC lines = .ok (VTT.read lines) :=
  Tot.VTT.readC_eq lines

/-! ## SSA / ASS (`ssa.go`) -/

/-- **`ReadFromSSA` never panics and is what the model says, for every list of scanned lines.**
    Checked: `line[1:len(line)-1]` of a section line, `line[0]` and `line[1:]` of a comment line, `split[0]`
    and `split[1:]` of a `key: value` line, `items[len(format)-1:]`, `items[len(format)-1] = …`,
    `items[:len(format)]` and every `format[idx]` of `newSSAEventFromString`, every `format[idx]` of
    `newSSAStyleFromString`.  Guards used: empty line ⇒ continue; `[` … `]` are two characters;
    `len(split) < 2` ⇒ continue; `len(format) == 0` ⇒ error; `len(items) < len(format)` ⇒ error (events);
    `len(items) != len(format)` ⇒ error (styles). -/
theorem ssa_read_checked (lines : List Go.Str) : Tot.SSA.readC lines = .ok (SSA.read lines) :=
  Tot.SSA.readC_eq lines

/-- `newSSAEventFromString` for every header, content and non-empty Format -/
theorem ssa_event_row_checked (header content : Go.Str) (format : List Go.Str) (hf : format ≠ []) :
    Tot.SSA.eventRowC header content format = .ok (SSA.eventRow header content format) :=
  Tot.SSA.eventRowC_eq header content format hf

example : (["Start".toList, "End".toList, "Text".toList] : List Go.Str) ≠ [] := by simp

/-- the `len(format) == 0` check of the caller is necessary: with an empty Format the row parser slices at -1 -/
theorem ssa_event_row_needs_format (header content : Go.Str) : (Tot.SSA.eventRowC header content []).safe = false :=
  Tot.SSA.eventRowC_no_format header content

/-- `newSSAStyleFromString` for every content and every Format -/
theorem ssa_style_row_checked (content : Go.Str) (format : List Go.Str) :
    Tot.SSA.styleRowC content format = .ok (SSA.styleRow content format) :=
  Tot.SSA.styleRowC_eq content format

/-! ## the writers: the only error is the empty cue list -/

/-- `WriteToSRT` refuses exactly the empty list (for any metadata, styles, regions, attributes, text) -/
theorem srt_write_refuses_iff (s : Subs) : SRT.write s = none ↔ s.items = [] := Tot.Write.srt_none_iff s

/-- `WriteToWebVTT` refuses exactly the empty list -/
theorem vtt_write_refuses_iff (s : Subs) : VTT.write s = none ↔ s.items = [] := Tot.Write.vtt_none_iff s

/-- `WriteToTTML` refuses exactly the empty list -/
theorem ttml_write_refuses_iff (s : Subs) : TTML.write s = none ↔ s.items = [] := Tot.Write.ttml_none_iff s

/-- `WriteToSSA` refuses exactly the empty list -/
theorem ssa_write_refuses_iff (s : Subs) : SSA.write s = .err ↔ s.items = [] := Tot.Write.ssa_err_iff s

/-- … and otherwise answers bytes, or lies outside the modelled domain (negative times, a float the
    shortest-float model does not cover) -/
theorem ssa_write_answers (s : Subs) (h : s.items ≠ []) : (∃ b, SSA.write s = .ok b) ∨ SSA.write s = .unmodelled :=
  Tot.Write.ssa_answers s h

/-- `WriteToSTL` refuses exactly the empty list (any metadata or none) -/
theorem stl_write_refuses_iff (now : STL.Date) (md : Option STL.Meta) (cues : List STL.WCue) :
    (match STL.write now md cues with | .err => True | _ => False) ↔ cues = [] :=
  Tot.Write.stl_err_iff now md cues

/-- … and inside the modelled domain answers the GSI block followed by one TTI block per cue -/
theorem stl_write_answers (now : STL.Date) (md : Option STL.Meta) (cues : List STL.WCue) (h : cues ≠ [])
    (hu : STL.writeUnmodelled md cues = false) :
    (match STL.write now md cues with | .ok b => b = STL.writeBody now md cues | _ => False) :=
  Tot.Write.stl_ok now md cues h hu

end C08tot
end Astisub
