import Astisub.Lemmas.OvfOps
import Astisub.Lemmas.OvfDuration
import Astisub.Lemmas.OvfTTML
import Astisub.Lemmas.OvfLinCorr
import Astisub.Lemmas.OvfRoundTrip
import Astisub.Props.C09
import Astisub.Props.C10
import Astisub.Props.C14

/-!
# C09–C16 (overflow) — no `int64` wrap-around inside the properties' ranges

The transformation models (`Model/Ops.lean`, `Model/LinCorr.lean`) and the timestamp codecs
(`Model/Duration.lean`, the time expressions of `Model/TTML.lean`) compute in unbounded `Int`; the Go
code computes in `time.Duration` / `int` = `int64`, where `+`, `-`, `*` wrap around silently. The
level notes of C09 … C16 say "overflow excluded by range". This file makes that a theorem.

For every operation `op` there is a *wrapping* evaluation `opW` (`Lemmas/Ovf*.lean`): the same control
flow, every `+`, `-`, `*` and every conversion of an intermediate reduced into `[-2^63, 2^63)`
(`Ovf.wrap`), divisions and remainders Go's truncated ones. Each headline theorem has the form

    RangeOK inputs → opW inputs = op inputs

with `RangeOK` an explicit **decidable** predicate — first the *exact* condition ("these particular
sums are representable"), then a generous symmetric corollary (everything within ±2^61 ns ≈ 73 years;
the properties quantify over `[0, 100 h)` resp. `[0, 24 h]`). Each is accompanied by a concrete value
satisfying the predicate and by a kernel-checked input just outside on which `opW` and `op` differ, so
the hypothesis can be neither vacuous nor dropped. The `…_fits` theorems add that the *results* are
`int64` instants again, so the statements compose along a chain of operations.
-/

namespace Astisub
namespace C09ovf
open Ops Ovf Go

/-- the instants the properties quantify over — `[0, 100 h)` and shifts of at most ±100 h — are far inside
    the ±2^61 ns range of the corollaries below -/
theorem property_range_in61 (x : Int) (h : -360000000000000 ≤ x ∧ x ≤ 360000000000000) : In61 x := by
  unfold In61; omega

/-! ## C09 — `Subtitles.Add` -/

/-- **Add, exact.** If for every cue both shifted boundaries `start + d`, `end + d` are `int64`
    values, the `int64` evaluation of `Add` (two wrapping additions per cue, then comparisons with 0)
    returns exactly what the unbounded model returns. -/
theorem add_no_overflow (d : Int) (xs : List Item) (h : AddOK d xs) : addW d xs = add d xs :=
  addW_eq d xs h

/-- **Add, generous range.** A shift within ±2^61 ns of cues within ±2^61 ns never wraps. -/
theorem add_no_overflow_range (d : Int) (xs : List Item) (hd : In61 d) (hx : AllIn61 xs) :
    addW d xs = add d xs :=
  addW_eq d xs (addOK_of_in61 hd hx)

/-- … and every boundary of the result is an `int64` again. -/
theorem add_result_fits (d : Int) (xs : List Item) (h : AddOK d xs) : AllFit (add d xs) := add_fits h

/-- Hence the main theorem of C09 holds for the `int64` evaluation: on a well-formed list in range,
    Go's wrapping `Add` returns exactly the surviving cues, shifted and clamped. -/
theorem add_int64_spec (d : Int) (xs : List Item) (hw : Spec.WF xs) (h : AddOK d xs) :
    addW d xs = Spec.addSpec d xs := by
  rw [addW_eq d xs h]; exact C09.add_spec d xs hw

/-- The range hypothesis cannot be dropped: there are an `int64` shift and a list of `int64`
    instants on which the `int64` evaluation differs from the model (the end wraps to `MinInt64`,
    the cue is deleted). -/
theorem add_range_needed : ∃ (d : Int) (xs : List Item), fits64 d ∧ AllFit xs ∧ addW d xs ≠ add d xs :=
  ⟨1, [{ uid := 1, startAt := 9223372036854775806, endAt := 9223372036854775807, lines := [], pay := 0 }],
    by decide⟩

/-! ## C10 — `Subtitles.Fragment` -/

/-- **Fragment, per-cue bounds.** If every cue has an `int64` start, `start + f < 2^63` (the first boundary)
    and `end + f ≤ 2^63` (the increment after the last cut), the `int64` evaluation — `s - s%f`, the
    conditional `+= f`, and `boundary += f` on every iteration — equals the unbounded model. -/
theorem fragment_no_overflow (f : Int) (xs : List Item) (h : FragOK f xs) : fragmentW f xs = fragment f xs :=
  fragmentW_eq f xs h

/-- **Fragment, generous range.** Fragment length and all instants within ±2^61 ns. -/
theorem fragment_no_overflow_range (f : Int) (xs : List Item) (hf : In61 f) (hx : AllIn61 xs) :
    fragmentW f xs = fragment f xs :=
  fragmentW_eq f xs (fragOK_of_in61 hf hx)

/-- Hence C10's characterisation holds for the `int64` evaluation: the result consists exactly of the
    pieces of the original cues. -/
theorem fragment_int64_pieces (f : Int) (hf : 0 < f) (xs : List Item) (h : FragOK f xs) (p : Item) :
    p ∈ fragmentW f xs ↔ ∃ it ∈ xs, p ∈ cut f it := by
  rw [fragmentW_eq f xs h]; exact C10.fragment_pieces f hf xs p

/-- The first boundary alone: `(start / f + 1) * f` is reached without wrapping when `start + f < 2^63`. -/
theorem first_boundary_no_overflow (f s : Int) (hs : fits64 s) (hsf : s + f < 9223372036854775808) (hf : 0 < f) :
    firstBoundaryW f s = firstBoundary f s :=
  firstBoundaryW_eq hs hsf hf

/-- Every piece `Fragment` produces has `int64` boundaries — for **every** list of `int64` instants,
    no range condition (the cut points lie inside the cue). -/
theorem fragment_result_fits (f : Int) (xs : List Item) (h : AllFit xs) : AllFit (fragment f xs) :=
  fragment_fits f h

/-- The bound `end + f ≤ 2^63` is sharp: at `end + f = 2^63 + 1` the increment after the first cut
    wraps to `MinInt64`, Go cuts again, and the results differ. -/
theorem fragment_range_sharp : ∃ (f : Int) (it : Item), fits64 f ∧ AllFit [it] ∧
    it.endAt + f = 9223372036854775808 + 1 ∧ (cutW f it).length ≠ (cut f it).length :=
  ⟨4611686018427387904, { uid := 1, startAt := 0, endAt := 4611686018427387905, lines := [], pay := 0 },
    by decide⟩

/-! ## C11 / C12 — `Unfragment`, `Order`, `Merge` -/

/-- **Order** only compares start instants: its `int64` evaluation is the model itself. -/
theorem order_no_arithmetic (xs : List Item) : orderW xs = order xs := rfl

/-- **Merge** appends and orders: no arithmetic. -/
theorem merge_no_arithmetic (a b : List Item) : mergeItemsW a b = mergeItems a b := rfl

/-- **Unfragment** orders, compares instants and copies an end (`EndAt = other.EndAt`): no arithmetic. -/
theorem unfragment_no_arithmetic (xs : List Item) : unfragmentW xs = unfragment xs := rfl

/-- `Order` creates no instant that was not in its input: the result is a list of `int64` instants. -/
theorem order_result_fits (xs : List Item) (h : AllFit xs) : AllFit (order xs) := order_fits h
/-- The same for `Merge` of two lists of `int64` instants. -/
theorem merge_result_fits (a b : List Item) (ha : AllFit a) (hb : AllFit b) : AllFit (mergeItems a b) :=
  mergeItems_fits ha hb
/-- The same for `Unfragment`: every start of the result is a start of the input, every end an end of it. -/
theorem unfragment_result_fits (xs : List Item) (h : AllFit xs) : AllFit (unfragment xs) := unfragment_fits h

/-! ## C14 — `Subtitles.ForceDuration` -/

/-- **ForceDuration, exact.** Its only arithmetic is the start `d - 1 ms` of the filler cue; if that
    is an `int64`, the `int64` evaluation equals the unbounded model (any list, either flag). -/
theorem forceDuration_no_overflow (d : Int) (addDummy : Bool) (xs : List Item) (h : ForceOK d) :
    forceDurationW d addDummy xs = forceDuration d addDummy xs :=
  forceDurationW_eq d addDummy xs h

/-- **ForceDuration, generous range.** Any requested duration within ±2^61 ns. -/
theorem forceDuration_no_overflow_range (d : Int) (addDummy : Bool) (xs : List Item) (hd : In61 d) :
    forceDurationW d addDummy xs = forceDuration d addDummy xs :=
  forceDurationW_eq d addDummy xs (forceOK_of_in61 hd)

/-- Hence the main theorem of C14 holds for the `int64` evaluation. -/
theorem forceDuration_int64_spec (d : Int) (b : Bool) (xs : List Item) (ho : Spec.Ordered xs) (hw : Spec.WF xs)
    (h : ForceOK d) : forceDurationW d b xs = Spec.forceDurationSpec d b xs := by
  rw [forceDurationW_eq d b xs h]; exact C14.forceDuration_spec d b xs ho hw

/-- The result of `ForceDuration` is a list of `int64` instants again (filler included). -/
theorem forceDuration_result_fits (d : Int) (addDummy : Bool) (xs : List Item) (hd : fits64 d) (h : ForceOK d)
    (hx : AllFit xs) : AllFit (forceDuration d addDummy xs) :=
  forceDuration_fits hd h addDummy hx

/-- The hypothesis cannot be dropped: within a millisecond of `MinInt64` the filler's start wraps. -/
theorem forceDuration_range_needed : ∃ (d : Int) (xs : List Item), fits64 d ∧ AllFit xs ∧
    forceDurationW d true xs ≠ forceDuration d true xs :=
  ⟨-9223372036854775807,
    [{ uid := 1, startAt := -9223372036854775808, endAt := -9223372036854775808, lines := [], pay := 0 }],
    by decide⟩

/-! ## C15 — `Subtitles.ApplyLinearCorrection` -/

/-- **The `int64` subtractions fit.** With the four reference instants and `t` within a day,
    `d2 - d1`, `a2 - a1` (computed by the code) and `t - a1` (of the exact formula) are `int64` values. -/
theorem lincorr_differences_fit (a1 d1 a2 d2 t : ℤ)
    (ht : |(t : ℚ)| ≤ C15.day) (ha1 : |(a1 : ℚ)| ≤ C15.day) (hd1 : |(d1 : ℚ)| ≤ C15.day)
    (ha2 : |(a2 : ℚ)| ≤ C15.day) (hd2 : |(d2 : ℚ)| ≤ C15.day) :
    fits64 (d2 - d1) ∧ fits64 (a2 - a1) ∧ fits64 (t - a1) :=
  differences_fit a1 d1 a2 d2 t ht ha1 hd1 ha2 hd2

/-- **The two float → `int64` conversions are in range.** Under the hypotheses of
    `C15float.close_exec` the float `a*float64(t)` truncates to less than 4 days and the intercept to
    less than 6 days of nanoseconds, so `time.Duration(·)` is defined (Go leaves the conversion of an
    out-of-range float implementation-defined). -/
theorem lincorr_conversions_in_range (a1 d1 a2 d2 t : ℤ)
    (ht : |(t : ℚ)| ≤ C15.day) (ha1 : |(a1 : ℚ)| ≤ C15.day) (hd1 : |(d1 : ℚ)| ≤ C15.day)
    (hs : |((d2 - d1 : ℤ) : ℚ) / ((a2 - a1 : ℤ) : ℚ)| ≤ 2) :
    |(Dy.mul (LinCorr.slope a1 d1 a2 d2) (Dy.ofInt t)).trunc| ≤ 345600000000000 ∧
    |LinCorr.intercept a1 d1 a2 d2| ≤ 518400000000000 :=
  trunc_bounds a1 d1 a2 d2 t ht ha1 hd1 hs

/-- **Linear correction, one instant.** Under the hypotheses of `close_exec` and with representable
    reference differences, the `int64` evaluation (wrapping subtractions and addition, conversions
    defined only in range) is defined and equals the unbounded model. -/
theorem lincorr_no_overflow (a1 d1 a2 d2 t : ℤ)
    (ht : |(t : ℚ)| ≤ C15.day) (ha1 : |(a1 : ℚ)| ≤ C15.day) (hd1 : |(d1 : ℚ)| ≤ C15.day)
    (hs : |((d2 - d1 : ℤ) : ℚ) / ((a2 - a1 : ℤ) : ℚ)| ≤ 2)
    (hD : fits64 (d2 - d1)) (hA : fits64 (a2 - a1)) :
    apply1W a1 d1 a2 d2 t = some (LinCorr.apply1 a1 d1 a2 d2 t) :=
  apply1W_eq a1 d1 a2 d2 t ht ha1 hd1 hs hD hA

/-- **Linear correction, whole list, the property's range**: all four reference instants and every
    cue boundary within a day, exact slope of magnitude ≤ 2. -/
theorem lincorr_no_overflow_day (a1 d1 a2 d2 : ℤ) (xs : List Item)
    (hx : ∀ it ∈ xs, |(it.startAt : ℚ)| ≤ C15.day ∧ |(it.endAt : ℚ)| ≤ C15.day)
    (ha1 : |(a1 : ℚ)| ≤ C15.day) (hd1 : |(d1 : ℚ)| ≤ C15.day)
    (ha2 : |(a2 : ℚ)| ≤ C15.day) (hd2 : |(d2 : ℚ)| ≤ C15.day)
    (hs : |((d2 - d1 : ℤ) : ℚ) / ((a2 - a1 : ℤ) : ℚ)| ≤ 2) :
    applyW a1 d1 a2 d2 xs = some (LinCorr.apply a1 d1 a2 d2 xs) := by
  have hf := differences_fit a1 d1 a2 d2 0 (by simp [C15.day]) ha1 hd1 ha2 hd2
  exact applyW_eq a1 d1 a2 d2 xs hx ha1 hd1 hs hf.1 hf.2.1

/-- The corrected instant is itself below 10 days in magnitude. -/
theorem lincorr_result_bound (a1 d1 a2 d2 t : ℤ)
    (ht : |(t : ℚ)| ≤ C15.day) (ha1 : |(a1 : ℚ)| ≤ C15.day) (hd1 : |(d1 : ℚ)| ≤ C15.day)
    (hs : |((d2 - d1 : ℤ) : ℚ) / ((a2 - a1 : ℤ) : ℚ)| ≤ 2) :
    |LinCorr.apply1 a1 d1 a2 d2 t| ≤ 864000000000000 :=
  apply1_bound a1 d1 a2 d2 t ht ha1 hd1 hs

/-- The slope hypothesis cannot be dropped: with `int64` arguments and a slope of 2^62 a conversion is
    out of range (undefined in Go) while the model returns 2^64. -/
theorem lincorr_range_needed : ∃ (a1 d1 a2 d2 t : Int), fits64 a1 ∧ fits64 d1 ∧ fits64 a2 ∧ fits64 d2 ∧ fits64 t ∧
    apply1W a1 d1 a2 d2 t = none ∧ ¬ fits64 (LinCorr.apply1 a1 d1 a2 d2 t) :=
  ⟨0, 0, 1, 4611686018427387904, 4, by decide⟩

/-! ## C16 — timestamp codecs -/

/-- `strconv.Atoi` hands the parsers `int64` values (the model's range check). -/
theorem atoi_result_fits (s : Str) (x : Int) (h : atoi s = some x) : fits64 x := atoi_fits h

/-- `Duration.parse` is its two string stages followed by
    `ms·10^k·1e6 + sec·1e9 + min·60e9 + h·3600e9` (an equivalent formulation of the model). -/
theorem parse_stages (i : Str) (sep : Char) (digits : Nat) :
    Duration.parse i sep digits =
      (msPart i sep digits).bind fun p =>
        (hmsPart p.2).map fun q => combine (p.1.1 * (10 : Int) ^ p.1.2) q.1 q.2.1 q.2.2 :=
  parse_eq i sep digits

/-- **parseDuration, exact.** If the fields of the text satisfy `CombineOK` (the scale factor, the
    scaled fraction, the four products and the three partial sums are `int64` values) the `int64`
    evaluation equals the unbounded model; a text without fields is an error in both. -/
theorem parse_no_overflow (i : Str) (sep : Char) (digits : Nat) (h : ParseOK i sep digits) :
    parseW i sep digits = Duration.parse i sep digits :=
  parseW_eq i sep digits h

/-- **parseDuration, clock-shaped texts.** With three fraction digits (every caller), whatever the
    fraction field is: seconds and minutes in `[0, 59]` and hours in `[0, 2 562 046]` never wrap. -/
theorem parse_no_overflow_clock (i : Str) (sep : Char)
    (hq : ∀ p q, msPart i sep 3 = some p → hmsPart p.2 = some q →
      (0 ≤ q.1 ∧ q.1 ≤ 59) ∧ (0 ≤ q.2.1 ∧ q.2.1 ≤ 59) ∧ (0 ≤ q.2.2 ∧ q.2.2 ≤ 2562046)) :
    parseW i sep 3 = Duration.parse i sep 3 :=
  parseW_eq_clock i sep hq

/-- … also with sloppy fields (`strconv.Atoi` accepts signs and any number of digits): seconds and
    minutes up to ±10^6, hours up to ±2 000 000. -/
theorem fields_no_overflow_wide (ms : Int) (k : Nat) (sec min h : Int)
    (hk : k ≤ 18) (hms : -999 ≤ ms * (10 : Int) ^ k ∧ ms * (10 : Int) ^ k ≤ 999)
    (hsec : -1000000 ≤ sec ∧ sec ≤ 1000000) (hmin : -1000000 ≤ min ∧ min ≤ 1000000)
    (hh : -2000000 ≤ h ∧ h ≤ 2000000) :
    combineW (scaleW ms k) sec min h = combine (ms * (10 : Int) ^ k) sec min h :=
  combineW_eq (combineOK_wide hk hms hsec hmin hh)

/-- **The hour bound is sharp.** `hours × 3600e9` alone fits exactly for `|hours| ≤ 2 562 047`; … -/
theorem hour_product_bound (h : Int) : fits64 (h * 3600000000000) ↔ -2562047 ≤ h ∧ h ≤ 2562047 :=
  hour_product_fits h

/-- … `2562046:59:59.999` is parsed without wrapping, `2562047:59:59.999` wraps in the last addition
    and Go returns a negative duration. -/
theorem parse_hours_sharp :
    ParseOK "2562046:59:59.999".toList '.' 3 ∧
    parseW "2562047:59:59.999".toList '.' 3 = some (-9223371273710551616) ∧
    Duration.parse "2562047:59:59.999".toList '.' 3 = some 9223372799999000000 := by decide

/-- The per-format wrappers inherit the statement. -/
theorem parseSRT_no_overflow (i : Str) (h1 : ParseOK i ',' 3) (h2 : ParseOK i '.' 3) :
    parseSRTW i = Duration.parseSRT i := parseSRTW_eq i h1 h2
theorem parseVTT_no_overflow (i : Str) (h : ParseOK i '.' 3) : parseVTTW i = Duration.parseVTT i :=
  parseVTTW_eq i h
theorem parseSSA_no_overflow (i : Str) (h : ParseOK i '.' 3) : parseSSAW i = Duration.parseSSA i :=
  parseSSAW_eq i h

/-- **formatDuration cannot overflow**: `/` and `%` by the positive constants hour, minute, second
    keep every intermediate inside `int64`, for every `int64` input … -/
theorem format_no_overflow (t : Int) (ht : fits64 t) :
    fits64 (Int.tdiv t Duration.nsPerH) ∧ fits64 (Int.tmod t Duration.nsPerH) ∧
    fits64 (Int.tdiv (Int.tmod t Duration.nsPerH) Duration.nsPerMin) ∧ fits64 (Int.tmod t Duration.nsPerMin) ∧
    fits64 (Int.tdiv (Int.tmod t Duration.nsPerMin) Duration.nsPerS) ∧ fits64 (Int.tmod t Duration.nsPerS) :=
  format_steps_fit ht

/-- … and for `t ≥ 0` Go's truncated `/`, `%` on `int64` give the digits of the (natural-number) model. -/
theorem format_int64_eq (t : Int) (sep : Char) (digits : Nat) (ht : fits64 t) (h0 : 0 ≤ t) :
    formatW t sep digits = Duration.format t sep digits :=
  formatW_eq t sep digits ht h0

/-- **The round trip of C16 holds in `int64`** (SubRip, WebVTT, TTML clock times): for every instant
    in `[0, 100 h)`, writing with wrapping `/`, `%` and reading back with wrapping products and sums
    gives the instant truncated to the millisecond. -/
theorem roundtrip_int64_ms (t : Int) (sep : Char) (hsep : sep = '.' ∨ sep = ',')
    (h0 : 0 ≤ t) (h1 : t < 360000000000000) :
    parseW (formatW t sep 3) sep 3 = some (t - t % 1000000) :=
  parseW_formatW3 t sep hsep h0 h1

/-- … and for SSA / ASS (two digits written, read at the three-digit scale): truncated to the centisecond. -/
theorem roundtrip_int64_cs (t : Int) (sep : Char) (hsep : sep = '.' ∨ sep = ',')
    (h0 : 0 ≤ t) (h1 : t < 360000000000000) :
    parseW (formatW t sep 2) sep 3 = some (t - t % 10000000) :=
  parseW_formatW2 t sep hsep h0 h1

/-- In general `/` by a positive divisor and `%` by any non-zero `int64` divisor cannot overflow
    (the only overflowing quotient is `MinInt64 / -1`). -/
theorem div_mod_no_overflow (a c : Int) (ha : fits64 a) (hc : fits64 c) (hpos : 0 < c) :
    fits64 (Int.tdiv a c) ∧ fits64 (Int.tmod a c) :=
  ⟨fits64_tdiv ha hpos, fits64_tmod hc (by omega)⟩

/-- **STL frames → ns, exact**: `1e9*frames`, `+ framerate`, `- 1` representable, rate positive. -/
theorem stl_frames_no_overflow (ceil : Bool) (f fr : Int) (h : FramesOK f fr) :
    framesToNsW ceil f fr = Duration.framesToNs ceil f fr :=
  framesToNsW_eq ceil h

/-- **parseDurationSTL never wraps**, for every text and every frame rate in `(0, 2^31]`: its four
    fields have two characters, i.e. lie in `[-9, 99]`. -/
theorem stl_parse_no_overflow (ceil : Bool) (i : Str) (fr : Int) (hr : 0 < fr ∧ fr ≤ 2147483648) :
    parseSTLW ceil i fr = Duration.parseSTL ceil i fr :=
  parseSTLW_eq ceil i fr hr

/-- **parseDurationSTLBytes never wraps** on four bytes. -/
theorem stl_bytes_no_overflow (ceil : Bool) (b : List Nat) (fr : Int) (hb : BytesOK b)
    (hr : 0 < fr ∧ fr ≤ 2147483648) : parseSTLBytesW ceil b fr = Duration.parseSTLBytes ceil b fr :=
  parseSTLBytesW_eq ceil b fr hb hr

/-- **The STL formatters never wrap** for `0 ≤ t` and a frame rate up to 2^33: the chain
    `d -= Duration(delta) * unit` and `int(d.Nanoseconds()) * framerate / 1e9` in `int64` give exactly
    the hour, minute, second and frame fields of the integer model. -/
theorem stl_format_no_overflow (t : Int) (fr : Nat) (ht : fits64 t) (h0 : 0 ≤ t) (hr : fr ≤ 8589934592) :
    stlFieldsW t fr = (((stlFields t fr).1 : Int), ((stlFields t fr).2.1 : Int),
      ((stlFields t fr).2.2.1 : Int), ((stlFields t fr).2.2.2 : Int)) :=
  stlFieldsW_eq t fr ht h0 hr

/-- The frame-rate bound cannot be dropped (2^34 frames per second wrap the product). -/
theorem stl_format_range_needed : ∃ (t : Int) (fr : Nat), fits64 t ∧ 0 ≤ t ∧
    (stlFieldsW t fr).2.2.2 ≠ ((stlFields t fr).2.2.2 : Int) :=
  ⟨999999999, 17179869184, by decide⟩

/-- **TTML time expressions, exact**: the big-integer quotient that `v.Int64()` converts fits and so
    does its sum with the clock part. -/
theorem ttml_duration_no_overflow (d : TTML.InDur) (fr tr : Int) (h : DurOK d fr tr) :
    durationW d fr tr = TTML.duration d fr tr :=
  durationW_eq d fr tr h

/-- **TTML time expressions, generous range**: clock part within ±2^62 ns, at most 2^32 whole frames
    or ticks, digit fractions; any rates. -/
theorem ttml_duration_no_overflow_range (d : TTML.InDur) (fr tr : Int) (h : DurRange d) :
    durationW d fr tr = TTML.duration d fr tr :=
  durationW_eq d fr tr (durOK_of_range h fr tr)

/-- `ttmlOffsetDuration` (`12.5s`, `3h` …) cannot wrap at all: the product is a big integer and the
    explicit `IsInt64` guard turns anything too large into an error. -/
theorem ttml_offset_guarded (ip fp m : Str) (v : Int) (h : TTML.offsetDuration ip fp (TTML.timebase m) = some v) :
    fits64 v :=
  offsetDuration_fits h

/-- Outside it the unguarded `v.Int64()` keeps the low 64 bits: 10^10 ticks at 1 tick/s. -/
theorem ttml_duration_range_needed : ∃ (d : TTML.InDur) (fr tr : Int), fits64 d.ticks ∧
    durationW d fr tr ≠ TTML.duration d fr tr :=
  ⟨{ ticks := 10000000000 }, 0, 1, by decide⟩

end C09ovf
end Astisub
