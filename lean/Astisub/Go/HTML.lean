import Astisub.Go.Strings

/-!
# Go/HTML — partial model of the `golang.org/x/net/html` tokenizer (pinned version)

`tokenize : Str → Option (List Tok)`, written from `token.go` (`Next`, `readStartTag`, `readTag`,
`readTagName`, `readTagAttrKey`, `readTagAttrVal`).  It covers text, start / end /
self-closing tags with attributes, `</>`, `<?…>` and `</x…>` bogus comments.  It answers `none`
("unmodelled") for what the package's callers never need and the model does not attempt:
`<!…` markup declarations, the raw-text elements (`script style iframe noembed noframes noscript
plaintext textarea title xmp`), attribute values containing `&` (entity decoding), NUL bytes.
End of input inside a tag yields no token for it and ends the stream, as in the library.
Validated by the `lib.html` correspondence stream against the real tokenizer.
-/

namespace Astisub
namespace Go

inductive Tok where
  | text (raw : Str)
  | startTag (raw name : Str) (attrs : List (Str × Str))
  | endTag (raw name : Str)
  | selfClosing (raw name : Str) (attrs : List (Str × Str))
  | other (raw : Str)                       -- comment-like tokens: ignored by every caller
  deriving Repr, DecidableEq

def isTagWS (c : Char) : Bool := c == ' ' || c == '\n' || c == '\r' || c == '\t' || c == '\x0c'
def isLetter (c : Char) : Bool := ('a' ≤ c && c ≤ 'z') || ('A' ≤ c && c ≤ 'Z')

/-- the attribute loop of `readTag`, positioned after the tag name and white space.
    `none` = end of input inside the tag; `some (attrs, rest)` with `rest` after the closing `>` -/
def readAttrs : Nat → Str → List (Str × Str) → Option (List (Str × Str) × Str)
  | 0, _, _ => none
  | _ + 1, [], _ => none
  | _ + 1, '>' :: r, acc => some (acc.reverse, r)
  | fuel + 1, s, acc =>
    -- readTagAttrKey
    let key := s.takeWhile fun c => !(isTagWS c || c == '/' || c == '=' || c == '>')
    let r1 := s.drop key.length
    match r1 with
    | [] => none
    | c :: r1' =>
      let afterKey := if c == '=' || c == '>' then c :: r1' else r1'   -- ws and '/' are consumed
      -- readTagAttrVal
      let r2 := afterKey.dropWhile isTagWS
      match r2 with
      | [] => none
      | '=' :: r3 =>
        let r4 := r3.dropWhile isTagWS
        match r4 with
        | [] => none
        | '>' :: _ =>
          let acc' := if key.isEmpty then acc else (key, []) :: acc
          readAttrs fuel r4 acc'
        | q :: r5 =>
          if q == '"' || q == '\'' then
            let v := r5.takeWhile (· != q)
            let r6 := r5.drop v.length
            match r6 with
            | [] => none
            | _ :: r7 =>
              let acc' := if key.isEmpty then acc else (key, v) :: acc
              let r8 := r7.dropWhile isTagWS
              if r8.isEmpty then none else readAttrs fuel r8 acc'
          else
            let v := (q :: r5).takeWhile fun c => !(isTagWS c || c == '>')
            let r6 := (q :: r5).drop v.length
            match r6 with
            | [] => none
            | c :: r7 =>
              let r8 := (if c == '>' then c :: r7 else r7).dropWhile isTagWS
              let acc' := if key.isEmpty then acc else (key, v) :: acc
              if r8.isEmpty then none else readAttrs fuel r8 acc'
      | _ =>
        let acc' := if key.isEmpty then acc else (key, []) :: acc
        let r3 := r2   -- the byte that was not '=' is unread; skipWhiteSpace already done
        readAttrs fuel r3 acc'

/-- `readTag` after `<a` / `</a`: `s` starts at the first letter of the name -/
def readTag (s : Str) : Option (Str × List (Str × Str) × Str) :=
  let name := s.takeWhile fun c => !(isTagWS c || c == '/' || c == '>')
  let r1 := (s.drop name.length).dropWhile isTagWS
  if r1.isEmpty then none else
  match readAttrs (r1.length + 1) r1 [] with
  | some (attrs, rest) => some (name, attrs, rest)
  | none => none

def rawTags : List String :=
  ["iframe", "noembed", "noframes", "noscript", "plaintext", "script", "style", "textarea", "title", "xmp"]

def lowerKV (kv : List (Str × Str)) : List (Str × Str) := kv.map fun (k, v) => (toLowerAscii k, v)

inductive TokRes where
  | ok (toks : List Tok)
  | unmodelled
  deriving Repr

/-- the main loop of `Next`. `acc` is the text accumulated so far (reversed). -/
def tokLoop : Nat → Str → Str → List Tok → TokRes
  | 0, _, _, _ => .unmodelled
  | fuel + 1, s, acc, out =>
    let flush (out : List Tok) : List Tok := if acc.isEmpty then out else .text acc.reverse :: out
    match s with
    | [] => .ok (flush out).reverse
    | c :: rest =>
      if c == '\x00' then .unmodelled else
      if c != '<' then tokLoop fuel rest (c :: acc) out else
      match rest with
      | [] => .ok ((Tok.text (('<' :: acc).reverse)) :: out).reverse     -- '<' at end of input is text
      | d :: rest' =>
        if isLetter d then
          match readTag (d :: rest') with
          | none => .ok (flush out).reverse                            -- EOF inside the tag: ErrorToken
          | some (name, attrs, after) =>
            let raw := (c :: d :: rest').take ((c :: d :: rest').length - after.length)
            let lname := toLowerAscii name
            if rawTags.contains (String.ofList lname) then .unmodelled
            else if attrs.any (fun kv => kv.2.contains '&') then .unmodelled
            else
              let selfc := raw.dropLast.getLast? == some '/'
              let t := if selfc then Tok.selfClosing raw lname (lowerKV attrs) else Tok.startTag raw lname (lowerKV attrs)
              tokLoop fuel after [] (t :: flush out)
        else if d == '/' then
          match rest' with
          | [] => .ok (Tok.text ['<', '/'] :: flush out).reverse   -- "</" at end of input: the pending text first, then "</" as text
          | e :: rest'' =>
            if e == '>' then tokLoop fuel rest'' [] (Tok.other ['<', '/', '>'] :: flush out)
            else if isLetter e then
              match readTag (e :: rest'') with
              | none => .ok (flush out).reverse
              | some (name, _, after) =>
                let raw := (c :: d :: e :: rest'').take ((c :: d :: e :: rest'').length - after.length)
                tokLoop fuel after [] (Tok.endTag raw (toLowerAscii name) :: flush out)
            else
              -- bogus comment: up to and including the next '>' (or the end of input)
              let body := (e :: rest'').takeWhile (· != '>')
              let after := ((e :: rest'').drop body.length).drop 1
              let raw := (c :: d :: e :: rest'').take ((c :: d :: e :: rest'').length - after.length)
              tokLoop fuel after [] (Tok.other raw :: flush out)
        else if d == '!' then .unmodelled
        else if d == '?' then
          let body := (d :: rest').takeWhile (· != '>')
          let after := ((d :: rest').drop body.length).drop 1
          let raw := (c :: d :: rest').take ((c :: d :: rest').length - after.length)
          tokLoop fuel after [] (Tok.other raw :: flush out)
        else tokLoop fuel (d :: rest') ('<' :: acc) out                    -- "<" + anything else is text

def tokenize (s : Str) : TokRes := tokLoop (s.length + 2) s [] []

end Go
end Astisub
