import Astisub.Go.Strconv
import Astisub.Go.Float53

/-!
# Go/Numconv — `strconv.ParseFloat` (plain decimals), `strconv.FormatFloat(·,'f',3|-1,64)`,
`strconv.ParseInt(·, 10|16, 64)`, `fmt.Sprintf("%.8x")`

Floats are carried as their `math.Float64bits` pattern (`Nat`).  Decimal → binary conversion is the
correctly rounded quotient `mant / 10^k` (`Dy.div` on exact integers is round-to-nearest-even);
binary → decimal conversion is exact integer arithmetic on `m · 2^e`.

Partial (answers `unmodelled`): exponents / hex floats / `inf` / `nan` / underscores, strings longer
than 300 characters, results outside the normal range.
-/

namespace Astisub
namespace Go

inductive PF where
  | ok (bits : Nat)
  | err
  | unmodelled
  deriving Repr, DecidableEq

def isDigC (c : Char) : Bool := '0' ≤ c && c ≤ '9'

def natOfDigits (s : Str) : Nat := s.foldl (fun a c => a * 10 + (c.toNat - 48)) 0

/-- unsigned `d*[.d*]` with at least one digit → (mantissa, number of fraction digits) -/
def decimalParts (s : Str) : Option (Nat × Nat) :=
  let ip := s.takeWhile isDigC
  match s.drop ip.length with
  | [] => if ip.isEmpty then none else some (natOfDigits ip, 0)
  | '.' :: fp =>
    if fp.all isDigC && !(ip.isEmpty && fp.isEmpty) then some (natOfDigits (ip ++ fp), fp.length) else none
  | _ => none

/-- bit pattern of a dyadic in the normal range -/
def Dy.bits? (x : Dy) : Option Nat :=
  let n := x.m.natAbs
  if n = 0 then some 0 else
  let exp : Int := x.e + (bitlen n : Int) - 1 + 1023
  if exp < 1 ∨ exp > 2046 then none else some x.bits

/-- the double nearest to `± num / den` (`den > 0`), as bits -/
def ratBits (neg : Bool) (num den : Nat) : Option Nat :=
  if num = 0 then some (if neg then 2 ^ 63 else 0) else
  Dy.bits? (Dy.div { m := if neg then -(num : Int) else (num : Int), e := 0 } { m := (den : Int), e := 0 })

/-- characters that may appear in the float syntaxes this model does not cover -/
def exoticFloatChar (c : Char) : Bool :=
  c = 'e' || c = 'E' || c = 'x' || c = 'X' || c = 'p' || c = 'P' || c = 'i' || c = 'I' || c = 'n' || c = 'N' || c = '_'

/-- `strconv.ParseFloat(s, 64)` -/
def parseFloat (s : Str) : PF :=
  if s.length > 300 then .unmodelled else
  let (neg, body) : Bool × Str :=
    match s with
    | '-' :: r => (true, r)
    | '+' :: r => (false, r)
    | _ => (false, s)
  match decimalParts body with
  | some (mant, k) =>
    match ratBits neg mant (10 ^ k) with
    | some b => .ok b
    | none => .unmodelled
  | none =>
    -- every syntax `ParseFloat` accepts holds a decimal digit, except the words inf / infinity / nan
    -- (any case; the first two with an optional sign): a string with no digit that is none of them is a
    -- syntax error whatever letters it holds
    let low := s.map Char.toLower
    let word := match low with | '-' :: r => r | '+' :: r => r | _ => low
    if s.any exoticFloatChar && (s.any Char.isDigit || word = "inf".toList || word = "infinity".toList || low = "nan".toList)
    then .unmodelled else .err

/-- bits → (negative, m, e) with value `m · 2^e`; `none` for Inf/NaN -/
def decodeBits (b : Nat) : Option (Bool × Nat × Int) :=
  let neg : Bool := decide (b / 2 ^ 63 % 2 = 1)
  let ex : Nat := b / 2 ^ 52 % 2048
  let fr : Nat := b % 2 ^ 52
  if ex = 2047 then none
  else if ex = 0 then some (neg, fr, -1074)
  else some (neg, 2 ^ 52 + fr, (ex : Int) - 1075)

/-- round-half-even of `num / den` -/
def rne (num den : Nat) : Nat :=
  let q := num / den
  let r := num % den
  if 2 * r > den ∨ (2 * r = den ∧ q % 2 = 1) then q + 1 else q

/-- `strconv.FormatFloat(f, 'f', 3, 64)` -/
def formatFloat3 (b : Nat) : Option Str :=
  match decodeBits b with
  | none => none
  | some (neg, m, e) =>
    let n : Nat := if e ≥ 0 then m * 1000 * 2 ^ e.toNat else rne (m * 1000) (2 ^ (-e).toNat)
    some ((if neg then ['-'] else []) ++ itoaNat (n / 1000) ++ '.' :: padLeft0 3 (itoaNat (n % 1000)))

/-- smallest `j ≥ 1` with `num · 10^j ≥ den` (for `num < den`) -/
def leadExp : Nat → Nat → Nat → Nat → Nat
  | 0, _, _, j => j
  | fuel + 1, num, den, j => if num * 10 ^ j ≥ den then j else leadExp fuel num den (j + 1)

/-- decimal point position `dp` of `num/den > 0`: `10^(dp-1) ≤ num/den < 10^dp` -/
def decPoint (num den : Nat) : Int :=
  if num ≥ den then ((itoaNat (num / den)).length : Int) else 1 - (leadExp 400 num den 1 : Int)

/-- the correctly rounded `n`-digit decimal of `num/den`: digits `D` (exactly `n` of them) and point position -/
def roundDigits (num den : Nat) (n : Nat) : Nat × Int :=
  let dp := decPoint num den
  let s : Int := (n : Int) - dp
  let d := if s ≥ 0 then rne (num * 10 ^ s.toNat) den else rne num (den * 10 ^ (-s).toNat)
  if d = 10 ^ n then (10 ^ (n - 1), dp + 1) else (d, dp)

/-- the two `n`-digit decimals around `num/den`, the correctly rounded one first -/
def nearDigits (num den : Nat) (n : Nat) : (Nat × Int) × (Nat × Int) :=
  let dp := decPoint num den
  let s : Int := (n : Int) - dp
  let (a, b) : Nat × Nat := if s ≥ 0 then (num * 10 ^ s.toNat, den) else (num, den * 10 ^ (-s).toNat)
  let fl := a / b
  let r := rne a b
  let norm (d : Nat) : Nat × Int := if d = 10 ^ n then (10 ^ (n - 1), dp + 1) else (d, dp)
  (norm r, norm (if r = fl then fl + 1 else fl))

/-- shortest digits that read back to the same double (search over the digit count).  At each
    count the correctly rounded decimal is tried first and then its neighbour on the other side:
    around a power of two the interval of decimals that read back reaches twice as far above the
    value as below it, so the neighbour can be inside when the nearest is not
    (`ryuDigits32`: `l == c+1 && c < u`, and `central < upper && cup`) -/
def shortestDigits (b num den : Nat) : Nat → Nat → Option (Nat × Nat × Int)
  | 0, _ => none
  | fuel + 1, n =>
    let back (c : Nat × Int) : Bool :=
      let s : Int := c.2 - (n : Int)
      (if s ≥ 0 then ratBits false (c.1 * 10 ^ s.toNat) 1 else ratBits false c.1 (10 ^ (-s).toNat)) = some (b % 2 ^ 63)
    let (c1, c2) := nearDigits num den n
    if back c1 then some (c1.1, n, c1.2)
    else if back c2 then some (c2.1, n, c2.2)
    else shortestDigits b num den fuel (n + 1)

/-- `%f` layout of a digit string with the point at `dp` and `prec` fraction digits -/
def fmtF (ds : Str) (dp : Int) (prec : Nat) : Str :=
  let ip : Str := if dp > 0 then (ds.take dp.toNat) ++ List.replicate (dp.toNat - ds.length) '0' else ['0']
  let fp : Str := (List.range prec).map fun (i : Nat) =>
    let j : Int := dp + (i : Int)
    if 0 ≤ j ∧ j < (ds.length : Int) then ds.getD j.toNat '0' else '0'
  if prec > 0 then ip ++ '.' :: fp else ip

/-- `strconv.FormatFloat(f, 'f', -1, 64)` -/
def formatFloatShortest (b : Nat) : Option Str :=
  match decodeBits b with
  | none => none
  | some (neg, m, e) =>
    let sign : Str := if neg then ['-'] else []
    if m = 0 then some (sign ++ ['0']) else
    let (num, den) : Nat × Nat := if e ≥ 0 then (m * 2 ^ e.toNat, 1) else (m, 2 ^ (-e).toNat)
    match shortestDigits b num den 17 1 with
    | none => none
    | some (d, n, dp) =>
      let ds := itoaNat d
      some (sign ++ fmtF ds dp ((n : Int) - dp).toNat)

/-! ### integers -/

def digitValBase (c : Char) : Option Nat :=
  if '0' ≤ c ∧ c ≤ '9' then some (c.toNat - 48)
  else if 'a' ≤ c ∧ c ≤ 'z' then some (c.toNat - 87)
  else if 'A' ≤ c ∧ c ≤ 'Z' then some (c.toNat - 55)
  else none

def digitsBase (base : Nat) : Str → Nat → Option Nat
  | [], acc => some acc
  | c :: cs, acc =>
    match digitValBase c with
    | some d => if d < base then digitsBase base cs (acc * base + d) else none
    | none => none

/-- `strconv.ParseInt(s, base, 64)` for an explicit base 10 or 16; `none` = error (syntax or range) -/
def parseIntBase (base : Nat) (s : Str) : Option Int :=
  let (neg, body) : Bool × Str :=
    match s with
    | '-' :: r => (true, r)
    | '+' :: r => (false, r)
    | _ => (false, s)
  if body.isEmpty then none else
  match digitsBase base body 0 with
  | none => none
  | some v =>
    if neg then (if v ≤ int64Max + 1 then some (-(v : Int)) else none)
    else (if v ≤ int64Max then some (v : Int) else none)

def hexDigitLower (n : Nat) : Char := if n < 10 then Char.ofNat (48 + n) else Char.ofNat (87 + n)

/-- `fmt.Sprintf("%.8x", uint32)` -/
def hex8 (v : Nat) : Str :=
  [hexDigitLower (v / 0x10000000 % 16), hexDigitLower (v / 0x1000000 % 16), hexDigitLower (v / 0x100000 % 16),
   hexDigitLower (v / 0x10000 % 16), hexDigitLower (v / 0x1000 % 16), hexDigitLower (v / 0x100 % 16),
   hexDigitLower (v / 0x10 % 16), hexDigitLower (v % 16)]

end Go
end Astisub
