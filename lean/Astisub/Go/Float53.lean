/-!
# Go/Float53 — IEEE-754 binary64 arithmetic on the values the package computes

A finite double is a dyadic rational `m · 2^e` with `|m| < 2^53`. `round`, `ofInt`, `mul`, `sub`,
`div` are exact round-to-nearest-even implementations in integer arithmetic; `trunc` is Go's
float→int conversion (toward zero). Valid in the normal range (no overflow / subnormals /
NaN: the transformations only see magnitudes between 2⁻⁶⁰ and 2⁶³).

Validated bit-for-bit against the hardware by the `lib.f53` and `ops.lincorr` streams.
-/

namespace Astisub
namespace Go

structure Dy where
  m : Int
  e : Int
  deriving Repr, DecidableEq, Inhabited

def bitlen (n : Nat) : Nat := if n = 0 then 0 else Nat.log2 n + 1

/-- round a dyadic to 53 significant bits, ties to even -/
def Dy.round (d : Dy) : Dy :=
  let n := d.m.natAbs
  let bl := bitlen n
  if bl ≤ 53 then d else
  let sh := bl - 53
  let q := n / 2 ^ sh
  let r := n % 2 ^ sh
  let half := 2 ^ (sh - 1)
  let q' := if r > half ∨ (r = half ∧ q % 2 = 1) then q + 1 else q
  { m := if d.m < 0 then -(q' : Int) else (q' : Int), e := d.e + sh }

/-- `float64(n)` -/
def Dy.ofInt (n : Int) : Dy := Dy.round { m := n, e := 0 }

/-- `x * y` -/
def Dy.mul (x y : Dy) : Dy := Dy.round { m := x.m * y.m, e := x.e + y.e }

/-- `x - y` -/
def Dy.sub (x y : Dy) : Dy :=
  let e := min x.e y.e
  Dy.round { m := x.m * (2 : Int) ^ (x.e - e).toNat - y.m * (2 : Int) ^ (y.e - e).toNat, e := e }

/-- `x / y` (`y ≠ 0`): quotient with guard bits and a sticky bit, then rounded -/
def Dy.div (x y : Dy) : Dy :=
  let n := x.m.natAbs
  let d := y.m.natAbs
  if n = 0 ∨ d = 0 then { m := 0, e := 0 } else
  let k := 56 + bitlen d - bitlen n      -- natural subtraction: 0 when the quotient is long enough already
  let q := n * 2 ^ k / d
  let r := n * 2 ^ k % d
  let neg := (x.m < 0) != (y.m < 0)
  let m2 : Nat := 2 * q + (if r = 0 then 0 else 1)
  Dy.round { m := if neg then -(m2 : Int) else (m2 : Int), e := x.e - y.e - (k : Int) - 1 }

/-- Go's `int64(x)` / `time.Duration(x)`: toward zero -/
def Dy.trunc (x : Dy) : Int :=
  if x.e ≥ 0 then x.m * (2 : Int) ^ x.e.toNat
  else
    let q := x.m.natAbs / 2 ^ (-x.e).toNat
    if x.m < 0 then -(q : Int) else (q : Int)

/-- the bit pattern `math.Float64bits` would show (normal range, used only for comparison) -/
def Dy.bits (x : Dy) : Nat :=
  let n := x.m.natAbs
  if n = 0 then 0 else
  let bl := bitlen n
  -- normalise to 53 bits
  let mant := if bl ≤ 53 then n * 2 ^ (53 - bl) else n / 2 ^ (bl - 53)
  let exp : Int := x.e + (bl : Int) - 1 + 1023
  let sign : Nat := if x.m < 0 then 2 ^ 63 else 0
  sign + exp.toNat * 2 ^ 52 + (mant - 2 ^ 52)

end Go
end Astisub
