import Astisub.Go.Strings

/-!
# Go/VTTRegex — hand-written recognisers of the two regular expressions of `webvtt.go`

* `webVTTRegexpTag = (</*\s*([^\.\s]+)(\.[^\s/]*)*\s*([^/]*)\s*/*>)` — `tagRe` returns the
  sub-matches 2, 3, 4 of the leftmost-first match (`FindStringSubmatch`), `none` when nothing
  matches.  Greedy operators are tried longest first, exactly as a backtracking matcher would;
  two pieces are used in closed form (justified in the comments): the tail `\s*([^/]*)\s*/*>`
  and the starred group `(\.[^\s/]*)*`, which is equivalent to an optional single iteration
  because `[^\s/]*` already swallows the following dots.
* `webVTTRegexpInlineTimestamp = <((?:\d{2,}:)?\d{2}:\d{2}\.\d{3})>` — `tsAt` recognises one match
  after a `<`; `splitTs` is `FindAllStringSubmatchIndex` turned into the pieces of the text.

Both are validated against `regexp` by the `vtt.tagre` / `vtt.texttok` correspondence streams.
-/

namespace Astisub
namespace Go

/-- `\s` of RE2: `[\t\n\f\r ]` -/
def reWS (c : Char) : Bool := c == ' ' || c == '\t' || c == '\n' || c == '\x0c' || c == '\r'

/-- try `f n`, `f (n-1)`, …, `f 0`: the order in which a greedy operator gives characters back -/
def firstDown {α} (f : Nat → Option α) : Nat → Option α
  | 0 => f 0
  | n + 1 => match f (n + 1) with
    | some a => some a
    | none => firstDown f n

/-- index of the last `>` of a string -/
def lastGt (s : Str) : Option Nat :=
  let r := s.reverse.dropWhile (· != '>')
  if r.isEmpty then none else some (r.length - 1)

/-- `\s*([^/]*)\s*/*>` at the head of `s`: sub-match 4.
    All the white space is given to the first `\s*` (giving some back changes nothing: it would
    be taken by `[^/]*`).  `[^/]*` first takes the whole slash-free run; that succeeds iff the run
    is followed by `/+>` (then `/*` must have matched at least once since the run is maximal).
    Otherwise the group shrinks until a `>` of the run follows it: the last `>` of the run. -/
def tagRest (s : Str) : Option Str :=
  let q := s.dropWhile reWS
  let run := q.takeWhile (· != '/')
  let after := q.drop run.length
  let sl := after.dropWhile (· == '/')
  if sl.length < after.length && sl.head? == some '>' then some run
  else match lastGt run with
    | some g => some (run.take g)
    | none => none

/-- `(\.[^\s/]*)*\s*([^/]*)\s*/*>` at the head of `s`: sub-matches 3 and 4 -/
def tagAfterName (s : Str) : Option (Str × Str) :=
  match s with
  | '.' :: rest =>
    let run := rest.takeWhile fun c => !(reWS c || c == '/')
    match firstDown (fun e => (tagRest (rest.drop e)).map fun g4 => ('.' :: run.take e, g4)) run.length with
    | some r => some r
    | none => (tagRest s).map fun g4 => ([], g4)
  | _ => (tagRest s).map fun g4 => ([], g4)

/-- `([^\.\s]+)…` at the head of `s` -/
def tagFromName (s : Str) : Option (Str × Str × Str) :=
  let run := s.takeWhile fun c => !(c == '.' || reWS c)
  firstDown (fun m => if m = 0 then none else
    (tagAfterName (s.drop m)).map fun (g3, g4) => (run.take m, g3, g4)) run.length

/-- the expression after its leading `<` -/
def tagAt (s : Str) : Option (Str × Str × Str) :=
  firstDown (fun k =>
    let r := s.drop k
    firstDown (fun w => tagFromName (r.drop w)) (r.takeWhile reWS).length) (s.takeWhile (· == '/')).length

/-- `webVTTRegexpTag.FindStringSubmatch(s)[2..4]` -/
def tagRe : Str → Option (Str × Str × Str)
  | [] => none
  | c :: rest =>
    if c == '<' then
      match tagAt rest with
      | some r => some r
      | none => tagRe rest
    else tagRe rest

def isDig (c : Char) : Bool := '0' ≤ c && c ≤ '9'

/-- `\d{2}:\d{2}\.\d{3}>` at the head of `s`: the text before `>` and what follows `>` -/
def msTail (s : Str) : Option (Str × Str) :=
  match s with
  | a :: b :: ':' :: c :: d :: '.' :: e :: f :: g :: '>' :: rest =>
    if isDig a && isDig b && isDig c && isDig d && isDig e && isDig f && isDig g
    then some ([a, b, ':', c, d, '.', e, f, g], rest) else none
  | _ => none

/-- the inline-timestamp expression after its leading `<`: sub-match 1 and the rest of the text -/
def tsAt (s : Str) : Option (Str × Str) :=
  let ds := s.takeWhile isDig
  let withHours : Option (Str × Str) :=
    if ds.length ≥ 2 then
      match s.drop ds.length with
      | ':' :: r => (msTail r).map fun (t, rest) => (ds ++ ':' :: t, rest)
      | _ => none
    else none
  match withHours with
  | some x => some x
  | none => msTail s

/-- all the matches, left to right, not overlapping: the text before the first match and, for
    every match, its sub-match 1 with the text up to the next match (`fuel` > length) -/
def splitTs : Nat → Str → Str × List (Str × Str)
  | 0, _ => ([], [])
  | _ + 1, [] => ([], [])
  | fuel + 1, c :: rest =>
    match (if c == '<' then tsAt rest else none) with
    | some (cap, after) => let r := splitTs fuel after; ([], (cap, r.1) :: r.2)
    | none => let r := splitTs fuel rest; (c :: r.1, r.2)

end Go
end Astisub
