/-!
# Go/Strings — executable models of the `strings`/`unicode` functions the package leans on

Strings are `List Char` (valid UTF-8 text). Each function states which Go function it models.
They are validated against the real functions by the `lib.str` correspondence stream; lemmas
about them live in `Lemmas/Str.lean`.
-/

namespace Astisub
namespace Go

abbrev Str := List Char

/-- `unicode.IsSpace` -/
def isSpace (c : Char) : Bool :=
  let n := c.toNat
  n == 0x20 || (0x09 ≤ n && n ≤ 0x0D) || n == 0x85 || n == 0xA0 || n == 0x1680 ||
  (0x2000 ≤ n && n ≤ 0x200A) || n == 0x2028 || n == 0x2029 || n == 0x202F || n == 0x205F || n == 0x3000

def trimLeft (s : Str) : Str := s.dropWhile isSpace
def trimRight (s : Str) : Str := (s.reverse.dropWhile isSpace).reverse

/-- `strings.TrimSpace` -/
def trimSpace (s : Str) : Str := trimRight (trimLeft s)

/-- `strings.TrimLeftFunc(s, unicode.IsSpace)` -/
def trimLeftSpace (s : Str) : Str := trimLeft s

/-- `strings.Split(s, string(c))` for a one-character separator -/
def splitC (c : Char) : Str → List Str
  | [] => [[]]
  | x :: xs =>
    if x = c then [] :: splitC c xs
    else match splitC c xs with
      | [] => [[x]]
      | h :: t => (x :: h) :: t

/-- `strings.HasPrefix`; returns the rest after the prefix -/
def dropPrefix? : Str → Str → Option Str
  | [], s => some s
  | _ :: _, [] => none
  | p :: ps, x :: xs => if p = x then dropPrefix? ps xs else none

def hasPrefix (p s : Str) : Bool := (dropPrefix? p s).isSome

/-- `strings.TrimPrefix` -/
def trimPrefix (p s : Str) : Str := (dropPrefix? p s).getD s

def hasSuffix (p s : Str) : Bool := hasPrefix p.reverse s.reverse

/-- `strings.Split(s, sep)` for a non-empty separator (`fuel` ≥ length of `s`) -/
def splitOnAux (sep : Str) : Nat → Str → Str → List Str
  | 0, _, acc => [acc.reverse]
  | _ + 1, [], acc => [acc.reverse]
  | fuel + 1, x :: xs, acc =>
    match dropPrefix? sep (x :: xs) with
    | some rest => acc.reverse :: splitOnAux sep fuel rest []
    | none => splitOnAux sep fuel xs (x :: acc)

def splitOn (sep : Str) (s : Str) : List Str :=
  if sep.isEmpty then s.map (fun c => [c]) else splitOnAux sep (s.length + 1) s []

/-- `strings.SplitN(s, sep, 2)` -/
def splitOnce (sep : Str) (s : Str) : List Str :=
  let rec go : Nat → Str → Str → List Str
    | 0, _, acc => [acc.reverse]
    | _ + 1, [], acc => [acc.reverse]
    | fuel + 1, x :: xs, acc =>
      match dropPrefix? sep (x :: xs) with
      | some rest => [acc.reverse, rest]
      | none => go fuel xs (x :: acc)
  if sep.isEmpty then [s] else go (s.length + 1) s []

/-- `strings.Contains` (non-empty needle) -/
def contains (sub s : Str) : Bool :=
  match s with
  | [] => sub.isEmpty
  | x :: xs => hasPrefix sub (x :: xs) || contains sub xs

/-- `strings.Fields` -/
def fieldsAux : Str → Str → List Str
  | [], acc => if acc.isEmpty then [] else [acc.reverse]
  | x :: xs, acc =>
    if isSpace x then (if acc.isEmpty then fieldsAux xs [] else acc.reverse :: fieldsAux xs [])
    else fieldsAux xs (x :: acc)

def fields (s : Str) : List Str := fieldsAux s []

/-- `strings.Join` -/
def join (sep : Str) : List Str → Str
  | [] => []
  | [a] => a
  | a :: b :: rest => a ++ sep ++ join sep (b :: rest)

/-- `strings.ToLower` restricted to ASCII (the package lower-cases section names, extensions and
    tag names; non-ASCII letters are passed through — the harness keeps those inputs ASCII) -/
def toLowerAscii (s : Str) : Str :=
  s.map fun c => if 'A' ≤ c ∧ c ≤ 'Z' then Char.ofNat (c.toNat + 32) else c

/-- `strings.ReplaceAll(s, old, new)` for non-empty `old` -/
def replaceAll (old new : Str) (s : Str) : Str := join new (splitOn old s)

/-- first pair (in argument order) whose pattern is a prefix of `s`: its replacement and the pattern length -/
def matchPair (pairs : List (Str × Str)) (s : Str) : Option (Str × Nat) :=
  pairs.findSome? fun p => if hasPrefix p.1 s then some (p.2, p.1.length) else none

/-- `strings.NewReplacer(pairs…).Replace`: scanning left to right, at each position the first pair
    (in argument order) whose pattern matches is applied and the scan resumes after the match (all
    patterns non-empty). `skip` counts the characters of the current match still to be passed. -/
def replGo (pairs : List (Str × Str)) : Str → Nat → Str
  | [], _ => []
  | _ :: xs, skip + 1 => replGo pairs xs skip
  | x :: xs, 0 =>
    match matchPair pairs (x :: xs) with
    | some (rep, n) => rep ++ replGo pairs xs (n - 1)
    | none => x :: replGo pairs xs 0

def replacer (pairs : List (Str × Str)) (s : Str) : Str := replGo pairs s 0

end Go
end Astisub
