import Astisub.Go.Strings

/-!
# Go/Strconv — `strconv.Itoa`, `strconv.Atoi`, digit helpers
-/

namespace Astisub
namespace Go

def digitChar (n : Nat) : Char := Char.ofNat (48 + n)

def itoaAux : Nat → Nat → Str → Str
  | 0, _, acc => acc
  | fuel + 1, n, acc =>
    if n < 10 then digitChar n :: acc else itoaAux fuel (n / 10) (digitChar (n % 10) :: acc)

/-- `strconv.Itoa` on a natural number -/
def itoaNat (n : Nat) : Str := itoaAux (n + 1) n []

/-- `strconv.Itoa` -/
def itoa (i : Int) : Str := if i < 0 then '-' :: itoaNat i.natAbs else itoaNat i.toNat

def digitVal (c : Char) : Option Nat :=
  if '0' ≤ c ∧ c ≤ '9' then some (c.toNat - 48) else none

def digitsVal : Str → Nat → Option Nat
  | [], acc => some acc
  | c :: cs, acc =>
    match digitVal c with
    | some d => digitsVal cs (acc * 10 + d)
    | none => none

def parseDigits (s : Str) : Option Nat := if s.isEmpty then none else digitsVal s 0

def int64Max : Nat := 9223372036854775807

/-- `strconv.Atoi` (64-bit `int`): optional sign, then decimal digits only; out of range is an error -/
def atoi (s : Str) : Option Int :=
  match s with
  | '-' :: r => match parseDigits r with
    | some v => if v ≤ int64Max + 1 then some (-(v : Int)) else none
    | none => none
  | '+' :: r => match parseDigits r with
    | some v => if v ≤ int64Max then some (v : Int) else none
    | none => none
  | _ => match parseDigits s with
    | some v => if v ≤ int64Max then some (v : Int) else none
    | none => none

/-- value of the leading run of decimal digits -/
def leadVal : Str → Nat → Nat
  | [], acc => acc
  | c :: cs, acc =>
    match digitVal c with
    | some d => leadVal cs (acc * 10 + d)
    | none => acc

def uint64Max : Nat := 18446744073709551615

/-- what `strconv.Atoi` hands back with a *syntax* error: `ParseUint` walks the digits from the left and
    gives up with a range error as soon as the value passes 2^64-1 — before it would have met the
    character that is not a digit — and `ParseInt` then clamps; otherwise 0 -/
def atoiGarbage (neg : Bool) (r : Str) : Int :=
  if uint64Max < leadVal r 0 then (if neg then -((int64Max : Int) + 1) else (int64Max : Int)) else 0

/-- `v, _ := strconv.Atoi(s)`: the value the caller sees when it drops the error — 0 on a syntax
    error (but see `atoiGarbage`), the clamped value when out of range -/
def atoiLoose (s : Str) : Int :=
  let clamp (neg : Bool) (v : Nat) : Int :=
    if neg then (if v ≤ int64Max + 1 then -(v : Int) else -((int64Max : Int) + 1))
    else (if v ≤ int64Max then (v : Int) else (int64Max : Int))
  match s with
  | '-' :: r => match parseDigits r with | some v => clamp true v | none => atoiGarbage true r
  | '+' :: r => match parseDigits r with | some v => clamp false v | none => atoiGarbage false r
  | _ => match parseDigits s with | some v => clamp false v | none => atoiGarbage false s

/-- left-pad a digit string with `'0'` to width `w` (`astikit.StrPad(s, '0', w, PadLeft)`: a
    longer string is returned as it is) -/
def padLeft0 (w : Nat) (s : Str) : Str := List.replicate (w - s.length) '0' ++ s

end Go
end Astisub
