/-!
# Go/Bufio — `bufio.Scanner` driven by the split function of `newScanner` (`subtitles.go`)

A *schedule* is the sequence of results of the `Read` calls the scanner makes: each chunk is the
bytes one call returned (`[]` = a zero-length read without error); the schedule ends with
`io.EOF` (`End.eof`) or with another error (`End.fault`).  A read that returns data *together*
with its error is the last chunk followed by the end marker.

`splitLine fixed` is the line-cutting part of the split function: `fixed = true` is the repaired
code (a buffer that ends in CR before EOF asks for more data), `fixed = false` the pinned code
(kept to state the negation witness of defect D1).

Repaired code only (`fixed = true`): before anything else the split function returns
`bufio.ErrTooLong` when the pending data holds more than `maxLineSize = 65535` bytes before its
first CR/LF, or more than 65535 bytes and no CR/LF at all — `lineTooLong`, whatever `atEOF` is —
and the scanner's buffer is `maxLineSize + 2 = 65537` bytes (`bufSize true`), so that the scanner's
own limit is out of reach (`Lemmas/Scan.lean`, `more_lt_bufSize`).  The pinned code has no such
test and a 65536-byte buffer (`bufSize false = maxTokenSize`).

`scan` mirrors `Scanner.Scan`: call the split function on the pending bytes with
`atEOF = (an error, io.EOF included, has been seen)`; an error of the split function ends the scan
(the tokens delivered so far stay delivered); a token advances; "more" reads the next
chunk — unless `bufSize` bytes are pending (`bufio.ErrTooLong`), or more than 100 consecutive
empty reads were seen (`io.ErrNoProgress`).  A `Read` can never return more than the free space of
the scanner's buffer (at most `bufSize` bytes in all); a chunk that would overrun it is
`bufio.ErrBadReadCount`.  After a read error the pending bytes are still
split with `atEOF = true` (so a final partial line *is* delivered) and the error is latched:
`Scanner.setErr` keeps the first error that is not `io.EOF`, so `bufio.ErrTooLong` from the split
function replaces `io.EOF` but not the reader's own error, `io.ErrNoProgress` or
`bufio.ErrBadReadCount`.
-/

namespace Astisub
namespace Go

inductive Split where
  | more
  | stop
  | tok (adv : Nat) (t : List UInt8)
  deriving Repr, DecidableEq

def isEOL (b : UInt8) : Bool := b == 10 || b == 13

/-- prefix before the first CR/LF, and the rest starting at it (`bytes.IndexAny(data, "\r\n")`) -/
def breakEOL : List UInt8 → List UInt8 × List UInt8
  | [] => ([], [])
  | b :: bs => if isEOL b then ([], b :: bs) else
      let r := breakEOL bs; (b :: r.1, r.2)

def splitLine (fixed : Bool) (data : List UInt8) (atEOF : Bool) : Split :=
  if atEOF && data.isEmpty then .stop else
  match breakEOL data with
  | (_, []) => if atEOF then .tok data.length data else .more
  | (p, b :: r) =>
    if b == 10 then .tok (p.length + 1) p else
    match r with
    | [] => if fixed && !atEOF then .more else .tok (p.length + 1) p
    | c :: _ => if c == 10 then .tok (p.length + 2) p else .tok (p.length + 1) p

inductive End where
  | eof
  | fault
  deriving Repr, DecidableEq

inductive ScanErr where
  | io          -- the reader's own error
  | tooLong     -- bufio.ErrTooLong
  | noProgress  -- io.ErrNoProgress
  | badRead     -- bufio.ErrBadReadCount: the reader claims more bytes than the buffer had room for
  deriving Repr, DecidableEq

def maxTokenSize : Nat := 65536
def maxEmptyReads : Nat := 100

/-- `maxLineSize = bufio.MaxScanTokenSize - 1`: the longest line, terminator excluded, the repaired
    split function accepts -/
def maxLineSize : Nat := 65535

/-- `i > maxLineSize || (i < 0 && len(data) > maxLineSize)` with `i = bytes.IndexAny(data, "\r\n")`:
    `(breakEOL data).1` is `data[:i]` when `i ≥ 0` and the whole of `data` when `i < 0` -/
def lineTooLong (data : List UInt8) : Bool := decide ((breakEOL data).1.length > maxLineSize)

/-- the size the scanner's buffer can grow to: `scanner.Buffer(nil, maxLineSize+2)` in the repaired
    code, the default `bufio.MaxScanTokenSize` in the pinned code -/
def bufSize (fixed : Bool) : Nat := if fixed then maxLineSize + 2 else maxTokenSize

/-- `Scanner.Err()` when the stream ended with `e` and the scanner met no error of its own -/
def endErr : End → Option ScanErr
  | .eof => none
  | .fault => some .io

theorem splitLine_tok_ne_nil {f d e adv t} (h : splitLine f d e = .tok adv t) : d ≠ [] := by
  intro hd; subst hd
  cases e <;> simp [splitLine, breakEOL] at h

/-- tokens at end of input (`atEOF = true`): no more reads -/
def drain (fixed : Bool) (pending : List UInt8) : List (List UInt8) :=
  match h : splitLine fixed pending true with
  | .tok adv t => if adv = 0 then [] else t :: drain fixed (pending.drop adv)
  | _ => []
termination_by pending.length
decreasing_by
  have := splitLine_tok_ne_nil h
  cases pending with
  | nil => contradiction
  | cons a as => simp; omega

/-- tokens at end of input (`atEOF = true`) with the too-long test of the repaired split function:
    the tokens delivered, and whether the split function ended the scan with `bufio.ErrTooLong`.
    (`fixed = false`: no test — `drainL false p = (drain false p, false)`.) -/
def drainL (fixed : Bool) (pending : List UInt8) : List (List UInt8) × Bool :=
  if fixed && lineTooLong pending then ([], true) else
  match h : splitLine fixed pending true with
  | .tok adv t =>
    if adv = 0 then ([], false) else
    let r := drainL fixed (pending.drop adv)
    (t :: r.1, r.2)
  | _ => ([], false)
termination_by pending.length
decreasing_by
  have := splitLine_tok_ne_nil h
  cases pending with
  | nil => contradiction
  | cons a as => simp; omega

/-- `Scanner.Err()` after the end of input was seen with `e` and the split function then did
    (`long = true`) or did not return `bufio.ErrTooLong`: `setErr` lets it replace `io.EOF` only -/
def finalErr (e : End) (long : Bool) : Option ScanErr :=
  match e with
  | .fault => some .io
  | .eof => if long then some .tooLong else none

/-- `Scanner.Scan` until it returns false: the tokens and `Scanner.Err()` (`none` = nil).
    `k` counts consecutive empty reads. -/
def scan (fixed : Bool) (pending : List UInt8) (chunks : List (List UInt8)) (e : End) (k : Nat) :
    List (List UInt8) × Option ScanErr :=
  match chunks with
  | [] => ((drainL fixed pending).1, finalErr e (drainL fixed pending).2)
  | c :: cs =>
    if fixed && lineTooLong pending then ([], some .tooLong) else   -- the split function's own error
    match h : splitLine fixed pending false with
    | .stop => ([], none)   -- unreachable: `stop` needs atEOF
    | .tok adv t =>
      if adv = 0 then ([], none) else
      let r := scan fixed (pending.drop adv) (c :: cs) e 0
      (t :: r.1, r.2)
    | .more =>
      if pending.length ≥ bufSize fixed then ([], some .tooLong)
      else if c.isEmpty then
        (if k + 1 > maxEmptyReads then ((drainL fixed pending).1, some .noProgress)
         else scan fixed pending cs e (k + 1))
      else if pending.length + c.length > bufSize fixed then ((drainL fixed pending).1, some .badRead)
      else scan fixed (pending ++ c) cs e 0
termination_by (chunks.length, pending.length)
decreasing_by
  · have := splitLine_tok_ne_nil h
    apply Prod.Lex.right
    cases pending with
    | nil => contradiction
    | cons a as => simp; omega
  · apply Prod.Lex.left; simp
  · apply Prod.Lex.left; simp

/-- the whole-buffer semantics of a document: its lines (LF, CRLF and lone CR each end a line;
    a final unterminated line is a line; a trailing terminator adds none) -/
def linesOf (bs : List UInt8) : List (List UInt8) := drain true bs

/-- the byte-level semantics of the repaired scanner: the lines of `bs` before its first line of
    more than `maxLineSize` bytes (terminator excluded) … -/
def linesBefore (bs : List UInt8) : List (List UInt8) :=
  (linesOf bs).takeWhile fun l => decide (l.length ≤ maxLineSize)

/-- … and whether there is such a line -/
def firstLong (bs : List UInt8) : Bool :=
  (linesOf bs).any fun l => decide (l.length > maxLineSize)

end Go
end Astisub
