import Astisub.Model.Graph

/-!
# Spec/Reach — which definitions a cue can reach (C13)

Independent of the marking loops of the model: a plain closure over the *whole* pointer
chains (no visited set, no early exit).
-/

namespace Astisub
namespace Spec

/-- identifiers of the regions some cue refers to -/
def usedRegionIds (g : Graph) : List String := g.items.filterMap (·.region)

/-- the region definitions some cue refers to (by the definition's own identifier) -/
def usedRegions (g : Graph) : List (String × RegionDef) :=
  g.regions.filter (fun kr => kr.2.id ∈ usedRegionIds g)

/-- every style chain a cue gives access to: its own, those of its runs, those of its regions -/
def roots (g : Graph) : List IdChain :=
  g.items.flatMap (fun it => it.style :: it.runs) ++ (usedRegions g).map (·.2.style)

/-- style identifier `id` is reachable: directly, through a run, through a region, or by
    inheritance (every identifier on a chain is an ancestor of its head) -/
def Reach (g : Graph) (id : String) : Prop := ∃ c ∈ roots g, id ∈ c

instance (g : Graph) (id : String) : Decidable (Reach g id) := by unfold Reach; infer_instance

/-- what `Optimize` must return on a list with at least one cue -/
def optimizeSpec (g : Graph) : Graph :=
  if g.items.isEmpty then g else
  { g with regions := usedRegions g, styles := g.styles.filter (fun ks => decide (Reach g ks.2.id)) }

/-- all chains of a graph -/
def allChains (g : Graph) : List IdChain :=
  g.items.flatMap (fun it => it.style :: it.runs) ++ g.regions.map (·.2.style)

/-- same identifier ⇒ same ancestry, wherever it is met (one object per identifier): whenever
    `id` occurs in two chains (or twice in one), what follows it is the same -/
def Consistent (g : Graph) : Prop :=
  ∀ c₁ ∈ allChains g, ∀ c₂ ∈ allChains g, ∀ (id : String) (r₁ r₂ : IdChain),
    (id :: r₁) <:+ c₁ → (id :: r₂) <:+ c₂ → r₁ = r₂

def tailsOf : IdChain → List IdChain
  | [] => [[]]
  | x :: rest => (x :: rest) :: tailsOf rest

/-- executable form of `Consistent` (all non-empty suffixes of all chains, pairwise) -/
def consistentB (g : Graph) : Bool :=
  let sufs := (allChains g).flatMap fun c => tailsOf c
  sufs.all fun s₁ => sufs.all fun s₂ =>
    match s₁, s₂ with
    | a :: r₁, b :: r₂ => a != b || r₁ == r₂
    | _, _ => true

/-- every reference made anywhere resolves in the maps (by identifier) -/
def RefsResolve (g : Graph) : Prop :=
  (∀ c ∈ roots g, ∀ id ∈ c, id ∈ g.styles.map (·.2.id)) ∧
  (∀ r ∈ usedRegionIds g, r ∈ g.regions.map (·.2.id))

end Spec
end Astisub
