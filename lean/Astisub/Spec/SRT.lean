import Astisub.Go.Strings
import Astisub.Go.Strconv

/-!
# Spec/SRT — what a SubRip document denotes (independent decoder)

Written from the format description, not from the Go code; it shares only string helpers
(`trimSpace`, `splitOn`, …) with the model.  `decode` is defined on *well-formed* documents with
the tolerated variations of C01 (any EOL convention, BOM, index present / absent / garbage,
blank-line padding, `,` or `.` and 1–3 fraction digits, spacing around `-->`, trailing
coordinates, emphasis tags left open or spanning lines); it answers `none` for anything else
(the property says nothing about such documents).
-/

namespace Astisub
namespace Spec
namespace SRT
open Go

/-- a styled run of a line -/
structure GRun where
  text : Str
  bold : Bool
  italic : Bool
  underline : Bool
  color : Option Str
  deriving Repr, DecidableEq

structure GCue where
  startMs : Nat
  endMs : Nat
  lines : List (List GRun)
  deriving Repr, DecidableEq

/-- bytes → lines: LF, CRLF and lone CR each end a line -/
def splitLines : Str → Str → List Str
  | [], acc => if acc.isEmpty then [] else [acc.reverse]
  | '\r' :: '\n' :: rest, acc => acc.reverse :: splitLines rest []
  | '\n' :: rest, acc => acc.reverse :: splitLines rest []
  | '\r' :: rest, acc => acc.reverse :: splitLines rest []
  | c :: rest, acc => splitLines rest (c :: acc)

def isDigit (c : Char) : Bool := '0' ≤ c && c ≤ '9'

def natOf (s : Str) : Option Nat := if s.isEmpty || !s.all isDigit then none else some (s.foldl (fun a c => a * 10 + (c.toNat - 48)) 0)

/-- `hh:mm:ss[,.]f{1,3}` (hours: 1+ digits; `mm:ss[,.]f` also accepted) → milliseconds -/
def timeMs (s : Str) : Option Nat :=
  let s := trimSpace s
  let (hms, frac) :=
    match (s.reverse.span fun c => isDigit c) with
    | (fr, sep :: rest) => if sep = ',' || sep = '.' then (rest.reverse, fr.reverse) else (s, [])
    | _ => (s, [])
  if frac.isEmpty || frac.length > 3 then none else
  match natOf frac, (splitC ':' hms).map natOf with
  | some f, [some h, some m, some sec] =>
    if m < 60 && sec < 60 then some (((h * 60 + m) * 60 + sec) * 1000 + f * 10 ^ (3 - frac.length)) else none
  | some f, [some m, some sec] =>
    if m < 60 && sec < 60 then some ((m * 60 + sec) * 1000 + f * 10 ^ (3 - frac.length)) else none
  | _, _ => none

/-- timing line: `<time> --> <time> [anything]` -/
def timing (line : Str) : Option (Nat × Nat) :=
  match splitOn "-->".toList line with
  | [l, r] =>
    match fields r with
    | e :: _ => match timeMs l, timeMs e with
      | some s, some e => some (s, e)
      | _, _ => none
    | [] => none
  | _ => none

structure Sty where
  bold : Bool := false
  italic : Bool := false
  underline : Bool := false
  color : Option Str := none
  deriving Repr, DecidableEq, Inhabited

def entities : List (Str × Str) :=
  [("&amp;".toList, "&".toList), ("&lt;".toList, "<".toList), ("&nbsp;".toList, [Char.ofNat 0xA0])]

/-- recognise one emphasis tag at the head of `s`: returns the style update and the rest -/
def tagAt (s : Str) : Option ((Sty → Sty) × Str) :=
  let low := toLowerAscii (s.take 8)
  if hasPrefix "<b>".toList low then some ((fun y => { y with bold := true }), s.drop 3)
  else if hasPrefix "</b>".toList low then some ((fun y => { y with bold := false }), s.drop 4)
  else if hasPrefix "<i>".toList low then some ((fun y => { y with italic := true }), s.drop 3)
  else if hasPrefix "</i>".toList low then some ((fun y => { y with italic := false }), s.drop 4)
  else if hasPrefix "<u>".toList low then some ((fun y => { y with underline := true }), s.drop 3)
  else if hasPrefix "</u>".toList low then some ((fun y => { y with underline := false }), s.drop 4)
  else if hasPrefix "</font>".toList low then some ((fun y => { y with color := none }), s.drop 7)
  else
    match dropPrefix? "<font color=\"".toList (toLowerAscii (s.take 13) ++ s.drop 13) with
    | some rest =>
      let v := rest.takeWhile (· != '"')
      match rest.drop v.length with
      | '"' :: '>' :: after => if v.contains '&' || v.contains '>' then none else some ((fun y => { y with color := some v }), after)
      | _ => none
    | none => none

/-- text of one line → runs; `none` when the line contains markup outside the emphasis tags -/
def runsOf : Nat → Str → Sty → Str → List GRun → Option (Sty × List GRun)
  | 0, _, _, _, _ => none
  | fuel + 1, s, sty, acc, out =>
    let flush := fun (out : List GRun) =>
      if trimSpace acc.reverse = [] then out
      else out ++ [{ text := replacer entities acc.reverse, bold := sty.bold, italic := sty.italic, underline := sty.underline, color := sty.color }]
    match s with
    | [] => some (sty, flush out)
    | '<' :: rest =>
      match rest with
      | c :: _ =>
        if isLetter' c || c = '/' || c = '!' || c = '?' then
          match tagAt ('<' :: rest) with
          | some (f, after) => runsOf fuel after (f sty) [] (flush out)
          | none => none
        else runsOf fuel rest sty ('<' :: acc) out
      | [] => runsOf fuel rest sty ('<' :: acc) out
    | c :: rest => runsOf fuel rest sty (c :: acc) out
where
  isLetter' (c : Char) : Bool := ('a' ≤ c && c ≤ 'z') || ('A' ≤ c && c ≤ 'Z')

/-- decode the text lines of one cue (style threads across the lines of the cue) -/
def cueLines : List Str → Sty → Option (List (List GRun))
  | [], _ => some []
  | l :: ls, sty =>
    match runsOf (l.length + 2) l sty [] [] with
    | none => none
    | some (sty', runs) =>
      match cueLines ls sty' with
      | none => none
      | some rest => if runs.isEmpty then none else some (runs :: rest)

/-- blocks separated by blank lines; each block = [index line] timing line, text lines -/
def blocks (lines : List Str) : List (List Str) :=
  let rec go : List Str → List Str → List (List Str)
    | [], cur => if cur.isEmpty then [] else [cur.reverse]
    | l :: ls, cur => if trimSpace l = [] then (if cur.isEmpty then go ls [] else cur.reverse :: go ls []) else go ls (trimSpace l :: cur)
  go lines []

def decodeBlock (b : List Str) : Option GCue :=
  let body : Option ((Nat × Nat) × List Str) :=
    match b with
    | l1 :: rest =>
      match timing l1 with
      | some t => some (t, rest)
      | none =>
        -- an index line (number or garbage without markup) before the timing line
        match rest with
        | l2 :: rest' => if contains "-->".toList l1 then none else (timing l2).map fun t => (t, rest')
        | [] => none
    | [] => none
  match body with
  | some ((s, e), text) =>
    if text.isEmpty || text.any (contains "-->".toList) then none else
    (cueLines text {}).map fun ls => { startMs := s, endMs := e, lines := ls }
  | none => none

def mapM {α β} (f : α → Option β) : List α → Option (List β)
  | [] => some []
  | a :: as => match f a, mapM f as with
    | some b, some bs => some (b :: bs)
    | _, _ => none

/-- the cues a well-formed SubRip document denotes -/
def decode (doc : Str) : Option (List GCue) :=
  let doc := match doc with | c :: rest => if c = Char.ofNat 0xFEFF then rest else doc | [] => doc
  mapM decodeBlock (blocks (splitLines doc []))

end SRT
end Spec
end Astisub
