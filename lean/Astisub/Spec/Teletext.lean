import Astisub.Go.Strings
import Astisub.Generated.TeletextTables

/-!
# Spec/Teletext — what a teletext subtitle service denotes (independent decoder)

Written from EN 300 472 (teletext in DVB: PES data field, data units) and ETS 300 706 (packets, page
header, Hamming 8/4, odd parity, spacing attributes, national option sub-sets), not from `teletext.go`.
It shares with the model only the regenerated character tables (T1) — the selection rule and the national
option positions are its own.  `Option`-valued: `none` = the input is outside the class the property
speaks about (transmission errors in Hamming-protected bytes, malformed data units, a row sent twice in
one page instance, contradictory character set designations …).

Input: the PES packets of the teletext PID in arrival order (presentation time in ns, payload bytes),
and the page option (0 = first page whose header carries the subtitle flag).
-/

namespace Astisub
namespace Spec
namespace Teletext
open Go Generated.Teletext

/-! ## coding (ETS 300 706 §8) -/

def bit (n k : Nat) : Nat := n / 2 ^ k % 2

/-- Hamming 8/4 encoder: bits P1 D1 P2 D2 P3 D3 P4 D4, first transmitted bit = bit 0 -/
def hammingEncode (n : Nat) : Nat :=
  let d1 := bit n 0; let d2 := bit n 1; let d3 := bit n 2; let d4 := bit n 3
  let p1 := (1 + d1 + d3 + d4) % 2
  let p2 := (1 + d1 + d2 + d4) % 2
  let p3 := (1 + d1 + d2 + d3) % 2
  let p4 := (1 + p1 + d1 + p2 + d2 + p3 + d3 + d4) % 2
  p1 + d1 * 2 + p2 * 4 + d2 * 8 + p3 * 16 + d3 * 32 + p4 * 64 + d4 * 128

/-- a byte travels through the transport stream with its first transmitted bit as most significant bit -/
def reverseBits (b : Nat) : Nat :=
  bit b 7 + bit b 6 * 2 + bit b 5 * 4 + bit b 4 * 8 + bit b 3 * 16 + bit b 2 * 32 + bit b 1 * 64 + bit b 0 * 128

/-- decode a stream byte as an error-free Hamming 8/4 codeword -/
def hammingExact (streamByte : Nat) : Option Nat :=
  let b := reverseBits streamByte
  let n := bit b 1 + bit b 3 * 2 + bit b 5 * 4 + bit b 7 * 8
  if hammingEncode n = b then some n else none

def ones (b : Nat) : Nat := (List.range 8).foldl (fun a k => a + bit b k) 0

/-- a 7-bit character with its odd parity bit, as a stream byte -/
def parityEncode (c : Nat) : Nat :=
  let c := c % 128
  reverseBits (if ones c % 2 = 0 then c + 128 else c)

/-- a received character: `none` when the parity check fails -/
def parityDecode (streamByte : Nat) : Option Nat :=
  let b := reverseBits streamByte
  if ones b % 2 = 1 then some (b % 128) else none

/-! ## runs of a row (ETS 300 706 §12.2, spacing attributes) -/

structure Attr where
  color : Option Nat := none     -- alpha colour 0..7 once a colour code was met
  dh : Bool := false
  dw : Bool := false
  ds : Bool := false
  deriving Repr, DecidableEq, Inhabited

structure Run where
  attr : Attr
  codes : List Nat               -- character codes 0x20..0x7f
  deriving Repr, DecidableEq, Inhabited

/-- a run as it is compared: trimmed text, blanks around it -/
structure VRun where
  attr : Attr
  text : Str
  before : Nat
  after : Nat
  deriving Repr, DecidableEq, Inhabited

structure RowSt where
  runs : List Run := []
  cur : Run := { attr := {}, codes := [] }
  boxed : Bool := false
  bad : Bool := false
  deriving Repr, Inhabited

def closeRun (s : RowSt) (a : Attr) : RowSt := { s with runs := s.runs ++ [s.cur], cur := { attr := a, codes := [] } }

/-- one received cell (`none`: parity failure — the cell carries nothing) -/
def cell (s : RowSt) : Option Nat → RowSt
  | none => s
  | some v =>
    if v < 8 then
      if s.cur.attr.color = some v then s else closeRun s { s.cur.attr with color := some v }
    else if v = 0x0a then { s with boxed := false }
    else if v = 0x0b then { s with boxed := true }
    else if v = 0x0c then
      if !s.cur.attr.dh && !s.cur.attr.dw && !s.cur.attr.ds then s
      else closeRun s { s.cur.attr with dh := false, dw := false, ds := false }
    else if v = 0x0d then if s.cur.attr.dh then s else closeRun s { s.cur.attr with dh := true }
    else if v = 0x0e then if s.cur.attr.dw then s else closeRun s { s.cur.attr with dw := true }
    else if v = 0x0f then if s.cur.attr.ds then s else closeRun s { s.cur.attr with ds := true }
    else if v < 0x20 then s                       -- flash, conceal, mosaics …: no text
    else if s.boxed then { s with cur := { s.cur with codes := s.cur.codes ++ [v] } }
    else s

/-- an attribute code met outside the box changes the attributes of later text only: model it by
    splitting at it like everywhere else (runs without boxed text vanish) -/
def rowRuns (cells : List (Option Nat)) : Option (List Run) :=
  let s := cells.foldl cell {}
  if s.bad then none else some ((s.runs ++ [s.cur]).filter fun r => r.codes.any (· != 0x20))

/-! ## character sets (ETS 300 706 §15, tables regenerated from the package) -/

/-- national option positions of G0 -/
def nationalPositions : List Nat := [0x23, 0x24, 0x40, 0x5b, 0x5c, 0x5d, 0x5e, 0x5f, 0x60, 0x7b, 0x7c, 0x7d, 0x7e]

/-- character `c` (0x20..0x7f) of the set designated by (key, national option code); `none`: no such set -/
def charOf (key code c : Nat) : Option Str :=
  match charsets.find? fun e => e.1 == key && e.2.1 == code with
  | some (_, _, some g0, nat) =>
    let natChar : Option (List Nat) := nat.bind fun n =>
      (nationalPositions.idxOf? c).bind fun k => (natTables.getD n [])[k]?
    match natChar with
    | some cs => some (cs.map Char.ofNat)
    | none => ((g0Tables.getD g0 [])[c - 0x20]?).map (·.map Char.ofNat)
  | _ => none

def mapM {α β} (f : α → Option β) : List α → Option (List β)
  | [] => some []
  | a :: as => match f a, mapM f as with
    | some b, some bs => some (b :: bs)
    | _, _ => none

def stripSpaces (s : Str) : Str := ((s.dropWhile (· == ' ')).reverse.dropWhile (· == ' ')).reverse

def viewRun (key code : Nat) (r : Run) : Option VRun :=
  (mapM (charOf key code) r.codes).map fun cs =>
    let t := cs.flatten
    { attr := r.attr, text := stripSpaces t, before := (t.takeWhile (· == ' ')).length, after := (t.reverse.takeWhile (· == ' ')).length }

/-- neighbouring runs with the same attributes denote the same thing as their concatenation -/
def mergeRuns : List VRun → List VRun
  | a :: b :: rest =>
    if a.attr = b.attr
    then mergeRuns ({ attr := a.attr, text := a.text ++ List.replicate (a.after + b.before) ' ' ++ b.text, before := a.before, after := b.after } :: rest)
    else a :: mergeRuns (b :: rest)
  | l => l
termination_by l => l.length

structure Cue where
  startNs : Int
  endNs : Int
  lines : List (List VRun)
  deriving Repr, DecidableEq, Inhabited

/-- once neighbours with equal attributes are joined, the blanks around a run are not text (an unclosed box runs to
    the end of the row; blanks between runs of different attributes belong to neither) -/
def trimEdges (l : List VRun) : List VRun := l.map fun r => { r with before := 0, after := 0 }

def normCue (c : Cue) : Cue := { c with lines := c.lines.map fun l => trimEdges (mergeRuns l) }

/-! ## packets (EN 300 472 §4, ETS 300 706 §7, §9) -/

inductive Packet where
  | header (mag : Nat) (tens units : Nat) (subtitle serial : Bool) (code : Nat)
  | row (mag y : Nat) (cells : List (Option Nat))
  | desig (mag y dc : Nat) (raw : Nat)          -- X/28, M/29: designation code, first triplet as the library reads it
  | other
  deriving Repr, Inhabited

/-- a 44-byte data field of a subtitle data unit -/
def decodePacket (f : List Nat) : Option Packet :=
  if f.length != 44 then none else
  if f.getD 1 0 != 0xe4 then some .other else
  match hammingExact (f.getD 2 0), hammingExact (f.getD 3 0) with
  | some a, some b =>
    let mag := if a % 8 = 0 then 8 else a % 8
    let y := a / 8 + b * 2
    let d := f.drop 4
    if y = 0 then
      match hammingExact (d.getD 0 0), hammingExact (d.getD 1 0), hammingExact (d.getD 5 0), hammingExact (d.getD 7 0) with
      | some u, some t, some c5, some c7 => some (.header mag t u (c5 / 8 % 2 = 1) (c7 % 2 = 1) (c7 / 2))
      | _, _, _, _ => none
    else if y ≤ 25 then some (.row mag y (d.map parityDecode))
    else if y = 28 || y = 29 then
      match hammingExact (d.getD 0 0) with
      | some dc => some (.desig mag y dc (d.getD 1 0 + d.getD 2 0 * 256 + d.getD 3 0 * 65536))
      | none => none
    else some .other
  | _, _ => none

/-- the data units of a PES data field: (id, bytes); `none` when the framing is broken -/
def dataUnits : Nat → List Nat → Option (List (Nat × List Nat))
  | _, [] => some []
  | fuel + 1, id :: len :: rest =>
    if rest.length < len then none else
    (dataUnits fuel (rest.drop len)).map fun us => (id, rest.take len) :: us
  | _, _ => none

/-- the teletext packets of one PES packet (EBU data, subtitle data units only) -/
def pesPackets (payload : List Nat) : Option (List Packet) :=
  match payload with
  | [] => none
  | ident :: rest =>
    if ident < 0x10 || ident > 0x1f then some [] else
    match dataUnits rest.length rest with
    | none => none
    | some us => mapM (fun (u : Nat × List Nat) => decodePacket u.2) (us.filter fun u => u.1 == 0x03)

/-! ## the page automaton -/

structure Inst where
  startNs : Int
  code : Nat
  rows : List (Nat × List (Option Nat)) := []
  deriving Repr, Inhabited

structure St where
  sel : Option (Nat × Nat × Nat)       -- magazine, tens, units
  cur : Option Inst := none
  open_ : Bool := false                -- rows of the magazine still belong to `cur`
  done : List (Inst × Int) := []       -- closed instances with their end
  keys : List Nat := []                -- character set designations met
  bad : Bool := false
  deriving Repr, Inhabited

def decimal (t u : Nat) : Bool := t ≤ 9 && u ≤ 9

def step (t : Int) (s : St) : Packet → St
  | .header mag tens units subtitle serial code =>
    if tens = 15 && units = 15 then s else       -- time filling header
    let s := match s.sel with
      | none => if subtitle && decimal tens units then { s with sel := some (mag, tens, units) } else s
      | some _ => s
    match s.sel with
    | none => s
    | some (m, pt, pu) =>
      if mag = m && tens = pt && units = pu then
        let done := match s.cur with | some i => s.done ++ [(i, t)] | none => s.done
        { s with done := done, cur := some { startNs := t, code := code }, open_ := true }
      else if mag = m || serial then { s with open_ := false }
      else s
  | .row mag y cells =>
    match s.sel, s.cur with
    | some (m, _, _), some i =>
      if mag = m && s.open_ then
        if i.rows.any (·.1 == y) then { s with bad := true }
        else { s with cur := some { i with rows := i.rows ++ [(y, cells)] } }
      else s
    | _, _ => s
  | .desig mag y dc raw =>
    match s.sel with
    | some (m, _, _) =>
      if mag = m && (dc = 0 || dc = 4) && (y = 29 || (s.open_ && raw % 16 = 0)) then { s with keys := s.keys ++ [raw / 1024 % 16] } else s
    | none => s
  | .other => s

def insertSorted (x : Nat × List (Option Nat)) : List (Nat × List (Option Nat)) → List (Nat × List (Option Nat))
  | [] => [x]
  | y :: ys => if x.1 ≤ y.1 then x :: y :: ys else y :: insertSorted x ys

def selOf (page : Nat) : Option (Nat × Nat × Nat) :=
  if page = 0 then none else some (page / 100, page / 10 % 10, page % 10)

/-- the cues a service denotes -/
def decode (page : Nat) (pes : List (Int × List Nat)) : Option (List Cue) :=
  match mapM (fun (p : Int × List Nat) => (pesPackets p.2).map fun ps => (p.1, ps)) pes with
  | none => none
  | some pk =>
    let s := pk.foldl (fun s p => p.2.foldl (step p.1) s) ({ sel := selOf page } : St)
    if s.bad then none else
    match pes.map (·.1) with
    | [] => some []
    | t0 :: ts =>
      let first := ts.foldl min t0
      let last := ts.foldl max t0
      let insts := s.done ++ (match s.cur with | some i => [(i, last)] | none => [])
      let key := s.keys.headD 0
      if s.keys.any (· != key) then none else
      mapM (fun (ie : Inst × Int) =>
        let rows := ie.1.rows.foldr insertSorted []
        (mapM (fun (r : Nat × List (Option Nat)) => (rowRuns r.2).bind fun runs => mapM (viewRun key ie.1.code) runs) rows).map fun lines =>
          normCue { startNs := ie.1.startNs - first, endNs := ie.2 - first, lines := lines.filter (!·.isEmpty) })
        (insts.filter fun ie => !ie.1.rows.isEmpty)

end Teletext
end Spec
end Astisub
