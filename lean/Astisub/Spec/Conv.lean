import Astisub.Model.Subs

/-!
# Spec/Conv — what a conversion must preserve (C07)

The *view* of a cue list: per cue its start, end and text lines (runs concatenated, white space
disregarded).  A destination format carries instants at its own resolution.
-/

namespace Astisub
namespace Spec
namespace Conv
open Go

structure VCue where
  startAt : Int
  endAt : Int
  lines : List Str
  blank : Bool := false     -- the cue has a line without visible text (not representable in the line-based formats)
  deriving Repr, DecidableEq

def squash (s : Str) : Str := s.filter fun c => !isSpace c

def viewOf (s : Subs) : List VCue :=
  s.items.map fun it =>
    let ls := it.lines.map fun l => squash (l.items.map (·.text)).flatten
    { startAt := it.startAt, endAt := it.endAt, lines := ls.filter (· ≠ []), blank := ls.any (· = []) }

/-- truncation of an instant to the time resolution of a destination -/
def truncTo (unit : Int) (t : Int) : Int := t - t % unit

/-- STL: the latest frame boundary not after `t + tcp`, read back rounded up to the nanosecond, minus `tcp` -/
def truncSTL (fr tcp : Int) (t : Int) : Int :=
  let x := t + tcp
  let sec := x / 1000000000
  let k := (x % 1000000000) * fr / 1000000000
  sec * 1000000000 + (k * 1000000000 + fr - 1) / fr - tcp

/-- plain text that every destination can carry -/
def simpleText (s : Str) : Bool :=
  s.all fun c => ('a' ≤ c && c ≤ 'z') || ('A' ≤ c && c ≤ 'Z') || ('0' ≤ c && c ≤ '9') || c = ' ' || c = ',' || c = '.' || c = '!' || c = '?'

end Conv
end Spec
end Astisub
