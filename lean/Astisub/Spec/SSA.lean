import Astisub.Go.Strings
import Astisub.Go.Strconv
import Astisub.Go.Numconv
import Astisub.Model.Subs

/-!
# Spec/SSA — what a SubStation Alpha document (v4 / v4+) denotes (independent decoder)

Written from the format description (sections, `Key: value` lines, Format-driven rows), not from
`ssa.go`.  It shares with the model only string helpers (`trimSpace`, `splitC`) and the
"nearest double of a decimal" function (`Go.ratBits`); it has its own tables, its own line
splitter, its own time / integer / colour / boolean readers and its own override-block scanner
(a block is `{` + one or more characters other than braces + `}`; the model implements the
library's greedy regular expression instead).

`decode` answers `none` for documents outside the tolerated class of C04 — the property says
nothing about them: text before the first section, two Format lines in one section, a row before its
Format line, unknown or duplicated column names, a row with the wrong number of fields, a field
that is not of its column's type, duplicated style names, style names starting with `*`, stray
braces in event text.
Ignored, as C04 says: unknown sections, events other than `Dialogue` (their fields are not even
looked at), lines without a `:`, lines of `[Styles]`/`[Events]` with any other header, and unknown
script-info keys.

`view` maps a `Subtitles` value to the same domain; `denote` says what a cue list is expected to
denote once written (`none` = not representable in SSA: the proviso of the write clause).
-/

namespace Astisub
namespace Spec
namespace SSA
open Go

inductive GKind where
  | bool | colour | float | int | str
  deriving Repr, DecidableEq

inductive GVal where
  | b (v : Bool)
  | c (v : Nat)       -- 32 bits: alpha, blue, green, red
  | f (bits : Nat)    -- the double nearest to the decimal written
  | i (v : Int)
  | s (v : Str)
  deriving Repr, DecidableEq

structure GStyle where
  name : Str
  attrs : List (String × GVal)   -- in table order
  deriving Repr, DecidableEq

structure GRun where
  effect : Option Str
  text : Str
  deriving Repr, DecidableEq

structure GEvent where
  startCs : Int
  endCs : Int
  layer : Option Int
  marked : Option Bool
  marginL : Option Int
  marginR : Option Int
  marginV : Option Int
  effect : Str
  name : Str
  style : Option Str          -- the style definition the event resolves to
  lines : List (List GRun)
  deriving Repr, DecidableEq

structure GDoc where
  comments : List Str
  info : List (String × GVal)    -- in table order
  styles : List GStyle           -- sorted by name
  events : List GEvent
  deriving Repr, DecidableEq

/-- style columns: Format name, `StyleAttributes` field, type -/
def styleTable : List (String × String × GKind) :=
  [("Alignment", "SSAAlignment", .int), ("AlphaLevel", "SSAAlphaLevel", .float), ("Angle", "SSAAngle", .float),
   ("BackColour", "SSABackColour", .colour), ("Bold", "SSABold", .bool), ("BorderStyle", "SSABorderStyle", .int),
   ("Encoding", "SSAEncoding", .int), ("Fontname", "SSAFontName", .str), ("Fontsize", "SSAFontSize", .float),
   ("Italic", "SSAItalic", .bool), ("MarginL", "SSAMarginLeft", .int), ("MarginR", "SSAMarginRight", .int),
   ("MarginV", "SSAMarginVertical", .int), ("Outline", "SSAOutline", .float), ("OutlineColour", "SSAOutlineColour", .colour),
   ("PrimaryColour", "SSAPrimaryColour", .colour), ("ScaleX", "SSAScaleX", .float), ("ScaleY", "SSAScaleY", .float),
   ("SecondaryColour", "SSASecondaryColour", .colour), ("Shadow", "SSAShadow", .float), ("Spacing", "SSASpacing", .float),
   ("Strikeout", "SSAStrikeout", .bool), ("Underline", "SSAUnderline", .bool)]

/-- script info keys: header, `Metadata` field, type -/
def infoTable : List (String × String × GKind) :=
  [("Collisions", "SSACollisions", .str), ("Original Editing", "SSAOriginalEditing", .str),
   ("Original Script", "SSAOriginalScript", .str), ("Original Timing", "SSAOriginalTiming", .str),
   ("Original Translation", "SSAOriginalTranslation", .str), ("PlayDepth", "SSAPlayDepth", .int),
   ("PlayResX", "SSAPlayResX", .int), ("PlayResY", "SSAPlayResY", .int), ("ScriptType", "SSAScriptType", .str),
   ("Script Updated By", "SSAScriptUpdatedBy", .str), ("Synch Point", "SSASynchPoint", .str), ("Timer", "SSATimer", .float),
   ("Title", "Title", .str), ("Update Details", "SSAUpdateDetails", .str), ("WrapStyle", "SSAWrapStyle", .str)]

def eventCols : List String :=
  ["Marked", "Layer", "Start", "End", "Style", "Name", "MarginL", "MarginR", "MarginV", "Effect", "Text"]

/-! ## scalar readers -/

def isDigit (c : Char) : Bool := '0' ≤ c && c ≤ '9'

def natOf (s : Str) : Option Nat :=
  if s.isEmpty || !s.all isDigit then none else some (s.foldl (fun a c => a * 10 + (c.toNat - 48)) 0)

def intOf (s : Str) : Option Int :=
  match s with
  | '-' :: r => (natOf r).map fun n => -(n : Int)
  | '+' :: r => (natOf r).map fun n => (n : Int)
  | _ => (natOf s).map fun n => (n : Int)

def hexVal (c : Char) : Option Nat :=
  if '0' ≤ c ∧ c ≤ '9' then some (c.toNat - 48)
  else if 'a' ≤ c ∧ c ≤ 'f' then some (c.toNat - 87)
  else if 'A' ≤ c ∧ c ≤ 'F' then some (c.toNat - 55)
  else none

def hexOf : Str → Nat → Option Nat
  | [], acc => some acc
  | c :: cs, acc => match hexVal c with | some d => hexOf cs (acc * 16 + d) | none => none

/-- `&H` + 1–8 hexadecimal digits, or a decimal integer of 32 bits (signed or unsigned) -/
def colourOf (s : Str) : Option Nat :=
  match s with
  | '&' :: 'H' :: r => if r.isEmpty || r.length > 8 then none else hexOf r 0
  | _ =>
    match intOf s with
    | some v => if -2147483648 ≤ v ∧ v < 4294967296 then some ((v + 4294967296) % 4294967296).toNat else none
    | none => none

/-- `-1` (and, tolerated, `1`) is true, `0` is false -/
def boolOf (s : Str) : Option Bool :=
  if s = ['-', '1'] || s = ['1'] then some true else if s = ['0'] then some false else none

/-- a plain decimal `[-]d+[.d*]` or `[-].d+` → the nearest double -/
def floatOf (s : Str) : Option Nat :=
  let (neg, body) : Bool × Str := match s with | '-' :: r => (true, r) | _ => (false, s)
  let ip := body.takeWhile isDigit
  let rest := body.drop ip.length
  let fp : Option Str := match rest with | [] => some [] | '.' :: r => if r.all isDigit then some r else none | _ => none
  match fp with
  | none => none
  | some fp =>
    if (ip ++ fp).isEmpty || body.length > 40 then none else
    ratBits neg ((ip ++ fp).foldl (fun a c => a * 10 + (c.toNat - 48)) 0) (10 ^ fp.length)

/-- `H:MM:SS.cc` (one or more hour digits) → centiseconds -/
def timeOf (s : Str) : Option Int :=
  match splitC ':' s with
  | [h, m, sc] =>
    match splitC '.' sc with
    | [sec, cs] =>
      if m.length ≠ 2 || sec.length ≠ 2 || cs.length ≠ 2 then none else
      match natOf h, natOf m, natOf sec, natOf cs with
      | some h, some m, some sec, some cs =>
        if m < 60 && sec < 60 then some ((((h * 60 + m) * 60 + sec) * 100 + cs : Nat) : Int) else none
      | _, _, _, _ => none
    | _ => none
  | _ => none

def valOf (k : GKind) (s : Str) : Option GVal :=
  match k with
  | .bool => (boolOf s).map .b
  | .colour => (colourOf s).map .c
  | .float => (floatOf s).map .f
  | .int => (intOf s).map .i
  | .str => some (.s s)

/-! ## event text -/

/-- cut at `\N` and `\n` -/
def cutLines : Str → Str → List Str
  | [], acc => [acc.reverse]
  | '\\' :: 'N' :: rest, acc => acc.reverse :: cutLines rest []
  | '\\' :: 'n' :: rest, acc => acc.reverse :: cutLines rest []
  | c :: rest, acc => cutLines rest (c :: acc)

/-- the runs of a line: plain text up to the first override block, then one run per block -/
def runsOf : Nat → Str → Option Str → Str → List GRun → Option (List GRun)
  | 0, _, _, _, _ => none
  | fuel + 1, s, eff, acc, out =>
    match s with
    | [] => some (out ++ [{ effect := eff, text := acc.reverse }])
    | '{' :: rest =>
      let inner := rest.takeWhile fun c => c ≠ '}' && c ≠ '{'
      match rest.drop inner.length with
      | '}' :: after =>
        if inner.isEmpty then none else
        let out := if eff.isNone && acc.isEmpty then out else out ++ [{ effect := eff, text := acc.reverse }]
        runsOf fuel after (some ('{' :: inner ++ ['}'])) [] out
      | _ => none
    | '}' :: _ => none
    | c :: rest => runsOf fuel rest eff (c :: acc) out

def mapM {α β} (f : α → Option β) : List α → Option (List β)
  | [] => some []
  | a :: as => match f a, mapM f as with
    | some b, some bs => some (b :: bs)
    | _, _ => none

def textOf (t : Str) : Option (List (List GRun)) :=
  mapM (fun l => let l := trimSpace l; runsOf (l.length + 2) l none [] []) (cutLines (trimSpace t) [])

/-! ## the document -/

def splitLines : Str → Str → List Str
  | [], acc => if acc.isEmpty then [] else [acc.reverse]
  | '\r' :: '\n' :: rest, acc => acc.reverse :: splitLines rest []
  | '\n' :: rest, acc => acc.reverse :: splitLines rest []
  | '\r' :: rest, acc => acc.reverse :: splitLines rest []
  | c :: rest, acc => splitLines rest (c :: acc)

inductive SecKind where
  | info | styles | events | unknown
  deriving Repr, DecidableEq

def lowerAscii (s : Str) : Str := s.map fun c => if 'A' ≤ c ∧ c ≤ 'Z' then Char.ofNat (c.toNat + 32) else c

def secKind (line : Str) : Option SecKind :=
  match line with
  | '[' :: rest =>
    if rest.getLast? = some ']' then
      let n := String.ofList (lowerAscii rest.dropLast)
      some (if n = "script info" then .info else if n = "events" then .events
        else if n = "v4 styles" || n = "v4+ styles" || n = "v4 styles+" then .styles else .unknown)
    else none
  | _ => none

/-- group the non-blank lines under their section headers; `none` when text precedes the first header -/
def sectionsAux : List Str → Option (SecKind × List Str) → List (SecKind × List Str) → Option (List (SecKind × List Str))
  | [], cur, acc => some (match cur with | some c => acc ++ [(c.1, c.2.reverse)] | none => acc)
  | l :: ls, cur, acc =>
    match secKind l with
    | some k => sectionsAux ls (some (k, [])) (match cur with | some c => acc ++ [(c.1, c.2.reverse)] | none => acc)
    | none =>
      match cur with
      | none => none
      | some c => sectionsAux ls (some (c.1, l :: c.2)) acc

def sections (lines : List Str) : Option (List (SecKind × List Str)) := sectionsAux lines none []

/-- `Key: value` → (key, value), both trimmed -/
def keyValue (line : Str) : Option (Str × Str) :=
  if line.contains ':' then
    let k := line.takeWhile (· ≠ ':')
    some (trimSpace k, trimSpace (line.drop (k.length + 1)))
  else none

inductive LineKind where
  | comment (c : Str)
  | junk
  | kv (k v : Str)

def classify (line : Str) : LineKind :=
  match line with
  | ';' :: rest => .comment (trimSpace rest)
  | _ => match keyValue line with
    | some (k, v) => .kv k v
    | none => .junk

def commentsOf (ls : List Str) : List Str :=
  ls.filterMap fun l => match classify l with | .comment c => some c | _ => none

/-- script info: the last occurrence of a key wins; an empty string value is "not set" -/
def infoOf (ls : List Str) : Option (List (String × GVal)) :=
  let kvs := ls.filterMap fun l => match classify l with | .kv k v => some (String.ofList k, v) | _ => none
  -- a repeated header: the last occurrence counts, but every occurrence must be well-formed
  let allOk := kvs.all fun (k, v) =>
    match infoTable.find? (fun (h, _, _) => h = k) with
    | none => true
    | some (_, _, kind) =>
      if kind = .str then true
      else if kind = .int then (intOf v).isSome
      else (floatOf (v.map fun c => if c = ',' then '.' else c)).isSome
  if !allOk then none else
  let vals := infoTable.map fun (h, _, kind) =>
    match (kvs.reverse.lookup h) with
    | none => some none
    | some v =>
      if kind = .str then some (if v.isEmpty then none else some (h, GVal.s v))
      else if kind = .int then (intOf v).map fun i => some (h, GVal.i i)
      else (floatOf (v.map fun c => if c = ',' then '.' else c)).map fun b => some (h, GVal.f b)
  (mapM id vals).map fun l => l.filterMap id

def normCol (c : Str) : String := if c = "TertiaryColour".toList then "OutlineColour" else String.ofList c

def nodup (l : List String) : Bool :=
  match l with
  | [] => true
  | a :: as => !as.contains a && nodup as

/-- a `[Styles]` section → its styles -/
def stylesOf : List Str → Option (List String) → Option (List GStyle)
  | [], _ => some []
  | l :: ls, fmt =>
    match classify l with
    | .comment _ => stylesOf ls fmt
    | .junk => stylesOf ls fmt
    | .kv k v =>
      if k = "Format".toList then
        if fmt.isSome then none else
        let cols := (splitC ',' v).map fun c => normCol (trimSpace c)
        if nodup cols && cols.all (fun c => c = "Name" || (styleTable.lookup c).isSome) then stylesOf ls (some cols) else none
      else if k = "Style".toList then
        match fmt with
        | none => none
        | some cols =>
          let cells := splitC ',' v
          if cells.length ≠ cols.length then none else
          let pairs := cols.zip cells
          let name := (pairs.lookup "Name").getD []
          let attrs := styleTable.map fun (col, _, kind) =>
            match pairs.lookup col with
            | none => some none
            | some cell => if cell.isEmpty then some none else (valOf kind cell).map fun v => some (col, v)
          match mapM id attrs, stylesOf ls fmt with
          | some a, some rest => some ({ name := name, attrs := a.filterMap id } :: rest)
          | _, _ => none
      else if fmt.isNone then none else stylesOf ls fmt     -- an unintelligible line

structure REvent where
  ev : GEvent
  styleName : Str

def commaJoin : List Str → Str
  | [] => []
  | [a] => a
  | a :: rest => a ++ ',' :: commaJoin rest

/-- the last column takes the rest of the row, commas included -/
def absorbLast (n : Nat) (cells : List Str) : List Str :=
  cells.take (n - 1) ++ [commaJoin (cells.drop (n - 1))]

def eventOf (cols : List String) (v : Str) : Option REvent :=
  let cells := splitC ',' v
  if cells.length < cols.length then none else
  let pairs := cols.zip (absorbLast cols.length cells)
  let opt {α} (c : String) (f : Str → Option α) : Option (Option α) :=
    match pairs.lookup c with
    | none => some none
    | some cell => (f cell).map some
  match opt "Start" timeOf, opt "End" timeOf, opt "Layer" intOf, opt "MarginL" intOf, opt "MarginR" intOf, opt "MarginV" intOf,
        opt "Marked" (fun s => if s = "Marked=1".toList then some true else if s = "Marked=0".toList then some false else none),
        opt "Text" textOf with
  | some st, some en, some layer, some ml, some mr, some mv, some marked, some text =>
    some { ev := { startCs := st.getD 0, endCs := en.getD 0, layer := layer, marked := marked, marginL := ml, marginR := mr,
                   marginV := mv, effect := (pairs.lookup "Effect").getD [], name := (pairs.lookup "Name").getD [],
                   style := none, lines := text.getD [[{ effect := none, text := [] }]] },
           styleName := (pairs.lookup "Style").getD [] }
  | _, _, _, _, _, _, _, _ => none

/-- an `[Events]` section → its Dialogue events -/
def eventsOf : List Str → Option (List String) → Option (List REvent)
  | [], _ => some []
  | l :: ls, fmt =>
    match classify l with
    | .comment _ => eventsOf ls fmt
    | .junk => eventsOf ls fmt
    | .kv k v =>
      if k = "Format".toList then
        if fmt.isSome then none else
        let cols := (splitC ',' v).map fun c => String.ofList (trimSpace c)
        if nodup cols && cols.all (fun c => eventCols.contains c) then eventsOf ls (some cols) else none
      else if k = "Dialogue".toList then
        match fmt with
        | none => none
        | some cols =>
          match eventOf cols v, eventsOf ls fmt with
          | some e, some rest => some (e :: rest)
          | _, _ => none
      else
        -- Comment / Picture / Sound / Movie / Command events and unintelligible lines: ignored
        if fmt.isNone then none else eventsOf ls fmt

/-- the definition an event's Style field refers to: the name itself, or the name without a leading `*` -/
def resolve (names : List Str) (s : Str) : Option Str :=
  if s.isEmpty then none
  else if names.contains s then some s
  else match s with
    | '*' :: r => if names.contains r then some r else none
    | _ => none

def strLe (a b : Str) : Bool := !(String.ofList b < String.ofList a)

/-- the document a text denotes -/
def decode (doc : Str) : Option GDoc :=
  let doc := match doc with | c :: rest => if c = Char.ofNat 0xFEFF then rest else doc | [] => doc
  let lines := ((splitLines doc []).map trimSpace).filter fun l => !l.isEmpty
  match sections lines with
  | none => none
  | some secs =>
    let known := secs.filter fun s => s.1 ≠ .unknown
    let comments := (known.map fun s => commentsOf s.2).flatten
    let info := infoOf ((secs.filter fun s => s.1 = .info).map (·.2)).flatten
    let styles := mapM (fun s => stylesOf s.2 none) (secs.filter fun s => s.1 = .styles)
    let events := mapM (fun s => eventsOf s.2 none) (secs.filter fun s => s.1 = .events)
    match info, styles, events with
    | some info, some styles, some events =>
      let styles := styles.flatten
      let names := styles.map (·.name)
      if !nodup (names.map String.ofList) || names.any (fun n => n.head? = some '*') then none else
      some { comments := comments, info := info,
             styles := styles.mergeSort fun a b => strLe a.name b.name,
             events := events.flatten.map fun r => { r.ev with style := resolve names r.styleName } }
    | _, _, _ => none

/-! ## the same domain, seen from a `Subtitles` value -/

def kvGet (a : Attrs) (k : String) : Option Str := match a with | none => none | some kv => kv.lookup k.toList

def canonVal (k : GKind) (s : Str) : Option GVal :=
  match k with
  | .bool => if s = "true".toList then some (.b true) else if s = "false".toList then some (.b false) else none
  | .colour => (hexOf s 0).map .c
  | .float => match s with | 'f' :: r => (natOf r).map .f | _ => none
  | .int => (intOf s).map .i
  | .str => some (.s s)

def attrsView (table : List (String × String × GKind)) (a : Attrs) : Option (List (String × GVal)) :=
  (mapM id (table.map fun (col, key, kind) =>
    match kvGet a key with
    | none => some none
    | some s => (canonVal kind s).map fun v => some (col, v))).map fun l => l.filterMap id

def optInt (a : Attrs) (k : String) : Option (Option Int) :=
  match kvGet a k with | none => some none | some s => (intOf s).map some

def eventView (it : CItem) : Option GEvent :=
  if it.startAt % 10000000 ≠ 0 || it.endAt % 10000000 ≠ 0 || it.startAt < 0 || it.endAt < 0 then none else
  let name := (it.lines.head?.map (·.voice)).getD []
  if it.lines.isEmpty || it.lines.any (fun l => l.voice ≠ name) then none else
  match optInt it.attrs "SSALayer", optInt it.attrs "SSAMarginLeft", optInt it.attrs "SSAMarginRight", optInt it.attrs "SSAMarginVertical" with
  | some layer, some ml, some mr, some mv =>
    some { startCs := it.startAt / 10000000, endCs := it.endAt / 10000000, layer := layer,
           marked := (kvGet it.attrs "SSAMarked").map fun s => s = "true".toList,
           marginL := ml, marginR := mr, marginV := mv,
           effect := (kvGet it.attrs "SSAEffect").getD [], name := name, style := it.style,
           lines := it.lines.map fun l => l.items.map fun li => { effect := kvGet li.attrs "SSAEffect", text := li.text } }
  | _, _, _, _ => none

def view (s : Subs) : Option GDoc :=
  let styles := mapM (fun (d : Def) => (attrsView styleTable d.attrs).map fun a => ({ name := d.id, attrs := a } : GStyle)) s.styles
  match attrsView infoTable s.metadata, styles, mapM eventView s.items with
  | some info, some styles, some events =>
    some { comments := match kvGet s.metadata "Comments" with | some c => splitC '\n' c | none => [],
           info := info, styles := styles.mergeSort fun a b => strLe a.name b.name, events := events }
  | _, _, _ => none

/-! ## what a cue list is expected to denote once written -/

/-- a string that survives being a field of a row: no separator, no line break, nothing to trim -/
def cleanField (s : Str) : Bool :=
  trimSpace s = s && !(s.any fun c => c = ',' || c = '\n' || c = '\r')

def cleanValue (s : Str) : Bool := trimSpace s = s && !(s.any fun c => c = '\n' || c = '\r')

/-- the 3-decimal rendering of the double is exact -/
def exact3 (bits : Nat) : Bool :=
  match decodeBits bits with
  | none => false
  | some (_, m, e) => if e ≥ 0 then decide (e < 40) else decide ((m * 1000) % 2 ^ (-e).toNat = 0)

def wellFormedBlock (e : Str) : Bool :=
  match e with
  | '{' :: rest => rest.getLast? = some '}' && !rest.dropLast.isEmpty && !(rest.dropLast.any fun c => c = '{' || c = '}')
  | _ => false

def hasBreak : Str → Bool
  | '\\' :: 'n' :: _ => true
  | '\\' :: 'N' :: _ => true
  | _ :: rest => hasBreak rest
  | [] => false

def cleanText (t : Str) : Bool :=
  !(t.any fun c => c = '{' || c = '}' || c = '\n' || c = '\r') && !hasBreak t && t.getLast? ≠ some '\\'

def repLine (l : Line) : Bool :=
  let whole := (l.items.map fun li => (kvGet li.attrs "SSAEffect").getD [] ++ li.text).flatten
  !l.items.isEmpty && trimSpace whole = whole &&
  (l.items.zipIdx.all fun (li, k) =>
    cleanText li.text &&
    match kvGet li.attrs "SSAEffect" with
    | some e => wellFormedBlock e
    | none => k = 0 && (!li.text.isEmpty || l.items.length = 1))

def denoteEvent (v4plus : Bool) (names : List Str) (it : CItem) : Option GEvent :=
  match optInt it.attrs "SSALayer", optInt it.attrs "SSAMarginLeft", optInt it.attrs "SSAMarginRight", optInt it.attrs "SSAMarginVertical" with
  | some layer, some ml, some mr, some mv =>
    let lay : Option Int := if v4plus then some (layer.getD 0) else none
    let mk : Option Bool := if v4plus then none else some (kvGet it.attrs "SSAMarked" == some "true".toList)
    some { startCs := it.startAt / 10000000, endCs := it.endAt / 10000000, layer := lay, marked := mk,
           marginL := some (ml.getD 0), marginR := some (mr.getD 0), marginV := some (mv.getD 0),
           effect := (kvGet it.attrs "SSAEffect").getD [],
           name := it.lines.foldl (fun n l => if l.voice.isEmpty then n else l.voice) [],
           style := it.style.bind (fun id => if names.contains id then some id else none),
           lines := it.lines.map fun l => l.items.map fun li => { effect := kvGet li.attrs "SSAEffect", text := li.text } }
  | _, _, _, _ => none

def denote (s : Subs) : Option GDoc :=
  let v4plus := kvGet s.metadata "SSAScriptType" = some "v4.00+".toList
  let names := s.styles.map (·.id)
  let metaOk := (infoTable.all fun (_, key, kind) =>
      match kvGet s.metadata key with | some v => kind ≠ .str || cleanValue v | none => true) &&
    (match kvGet s.metadata "Comments" with | some c => (splitC '\n' c).all cleanValue | none => true)
  let stylesOk := s.styles.all fun d =>
    cleanField d.id && d.id.head? ≠ some '*' &&
    (match kvGet d.attrs "SSAFontName" with | some f => cleanField f | none => true) &&
    (styleTable.all fun (_, key, kind) =>
      match kvGet d.attrs key with
      | some v => kind ≠ .float || (match v with | 'f' :: r => (natOf r).any exact3 | _ => false)
      | none => true)
  let itemsOk := s.items.all fun it =>
    decide (0 ≤ it.startAt) && decide (0 ≤ it.endAt) &&
    cleanField ((kvGet it.attrs "SSAEffect").getD []) &&
    -- a reference must resolve: a cue pointing at a style that is not in the style map is not a consistent cue list
    (match it.style with | some id => cleanField id && id.head? ≠ some '*' && names.contains id | none => true) &&
    !it.lines.isEmpty && it.lines.all (fun l => cleanField l.voice && repLine l)
  if !(metaOk && stylesOk && itemsOk) then none else
  match view { s with items := [] } with
  | none => none
  | some g =>
    let events := mapM (denoteEvent v4plus names) s.items
    events.map fun evs => { g with events := evs }

end SSA
end Spec
end Astisub
