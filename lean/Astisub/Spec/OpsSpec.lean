import Astisub.Model.Types

/-!
# Spec/OpsSpec — declarative specifications of the transformations

Written from the property statements (C09–C14), not from the Go code: filters, maps,
cut points, predicates.  Everything here is executable so that the driver can evaluate
the same predicates on the *implementation's* output.
-/

namespace Astisub
namespace Spec

/-- every cue has `start ≤ end` (hypothesis of C09, C10, C14) -/
def WF (xs : List Item) : Prop := ∀ it ∈ xs, it.startAt ≤ it.endAt

instance (xs : List Item) : Decidable (WF xs) := by unfold WF; infer_instance

/-! ## C09 — sync -/

/-- a cue survives a shift by `d` iff its end stays strictly positive -/
def survives (d : Int) (it : Item) : Bool := decide (0 < it.endAt + d)

/-- the shifted cue: both boundaries moved by exactly `d`, a negative start clamped to 0,
    identity and content untouched -/
def shifted (d : Int) (it : Item) : Item :=
  { it with startAt := max 0 (it.startAt + d), endAt := it.endAt + d }

/-- the specification of `Add`: the survivors, in their original order, shifted -/
def addSpec (d : Int) (xs : List Item) : List Item := (xs.filter (survives d)).map (shifted d)

/-! ## C14 — force duration -/

/-- starts and ends are both non-decreasing along the list -/
def Ordered (xs : List Item) : Prop :=
  xs.Pairwise (fun a b => a.startAt ≤ b.startAt ∧ a.endAt ≤ b.endAt)

def clipEnd (d : Int) (it : Item) : Item := if it.endAt > d then { it with endAt := d } else it

/-- what must remain of the original cues: those starting before `d`, clipped to `d` -/
def keptSpec (d : Int) (xs : List Item) : List Item :=
  (xs.filter (fun it => decide (it.startAt < d))).map (clipEnd d)

def lastEnd (xs : List Item) : Int := match xs.getLast? with | none => 0 | some it => it.endAt

def fillerSpec (d : Int) : Item :=
  { uid := 0, startAt := d - 1000000, endAt := d, lines := [["..."]], pay := 0 }

/-- the specification of `ForceDuration` -/
def forceDurationSpec (d : Int) (filler : Bool) (xs : List Item) : List Item :=
  if lastEnd xs = d then xs
  else
    let kept := keptSpec d xs
    if filler && decide (lastEnd kept < d) then kept ++ [fillerSpec d] else kept

/-! ## C10 — fragment -/

/-- `b` is a multiple of `f` -/
def isMultiple (f b : Int) : Prop := ∃ k : Int, b = k * f

/-- the cue strictly contains a multiple of `f` -/
def containsMultiple (f : Int) (it : Item) : Prop :=
  ∃ k : Int, it.startAt < k * f ∧ k * f < it.endAt

/-- `ps` is a chain of consecutive pieces of `it`: first starts at `it.startAt`, each next
    starts where the previous ended, the last ends at `it.endAt`, every piece carries the
    content of `it`. -/
def Chain (it : Item) : List Item → Prop
  | [] => False
  | [p] => p.startAt = it.startAt ∧ p.endAt = it.endAt ∧ p.content = it.content
  | p :: q :: ps =>
    p.startAt = it.startAt ∧ p.content = it.content ∧ it.startAt < p.endAt ∧
      Chain { it with startAt := p.endAt } (q :: ps)

/-! ## C11 — unfragment -/

/-- two cues with identical text whose closed intervals touch or overlap -/
def Touch (a b : Item) : Prop :=
  a.str = b.str ∧ a.startAt ≤ b.endAt ∧ b.startAt ≤ a.endAt

instance (a b : Item) : Decidable (Touch a b) := by unfold Touch; infer_instance

/-- text `s` is on screen at instant `t` -/
def onScreen (xs : List Item) (s : String) (t : Int) : Prop :=
  ∃ it ∈ xs, it.str = s ∧ it.startAt ≤ t ∧ t < it.endAt

end Spec
end Astisub

namespace Astisub
namespace Spec

/-! ## executable forms used by the driver on the implementation's output -/

/-- the multiples of `f` strictly inside `(s, e)`, ascending (`f > 0`; `/` is floor division) -/
def multiplesIn (f s e : Int) : List Int :=
  let k0 := s / f + 1
  let k1 := (e - 1) / f
  (List.range (k1 - k0 + 1).toNat).map (fun (i : Nat) => (k0 + Int.ofNat i) * f)

/-- the pieces `[s,b₁),[b₁,b₂),…,[b_k,e)` of a cue; the last piece is the original cue itself
    (same identity), the others are fresh copies -/
def cutSpec (f : Int) (it : Item) : List Item :=
  let bs := multiplesIn f it.startAt it.endAt
  let starts := it.startAt :: bs
  let ends := bs ++ [it.endAt]
  let n := bs.length
  (List.zip starts ends).zipIdx.map fun (se, i) =>
    { it with uid := if i = n then it.uid else 0, startAt := se.1, endAt := se.2 }

def sortedByStart (ys : List Item) : Bool :=
  match ys with
  | [] => true
  | y :: rest => (rest.all fun z => decide (y.startAt ≤ z.startAt)) && sortedByStart rest

/-- the property predicate of C10 on an (input, output) pair: ordered by start, and exactly
    the multiset of pieces prescribed by `cutSpec` -/
def fragmentOk (f : Int) (xs ys : List Item) : Bool :=
  sortedByStart ys && (ys.isPerm (xs.flatMap (cutSpec f)))

def StartOrdered (xs : List Item) : Prop := xs.Pairwise (fun a b => a.startAt ≤ b.startAt)
instance (xs : List Item) : Decidable (StartOrdered xs) := by unfold StartOrdered; infer_instance

/-- executable predicate of C11 on an (input, output) pair:
    * `ys` is ordered by start and no two of its cues touch;
    * identities: `ys`'s uids are a sub-multiset of `xs`'s, every survivor kept its start and content
      and its end did not shrink;
    * display: for every text, the union of intervals is the same before and after (checked at
      every boundary instant and every midpoint between consecutive boundaries);
    * a cue that touched nothing in `xs` is present unchanged. -/
def boundaries (xs : List Item) : List Int := xs.flatMap fun it => [it.startAt, it.endAt]

def shownAt (xs : List Item) (s : String) (t2 : Int) : Bool :=
  -- instants are doubled so that midpoints are representable: t2 = 2 * t
  xs.any fun it => it.str == s && decide (2 * it.startAt ≤ t2) && decide (t2 < 2 * it.endAt)

def unfragmentOk (xs ys : List Item) : Bool :=
  let noTouch := ys.zipIdx.all fun (a, i) => ys.zipIdx.all fun (b, j) => i ≥ j || !decide (Touch a b)
  let survivors := ys.all fun y => xs.any fun x =>
    x.uid == y.uid && x.startAt == y.startAt && x.content == y.content && decide (x.endAt ≤ y.endAt)
  let nodupUids := (ys.map (·.uid)).eraseDups.length == ys.length
  let bs := (boundaries xs ++ boundaries ys).map (· * 2)
  let probes := bs ++ bs.map (· + 1) ++ bs.map (· - 1)
  let texts := (xs.map (·.str)).eraseDups
  let display := texts.all fun s => probes.all fun t => shownAt xs s t == shownAt ys s t
  let untouched := xs.all fun x =>
    (xs.any fun z => z.uid != x.uid && decide (Touch x z)) || ys.contains x
  sortedByStart ys && noTouch && survivors && nodupUids && display && untouched

/-- C12 order: sorted, same multiset, equal-start cues in input order (uids are distinct in the harness) -/
def orderOk (xs ys : List Item) : Bool :=
  sortedByStart ys && ys.isPerm xs &&
    (ys.zipIdx.all fun (a, i) => ys.zipIdx.all fun (b, j) =>
      !(decide (i < j) && a.startAt == b.startAt) ||
        -- a is before b in xs
        ((xs.idxOf a) < (xs.idxOf b)))

end Spec
end Astisub
