import Astisub.Model.Types

/-!
# Spec/OpsSpec — declarative specifications of the transformations

Written from the property statements (C09–C14), not from the Go code: filters, maps,
cut points, predicates.  Everything here is executable so that the driver can evaluate
the same predicates on the *implementation's* output.
-/

namespace Astisub
namespace Spec

/-- every cue has `start ≤ end` (hypothesis of C09, C10, C14) -/
def WF (xs : List Item) : Prop := ∀ it ∈ xs, it.startAt ≤ it.endAt

instance (xs : List Item) : Decidable (WF xs) := by unfold WF; infer_instance

/-! ## C09 — sync -/

/-- a cue survives a shift by `d` iff its end stays strictly positive -/
def survives (d : Int) (it : Item) : Bool := decide (0 < it.endAt + d)

/-- the shifted cue: both boundaries moved by exactly `d`, a negative start clamped to 0,
    identity and content untouched -/
def shifted (d : Int) (it : Item) : Item :=
  { it with startAt := max 0 (it.startAt + d), endAt := it.endAt + d }

/-- the specification of `Add`: the survivors, in their original order, shifted -/
def addSpec (d : Int) (xs : List Item) : List Item := (xs.filter (survives d)).map (shifted d)

/-! ## C14 — force duration -/

/-- starts and ends are both non-decreasing along the list -/
def Ordered (xs : List Item) : Prop :=
  xs.Pairwise (fun a b => a.startAt ≤ b.startAt ∧ a.endAt ≤ b.endAt)

def clipEnd (d : Int) (it : Item) : Item := if it.endAt > d then { it with endAt := d } else it

/-- what must remain of the original cues: those starting before `d`, clipped to `d` -/
def keptSpec (d : Int) (xs : List Item) : List Item :=
  (xs.filter (fun it => decide (it.startAt < d))).map (clipEnd d)

def lastEnd (xs : List Item) : Int := match xs.getLast? with | none => 0 | some it => it.endAt

def fillerSpec (d : Int) : Item :=
  { uid := 0, startAt := d - 1000000, endAt := d, lines := [["..."]], pay := 0 }

/-- the specification of `ForceDuration` -/
def forceDurationSpec (d : Int) (filler : Bool) (xs : List Item) : List Item :=
  if lastEnd xs = d then xs
  else
    let kept := keptSpec d xs
    if filler && decide (lastEnd kept < d) then kept ++ [fillerSpec d] else kept

/-! ## C10 — fragment -/

/-- `b` is a multiple of `f` -/
def isMultiple (f b : Int) : Prop := ∃ k : Int, b = k * f

/-- the cue strictly contains a multiple of `f` -/
def containsMultiple (f : Int) (it : Item) : Prop :=
  ∃ k : Int, it.startAt < k * f ∧ k * f < it.endAt

/-- `ps` is a chain of consecutive pieces of `it`: first starts at `it.startAt`, each next
    starts where the previous ended, the last ends at `it.endAt`, every piece carries the
    content of `it`. -/
def Chain (it : Item) : List Item → Prop
  | [] => False
  | [p] => p.startAt = it.startAt ∧ p.endAt = it.endAt ∧ p.content = it.content
  | p :: q :: ps =>
    p.startAt = it.startAt ∧ p.content = it.content ∧ it.startAt < p.endAt ∧
      Chain { it with startAt := p.endAt } (q :: ps)

/-! ## C11 — unfragment -/

/-- two cues with identical text whose closed intervals touch or overlap -/
def Touch (a b : Item) : Prop :=
  a.str = b.str ∧ a.startAt ≤ b.endAt ∧ b.startAt ≤ a.endAt

instance (a b : Item) : Decidable (Touch a b) := by unfold Touch; infer_instance

/-- text `s` is on screen at instant `t` -/
def onScreen (xs : List Item) (s : String) (t : Int) : Prop :=
  ∃ it ∈ xs, it.str = s ∧ it.startAt ≤ t ∧ t < it.endAt

end Spec
end Astisub
