import Astisub.Go.Strings

/-!
# Spec/TTML — what a TTML document denotes (independent decoder)

Written from the TTML description (TTML1 §8 content, §10 timing, §12 metadata), not from the Go
code; it shares only `Go.isSpace` with the model.  Input: the token list any namespace-aware XML
parser reports for the document.  `decode` answers `none` for documents outside the class C03
speaks about:

* root `tt`; `head/styling/style`, `head/layout/region`, `head/metadata/{title,copyright}`,
  `body/div/p` (any number of `div`s; no nested `div`); `p` contains text, `span` and `br`, `span`
  contains text and `br`;
* every `p` has `begin` and `end`, each one of the time-expression forms of the property:
  `hh:mm:ss`, `hh:mm:ss.f` (1–3 digits), `hh:mm:ss:ff` (needs `frameRate`, `ff < frameRate`),
  `n[.n]` + `h | m | s | ms | f | t` (`f` / `t` need `frameRate` / `tickRate`);
* white space: a text node made of white space only is indentation when it contains a line
  break and sits directly in `p` (ignored); any other text node must not contain a line break,
  and the text a paragraph starts with does not begin with white space (the property does not say
  how insignificant white space is normalised);
* identifiers are unique and non-empty, every reference resolves, an attribute local name occurs
  once per element, `zIndex` is an integer, no attribute value contains a line break.

A time is an exact rational number of nanoseconds `num / den`.
-/

namespace Astisub
namespace Spec
namespace TTML
open Go

inductive Tok where
  | start (space name : Str) (attrs : List (Str × Str × Str))
  | stop
  | text (s : Str)
  | other
  deriving Repr, Inhabited

abbrev AttrL := List (Str × Str)      -- styling attributes: XML local name ↦ value, sorted by name

structure GRun where
  text : Str
  style : Option Str
  attrs : AttrL
  deriving Repr, DecidableEq, Inhabited

structure GCue where
  b : Nat × Nat
  e : Nat × Nat
  style : Option Str
  region : Option Str
  attrs : AttrL
  lines : List (List GRun)
  deriving Repr, DecidableEq, Inhabited

structure GDef where
  id : Str
  ref : Option Str
  attrs : AttrL
  deriving Repr, DecidableEq, Inhabited

structure GDoc where
  cues : List GCue := []
  styles : List GDef := []
  regions : List GDef := []
  title : Str := []
  copyright : Str := []
  lang : Str := []
  deriving Repr, DecidableEq, Inhabited

/-! ## time expressions -/

def isDig (c : Char) : Bool := '0' ≤ c && c ≤ '9'

def num? (s : Str) : Option Nat :=
  if s.isEmpty || !s.all isDig then none else some (s.foldl (fun a c => a * 10 + (c.toNat - 48)) 0)

def splitAt (c : Char) (s : Str) : List Str :=
  s.foldr (fun x acc => if x = c then [] :: acc else match acc with | h :: t => (x :: h) :: t | [] => [[x]]) [[]]

/-- `digits[.digits]` → numerator, denominator (a power of ten) -/
def decimal? (s : Str) : Option (Nat × Nat) :=
  match splitAt '.' s with
  | [i] => (num? i).map fun n => (n, 1)
  | [i, f] => match num? i, num? f with
    | some _, some _ => (num? (i ++ f)).map fun n => (n, 10 ^ f.length)
    | _, _ => none
  | _ => none

def stripSuffix? (suf s : Str) : Option Str :=
  if s.length ≥ suf.length ∧ s.drop (s.length - suf.length) = suf then some (s.take (s.length - suf.length)) else none

/-- the instant (ns, exact rational) a time expression denotes under the document's frame and tick rate -/
def denote (s : Str) (fr tr : Nat) : Option (Nat × Nat) :=
  match splitAt ':' s with
  | [o] =>
    -- offset time
    match stripSuffix? "ms".toList o with
    | some v => (decimal? v).map fun (n, d) => (n * 1000000, d)
    | none =>
      match o.getLast?, decimal? o.dropLast with
      | some 'h', some (n, d) => some (n * 3600000000000, d)
      | some 'm', some (n, d) => some (n * 60000000000, d)
      | some 's', some (n, d) => some (n * 1000000000, d)
      | some 'f', some (n, d) => if fr > 0 then some (n * 1000000000, d * fr) else none
      | some 't', some (n, d) => if tr > 0 then some (n * 1000000000, d * tr) else none
      | _, _ => none
  | [h, m, sec] =>
    let (sw, frac) : Str × Option Str := match splitAt '.' sec with
      | [a] => (a, none)
      | [a, f] => (a, some f)
      | _ => ([], none)
    match num? h, num? m, num? sw with
    | some hh, some mm, some ss =>
      if h.length < 2 || m.length ≠ 2 || sw.length ≠ 2 || mm ≥ 60 || ss ≥ 60 then none else
      let whole := (hh * 3600 + mm * 60 + ss) * 1000000000
      match frac with
      | none => some (whole, 1)
      | some f =>
        if f.length = 0 || f.length > 3 then none else
        (num? f).map fun fv => (whole + fv * 10 ^ (9 - f.length), 1)
    | _, _, _ => none
  | [h, m, sec, ff] =>
    match num? h, num? m, num? sec, num? ff with
    | some hh, some mm, some ss, some f =>
      if h.length < 2 || m.length ≠ 2 || sec.length ≠ 2 || mm ≥ 60 || ss ≥ 60 || fr = 0 || f ≥ fr then none else
      some ((hh * 3600 + mm * 60 + ss) * 1000000000 * fr + f * 1000000000, fr)
    | _, _, _, _ => none
  | _ => none

/-- `t` is the instant `q` within 1 ns (hence equal when `q` is a whole number of ns) -/
def within1 (t : Int) (q : Nat × Nat) : Bool :=
  decide (0 ≤ t) && decide (q.2 > 0) &&
  (let d : Int := t * (q.2 : Int) - (q.1 : Int); decide (-(q.2 : Int) < d) && decide (d < (q.2 : Int)))

/-! ## document structure -/

def stylingNames : List String :=
  ["backgroundColor", "color", "direction", "display", "displayAlign", "extent", "fontFamily", "fontSize", "fontStyle",
   "fontWeight", "lineHeight", "opacity", "origin", "overflow", "padding", "showBackground", "textAlign", "textDecoration",
   "textOutline", "unicodeBidi", "visibility", "wrapOption", "writingMode", "zIndex"]

def isDecl (a : Str × Str × Str) : Bool := a.1 = "xmlns".toList || (a.1 = [] && a.2.1 = "xmlns".toList)

/-- the value of the attribute with this local name: `none` = absent; `some none` = ambiguous -/
def attr? (attrs : List (Str × Str × Str)) (name : String) : Option (Option Str) :=
  match (attrs.filter fun a => !isDecl a && a.2.1 = name.toList) with
  | [] => none
  | [a] => some (some a.2.2)
  | _ => some none

def trimS (s : Str) : Str := ((s.dropWhile isSpace).reverse.dropWhile isSpace).reverse

def int? (s : Str) : Option Int :=
  match s with
  | '-' :: r => (num? r).map fun n => -(n : Int)
  | '+' :: r => (num? r).map fun n => (n : Int)
  | _ => (num? s).map fun n => (n : Int)

def showInt (i : Int) : Str := (toString i).toList

/-- the styling attributes of an element (`none`: ambiguous or ill-typed) -/
def styling (attrs : List (Str × Str × Str)) : Option AttrL :=
  stylingNames.foldr (fun n acc =>
    match acc, attr? attrs n with
    | none, _ => none
    | some l, none => some l
    | some _, some none => none
    | some l, some (some v) =>
      if n = "zIndex" then (int? (trimS v)).map fun z => (n.toList, showInt z) :: l
      else some ((n.toList, v) :: l)) (some [])

/-- optional single-valued reference attribute: `none` = ambiguous -/
def ref? (attrs : List (Str × Str × Str)) (name : String) : Option (Option Str) :=
  match attr? attrs name with
  | none => some none
  | some none => none
  | some (some v) => if v.isEmpty then none else some (some v)

structure PState where
  b : Nat × Nat
  e : Nat × Nat
  style : Option Str
  region : Option Str
  attrs : AttrL
  done : List (List GRun) := []
  cur : List GRun := []
  span : Option (Option Str × AttrL) := none   -- inside a span: its style reference and attributes
  seg : Str := []                               -- text of the current segment of the span
  inBr : Bool := false
  deriving Repr, Inhabited

structure St where
  path : List Str := []          -- local names of the open elements, innermost first
  fr : Nat := 0
  tr : Nat := 0
  doc : GDoc := {}
  p : Option PState := none
  buf : Str := []                -- text of a title / copyright element
  finished : Bool := false
  deriving Repr, Inhabited

def natAttr (attrs : List (Str × Str × Str)) (name : String) : Option Nat :=
  match attr? attrs name with
  | none => some 0
  | some none => none
  | some (some v) => num? (trimS v)

def hasNL (s : Str) : Bool := s.any fun c => c = '\n'
def allSpace (s : Str) : Bool := s.all isSpace

def mkDef (attrs : List (Str × Str × Str)) : Option GDef :=
  match attr? attrs "id", ref? attrs "style", styling attrs with
  | some (some id), some r, some a => if id.isEmpty then none else some { id := id, ref := r, attrs := a }
  | _, _, _ => none

def step (st : St) (t : Tok) : Option St :=
  if st.finished then (match t with | .other => some st | .text s => if allSpace s then some st else none | _ => none) else
  match t with
  | .other => some st
  | .start _ name attrs =>
    -- a line break inside an attribute value: XML normalises a literal one to a space, a tokenizer that does not
    -- cannot tell it from `&#xA;` any more; such documents are outside the class
    if attrs.any (fun a => a.2.2.any fun c => c = '\n') then none else
    let path := name :: st.path
    let st := { st with path := path }
    match st.p with
    | some p =>
      -- inside a paragraph
      if p.inBr then none
      else if name = "br".toList then
        match p.span with
        | none => if path.length = 5 then some { st with p := some { p with done := p.done ++ [p.cur], cur := [], inBr := true } } else none
        | some (sty, sa) =>
          some { st with p := some { p with done := p.done ++ [p.cur ++ [{ text := p.seg, style := sty, attrs := sa }]], cur := [], seg := [], inBr := true } }
      else if name = "span".toList && p.span.isNone && path.length = 5 then
        match ref? attrs "style", styling attrs with
        | some sty, some sa => some { st with p := some { p with span := some (sty, sa), seg := [] } }
        | _, _ => none
      else none
    | none =>
      match path.map String.ofList with
      | ["tt"] =>
        match natAttr attrs "frameRate", natAttr attrs "tickRate" with
        | some fr, some tr =>
          match attr? attrs "lang" with
          | some none => none
          | some (some l) => some { st with fr := fr, tr := tr, doc := { st.doc with lang := l } }
          | none => some { st with fr := fr, tr := tr }
        | _, _ => none
      | ["style", "styling", "head", "tt"] => (mkDef attrs).map fun d => { st with doc := { st.doc with styles := st.doc.styles ++ [d] } }
      | ["region", "layout", "head", "tt"] => (mkDef attrs).map fun d => { st with doc := { st.doc with regions := st.doc.regions ++ [d] } }
      | ["title", "metadata", "head", "tt"] => some { st with buf := [] }
      | ["copyright", "metadata", "head", "tt"] => some { st with buf := [] }
      | ["p", "div", "body", "tt"] =>
        match attr? attrs "begin", attr? attrs "end", ref? attrs "style", ref? attrs "region", styling attrs with
        | some (some b), some (some e), some sty, some reg, some sa =>
          match denote b st.fr st.tr, denote e st.fr st.tr with
          | some b, some e => some { st with p := some { b := b, e := e, style := sty, region := reg, attrs := sa } }
          | _, _ => none
        | _, _, _, _, _ => none
      | _ =>
        -- anything else: a `p`, `div`, `span`, `br`, `style`, `region` elsewhere is outside the class; foreign elements are skipped
        if path.length = 1 then none
        else if [("p".toList), "div".toList, "span".toList, "br".toList, "style".toList, "region".toList, "body".toList, "head".toList, "tt".toList].contains name then
          (if (path.map String.ofList) ∈ [["head", "tt"], ["body", "tt"], ["div", "body", "tt"]] then some st else none)
        else some st
  | .stop =>
    match st.path with
    | [] => none
    | name :: rest =>
      let st' := { st with path := rest, finished := rest.isEmpty }
      match st.p with
      | some p =>
        if p.inBr then some { st' with p := some { p with inBr := false } }
        else match p.span with
          | some (sty, sa) => some { st' with p := some { p with cur := p.cur ++ [{ text := p.seg, style := sty, attrs := sa }], span := none, seg := [] } }
          | none =>
            -- end of the paragraph
            some { st' with p := none, doc := { st.doc with cues := st.doc.cues ++
              [{ b := p.b, e := p.e, style := p.style, region := p.region, attrs := p.attrs, lines := p.done ++ [p.cur] }] } }
      | none =>
        match (name :: rest).map String.ofList with
        | ["title", "metadata", "head", "tt"] => some { st' with doc := { st.doc with title := st.buf } }
        | ["copyright", "metadata", "head", "tt"] => some { st' with doc := { st.doc with copyright := st.buf } }
        | _ => some st'
  | .text s =>
    match st.p with
    | some p =>
      if p.inBr then none
      else match p.span with
        | some _ => if hasNL s then none else some { st with p := some { p with seg := p.seg ++ s } }
        | none =>
          if allSpace s then (if hasNL s then some st else none)
          else if hasNL s then none
          -- white space at the very beginning of a paragraph is not significant (xml:space="default"): nothing is said
          else if p.done.isEmpty && p.cur.isEmpty && (s.head?.map isSpace).getD false then none
          else some { st with p := some { p with cur := p.cur ++ [{ text := s, style := none, attrs := [] }] } }
    | none =>
      match st.path.map String.ofList with
      | ["title", "metadata", "head", "tt"] => some { st with buf := st.buf ++ s }
      | ["copyright", "metadata", "head", "tt"] => some { st with buf := st.buf ++ s }
      | _ => some st

def run : List Tok → St → Option St
  | [], st => some st
  | t :: ts, st => match step st t with
    | some st' => run ts st'
    | none => none

def nodup (l : List Str) : Bool :=
  match l with
  | [] => true
  | a :: r => !r.contains a && nodup r

/-- the document a token list denotes -/
def decode (toks : List Tok) : Option GDoc :=
  match run toks {} with
  | none => none
  | some st =>
    if !st.finished then none else
    let d := st.doc
    let sids := d.styles.map (·.id)
    let rids := d.regions.map (·.id)
    let okRef (r : Option Str) (ids : List Str) : Bool := match r with | none => true | some x => ids.contains x
    if nodup sids && nodup rids
      && d.styles.all (fun s => okRef s.ref sids) && d.regions.all (fun s => okRef s.ref sids)
      && d.cues.all (fun c => okRef c.style sids && okRef c.region rids && c.lines.all fun l => l.all fun r => okRef r.style sids)
    then some d else none

def languageTable : List (String × String) :=
  [("zh", "chinese"), ("en", "english"), ("ja", "japanese"), ("fr", "french"), ("no", "norwegian")]

/-- the language names the library knows, by primary language subtag -/
def languageName (lang : Str) : Option Str :=
  let prim := lang.takeWhile (· != '-')
  languageTable.findSome? fun (c, n) => if prim = c.toList then some n.toList else none

/-- the `xml:lang` code of a language name the library knows -/
def languageCode (name : Str) : Option Str :=
  languageTable.findSome? fun (c, n) => if name = n.toList then some c.toList else none

end TTML
end Spec
end Astisub
