import Astisub.Go.Strings
import Astisub.Generated.STLTables

/-!
# Spec/STL — what an EBU Tech 3264 file denotes (independent decoder)

Written from the format description (Tech 3264-E: GSI block layout, TTI block layout, control
codes of the text field), not from `stl.go`.  It shares with the model only the string helper
`Go.trimSpace` and the *data* of the Latin code table / composition table
(`Generated/STLTables.lean`; the table itself is checked against the standard's structure by the
theorems of `Props/C05.lean`: ASCII positions, the 13 floating diacritics at 0xC1–0xCF, injective).

`decode` is `Option`-valued: `none` = not a well-formed file of the tolerated class, the property
says nothing.  The tolerated class: GSI fields made of printable ASCII, numeric fields made of
digits, valid dates, DFC `STL25.01`/`STL30.01`, DSC `0`/`1`/`2`, CCT `00`, timecodes in range;
text fields made of table characters, a floating diacritic always followed by a letter cell,
the style codes 0x80–0x85, line break 0x8A, unused space 0x8F and — for teletext — the spacing
attributes 0x00–0x07, 0x0A–0x0F; a teletext row has no redundant colour / size / style code (the runs of a row are the stretches between attribute codes).
-/

namespace Astisub
namespace Spec
namespace STL
open Go

abbrev Bytes := List Nat

structure Run where
  text : Str
  italic : Option Bool := none
  underline : Option Bool := none
  boxing : Option Bool := none
  color : Option Nat := none
  dh : Option Bool := none
  ds : Option Bool := none
  dw : Option Bool := none
  spacesBefore : Nat := 0
  spacesAfter : Nat := 0
  deriving Repr, DecidableEq, Inhabited

structure Cue where
  startNs : Int
  endNs : Int
  just : Nat            -- 0 unchanged, 1 left, 2 centred, 3 right
  vp : Nat
  nrows : Nat           -- rows of the text field (line breaks + 1)
  lines : List (List Run)
  deriving Repr, DecidableEq, Inhabited

structure Doc where
  fr : Nat
  dsc : Nat             -- 0, 1, 2
  lang : Bytes          -- the two characters of LC
  texts : List Bytes    -- OPT OET TPT TET TN TCD SLR CO PUB EN ECD, blanks removed at both ends
  cd : Nat × Nat × Nat  -- yy mm dd
  rd : Nat × Nat × Nat
  rn : Nat
  mnc : Nat
  mnr : Nat
  tcpNs : Int           -- programme start as an instant
  cues : List Cue
  deriving Repr, DecidableEq, Inhabited

def sl (b : Bytes) (lo n : Nat) : Bytes := (b.drop lo).take n

def printable (b : Bytes) : Bool := b.all fun c => 0x20 ≤ c && c ≤ 0x7E

def strip (b : Bytes) : Bytes := ((b.dropWhile (· == 0x20)).reverse.dropWhile (· == 0x20)).reverse

def textField (b : Bytes) (lo n : Nat) : Option Bytes :=
  let f := sl b lo n
  if f.length == n && printable f then some (strip f) else none

def digits : Bytes → Option Nat
  | [] => none
  | l => l.foldl (fun acc c => match acc with
      | some v => if 0x30 ≤ c && c ≤ 0x39 then some (10 * v + (c - 0x30)) else none
      | none => none) (some 0)

def numField (b : Bytes) (lo n : Nat) : Option Nat :=
  let f := sl b lo n
  if f.length == n then digits f else none

def monthDays (m y : Nat) : Nat :=
  match m with
  | 2 => if y % 4 == 0 then 29 else 28      -- two-digit years 1969–2068: every fourth is a leap year
  | 4 | 6 | 9 | 11 => 30
  | _ => 31

def dateField (b : Bytes) (lo : Nat) : Option (Nat × Nat × Nat) :=
  match numField b lo 2, numField b (lo + 2) 2, numField b (lo + 4) 2 with
  | some y, some m, some d => if 1 ≤ m && m ≤ 12 && 1 ≤ d && d ≤ monthDays m y then some (y, m, d) else none
  | _, _, _ => none

/-- the least instant (ns) that lies in frame `f` of second `h:m:s` at `fr` frames per second -/
def instant (fr h m s f : Nat) : Int :=
  (((h * 3600 + m * 60 + s) * 1000000000 + (f * 1000000000 + fr - 1) / fr : Nat) : Int)

def tcOK (fr h m s f : Nat) : Bool := h < 24 && m < 60 && s < 60 && f < fr

def tcText (b : Bytes) (lo fr : Nat) : Option Int :=
  match numField b lo 2, numField b (lo + 2) 2, numField b (lo + 4) 2, numField b (lo + 6) 2 with
  | some h, some m, some s, some f => if tcOK fr h m s f then some (instant fr h m s f) else none
  | _, _, _, _ => none

/-! ## text field -/

def tab (k : Nat) : Option (List Nat) := Generated.STL.cct12336.lookup k
def isDia (k : Nat) : Bool := 0xC1 ≤ k && k ≤ 0xCF && (tab k).isSome
def isLetter (k : Nat) : Bool := (0x41 ≤ k && k ≤ 0x5A) || (0x61 ≤ k && k ≤ 0x7A)

/-- a diacritic followed by a character: the composed character where Unicode has one, else base + combining mark -/
def compose (k a : Nat) : List Nat :=
  match Generated.STL.nfcPairs.find? fun e => e.1 == k && e.2.1 == a with
  | some e => e.2.2
  | none => (tab k).getD [] ++ (tab a).getD []

structure Sty where
  italic : Option Bool := none
  underline : Option Bool := none
  boxing : Option Bool := none
  color : Option Nat := none
  dh : Option Bool := none
  ds : Option Bool := none
  dw : Option Bool := none
  deriving Repr, DecidableEq, Inhabited

inductive Cell where
  | ch (cps : List Nat)            -- a displayed character
  | code (s : Sty)                 -- an attribute code: the style that holds from here on
  deriving Repr

def styCode (s : Sty) (v : Nat) : Option Sty :=
  match v with
  | 0x80 => some { s with italic := some true }
  | 0x81 => some { s with italic := some false }
  | 0x82 => some { s with underline := some true }
  | 0x83 => some { s with underline := some false }
  | 0x84 => some { s with boxing := some true }
  | 0x85 => some { s with boxing := some false }
  | _ => none

def countSp : Str → Nat
  | ' ' :: r => countSp r + 1
  | _ => 0

def mkRun (s : Sty) (t : Str) (tele : Bool) : Option Run :=
  if trimSpace t = [] then none else
  some { text := trimSpace t, italic := s.italic, underline := s.underline, boxing := s.boxing, color := s.color,
         dh := s.dh, ds := s.ds, dw := s.dw,
         spacesBefore := if tele then countSp t else 0, spacesAfter := if tele then countSp t.reverse else 0 }

/-- open subtitling row: returns the runs (stretches between style codes, blanks dropped) -/
def openRow : Bytes → Sty → Str → List Run → Option (List Run)
  | [], s, t, acc => some (acc ++ (mkRun s t false).toList)
  | v :: rest, s, t, acc =>
    if v == 0x8F then openRow rest s t acc
    else match styCode s v with
      | some s' => openRow rest s' [] (acc ++ (mkRun s t false).toList)
      | none =>
        if isDia v then
          match rest with
          | k :: rest' => if isLetter k then openRow rest' s (t ++ (compose k v).map Char.ofNat) acc else none
          | [] => none
        else match tab v with
          | some cps => if v < 0x20 then none else openRow rest s (t ++ cps.map Char.ofNat) acc
          | none => none

/-- teletext row. `box`: 0 = before the box, 1 = inside, 2 = after -/
def teleRow : Bytes → Sty → Nat → Str → List Run → Option (List Run)
  | [], s, _, t, acc => some (acc ++ (mkRun s t true).toList)
  | v :: rest, s, box, t, acc =>
    if v == 0x8F then teleRow rest s box t acc
    else if v == 0x0B then teleRow rest s 1 t acc
    else if v == 0x0A then teleRow rest s (if box == 1 then 2 else box) t acc
    else if v ≤ 0x07 then
      if s.color == some v then none      -- a redundant colour code: outside the class
      else teleRow rest { s with color := some v } box [] (acc ++ (mkRun s t true).toList)
    else if v == 0x0C then
      -- normal size: tolerated when some size attribute is on
      if s.dh == some true || s.ds == some true || s.dw == some true then
        teleRow rest { s with dh := some false, ds := some false, dw := some false } box [] (acc ++ (mkRun s t true).toList)
      else none
    else if v == 0x0D then (if s.dh == some true then none else teleRow rest { s with dh := some true } box [] (acc ++ (mkRun s t true).toList))
    else if v == 0x0E then (if s.dw == some true then none else teleRow rest { s with dw := some true } box [] (acc ++ (mkRun s t true).toList))
    else if v == 0x0F then (if s.ds == some true then none else teleRow rest { s with ds := some true } box [] (acc ++ (mkRun s t true).toList))
    else match styCode s v with
      | some s' => if s' == s then none else teleRow rest s' box [] (acc ++ (mkRun s t true).toList)
      | none =>
        if v < 0x20 then none
        else if isDia v then
          match rest with
          | k :: rest' =>
            if isLetter k then (if box == 1 then teleRow rest' s box (t ++ (compose k v).map Char.ofNat) acc else teleRow rest' s box t acc)
            else none
          | [] => none
        else match tab v with
          | some cps => if box == 1 then teleRow rest s box (t ++ cps.map Char.ofNat) acc else teleRow rest s box t acc
          | none => none

def splitAt8A : Bytes → List Bytes
  | [] => [[]]
  | x :: xs => if x == 0x8A then [] :: splitAt8A xs else
    match splitAt8A xs with
    | h :: t => (x :: h) :: t
    | [] => [[x]]

def mapM {α β} (f : α → Option β) : List α → Option (List β)
  | [] => some []
  | a :: as => match f a, mapM f as with
    | some b, some bs => some (b :: bs)
    | _, _ => none

/-- one TTI block; `some none` = user data -/
def tti (fr dsc : Nat) (off : Int) (p : Bytes) : Option (Option Cue) :=
  if p.length ≠ 128 then none
  else if p.getD 3 0 == 0xFE then some none
  else
    let g := fun i => p.getD i 0
    if !(tcOK fr (g 5) (g 6) (g 7) (g 8) && tcOK fr (g 9) (g 10) (g 11) (g 12)) then none
    else if g 14 > 3 then none
    else
      let rows := splitAt8A (p.drop 16)
      match mapM (fun r => if dsc == 0 then openRow r {} [] [] else teleRow r {} 0 [] []) rows with
      | none => none
      | some ls =>
        some (some { startNs := instant fr (g 5) (g 6) (g 7) (g 8) - off, endNs := instant fr (g 9) (g 10) (g 11) (g 12) - off,
                     just := g 14, vp := g 13, nrows := rows.length, lines := ls.filter (fun l => !l.isEmpty) })

def blocks : Nat → Bytes → List Bytes
  | 0, _ => []
  | fuel + 1, b => if b.isEmpty then [] else b.take 128 :: blocks fuel (b.drop 128)

def lit (s : String) : Bytes := s.toList.map Char.toNat

/-- the denotation of a file -/
def decode (ignoreTCP : Bool) (doc : Bytes) : Option Doc :=
  if doc.length < 1024 || (doc.length - 1024) % 128 ≠ 0 then none else
  let b := doc.take 1024
  let fr? : Option Nat := if sl b 3 8 == lit "STL25.01" then some 25 else if sl b 3 8 == lit "STL30.01" then some 30 else none
  let dsc? : Option Nat := match b.getD 11 0 with | 0x30 => some 0 | 0x31 => some 1 | 0x32 => some 2 | _ => none
  match fr?, dsc? with
  | some fr, some dsc =>
    if sl b 12 2 != lit "00" then none else
    if !(printable (sl b 0 3) && printable (sl b 14 2) && (b.getD 255 0 == 0x30 || b.getD 255 0 == 0x31)) then none else
    match mapM (fun (lo, n) => textField b lo n) [(16, 32), (48, 32), (80, 32), (112, 32), (144, 32), (176, 32), (208, 16), (274, 3), (277, 32), (309, 32), (341, 32)] with
    | none => none
    | some texts =>
      match dateField b 224, dateField b 230, numField b 236 2, numField b 238 5, numField b 243 5, numField b 248 3 with
      | some cd, some rd, some rn, some _, some _, some _ =>
        match numField b 251 2, numField b 253 2, tcText b 256 fr, tcText b 264 fr, numField b 272 1, numField b 273 1 with
        | some mnc, some mnr, some tcp, some _, some _, some _ =>
          let off : Int := if ignoreTCP then 0 else tcp
          match mapM (tti fr dsc off) (blocks (doc.length) (doc.drop 1024)) with
          | none => none
          | some cs =>
            some { fr := fr, dsc := dsc, lang := strip (sl b 14 2), texts := texts, cd := cd, rd := rd, rn := rn, mnc := mnc, mnr := mnr,
                   tcpNs := off, cues := cs.filterMap id }
        | _, _, _, _, _, _ => none
      | _, _, _, _, _, _ => none
  | _, _ => none

end STL
end Spec
end Astisub
