import Astisub.Go.Strings
import Astisub.Go.Strconv

/-!
# Spec/VTT — what a WebVTT document denotes (independent decoder)

Written from the format description (W3C WebVTT, in the dialect the library speaks: `Region: id=…`
definition lines, `X-TIMESTAMP-MAP` of RFC 8216), not from the Go code; it shares only string
helpers (`trimSpace`, `splitOn`, `fields`, …) with the model.  `decode` is defined on well-formed
documents with the tolerated variations of C02 (any EOL convention, BOM, text after `WEBVTT`,
hours optional, 0–3 fraction digits, identifiers present / absent / not numeric, any white space
around `-->` and before the settings, blank-line padding, indentation of lines, voice spans closed
or left open, tags left open until the end of the cue); it answers `none` for anything else —
the property says nothing about such documents.  In particular `none` for: markup that is not
properly nested, two voice spans on one line, the character references `&gt; &lrm; &rlm;` (the
library does not know them), a `STYLE` block whose last line does not end with `}` (the library's
CSS heuristic looks for it), unknown settings, a region used before its definition.
-/

namespace Astisub
namespace Spec
namespace VTT
open Go

structure GTag where
  name : Str
  classes : List Str
  annotation : Str
  deriving Repr, DecidableEq, BEq

structure GRun where
  text : Str
  tags : List GTag
  ts : Option Nat            -- inline timestamp (ms) that precedes the run
  deriving Repr, DecidableEq, BEq

structure GLine where
  voice : Str
  runs : List GRun
  deriving Repr, DecidableEq, BEq

structure GCue where
  id : Int                    -- numeric identifier, 0 = none
  comments : List Str
  startMs : Nat
  endMs : Nat
  align : Str
  line : Str
  position : Str
  size : Str
  vertical : Str
  region : Option Str
  lines : List GLine
  deriving Repr, DecidableEq, BEq

structure GRegion where
  id : Str
  lines : Str
  anchor : Str
  scroll : Str
  viewport : Str
  width : Str
  deriving Repr, DecidableEq, BEq

structure GDoc where
  cues : List GCue
  regions : List GRegion
  styles : List Str
  tsmap : Option (Int × Int)  -- LOCAL in ns, MPEGTS
  deriving Repr, DecidableEq, BEq

def mapM {α β} (f : α → Option β) : List α → Option (List β)
  | [] => some []
  | a :: as => match f a, mapM f as with
    | some b, some bs => some (b :: bs)
    | _, _ => none

/-- bytes → lines: LF, CRLF and lone CR each end a line -/
def splitLines : Str → Str → List Str
  | [], acc => if acc.isEmpty then [] else [acc.reverse]
  | '\r' :: '\n' :: rest, acc => acc.reverse :: splitLines rest []
  | '\n' :: rest, acc => acc.reverse :: splitLines rest []
  | '\r' :: rest, acc => acc.reverse :: splitLines rest []
  | c :: rest, acc => splitLines rest (c :: acc)

def isDigit (c : Char) : Bool := '0' ≤ c && c ≤ '9'
def isAlpha (c : Char) : Bool := ('a' ≤ c && c ≤ 'z') || ('A' ≤ c && c ≤ 'Z')
def isBlank (c : Char) : Bool := c = ' ' || c = '\t'

def natOf (s : Str) : Option Nat :=
  if s.isEmpty || !s.all isDigit then none else some (s.foldl (fun a c => a * 10 + (c.toNat - 48)) 0)

/-- `[h+:]m+:s+[.f{1,3}]` → milliseconds -/
def timeMs (s : Str) : Option Nat :=
  let s := trimSpace s
  let (hms, frac) : Str × Option Str :=
    match splitC '.' s with
    | [a, b] => (a, some b)
    | _ => (s, none)
  let f : Option Nat := match frac with
    | none => some 0
    | some fr => if fr.length > 3 then none else (natOf fr).map (· * 10 ^ (3 - fr.length))
  match f, (splitC ':' hms).map natOf with
  | some f, [some h, some m, some sec] =>
    if m < 60 && sec < 60 && h < 1000000 then some (((h * 60 + m) * 60 + sec) * 1000 + f) else none
  | some f, [some m, some sec] =>
    if m < 60 && sec < 60 then some ((m * 60 + sec) * 1000 + f) else none
  | _, _ => none

/-! ### cue text -/

structure TextSt where
  stack : List GTag := []
  voice : Option Str := none
  pending : Option Nat := none       -- a timestamp waiting for its text
  acc : Str := []                    -- text being collected (reversed)
  runs : List GRun := []
  deriving Repr

def flushText (st : TextSt) : TextSt :=
  if st.acc.isEmpty then st else
  let text := st.acc.reverse
  if trimSpace text = [] then
    -- white space between a timestamp and the markup that follows it is not a run of its own
    if st.pending.isSome then { st with acc := [] }
    else { st with acc := [], runs := st.runs ++ [{ text := text, tags := st.stack, ts := none }] }
  else { st with acc := [], pending := none, runs := st.runs ++ [{ text := text, tags := st.stack, ts := st.pending }] }

/-- `(\d{2,}:)?\d\d:\d\d\.\d{3}` strictly, as an inline timestamp must be written -/
def inlineTs (s : Str) : Option Nat :=
  let shape (p : Str) (n : Nat) : Bool := p.length = n && p.all isDigit
  match splitC '.' s with
  | [hms, fr] =>
    if !shape fr 3 then none else
    match splitC ':' hms with
    | [h, m, sec] => if h.length ≥ 2 && h.all isDigit && h.length ≤ 6 && shape m 2 && shape sec 2 then timeMs s else none
    | [m, sec] => if shape m 2 && shape sec 2 then timeMs s else none
    | _ => none
  | _ => none

/-- the cue text of one line; `none` = not well-formed -/
def textLine : Nat → Str → TextSt → Option TextSt
  | 0, _, _ => none
  | _ + 1, [], st => some (flushText st)
  | fuel + 1, '<' :: rest, st =>
    let body := rest.takeWhile (· != '>')
    match rest.drop body.length with
    | [] => none                                   -- a raw `<` that opens nothing
    | _ :: after =>
      if body.any (fun c => c = '<' || c = '&') then none else
      let st := flushText st
      match body with
      | '/' :: name =>
        if name = "v".toList then (if st.voice.isSome then textLine fuel after st else none)
        else match st.stack.getLast? with
          | some t => if t.name = name then textLine fuel after { st with stack := st.stack.dropLast } else none
          | none => none
      | c :: _ =>
        if isDigit c then
          match inlineTs body with
          | some t => textLine fuel after { st with pending := some t }
          | none => none
        else if isAlpha c then
          if body.contains '/' then none else
          let head := body.takeWhile (fun ch => !isBlank ch)
          let ann := trimSpace (body.drop head.length)
          match splitC '.' head with
          | name :: classes =>
            if classes.any (·.isEmpty) then none
            else if name = "v".toList then
              (if st.voice.isSome || ann = [] then none else textLine fuel after { st with voice := some ann })
            else textLine fuel after { st with stack := st.stack ++ [{ name := name, classes := classes, annotation := ann }] }
          | [] => none
        else none
      | [] => none
  | fuel + 1, '&' :: rest, st =>
    if hasPrefix "amp;".toList rest then textLine fuel (rest.drop 4) { st with acc := '&' :: st.acc }
    else if hasPrefix "lt;".toList rest then textLine fuel (rest.drop 3) { st with acc := '<' :: st.acc }
    else if hasPrefix "nbsp;".toList rest then textLine fuel (rest.drop 5) { st with acc := Char.ofNat 0xA0 :: st.acc }
    else if hasPrefix "gt;".toList rest || hasPrefix "lrm;".toList rest || hasPrefix "rlm;".toList rest then none
    else textLine fuel rest { st with acc := '&' :: st.acc }
  | fuel + 1, c :: rest, st => textLine fuel rest { st with acc := c :: st.acc }

/-- the text lines of one cue: the tag stack runs through them, a voice belongs to its line -/
def cueText : List Str → List GTag → Option (List GLine)
  | [], _ => some []
  | l :: ls, stack =>
    match textLine (l.length + 2) l { stack := stack } with
    | none => none
    | some st =>
      match cueText ls st.stack with
      | none => none
      | some rest => some ({ voice := st.voice.getD [], runs := st.runs } :: rest)

/-! ### blocks -/

def blocks (lines : List Str) : List (List Str) :=
  let rec go : List Str → List Str → List (List Str)
    | [], cur => if cur.isEmpty then [] else [cur.reverse]
    | l :: ls, cur => if trimSpace l = [] then (if cur.isEmpty then go ls [] else cur.reverse :: go ls []) else go ls (trimSpace l :: cur)
  go lines []

def arrow : Str := "-->".toList

structure DocSt where
  cues : List GCue := []
  regions : List GRegion := []
  styles : List Str := []
  tsmap : Option (Int × Int) := none
  comments : List Str := []
  deriving Repr

def noteLine (l : Str) : Option Str :=
  if l = "NOTE".toList then some []
  else match dropPrefix? "NOTE".toList l with
    | some (c :: rest) => if isBlank c then some (trimSpace rest) else none
    | _ => none

def plain (v : Str) : Bool := v ≠ [] && !(v.any fun c => c = ':' || c = '=')

def regionLine (l : Str) : Option GRegion :=
  match dropPrefix? "Region: ".toList l with
  | none => none
  | some rest =>
    let parts := splitC ' ' rest
    let kvs := parts.map fun p => match splitC '=' p with | [k, v] => some (k, v) | _ => none
    if kvs.any (·.isNone) then none else
    let kvs := kvs.filterMap id
    let keys := kvs.map (·.1)
    let known := ["id", "width", "lines", "regionanchor", "viewportanchor", "scroll"].map String.toList
    if !(keys.all (known.contains ·)) || !keys.Nodup || !(keys.contains "id".toList) || kvs.any (fun kv => kv.2.isEmpty) then none else
    let get (k : String) : Str := (kvs.lookup k.toList).getD []
    if get "lines" ≠ [] && (natOf (get "lines")).isNone then none else
    -- `lines=0` is the same as no `lines` setting
    let ln := if (natOf (get "lines")) = some 0 then [] else
      (get "lines").dropWhile (· = '0')
    some { id := get "id", lines := ln, anchor := get "regionanchor", scroll := get "scroll", viewport := get "viewportanchor", width := get "width" }

def tsmapLine (l : Str) : Option (Int × Int) :=
  match dropPrefix? "X-TIMESTAMP-MAP=".toList l with
  | none => none
  | some rest =>
    let parts := (splitC ',' rest).map fun p =>
      match splitOnce [':'] p with
      | [k, v] => some (toLowerAscii (trimSpace k), v)
      | _ => none
    match parts with
    | [some (k1, v1), some (k2, v2)] =>
      let (loc, ts) := if k1 = "local".toList then (v1, v2) else (v2, v1)
      if !((k1 = "local".toList && k2 = "mpegts".toList) || (k1 = "mpegts".toList && k2 = "local".toList)) then none else
      match timeMs loc, natOf ts with
      | some l, some m => if m < 2 ^ 62 then some ((l : Int) * 1000000, (m : Int)) else none
      | _, _ => none
    | _ => none

structure Settings where
  align : Str := []
  line : Str := []
  position : Str := []
  size : Str := []
  vertical : Str := []
  region : Option Str := none

def cueSettings (regions : List GRegion) : List Str → Settings → Option Settings
  | [], s => some s
  | p :: ps, s =>
    match splitC ':' p with
    | [k, v] =>
      if v.isEmpty then none
      else if k = "align".toList && s.align = [] then cueSettings regions ps { s with align := v }
      else if k = "line".toList && s.line = [] then cueSettings regions ps { s with line := v }
      else if k = "position".toList && s.position = [] then cueSettings regions ps { s with position := v }
      else if k = "size".toList && s.size = [] then cueSettings regions ps { s with size := v }
      else if k = "vertical".toList && s.vertical = [] then cueSettings regions ps { s with vertical := v }
      else if k = "region".toList && s.region.isNone && regions.any (·.id = v) then cueSettings regions ps { s with region := some v }
      else none
    | _ => none

/-- a line that starts like a block of another kind -/
def opener (l : Str) : Bool :=
  l = "NOTE".toList || hasPrefix "NOTE ".toList l || hasPrefix "NOTE\t".toList l || hasPrefix "STYLE".toList l ||
  hasPrefix "Region: ".toList l || hasPrefix "X-TIMESTAMP-MAP".toList l

/-- identifier line: digits → the number, anything else without a sign → no numeric identifier
    (a run of digits worth more than 2^64-1 followed by anything else is left outside: `strconv.Atoi` reports the
    range error before it meets the other character, and the library keeps the clamped value) -/
def cueId (l : Str) : Option Int :=
  if opener l then none else
  match natOf l with
  | some n => if n < 2 ^ 62 then some (n : Int) else none
  | none =>
    match l with
    | c :: _ => if c = '+' || c = '-' then none
                else if Go.uint64Max < Go.leadVal l 0 then none   -- twenty digits and more, then something else: outside
                else some 0
    | [] => some 0

def cueBlock (st : DocSt) (b : List Str) : Option DocSt :=
  let parts : Option (Int × Str × List Str) :=
    match b with
    | l1 :: rest =>
      if contains arrow l1 then some (0, l1, rest)
      else match rest with
        | l2 :: rest' => if contains arrow l2 then (cueId l1).map fun i => (i, l2, rest') else none
        | [] => none
    | [] => none
  match parts with
  | none => none
  | some (id, timing, text) =>
    if text.any (contains arrow) then none else
    match splitOn arrow timing with
    | [l, r] =>
      match fields r with
      | e :: sets =>
        match timeMs l, timeMs e, cueSettings st.regions sets {}, cueText text [] with
        | some s, some e, some a, some lines =>
          let cue : GCue :=
            { id := id, comments := st.comments, startMs := s, endMs := e, align := a.align, line := a.line,
              position := a.position, size := a.size, vertical := a.vertical, region := a.region, lines := lines }
          some { st with comments := [], cues := st.cues ++ [cue] }
        | _, _, _, _ => none
      | [] => none
    | _ => none

def block (st : DocSt) (b : List Str) : Option DocSt :=
  match b with
  | [] => some st
  | first :: rest =>
    match noteLine first with
    | some c =>
      -- comment: the text after NOTE and the following lines (a repeated NOTE prefix is dropped)
      let more := rest.map fun l => match noteLine l with | some c => c | none => l
      let all := (if c = [] then [] else [c]) ++ more
      -- a comment lasts until the next blank line: lines that look like other block openers are comment text
      if all.any (fun l => contains arrow l || l = []) then none else some { st with comments := st.comments ++ all }
    | none =>
      if first = "STYLE".toList then
        if rest.any (fun l => contains arrow l || opener l) then none else
        match rest.getLast? with
        | some l => if hasSuffix ['}'] l then some { st with styles := st.styles ++ rest } else none
        | none => some st
      else if b.all (fun l => hasPrefix "Region: ".toList l || hasPrefix "X-TIMESTAMP-MAP".toList l) then
        b.foldl (fun (acc : Option DocSt) l =>
          match acc with
          | none => none
          | some st =>
            if hasPrefix "Region: ".toList l then
              match regionLine l with
              | some r => if st.regions.any (·.id = r.id) then none else some { st with regions := st.regions ++ [r] }
              | none => none
            else match tsmapLine l with
              | some m => if st.tsmap.isSome || !st.cues.isEmpty then none else some { st with tsmap := some m }
              | none => none) (some st)
      else cueBlock st b

/-- the lines that may follow `WEBVTT` directly (no blank line): header metadata, then blocks -/
def decode (doc : Str) : Option GDoc :=
  let doc := match doc with | c :: rest => if c = Char.ofNat 0xFEFF then rest else doc | [] => doc
  match splitLines doc [] with
  | [] => none
  | first :: rest =>
    let okHeader := match dropPrefix? "WEBVTT".toList first with
      | some [] => true
      | some (c :: _) => isBlank c
      | none => false
    if !okHeader then none else
    -- metadata lines glued to the header form a block of their own
    let hdr := rest.takeWhile fun l => hasPrefix "Region: ".toList (trimSpace l) || hasPrefix "X-TIMESTAMP-MAP".toList (trimSpace l)
    let bs := (if hdr.isEmpty then [] else [hdr.map trimSpace]) ++ blocks (rest.drop hdr.length)
    match bs.foldl (fun (acc : Option DocSt) b => match acc with | some st => block st b | none => none) (some {}) with
    | some st => some { cues := st.cues, regions := st.regions, styles := st.styles, tsmap := st.tsmap }
    | none => none

/-! ### what is compared -/

def sameTags (a b : List GTag) : Bool := a == b

/-- adjacent runs under the same tags denote the same text as their concatenation (unless a
    timestamp separates them) -/
def mergeRuns : List GRun → List GRun
  | a :: b :: rest =>
    if sameTags a.tags b.tags && b.ts.isNone then mergeRuns ({ a with text := a.text ++ b.text } :: rest)
    else a :: mergeRuns (b :: rest)
  | l => l
termination_by l => l.length

/-- white space alone between two tags is not a text run (it is disregarded *before* neighbouring runs
    under the same tags are joined, as for SubRip: `Spec.SRT.runsOf` flushes nothing for it) -/
def normLine (l : GLine) : GLine :=
  { l with runs := (mergeRuns (l.runs.filter fun r => trimSpace r.text ≠ [])).filter fun r => trimSpace r.text ≠ [] }

def sortRegions (l : List GRegion) : List GRegion := l.mergeSort fun a b => !(String.ofList b.id < String.ofList a.id)

def norm (g : GDoc) : GDoc :=
  { g with regions := sortRegions g.regions,
           -- the white space around a comment line is not part of the comment
           cues := g.cues.map fun c => { c with comments := c.comments.map trimSpace,
                                                lines := (c.lines.map normLine).filter fun l => !l.runs.isEmpty } }

end VTT
end Spec
end Astisub
