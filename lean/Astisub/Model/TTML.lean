import Astisub.Model.Subs
import Astisub.Model.Duration

/-!
# Model/TTML — `ttml.go` between the two XML layers

`encoding/xml` is a contract (DESIGN 3.6): the reader model starts at what `encoding/xml` produced
for the document — the fields of `TTMLIn` (`TIn`, with the raw text of every `begin` / `end`
attribute) and, for every paragraph, the token list of `"<p>" + stripped inner XML + "</p>"` —
and the writer model ends at the element tree (`TTMLOut`) handed to `xml.Encoder`, as a token list.

Modelled here (as the code is after the `fix:` commits D6, D7, D8, D25, D26, D27, D28):
* `TTMLInDuration.UnmarshalText` (`timeExpr`: offset-time recogniser, clock-time-with-frames
  recogniser, `parseDuration`), `TTMLInDuration.duration` (`duration`, integer arithmetic);
* `TTMLIn.metadata` and the language table; `TTMLInStyleAttributes.styleAttributes` with
  `propagateTTMLAttributes`;
* `ReadFromTTML`: style map, parent links, regions, reference resolution and its error cases,
  indentation stripping, the `<br/>` trick of `ttmlXmlTokenReader`, `TTMLInItems.UnmarshalXML`,
  `DecodeElement` into `TTMLInItem` (attributes by local name, direct character data, nested
  elements skipped), line splitting;
* `WriteToTTML`: the `TTMLOut` tree (sorted regions / styles, spans, `br` between lines).
-/

namespace Astisub
namespace TTML
open Go

inductive Res (α : Type) where
  | ok (a : α)
  | err
  | unmodelled
  deriving Repr

/-! ## time expressions -/

/-- `TTMLInDuration` after `UnmarshalText` -/
structure InDur where
  d : Int := 0
  frames : Int := 0
  ticks : Int := 0
  framesFraction : Str := []     -- fractional digits of an offset time in frames (`"5"` for `1.5f`)
  ticksFraction : Str := []
  deriving Repr, DecidableEq, Inhabited

def isDigit (c : Char) : Bool := '0' ≤ c && c ≤ '9'

/-- value of a string of ASCII digits -/
def natOfDigits (s : Str) : Nat := s.foldl (fun a c => a * 10 + (c.toNat - 48)) 0

def metrics : List Str := ["h".toList, "m".toList, "s".toList, "ms".toList, "f".toList, "t".toList]

/-- `ttmlRegexpOffsetTime` = `^(\d+(\.\d+)?)(h|m|s|ms|f|t)$`: integer digits, fraction digits, metric -/
def offsetTime (s : Str) : Option (Str × Str × Str) :=
  let ip := s.takeWhile isDigit
  let r := s.dropWhile isDigit
  if ip.isEmpty then none else
  let fr : Str × Str :=
    match r with
    | '.' :: r' =>
      let fp := r'.takeWhile isDigit
      if fp.isEmpty then ([], r) else (fp, r'.dropWhile isDigit)
    | _ => ([], r)
  if metrics.contains fr.2 then some (ip, fr.1, fr.2) else none

/-- nanoseconds of one unit of an offset metric -/
def timebase (m : Str) : Int :=
  if m = "h".toList then 3600000000000
  else if m = "m".toList then 60000000000
  else if m = "s".toList then 1000000000
  else 1000000

/-- `ttmlOffsetDuration`: `<ip>.<fp> × timebase`, truncated to the nanosecond; `none` = does not fit `int64` -/
def offsetDuration (ip fp : Str) (tb : Int) : Option Int :=
  let v : Int := (natOfDigits (ip ++ fp) : Int) * tb / ((10 : Int) ^ fp.length)
  if v ≤ 9223372036854775807 then some v else none

/-- `ttmlRegexpClockTimeFrames` = `\:[\d]+$` (leftmost match): the text before the last `:` and the
    non-empty digit string after it -/
def clockFrames (s : Str) : Option (Str × Str) :=
  let suf := (s.reverse.takeWhile (fun c => c != ':')).reverse
  match s.reverse.dropWhile (fun c => c != ':') with
  | [] => none
  | _ :: pre => if !suf.isEmpty && suf.all isDigit then some (pre.reverse, suf) else none

def countColons (s : Str) : Nat := (s.filter (fun c => c == ':')).length

/-- `TTMLInDuration.UnmarshalText`; `none` = error -/
def timeExpr (text : Str) : Option InDur :=
  match offsetTime text with
  | some (ip, fp, m) =>
    if m = "t".toList then (atoi ip).map fun v => { ticks := v, ticksFraction := fp }
    else if m = "f".toList then (atoi ip).map fun v => { frames := v, framesFraction := fp }
    else (offsetDuration ip fp (timebase m)).map fun v => { d := v }
  | none =>
    match (if countColons text = 3 then clockFrames text else none) with
    | some (pre, fr) =>
      match atoi fr with
      | none => none
      | some f => (Duration.parse (pre ++ ".000".toList) '.' 3).map fun d => { d := d, frames := f }
    | none => (Duration.parse text '.' 3).map fun d => { d := d }

/-- `ttmlUnitsDuration(n, fraction, rate)`: `<n>.<fraction>` units at `rate` units per second, truncated to the
    nanosecond (`big.Int` arithmetic; `n ≥ 0`, `rate > 0`) -/
def unitsDuration (n : Int) (fp : Str) (rate : Int) : Int :=
  Int.tdiv ((n * (10 : Int) ^ fp.length + (natOfDigits fp : Int)) * 1000000000) ((10 : Int) ^ fp.length * rate)

/-- `TTMLInDuration.duration()` with the document's frame and tick rate -/
def duration (d : InDur) (framerate tickrate : Int) : Int :=
  if (d.ticks > 0 ∨ d.ticksFraction ≠ []) ∧ tickrate > 0 then unitsDuration d.ticks d.ticksFraction tickrate
  else if (d.frames > 0 ∨ d.framesFraction ≠ []) ∧ framerate > 0 then d.d + unitsDuration d.frames d.framesFraction framerate
  else d.d

/-- the instant an attribute value denotes to the reader -/
def instant (text : Str) (framerate tickrate : Int) : Option Int :=
  (timeExpr text).map fun d => duration d framerate tickrate

/-! ## attributes -/

/-- field names of `TTMLInStyleAttributes` / `TTMLOutStyleAttributes` (in struct order) and their XML local names -/
def attrTable : List (String × String) :=
  [("BackgroundColor", "backgroundColor"), ("Color", "color"), ("Direction", "direction"), ("Display", "display"),
   ("DisplayAlign", "displayAlign"), ("Extent", "extent"), ("FontFamily", "fontFamily"), ("FontSize", "fontSize"),
   ("FontStyle", "fontStyle"), ("FontWeight", "fontWeight"), ("LineHeight", "lineHeight"), ("Opacity", "opacity"),
   ("Origin", "origin"), ("Overflow", "overflow"), ("Padding", "padding"), ("ShowBackground", "showBackground"),
   ("TextAlign", "textAlign"), ("TextDecoration", "textDecoration"), ("TextOutline", "textOutline"),
   ("UnicodeBidi", "unicodeBidi"), ("Visibility", "visibility"), ("WrapOption", "wrapOption"),
   ("WritingMode", "writingMode"), ("ZIndex", "zIndex")]

def get (kv : KV) (k : String) : Option Str := kv.lookup k.toList

/-- Go's `/` on `int` -/
def goDiv (a b : Int) : Int := Int.tdiv a b

/-- `TTMLInStyleAttributes.styleAttributes()`: input = the attributes that are set, keyed by the field
    name of `TTMLInStyleAttributes`; output = the set fields of `StyleAttributes` (canonical form) -/
def styleAttributes (a : KV) : KV :=
  let ttml : List (String × Option Str) := attrTable.map fun (f, _) => ("TTML" ++ f, get a f)
  let tb : Bool := match get a "WritingMode" with | some w => hasPrefix "tb".toList w | none => false
  let ext : List (String × Option Str) :=
    match get a "Extent" with
    | none => []
    | some e =>
      match splitC ' ' e with
      | d0 :: d1 :: _ =>
        let lines : Option Str :=
          match atoi (replaceAll "%".toList [] d1) with
          | some h => let q := goDiv h 5; if q = 0 then none else some (itoa q)
          | none => none
        [("WebVTTWidth", optStr d0), ("WebVTTLines", lines), ("WebVTTSize", optStr (if tb then d0 else d1))]
      | _ => []
  let org : List (String × Option Str) :=
    match get a "Origin" with
    | none => []
    | some o =>
      [("WebVTTRegionAnchor", some "0%,0%".toList),
       ("WebVTTViewportAnchor", optStr (replaceAll " ".toList ",".toList (trimSpace o))),
       ("WebVTTScroll", some "up".toList)] ++
      (match splitC ' ' o with
       | c0 :: c1 :: _ => [("WebVTTLine", optStr (if tb then c1 else c0)), ("WebVTTPosition", optStr (if tb then c0 else c1))]
       | _ => [])
  let al : List (String × Option Str) :=
    match get a "TextAlign" with
    | some t => [("WebVTTAlign", optStr t)]
    | none => []
  mkAttrs (ttml ++ al ++ ext ++ org)

/-! ## what `encoding/xml` hands over (contract) -/

/-- a token of `xml.Decoder.Token()` -/
inductive XTok where
  | start (space name : Str) (attrs : List (Str × Str × Str))   -- attributes: space, local name, value
  | stop (space name : Str)
  | text (s : Str)
  | other                                                         -- comment, processing instruction, directive
  deriving Repr, DecidableEq, Inhabited

/-- `TTMLInRegion` / `TTMLInStyle` -/
structure InDef where
  id : Str
  style : Str
  attrs : KV
  deriving Repr, Inhabited

/-- `TTMLInSubtitle` with the raw texts handed to `TTMLInDuration.UnmarshalText` (one per attribute
    whose local name is `begin` / `end`, in document order; `[]` = nil pointer) -/
structure InSub where
  begins : List Str
  ends : List Str
  id : Str
  region : Str
  style : Str
  attrs : KV
  inner : Str                 -- `Items` (`,innerxml`)
  stripped : Str              -- what the harness fed to the XML tokenizer (must equal `stripIndent inner`)
  toks : List XTok            -- tokens of `"<p>" + stripped + "</p>"`
  toksOk : Bool               -- `false`: the tokenizer stopped with a syntax error after `toks`
  deriving Repr, Inhabited

/-- `TTMLIn` -/
structure TIn where
  framerate : Int
  tickrate : Int
  lang : Str
  title : Str
  copyright : Str
  regions : List InDef
  styles : List InDef
  subs : List InSub
  deriving Repr, Inhabited

/-! ## reader -/

def languages : List (Str × Str) :=
  [("zh".toList, "chinese".toList), ("en".toList, "english".toList), ("fr".toList, "french".toList),
   ("ja".toList, "japanese".toList), ("no".toList, "norwegian".toList)]

/-- `ttmlLanguageMapping.Get(astikit.StrPad(lang, ' ', 2, astikit.PadCut))`: the first two bytes -/
def languageOf (lang : Str) : Option Str :=
  match lang with
  | a :: b :: _ => languages.lookup [a, b]
  | _ => none

/-- `TTMLIn.metadata()` in canonical form (always non-nil) -/
def metadataOf (t : TIn) : Attrs :=
  some (mkAttrs [("Framerate", if t.framerate = 0 then none else some (itoa t.framerate)),
                 ("Language", languageOf t.lang), ("TTMLCopyright", optStr t.copyright), ("Title", optStr t.title)])

/-- "Remove items identation": split at `\n`, strip the leading white space of every line and glue the
    lines together; a single space is kept where a line break separates two things that are not tags
    (the text so far does not end in `>` and the line does not start with `<`) -/
def stripIndent (s : Str) : Str :=
  (splitC '\n' s).foldl (fun acc line =>
    let line := trimLeftSpace line
    if !acc.isEmpty && !line.isEmpty && acc.getLast? != some '>' && line.head? != some '<' then acc ++ ' ' :: line
    else acc ++ line) []

def isBr (name : Str) : Bool := toLowerAscii name = "br".toList

/-- `ttmlXmlTokenReader.Token`: a `"\n"` character-data token in front of every `br` start tag -/
def brTrick : List XTok → List XTok
  | [] => []
  | .start sp n a :: rest => if isBr n then .text ['\n'] :: .start sp n a :: brTrick rest else .start sp n a :: brTrick rest
  | t :: rest => t :: brTrick rest

/-- `TTMLInItem` -/
structure InItem where
  name : Str := []
  style : Str := []
  text : Str := []
  attrs : KV := []
  deriving Repr, Inhabited

/-- `copyValue` into an `int` field: `""` is 0, otherwise `ParseInt(TrimSpace(v), 10, 64)` -/
def parseIntAttr (v : Str) : Option Int := if v.isEmpty then some 0 else atoi (trimSpace v)

def kvSet (kv : KV) (k : Str) (v : Str) : KV := (kv.filter fun p => p.1 != k) ++ [(k, v)]

/-- attributes of a start tag into a `TTMLInItem`: matched by local name, in order (the last wins);
    `none` = `zIndex` is not an integer -/
def itemOfStart (name : Str) : List (Str × Str × Str) → InItem → Option InItem
  | [], it => some { it with name := name }
  | (_, local_, v) :: rest, it =>
    if local_ = "style".toList then itemOfStart name rest { it with style := v }
    else
      match attrTable.find? (fun p => p.2.toList = local_) with
      | some (f, _) =>
        if f = "ZIndex" then
          match parseIntAttr v with
          | some z => itemOfStart name rest { it with attrs := kvSet it.attrs f.toList (itoa z) }
          | none => none
        else itemOfStart name rest { it with attrs := kvSet it.attrs f.toList v }
      | none => itemOfStart name rest it

/-- the body of an element being decoded into a `TTMLInItem`: direct character data is collected,
    child elements are skipped; returns the text and the tokens after the matching end tag.
    `depth` = number of open child elements. -/
def elemBody : List XTok → Nat → Str → Option (Str × List XTok)
  | [], _, _ => none
  | .text s :: rest, 0, acc => elemBody rest 0 (acc ++ s)
  | .text _ :: rest, d + 1, acc => elemBody rest (d + 1) acc
  | .other :: rest, d, acc => elemBody rest d acc
  | .start _ _ _ :: rest, d, acc => elemBody rest (d + 1) acc
  | .stop _ _ :: rest, 0, acc => some (acc, rest)
  | .stop _ _ :: rest, d + 1, acc => elemBody rest d acc

/-- `TTMLInItems.UnmarshalXML` on the tokens after `<p>` (fuel = number of tokens) -/
def itemsLoop : Nat → List XTok → List InItem → Res (List InItem)
  | 0, _, _ => .err
  | _ + 1, [], _ => .err                                   -- unexpected EOF
  | _ + 1, .stop _ _ :: _, acc => .ok acc.reverse         -- the end tag of `<p>`: `io.EOF`
  | fuel + 1, .other :: rest, acc => itemsLoop fuel rest acc
  | fuel + 1, .text s :: rest, acc =>
    if trimSpace s ≠ [] then itemsLoop fuel rest ({ text := s } :: acc) else itemsLoop fuel rest acc
  | fuel + 1, .start _ n a :: rest, acc =>
    match itemOfStart n a {} with
    | none => .err
    | some it =>
      match elemBody rest 0 [] with
      | none => .err
      | some (txt, rest') =>
        if rest'.length ≤ rest.length then itemsLoop fuel rest' ({ it with text := txt } :: acc) else .err

/-- `newTTMLXmlDecoder(stripped).Decode(&items)` -/
def decodeItems (toks : List XTok) (toksOk : Bool) : Res (List InItem) :=
  if !toksOk then .err else
  match brTrick toks with
  | .start _ _ _ :: rest => itemsLoop (rest.length + 1) rest []
  | _ => .err

/-- the "loop through texts" of `ReadFromTTML`: state = finished lines, current line -/
def linesLoop (styles : List Str) : List InItem → List Line → List LItem → Option (List Line)
  | [], done, cur => some (done ++ [{ items := cur }])
  | tt :: rest, done, cur =>
    if isBr tt.name then linesLoop styles rest (done ++ [{ items := cur }]) []
    else if tt.style ≠ [] ∧ !styles.contains tt.style then none
    else
      let mk (li : Str) : LItem := { text := li, attrs := some (styleAttributes tt.attrs), style := if tt.style ≠ [] then some tt.style else none }
      match splitC '\n' tt.text with
      | [] => linesLoop styles rest done cur
      | first :: more =>
        let done' := done ++ [{ items := cur ++ [mk first] }] ++ (more.dropLast.map fun li => ({ items := [mk li] } : Line))
        match more.getLast? with
        | none => linesLoop styles rest done (cur ++ [mk first])
        | some last => linesLoop styles rest done' [mk last]

def mapMRes {α β} (f : α → Res β) : List α → Res (List β)
  | [] => .ok []
  | a :: as =>
    match f a with
    | .ok b => match mapMRes f as with
      | .ok bs => .ok (b :: bs)
      | .err => .err
      | .unmodelled => .unmodelled
    | .err => .err
    | .unmodelled => .unmodelled

/-- every raw text must parse (each one is a call of `UnmarshalText`); the last one stays -/
def parseTimes (l : List Str) : Option (Option InDur) :=
  l.foldl (fun acc s => match acc with
    | none => none
    | some _ => (timeExpr s).map some) (some none)

def readSub (t : TIn) (styleIds regionIds : List Str) (ts : InSub) : Res CItem :=
  match parseTimes ts.begins, parseTimes ts.ends with
  | some (some b), some (some e) =>
    if ts.region ≠ [] ∧ !regionIds.contains ts.region then .err
    else if ts.style ≠ [] ∧ !styleIds.contains ts.style then .err
    else if stripIndent ts.inner ≠ ts.stripped then .unmodelled   -- harness and model disagree on the tokenizer input
    else
      match decodeItems ts.toks ts.toksOk with
      | .err => .err
      | .unmodelled => .unmodelled
      | .ok items =>
        match linesLoop styleIds items [] [] with
        | none => .err
        | some lines =>
          .ok { startAt := duration b t.framerate t.tickrate, endAt := duration e t.framerate t.tickrate,
                attrs := some (styleAttributes ts.attrs),
                region := if ts.region ≠ [] then some ts.region else none,
                style := if ts.style ≠ [] then some ts.style else none,
                lines := lines }
  | _, _ => .err     -- a value that does not parse (xml decoding fails) or no begin / end (D6: error)

/-- a later definition with the same identifier replaces the earlier one (`o.Styles[s.ID] = s`) -/
def lastWins (l : List Def) : List Def :=
  l.foldl (fun acc d => (acc.filter fun x => x.id != d.id) ++ [d]) []

/-- `ReadFromTTML` after `xml.Decode` (`none` = the decoder returned an error) -/
def read (tin : Option TIn) : Res Subs :=
  match tin with
  | none => .err
  | some t =>
    let styleIds := t.styles.map (·.id)
    -- parent links (D7: every child is linked); a parent that is not defined is an error
    if t.styles.any (fun s => s.style ≠ [] ∧ !styleIds.contains s.style) then .err else
    let styles : List Def := lastWins (t.styles.map fun s =>
      { id := s.id, ref := if s.style ≠ [] then some s.style else none, attrs := some (styleAttributes s.attrs) })
    if t.regions.any (fun r => r.style ≠ [] ∧ !styleIds.contains r.style) then .err else
    let regions : List Def := lastWins (t.regions.map fun r =>
      { id := r.id, ref := if r.style ≠ [] then some r.style else none, attrs := some (styleAttributes r.attrs) })
    let regionIds := t.regions.map (·.id)
    match mapMRes (readSub t styleIds regionIds) t.subs with
    | .err => .err
    | .unmodelled => .unmodelled
    | .ok items => .ok { items := items, regions := regions, styles := styles, metadata := metadataOf t }

/-! ## writer -/

/-- a token of the element tree handed to `xml.Encoder` (names as written in the struct tags) -/
inductive WTok where
  | start (name : Str) (attrs : List (Str × Str))
  | stop (name : Str)
  | text (s : Str)
  deriving Repr, DecidableEq, Inhabited

def kvGet (a : Attrs) (k : String) : Option Str := match a with | none => none | some kv => kv.lookup k.toList

/-- `ttmlOutStyleAttributesFromStyleAttributes` as marshalled: `tts:*` attributes in struct order -/
def outAttrs (a : Attrs) : List (Str × Str) :=
  attrTable.filterMap fun (f, x) => (kvGet a ("TTML" ++ f)).map fun v => (("tts:" ++ x).toList, v)

def optAttr (name : String) (v : Option Str) : List (Str × Str) :=
  match v with
  | some v => if v.isEmpty then [] else [(name.toList, v)]
  | none => []

def elemText (name : String) (s : Str) : List WTok :=
  if s.isEmpty then [] else [.start name.toList [], .text s, .stop name.toList]

def sortDefs (l : List Def) : List Def := l.mergeSort (fun a b => !strLt b.id a.id)

/-- `TTMLOutHeader` of a region / style -/
def header (name : String) (d : Def) : List WTok :=
  [.start name.toList (optAttr "xml:id" (some d.id) ++ optAttr "style" d.ref ++ outAttrs d.attrs), .stop name.toList]

/-- a `TTMLOutItem` named `span`; an empty `Text` produces no character data -/
def spanOf (li : LItem) : List WTok :=
  [.start "span".toList (optAttr "style" li.style ++ outAttrs li.attrs)] ++
    (if li.text.isEmpty then [] else [.text li.text]) ++ [.stop "span".toList]

def brTok : List WTok := [.start "br".toList [], .stop "br".toList]

def lineToks (l : Line) : List WTok := (l.items.map spanOf).flatten ++ brTok

def subToks (it : CItem) : List WTok :=
  let items := (it.lines.map lineToks).flatten
  -- "remove last line break"
  let items := items.take (items.length - 2)
  [.start "p".toList ([("begin".toList, Duration.formatTTML it.startAt), ("end".toList, Duration.formatTTML it.endAt)]
      ++ optAttr "region" it.region ++ optAttr "style" it.style ++ outAttrs it.attrs)]
    ++ items ++ [.stop "p".toList]

def langOut (m : Attrs) : Option Str :=
  match kvGet m "Language" with
  | some l => (languages.find? fun p => p.2 = l).map (·.1)
  | none => none

/-- `WriteToTTML`: the `TTMLOut` value as the token sequence `xml.Encoder` walks (`none` = `ErrNoSubtitlesToWrite`) -/
def write (s : Subs) : Option (List WTok) :=
  if s.items.isEmpty then none else
  let title := (kvGet s.metadata "Title").getD []
  let copyright := (kvGet s.metadata "TTMLCopyright").getD []
  let metaToks : List WTok :=
    if s.metadata.isSome ∧ (copyright ≠ [] ∨ title ≠ []) then
      [.start "metadata".toList []] ++ elemText "ttm:copyright" copyright ++ elemText "ttm:title" title ++ [.stop "metadata".toList]
    else []
  some (
    [.start "tt".toList ([("xmlns".toList, "http://www.w3.org/ns/ttml".toList)] ++ optAttr "xml:lang" (langOut s.metadata) ++
        [("xmlns:ttm".toList, "http://www.w3.org/ns/ttml#metadata".toList), ("xmlns:tts".toList, "http://www.w3.org/ns/ttml#styling".toList)]),
     .start "head".toList []] ++ metaToks ++
    [.start "styling".toList []] ++ ((sortDefs s.styles).map (header "style")).flatten ++ [.stop "styling".toList] ++
    [.start "layout".toList []] ++ ((sortDefs s.regions).map (header "region")).flatten ++ [.stop "layout".toList] ++
    [.stop "head".toList, .start "body".toList [], .start "div".toList []] ++
    (s.items.map subToks).flatten ++
    [.stop "div".toList, .stop "body".toList, .stop "tt".toList])

end TTML
end Astisub
