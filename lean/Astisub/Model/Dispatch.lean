import Astisub.Go.Strings

/-!
# Model/Dispatch — codec selection by file extension (`Open`, `Subtitles.Write` in `subtitles.go`)

`filepath.Ext(strings.ToLower(name))`: the suffix starting at the last `.` of the last path
element, lower-cased.
-/

namespace Astisub
namespace Dispatch
open Go

inductive Codec where
  | srt | ssa | stl | ts | ttml | vtt
  deriving Repr, DecidableEq

/-- the `switch` of `Open` on the lower-cased extension (without the dot) -/
def openCodec (ext : String) : Option Codec :=
  match ext with
  | "srt" => some .srt
  | "ssa" => some .ssa
  | "ass" => some .ssa
  | "stl" => some .stl
  | "ts" => some .ts
  | "ttml" => some .ttml
  | "vtt" => some .vtt
  | _ => none

/-- the `switch` of `Subtitles.Write`: no transport-stream writer -/
def writeCodec (ext : String) : Option Codec :=
  match openCodec ext with
  | some .ts => none
  | c => c

def lowerExt (ext : String) : String := String.ofList (toLowerAscii ext.toList)

end Dispatch
end Astisub
