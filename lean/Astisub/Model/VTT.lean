import Astisub.Model.Subs
import Astisub.Model.Duration
import Astisub.Model.SRT
import Astisub.Go.HTML
import Astisub.Go.VTTRegex

/-!
# Model/VTT — `ReadFromWebVTT`, `parseTextWebVTT`, `parseTextWebVTTTextToken`,
`parseWebVTTTimestampMap`, `WriteToWebVTT`, `Line.webVTTBytes`, `LineItem.webVTTBytes`,
`cssColor`, `WebVTTTag.startTag/endTag` (`webvtt.go`, `subtitles.go`)

The reader is the header-skipping loop followed by the block state machine, case by case in the
order of the Go `switch`.  The running `sa` of the Go code is represented by the tag stack
`tags` and — once a `STYLE` block was seen, when `sa` *is* the default style's attribute
object — the list `styles`; what is left on the stack at the end of the document is therefore
visible in the default style (modelled as it is).  The tokenizer is the partial model
`Go.tokenize`; results depending on `int64` overflow of a duration are `unmodelled`.
`log.Printf` side effects are ignored.
-/

namespace Astisub
namespace VTT
open Go
open SRT (Res escapeHTML unescapeHTML kvGet)

structure Tag where
  name : Str
  classes : List Str := []
  annotation : Str := []
  deriving Repr, DecidableEq, Inhabited

/-- the canonical text of one tag in the protocol (`attrValue` in `harness/canon.go`) -/
def Tag.str (t : Tag) : Str :=
  t.name ++ (if t.classes.isEmpty then [] else '.' :: join ['.'] t.classes)
    ++ (if t.annotation.isEmpty then [] else ' ' :: t.annotation)

def tagsStr (ts : List Tag) : Str := join ['|'] (ts.map Tag.str)

/-- inverse of `tagsStr` as `harness/build.go` does it -/
def tagOfStr (s : Str) : Tag :=
  let head := s.takeWhile (· != ' ')
  let ann := (s.drop head.length).drop 1
  match splitC '.' head with
  | n :: cls => { name := n, classes := cls, annotation := ann }
  | [] => { name := [], annotation := ann }

def tagsOfAttrs (a : Attrs) : List Tag :=
  match kvGet a "WebVTTTags" with
  | some v => (splitC '|' v).map tagOfStr
  | none => []

def tagsAttrs (tags : List Tag) : Attrs :=
  if tags.isEmpty then none else some [("WebVTTTags".toList, tagsStr tags)]

/-- durations whose Go arithmetic could leave `int64`: not modelled -/
def smallNumbers (s : Str) : Bool :=
  let rec go : Str → Nat → Bool
    | [], _ => true
    | c :: cs, n => if isDig c then (if n ≥ 6 then false else go cs (n + 1)) else go cs 0
  go s 0

/-- `strings.Trim(s, ".")` -/
def trimDots (s : Str) : Str := ((s.dropWhile (· == '.')).reverse.dropWhile (· == '.')).reverse

/-- `parseTextWebVTTTextToken` (repaired: `pending` is the inline timestamp that has not met its
    text yet; the second component is the one still waiting afterwards); `none` = unmodelled (overflow) -/
def textToken (attrs : Attrs) (line : Str) (pending : Int) : Option (List LItem × Int) :=
  let (pre, segs) := splitTs (line.length + 1) line
  if segs.isEmpty then
    if trimSpace line ≠ [] then some ([{ text := unescapeHTML line, startAt := pending, attrs := attrs }], 0)
    else some ([{ text := unescapeHTML line, attrs := attrs }], pending)
  else if segs.any (fun p => !smallNumbers p.1) then none
  else
    let first : List LItem := if trimSpace pre ≠ [] then [{ text := unescapeHTML pre, startAt := pending, attrs := attrs }] else []
    let r := segs.foldl (fun (acc : List LItem × Int) (p : Str × Str) =>
      let t := (Duration.parseVTT p.1).getD 0
      if trimSpace p.2 = [] then (acc.1, t)
      else (acc.1 ++ [{ text := unescapeHTML p.2, startAt := t, attrs := attrs }], 0)) (first, pending)
    some r

structure PT where
  tags : List Tag
  voice : Str := []
  items : List LItem := []
  pending : Int := 0
  deriving Repr, Inhabited

/-- one token of `parseTextWebVTT`; `none` = unmodelled -/
def stepTok (st : PT) : Tok → Option PT
  | .endTag raw _ => if raw = "</v>".toList then some st else some { st with tags := st.tags.dropLast }
  | .startTag raw _ _ =>
    match tagRe raw with
    | none => some st
    | some (g2, g3, g4) =>
      let classes : List Str := if g3 ≠ [] then splitC '.' (trimDots g3) else []
      let annotation : Str := if g4 ≠ [] then trimSpace g4 else []
      if g2 = "v".toList then
        some (if st.voice = [] then { st with voice := annotation } else st)
      else some { st with tags := st.tags ++ [{ name := g2, classes := classes, annotation := annotation }] }
  | .text raw =>
    match textToken (tagsAttrs st.tags) raw st.pending with
    | some (its, p) => some { st with items := st.items ++ its, pending := p }
    | none => none
  | _ => some st

def foldToks : PT → List Tok → Option PT
  | st, [] => some st
  | st, t :: ts => match stepTok st t with
    | some st' => foldToks st' ts
    | none => none

/-- `parseTextWebVTT`: the new tag stack and the line -/
def parseText (line : Str) (tags : List Tag) : Res (List Tag × Line) :=
  match tokenize line with
  | .unmodelled => .unmodelled
  | .ok toks =>
    match foldToks { tags := tags } toks with
    | some st => .ok (st.tags, { voice := st.voice, items := st.items })
    | none => .unmodelled

/-! ## reader -/

inductive Block where
  | none | comment | style | text
  deriving Repr, DecidableEq, Inhabited

structure St where
  done : List CItem := []
  cur : CItem := { startAt := 0, endAt := 0, lines := [] }
  curListed : Bool := false
  block : Block := .none
  comments : List Str := []
  index : Int := 0
  tags : List Tag := []
  styleSeen : Bool := false
  styles : List Str := []
  regions : List Def := []        -- map: one entry per identifier, later definitions replace earlier ones
  tsmap : Option (Int × Int) := none
  deriving Repr, Inhabited

def arrow : Str := "-->".toList
def bom : Str := [Char.ofNat 0xFEFF]
def defaultStyleID : Str := "astisub-webvtt-default-style-id".toList

def setDef (l : List Def) (d : Def) : List Def :=
  if l.any (·.id = d.id) then l.map (fun x => if x.id = d.id then d else x) else l ++ [d]

structure RegAcc where
  id : Str := []
  lines : Int := 0
  anchor : Str := []
  scroll : Str := []
  viewport : Str := []
  width : Str := []

/-- the loop over the parts of a `Region: ` line; `none` = error -/
def regionParts : List Str → RegAcc → Option RegAcc
  | [], r => some r
  | p :: ps, r =>
    match splitC '=' p with
    | k :: v :: _ =>
      if k = "id".toList then regionParts ps { r with id := v }
      else if k = "lines".toList then
        match atoi v with
        | some n => regionParts ps { r with lines := n }
        | none => none
      else if k = "regionanchor".toList then regionParts ps { r with anchor := v }
      else if k = "scroll".toList then regionParts ps { r with scroll := v }
      else if k = "viewportanchor".toList then regionParts ps { r with viewport := v }
      else if k = "width".toList then regionParts ps { r with width := v }
      else regionParts ps r
    | _ => none

def regionDef (r : RegAcc) : Def :=
  { id := r.id, attrs := some (mkAttrs [("WebVTTLines", if r.lines = 0 then none else some (itoa r.lines)),
      ("WebVTTRegionAnchor", optStr r.anchor), ("WebVTTScroll", optStr r.scroll),
      ("WebVTTViewportAnchor", optStr r.viewport), ("WebVTTWidth", optStr r.width)]) }

structure SetAcc where
  align : Str := []
  line : Str := []
  position : Str := []
  size : Str := []
  vertical : Str := []
  region : Option Str := none

/-- the loop over the cue settings; `none` = error -/
def settings (regions : List Def) : List Str → SetAcc → Option SetAcc
  | [], a => some a
  | p :: ps, a =>
    match splitC ':' p with
    | k :: v :: _ =>
      if k = "align".toList then settings regions ps { a with align := v }
      else if k = "line".toList then settings regions ps { a with line := v }
      else if k = "position".toList then settings regions ps { a with position := v }
      else if k = "region".toList then
        if regions.any (·.id = v) then settings regions ps { a with region := some v } else none
      else if k = "size".toList then settings regions ps { a with size := v }
      else if k = "vertical".toList then settings regions ps { a with vertical := v }
      else settings regions ps a
    | _ => none

/-- `strconv.ParseInt(s, 10, 0)` -/
def parseInt (s : Str) : Option Int := atoi s

/-- the loop of `parseWebVTTTimestampMap` over the comma-separated parts; `none` = error -/
def tsParts : List Str → Int × Int → Res (Int × Int)
  | [], acc => .ok acc
  | p :: ps, acc =>
    match splitOnce [':'] p with
    | [k, v] =>
      let key := toLowerAscii (trimSpace k)
      if key = "local".toList then
        if !smallNumbers v then .unmodelled else
        match Duration.parseVTT v with
        | some d => tsParts ps (d, acc.2)
        | none => .err
      else if key = "mpegts".toList then
        match parseInt v with
        | some n => tsParts ps (acc.1, n)
        | none => .err
      else tsParts ps acc
    | _ => .err

/-- `parseWebVTTTimestampMap` -/
def parseTsMap (line : Str) : Res (Int × Int) :=
  match splitC '=' line with
  | _ :: right :: _ => tsParts (splitC ',' right) (0, 0)
  | _ => .err

def flush (st : St) : List CItem := if st.curListed then st.done ++ [st.cur] else st.done

/-- one iteration of the second scan loop of `ReadFromWebVTT` -/
def step (st : St) (raw : Option Str) : Res St :=
  match raw with
  | none => .err
  | some raw =>
    let line := trimSpace raw
    if st.block ≠ .text && (line = "NOTE".toList || hasPrefix "NOTE ".toList line) then
      .ok { st with block := .comment,
                    comments := if line = "NOTE".toList then st.comments else st.comments ++ [trimPrefix "NOTE ".toList line] }
    else if line = [] then
      let keep := st.block = .style && !st.styles.isEmpty && !(hasSuffix ['}'] (st.styles.getLast?.getD []))
      .ok { st with block := if keep then st.block else .none, tags := [] }
    else if st.block ≠ .text && st.block ≠ .comment && hasPrefix "Region: ".toList line then
      match regionParts (splitC ' ' (trimPrefix "Region: ".toList line)) {} with
      | some r => .ok { st with regions := setDef st.regions (regionDef r) }
      | none => .err
    else if st.block ≠ .text && st.block ≠ .comment && hasPrefix "STYLE".toList line then
      if st.styleSeen then .ok { st with block := .style }
      else .ok { st with block := .style, styleSeen := true, tags := [], styles := [] }
    else if contains arrow line then
      match splitOn arrow line with
      | left :: right :: _ =>
        match fields right with
        | [] => .err
        | endTok :: rest =>
          if !smallNumbers left || !smallNumbers endTok then .unmodelled else
          match Duration.parseVTT left, Duration.parseVTT endTok with
          | some s, some e =>
            match settings st.regions rest {} with
            | none => .err
            | some a =>
              let item : CItem :=
               { index := st.index, startAt := s, endAt := e, region := a.region,
                 comments := st.comments, lines := [],
                 attrs := some (mkAttrs [("WebVTTAlign", optStr a.align), ("WebVTTLine", optStr a.line),
                  ("WebVTTPosition", optStr a.position), ("WebVTTSize", optStr a.size),
                  ("WebVTTVertical", optStr a.vertical)]) }
              .ok { st with done := flush st, cur := item, curListed := true, block := .text, index := 0, comments := [] }
          | _, _ => .err
      | _ => .err
    else if st.block ≠ .text && st.block ≠ .comment && hasPrefix "X-TIMESTAMP-MAP".toList line then
      if !st.cur.lines.isEmpty then .err else
      match parseTsMap line with
      | .ok m => .ok { st with tsmap := some m }
      | .err => .err
      | .unmodelled => .unmodelled
    else
      match st.block with
      | .comment => .ok { st with comments := st.comments ++ [line] }
      | .style => .ok { st with styles := st.styles ++ [line] }
      | .text =>
        match parseText line st.tags with
        | .ok (tags, l) =>
          .ok { st with tags := tags, cur := if l.items.isEmpty then st.cur else { st.cur with lines := st.cur.lines ++ [l] } }
        | .err => .err
        | .unmodelled => .unmodelled
      | .none => .ok { st with index := atoiLoose line }

def run : St → List (Option Str) → Res St
  | st, [] => .ok st
  | st, l :: ls =>
    match step st l with
    | .ok st' => run st' ls
    | .err => .err
    | .unmodelled => .unmodelled

/-- the header-skipping loop: `some rest` = the lines after the `WEBVTT` line (or nothing left),
    `none` = a line that is not valid UTF-8 -/
def skipHeader : List (Option Str) → Option (List (Option Str))
  | [] => some []
  | none :: _ => none
  | some l :: ls =>
    match fields (trimPrefix bom l) with
    | f :: _ => if f = "WEBVTT".toList then some ls else skipHeader ls
    | [] => skipHeader ls

def result (st : St) : Subs :=
  { items := flush st, regions := st.regions,
    styles := if st.styleSeen then
        [{ id := defaultStyleID,
           attrs := some (mkAttrs [("WebVTTStyles", if st.styles.isEmpty then none else some (join ['\n'] st.styles)),
                                   ("WebVTTTags", if st.tags.isEmpty then none else some (tagsStr st.tags))]) }]
      else [],
    metadata := st.tsmap.map fun (l, m) => [("WebVTTTimestampMap".toList, itoa l ++ ',' :: itoa m)] }

/-- `ReadFromWebVTT` on the scanned lines -/
def read (lines : List (Option Str)) : Res Subs :=
  match skipHeader lines with
  | none => .err
  | some rest =>
    match run {} rest with
    | .ok st => .ok (result st)
    | .err => .err
    | .unmodelled => .unmodelled

/-! ## writer -/

/-- an attribute that is set (the integer `WebVTTLines` is unset when it is 0) -/
def getNE (a : Attrs) (k : String) : Option Str :=
  match kvGet a k with
  | some v => if v = [] || (k = "WebVTTLines" && v = ['0']) then none else some v
  | none => none

/-- attribute of the inline style, else of the referenced style -/
def fallback (own sty : Attrs) (k : String) : Option Str :=
  match getNE own k with
  | some v => some v
  | none => getNE sty k

def styleAttrs (s : Subs) (ref : Option Str) : Attrs :=
  match ref with
  | none => none
  | some id => match s.styles.find? (·.id = id) with
    | some d => d.attrs
    | none => none

def setting (label : String) (v : Option Str) : Str :=
  match v with
  | some v => ' ' :: label.toList ++ v
  | none => []

/-- `cssColor` -/
def cssColor (rgb : Str) : Str :=
  let l := String.ofList (toLowerAscii rgb)
  if l = "#00ffff" then "cyan".toList else if l = "#ffff00" then "yellow".toList
  else if l = "#ff0000" then "red".toList else if l = "#ff00ff" then "magenta".toList
  else if l = "#00ff00" then "lime".toList else []

/-- `WebVTTTag.startTag` / `endTag` -/
def Tag.startTag (t : Tag) : Str :=
  if t.name = [] then [] else
  '<' :: t.name ++ (if t.classes.isEmpty then [] else '.' :: join ['.'] t.classes)
    ++ (if t.annotation = [] then [] else ' ' :: t.annotation) ++ ['>']
def Tag.endTag (t : Tag) : Str := if t.name = [] then [] else "</".toList ++ t.name ++ ['>']

/-- number of leading tags two stacks share (`webVTTCommonTags`) -/
def commonTags : List Tag → List Tag → Nat
  | a :: as, b :: bs => if a = b then commonTags as bs + 1 else 0
  | _, _ => 0

/-- `LineItem.webVTTBytes(previous, next)` (after the repair of D14: whole-tag common prefix) -/
def runBytes (prev next : Option LItem) (li : LItem) : Str :=
  let tags := tagsOfAttrs li.attrs
  let color := match kvGet li.attrs "TTMLColor" with | some c => cssColor c | none => []
  let p := match prev with | some x => commonTags tags (tagsOfAttrs x.attrs) | none => 0
  let n := match next with | some x => commonTags tags (tagsOfAttrs x.attrs) | none => 0
  (if li.startAt > 0 then '<' :: Duration.formatVTT li.startAt ++ ['>'] else [])
    ++ (if color ≠ [] then "<c.".toList ++ color ++ ['>'] else [])
    ++ ((tags.drop p).map Tag.startTag).flatten
    ++ escapeHTML li.text
    ++ (((tags.drop n).reverse).map Tag.endTag).flatten
    ++ (if color ≠ [] then "</c>".toList else [])

def itemsBytes : Option LItem → List LItem → Str
  | _, [] => []
  | prev, li :: rest => runBytes prev rest.head? li ++ itemsBytes (some li) rest

/-- `Line.webVTTBytes` -/
def lineBytes (l : Line) : Str :=
  (if l.voice ≠ [] then "<v ".toList ++ l.voice ++ ['>'] else []) ++ itemsBytes none l.items ++ ['\n']

def regionBytes (s : Subs) (d : Def) : Str :=
  let sty := styleAttrs s d.ref
  "Region: id=".toList ++ d.id
    ++ setting "lines=" (fallback d.attrs sty "WebVTTLines")
    ++ setting "regionanchor=" (fallback d.attrs sty "WebVTTRegionAnchor")
    ++ setting "scroll=" (fallback d.attrs sty "WebVTTScroll")
    ++ setting "viewportanchor=" (fallback d.attrs sty "WebVTTViewportAnchor")
    ++ setting "width=" (fallback d.attrs sty "WebVTTWidth") ++ ['\n']

def cueBytes (s : Subs) (k : Nat) (it : CItem) : Str :=
  let sty := styleAttrs s it.style
  (if it.comments.isEmpty then [] else "NOTE ".toList ++ (it.comments.map (· ++ ['\n'])).flatten ++ ['\n'])
    ++ itoaNat (k + 1) ++ ['\n']
    ++ Duration.formatVTT it.startAt ++ " --> ".toList ++ Duration.formatVTT it.endAt
    ++ setting "align:" (fallback it.attrs sty "WebVTTAlign")
    ++ setting "line:" (fallback it.attrs sty "WebVTTLine")
    ++ setting "position:" (fallback it.attrs sty "WebVTTPosition")
    ++ setting "region:" it.region
    ++ setting "size:" (fallback it.attrs sty "WebVTTSize")
    ++ setting "vertical:" (fallback it.attrs sty "WebVTTVertical")
    ++ ['\n'] ++ (it.lines.map lineBytes).flatten ++ ['\n']

def sortDefs (l : List Def) : List Def := l.mergeSort (fun a b => !strLt b.id a.id)

def styleLines (s : Subs) : List Str :=
  (sortDefs s.styles).flatMap fun d => match kvGet d.attrs "WebVTTStyles" with
    | some v => splitC '\n' v
    | none => []

def header (s : Subs) : Str :=
  "WEBVTT".toList
    ++ (match kvGet s.metadata "WebVTTTimestampMap" with
        | some v =>
          match splitC ',' v with
          | [l, m] => "\nX-TIMESTAMP-MAP=LOCAL:".toList ++ Duration.formatVTT ((atoi l).getD 0) ++ ",MPEGTS:".toList ++ m
          | _ => []
        | none => [])
    ++ "\n\n".toList

/-- `WriteToWebVTT` (repaired: styles in identifier order, nil inline styles tolerated);
    `none` = `ErrNoSubtitlesToWrite` -/
def write (s : Subs) : Option Str :=
  if s.items.isEmpty then none else
  let st := styleLines s
  some ((header s
    ++ (if st.isEmpty then [] else "STYLE\n".toList ++ join ['\n'] st ++ "\n\n".toList)
    ++ ((sortDefs s.regions).map (regionBytes s)).flatten
    ++ (if s.regions.isEmpty then [] else ['\n'])
    ++ (s.items.zipIdx.map fun (it, k) => cueBytes s k it).flatten).dropLast)

end VTT
end Astisub
