import Astisub.Model.CLI
import Astisub.Model.Ops
import Astisub.Model.LinCorr

/-!
# Model/CLIRun — `astisub/main.go` executed: from (sub-command, flags, opened inputs) to what is written

`main` (1) refuses without `-i` / `-o`, (2) opens the first input (a failure there is fatal whatever the
sub-command), (3) validates the sub-command's own flags, (4) for `merge` opens the second input, (5) applies exactly
one library operation to the cue list, (6) calls `Subtitles.Write(-o)`, which FIRST creates (truncates) the destination
and only then selects the writer by extension (`ErrInvalidExtension`) and lets it refuse an empty cue list
(`ErrNoSubtitlesToWrite`): both errors leave an empty destination behind.  Every refusal goes through `log.Fatal`:
exit status 1.  The cue lists are the format-neutral ones of `Model/Types`; which codec reads and writes them is
`Model/Dispatch`.
-/

namespace Astisub
namespace CLI

/-- what the process leaves behind -/
inductive Outcome where
  | refused                      -- `log.Fatal` during validation or while opening an input: destination untouched
  | badExtension                 -- `Write` returned `ErrInvalidExtension`: exit status 1, destination created empty
  | nothingToWrite               -- `Write` returned `ErrNoSubtitlesToWrite`: exit status 1, destination created empty
  | wrote (c : Dispatch.Codec) (xs : List Item)   -- the cue list handed to the writer of that codec
  deriving Repr, DecidableEq

/-- the one library call of each `case` of `main`'s switch; `second` is the second input of `merge` -/
def exec (op : Op) (first second : List Item) : List Item :=
  match op with
  | .convert => first
  | .sync d => Ops.add d first
  | .fragment f => Ops.fragment f first
  | .unfragment => Ops.unfragment first
  | .optimize => first                      -- `Optimize` only drops unused styles / regions: the cues stay
  | .merge => Ops.mergeItems first second
  | .linear a1 d1 a2 d2 => LinCorr.apply a1 d1 a2 d2 first

/-- `Subtitles.Write` after `os.Create`: the writer is chosen by the lower-cased extension (without the dot), and every
    writer refuses an empty list -/
def write (ext : String) (xs : List Item) : Outcome :=
  match Dispatch.writeCodec (Dispatch.lowerExt ext) with
  | none => .badExtension
  | some c => if xs.isEmpty then .nothingToWrite else .wrote c xs

/-- does the destination exist (created or truncated) afterwards? -/
def Outcome.touched : Outcome → Bool
  | .refused => false
  | _ => true

/-- exit status 0 -/
def Outcome.ok : Outcome → Bool
  | .wrote _ _ => true
  | _ => false

/-- the whole tool; `ext` = extension of `-o` without the dot; `first` / `second` = the inputs as opened (`none` = `Open` failed or, for `second`, no such `-i`) -/
def run (cmd : String) (fl : Flags) (ext : String) (first second : Option (List Item)) : Outcome :=
  if fl.inputs = 0 then .refused
  else if !fl.output then .refused
  else match first with
    | none => .refused                          -- the first input is opened before the sub-command is looked at
    | some xs =>
      match plan cmd fl with
      | none => .refused
      | some .merge =>
        (match second with
         | none => .refused
         | some ys => write ext (exec .merge xs ys))
      | some op => write ext (exec op xs [])

end CLI
end Astisub
