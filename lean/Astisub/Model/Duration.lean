import Astisub.Go.Strconv

/-!
# Model/Duration — the timestamp codecs

`parseDuration` / `formatDuration` of `subtitles.go` and the per-format wrappers, the TTML
clock-time path, and the STL text / binary timecodes of `stl.go`.

`formatDuration` is modelled in integer arithmetic; the Go code computes the fraction through
`float64` (`math.Floor(float64(n)/1e6/10^k)`). That gap is closed on the implementation side: the
`ts.fracsweep` stream compares the real function with this integer formula (all 10⁹ values of
`n` in the thorough tier). Non-negative durations only (every property quantifies over `t ≥ 0`).
-/

namespace Astisub
namespace Duration
open Go

def nsPerMs : Int := 1000000
def nsPerS : Int := 1000000000
def nsPerMin : Int := 60000000000
def nsPerH : Int := 3600000000000

/-- two-digit field: `if v < 10 { s += "0" }; s += strconv.Itoa(v)` -/
def pad2 (v : Nat) : Str := if v < 10 then '0' :: itoaNat v else itoaNat v

/-- `formatDuration(i, sep, digits)` for `i ≥ 0` -/
def format (t : Int) (sep : Char) (digits : Nat) : Str :=
  let n := t.toNat
  let h := n / 3600000000000
  let m := n % 3600000000000 / 60000000000
  let s := n % 60000000000 / 1000000000
  let frac := n % 1000000000 / 1000000 / 10 ^ (3 - digits)
  pad2 h ++ ':' :: pad2 m ++ ':' :: pad2 s ++ sep :: padLeft0 digits (itoaNat frac)

/-- `parseDuration(i, sep, digits)`; `none` = error -/
def parse (i : Str) (sep : Char) (digits : Nat) : Option Int :=
  let parts := splitC sep i
  let r : Option (Int × Str) :=
    if parts.length ≥ 2 then
      let s := trimSpace (parts.getLast?.getD [])
      if s.length > 3 then none else
      match atoi s with
      | none => none
      | some ms => some (ms * (10 : Int) ^ (digits - s.length), join [sep] parts.dropLast)
    else some (0, i)
  match r with
  | none => none
  | some (ms, s) =>
    let hms := splitC ':' (trimSpace s)
    let fieldsOf : Option (Str × Str × Str) :=
      match hms with
      | [pm, ps] => some ([], pm, ps)
      | [ph, pm, ps] => some (ph, pm, ps)
      | _ => none
    match fieldsOf with
    | none => none
    | some (ph, pm, ps) =>
      match atoi (trimSpace ps), atoi (trimSpace pm) with
      | some sec, some min =>
        let hours : Option Int := if ph.length > 0 then atoi (trimSpace ph) else some 0
        match hours with
        | some h => some (ms * nsPerMs + sec * nsPerS + min * nsPerMin + h * nsPerH)
        | none => none
      | _, _ => none

/-! ### per-format wrappers -/

def formatSRT (t : Int) : Str := format t ',' 3
def parseSRT (i : Str) : Option Int :=
  match parse i ',' 3 with
  | some d => some d
  | none => parse i '.' 3

def formatSSA (t : Int) : Str := format t '.' 2
def parseSSA (i : Str) : Option Int := parse i '.' 3

def formatVTT (t : Int) : Str := format t '.' 3
def parseVTT (i : Str) : Option Int := parse i '.' 3

def formatTTML (t : Int) : Str := format t '.' 3

/-! ### STL timecodes (frame rate `fr`) -/

/-- `formatDurationSTL`: `HHMMSSFF` -/
def formatSTL (t : Int) (fr : Nat) : Str :=
  let n := t.toNat
  let h := n / 3600000000000
  let m := n % 3600000000000 / 60000000000
  let s := n % 60000000000 / 1000000000
  let f := n % 1000000000 * fr / 1000000000
  pad2 h ++ pad2 m ++ pad2 s ++ pad2 f

/-- frames → nanoseconds as the (repaired) reader computes it: rounded up, so that the frame
    number survives `formatSTL` again. `ceil = false` gives the pinned truncating variant. -/
def framesToNs (ceil : Bool) (f : Int) (fr : Int) : Int :=
  if ceil then Int.tdiv (1000000000 * f + fr - 1) fr else Int.tdiv (1000000000 * f) fr

/-- `parseDurationSTL` on an 8-character field (the caller slices `i[0:8]`; shorter input panics
    in Go and is guarded by the caller's fixed block size) -/
def parseSTL (ceil : Bool) (i : Str) (fr : Int) : Option Int :=
  match atoi (i.take 2), atoi ((i.drop 2).take 2), atoi ((i.drop 4).take 2), atoi ((i.drop 6).take 2) with
  | some h, some m, some s, some f => some (h * nsPerH + m * nsPerMin + s * nsPerS + framesToNs ceil f fr)
  | _, _, _, _ => none

/-- `formatDurationSTLBytes`: four bytes h, m, s, f -/
def formatSTLBytes (t : Int) (fr : Nat) : List Nat :=
  let n := t.toNat
  [n / 3600000000000 % 256, n % 3600000000000 / 60000000000, n % 60000000000 / 1000000000,
   n % 1000000000 * fr / 1000000000]

/-- `parseDurationSTLBytes` -/
def parseSTLBytes (ceil : Bool) (b : List Nat) (fr : Int) : Int :=
  match b with
  | [h, m, s, f] => (h : Int) * nsPerH + (m : Int) * nsPerMin + (s : Int) * nsPerS + framesToNs ceil f fr
  | _ => 0

end Duration
end Astisub
