/-!
# Model/Graph — regions, styles and the references between them

Go side: `Subtitles.Regions map[string]*Region`, `Subtitles.Styles map[string]*Style`,
`Item.Style *Style`, `Item.Region *Region`, `LineItem.Style *Style`, `Region.Style *Style`,
`Style.Style *Style` (inheritance).

* A Go map is an association list with distinct keys, in the order the runtime happens to
  iterate it (theorems that must not depend on that order quantify over permutations).
* A `*Style` reference is modelled by the list of identifiers read along its pointer chain
  (`x.ID`, `x.Style.ID`, `x.Style.Style.ID`, …; `[]` = `nil`).  That is exactly what the code
  can observe of it; a cyclic chain is cut where it first revisits an object.
* A `*Region` reference is modelled by the identifier read through it (`x.ID`).
-/

namespace Astisub

abbrev IdChain := List String

structure RegionDef where
  id : String
  style : IdChain
  tag : Nat := 0          -- stands for the definition's attributes (never inspected)
  deriving Repr, DecidableEq, Inhabited

structure StyleDef where
  id : String
  parent : IdChain := []    -- the definition's own inheritance chain (not read by `Optimize`)
  tag : Nat := 0
  deriving Repr, DecidableEq, Inhabited

structure GItem where
  style : IdChain
  region : Option String
  runs : List IdChain       -- the style reference of every run of every line, in order
  deriving Repr, DecidableEq, Inhabited

structure Graph where
  items : List GItem
  regions : List (String × RegionDef)
  styles : List (String × StyleDef)
  deriving Repr, DecidableEq, Inhabited

namespace Graph

/-! ## `Subtitles.Merge` — regions and styles -/

/-- `for _, d := range other { if _, ok := mine[d.ID]; !ok { mine[d.ID] = d } }`, the map
    `other` being visited in the order given -/
def mergeDefs {D : Type} (idOf : D → String) (mine other : List (String × D)) : List (String × D) :=
  other.foldl (fun acc kd => if (acc.lookup (idOf kd.2)).isSome then acc else acc ++ [(idOf kd.2, kd.2)]) mine

/-! ## `Subtitles.Optimize` / `removeUnusedRegionsAndStyles` (as repaired: inheritance followed) -/

/-- `for st != nil && !used[st.ID] { used[st.ID] = true; st = st.Style }` -/
def markChain (used : List String) : IdChain → List String
  | [] => used
  | id :: rest => if id ∈ used then used else markChain (id :: used) rest

/-- body of the first loop: over the items (region id; style chain; style chain of every run) -/
def markStep (acc : List String × List String) (it : GItem) : List String × List String :=
  ((match it.region with | some r => r :: acc.1 | none => acc.1),
    it.runs.foldl markChain (markChain acc.2 it.style))

def markItems (items : List GItem) : List String × List String := items.foldl markStep ([], [])

/-- body of the second loop: a region whose own id is used keeps its place and marks its style
    chain; the others are deleted -/
def sweepStep (usedR : List String) (acc : List (String × RegionDef) × List String)
    (kr : String × RegionDef) : List (String × RegionDef) × List String :=
  if kr.2.id ∈ usedR then (acc.1 ++ [kr], markChain acc.2 kr.2.style) else acc

def sweepRegions (usedR : List String) (regions : List (String × RegionDef)) (usedS : List String) :
    List (String × RegionDef) × List String :=
  regions.foldl (sweepStep usedR) ([], usedS)

def optimize (g : Graph) : Graph :=
  if g.items.isEmpty then g else
  let (usedR, usedS) := markItems g.items
  let (regions, usedS) := sweepRegions usedR g.regions usedS
  { g with regions := regions, styles := g.styles.filter (fun ks => ks.2.id ∈ usedS) }

/-! ## `Subtitles.RemoveStyling` -/

def removeStyling (g : Graph) : Graph :=
  { items := g.items.map (fun it => { style := [], region := none, runs := it.runs.map (fun _ => []) }),
    regions := [], styles := [] }

end Graph
end Astisub
