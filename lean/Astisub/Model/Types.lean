/-!
# Model/Types — the format-neutral cue model used by the transformation models

`Item` mirrors `astisub.Item` as far as the transformations (`Add`, `ForceDuration`,
`Fragment`, `Unfragment`, `Order`, `Merge`, `ApplyLinearCorrection`) can observe it:

* `uid`   — identity of the `*Item` pointer (0 = an item allocated by the operation itself);
* `startAt`, `endAt` — `time.Duration` in nanoseconds, modelled as unbounded `Int`
  (no `int64` wrap-around: every property quantifies over values far below 2^62);
* `lines` — the texts of the runs of every line (what `Item.String()` reads);
* `pay`   — everything else the item carries (style, region, inline style, index, comments),
  as an opaque tag the operations may copy but never inspect.
-/

namespace Astisub

-- durations are `Int` nanoseconds (`time.Duration` without wrap-around); `omega` needs the literal type

structure Item where
  uid : Nat
  startAt : Int
  endAt : Int
  lines : List (List String)
  pay : Nat
  deriving Repr, DecidableEq, Inhabited

/-- `Line.String()`: run texts joined by `""`. -/
def lineStr (l : List String) : String := String.join l

/-- `Item.String()`: lines joined by `" - "`. -/
def Item.str (it : Item) : String := " - ".intercalate (it.lines.map lineStr)

/-- the part of an item no transformation may change -/
def Item.content (it : Item) : List (List String) × Nat := (it.lines, it.pay)

def millisecond : Int := 1000000
def second : Int := 1000000000
def minute : Int := 60 * second
def hour : Int := 60 * minute

end Astisub
