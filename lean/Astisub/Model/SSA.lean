import Astisub.Model.Subs
import Astisub.Model.Duration
import Astisub.Go.Numconv

/-!
# Model/SSA — `ReadFromSSAWithOptions`, `newSSAStyleFromString`, `newSSAEventFromString`,
`ssaEvent.item`, `ssaScriptInfo.parse/metadata/bytes`, `WriteToSSA` and friends (`ssa.go`)

The model mirrors the *repaired* tree (fix-1 … fix-6 of this work package):
nil guards in the writer (D9), non-zero integer = true for boolean columns (D10), runs of a line
joined without a separator (D11), Format columns collected in sorted style order and empty style
fields left unset by the reader (D12), events other than `Dialogue` skipped before parsing (fix-5),
lines of the styles section other than `Style:` skipped (fix-6).

A style / script-info block is an association list from an enumerated field to a typed value; the
column names, attribute names and column kinds are tables (`Fld.col`, `Fld.key`, `Fld.kind`).
Floats are carried as `math.Float64bits` patterns.
-/

namespace Astisub
namespace SSA
open Go

inductive Res (α : Type) where
  | ok (a : α)
  | err
  | unmodelled
  deriving Repr, DecidableEq

inductive Kind where
  | bool | colour | float | int | str
  deriving Repr, DecidableEq

inductive Val where
  | b (v : Bool)
  | c (v : Nat)        -- aabbggrr
  | f (bits : Nat)
  | i (v : Int)
  | s (v : Str)
  deriving Repr, DecidableEq

/-- the 23 attributes of a style (fields of `ssaStyle` except `name`), in the order `updateFormat` visits them -/
inductive Fld where
  | alignment | alphaLevel | angle | backColour | bold | borderStyle | encoding | fontName | fontSize
  | italic | marginL | marginR | marginV | outline | outlineColour | primaryColour | scaleX | scaleY
  | secondaryColour | shadow | spacing | strikeout | underline
  deriving Repr, DecidableEq

def Fld.all : List Fld :=
  [.alignment, .alphaLevel, .angle, .backColour, .bold, .borderStyle, .encoding, .fontName, .fontSize,
   .italic, .marginL, .marginR, .marginV, .outline, .outlineColour, .primaryColour, .scaleX, .scaleY,
   .secondaryColour, .shadow, .spacing, .strikeout, .underline]

/-- the Format column name (`ssaStyleFormatName…`) -/
def Fld.col : Fld → String
  | .alignment => "Alignment" | .alphaLevel => "AlphaLevel" | .angle => "Angle" | .backColour => "BackColour"
  | .bold => "Bold" | .borderStyle => "BorderStyle" | .encoding => "Encoding" | .fontName => "Fontname"
  | .fontSize => "Fontsize" | .italic => "Italic" | .marginL => "MarginL" | .marginR => "MarginR"
  | .marginV => "MarginV" | .outline => "Outline" | .outlineColour => "OutlineColour"
  | .primaryColour => "PrimaryColour" | .scaleX => "ScaleX" | .scaleY => "ScaleY"
  | .secondaryColour => "SecondaryColour" | .shadow => "Shadow" | .spacing => "Spacing"
  | .strikeout => "Strikeout" | .underline => "Underline"

/-- the `StyleAttributes` field the attribute lands in -/
def Fld.key : Fld → String
  | .alignment => "SSAAlignment" | .alphaLevel => "SSAAlphaLevel" | .angle => "SSAAngle" | .backColour => "SSABackColour"
  | .bold => "SSABold" | .borderStyle => "SSABorderStyle" | .encoding => "SSAEncoding" | .fontName => "SSAFontName"
  | .fontSize => "SSAFontSize" | .italic => "SSAItalic" | .marginL => "SSAMarginLeft" | .marginR => "SSAMarginRight"
  | .marginV => "SSAMarginVertical" | .outline => "SSAOutline" | .outlineColour => "SSAOutlineColour"
  | .primaryColour => "SSAPrimaryColour" | .scaleX => "SSAScaleX" | .scaleY => "SSAScaleY"
  | .secondaryColour => "SSASecondaryColour" | .shadow => "SSAShadow" | .spacing => "SSASpacing"
  | .strikeout => "SSAStrikeout" | .underline => "SSAUnderline"

def Fld.kind : Fld → Kind
  | .bold | .italic | .strikeout | .underline => .bool
  | .backColour | .outlineColour | .primaryColour | .secondaryColour => .colour
  | .alphaLevel | .angle | .fontSize | .scaleX | .scaleY | .outline | .shadow | .spacing => .float
  | .alignment | .borderStyle | .encoding | .marginL | .marginR | .marginV => .int
  | .fontName => .str

/-- what a Format column name means to the style reader: `none` = ignored column -/
inductive Col where
  | name
  | fld (f : Fld)
  deriving Repr, DecidableEq

def colOfName (n : Str) : Option Col :=
  if n = "Name".toList then some .name
  else if n = "TertiaryColour".toList then some (.fld .outlineColour)
  else (Fld.all.find? fun f => f.col.toList = n).map .fld

abbrev Vals (κ : Type) := List (κ × Val)

def Vals.get {κ} [DecidableEq κ] (l : Vals κ) (k : κ) : Option Val := l.lookup k
def Vals.set {κ} [DecidableEq κ] (l : Vals κ) (k : κ) (v : Val) : Vals κ := (l.filter fun p => p.1 ≠ k) ++ [(k, v)]
def Vals.erase {κ} [DecidableEq κ] (l : Vals κ) (k : κ) : Vals κ := l.filter fun p => p.1 ≠ k

structure Style where
  name : Str := []
  vals : Vals Fld := []
  deriving Repr, DecidableEq, Inhabited

/-- canonical text of a value (harness/canon.go `attrValue`) -/
def Val.canon : Val → Str
  | .b v => if v then "true".toList else "false".toList
  | .c v => hex8 v
  | .f bits => 'f' :: itoaNat bits
  | .i v => itoa v
  | .s v => v

/-! ## colours -/

/-- `newColorFromSSAString`: the low 32 bits of the parsed integer -/
def colourOfInt (i : Int) : Nat := (i % 4294967296).toNat

/-- `newColorFromSSAColor` on a non-empty item; `none` = error -/
def parseColour (item : Str) : Option Nat :=
  match dropPrefix? "&H".toList item with
  | some rest => (parseIntBase 16 rest).map colourOfInt
  | none => (parseIntBase 10 item).map colourOfInt

/-- `newSSAColorFromColor` -/
def colourString (c : Nat) : Str := "&H".toList ++ hex8 c

/-! ## style rows -/

/-- the typed value of a non-empty field of kind `k` -/
def parseVal (k : Kind) (item : Str) : Res Val :=
  match k with
  | .bool => .ok (.b (atoiLoose item ≠ 0))
  | .colour => match parseColour item with | some c => .ok (.c c) | none => .err
  | .float => match parseFloat item with | .ok b => .ok (.f b) | .err => .err | .unmodelled => .unmodelled
  | .int => match atoi item with | some v => .ok (.i v) | none => .err
  | .str => .ok (.s item)

/-- one (column, field) pair of `newSSAStyleFromString` -/
def styleField (st : Style) (attr item : Str) : Res Style :=
  if item.isEmpty then .ok st else
  match colOfName attr with
  | none => .ok st
  | some .name => .ok { st with name := item }
  | some (.fld f) =>
    match parseVal f.kind item with
    | .ok v => .ok { st with vals := st.vals.set f v }
    | .err => .err
    | .unmodelled => .unmodelled

def styleFields : Style → List (Str × Str) → Res Style
  | st, [] => .ok st
  | st, (a, i) :: rest =>
    match styleField st a i with
    | .ok st' => styleFields st' rest
    | .err => .err
    | .unmodelled =>
      -- a later column may still fail in Go; either way the case is not compared
      .unmodelled

/-- `newSSAStyleFromString` -/
def styleRow (content : Str) (format : List Str) : Res Style :=
  let items := splitC ',' content
  if items.length ≠ format.length then .err else styleFields {} (format.zip items)

/-! ## events -/

structure Event where
  category : Str := []
  effect : Str := []
  endAt : Int := 0
  layer : Option Int := none
  marked : Option Bool := none
  marginL : Option Int := none
  marginR : Option Int := none
  marginV : Option Int := none
  name : Str := []
  startAt : Int := 0
  style : Str := []
  text : Str := []
  deriving Repr, DecidableEq, Inhabited

/-- the last Format column absorbs the remaining commas -/
def absorb (n : Nat) (items : List Str) : List Str := items.take (n - 1) ++ [join [','] (items.drop (n - 1))]

def eventField (e : Event) (attr item : Str) : Option Event :=
  if attr = "Start".toList then (Duration.parseSSA item).map fun d => { e with startAt := d }
  else if attr = "End".toList then (Duration.parseSSA item).map fun d => { e with endAt := d }
  else if attr = "Layer".toList then (atoi item).map fun v => { e with layer := some v }
  else if attr = "MarginL".toList then (atoi item).map fun v => { e with marginL := some v }
  else if attr = "MarginR".toList then (atoi item).map fun v => { e with marginR := some v }
  else if attr = "MarginV".toList then (atoi item).map fun v => { e with marginV := some v }
  else if attr = "Effect".toList then some { e with effect := item }
  else if attr = "Name".toList then some { e with name := item }
  else if attr = "Style".toList then some { e with style := if item = "*Default".toList then "Default".toList else item }
  else if attr = "Text".toList then some { e with text := trimSpace item }
  else if attr = "Marked".toList then some { e with marked := some (item = "Marked=1".toList) }
  else some e

def eventFields : Event → List (Str × Str) → Option Event
  | e, [] => some e
  | e, (a, i) :: rest => match eventField e a i with
    | some e' => eventFields e' rest
    | none => none

/-- `newSSAEventFromString` (`format` non-empty); `none` = error -/
def eventRow (header content : Str) (format : List Str) : Option Event :=
  let items := splitC ',' content
  if items.length < format.length then none
  else eventFields { category := header } (format.zip (absorb format.length items))

/-! ## event text -/

/-- after a `{`: how many characters the match of `[^\{]+\}` takes (greedy, so up to the *last* `}` of
    the stretch without `{`, with at least one character before it) -/
def effLen : Str → Nat → Option Nat → Option Nat
  | [], _, last => last
  | c :: cs, pos, last =>
    if c = '{' then last
    else effLen cs (pos + 1) (if c = '}' ∧ pos ≥ 1 then some (pos + 1) else last)

inductive Seg where
  | text (s : Str)
  | eff (s : Str)
  deriving Repr, DecidableEq

/-- `ssaRegexpEffect.FindAllStringIndex`: a text segment (maybe empty) before every match and after the last -/
def segsF : Nat → Str → Str → List Seg
  | 0, _, acc => [.text acc.reverse]
  | _ + 1, [], acc => [.text acc.reverse]
  | fuel + 1, c :: cs, acc =>
    if c = '{' then
      match effLen cs 0 none with
      | some n => .text acc.reverse :: .eff ('{' :: cs.take n) :: segsF fuel (cs.drop n) []
      | none => segsF fuel cs (c :: acc)
    else segsF fuel cs (c :: acc)

def segs (s : Str) : List Seg := segsF (s.length + 1) s []

def effAttrs (e : Str) : Attrs := some [("SSAEffect".toList, e)]

/-- the runs after the first match: every effect with the text that follows it -/
def pairRuns : List Seg → List LItem
  | .eff e :: .text t :: rest => { text := t, attrs := effAttrs e } :: pairRuns rest
  | _ => []

/-- the `LineItem`s of one line -/
def lineRuns (s : Str) : List LItem :=
  match segs s with
  | [.text t] => [{ text := t }]
  | .text t :: rest => (if t.isEmpty then [] else [{ text := t }]) ++ pairRuns rest
  | _ => []

/-- `\N` → `\n`, split at `\n`, trim -/
def textLines (text : Str) : List Str :=
  (splitOn "\\n".toList (replaceAll "\\N".toList "\\n".toList text)).map trimSpace

/-- the style an event refers to: its name, or its name without a leading `*` -/
def resolveStyle (ids : List Str) (style : Str) : Option Str :=
  if style.isEmpty then none
  else if ids.contains style then some style
  else if ids.contains (trimPrefix ['*'] style) then some (trimPrefix ['*'] style)
  else none

def boolStr (b : Bool) : Str := if b then "true".toList else "false".toList

/-- `ssaEvent.item` -/
def eventItem (ids : List Str) (e : Event) : CItem :=
  { startAt := e.startAt, endAt := e.endAt,
    style := resolveStyle ids e.style,
    attrs := some (mkAttrs [("SSAEffect", optStr e.effect), ("SSALayer", e.layer.map itoa),
      ("SSAMarginLeft", e.marginL.map itoa), ("SSAMarginRight", e.marginR.map itoa),
      ("SSAMarginVertical", e.marginV.map itoa), ("SSAMarked", e.marked.map boolStr)]),
    lines := (textLines e.text).map fun s => { voice := e.name, items := lineRuns s } }

/-! ## script info -/

inductive SI where
  | collisions | originalEditing | originalScript | originalTiming | originalTranslation
  | playDepth | playResX | playResY | scriptType | scriptUpdatedBy | synchPoint | timer | title
  | updateDetails | wrapStyle
  deriving Repr, DecidableEq

/-- in the order `ssaScriptInfo.bytes` writes them -/
def SI.all : List SI :=
  [.collisions, .originalEditing, .originalScript, .originalTiming, .originalTranslation, .playDepth,
   .playResX, .playResY, .scriptType, .scriptUpdatedBy, .synchPoint, .timer, .title, .updateDetails, .wrapStyle]

def SI.header : SI → String
  | .collisions => "Collisions" | .originalEditing => "Original Editing" | .originalScript => "Original Script"
  | .originalTiming => "Original Timing" | .originalTranslation => "Original Translation"
  | .playDepth => "PlayDepth" | .playResX => "PlayResX" | .playResY => "PlayResY" | .scriptType => "ScriptType"
  | .scriptUpdatedBy => "Script Updated By" | .synchPoint => "Synch Point" | .timer => "Timer" | .title => "Title"
  | .updateDetails => "Update Details" | .wrapStyle => "WrapStyle"

def SI.key : SI → String
  | .collisions => "SSACollisions" | .originalEditing => "SSAOriginalEditing" | .originalScript => "SSAOriginalScript"
  | .originalTiming => "SSAOriginalTiming" | .originalTranslation => "SSAOriginalTranslation"
  | .playDepth => "SSAPlayDepth" | .playResX => "SSAPlayResX" | .playResY => "SSAPlayResY" | .scriptType => "SSAScriptType"
  | .scriptUpdatedBy => "SSAScriptUpdatedBy" | .synchPoint => "SSASynchPoint" | .timer => "SSATimer" | .title => "Title"
  | .updateDetails => "SSAUpdateDetails" | .wrapStyle => "SSAWrapStyle"

def SI.kind : SI → Kind
  | .playDepth | .playResX | .playResY => .int
  | .timer => .float
  | _ => .str

structure Info where
  comments : List Str := []
  vals : Vals SI := []
  deriving Repr, DecidableEq, Inhabited

def siOfHeader (h : Str) : Option SI := SI.all.find? fun f => f.header.toList = h

/-- `ssaScriptInfo.parse` -/
def Info.parse (b : Info) (header content : Str) : Res Info :=
  match siOfHeader header with
  | none => .ok b
  | some f =>
    match f.kind with
    | .int => match atoi content with
      | some v => .ok { b with vals := b.vals.set f (.i v) }
      | none => .err
    | .float =>
      match parseFloat (replaceAll [','] ['.'] content) with
      | .ok bits => .ok { b with vals := b.vals.set f (.f bits) }
      | .err => .err
      | .unmodelled => .unmodelled
    | _ => .ok { b with vals := if content.isEmpty then b.vals.erase f else b.vals.set f (.s content) }

/-- `ssaScriptInfo.metadata` in canonical form -/
def Info.metadata (b : Info) : Attrs :=
  some (mkAttrs (("Comments", if b.comments.isEmpty then none else some (join ['\n'] b.comments))
    :: SI.all.map fun f => (f.key, (b.vals.get f).map Val.canon)))

/-! ## the reader -/

inductive Sec where
  | none | events | scriptInfo | styles | unknown
  deriving Repr, DecidableEq

structure St where
  sec : Sec := .none
  format : List Str := []
  info : Info := {}
  styles : List Style := []
  events : List Event := []
  first : Bool := true
  deriving Repr, Inhabited

def bom : Str := [Char.ofNat 0xFEFF]

/-- `strings.ToLower` on a section name: ASCII plus the two non-ASCII letters whose lower case is ASCII -/
def toLowerSec (s : Str) : Str :=
  (toLowerAscii s).map fun c => if c = Char.ofNat 0x130 then 'i' else if c = Char.ofNat 0x212A then 'k' else c

/-- a new Format line overwrites the first indices of the map -/
def mergeFormat (old new : List Str) : List Str := new ++ old.drop new.length

/-- a `header: content` line of the `[Events]` section -/
def eventsLine (st : St) (header content : Str) : Res St :=
  if header = "Format".toList then
    .ok { st with format := mergeFormat st.format ((splitC ',' content).map trimSpace) }
  else if st.format.isEmpty then .err
  else if header ≠ "Dialogue".toList then .ok st            -- fix-5: other events are not parsed
  else match eventRow header content st.format with
    | some e => .ok { st with events := st.events ++ [e] }
    | none => .err

/-- a `header: content` line of a styles section -/
def stylesLine (st : St) (header content : Str) : Res St :=
  if header = "Format".toList then
    .ok { st with format := mergeFormat st.format ((splitC ',' content).map trimSpace) }
  else if st.format.isEmpty then .err
  else if header ≠ "Style".toList then .ok st               -- fix-6: only `Style:` lines are style rows
  else match styleRow content st.format with
    | .ok s => .ok { st with styles := st.styles ++ [s] }
    | .err => .err
    | .unmodelled => .unmodelled

/-- one iteration of the scan loop of `ReadFromSSAWithOptions` -/
def step (st : St) (raw : Str) : Res St :=
  let line := trimSpace raw
  let line := if st.first then trimPrefix bom line else line
  let st := { st with first := false }
  if line.isEmpty then .ok st
  else if hasPrefix ['['] line && hasSuffix [']'] line then
    let n := toLowerSec (line.drop 1).dropLast
    if n = "events".toList then .ok { st with sec := .events, format := [] }
    else if n = "script info".toList then .ok { st with sec := .scriptInfo }
    else if n = "v4 styles".toList || n = "v4+ styles".toList || n = "v4 styles+".toList then
      .ok { st with sec := .styles, format := [] }
    else .ok { st with sec := .unknown }
  else if st.sec = .unknown then .ok st
  else if line.head? = some ';' then
    .ok { st with info := { st.info with comments := st.info.comments ++ [trimSpace (line.drop 1)] } }
  else
    let split := splitC ':' line
    if split.length < 2 || split.head? = some [] then .ok st else
    let header := trimSpace (split.headD [])
    let content := trimSpace (join [':'] split.tail)
    match st.sec with
    | .scriptInfo =>
      match st.info.parse header content with
      | .ok i => .ok { st with info := i }
      | .err => .err
      | .unmodelled => .unmodelled
    | .events => eventsLine st header content
    | .styles => stylesLine st header content
    | _ => .ok st

def run : St → List Str → Res St
  | st, [] => .ok st
  | st, l :: ls =>
    match step st l with
    | .ok st' => run st' ls
    | .err => .err
    | .unmodelled => .unmodelled

/-- `ssaStyle.style` in canonical form -/
def Style.toDef (s : Style) : Def :=
  { id := s.name, attrs := some (mkAttrs (Fld.all.map fun f => (f.key, (s.vals.get f).map Val.canon))) }

/-- `o.Styles[st.ID] = st` over the parsed styles: a later style replaces an earlier one of the same name -/
def styleMap : List Style → List Style
  | [] => []
  | s :: rest => if rest.any (fun t => t.name = s.name) then styleMap rest else s :: styleMap rest

/-- `ReadFromSSA` on the scanned lines -/
def read (lines : List Str) : Res Subs :=
  match run {} lines with
  | .ok st =>
    let styles := styleMap st.styles
    let ids := styles.map (·.name)
    .ok { items := (st.events.filter fun e => e.category = "Dialogue".toList).map (eventItem ids),
          styles := styles.map Style.toDef,
          metadata := st.info.metadata }
  | .err => .err
  | .unmodelled => .unmodelled

/-! ## the writer -/

def kvGet (a : Attrs) (k : String) : Option Str := match a with | none => none | some kv => kv.lookup k.toList

def hexNat (s : Str) : Nat := s.foldl (fun a c => a * 16 + (digitValBase c).getD 0) 0

/-- canonical text → typed value (inverse of `Val.canon`) -/
def Val.ofCanon (k : Kind) (s : Str) : Val :=
  match k with
  | .bool => .b (s = "true".toList)
  | .colour => .c (hexNat s)
  | .float => .f (natOfDigits (s.drop 1))
  | .int => .i (atoiLoose s)
  | .str => .s s

/-- `newSSAStyleFromStyle` -/
def styleOfDef (d : Def) : Style :=
  { name := d.id,
    vals := Fld.all.filterMap fun f => (kvGet d.attrs f.key).map fun s => (f, Val.ofCanon f.kind s) }

/-- `newSSAScriptInfo` -/
def infoOfMeta (m : Attrs) : Info :=
  { comments := match kvGet m "Comments" with | some c => splitC '\n' c | none => [],
    vals := SI.all.filterMap fun f => (kvGet m f.key).map fun s => (f, Val.ofCanon f.kind s) }

def unlines (ls : List Str) : Str := (ls.map (· ++ ['\n'])).flatten

/-- `ssaScriptInfo.bytes`; `none` = a float outside the model -/
def Info.bytes (b : Info) : Option Str :=
  let fieldLine (f : SI) : Option (List Str) :=
    match b.vals.get f with
    | none => some []
    | some (.f bits) =>
      (formatFloatShortest bits).map fun s => [f.header.toList ++ ": ".toList ++ replaceAll ['.'] [','] s]
    | some v => some [f.header.toList ++ ": ".toList ++ v.canon]
  let rec go : List SI → Option (List Str)
    | [] => some []
    | f :: fs => match fieldLine f, go fs with
      | some a, some r => some (a ++ r)
      | _, _ => none
  (go SI.all).map fun ls => unlines ("[Script Info]".toList :: b.comments.map (fun c => "; ".toList ++ c) ++ ls)

/-- `ssaStyle.updateFormat` -/
def updateFormat (s : Style) (format : List Str) : List Str :=
  Fld.all.foldl (fun fmt f => if (s.vals.get f).isSome && !fmt.contains f.col.toList then fmt ++ [f.col.toList] else fmt) format

/-- the text of one style field as `ssaStyle.string` writes it -/
def Val.ssa : Val → Option Str
  | .b v => some (if v then ['1'] else ['0'])
  | .c v => some (colourString v)
  | .f bits => formatFloat3 bits
  | .i v => some (itoa v)
  | .s v => some v

def allSome {α} : List (Option α) → Option (List α)
  | [] => some []
  | a :: as => match a, allSome as with
    | some x, some xs => some (x :: xs)
    | _, _ => none

/-- `ssaStyle.string` -/
def Style.row (s : Style) (format : List Str) : Option Str :=
  let cells : List (Option (Option Str)) := format.map fun col =>
    match colOfName col with
    | some (.fld f) =>
      if col = "TertiaryColour".toList then some none else
      match s.vals.get f with
      | some v => (v.ssa).map some
      | none => some (some [])
    | _ => some none
  (allSome cells).map fun cs => join [','] (s.name :: cs.filterMap id)

/-- `newSSAEventFromItem` -/
def eventOfItem (it : CItem) : Event :=
  let intOf (k : String) : Option Int := (kvGet it.attrs k).map atoiLoose
  { category := "Dialogue".toList, startAt := it.startAt, endAt := it.endAt,
    style := it.style.getD [],
    effect := (kvGet it.attrs "SSAEffect").getD [],
    layer := intOf "SSALayer", marginL := intOf "SSAMarginLeft", marginR := intOf "SSAMarginRight",
    marginV := intOf "SSAMarginVertical",
    marked := (kvGet it.attrs "SSAMarked").map fun s => s = "true".toList,
    name := it.lines.foldl (fun n l => if l.voice.isEmpty then n else l.voice) [],
    text := join "\\n".toList (it.lines.map fun l =>
      (l.items.map fun li => (kvGet li.attrs "SSAEffect").getD [] ++ li.text).flatten) }

def eventFormat (v4plus : Bool) : List Str :=
  [if v4plus then "Layer".toList else "Marked".toList, "Start".toList, "End".toList, "Style".toList, "Name".toList,
   "MarginL".toList, "MarginR".toList, "MarginV".toList, "Effect".toList, "Text".toList]

/-- `ssaEvent.string` for the writer's fixed Format -/
def Event.row (e : Event) (v4plus : Bool) : Str :=
  join [','] [
    if v4plus then itoa (e.layer.getD 0) else (if e.marked = some true then "Marked=1".toList else "Marked=0".toList),
    Duration.formatSSA e.startAt, Duration.formatSSA e.endAt, e.style, e.name,
    itoa (e.marginL.getD 0), itoa (e.marginR.getD 0), itoa (e.marginV.getD 0), e.effect, e.text]

/-- `WriteToSSA`: `.err` = `ErrNoSubtitlesToWrite` -/
def write (s : Subs) : Res Str :=
  if s.items.isEmpty then .err else
  if s.items.any (fun it => it.startAt < 0 || it.endAt < 0) then .unmodelled else
  let info := infoOfMeta s.metadata
  let v4plus := kvGet s.metadata "SSAScriptType" = some "v4.00+".toList
  let styles := (s.styles.mergeSort fun a b => !strLt b.id a.id).map styleOfDef
  let format := styles.foldl (fun fmt st => updateFormat st fmt) ["Name".toList]
  let styleBlock : Option Str :=
    if styles.isEmpty then some [] else
    (allSome (styles.map fun st => st.row format)).map fun rows =>
      (if v4plus then "\n[V4+ Styles]\n".toList else "\n[V4 Styles]\n".toList)
        ++ "Format: ".toList ++ join ", ".toList format ++ ['\n']
        ++ unlines (rows.map fun r => "Style: ".toList ++ r)
  let events := "\n[Events]\n".toList ++ "Format: ".toList ++ join ", ".toList (eventFormat v4plus) ++ ['\n']
    ++ unlines (s.items.map fun it => "Dialogue: ".toList ++ (eventOfItem it).row v4plus)
  match info.bytes, styleBlock with
  | some i, some sb => .ok (i ++ sb ++ events)
  | _, _ => .unmodelled

end SSA
end Astisub
