import Astisub.Go.Float53
import Astisub.Model.Types

/-!
# Model/LinCorr — `Subtitles.ApplyLinearCorrection`

Exactly the Go expression tree:
`a := float64(d2-d1) / float64(a2-a1)`, `b := time.Duration(float64(d1) - a*float64(a1))`,
per boundary `time.Duration(a*float64(t)) + b`.
-/

namespace Astisub
namespace LinCorr
open Go

def slope (a1 d1 a2 d2 : Int) : Dy := Dy.div (Dy.ofInt (d2 - d1)) (Dy.ofInt (a2 - a1))

def intercept (a1 d1 a2 d2 : Int) : Int :=
  (Dy.sub (Dy.ofInt d1) (Dy.mul (slope a1 d1 a2 d2) (Dy.ofInt a1))).trunc

def apply1 (a1 d1 a2 d2 : Int) (t : Int) : Int :=
  (Dy.mul (slope a1 d1 a2 d2) (Dy.ofInt t)).trunc + intercept a1 d1 a2 d2

def apply (a1 d1 a2 d2 : Int) (xs : List Item) : List Item :=
  xs.map fun it => { it with endAt := apply1 a1 d1 a2 d2 it.endAt, startAt := apply1 a1 d1 a2 d2 it.startAt }

/-- the exact affine map through the two reference points, as a rational -/
def exact (a1 d1 a2 d2 : Int) (t : Int) : Rat :=
  (d1 : Rat) + ((t : Rat) - a1) * ((d2 : Rat) - d1) / ((a2 : Rat) - a1)

end LinCorr
end Astisub
