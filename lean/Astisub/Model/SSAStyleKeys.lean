import Astisub.Model.Subs

/-!
# Model/SSAStyleKeys — which entry of `Subtitles.Styles` the SSA writer emits under a style name

The codec models identify a map key with the `ID` of the value stored under it.  The library does not require that:
`Styles` may hold two entries (different keys) whose `Style.ID` is the same.  `WriteToSSA` builds a local
`map[name]*ssaStyle` from the entries and a list of names, sorts the names and emits one `Style:` line per list element.
This file models that selection with the key kept apart from the identifier:

* `tableIn order es` — the entries visited in `order`, each assigned into the name-keyed map (a later visit replaces);
* the repaired writer (D32) visits in sorted key order: `table es = tableIn (byKey es)`;
* the pinned writer visited in the map's own (arbitrary) order: `tableIn es` for whatever enumeration `es` the run saw.
-/

namespace Astisub
namespace SSAKeys
open Go

structure Entry where
  key : Str           -- the key of `s.Styles`
  d : Def             -- the `*Style` stored there (`d.id` = `Style.ID`, the SSA style name)
  deriving Repr, DecidableEq, Inhabited

def leKey (a b : Entry) : Bool := !strLt b.key a.key

/-- `sort.Strings(styleKeys)` -/
def byKey (es : List Entry) : List Entry := es.mergeSort leKey

/-- `styles[ss.name] = ss` for each visited entry: the most recent assignment shadows the earlier ones -/
def tableIn (visited : List Entry) : List (Str × Def) := visited.foldl (fun t e => (e.d.id, e.d) :: t) []

def table (es : List Entry) : List (Str × Def) := tableIn (byKey es)

/-- `styleNames` after `sort.Strings`: one element per entry, so a shared name occurs as often as it is stored -/
def names (es : List Entry) : List Str := (es.map (·.d.id)).mergeSort (fun a b => !strLt b a)

/-- the `Style:` lines in order: for every element of the sorted name list, the style the map holds under it -/
def emittedIn (visited : List Entry) : List (Option Def) := (names visited).map fun n => (tableIn visited).lookup n

/-- the repaired writer -/
def emitted (es : List Entry) : List (Option Def) := emittedIn (byKey es)

end SSAKeys
end Astisub
