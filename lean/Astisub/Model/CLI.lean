import Astisub.Model.Dispatch

/-!
# Model/CLI — `astisub/main.go`: from (sub-command, flags) to a library operation, or a refusal

Flags: `-i` (repeatable), `-o`, `-s`, `-f`, `-a1 -d1 -a2 -d2` (durations, default 0), `-p`.
`refuse` = the tool exits through `log.Fatal` before writing anything.
-/

namespace Astisub
namespace CLI

inductive Op where
  | convert
  | sync (d : Int)
  | fragment (f : Int)
  | unfragment
  | optimize
  | merge
  | linear (a1 d1 a2 d2 : Int)
  deriving Repr, DecidableEq

structure Flags where
  inputs : Nat := 0          -- number of `-i`
  output : Bool := false     -- `-o` given and non-empty
  s : Int := 0
  f : Int := 0
  a1 : Int := 0
  d1 : Int := 0
  a2 : Int := 0
  d2 : Int := 0
  deriving Repr

/-- the validation `main` performs before touching the output; `none` = refused -/
def plan (cmd : String) (fl : Flags) : Option Op :=
  if fl.inputs = 0 then none
  else if !fl.output then none
  else match cmd with
    | "apply-linear-correction" =>
      if fl.a1 ≤ 0 || fl.d1 ≤ 0 || fl.a2 ≤ 0 || fl.d2 ≤ 0 then none else some (.linear fl.a1 fl.d1 fl.a2 fl.d2)
    | "convert" => some .convert
    | "fragment" => if fl.f ≤ 0 then none else some (.fragment fl.f)
    | "merge" => if fl.inputs = 1 then none else some .merge
    | "optimize" => some .optimize
    | "sync" => if fl.s = 0 then none else some (.sync fl.s)
    | "unfragment" => some .unfragment
    | _ => none

end CLI
end Astisub
