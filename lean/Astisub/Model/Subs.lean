import Astisub.Go.Strings

/-!
# Model/Subs — the format-neutral cue model as the codecs see it

Mirrors `Subtitles`, `Item`, `Line`, `LineItem`, `Style`, `Region`, `StyleAttributes`, `Metadata`
of `subtitles.go`.  `StyleAttributes` and `Metadata` are represented by the list of the
attributes that are *set* (field name ↦ canonical value, sorted by name); `none` is the nil
pointer.  References to styles and regions are identifiers.
-/

namespace Astisub
open Go

abbrev KV := List (Str × Str)
abbrev Attrs := Option KV

structure LItem where
  text : Str
  startAt : Int := 0
  style : Option Str := none
  attrs : Attrs := none
  deriving Repr, DecidableEq, Inhabited

structure Line where
  voice : Str := []
  items : List LItem
  deriving Repr, DecidableEq, Inhabited

structure CItem where
  index : Int := 0
  startAt : Int
  endAt : Int
  style : Option Str := none
  region : Option Str := none
  attrs : Attrs := none
  comments : List Str := []
  lines : List Line
  deriving Repr, DecidableEq, Inhabited

structure Def where
  id : Str
  ref : Option Str := none    -- a region's style / a style's parent
  attrs : Attrs := none
  deriving Repr, DecidableEq, Inhabited

structure Subs where
  items : List CItem
  regions : List Def := []
  styles : List Def := []
  metadata : Attrs := none
  deriving Repr, DecidableEq, Inhabited

def strLt (a b : Str) : Bool := String.ofList a < String.ofList b

/-- insert-sort a key/value list by key (canonical order of the protocol: Go's `sort.Strings`) -/
def sortKV (l : KV) : KV := l.mergeSort (fun a b => !strLt b.1 a.1)

/-- build an attribute list from optional entries, dropping the unset ones -/
def mkAttrs (l : List (String × Option Str)) : KV :=
  sortKV (l.filterMap fun (k, v) => v.map fun v => (k.toList, v))

def optStr (s : Str) : Option Str := if s.isEmpty then none else some s
def optBool (b : Bool) : Option Str := if b then some "true".toList else none

def Line.str (l : Line) : Str := (l.items.map (·.text)).flatten

end Astisub
