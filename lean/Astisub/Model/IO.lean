import Astisub.Go.Bufio

/-!
# Model/IO — how the readers consume a stream and how the writers hand bytes to a destination

* `lineReader`: the shape shared by `ReadFromSRT`, `ReadFromWebVTT`, `ReadFromSSAWithOptions`
  (after the `fix:` commit that consults `scanner.Err()`): parse the scanned lines — the parser
  may fail early — and, if it did not, report the scanner's error.
* `readFull` / `stlBlocks`: `io.ReadFull` as used by `readNBytes` (`stl.go`) and the block loop
  of `ReadFromSTL`.
* `writeAll`: a writer is a sequence of `Write` calls (`WriteToSRT`, `WriteToWebVTT`: one call;
  `WriteToSSA`: three; `WriteToSTL`: 1 + n) against a destination that accepts `cap` bytes.
-/

namespace Astisub
namespace IO
open Go

inductive Outcome (α : Type) where
  | ok (a : α)
  | err
  deriving Repr, DecidableEq

/-- a line-based reader: `parse` sees exactly the scanned lines; `checkErr = false` is the pinned
    code, which never looked at `scanner.Err()` -/
def lineReader {α : Type} (checkErr : Bool) (parse : List (List UInt8) → Outcome α)
    (r : List (List UInt8) × Option ScanErr) : Outcome α :=
  match parse r.1 with
  | .err => .err
  | .ok v => if checkErr && r.2.isSome then .err else .ok v

/-- `io.ReadFull(r, buf)` with `len(buf) = need`: the bytes obtained and what is left of the
    schedule (a chunk larger than the room left is consumed partially) -/
def readFull (need : Nat) : List (List UInt8) → List UInt8 × List (List UInt8)
  | [] => ([], [])
  | c :: cs =>
    if need = 0 then ([], c :: cs)
    else if c.length ≤ need then
      let r := readFull (need - c.length) cs
      (c ++ r.1, r.2)
    else (c.take need, c.drop need :: cs)

inductive BlockEnd where
  | clean      -- io.EOF exactly at a block boundary: the normal end
  | short      -- io.ErrUnexpectedEOF: a partial block ("read k bytes, should have read n")
  | fault      -- the stream's own error
  deriving Repr, DecidableEq

/-- the TTI loop of `ReadFromSTL`: 128-byte blocks until EOF. `fuel` bounds the iterations. -/
def ttiBlocks (e : End) : Nat → List (List UInt8) → List (List UInt8) × BlockEnd
  | 0, _ => ([], .clean)
  | fuel + 1, cs =>
    let r := readFull 128 cs
    if r.1.length = 128 then
      let rest := ttiBlocks e fuel r.2
      (r.1 :: rest.1, rest.2)
    else if e = .fault then ([], .fault)
    else if r.1.isEmpty then ([], .clean)
    else ([], .short)

/-- GSI block (1024 bytes) then the TTI blocks -/
def stlBlocks (e : End) (cs : List (List UInt8)) : Option (List UInt8) × List (List UInt8) × BlockEnd :=
  let g := readFull 1024 cs
  if g.1.length = 1024 then
    let t := ttiBlocks e (cs.flatten.length + 1) g.2
    (some g.1, t.1, t.2)
  else (none, [], if e = .fault then .fault else if g.1.isEmpty then .clean else .short)

/-- destination that accepts `cap` bytes and then fails: bytes received, and whether every
    `Write` call succeeded -/
def writeAll (cap : Nat) : List (List UInt8) → List UInt8 × Bool
  | [] => ([], true)
  | w :: ws =>
    if w.length ≤ cap then
      let r := writeAll (cap - w.length) ws
      (w ++ r.1, r.2)
    else (w.take cap, false)   -- short write: the writer returns the error and stops

end IO
end Astisub
