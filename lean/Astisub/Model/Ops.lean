import Astisub.Model.Types

/-!
# Model/Ops — loop-faithful models of the transformations in `subtitles.go`

Every function mirrors the Go loop it models (named in its doc comment).  Where Go
deletes from / inserts into the slice it iterates, the model is a zipper
(`done` prefix, `todo` suffix); where Go `break`s, the model stops recursing.
The clean functional characterisations and the refinement lemmas live in
`Lemmas/Ops*.lean`; property theorems (`Props/C09 … C14`) are stated against the
functions of this file.
-/

namespace Astisub
namespace Ops

/-! ## `Subtitles.Add` -/

/-- one iteration of the body of `Add`: `none` = the item is deleted (and `idx--`). -/
def shift1 (d : Int) (it : Item) : Option Item :=
  let e := it.endAt + d
  let s := it.startAt + d
  if e ≤ 0 ∧ s ≤ 0 then none
  else if s ≤ 0 then some { it with startAt := 0, endAt := e }
  else some { it with startAt := s, endAt := e }

/-- `Subtitles.Add` as a zipper: `done` (reversed) are `s.Items[:idx]`, `todo` is `s.Items[idx:]`. -/
def addLoop (d : Int) : List Item → List Item → List Item
  | done, [] => done.reverse
  | done, it :: todo =>
    match shift1 d it with
    | none => addLoop d done todo              -- delete in place, stay at idx
    | some it' => addLoop d (it' :: done) todo -- idx++

def add (d : Int) (xs : List Item) : List Item := addLoop d [] xs

/-! ## `Subtitles.Duration`, `Subtitles.ForceDuration` -/

/-- `Subtitles.Duration`: end of the last item, 0 for an empty list. -/
def duration (xs : List Item) : Int :=
  match xs.getLast? with
  | none => 0
  | some it => it.endAt

/-- the `for index, i := range s.Items` scan of `ForceDuration` followed by the truncation
    `s.Items = s.Items[:lastIndex]`: stops at the first item whose start is `≥ d`,
    clips the ends of the items before it. -/
def fdScan (d : Int) : List Item → List Item
  | [] => []
  | it :: rest =>
    if it.startAt ≥ d then []
    else (if it.endAt > d then { it with endAt := d } else it) :: fdScan d rest

/-- the filler item `&Item{EndAt: d, Lines: …"..."…, StartAt: d - time.Millisecond}` -/
def filler (d : Int) : Item :=
  { uid := 0, startAt := d - millisecond, endAt := d, lines := [["..."]], pay := 0 }

def forceDuration (d : Int) (addDummy : Bool) (xs : List Item) : List Item :=
  if duration xs = d then xs
  else
    let ys := if duration xs > d then fdScan d xs else xs
    if addDummy ∧ duration ys < d then ys ++ [filler d] else ys

/-! ## `Subtitles.Order` -/

def leStart (a b : Item) : Bool := decide (a.startAt ≤ b.startAt)

/-- `sort.SliceStable` on `StartAt`.  Any stable sort computes the same list
    (`Props/C12.stable_sort_unique`), so `List.mergeSort` is a faithful model whatever
    algorithm the Go runtime uses. -/
def order (xs : List Item) : List Item := xs.mergeSort leStart

/-! ## `Subtitles.Fragment` (as repaired: per-item cutting, then `Order`) -/

/-- first multiple of `f` strictly after `s` (for `f > 0`):
    `b := s - s % f; if b <= s { b += f }` with Go's truncated `%`. -/
def firstBoundary (f s : Int) : Int :=
  let b := s - Int.tmod s f
  if b ≤ s then b + f else b

/-- the inner loop `for b := first; b < sub.EndAt; b += f`: every iteration emits a copy
    ending at `b` (a fresh pointer, `uid = 0`) and moves the start of the original to `b`;
    the original pointer is appended last. `fuel` bounds the number of iterations. -/
def cutLoop (f : Int) : Nat → Item → Int → List Item
  | 0, it, _ => [it]
  | fuel + 1, it, b =>
    if b < it.endAt then
      { it with uid := 0, endAt := b } :: cutLoop f fuel { it with startAt := b } (b + f)
    else [it]

def cut (f : Int) (it : Item) : List Item :=
  let b := firstBoundary f it.startAt
  cutLoop f ((it.endAt - b).toNat + 1) it b

def fragment (f : Int) (xs : List Item) : List Item :=
  if xs = [] ∨ f ≤ 0 then xs else order (xs.flatMap (cut f))

/-! ## `Subtitles.Unfragment` -/

/-- the inner `j` loop for a fixed `i`: `cur` is `s.Items[i]`, the list is `s.Items[i+1:]`.
    Returns the (possibly extended) `cur` and what is left of the tail. -/
def absorb (cur : Item) : List Item → Item × List Item
  | [] => (cur, [])
  | x :: rest =>
    if cur.str = x.str ∧ cur.endAt ≥ x.startAt then
      -- merge: extend if longer, delete `x`, `j--`
      absorb (if cur.endAt < x.endAt then { cur with endAt := x.endAt } else cur) rest
    else if cur.endAt < x.startAt then
      (cur, x :: rest)                            -- break
    else
      let r := absorb cur rest
      (r.1, x :: r.2)                             -- j++

theorem absorb_length (cur : Item) (xs : List Item) : (absorb cur xs).2.length ≤ xs.length := by
  induction xs generalizing cur with
  | nil => simp [absorb]
  | cons x rest ih =>
    unfold absorb
    split
    · exact Nat.le_succ_of_le (ih _)
    · split
      · exact Nat.le_refl _
      · simp only [List.length_cons]; exact Nat.succ_le_succ (ih _)

/-- the outer `i` loop -/
def unfragLoop : List Item → List Item
  | [] => []
  | x :: xs => (absorb x xs).1 :: unfragLoop (absorb x xs).2
termination_by l => l.length
decreasing_by
  have := absorb_length x xs
  simp only [List.length_cons]; omega

def unfragment (xs : List Item) : List Item :=
  if xs.length ≤ 1 then xs else unfragLoop (order xs)

/-! ## `Subtitles.Merge` (items) -/

def mergeItems (a b : List Item) : List Item := order (a ++ b)

end Ops
end Astisub
