import Astisub.Model.Subs
import Astisub.Model.Duration
import Astisub.Go.HTML

/-!
# Model/SRT — `ReadFromSRT`, `parseTextSrt`, `WriteToSRT`, `Line.srtBytes`, `LineItem.srtBytes` (`srt.go`)

The reader is the loop body of `ReadFromSRT` over the scanned lines (already decoded: `none` is a
line that is not valid UTF-8), with its pending cue and running style; the tokenizer is the
partial model `Go.tokenize` (`unmodelled` when a line leaves its class).
-/

namespace Astisub
namespace SRT
open Go

inductive Res (α : Type) where
  | ok (a : α)
  | err
  | unmodelled
  deriving Repr

/-- the running style `sa` threaded through the text lines of one cue -/
structure Run where
  bold : Bool := false
  italics : Bool := false
  underline : Bool := false
  color : Option Str := none
  deriving Repr, DecidableEq, Inhabited

/-- `htmlEscaper` / `htmlUnescaper` -/
def escapePairs : List (Str × Str) :=
  [("&".toList, "&amp;".toList), ("<".toList, "&lt;".toList), ([Char.ofNat 0xA0], "&nbsp;".toList)]
def unescapePairs : List (Str × Str) :=
  [("&amp;".toList, "&".toList), ("&lt;".toList, "<".toList), ("&nbsp;".toList, [Char.ofNat 0xA0])]

def escapeHTML (s : Str) : Str := replacer escapePairs s
def unescapeHTML (s : Str) : Str := replacer unescapePairs s

/-- the `StyleAttributes` built for a styled run, after `propagateSRTAttributes` -/
def runAttrs (r : Run) : Attrs :=
  if r.bold || r.color.isSome || r.italics || r.underline then
    let tags : List Str := (if r.bold then ["b".toList] else []) ++ (if r.italics then ["i".toList] else [])
      ++ (if r.underline then ["u".toList] else [])
    some (mkAttrs [("SRTBold", optBool r.bold), ("SRTColor", r.color), ("SRTItalics", optBool r.italics),
      ("SRTUnderline", optBool r.underline), ("TTMLColor", r.color),
      ("WebVTTBold", optBool r.bold), ("WebVTTItalics", optBool r.italics), ("WebVTTUnderline", optBool r.underline),
      ("WebVTTTags", optStr (join "|".toList tags))])
  else none

/-- one token of `parseTextSrt` -/
def stepTok (st : Run × List LItem) : Tok → Run × List LItem
  | .endTag _ name =>
    let r := st.1
    let r := if name = "b".toList then { r with bold := false }
      else if name = "i".toList then { r with italics := false }
      else if name = "u".toList then { r with underline := false }
      else if name = "font".toList then { r with color := none }
      else r
    (r, st.2)
  | .startTag _ name attrs =>
    let r := st.1
    let r := if name = "b".toList then { r with bold := true }
      else if name = "i".toList then { r with italics := true }
      else if name = "u".toList then { r with underline := true }
      else if name = "font".toList then
        match attrs.lookup "color".toList with
        | some c => { r with color := some c }
        | none => r
      else r
    (r, st.2)
  | .text raw =>
    if trimSpace raw ≠ [] then (st.1, st.2 ++ [{ text := unescapeHTML raw, attrs := runAttrs st.1 }])
    else st
  | _ => st

/-- `parseTextSrt` -/
def parseText (line : Str) (sa : Run) : Res (Run × Line) :=
  if trimSpace line = [] then .ok (sa, { items := [{ text := [] }] })
  else
    match tokenize line with
    | .unmodelled => .unmodelled
    | .ok toks =>
      let r := toks.foldl stepTok (sa, [])
      .ok (r.1, { items := r.2 })

/-- the "remove trailing empty lines" loop (`srtRemoveTrailingEmptyLines`): every line loses its
    trailing empty runs; the list is cut at the first line that has none left -/
def stripItems (l : Line) : Line :=
  { l with items := (l.items.reverse.dropWhile (fun it => it.text.isEmpty)).reverse }

def stripLines (ls : List Line) : List Line := (ls.map stripItems).takeWhile (fun l => !l.items.isEmpty)

structure St where
  done : List CItem := []      -- `o.Items` without the cue being filled, oldest first
  cur : CItem := { startAt := 0, endAt := 0, lines := [] }
  curListed : Bool := false    -- the initial `&Item{}` is never appended
  sa : Run := {}
  lineNum : Nat := 0
  deriving Repr, Inhabited

def bom : Str := [Char.ofNat 0xFEFF]
def arrow : Str := "-->".toList

def flushCur (st : St) : List CItem := if st.curListed then st.done ++ [st.cur] else st.done

/-- one iteration of the scan loop of `ReadFromSRT` -/
def step (st : St) (raw : Option Str) : Res St :=
  match raw with
  | none => .err                                             -- not valid UTF-8
  | some raw =>
    let line := trimSpace raw
    let lineNum := st.lineNum + 1
    let line := if lineNum = 1 then trimPrefix bom line else line
    if contains arrow line then
      -- index candidate: the last line of the cue being filled
      let (index, lines) :=
        match st.cur.lines.getLast? with
        | none => (([] : Str), st.cur.lines)
        | some l => if l.str ≠ [] then (l.str, st.cur.lines.dropLast) else ([], st.cur.lines)
      let lines := stripLines lines
      let prev := { st.cur with lines := lines }
      let done := if st.curListed then st.done ++ [prev] else st.done
      let idx : Int := if index ≠ [] then atoiLoose index else 0
      let s1 := splitOn arrow line
      match s1 with
      | left :: right :: _ =>
        match fields right with
        | [] => .err
        | endTok :: _ =>
          match Duration.parseSRT left, Duration.parseSRT endTok with
          | some s, some e =>
            .ok { done := done, cur := { index := idx, startAt := s, endAt := e, lines := [] },
                  curListed := true, sa := {}, lineNum := lineNum }
          | _, _ => .err
      | _ => .err
    else
      match parseText line st.sa with
      | .unmodelled => .unmodelled
      | .err => .err
      | .ok (sa, l) =>
        let cur := if l.items.isEmpty then st.cur else { st.cur with lines := st.cur.lines ++ [l] }
        .ok { st with cur := cur, sa := sa, lineNum := lineNum }

def run : St → List (Option Str) → Res St
  | st, [] => .ok st
  | st, l :: ls =>
    match step st l with
    | .ok st' => run st' ls
    | .err => .err
    | .unmodelled => .unmodelled

/-- `ReadFromSRT` on the scanned lines (scanner error handled by `IO.lineReader`) -/
def read (lines : List (Option Str)) : Res Subs :=
  match run {} lines with
  | .ok st =>
    let last := { st.cur with lines := stripLines st.cur.lines }
    .ok { items := if st.curListed then st.done ++ [last] else st.done }
  | .err => .err
  | .unmodelled => .unmodelled

/-! ## writer -/

def kvGet (a : Attrs) (k : String) : Option Str := match a with | none => none | some kv => kv.lookup k.toList

/-- `LineItem.srtBytes` -/
def runBytes (li : LItem) : Str :=
  let color := (kvGet li.attrs "SRTColor").getD []
  let b := (kvGet li.attrs "SRTBold").isSome
  let i := (kvGet li.attrs "SRTItalics").isSome
  let u := (kvGet li.attrs "SRTUnderline").isSome
  let pos := (kvGet li.attrs "SRTPosition").getD []
  (if color ≠ [] then "<font color=\"".toList ++ color ++ "\">".toList else [])
    ++ (if b then "<b>".toList else []) ++ (if i then "<i>".toList else []) ++ (if u then "<u>".toList else [])
    ++ (if pos ≠ [] then "{\\an".toList ++ pos ++ "}".toList else [])
    ++ escapeHTML li.text
    ++ (if u then "</u>".toList else []) ++ (if i then "</i>".toList else []) ++ (if b then "</b>".toList else [])
    ++ (if color ≠ [] then "</font>".toList else [])

/-- `Line.srtBytes` -/
def lineBytes (l : Line) : Str := (l.items.map runBytes).flatten ++ ['\n']

def itemBytes (k : Nat) (it : CItem) : Str :=
  itoaNat (k + 1) ++ ['\n'] ++ Duration.formatSRT it.startAt ++ " --> ".toList ++ Duration.formatSRT it.endAt ++ ['\n']
    ++ (it.lines.map lineBytes).flatten ++ ['\n']

/-- `WriteToSRT`: `none` = `ErrNoSubtitlesToWrite` -/
def write (s : Subs) : Option Str :=
  if s.items.isEmpty then none
  else some (bom ++ ((s.items.zipIdx.map fun (it, k) => itemBytes k it).flatten).dropLast)

end SRT
end Astisub
