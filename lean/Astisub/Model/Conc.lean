/-!
# Model/Conc — independent calls under arbitrary interleavings

A *call* is a finite list of atomic steps.  A step reads the shared package state `S` (the
character tables, maps and regexps built at package initialisation) and its own private state `L`
(its reader, its cue list, its decoder copy, its output buffer) and produces a new private state:
`S → L → L`.  The *type* of a step is the structural premise of C20: no step can change `S`.
That premise is tied to the code on every run by `Generated/Globals.lean` (the list of
instructions writing package-level state outside initialisation, extracted from the working tree,
which `Props/C20.no_global_writes` requires to be empty).

A schedule picks, at every tick, which call performs its next step.
-/

namespace Astisub
namespace Conc

abbrev Step (S L : Type) := S → L → L

/-- one call run alone -/
def solo {S L : Type} (s : S) (steps : List (Step S L)) (l : L) : L := steps.foldl (fun l st => st s l) l

/-- state of the system: for every call, what is left of its steps and its private state -/
structure Proc (S L : Type) where
  todo : List (Step S L)
  loc : L

/-- call `i` performs its next step (nothing happens if it has finished or does not exist) -/
def tick {S L : Type} (s : S) : List (Proc S L) → Nat → List (Proc S L)
  | [], _ => []
  | p :: ps, 0 =>
    match p.todo with
    | [] => p :: ps
    | st :: rest => { todo := rest, loc := st s p.loc } :: ps
  | p :: ps, i + 1 => p :: tick s ps i

/-- run a whole schedule -/
def exec {S L : Type} (s : S) (ps : List (Proc S L)) (sched : List Nat) : List (Proc S L) :=
  sched.foldl (tick s) ps

/-- what call `p` will have computed once it finishes, from where it stands -/
def outcome {S L : Type} (s : S) (p : Proc S L) : L := solo s p.todo p.loc

end Conc
end Astisub
