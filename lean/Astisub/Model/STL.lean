import Astisub.Model.Subs
import Astisub.Model.Duration
import Astisub.Generated.STLTables

/-!
# Model/STL — `ReadFromSTL`, `WriteToSTL` and what they are made of (`stl.go`, `parseTeletextRow` of `teletext.go`)

Bytes are `Nat`s below 256 (`Bytes`), code points are `Nat`s; text of cues is `Str`.  The tables come
from `Generated/STLTables.lean` (regenerated from the running package).  The model mirrors the
*repaired* code (fix-1 … fix-4 of C05): unknown disk format code ⇒ error, short GSI timecode ⇒
error, guard in `encodeTextSTL`, writer defaults when the metadata has no STL frame rate / DSC.

`norm.NFD` is modelled on the runes below `Generated.STL.domainMax` (full decomposition table +
canonical ordering by combining class); a text with a rune outside, or with more than 20
non-starters in a row (x/text inserts U+034F there), is `unmodelled`.  `norm.NFC` is only ever
applied to (table entry + floating diacritic) and is a regenerated finite table.
-/

namespace Astisub
namespace STL
open Go

abbrev Bytes := List Nat

inductive Res (α : Type) where
  | ok (a : α)
  | err
  | unmodelled
  deriving Repr

/-! ## `bytes.TrimSpace` / `strings.TrimSpace` on raw bytes -/

def asciiSpace (b : Nat) : Bool := b == 0x20 || (0x09 ≤ b && b ≤ 0x0D)

/-- length of the UTF-8 encoded Unicode white space at the head (0 = none) -/
def wsLen : Bytes → Nat
  | [] => 0
  | b :: rest =>
    if asciiSpace b then 1
    else if b == 0xC2 then (match rest with | c :: _ => if c == 0x85 || c == 0xA0 then 2 else 0 | _ => 0)
    else if b == 0xE1 then (match rest with | c :: d :: _ => if c == 0x9A && d == 0x80 then 3 else 0 | _ => 0)
    else if b == 0xE2 then
      (match rest with
       | c :: d :: _ =>
         if c == 0x80 && ((0x80 ≤ d && d ≤ 0x8A) || d == 0xA8 || d == 0xA9 || d == 0xAF) then 3
         else if c == 0x81 && d == 0x9F then 3 else 0
       | _ => 0)
    else if b == 0xE3 then (match rest with | c :: d :: _ => if c == 0x80 && d == 0x80 then 3 else 0 | _ => 0)
    else 0

/-- the same seen from the end (`utf8.DecodeLastRune`): argument is the reversed string -/
def wsLenR : Bytes → Nat
  | [] => 0
  | b :: rest =>
    if asciiSpace b then 1
    else match rest with
      | c :: more =>
        if c == 0xC2 && (b == 0x85 || b == 0xA0) then 2
        else match more with
          | d :: _ =>
            if d == 0xE1 && c == 0x9A && b == 0x80 then 3
            else if d == 0xE2 && c == 0x80 && ((0x80 ≤ b && b ≤ 0x8A) || b == 0xA8 || b == 0xA9 || b == 0xAF) then 3
            else if d == 0xE2 && c == 0x81 && b == 0x9F then 3
            else if d == 0xE3 && c == 0x80 && b == 0x80 then 3
            else 0
          | [] => 0
      | [] => 0

def trimWith (f : Bytes → Nat) : Nat → Bytes → Bytes
  | 0, s => s
  | fuel + 1, s => let n := f s; if n == 0 then s else trimWith f fuel (s.drop n)

def trimLeftB (s : Bytes) : Bytes := trimWith wsLen s.length s
def trimRightB (s : Bytes) : Bytes := (trimWith wsLenR s.length s.reverse).reverse
/-- `bytes.TrimSpace` -/
def trimB (s : Bytes) : Bytes := trimRightB (trimLeftB s)

def slice (b : Bytes) (lo hi : Nat) : Bytes := (b.drop lo).take (hi - lo)
def field (b : Bytes) (lo hi : Nat) : Bytes := trimB (slice b lo hi)

def chars (b : Bytes) : Str := b.map Char.ofNat
def ascii (s : Str) : Bytes := s.map Char.toNat
def lit (s : String) : Bytes := ascii s.toList

/-- `strconv.Atoi(strings.TrimSpace(field))`, `some none` = blank field (left alone) -/
def atoiField (v : Bytes) : Option (Option Int) :=
  if v.isEmpty then some none else (atoi (chars v)).map some

/-- `strconv.Atoi(strings.TrimSpace(string(b)))` for a single *byte* `b`: Go's `string(byte)` is the
    UTF-8 encoding of the code point U+00bb, so 0x85 and 0xA0 become white space -/
def atoiByte (b : Nat) : Option (Option Int) :=
  if asciiSpace b || b == 0x85 || b == 0xA0 then some none
  else if b < 0x80 then (atoi [Char.ofNat b]).map some else none

/-! ## dates: `time.Parse("060102", v)` / `Format("060102")` -/

structure Date where
  yy : Nat
  mm : Nat
  dd : Nat
  deriving Repr, DecidableEq, Inhabited

def dig (b : Nat) : Option Nat := if 0x30 ≤ b && b ≤ 0x39 then some (b - 0x30) else none

def daysIn (month year : Nat) : Nat :=
  if month == 2 then (if year % 4 == 0 && (year % 100 != 0 || year % 400 == 0) then 29 else 28)
  else if month == 4 || month == 6 || month == 9 || month == 11 then 30 else 31

/-- two-digit year with Go's quirk: the first character may be a sign -/
def parseYear (a b : Nat) : Option Nat :=
  match dig b with
  | none => none
  | some d =>
    if a == 0x2B then some (2000 + d)                       -- "+d"
    else if a == 0x2D then some (2000 - d)                  -- "-d": -d + 2000
    else match dig a with
      | some t => let y := 10 * t + d; some (if y ≥ 69 then 1900 + y else 2000 + y)
      | none => none

def parseDate (v : Bytes) : Option Date :=
  match v with
  | [y1, y2, m1, m2, d1, d2] =>
    match parseYear y1 y2, dig m1, dig m2, dig d1, dig d2 with
    | some year, some a, some b, some c, some d =>
      let month := 10 * a + b
      let day := 10 * c + d
      if month == 0 || month > 12 then none
      else if day < 1 || day > daysIn month year then none
      else some { yy := year % 100, mm := month, dd := day }
    | _, _, _, _, _ => none
  | _ => none

/-- the zero `time.Time` formats as 010101 -/
def zeroDate : Date := { yy := 1, mm := 1, dd := 1 }

def dateField (v : Bytes) : Option Date := if v.isEmpty then some zeroDate else parseDate v

def two (n : Nat) : Bytes := [0x30 + n / 10 % 10, 0x30 + n % 10]
def formatDate (d : Date) : Bytes := two d.yy ++ two d.mm ++ two d.dd

/-! ## metadata -/

structure Meta where
  framerate : Int := 0
  language : Bytes := []
  country : Bytes := []
  creation : Option Date := none
  dsc : Bytes := []
  editorContact : Bytes := []
  editorName : Bytes := []
  maxChars : Option Int := none
  maxRows : Option Int := none
  origEpisode : Bytes := []
  publisher : Bytes := []
  revisionDate : Option Date := none
  revisionNumber : Int := 0
  slr : Bytes := []
  tcp : Int := 0
  translEpisode : Bytes := []
  translProgram : Bytes := []
  translContact : Bytes := []
  translName : Bytes := []
  title : Bytes := []
  deriving Repr, DecidableEq, Inhabited

/-- the part of `gsiBlock` that is observable or steers the reader -/
structure GSI where
  m : Meta
  cct : Nat
  langCode : Bytes
  tcpFull : Int
  deriving Repr

def framerateOf (dfc : Bytes) : Option Nat :=
  (Generated.STL.framerates.find? fun e => e.1 == dfc).map fun e => e.2.1

def dfcOf (fr : Int) : Option Bytes :=
  (Generated.STL.framerates.find? fun e => (e.2.1 : Int) == fr).map fun e => e.2.2

def languageOf (code : Bytes) : Option Bytes :=
  (Generated.STL.languages.find? fun e => e.1 == code).map fun e => e.2.1

def languageCodeOf (name : Bytes) : Option Bytes :=
  (Generated.STL.languages.find? fun e => e.2.1 == name).map fun e => e.2.2

/-- `parseDurationSTL` on the trimmed field (repaired: fewer than 8 characters ⇒ error) -/
def gsiTimecode (v : Bytes) (fr : Int) : Option Int :=
  if v.isEmpty then some 0
  else if v.length < 8 then none
  else Duration.parseSTL true (chars v) fr

/-- `parseGSIBlock` (+ the character-table check of `newSTLCharacterHandler`); `none` = error -/
def parseGSI (b : Bytes) : Option GSI :=
  match framerateOf (slice b 3 11) with
  | none => none
  | some fr =>
    let cct := (b.getD 12 0) * 256 + b.getD 13 0
    if !Generated.STL.cctNumbers.contains cct then none else
    match dateField (field b 224 230), dateField (field b 230 236), atoiField (field b 236 238),
          atoiField (field b 238 243), atoiField (field b 243 248), atoiField (field b 248 251),
          atoiField (field b 251 253), atoiField (field b 253 255) with
    | some cd, some rd, some rn, some _, some _, some _, some mnc, some mnr =>
      match gsiTimecode (field b 256 264) fr, gsiTimecode (field b 264 272) fr,
            atoiByte (b.getD 272 0), atoiByte (b.getD 273 0) with
      | some tcp, some _, some _, some _ =>
        let code := field b 14 16
        some { cct := cct, langCode := code, tcpFull := tcp,
               m := { framerate := fr, language := (languageOf code).getD [], country := field b 274 277,
                      creation := some cd, dsc := field b 11 12, editorContact := field b 341 373,
                      editorName := field b 309 341, maxChars := some (mnc.getD 0), maxRows := some (mnr.getD 0),
                      origEpisode := field b 48 80, publisher := field b 277 309, revisionDate := some rd,
                      revisionNumber := rn.getD 0, slr := field b 208 224, tcp := tcp,
                      translEpisode := field b 112 144, translProgram := field b 80 112,
                      translContact := field b 176 208, translName := field b 144 176, title := field b 16 48 } }
      | _, _, _, _ => none
    | _, _, _, _, _, _, _, _ => none

/-! ## character decoding (`stlCharacterHandler.decode`) -/

def tableGet (k : Nat) : Option (List Nat) := Generated.STL.cct12336.lookup k

def isAccentByte (k : Nat) : Bool := 0xC0 ≤ k && k ≤ 0xCF

/-- `norm.NFC(table[k] + table[a])` -/
def nfcPair (k a : Nat) : List Nat :=
  match Generated.STL.nfcPairs.find? fun e => e.1 == k && e.2.1 == a with
  | some e => e.2.2
  | none => (tableGet k).getD [] ++ (tableGet a).getD []

/-- one call of `decode`: the pending accent is the *byte* whose table string `h.accent` holds -/
def decode (acc : Option Nat) (k : Nat) : List Nat × Option Nat :=
  match tableGet k with
  | none => ([], acc)
  | some v =>
    match acc with
    | some a => (nfcPair k a, none)
    | none => if isAccentByte k then ([], some k) else (v, none)

def str (cps : List Nat) : Str := cps.map Char.ofNat

/-! ## rows -/

/-- the style pointers of the run being filled (`li.InlineStyle`) -/
structure LSty where
  color : Option Nat := none          -- teletext alpha colour 0–7
  dh : Option Bool := none
  ds : Option Bool := none
  dw : Option Bool := none
  boxing : Option Bool := none
  italics : Option Bool := none
  underline : Option Bool := none
  deriving Repr, DecidableEq, Inhabited

structure RowSt where
  items : List LItem := []
  text : Str := []
  sty : LSty := {}
  acc : Option Nat := none
  started : Bool := false
  deriving Repr, Inhabited

def boolStr (b : Bool) : Str := (if b then "true" else "false").toList
def optB (b : Option Bool) : Option Str := b.map boolStr

def colorSSA : Nat → Str
  | 0 => "00000000".toList | 1 => "000000ff".toList | 2 => "00008000".toList | 3 => "0000ffff".toList
  | 4 => "00ff0000".toList | 5 => "00ff00ff".toList | 6 => "00ffff00".toList | _ => "00ffffff".toList

def colorTTML : Nat → Str
  | 0 => "#000000".toList | 1 => "#ff0000".toList | 2 => "#008000".toList | 3 => "#ffff00".toList
  | 4 => "#0000ff".toList | 5 => "#ff00ff".toList | 6 => "#00ffff".toList | _ => "#ffffff".toList

def stlAttrs (s : LSty) : List (String × Option Str) :=
  [("STLBoxing", optB s.boxing), ("STLItalics", optB s.italics), ("STLUnderline", optB s.underline)]

/-- `appendOpenSubtitleLineItem` -/
def appendOpen (st : RowSt) : List LItem :=
  if trimSpace st.text ≠ [] then
    st.items ++ [{ text := trimSpace st.text, attrs := some (mkAttrs (stlAttrs st.sty)) }]
  else st.items

/-- `s.parseSpacingAttribute(v)` + `s.update(li.InlineStyle)` for a fresh styler -/
def stlCode (s : LSty) (v : Nat) : Option LSty :=
  if v == 0x80 then some { s with italics := some true }
  else if v == 0x81 then some { s with italics := some false }
  else if v == 0x82 then some { s with underline := some true }
  else if v == 0x83 then some { s with underline := some false }
  else if v == 0x84 then some { s with boxing := some true }
  else if v == 0x85 then some { s with boxing := some false }
  else none

/-- one column of `parseOpenSubtitleRow`; `none` = "teletext control code in open text" -/
def openStep (st : RowSt) (v : Nat) : Option RowSt :=
  if v ≤ 0x1F then none
  else match stlCode st.sty v with
    | some sty' =>
      -- a fresh styler's pointers never equal the run's: the style "has changed"
      if st.text ≠ [] then some { st with items := appendOpen st, text := [], sty := sty' }
      else some { st with sty := sty' }
    | none =>
      let (o, acc) := decode st.acc v
      some { st with text := st.text ++ str o, acc := acc }

def openFold : RowSt → Bytes → Option RowSt
  | st, [] => some st
  | st, v :: vs => match openStep st v with
    | some st' => openFold st' vs
    | none => none

/-- `parseOpenSubtitleRow`: the line appended to the item (if any) and the pending accent -/
def openRow (acc : Option Nat) (row : Bytes) : Option (Option Line × Option Nat) :=
  match openFold { acc := acc } row with
  | none => none
  | some st =>
    let items := appendOpen st
    some (if items.isEmpty then none else some { items := items }, st.acc)

def countWhile (p : Char → Bool) : Str → Nat
  | [] => 0
  | c :: cs => if p c then countWhile p cs + 1 else 0

/-- `appendTeletextLineItem` -/
def appendTele (st : RowSt) : List LItem :=
  if trimSpace st.text ≠ [] then
    let before := countWhile (· == ' ') st.text
    let after := countWhile (· == ' ') st.text.reverse
    st.items ++ [{ text := trimSpace st.text, attrs := some (mkAttrs (stlAttrs st.sty ++
      [("TeletextColor", st.sty.color.map colorSSA), ("TTMLColor", st.sty.color.map colorTTML),
       ("TeletextDoubleHeight", optB st.sty.dh), ("TeletextDoubleSize", optB st.sty.ds),
       ("TeletextDoubleWidth", optB st.sty.dw),
       ("TeletextSpacesBefore", some (itoaNat before)), ("TeletextSpacesAfter", some (itoaNat after))])) }]
  else st.items

/-- one column of `parseTeletextRow` with an STL styler -/
def teleStep (st : RowSt) (v : Nat) : RowSt :=
  let color : Option Nat := if v ≤ 7 then some v else none
  let started := if v == 0x0A then false else if v == 0x0B then true else st.started
  let dh : Option Bool := if v == 0x0C then some false else if v == 0x0D then some true else none
  let dw : Option Bool := if v == 0x0C then some false else if v == 0x0E then some true else none
  let ds : Option Bool := if v == 0x0C then some false else if v == 0x0F then some true else none
  let stl : Option LSty := if v ≤ 0x0F then none else stlCode st.sty v
  if color.isSome || dh.isSome || ds.isSome || dw.isSome || stl.isSome then
    -- colours are package-level values (changed iff another colour); size attributes are compared by
    -- value (`teletextBoolHasChanged`, unset = false); the STL styler is fresh for every byte and compares
    -- pointers (changed iff this byte sets an attribute or the run already has one)
    let boolChanged (n o : Option Bool) : Bool := match n with | none => false | some b => b != o.getD false
    let changed := (color.isSome && color != st.sty.color) || boolChanged dh st.sty.dh || boolChanged ds st.sty.ds ||
      boolChanged dw st.sty.dw || stl.isSome || st.sty.boxing.isSome || st.sty.italics.isSome || st.sty.underline.isSome
    if changed then
      -- (repaired) the pending run is closed also when the box has ended with text collected
      let st1 : RowSt := if started || st.text ≠ [] then { st with items := appendTele st, text := [] } else st
      let s0 := (stl.getD st1.sty)
      let s1 : LSty := { s0 with color := if color.isSome then color else s0.color,
                                  dh := if dh.isSome then dh else s0.dh,
                                  ds := if ds.isSome then ds else s0.ds,
                                  dw := if dw.isSome then dw else s0.dw }
      { st1 with sty := s1, started := started }
    else { st with started := started }
  else if started then
    let (o, acc) := decode st.acc v
    { st with text := st.text ++ str o, acc := acc, started := started }
  else { st with started := started }

/-- `parseTeletextRow` -/
def teleRow (acc : Option Nat) (row : Bytes) : Option Line × Option Nat :=
  let st := row.foldl teleStep { acc := acc }
  let items := appendTele st
  (if items.isEmpty then none else some { items := items }, st.acc)

/-- `bytes.Split(text, {0x8a})` -/
def splitRows : Bytes → List Bytes
  | [] => [[]]
  | x :: xs =>
    if x == 0x8A then [] :: splitRows xs
    else match splitRows xs with
      | [] => [[x]]
      | h :: t => (x :: h) :: t

/-- all rows of one TTI text field -/
def rowsFold (isOpen : Bool) : Option Nat → List Bytes → Option (List Line × Option Nat)
  | acc, [] => some ([], acc)
  | acc, r :: rs =>
    let one : Option (Option Line × Option Nat) := if isOpen then openRow acc r else some (teleRow acc r)
    match one with
    | none => none
    | some (l, acc') =>
      match rowsFold isOpen acc' rs with
      | none => none
      | some (ls, acc'') => some ((match l with | some l => [l] | none => []) ++ ls, acc'')

/-! ## TTI blocks -/

def justOf (code : Nat) : Nat := if code == 1 then 2 else if code == 2 then 3 else if code == 3 then 4 else 1

/-- the item's `InlineStyle` after `propagateSTLAttributes` -/
def itemAttrs (jc vp : Nat) (maxRows : Int) (rows : Nat) : Attrs :=
  let j := justOf jc
  let align : Option Str := if j == 4 then some "right".toList else if j == 2 then some "left".toList else none
  let line : Option Str :=
    if maxRows > 0 then
      let v : Int := if maxRows == 23 && vp > 0 then Int.tdiv (((vp : Int) - 1) * 100) maxRows else Int.tdiv ((vp : Int) * 100) maxRows
      some (itoa v ++ ['%'])
    else none
  some (mkAttrs [("STLJustification", some (itoaNat j)),
                 ("STLPosition", some (itoaNat vp ++ [','] ++ itoa maxRows ++ [','] ++ itoaNat rows)),
                 ("WebVTTAlign", align), ("WebVTTLine", line)])

/-- one TTI block (128 bytes): `none` = error, `some none` = user data, skipped -/
def ttiItem (g : GSI) (off : Int) (acc : Option Nat) (p : Bytes) : Option (Option CItem × Option Nat) :=
  if p.getD 3 0 == 0xFE then some (none, acc) else
  let fr : Int := g.m.framerate
  let tci := Duration.parseSTLBytes true (slice p 5 9) fr
  let tco := Duration.parseSTLBytes true (slice p 9 13) fr
  let text := slice p 16 128
  let rows := splitRows text
  match rowsFold (g.m.dsc == [0x30]) acc rows with
  | none => none
  | some (lines, acc') =>
    some (some { startAt := tci - off, endAt := tco - off,
                 attrs := itemAttrs (p.getD 14 0) (p.getD 13 0) (g.m.maxRows.getD 0) rows.length,
                 lines := lines }, acc')

def chunks (n : Nat) : Nat → Bytes → List Bytes
  | 0, _ => []
  | fuel + 1, b => if b.isEmpty then [] else b.take n :: chunks n fuel (b.drop n)

def ttiFold (g : GSI) (off : Int) : Option Nat → List Bytes → Option (List CItem)
  | _, [] => some []
  | acc, p :: ps =>
    match ttiItem g off acc p with
    | none => none
    | some (it, acc') =>
      match ttiFold g off acc' ps with
      | none => none
      | some its => some ((match it with | some it => [it] | none => []) ++ its)

/-- `ReadFromSTL` -/
def read (ignoreTCP : Bool) (doc : Bytes) : Res (Meta × List CItem) :=
  if doc.length < 1024 then .err else
  match parseGSI (doc.take 1024) with
  | none => .err
  | some g =>
    let rest := doc.drop 1024
    let m : Meta := if ignoreTCP then { g.m with tcp := 0 } else g.m
    match ttiFold g m.tcp none (chunks 128 (rest.length + 1) rest) with
    | none => .err
    | some items => if rest.length % 128 ≠ 0 then .err else .ok (m, items)

/-! ## writer -/

def cccOf (c : Nat) : Nat := if c < 0x80 then 0 else (Generated.STL.ccc.lookup c).getD 0
def decomp (c : Nat) : List Nat := if c < 0x80 then [c] else (Generated.STL.nfd.lookup c).getD [c]

/-- canonical ordering: put a non-starter of class `k` in front of the trailing marks of a higher
    class (`out` is the reversed output) -/
def insertMark (c k : Nat) : List Nat → List Nat
  | [] => [c]
  | x :: xs => if cccOf x > k then x :: insertMark c k xs else c :: x :: xs

def nfdStep (out : List Nat) (c : Nat) : List Nat :=
  let k := cccOf c
  if k == 0 then c :: out else insertMark c k out

/-- `norm.NFD` on the modelled domain -/
def nfd (s : List Nat) : List Nat := ((s.flatMap decomp).foldl nfdStep []).reverse

def maxMarkRun : List Nat → Nat → Nat → Nat
  | [], cur, best => max cur best
  | c :: cs, cur, best => if cccOf c == 0 then maxMarkRun cs 0 (max cur best) else maxMarkRun cs (cur + 1) best

def inDomain (s : List Nat) : Bool :=
  s.all (· < Generated.STL.domainMax) && maxMarkRun (s.flatMap decomp) 0 0 ≤ 20

/-- one rune of the loop of `encodeTextSTL` (`out` reversed) -/
def encStep (out : Bytes) (c : Nat) : Bytes :=
  match Generated.STL.unicodeInv.lookup c with
  | some b => b :: out
  | none =>
    match Generated.STL.diacriticInv.lookup c with
    | some b => (match out with | [] => [b] | x :: xs => x :: b :: xs)
    | none => (c % 256) :: out

/-- `encodeTextSTL` -/
def encodeText (s : List Nat) : Bytes := ((nfd s).foldl encStep []).reverse

def padR (fill n : Nat) (s : Bytes) : Bytes := (s ++ List.replicate (n - s.length) fill).take n
def padL (fill n : Nat) (s : Bytes) : Bytes := (List.replicate (n - s.length) fill ++ s).take n
def num (w : Nat) (v : Int) : Bytes := padL 0x30 w (ascii (itoa v))

/-- what the writer reads of a run / cue / document -/
structure WRun where
  text : List Nat
  italics : Bool := false
  underline : Bool := false
  boxing : Bool := false
  deriving Repr, Inhabited

structure WCue where
  startAt : Int
  endAt : Int
  just : Option Int := none        -- `*InlineStyle.STLJustification`
  vp : Option Int := none          -- `InlineStyle.STLPosition.VerticalPosition`
  lines : List (List WRun)
  deriving Repr, Inhabited

/-- `LineItem.STLString` -/
def runString (r : WRun) : List Nat :=
  let s := r.text
  let s := if r.italics then [0x80] ++ s ++ [0x81] else s
  let s := if r.underline then [0x82] ++ s ++ [0x83] else s
  if r.boxing then [0x84] ++ s ++ [0x85] else s

def joinN (sep : List Nat) : List (List Nat) → List Nat
  | [] => []
  | [a] => a
  | a :: b :: rest => a ++ sep ++ joinN sep (b :: rest)

/-- the text of `newTTIBlock` before encoding -/
def cueString (c : WCue) : List Nat :=
  joinN [0x8A] (c.lines.map fun l => joinN [0x20] (l.map runString))

def justCode (j : Option Int) : Nat :=
  match j with
  | none => 1
  | some j => if j == 3 then 2 else if j == 2 then 1 else if j == 4 then 3 else if j == 1 then 0 else 1

/-- `validateVerticalPosition` -/
def vpByte (vp : Int) (dsc : Bytes) : Nat :=
  let closed := dsc == [0x31] || dsc == [0x32]
  let vp := if vp < 1 && closed then 1 else vp
  let vp := if vp > 23 && closed then 23 else vp
  (vp % 256).toNat

/-- the `gsiBlock` the writer fills (`newGSIBlock`) -/
structure WGSI where
  m : Meta
  langCode : Bytes
  n : Nat
  tcf : Int
  deriving Repr

def defaultMeta (now : Date) : Meta :=
  { framerate := 25, country := lit "FRA", creation := some now, dsc := [0x31], maxChars := some 40, maxRows := some 23,
    revisionDate := some now }

def newGSI (now : Date) (md : Option Meta) (cues : List WCue) : WGSI :=
  let d := defaultMeta now
  let tcf := (match cues with | c :: _ => c.startAt | [] => 0) + (match md with | some m => m.tcp | none => 0)
  match md with
  | none => { m := d, langCode := lit "0F", n := cues.length, tcf := tcf }
  | some m =>
    { m := { m with creation := some (m.creation.getD now), dsc := if m.dsc.isEmpty then d.dsc else m.dsc,
                    framerate := if (dfcOf m.framerate).isSome then m.framerate else 25,
                    maxChars := some (m.maxChars.getD 40), maxRows := some (m.maxRows.getD 23),
                    revisionDate := some (m.revisionDate.getD now) },
      langCode := (languageCodeOf m.language).getD (lit "0F"), n := cues.length, tcf := tcf }

def gsiBytes (g : WGSI) : Bytes :=
  let m := g.m
  let fr := m.framerate.toNat
  [0x38, 0x35, 0x30] ++ padR 0x20 8 ((dfcOf m.framerate).getD []) ++ padR 0x20 1 m.dsc ++ [0x30, 0x30]
    ++ padR 0x20 2 g.langCode ++ padR 0x20 32 m.title ++ padR 0x20 32 m.origEpisode ++ padR 0x20 32 m.translProgram
    ++ padR 0x20 32 m.translEpisode ++ padR 0x20 32 m.translName ++ padR 0x20 32 m.translContact
    ++ padR 0x20 16 m.slr ++ padR 0x20 6 (formatDate (m.creation.getD zeroDate)) ++ padR 0x20 6 (formatDate (m.revisionDate.getD zeroDate))
    ++ num 2 m.revisionNumber ++ num 5 (g.n : Int) ++ num 5 (g.n : Int) ++ num 3 1 ++ num 2 (m.maxChars.getD 0) ++ num 2 (m.maxRows.getD 0)
    ++ [0x31] ++ padR 0x20 8 (ascii (Duration.formatSTL m.tcp fr)) ++ padR 0x20 8 (ascii (Duration.formatSTL g.tcf fr))
    ++ [0x31, 0x31] ++ padR 0x20 3 m.country ++ padR 0x20 32 m.publisher ++ padR 0x20 32 m.editorName
    ++ padR 0x20 32 m.editorContact ++ List.replicate 651 0x20

def ttiBytes (g : WGSI) (idx : Nat) (c : WCue) : Bytes :=
  let fr := g.m.framerate.toNat
  -- (repaired) the programme start the reader subtracted is added back
  [0, idx % 256, idx / 256 % 256, 255, 0] ++ Duration.formatSTLBytes (c.startAt + g.m.tcp) fr ++ Duration.formatSTLBytes (c.endAt + g.m.tcp) fr
    ++ [vpByte (c.vp.getD 20) g.m.dsc, justCode c.just, 0] ++ padR 0x8F 112 (encodeText (cueString c))

/-- the bytes of `WriteToSTL`: the GSI block, then one TTI block per cue -/
def writeBody (now : Date) (md : Option Meta) (cues : List WCue) : Bytes :=
  gsiBytes (newGSI now md cues) ++ (cues.zipIdx.map fun (c, k) => ttiBytes (newGSI now md cues) (k + 1) c).flatten

/-- outside the modelled domain: negative times, text outside the NFD domain -/
def writeUnmodelled (md : Option Meta) (cues : List WCue) : Bool :=
  cues.any (fun c => c.startAt + (md.map (·.tcp)).getD 0 < 0 || c.endAt + (md.map (·.tcp)).getD 0 < 0 || !inDomain (cueString c))
    || (md.any fun m => m.tcp < 0)

/-- `WriteToSTL`; `.err` = `ErrNoSubtitlesToWrite` -/
def write (now : Date) (md : Option Meta) (cues : List WCue) : Res Bytes :=
  if cues.isEmpty then .err
  else if writeUnmodelled md cues then .unmodelled
  else .ok (writeBody now md cues)

end STL
end Astisub
