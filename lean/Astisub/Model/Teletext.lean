import Astisub.Model.Subs
import Astisub.Generated.TeletextTables

/-!
# Model/Teletext — `ReadFromTeletext` from the demultiplexer's data upward (`teletext.go`, after fix-1 … fix-8)

Bytes are `Nat`s below 256.  go-astits is a contract: the model starts at what `Demuxer.NextData` delivered
(`Data`).  Loop by loop: `teletextPID`, the data loop of `ReadFromTeletext`, `teletextPageBuffer.process`,
`parseDataUnit`, `parsePacket`, `parsePacketHeader`, `parsePacketData`, `parsePacket28And29`,
`teletextCharacterDecoder.updateCharset` over the regenerated tables, `teletextPage.parse`, `parseTeletextRow`,
`appendTeletextLineItem`, `propagateTeletextAttributes`.
-/

namespace Astisub
namespace Teletext
open Go Generated.Teletext

/-! ## astikit / math/bits -/

/-- `bits.Reverse8` -/
def reverse8 (b : Nat) : Nat :=
  (b / 128 % 2) + (b / 64 % 2) * 2 + (b / 32 % 2) * 4 + (b / 16 % 2) * 8 + (b / 8 % 2) * 16 + (b / 4 % 2) * 32 + (b / 2 % 2) * 64 + (b % 2) * 128

/-- `astikit.ByteHamming84Decode` (table regenerated from the running package) -/
def hammingDecode (b : Nat) : Option Nat :=
  let v := hamming84Tab.getD b 255
  if v = 255 then none else some v

/-- `astikit.ByteParity`: value (low 7 bits) and verdict (odd number of one bits; table regenerated) -/
def byteParity (b : Nat) : Nat × Bool := (b % 128, parityTab.getD b false)

/-- value stored by `parsePacketData` for a character that fails the parity check (fix-4) -/
def invalidChar : Nat := 0xff

/-- one stored character of `parsePacketData` -/
def storeChar (b : Nat) : Nat :=
  let (v, ok) := byteParity (reverse8 b)
  if ok then v else invalidChar

/-! ## character sets -/

abbrev Charset := List Str   -- 96 entries

def toCharset (t : List (List Nat)) : Charset := t.map (·.map Char.ofNat)

def latinG0 : Charset := toCharset (g0Tables.getD defaultG0 [])

def lookupCharset (key code : Nat) : Option (Option Nat × Option Nat) :=
  (charsets.find? fun e => e.1 == key && e.2.1 == code).map fun e => e.2.2

/-- the `for k, v := range nationalOptionSubset { d.c[positions[k]] = v }` loop -/
def patchNational : Charset → List Nat → List Str → Charset
  | c, p :: ps, v :: vs => patchNational (c.set p v) ps vs
  | c, _, _ => c

/-- the triplet `updateCharset` uses: X/28 first, then M/29, else 0 -/
def tripletOf (x28 m29 : Option Nat) : Nat := (x28.orElse fun _ => m29).getD 0

/-- table key of a triplet: `uint8((triplet & 0x3f80) >> 10)` -/
def keyOf (triplet : Nat) : Nat := ((triplet &&& 0x3f80) >>> 10) % 256

/-- body of `updateCharset` once it decides to recompute -/
def computeCharset (triplet code : Nat) : Charset :=
  match lookupCharset (keyOf triplet) code with
  | some (some g0, nat) =>
    let c := toCharset (g0Tables.getD g0 [])
    match nat with
    | some n => patchNational c positions (toCharset (natTables.getD n []))
    | none => c
  | _ => latinG0     -- entry missing (an entry with a nil g0 would be a nil dereference: excluded by C06_charsets_total)

/-- `teletextCharacterDecoder.decode` (fix-4: bytes above 0x7f decode to nothing) -/
def decodeChar (c : Charset) (v : Nat) : Str :=
  if v < 0x20 || v > 0x7f then [] else c.getD (v - 0x20) []

/-! ## rows -/

/-- the inline style of the run under construction: colour code 0..7, size pointers -/
structure Style where
  color : Option Nat := none
  dh : Option Bool := none
  ds : Option Bool := none
  dw : Option Bool := none
  deriving Repr, DecidableEq, Inhabited

/-- `Color.SSAString()` / `"#" + Color.TTMLString()` of the eight teletext colours -/
def colorStrings (c : Nat) : Str × Str :=
  match c with
  | 0 => ("00000000".toList, "#000000".toList)
  | 1 => ("000000ff".toList, "#ff0000".toList)
  | 2 => ("00008000".toList, "#008000".toList)
  | 3 => ("0000ffff".toList, "#ffff00".toList)
  | 4 => ("00ff0000".toList, "#0000ff".toList)
  | 5 => ("00ff00ff".toList, "#ff00ff".toList)
  | 6 => ("00ffff00".toList, "#00ffff".toList)
  | _ => ("00ffffff".toList, "#ffffff".toList)

def boolStr (b : Bool) : Str := if b then "true".toList else "false".toList
def natStr (n : Nat) : Str := (toString n).toList

def countLeading (s : Str) : Nat := (s.takeWhile (· == ' ')).length

/-- `appendTeletextLineItem` -/
def appendItem (l : List LItem) (text : Str) (st : Style) : List LItem :=
  if (trimSpace text).isEmpty then l else
  let before := countLeading text
  let after := countLeading text.reverse
  let attrs := mkAttrs [
    ("TTMLColor", st.color.map fun c => (colorStrings c).2),
    ("TeletextColor", st.color.map fun c => (colorStrings c).1),
    ("TeletextDoubleHeight", st.dh.map boolStr), ("TeletextDoubleSize", st.ds.map boolStr), ("TeletextDoubleWidth", st.dw.map boolStr),
    ("TeletextSpacesAfter", some (natStr after)), ("TeletextSpacesBefore", some (natStr before))]
  l ++ [{ text := trimSpace text, attrs := some attrs }]

structure RowSt where
  items : List LItem := []
  text : Str := []
  style : Style := {}
  started : Bool := false
  deriving Repr, Inhabited

/-- `teletextBoolHasChanged` (fix-7): a size code changes the style when its value differs from the current one (unset = false) -/
def ptrDiffers (new old : Option Bool) : Bool :=
  match new with
  | none => false
  | some n => n != old.getD false

/-- one column of `parseTeletextRow` (no styler) -/
def rowStep (c : Charset) (s : RowSt) (v : Nat) : RowSt :=
  let color : Option Nat := if v < 8 then some v else none
  let s := if v = 0xa then { s with started := false } else if v = 0xb then { s with started := true } else s
  let dh : Option Bool := if v = 0xc then some false else if v = 0xd then some true else none
  let ds : Option Bool := if v = 0xc then some false else if v = 0xf then some true else none
  let dw : Option Bool := if v = 0xc then some false else if v = 0xe then some true else none
  if color.isSome || dh.isSome || ds.isSome || dw.isSome then
    if (color.isSome && color != s.style.color) || ptrDiffers dh s.style.dh || ptrDiffers ds s.style.ds || ptrDiffers dw s.style.dw then
      let s := if s.started || !s.text.isEmpty then { s with items := appendItem s.items s.text s.style, text := [] } else s   -- fix-5
      let st := s.style
      let st := if color.isSome then { st with color := color } else st
      let st := if dh.isSome then { st with dh := dh } else st
      let st := if ds.isSome then { st with ds := ds } else st
      let st := if dw.isSome then { st with dw := dw } else st
      { s with style := st }
    else s
  else if s.started then { s with text := s.text ++ decodeChar c v }
  else s

/-- `parseTeletextRow`: the line of a row (`none`: no line appended) -/
def parseRow (c : Charset) (row : List Nat) : Option Line :=
  let s := row.foldl (rowStep c) {}
  let items := appendItem s.items s.text s.style
  if items.isEmpty then none else some { items := items }

/-! ## pages -/

structure Page where
  charsetCode : Nat
  data : List (Nat × List Nat) := []   -- `map[uint8][]byte`
  rows : List Nat := []
  start : Int
  end_ : Int := 0
  deriving Repr, Inhabited

def setData (d : List (Nat × List Nat)) (k : Nat) (v : List Nat) : List (Nat × List Nat) :=
  if d.any (·.1 == k) then d.map fun e => if e.1 == k then (k, v) else e else d ++ [(k, v)]

def getData (d : List (Nat × List Nat)) (k : Nat) : List Nat := ((d.find? (·.1 == k)).map (·.2)).getD []

/-- the character decoder while pages are parsed: last page code and current table -/
structure Dec where
  last : Option Nat := none
  c : Charset := []

/-- `updateCharset(code, false)` -/
def updateCharset (triplet : Nat) (d : Dec) (code : Nat) : Dec :=
  if d.last == some code then d else { last := some code, c := computeCharset triplet code }

/-- `teletextPage.parse` -/
def parsePage (triplet : Nat) (first : Int) (st : Dec × List CItem) (p : Page) : Dec × List CItem :=
  let d := updateCharset triplet st.1 p.charsetCode
  if p.data.isEmpty then (d, st.2) else
  let rows := p.rows.mergeSort (fun a b => decide (a ≤ b))
  let lines := rows.filterMap fun y => parseRow d.c (getData p.data y)
  (d, st.2 ++ [{ startAt := p.start - first, endAt := p.end_ - first, lines := lines }])

/-! ## page buffer -/

structure Buf where
  current : Option Page := none
  done : List Page := []
  mag : Nat           -- `magazineNumber`
  page : Nat          -- `pageNumber`
  receiving : Bool := false
  x28 : Option Nat := none
  m29 : Option Nat := none
  deriving Repr, Inhabited

/-- `newTeletextPageBuffer` -/
def newBuf (page : Nat) : Buf := { mag := page / 100 % 256, page := page % 100 }

def nth (l : List Nat) (i : Nat) : Nat := l.getD i 0

/-- `parsePacketHeader`; `none` for the page number marks a hexadecimal page number (fix-6) -/
def parseHeader (b : Buf) (i : List Nat) (mag : Nat) (t : Int) : Buf :=
  match hammingDecode (nth i 0), hammingDecode (nth i 1) with
  | some units, some tens =>
    if tens = 15 && units = 15 then b else
    -- fix-6: page numbers are two decimal digits; a header with a hexadecimal digit is another page
    let pn : Option Nat := if tens > 9 || units > 9 then none else some (tens * 10 + units)
    let auto : Option Buf :=
      if b.mag = 0 && b.page = 0 then
        match hammingDecode (nth i 5) with
        | none => none
        | some cb =>
          match pn with
          | some p => if cb &&& 8 > 0 then some { b with mag := mag, page := p } else some b
          | none => some b
      else some b
    match auto with
    | none => b
    | some b =>
      match hammingDecode (nth i 7) with
      | none => b
      | some cb =>
        let serial := cb &&& 1 > 0
        let code := cb >>> 1
        let other := pn != some b.page
        if b.receiving && ((serial && (other || mag != b.mag)) || (!serial && other && mag = b.mag)) then { b with receiving := false }   -- fix-8
        else if other || mag != b.mag then b
        else
          let done := match b.current with
            | some p => b.done ++ [{ p with end_ := t }]
            | none => b.done
          { b with done := done, receiving := true, current := some { charsetCode := code, start := t } }
  | _, _ => b

/-- `parsePacketData` -/
def parseData (b : Buf) (i : List Nat) (y : Nat) : Buf :=
  match b.current with
  | none => b   -- unreachable: `receiving` implies a current page
  | some p =>
    let row := (List.range 40).map fun k => storeChar (nth i k)
    { b with current := some { p with data := setData p.data y row, rows := p.rows ++ [y] } }

/-- `parsePacket28And29` (argument: the packet after the designation byte) -/
def parse2829 (b : Buf) (i : List Nat) (y dc : Nat) : Buf :=
  if dc != 0 && dc != 4 then b else
  let t := nth i 2 * 65536 + nth i 1 * 256 + nth i 0
  if y = 28 && t &&& 0xf > 0 then b
  else if y = 28 then { b with x28 := some t } else { b with m29 := some t }

/-- `parsePacket` -/
def parsePacket (b : Buf) (i : List Nat) (mag y : Nat) (t : Int) : Buf :=
  if y = 0 then parseHeader b i mag t
  else if b.receiving && mag = b.mag && 1 ≤ y && y ≤ 25 then parseData b i y
  else
    match hammingDecode (nth i 0) with
    | none => b
    | some dc =>
      if b.receiving && mag = b.mag && y = 26 then b
      else if b.receiving && mag = b.mag && y = 28 then parse2829 b (i.drop 1) y dc
      else if mag = b.mag && y = 29 then parse2829 b (i.drop 1) y dc
      else b

/-- `parseDataUnit` (fix-2: units shorter than 44 bytes are skipped) -/
def parseDataUnit (b : Buf) (i : List Nat) (id : Nat) (t : Int) : Buf :=
  if id != 3 then b
  else if i.length < 44 then b
  else if nth i 1 != 0xe4 then b
  else
    match hammingDecode (nth i 2), hammingDecode (nth i 3) with
    | some h1, some h2 =>
      let h := (h2 * 16 ||| h1) % 256
      let mag := if h &&& 7 = 0 then 8 else h &&& 7
      parsePacket b (i.drop 4) mag (h >>> 3) t
    | _, _ => b

/-- the data-unit loop of `process` (fuel = remaining length) -/
def unitLoop : Nat → Buf → List Nat → Int → Buf
  | fuel + 1, b, id :: len :: rest, t =>
    if len > rest.length then b
    else unitLoop fuel (parseDataUnit b (rest.take len) id t) (rest.drop len) t
  | _, b, _, _ => b

/-- `teletextPageBuffer.process`: new state and the pages that are done -/
def process (b : Buf) (data : List Nat) (t : Int) : Buf × List Page :=
  match data with
  | [] => (b, [])
  | ident :: rest =>
    if !(0x10 ≤ ident && ident ≤ 0x1f) then (b, []) else
    let b := unitLoop rest.length b rest t
    ({ b with done := [] }, b.done)

/-! ## the reader -/

/-- what the demultiplexer delivered (contract) -/
inductive Data where
  | pmt (streams : List (Nat × List Nat))       -- elementary PID, descriptor tags
  | pes (pid : Nat) (streamId : Option Nat) (pts pcr : Option Int) (payload : List Nat)
  | other
  | nil                                          -- `(nil, nil)`
  deriving Repr, Inhabited

inductive Res (α : Type) where
  | ok (a : α)
  | err
  deriving Repr

/-- first / last time, pages -/
structure Acc where
  buf : Buf
  first : Option Int := none
  last : Option Int := none
  pages : List Page := []

def feed (a : Acc) (payload : List Nat) (t : Int) : Acc :=
  let first := match a.first with | none => t | some f => if f > t then t else f
  let last := match a.last with | none => t | some l => if l < t then t else l
  let (b, ps) := process a.buf payload t
  { buf := b, first := some first, last := some last, pages := a.pages ++ ps }

/-- `dump` + the `parse` loop -/
def finish (a : Acc) : Subs :=
  let pages := a.pages ++ (match a.buf.current with
    | some p => [{ p with end_ := a.last.getD 0 }]
    | none => [])
  let r := pages.foldl (parsePage (tripletOf a.buf.x28 a.buf.m29) (a.first.getD 0)) ({}, [])
  { items := r.2 }

/-- the hook driver `VerifTeletextRun`: the data loop on (payload, time) pairs of the chosen PID -/
def runPES (page : Nat) (pes : List (Int × List Nat)) : Subs :=
  finish (pes.foldl (fun a p => feed a p.2 p.1) { buf := newBuf page })

def teletextTag (t : Nat) : Bool := t = 0x56 || t = 0x46

/-- `teletextPID` on the first pass (`ended`: how the pass ended when no PMT was met: true = end of stream) -/
def findPID (pass : List Data) : Option Nat :=
  match pass.find? (fun d => match d with | .pmt _ => true | _ => false) with
  | some (.pmt streams) =>
    let pids := streams.flatMap fun (pid, tags) => (tags.filter teletextTag).map fun _ => pid
    pids.head?
  | _ => none

/-- the data loop of `ReadFromTeletext` on the pass after the rewind; `endOk` = the pass ended with `ErrNoMorePackets` -/
def readLoop (page pid : Nat) (pass : List Data) (endOk : Bool) : Res Subs :=
  if !endOk then .err else
  let a := pass.foldl (fun (a : Acc) d =>
    match d with
    | .pes p sid pts pcr payload =>
      if p != pid % 65536 || sid != some 189 then a else
      match pts.orElse fun _ => pcr with
      | none => a
      | some t => feed a payload t
    | _ => a) { buf := newBuf page }
  .ok (finish a)

end Teletext
end Astisub
