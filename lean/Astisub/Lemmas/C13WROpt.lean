import Astisub.Lemmas.C13WRChain
import Astisub.Props.C13

/-!
# Lemmas/C13WROpt — `Optimize` on the cue model `Subs`, and the bridge to the graph model of C13

* `optimizeSubs` — `Subtitles.Optimize` stated on `Subs` (`Model/Subs.lean`): a list with at least one
  cue loses the region definitions no cue refers to and the style definitions whose identifier is
  on no pointer chain starting at a cue, a run or a kept region (`usedStyleIds`); nothing else changes.
* `graphOf` — the abstraction the `ops.optimize` stream implicitly uses (harness `observeGraph`):
  every reference becomes the identifier chain read through it, definitions become map entries
  keyed by their identifier, attributes are forgotten (`tag := 0`).
* `optimize_graphOf` — the square commutes: `Graph.optimize (graphOf s) = graphOf (optimizeSubs s)`
  for every `s` with pairwise distinct style identifiers — dangling references and cyclic parent
  links included (no `Consistent` hypothesis: the marking loop with early exit is analysed directly
  against the parent function of `s`, `markChain_chain`).
-/

namespace Astisub
namespace C13WR
open Go List Graph

/-! ### `Optimize` on `Subs` -/

/-- the style references of the runs of a cue, line by line -/
def runRefs (it : CItem) : List (Option Str) := it.lines.flatMap fun l => l.items.map (·.style)

/-- the style references a cue makes itself: its own, then those of its runs -/
def itemRefs (it : CItem) : List (Option Str) := it.style :: runRefs it

/-- identifiers of the regions some cue refers to -/
def usedRegionIds (s : Subs) : List Str := s.items.filterMap (·.region)

/-- the region definitions some cue refers to -/
def keptRegions (s : Subs) : List Def := s.regions.filter fun d => decide (d.id ∈ usedRegionIds s)

/-- every style reference that gives access to styles: of the cues, of their runs, of the kept regions -/
def rootRefs (s : Subs) : List (Option Str) := s.items.flatMap itemRefs ++ (keptRegions s).map (·.ref)

/-- identifiers of the reachable styles: everything on the chain of a root reference -/
def usedStyleIds (s : Subs) : List Str := (rootRefs s).flatMap (chainOf s.styles)

/-- **`Subtitles.Optimize` on `Subs`** -/
def optimizeSubs (s : Subs) : Subs :=
  if s.items.isEmpty then s else
  { s with regions := keptRegions s,
           styles := s.styles.filter fun d => decide (d.id ∈ usedStyleIds s) }

/-! ### the abstraction -/

def sid (x : Str) : String := String.ofList x

theorem sid_inj {a b : Str} (h : sid a = sid b) : a = b := String.ofList_injective h

theorem sid_mem_map {a : Str} {l : List Str} : sid a ∈ l.map sid ↔ a ∈ l := by
  constructor
  · intro h
    obtain ⟨b, hb, hab⟩ := mem_map.mp h
    exact sid_inj hab ▸ hb
  · exact fun h => mem_map.mpr ⟨a, h, rfl⟩

/-- the identifier chain read through a reference -/
def gchain (st : List Def) (r : Option Str) : IdChain := (chainOf st r).map sid

def gItem (st : List Def) (it : CItem) : GItem :=
  { style := gchain st it.style, region := it.region.map sid, runs := (runRefs it).map (gchain st) }

def gRegion (st : List Def) (d : Def) : String × RegionDef :=
  (sid d.id, { id := sid d.id, style := gchain st d.ref, tag := 0 })

def gStyle (st : List Def) (d : Def) : String × StyleDef :=
  (sid d.id, { id := sid d.id, parent := gchain st d.ref, tag := 0 })

/-- **the reference graph of a cue list** -/
def graphOf (s : Subs) : Graph :=
  { items := s.items.map (gItem s.styles), regions := s.regions.map (gRegion s.styles),
    styles := s.styles.map (gStyle s.styles) }

/-! ### the marking loop on chains of `graphOf` -/

theorem markChain_sub (c : IdChain) : ∀ (acc : List String) (y : String), y ∈ markChain acc c → y ∈ acc ∨ y ∈ c := by
  induction c with
  | nil => intro acc y h; exact Or.inl h
  | cons a rest ih =>
    intro acc y h
    unfold markChain at h
    by_cases ha : a ∈ acc
    · simp only [ha, if_true] at h; exact Or.inl h
    · simp only [ha, if_false] at h
      rcases ih _ _ h with h | h
      · rcases mem_cons.mp h with rfl | h
        · exact Or.inr (by simp)
        · exact Or.inl h
      · exact Or.inr (mem_cons_of_mem _ h)

theorem markChain_sup (c : IdChain) : ∀ (acc : List String) (y : String), y ∈ acc → y ∈ markChain acc c := by
  induction c with
  | nil => intro acc y h; exact h
  | cons a rest ih =>
    intro acc y h
    unfold markChain
    by_cases ha : a ∈ acc
    · simp only [ha, if_true]; exact h
    · simp only [ha, if_false]; exact ih _ _ (mem_cons_of_mem _ h)

/-- `acc` holds, with every identifier, the parent of the style it names -/
def ClosedG (st : List Def) (acc : List String) : Prop :=
  ∀ id p, sid id ∈ acc → parentRef st id = some p → sid p ∈ acc

/-- … except possibly for the parent `x` the walk is about to visit -/
def InvG (st : List Def) (acc : List String) (x : Option Str) : Prop :=
  ∀ id p, sid id ∈ acc → parentRef st id = some p → sid p ∈ acc ∨ x = some p

/-- **the early exit is harmless**: walking the chain of a reference with the visited-set early
    exit marks the whole chain and leaves the marked set parent-closed -/
theorem markChain_chain (st : List Def) : ∀ (n : Nat) (seen : List Str) (x : Option Str) (acc : List String),
    chainEnds st n seen x = true → (∀ i ∈ seen, sid i ∈ acc) → InvG st acc x →
      ClosedG st (markChain acc ((chain st n seen x).map sid)) ∧
      ∀ y ∈ chain st n seen x, sid y ∈ markChain acc ((chain st n seen x).map sid) := by
  intro n
  induction n with
  | zero =>
    intro seen x acc he _ hinv
    cases x with
    | some id => cases he
    | none =>
      refine ⟨?_, fun y hy => by cases hy⟩
      intro id p hid hp
      rcases hinv id p hid hp with h | h
      · exact h
      · cases h
  | succ n ih =>
    intro seen x acc he hseen hinv
    cases x with
    | none =>
      refine ⟨?_, fun y hy => by cases hy⟩
      intro id p hid hp
      rcases hinv id p hid hp with h | h
      · exact h
      · cases h
    | some a =>
      -- once `a` is marked, `acc` is parent-closed
      have hclosed : sid a ∈ acc → ClosedG st acc := by
        intro ha id p hid hp
        rcases hinv id p hid hp with h | h
        · exact h
        · cases h; exact ha
      rw [chainEnds_succ] at he
      rw [chain_succ]
      by_cases hs : a ∈ seen
      · simp only [hs, if_true, map_nil]
        exact ⟨hclosed (hseen a hs), fun y hy => by cases hy⟩
      · simp only [hs, if_false, map_cons] at he ⊢
        unfold markChain
        by_cases ha : sid a ∈ acc
        · simp only [ha, if_true]
          have hc := hclosed ha
          refine ⟨hc, ?_⟩
          intro y hy
          rcases mem_cons.mp hy with rfl | hy
          · exact ha
          · exact chain_subset_closed st (fun z => sid z ∈ acc) (fun id p h hp => hc id p h hp) _ _ _
              (fun p hp => hc a p ha hp) y hy
        · simp only [ha, if_false]
          have := ih (a :: seen) (parentRef st a) (sid a :: acc) he
            (by
              intro i hi
              rcases mem_cons.mp hi with rfl | hi
              · simp
              · exact mem_cons_of_mem _ (hseen i hi))
            (by
              intro id p hid hp
              rcases mem_cons.mp hid with h | h
              · have := sid_inj h; subst this
                exact Or.inr hp
              · rcases hinv id p h hp with h' | h'
                · exact Or.inl (mem_cons_of_mem _ h')
                · cases h'; exact Or.inl (by simp))
          refine ⟨this.1, ?_⟩
          intro y hy
          rcases mem_cons.mp hy with rfl | hy
          · exact markChain_sup _ _ _ (by simp)
          · exact this.2 y hy

theorem closedG_inv {st : List Def} {acc : List String} (h : ClosedG st acc) (x : Option Str) : InvG st acc x :=
  fun id p hid hp => Or.inl (h id p hid hp)

/-- marking the chain of one reference -/
theorem markChain_gchain (st : List Def) (acc : List String) (hcl : ClosedG st acc) (r : Option Str) :
    ClosedG st (markChain acc (gchain st r)) ∧
    ∀ y, y ∈ markChain acc (gchain st r) ↔ y ∈ acc ∨ y ∈ gchain st r := by
  have := markChain_chain st _ [] r acc (chainOf_ends st r) (by intro i hi; cases hi) (closedG_inv hcl r)
  refine ⟨this.1, fun y => ⟨markChain_sub _ _ _, ?_⟩⟩
  rintro (h | h)
  · exact markChain_sup _ _ _ h
  · obtain ⟨z, hz, rfl⟩ := mem_map.mp h
    exact this.2 z hz

/-- marking the chains of a list of references, one after the other -/
theorem foldl_markChain_gchain (st : List Def) (refs : List (Option Str)) :
    ∀ (acc : List String), ClosedG st acc →
      ClosedG st ((refs.map (gchain st)).foldl markChain acc) ∧
      ∀ y, y ∈ (refs.map (gchain st)).foldl markChain acc ↔ y ∈ acc ∨ ∃ r ∈ refs, y ∈ gchain st r := by
  induction refs with
  | nil => intro acc h; exact ⟨h, by simp⟩
  | cons r rest ih =>
    intro acc hcl
    obtain ⟨h1, h2⟩ := markChain_gchain st acc hcl r
    obtain ⟨h3, h4⟩ := ih _ h1
    refine ⟨h3, ?_⟩
    intro y
    rw [map_cons, foldl_cons, h4, h2]
    simp only [mem_cons, exists_eq_or_imp]
    exact or_assoc

/-! ### reachable styles -/

theorem mem_usedStyleIds {s : Subs} {y : Str} : y ∈ usedStyleIds s ↔ ∃ r ∈ rootRefs s, y ∈ chainOf s.styles r := by
  simp [usedStyleIds, mem_flatMap]

/-- the reachable identifiers are closed under "parent of the style it names" -/
theorem usedStyleIds_closed (s : Subs) (id p : Str) (hid : id ∈ usedStyleIds s)
    (hp : parentRef s.styles id = some p) : p ∈ usedStyleIds s := by
  obtain ⟨r, hr, h⟩ := mem_usedStyleIds.mp hid
  exact mem_usedStyleIds.mpr ⟨r, hr, chainOf_parent _ _ _ h _ hp⟩

/-- the target of a root reference is reachable -/
theorem root_mem_used (s : Subs) (v : Str) (h : some v ∈ rootRefs s) : v ∈ usedStyleIds s :=
  mem_usedStyleIds.mpr ⟨_, h, head_mem_chainOf _ _⟩

/-- everything on the chain of a root reference is reachable -/
theorem root_chain_used (s : Subs) (r : Option Str) (h : r ∈ rootRefs s) : ∀ y ∈ chainOf s.styles r, y ∈ usedStyleIds s :=
  fun _ hy => mem_usedStyleIds.mpr ⟨r, h, hy⟩

/-- everything on the chain of a reachable style's parent reference is reachable
    (identifiers pairwise distinct: the definition is the one its identifier names) -/
theorem style_chain_used (s : Subs) (hnd : (s.styles.map (·.id)).Nodup) (d : Def) (hd : d ∈ s.styles)
    (hu : d.id ∈ usedStyleIds s) : ∀ y ∈ chainOf s.styles d.ref, y ∈ usedStyleIds s := by
  apply chain_subset_closed s.styles (fun z => z ∈ usedStyleIds s) (usedStyleIds_closed s)
  intro p hp
  apply usedStyleIds_closed s d.id p hu
  unfold parentRef
  rw [findDef_of_mem hnd hd]
  exact hp

/-- the filter `optimizeSubs` applies to the styles -/
def keepStyle (s : Subs) (id : Str) : Bool := decide (id ∈ usedStyleIds s)

def keptStyles (s : Subs) : List Def := s.styles.filter fun d => keepStyle s d.id

theorem chainOf_kept_root (s : Subs) (r : Option Str) (h : r ∈ rootRefs s) :
    chainOf (keptStyles s) r = chainOf s.styles r :=
  chainOf_filter s.styles (keepStyle s) r (fun y hy => by simpa [keepStyle] using root_chain_used s r h y hy)

theorem chainOf_kept_style (s : Subs) (hnd : (s.styles.map (·.id)).Nodup) (d : Def) (hd : d ∈ keptStyles s) :
    chainOf (keptStyles s) d.ref = chainOf s.styles d.ref := by
  obtain ⟨hd1, hd2⟩ := mem_filter.mp hd
  exact chainOf_filter s.styles (keepStyle s) d.ref
    (fun y hy => by simpa [keepStyle] using style_chain_used s hnd d hd1 (by simpa [keepStyle] using hd2) y hy)

theorem optimizeSubs_of_ne (s : Subs) (h : s.items.isEmpty = false) :
    optimizeSubs s = { s with regions := keptRegions s, styles := keptStyles s } := by
  simp [optimizeSubs, h, keptStyles, keepStyle]

theorem itemRefs_root (s : Subs) (it : CItem) (hit : it ∈ s.items) (r : Option Str) (hr : r ∈ itemRefs it) :
    r ∈ rootRefs s :=
  mem_append_left _ (mem_flatMap.mpr ⟨it, hit, hr⟩)

theorem regionRef_root (s : Subs) (d : Def) (hd : d ∈ keptRegions s) : d.ref ∈ rootRefs s :=
  mem_append_right _ (mem_map.mpr ⟨d, hd, rfl⟩)

/-! ### the square commutes -/

theorem graphOf_usedRegions (s : Subs) :
    (graphOf s).items.filterMap (·.region) = (usedRegionIds s).map sid := by
  simp only [graphOf, usedRegionIds, filterMap_map, map_filterMap]
  rfl

theorem graphOf_itemChains (s : Subs) :
    C13.itemChains (graphOf s).items = (s.items.flatMap itemRefs).map (gchain s.styles) := by
  simp only [C13.itemChains, graphOf, flatMap_map, map_flatMap]
  rfl

/-- the regions the graph model keeps are the images of the kept regions -/
theorem graphOf_regions_filter (s : Subs) :
    (graphOf s).regions.filter (fun kr => decide (kr.2.id ∈ ((graphOf s).items.filterMap (·.region)).reverse))
      = (keptRegions s).map (gRegion s.styles) := by
  rw [graphOf_usedRegions]
  simp only [graphOf, filter_map, keptRegions]
  congr 1
  apply filter_congr
  intro d _
  simp only [Function.comp, gRegion, mem_reverse, sid_mem_map]

theorem optimize_graphOf_styles (s : Subs) (y : Str) :
    sid y ∈ (((keptRegions s).map (gRegion s.styles)).map (·.2.style)).foldl markChain
        ((C13.itemChains (graphOf s).items).foldl markChain [])
      ↔ y ∈ usedStyleIds s := by
  rw [graphOf_itemChains]
  have e : ((keptRegions s).map (gRegion s.styles)).map (·.2.style)
      = ((keptRegions s).map (·.ref)).map (gchain s.styles) := by
    simp [gRegion, Function.comp_def]
  rw [e]
  have h0 : ClosedG s.styles [] := by intro id p h; cases h
  obtain ⟨h1, h2⟩ := foldl_markChain_gchain s.styles (s.items.flatMap itemRefs) [] h0
  obtain ⟨_, h4⟩ := foldl_markChain_gchain s.styles ((keptRegions s).map (·.ref)) _ h1
  rw [h4, h2, mem_usedStyleIds]
  simp only [not_mem_nil, false_or, rootRefs, mem_append, gchain, sid_mem_map]
  constructor
  · rintro (⟨r, hr, h⟩ | ⟨r, hr, h⟩)
    · exact ⟨r, Or.inl hr, h⟩
    · exact ⟨r, Or.inr hr, h⟩
  · rintro ⟨r, hr | hr, h⟩
    · exact Or.inl ⟨r, hr, h⟩
    · exact Or.inr ⟨r, hr, h⟩

/-- what the graph model returns on `graphOf s` (at least one cue), before looking at the chains again -/
theorem optimize_graphOf_raw (s : Subs) (he : s.items.isEmpty = false) :
    Graph.optimize (graphOf s)
      = { graphOf s with regions := (keptRegions s).map (gRegion s.styles),
                         styles := (keptStyles s).map (gStyle s.styles) } := by
  have h2 : (graphOf s).items.isEmpty = false := by simpa [graphOf] using he
  unfold Graph.optimize
  simp only [h2, Bool.false_eq_true, if_false]
  rw [C13.markItems_spec]
  simp only
  unfold sweepRegions
  rw [C13.sweepRegions_eq]
  simp only [nil_append]
  rw [graphOf_regions_filter]
  have hsty : (graphOf s).styles.filter (fun ks => decide (ks.2.id ∈
        (((keptRegions s).map (gRegion s.styles)).map (·.2.style)).foldl markChain
          ((C13.itemChains (graphOf s).items).foldl markChain [])))
      = (keptStyles s).map (gStyle s.styles) := by
    simp only [graphOf, filter_map, keptStyles]
    congr 1
    apply filter_congr
    intro d _
    simp only [Function.comp, gStyle, keepStyle]
    have := optimize_graphOf_styles s d.id
    simp only [graphOf] at this
    simp only [this]
  rw [hsty]

/-- **Bridge.**  Abstracting the optimized cue list gives what the graph model of `Optimize`
    returns on the abstracted cue list. -/
theorem optimize_graphOf (s : Subs) (hnd : (s.styles.map (·.id)).Nodup) :
    Graph.optimize (graphOf s) = graphOf (optimizeSubs s) := by
  by_cases he : s.items.isEmpty
  · have h1 : optimizeSubs s = s := by simp [optimizeSubs, he]
    have h2 : (graphOf s).items.isEmpty = true := by simpa [graphOf] using he
    rw [h1]; unfold Graph.optimize; simp [h2]
  · have he' : s.items.isEmpty = false := by simpa using he
    rw [optimize_graphOf_raw s he', optimizeSubs_of_ne s he']
    -- the chains are the same in the optimized list
    simp only [graphOf]
    congr 1
    · apply map_congr_left
      intro it hit
      simp only [gItem, gchain]
      rw [chainOf_kept_root s it.style (itemRefs_root s it hit _ (by simp [itemRefs]))]
      congr 1
      apply map_congr_left
      intro r hr
      simp only [gchain]
      rw [chainOf_kept_root s r (itemRefs_root s it hit _ (by simp [itemRefs, hr]))]
    · apply map_congr_left
      intro d hd
      simp only [gRegion, gchain]
      rw [chainOf_kept_root s d.ref (regionRef_root s d hd)]
    · apply map_congr_left
      intro d hd
      simp only [gStyle, gchain]
      rw [chainOf_kept_style s hnd d hd]

/-! ### model = specification on the image of `graphOf` -/

theorem spec_usedRegionIds_graphOf (s : Subs) : Spec.usedRegionIds (graphOf s) = (usedRegionIds s).map sid :=
  graphOf_usedRegions s

theorem spec_usedRegions_graphOf (s : Subs) : Spec.usedRegions (graphOf s) = (keptRegions s).map (gRegion s.styles) := by
  unfold Spec.usedRegions
  rw [spec_usedRegionIds_graphOf]
  simp only [graphOf, filter_map, keptRegions]
  congr 1
  apply filter_congr
  intro d _
  simp only [Function.comp, gRegion, sid_mem_map]

theorem spec_roots_graphOf (s : Subs) : Spec.roots (graphOf s) = (rootRefs s).map (gchain s.styles) := by
  unfold Spec.roots
  rw [spec_usedRegions_graphOf]
  have := graphOf_itemChains s
  unfold C13.itemChains at this
  rw [this]
  simp [rootRefs, gRegion, Function.comp_def]

theorem spec_reach_graphOf (s : Subs) (y : Str) : Spec.Reach (graphOf s) (sid y) ↔ y ∈ usedStyleIds s := by
  unfold Spec.Reach
  rw [spec_roots_graphOf, mem_usedStyleIds]
  constructor
  · rintro ⟨c, hc, hy⟩
    obtain ⟨r, hr, rfl⟩ := mem_map.mp hc
    exact ⟨r, hr, sid_mem_map.mp hy⟩
  · rintro ⟨r, hr, hy⟩
    exact ⟨_, mem_map.mpr ⟨r, hr, rfl⟩, sid_mem_map.mpr hy⟩

/-- **On the image of `graphOf` the loop model equals the declarative specification** — with no
    `Consistent` hypothesis: cyclic parent links (where the chains of `graphOf s` are *not*
    consistent) and duplicate identifiers included. -/
theorem optimize_spec_graphOf (s : Subs) : Graph.optimize (graphOf s) = Spec.optimizeSpec (graphOf s) := by
  cases he : s.items.isEmpty with
  | true =>
    have h2 : (graphOf s).items.isEmpty = true := by simpa [graphOf] using he
    simp [Graph.optimize, Spec.optimizeSpec, h2]
  | false =>
    have h2 : (graphOf s).items.isEmpty = false := by simpa [graphOf] using he
    rw [optimize_graphOf_raw s he]
    unfold Spec.optimizeSpec
    simp only [h2, Bool.false_eq_true, if_false]
    rw [spec_usedRegions_graphOf]
    congr 1
    simp only [graphOf, filter_map, keptStyles]
    congr 1
    apply filter_congr
    intro d _
    simp only [Function.comp, gStyle, keepStyle]
    have := spec_reach_graphOf s d.id
    simp only [graphOf] at this
    simp only [this]

end C13WR
end Astisub
