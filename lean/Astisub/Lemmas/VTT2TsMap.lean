import Astisub.Lemmas.VTT2Region

/-!
# Lemmas/VTT2TsMap — the written `X-TIMESTAMP-MAP` header line through the reader
-/

namespace Astisub
namespace VTT
open Go List

/-- a character of a written number: digit or sign -/
def signDig (c : Char) : Bool := isDig c || c == '-' || c == '+'

/-- characters the timestamp map line is made of after `=` -/
def plainC (c : Char) : Bool := timeChar c || c == '-' || c == '+' || ('A' ≤ c && c ≤ 'Z')

theorem plainC_of_time {c : Char} (h : timeChar c = true) : plainC c = true := by simp [plainC, h]
theorem plainC_of_sign {c : Char} (h : signDig c = true) : plainC c = true := by
  simp only [signDig, Bool.or_eq_true] at h
  simp only [plainC, timeChar, Bool.or_eq_true]
  rcases h with (h | h) | h
  · exact Or.inl (Or.inl (Or.inl (Or.inl (Or.inl h))))
  · exact Or.inl (Or.inl (Or.inr h))
  · exact Or.inl (Or.inr h)

theorem plainC_spec {c : Char} (h : plainC c = true) : isSpace c = false ∧ c ≠ '>' ∧ c ≠ '=' ∧ c ≠ ',' := by
  simp only [plainC, Bool.or_eq_true, beq_iff_eq, Bool.and_eq_true, decide_eq_true_eq] at h
  rcases h with ((h | rfl) | rfl) | ⟨h1, h2⟩
  · refine ⟨timeChar_noSpace h, timeChar_ne_gt h, ?_, ?_⟩ <;> (intro e; subst e; exact absurd h (by decide))
  · decide
  · decide
  · have a1 : 65 ≤ c.toNat := h1
    have a2 : c.toNat ≤ 90 := h2
    refine ⟨?_, ?_, ?_, ?_⟩
    · cases hs : isSpace c with
      | false => rfl
      | true =>
        simp only [isSpace, Bool.or_eq_true, Bool.and_eq_true, decide_eq_true_eq, beq_iff_eq] at hs
        omega
    all_goals (intro e; subst e; revert a1 a2; decide)

theorem contains_arrow_noGt {s : Str} (h : '>' ∉ s) : Go.contains arrow s = false := by
  induction s with
  | nil => rfl
  | cons x xs ih =>
    unfold Go.contains
    have h1 : hasPrefix arrow (x :: xs) = false := by
      unfold hasPrefix; rw [dropPrefix?_arrow_noGt h]; rfl
    rw [h1, ih (fun hc => h (by simp [hc]))]
    rfl

theorem splitOnce_go_colon (k v : Str) (hk : ':' ∉ k) : ∀ (fuel : Nat) (acc : Str), k.length + 1 ≤ fuel →
    splitOnce.go [':'] fuel (k ++ ':' :: v) acc = [acc.reverse ++ k, v] := by
  induction k with
  | nil =>
    intro fuel acc hf
    obtain ⟨f, rfl⟩ : ∃ f, fuel = f + 1 := ⟨fuel - 1, by simp at hf; omega⟩
    simp [splitOnce.go, dropPrefix?]
  | cons x xs ih =>
    intro fuel acc hf
    obtain ⟨f, rfl⟩ : ∃ f, fuel = f + 1 := ⟨fuel - 1, by simp at hf; omega⟩
    have hx : ¬ ':' = x := fun e => hk (by subst e; simp)
    have : dropPrefix? [':'] (x :: (xs ++ ':' :: v)) = none := by simp [dropPrefix?, hx]
    simp only [cons_append, splitOnce.go, this]
    rw [ih (fun hc => hk (by simp [hc])) f (x :: acc) (by simp at hf; omega)]
    simp

theorem splitOnce_colon (k v : Str) (hk : ':' ∉ k) : splitOnce [':'] (k ++ ':' :: v) = [k, v] := by
  unfold splitOnce
  simp only [List.isEmpty_cons, Bool.false_eq_true, if_false]
  rw [splitOnce_go_colon k v hk _ [] (by simp)]
  simp

/-- what is known about a rendered instant -/
theorem format_facts (t : Int) (h0 : 0 ≤ t) (h1 : t < 360000000000000) :
    (∀ c ∈ Duration.formatVTT t, timeChar c = true) ∧ smallNumbers (Duration.formatVTT t) = true ∧
    Duration.parseVTT (Duration.formatVTT t) = some (t - t % 1000000) := by
  obtain ⟨h, m, s, f, hh, hm, hs, hf, hfmt, _⟩ := C16.format_shape3 t '.' h0 h1
  have hF : Duration.formatVTT t = C16.canon3 h m s f '.' := hfmt
  refine ⟨?_, ?_, C16.vtt_roundtrip t h0 h1⟩
  · rw [hF]; exact timeChar_canon3 h m s f hh (by omega) (by omega) hf
  · rw [hF]; simpa using smallNumbers_canon3 h m s f hh (by omega) (by omega) hf [] (Or.inl rfl)

/-- the header line for a rendered instant `F` and a tick count `m` -/
def tsLine (F m : Str) : Str := "X-TIMESTAMP-MAP=LOCAL:".toList ++ F ++ ",MPEGTS:".toList ++ m

theorem tsLine_eq (F m : Str) :
    tsLine F m = "X-TIMESTAMP-MAP".toList ++ '=' :: ("LOCAL".toList ++ ':' :: F ++ ',' :: ("MPEGTS".toList ++ ':' :: m)) := by
  have a : "X-TIMESTAMP-MAP=LOCAL:".toList = "X-TIMESTAMP-MAP".toList ++ '=' :: "LOCAL".toList ++ [':'] := rfl
  have b : ",MPEGTS:".toList = ',' :: "MPEGTS".toList ++ [':'] := rfl
  unfold tsLine
  rw [a, b]
  simp only [List.append_assoc, List.cons_append, List.nil_append]

theorem tsLine_plain (F m : Str) (hF : ∀ c ∈ F, timeChar c = true) (hm : ∀ c ∈ m, signDig c = true) :
    ∀ c ∈ "LOCAL".toList ++ ':' :: F ++ ',' :: ("MPEGTS".toList ++ ':' :: m), c ≠ ',' → plainC c = true := by
  intro c hc hne
  simp only [mem_append, mem_cons] at hc
  rcases hc with (hc | rfl | hc) | rfl | hc | rfl | hc
  · exact (show ∀ c ∈ "LOCAL".toList, plainC c = true by decide) c hc
  · decide
  · exact plainC_of_time (hF c hc)
  · exact absurd rfl hne
  · exact (show ∀ c ∈ "MPEGTS".toList, plainC c = true by decide) c hc
  · decide
  · exact plainC_of_sign (hm c hc)

theorem parseTsMap_tsLine (F m : Str) (lv mv : Int) (hF : ∀ c ∈ F, timeChar c = true) (hm : ∀ c ∈ m, signDig c = true)
    (hsm : smallNumbers F = true) (hp : Duration.parseVTT F = some lv) (ha : atoi m = some mv) :
    parseTsMap (tsLine F m) = .ok (lv, mv) := by
  have hpl := tsLine_plain F m hF hm
  have hFp : ∀ c ∈ F, plainC c = true := fun c hc => plainC_of_time (hF c hc)
  have hmp : ∀ c ∈ m, plainC c = true := fun c hc => plainC_of_sign (hm c hc)
  have e1 : splitC '=' (tsLine F m)
      = ["X-TIMESTAMP-MAP".toList, "LOCAL".toList ++ ':' :: F ++ ',' :: ("MPEGTS".toList ++ ':' :: m)] := by
    rw [tsLine_eq, splitC_kv '=' _ _ (by decide)]
    intro hc
    by_cases hcomma : ('=' : Char) = ','
    · exact absurd hcomma (by decide)
    · exact (plainC_spec (hpl _ hc hcomma)).2.2.1 rfl
  have e2 : splitC ',' ("LOCAL".toList ++ ':' :: F ++ ',' :: ("MPEGTS".toList ++ ':' :: m))
      = ["LOCAL".toList ++ ':' :: F, "MPEGTS".toList ++ ':' :: m] := by
    apply splitC_kv
    · intro hc
      simp only [mem_append, mem_cons] at hc
      rcases hc with hc | hc | hc
      · revert hc; decide
      · revert hc; decide
      · exact (plainC_spec (hFp _ hc)).2.2.2 rfl
    · intro hc
      simp only [mem_append, mem_cons] at hc
      rcases hc with hc | hc | hc
      · revert hc; decide
      · revert hc; decide
      · exact (plainC_spec (hmp _ hc)).2.2.2 rfl
  have k1 : toLowerAscii (trimSpace "LOCAL".toList) = "local".toList := by decide
  have k2 : toLowerAscii (trimSpace "MPEGTS".toList) = "mpegts".toList := by decide
  have k3 : ("mpegts".toList = "local".toList) = False := by decide
  unfold parseTsMap
  rw [e1]
  simp only [e2]
  rw [tsParts, splitOnce_colon _ _ (by decide)]
  simp only [k1, hsm, hp, Bool.not_true, Bool.false_eq_true, if_false, if_true]
  rw [tsParts, splitOnce_colon _ _ (by decide)]
  simp only [k2, k3, if_false, if_true, parseInt, ha]
  rfl

/-- **Timestamp map.** outside any block and before any cue text, the header line sets the map -/
theorem step_tsLine (st : St) (F m : Str) (lv mv : Int) (hF : ∀ c ∈ F, timeChar c = true)
    (hm : ∀ c ∈ m, signDig c = true) (hsm : smallNumbers F = true) (hp : Duration.parseVTT F = some lv)
    (ha : atoi m = some mv) (hb : st.block = .none) (hl : st.cur.lines = []) :
    step st (some (tsLine F m)) = .ok { st with tsmap := some (lv, mv) } := by
  have hparse := parseTsMap_tsLine F m lv mv hF hm hsm hp ha
  have hpl := tsLine_plain F m hF hm
  have hall : ∀ c ∈ tsLine F m, isSpace c = false ∧ c ≠ '>' := by
    intro c hc
    rw [tsLine_eq] at hc
    rcases mem_append.mp hc with hc' | hc
    · exact (show ∀ c ∈ "X-TIMESTAMP-MAP".toList, isSpace c = false ∧ c ≠ '>' by decide) c hc'
    · rcases mem_cons.mp hc with rfl | hc
      · decide
      · by_cases hcomma : c = ','
        · subst hcomma; decide
        · exact ⟨(plainC_spec (hpl c hc hcomma)).1, (plainC_spec (hpl c hc hcomma)).2.1⟩
  have htrim : trimSpace (tsLine F m) = tsLine F m := trimSpace_id (fun c hc => (hall c hc).1)
  have harrow : Go.contains arrow (tsLine F m) = false := contains_arrow_noGt (fun hc => (hall _ hc).2 rfl)
  have hX : tsLine F m = 'X' :: ("-TIMESTAMP-MAP=LOCAL:".toList ++ F ++ ",MPEGTS:".toList ++ m) := rfl
  have t1 : (tsLine F m = "NOTE".toList) = False := by
    apply eq_false; rw [hX]; intro e; exact absurd (List.cons.inj e).1 (by decide)
  have t2 : hasPrefix "NOTE ".toList (tsLine F m) = false := by rw [hX]; exact hasPrefix_ne _ _ (by decide)
  have t3 : (tsLine F m = ([] : Str)) = False := by apply eq_false; rw [hX]; intro e; cases e
  have t4 : hasPrefix "Region: ".toList (tsLine F m) = false := by rw [hX]; exact hasPrefix_ne _ _ (by decide)
  have t5 : hasPrefix "STYLE".toList (tsLine F m) = false := by rw [hX]; exact hasPrefix_ne _ _ (by decide)
  have t6 : hasPrefix "X-TIMESTAMP-MAP".toList (tsLine F m) = true := by
    rw [tsLine_eq]; unfold hasPrefix; rw [dropPrefix?_append]; rfl
  unfold step
  simp only [htrim, t1, t2, t3, t4, t5, t6, harrow, hparse, hb, hl, Bool.or_self, Bool.and_false, Bool.false_eq_true,
    ↓reduceIte, reduceCtorEq, decide_false, ne_eq, not_false_eq_true, decide_true, Bool.and_self,
    List.isEmpty_nil, Bool.not_true]

/-! ### what `Atoi` accepts is made of sign and digits -/

theorem digitsVal_dig : ∀ (cs : Str) (acc n : Nat), digitsVal cs acc = some n → ∀ c ∈ cs, isDig c = true := by
  intro cs
  induction cs with
  | nil => intro _ _ _ c hc; cases hc
  | cons x xs ih =>
    intro acc n h c hc
    unfold digitsVal at h
    cases hd : digitVal x with
    | none => rw [hd] at h; cases h
    | some d =>
      rw [hd] at h
      rcases mem_cons.mp hc with rfl | hc
      · unfold digitVal at hd
        split at hd
        · rename_i hx; simp only [isDig, Bool.and_eq_true, decide_eq_true_eq]; exact hx
        · cases hd
      · exact ih _ _ h c hc

theorem parseDigits_dig {s : Str} {n : Nat} (h : parseDigits s = some n) : ∀ c ∈ s, isDig c = true := by
  unfold parseDigits at h
  split at h
  · cases h
  · exact digitsVal_dig s 0 n h

theorem atoi_signDig {m : Str} (h : (atoi m).isSome = true) : ∀ c ∈ m, signDig c = true := by
  unfold atoi at h
  split at h
  · rename_i r
    cases hp : parseDigits r with
    | none => rw [hp] at h; cases h
    | some v =>
      intro c hc
      rcases mem_cons.mp hc with rfl | hc
      · decide
      · simp [signDig, parseDigits_dig hp c hc]
  · rename_i r
    cases hp : parseDigits r with
    | none => rw [hp] at h; cases h
    | some v =>
      intro c hc
      rcases mem_cons.mp hc with rfl | hc
      · decide
      · simp [signDig, parseDigits_dig hp c hc]
  · cases hp : parseDigits m with
    | none => rw [hp] at h; cases h
    | some v =>
      intro c hc
      simp [signDig, parseDigits_dig hp c hc]

end VTT
end Astisub
