import Astisub.Lemmas.TeleView

/-!
# Lemmas/TeleBoxed — the simplest rows: one start box, no colour / size / end-box code

`C06_row_text` (model side) generalised to the specification's side: both read the same character codes
(`textCodes` of the cells after the start box) as the only run of the row.
-/

namespace Astisub
namespace Teletext
open Go Generated.Teletext
open Spec.Teletext (cell Run Attr)

/-- a cell that is no colour, box or size code: a parity failure, or a value from 0x10 on -/
def Plain (x : Option Nat) : Prop := ∀ v, x = some v → 0x10 ≤ v

instance (x : Option Nat) : Decidable (Plain x) := by
  cases x with
  | none => exact isTrue (fun v h => by cases h)
  | some w => exact decidable_of_iff (0x10 ≤ w) ⟨fun h v hv => by cases hv; exact h, fun h => h w rfl⟩

/-- the character codes (0x20 and above) among received cells -/
def textCodes (cs : List (Option Nat)) : List Nat :=
  cs.filterMap fun x => match x with
    | some v => if 0x20 ≤ v then some v else none
    | none => none

theorem cell_plain_unboxed (s : Spec.Teletext.RowSt) (x : Option Nat) (hx : Plain x) (hs : s.boxed = false) : cell s x = s := by
  cases x with
  | none => rfl
  | some v =>
    have hv := hx v rfl
    by_cases h20 : v < 0x20
    · exact cell_low s v (by omega) (by omega) h20
    · rw [cell_char s v (by omega), hs]; rfl

theorem cell_plain_boxed (s : Spec.Teletext.RowSt) (x : Option Nat) (hx : Plain x) (hs : s.boxed = true) :
    cell s x = { s with cur := { s.cur with codes := s.cur.codes ++ textCodes [x] } } := by
  cases x with
  | none => simp [cell_none, textCodes]
  | some v =>
    have hv := hx v rfl
    by_cases h20 : v < 0x20
    · rw [cell_low s v (by omega) (by omega) h20]
      have : ¬ 0x20 ≤ v := by omega
      simp [textCodes, this]
    · rw [cell_char s v (by omega), hs]
      have : 0x20 ≤ v := by omega
      simp [textCodes, this]

theorem foldl_cell_unboxed : ∀ (cs : List (Option Nat)) (s : Spec.Teletext.RowSt), (∀ x ∈ cs, Plain x) → s.boxed = false →
    cs.foldl cell s = s
  | [], _, _, _ => rfl
  | x :: cs, s, h, hs => by
    rw [List.foldl_cons, cell_plain_unboxed s x (h x (by simp)) hs]
    exact foldl_cell_unboxed cs s (fun y hy => h y (by simp [hy])) hs

theorem textCodes_cons (x : Option Nat) (cs : List (Option Nat)) : textCodes (x :: cs) = textCodes [x] ++ textCodes cs := by
  simp only [textCodes, List.filterMap_cons, List.filterMap_nil]
  split <;> simp

theorem foldl_cell_boxed : ∀ (cs : List (Option Nat)) (s : Spec.Teletext.RowSt), (∀ x ∈ cs, Plain x) → s.boxed = true →
    cs.foldl cell s = { s with cur := { s.cur with codes := s.cur.codes ++ textCodes cs } }
  | [], s, _, _ => by simp [textCodes]
  | x :: cs, s, h, hs => by
    rw [List.foldl_cons, cell_plain_boxed s x (h x (by simp)) hs]
    have hs' : ({ s with cur := { s.cur with codes := s.cur.codes ++ textCodes [x] } } : Spec.Teletext.RowSt).boxed = true := hs
    rw [foldl_cell_boxed cs _ (fun y hy => h y (by simp [hy])) hs', textCodes_cons x cs]
    simp [List.append_assoc]

/-- the specification on a row with one start box and otherwise plain cells: one run, default attributes, holding the
    character codes after the start box (no run at all when they are all blanks) -/
theorem rowRuns_boxed (pre cs : List (Option Nat)) (hp : ∀ x ∈ pre, Plain x) (hc : ∀ x ∈ cs, Plain x) :
    Spec.Teletext.rowRuns (pre ++ some 0xb :: cs) =
      some (if (textCodes cs).any (· != 0x20) then [{ attr := {}, codes := textCodes cs }] else []) := by
  rw [rowRuns_specRuns]
  unfold specRuns
  rw [List.foldl_append, foldl_cell_unboxed pre _ hp rfl, List.foldl_cons, cell_startBox, foldl_cell_boxed cs _ hc rfl]
  simp [List.filter_cons]

theorem flatMap_stored (c : Charset) : ∀ (cs : List (Option Nat)), CellsOK cs →
    (cs.map storedCell).flatMap (decodeChar c) = dec c (textCodes cs)
  | [], _ => rfl
  | x :: cs, h => by
    have ih := flatMap_stored c cs (fun y hy => h y (by simp [hy]))
    rw [textCodes_cons x cs]
    simp only [List.map_cons, List.flatMap_cons, ih, dec, List.flatMap_append]
    congr 1
    cases x with
    | none => simp [storedCell, textCodes, decodeChar, invalidChar]
    | some v =>
      have hv := h (some v) (by simp) v rfl
      by_cases h20 : 0x20 ≤ v
      · simp [storedCell, textCodes, h20]
      · have : v < 0x20 := by omega
        simp [storedCell, textCodes, h20, decodeChar, this]

/-- the model on the same row: one item holding the same codes decoded in `c` -/
theorem parseRow_boxed (c : Charset) (pre cs : List (Option Nat)) (hp : ∀ x ∈ pre, Plain x) (hc : ∀ x ∈ cs, Plain x)
    (hx : CellsOK cs) :
    parseRow c ((pre ++ some 0xb :: cs).map storedCell) =
      (let items := appendItem [] (dec c (textCodes cs)) {}
       if items.isEmpty then none else some { items := items }) := by
  have hstored : ∀ (l : List (Option Nat)), (∀ x ∈ l, Plain x) → ∀ v ∈ l.map storedCell, 0x10 ≤ v := by
    intro l hl v hv
    obtain ⟨x, hxm, e⟩ := List.mem_map.mp hv
    cases x with
    | none => rw [← e]; decide
    | some w => rw [← e]; exact hl _ hxm w rfl
  rw [List.map_append, List.map_cons]
  show parseRow c (pre.map storedCell ++ 0xb :: cs.map storedCell) = _
  rw [C06.C06_row_text c _ _ (hstored pre hp) (hstored cs hc), flatMap_stored c cs hx]

end Teletext
end Astisub
