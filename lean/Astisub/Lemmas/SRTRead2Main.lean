import Astisub.Lemmas.SRTRead2First

/-!
# Lemmas/SRTRead2Main — assembly: `SRT.read` on the lines of a text against `Spec.SRT.decode`
-/

namespace Astisub
namespace SRTRead2
open Go SRT SRTDoc
open Spec.SRT (GRun GCue Sty runsOf tagAt cueLines timing timeMs decodeBlock)

/-! ## the accumulator of the decoder's line splitter -/

theorem splitLines_acc : ∀ (rest acc : Str),
    Spec.SRT.splitLines rest acc = match Spec.SRT.splitLines rest [] with
      | [] => if acc.isEmpty then [] else [acc.reverse]
      | l :: ls => (acc.reverse ++ l) :: ls := by
  intro rest
  induction rest with
  | nil => intro acc; simp [splitLines_nil]
  | cons c r ih =>
    intro acc
    by_cases h1 : c = '\n'
    · subst h1; simp [splitLines_lf]
    · by_cases h2 : c = '\r'
      · subst h2
        cases r with
        | nil => simp [splitLines_cr_end]
        | cons d r' =>
          by_cases h3 : d = '\n'
          · subst h3; simp [splitLines_crlf]
          · simp [splitLines_cr_other d r' _ h3]
      · rw [splitLines_char c r acc h1 h2, splitLines_char c r [] h1 h2, ih (c :: acc), ih [c]]
        cases Spec.SRT.splitLines r [] with
        | nil => simp
        | cons l ls => simp

/-- a character that is not a line break in front of a text goes in front of its first line -/
theorem splitLines_cons_plain (c : Char) (rest : Str) (h1 : c ≠ '\n') (h2 : c ≠ '\r') :
    Spec.SRT.splitLines (c :: rest) [] = match Spec.SRT.splitLines rest [] with
      | [] => [[c]]
      | l :: ls => (c :: l) :: ls := by
  rw [splitLines_char c rest [] h1 h2, splitLines_acc rest [c]]
  cases Spec.SRT.splitLines rest [] with
  | nil => rfl
  | cons l ls => rfl

/-! ## decoder lines and reader lines -/

theorem read_modelled {lines : List (Option Str)} (h : read lines ≠ .unmodelled) : run {} lines ≠ .unmodelled := by
  intro e; apply h; rw [read_eq, e]

theorem prepLine_bom : prepLine 0 [bomC] = [] := by decide

/-- **Core.** decoder lines `DL`, reader lines `ML`: the same lines, except that the first may differ as
    `HeadRel` allows (and a lone byte order mark is an empty document for the decoder) -/
theorem read_core (DL ML : List Str) (cues : List GCue)
    (hrel : (DL = [] ∧ (ML = [] ∨ ML = [[bomC]])) ∨
      ∃ l l' ls, DL = l :: ls ∧ ML = l' :: ls ∧ HeadRel (trimSpace l) (prepLine 0 l'))
    (hdec : Spec.SRT.mapM decodeBlock (Spec.SRT.blocks DL) = some cues) (hr : ∀ c ∈ cues, InRangeCue c)
    (hm : read (ML.map some) ≠ .unmodelled) :
    ∃ s, read (ML.map some) = .ok s ∧ Driver.srtView s = some cues := by
  have hm' := read_modelled hm
  rw [read_eq]
  rcases hrel with ⟨rfl, rfl | rfl⟩ | ⟨l, l', ls, rfl, rfl, hh⟩
  · have : cues = [] := by
      simp only [Spec.SRT.blocks, Spec.SRT.blocks.go, List.isEmpty_nil, ↓reduceIte, Spec.SRT.mapM,
        Option.some.injEq] at hdec
      exact hdec.symm
    subst this
    exact ⟨finish {}, rfl, good_finish good_init⟩
  · have : cues = [] := by
      simp only [Spec.SRT.blocks, Spec.SRT.blocks.go, List.isEmpty_nil, ↓reduceIte, Spec.SRT.mapM,
        Option.some.injEq] at hdec
      exact hdec.symm
    subst this
    rw [run_first, List.map_nil, prepLine_bom]
    obtain ⟨st1, hstep, hg1⟩ := good_blank good_init
    rw [runG_cons_ok _ hstep]
    exact ⟨finish st1, rfl, good_finish hg1⟩
  · rw [run_first] at hm' ⊢
    have hdec' : Spec.SRT.mapM decodeBlock (Spec.SRT.blocks.go ((l :: ls).map trimSpace) []) = some cues := by
      rw [← go_map_trim]; exact hdec
    obtain ⟨st', n', hrun, hg⟩ := main_go ((l :: ls).map trimSpace).length ((l :: ls).map trimSpace)
      (prepLine 0 l' :: ls.map trimSpace) (Nat.le_refl _)
      (by intro x hx; obtain ⟨y, _, rfl⟩ := List.mem_map.mp hx; exact trimSpace_idem y)
      (Or.inr ⟨trimSpace l, prepLine 0 l', ls.map trimSpace, rfl, rfl, hh⟩)
      {} [] 0 good_init (Or.inl rfl) cues hdec' hr hm'
    rw [hrun]
    exact ⟨finish st', rfl, by simpa using good_finish hg⟩

/-- **The read clause on the lines of a text.**  If the independent decoder accepts `text` as the cues
    `cues` (all hours fields within Go's `int`), and the reader model is defined on the lines of `text`
    (the HTML tokenizer model answers on every line), then the reader model succeeds and the view of
    its result is exactly `cues` -/
theorem read_decode_text (text : Str) (cues : List GCue) (h : Spec.SRT.decode text = some cues)
    (hr : ∀ c ∈ cues, InRangeCue c) (hm : read ((Spec.SRT.splitLines text []).map some) ≠ .unmodelled) :
    ∃ s, read ((Spec.SRT.splitLines text []).map some) = .ok s ∧ Driver.srtView s = some cues := by
  unfold Spec.SRT.decode at h
  by_cases hb : ∃ rest, text = bomC :: rest
  · obtain ⟨rest, rfl⟩ := hb
    have hd : Spec.SRT.mapM decodeBlock (Spec.SRT.blocks (Spec.SRT.splitLines rest [])) = some cues := by
      simpa [bomC] using h
    have hsplit := splitLines_cons_plain bomC rest (by decide) (by decide)
    apply read_core (Spec.SRT.splitLines rest []) _ cues ?_ hd hr hm
    rw [hsplit]
    cases hL : Spec.SRT.splitLines rest [] with
    | nil => exact Or.inl ⟨rfl, Or.inr rfl⟩
    | cons l ls =>
      refine Or.inr ⟨l, bomC :: l, ls, rfl, rfl, ?_⟩
      exact headRel_bom l
  · have hd : Spec.SRT.mapM decodeBlock (Spec.SRT.blocks (Spec.SRT.splitLines text [])) = some cues := by
      cases text with
      | nil => exact h
      | cons c rest =>
        have : ¬ (c = Char.ofNat 0xFEFF) := fun e => hb ⟨rest, by rw [e]; rfl⟩
        simpa [this] using h
    apply read_core (Spec.SRT.splitLines text []) _ cues ?_ hd hr hm
    cases hL : Spec.SRT.splitLines text [] with
    | nil => exact Or.inl ⟨rfl, Or.inl rfl⟩
    | cons l ls =>
      refine Or.inr ⟨l, l, ls, rfl, rfl, ?_⟩
      exact headRel_strip (trimSpace l)

end SRTRead2
end Astisub
