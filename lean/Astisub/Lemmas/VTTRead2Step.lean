import Astisub.Lemmas.VTTRead2Defs
import Astisub.Lemmas.SSAStr

/-!
# Lemmas/VTTRead2Step — one iteration of the reader's loop, by the kind of line

Every lemma is for an arbitrary reader state and an arbitrary line satisfying the stated tests
(the tests the Go `switch` makes, in its order).
-/

namespace Astisub
namespace VTTRead
open Go Spec.VTT
open VTT (St step run Block)

theorem trimSpace_idem (s : Str) : trimSpace (trimSpace s) = trimSpace s :=
  Go.trimSpace_of_trimmed (Go.trimmed_trimSpace s)

/-- the reader only looks at the trimmed line -/
theorem step_trim (st : St) (raw : Str) : step st (some raw) = step st (some (trimSpace raw)) := by
  simp only [step, trimSpace_idem]

theorem run_trim (st : St) (ls : List Str) : run st (ls.map some) = run st ((ls.map trimSpace).map some) := by
  induction ls generalizing st with
  | nil => rfl
  | cons l ls ih =>
    simp only [List.map_cons, run]
    rw [step_trim]
    cases step st (some (trimSpace l)) with
    | ok st' => exact ih st'
    | err => rfl
    | unmodelled => rfl

theorem run_append (st : St) (a b : List (Option Str)) :
    run st (a ++ b) = match run st a with
      | .ok st' => run st' b
      | .err => .err
      | .unmodelled => .unmodelled := by
  induction a generalizing st with
  | nil => rfl
  | cons x a ih =>
    simp only [List.cons_append, run]
    cases step st x with
    | ok st' => exact ih st'
    | err => rfl
    | unmodelled => rfl

theorem lit_note : "NOTE".toList = ['N', 'O', 'T', 'E'] := rfl
theorem lit_note_sp : "NOTE ".toList = ['N', 'O', 'T', 'E', ' '] := rfl
theorem lit_region : "Region: ".toList = ['R', 'e', 'g', 'i', 'o', 'n', ':', ' '] := rfl
theorem lit_style : "STYLE".toList = ['S', 'T', 'Y', 'L', 'E'] := rfl
theorem lit_tsmap : "X-TIMESTAMP-MAP".toList = ['X', '-', 'T', 'I', 'M', 'E', 'S', 'T', 'A', 'M', 'P', '-', 'M', 'A', 'P'] := rfl

/-- the tests on the first characters the loop makes -/
def noteTest (l : Str) : Bool := l = "NOTE".toList || hasPrefix "NOTE ".toList l

/-- a blank line -/
theorem step_blank (st : St) (raw : Str) (h : trimSpace raw = []) :
    step st (some raw) =
      .ok { st with block := if (st.block = .style && !st.styles.isEmpty && !(hasSuffix ['}'] (st.styles.getLast?.getD []))) then st.block else .none,
                    tags := [] } := by
  have e2 : hasPrefix ['N', 'O', 'T', 'E', ' '] [] = false := by decide
  simp [step, h, e2]

/-- a line of cue text -/
theorem step_text (st : St) (l : Str) (ht : trimSpace l = l) (hne : l ≠ []) (hb : st.block = .text)
    (ha : contains VTT.arrow l = false) :
    step st (some l) =
      match VTT.parseText l st.tags with
      | .ok (tags, ln) =>
        .ok { st with tags := tags, cur := if ln.items.isEmpty then st.cur else { st.cur with lines := st.cur.lines ++ [ln] } }
      | .err => .err
      | .unmodelled => .unmodelled := by
  simp only [step, ht, hb]
  simp [hne, ha]
  rfl

/-- an identifier line -/
theorem step_id (st : St) (l : Str) (ht : trimSpace l = l) (hne : l ≠ []) (hb : st.block = .none)
    (hn : noteTest l = false) (hr : hasPrefix "Region: ".toList l = false) (hs : hasPrefix "STYLE".toList l = false)
    (hx : hasPrefix "X-TIMESTAMP-MAP".toList l = false) (ha : contains VTT.arrow l = false) :
    step st (some l) = .ok { st with index := atoiLoose l } := by
  simp only [noteTest, Bool.or_eq_false_iff, decide_eq_false_iff_not, lit_note, lit_note_sp] at hn
  try simp only [lit_region, lit_style, lit_tsmap] at *
  simp [step, ht, hne, hb, hn.1, hn.2, hr, hs, hx, ha]

/-- the first line of a comment, and a `NOTE …` line inside a comment -/
theorem step_note (st : St) (l : Str) (ht : trimSpace l = l) (hb : st.block ≠ .text) (hn : noteTest l = true) :
    step st (some l) =
      .ok { st with block := .comment,
                    comments := if l = "NOTE".toList then st.comments else st.comments ++ [trimPrefix "NOTE ".toList l] } := by
  simp only [noteTest, Bool.or_eq_true, decide_eq_true_eq, lit_note, lit_note_sp] at hn
  simp [step, ht, hb, hn]

/-- a further line of a comment -/
theorem step_comment (st : St) (l : Str) (ht : trimSpace l = l) (hne : l ≠ []) (hb : st.block = .comment)
    (hn : noteTest l = false) (ha : contains VTT.arrow l = false) :
    step st (some l) = .ok { st with comments := st.comments ++ [l] } := by
  simp only [noteTest, Bool.or_eq_false_iff, decide_eq_false_iff_not, lit_note, lit_note_sp] at hn
  try simp only [lit_region, lit_style, lit_tsmap] at *
  simp [step, ht, hne, hb, hn.1, hn.2, ha]

/-- the `STYLE` line -/
theorem step_style (st : St) (l : Str) (ht : trimSpace l = l) (hne : l ≠ []) (hb : st.block = .none)
    (hn : noteTest l = false) (hr : hasPrefix "Region: ".toList l = false) (hs : hasPrefix "STYLE".toList l = true) :
    step st (some l) =
      if st.styleSeen then .ok { st with block := .style }
      else .ok { st with block := .style, styleSeen := true, tags := [], styles := [] } := by
  simp only [noteTest, Bool.or_eq_false_iff, decide_eq_false_iff_not, lit_note, lit_note_sp] at hn
  try simp only [lit_region, lit_style, lit_tsmap] at *
  simp [step, ht, hne, hb, hn.1, hn.2, hr, hs]

/-- a line of CSS -/
theorem step_css (st : St) (l : Str) (ht : trimSpace l = l) (hne : l ≠ []) (hb : st.block = .style)
    (hn : noteTest l = false) (hr : hasPrefix "Region: ".toList l = false) (hs : hasPrefix "STYLE".toList l = false)
    (hx : hasPrefix "X-TIMESTAMP-MAP".toList l = false) (ha : contains VTT.arrow l = false) :
    step st (some l) = .ok { st with styles := st.styles ++ [l] } := by
  simp only [noteTest, Bool.or_eq_false_iff, decide_eq_false_iff_not, lit_note, lit_note_sp] at hn
  try simp only [lit_region, lit_style, lit_tsmap] at *
  simp [step, ht, hne, hb, hn.1, hn.2, hr, hs, hx, ha]

/-- a region definition -/
theorem step_region (st : St) (l : Str) (ht : trimSpace l = l) (hne : l ≠ []) (hb : st.block = .none)
    (hn : noteTest l = false) (hr : hasPrefix "Region: ".toList l = true) :
    step st (some l) =
      match VTT.regionParts (splitC ' ' (trimPrefix "Region: ".toList l)) {} with
      | some r => .ok { st with regions := VTT.setDef st.regions (VTT.regionDef r) }
      | none => .err := by
  simp only [noteTest, Bool.or_eq_false_iff, decide_eq_false_iff_not, lit_note, lit_note_sp] at hn
  try simp only [lit_region, lit_style, lit_tsmap] at *
  simp [step, ht, hne, hb, hn.1, hn.2, hr]
  rfl

/-- the timestamp map -/
theorem step_tsmap (st : St) (l : Str) (ht : trimSpace l = l) (hne : l ≠ []) (hb : st.block = .none)
    (hn : noteTest l = false) (hr : hasPrefix "Region: ".toList l = false) (hs : hasPrefix "STYLE".toList l = false)
    (ha : contains VTT.arrow l = false) (hx : hasPrefix "X-TIMESTAMP-MAP".toList l = true)
    (hl : st.cur.lines = []) :
    step st (some l) =
      match VTT.parseTsMap l with
      | .ok m => .ok { st with tsmap := some m }
      | .err => .err
      | .unmodelled => .unmodelled := by
  simp only [noteTest, Bool.or_eq_false_iff, decide_eq_false_iff_not, lit_note, lit_note_sp] at hn
  try simp only [lit_region, lit_style, lit_tsmap] at *
  simp [step, ht, hne, hb, hn.1, hn.2, hr, hs, hx, ha, hl]
  rfl

/-- a timing line -/
theorem step_timing (st : St) (l left right endTok : Str) (rest : List Str) (tl : List Str)
    (ht : trimSpace l = l) (hne : l ≠ [])
    (hb : st.block = .none) (hn : noteTest l = false)
    (hr : hasPrefix "Region: ".toList l = false) (hs : hasPrefix "STYLE".toList l = false)
    (ha : contains VTT.arrow l = true)
    (hsp : splitOn VTT.arrow l = left :: right :: tl) (hf : fields right = endTok :: rest) :
    step st (some l) =
      if !VTT.smallNumbers left || !VTT.smallNumbers endTok then .unmodelled else
      match Duration.parseVTT left, Duration.parseVTT endTok with
      | some s, some e =>
        match VTT.settings st.regions rest {} with
        | none => .err
        | some a =>
          .ok { st with done := VTT.flush st,
                        cur := { index := st.index, startAt := s, endAt := e, region := a.region,
                                 comments := st.comments, lines := [],
                                 attrs := some (mkAttrs [("WebVTTAlign", optStr a.align), ("WebVTTLine", optStr a.line),
                                   ("WebVTTPosition", optStr a.position), ("WebVTTSize", optStr a.size),
                                   ("WebVTTVertical", optStr a.vertical)]) },
                        curListed := true, block := .text, index := 0, comments := [] }
      | _, _ => .err := by
  simp only [noteTest, Bool.or_eq_false_iff, decide_eq_false_iff_not, lit_note, lit_note_sp] at hn
  simp only [lit_region, lit_style] at *
  simp only [step, ht]
  simp [hne, hb, hn.1, hn.2, hr, hs, ha, hsp, hf]
  rfl

end VTTRead
end Astisub
