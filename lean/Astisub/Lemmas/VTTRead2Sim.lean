import Astisub.Lemmas.VTTRead2Note

/-!
# Lemmas/VTTRead2Sim — the simulation relation between the decoder's document state and the
reader's loop state, and the comment / STYLE blocks
-/

namespace Astisub
namespace VTTRead
open Go Spec.VTT
open VTT (St step run Block)

theorem arrow_eq : VTT.arrow = Spec.VTT.arrow := rfl

/-- a cue as the reader keeps it: text lines without any run are not kept -/
def slim (g : GCue) : GCue := { g with lines := g.lines.filter fun l => !l.runs.isEmpty }

/-- the reader's state `ms` holds what the decoder's state `ds` holds -/
structure R (ds : DocSt) (ms : St) : Prop where
  cues : mapM cueView (VTT.flush ms) = some (ds.cues.map slim)
  regions : ms.regions.map regionView = ds.regions
  styles : ms.styles = ds.styles
  seen : ms.styleSeen = false → ms.styles = []
  closed : ∀ l, ms.styles.getLast? = some l → hasSuffix ['}'] l = true
  tsmap : ms.tsmap = ds.tsmap
  comments : ms.comments = ds.comments
  index : ms.index = 0
  fresh : ms.curListed = false → ms.cur.lines = []

/-- between two blocks -/
def Between (ms : St) : Prop := ms.block = .none ∧ ms.tags = []

/-- the blank line after a block -/
theorem step_blank_R {ds : DocSt} {ms : St} (hR : R ds ms) (raw : Str) (h : trimSpace raw = []) :
    ∃ ms', step ms (some raw) = .ok ms' ∧ R ds ms' ∧ Between ms' := by
  have hk : (ms.block = .style && !ms.styles.isEmpty && !(hasSuffix ['}'] (ms.styles.getLast?.getD []))) = false := by
    cases hl : ms.styles.getLast? with
    | none =>
      have : ms.styles = [] := by simpa using hl
      simp [this]
    | some l => simp [hR.closed l hl]
  refine ⟨_, step_blank ms raw h, ?_, ?_⟩
  · rw [hk]
    exact ⟨hR.cues, hR.regions, hR.styles, hR.seen, hR.closed, hR.tsmap, hR.comments, hR.index, hR.fresh⟩
  · rw [hk]; exact ⟨rfl, rfl⟩

/-! ### comment blocks -/

def noteMore (l : Str) : Str := match noteLine l with | some c => c | none => l

theorem run_comment_lines (rest : List Str) : ∀ (st : St), st.block = .comment →
    (∀ l ∈ rest, BLine l) → (∀ l ∈ rest, noteOK l = true) →
    (∀ l ∈ rest, contains Spec.VTT.arrow (noteMore l) = false ∧ noteMore l ≠ []) →
    run st (rest.map some) = .ok { st with comments := st.comments ++ rest.map noteMore } := by
  induction rest with
  | nil => intro st _ _ _ _; simp [run]
  | cons l rest ih =>
    intro st hb hl hok hg
    have hl0 := hl l (by simp)
    have hg0 := hg l (by simp)
    simp only [List.map_cons, run]
    have key : step st (some l) = .ok { st with comments := st.comments ++ [noteMore l] } := by
      unfold noteMore at hg0 ⊢
      cases hn : noteLine l with
      | some c =>
        rw [hn] at hg0
        obtain ⟨ht, hc⟩ := noteLine_some hl0 (hok l (by simp)) hn
        rcases hc with ⟨_, hc⟩ | ⟨hne, _, htp⟩
        · exact absurd hc hg0.2
        · rw [step_note st l hl0.1 (by rw [hb]; decide) ht, if_neg hne, htp]
          cases st; simp_all
      | none =>
        rw [hn] at hg0
        rw [step_comment st l hl0.1 hl0.2 hb (noteLine_none hn) (by rw [arrow_eq]; exact hg0.1)]
    rw [key]
    simp only
    rw [ih { st with comments := st.comments ++ [noteMore l] } hb (fun x hx => hl x (by simp [hx])) (fun x hx => hok x (by simp [hx])) (fun x hx => hg x (by simp [hx]))]
    simp [List.append_assoc]

/-- a comment block -/
theorem sim_note {ds ds' : DocSt} {ms : St} (hR : R ds ms) (hB : Between ms) (first : Str) (rest : List Str) (c : Str)
    (hl : ∀ l ∈ first :: rest, BLine l) (hok : ∀ l ∈ first :: rest, noteOK l = true)
    (hn : noteLine first = some c) (h : block ds (first :: rest) = some ds') :
    ∃ ms', run ms ((first :: rest).map some) = .ok ms' ∧ R ds' ms' := by
  simp only [block, hn] at h
  generalize hall : ((if c = [] then [] else [c]) ++ List.map (fun l => match noteLine l with | some c => c | none => l) rest) = all at h
  cases hany : all.any (fun l => contains Spec.VTT.arrow l || decide (l = [])) with
  | true => rw [hany] at h; simp at h
  | false =>
    rw [hany] at h
    simp only [Bool.false_eq_true, if_false, Option.some.injEq] at h
    subst h
    obtain ⟨ht, hc⟩ := noteLine_some (hl first (by simp)) (hok first (by simp)) hn
    have hgood : ∀ l ∈ rest, contains Spec.VTT.arrow (noteMore l) = false ∧ noteMore l ≠ [] := by
      intro l hlm
      have hmem : noteMore l ∈ all := by
        rw [← hall]; apply List.mem_append_right; exact List.mem_map.mpr ⟨l, hlm, rfl⟩
      have := List.any_eq_false.mp hany (noteMore l) hmem
      simp only [Bool.or_eq_true, decide_eq_true_eq, not_or] at this
      exact ⟨by simpa using this.1, this.2⟩
    simp only [List.map_cons, run]
    rw [step_note ms first (hl first (by simp)).1 (by rw [hB.1]; decide) ht]
    simp only
    rw [run_comment_lines rest _ rfl (fun x hx => hl x (by simp [hx])) (fun x hx => hok x (by simp [hx])) hgood]
    refine ⟨_, rfl, ?_⟩
    refine ⟨hR.cues, hR.regions, hR.styles, hR.seen, hR.closed, hR.tsmap, ?_, hR.index, hR.fresh⟩
    show (if first = "NOTE".toList then ms.comments else ms.comments ++ [trimPrefix "NOTE ".toList first]) ++ rest.map noteMore
      = ds.comments ++ all
    rw [hR.comments, ← hall]
    have e : List.map (fun l => match noteLine l with | some c => c | none => l) rest = rest.map noteMore := rfl
    rw [e]
    rcases hc with ⟨h1, h2⟩ | ⟨h1, h2, h3⟩
    · rw [if_pos h1, h2]; simp
    · rw [if_neg h1, h3, if_neg h2]; simp

/-! ### STYLE blocks -/

theorem opener_false {l : Str} (h : opener l = false) :
    noteTest l = false ∧ hasPrefix "STYLE".toList l = false ∧ hasPrefix "Region: ".toList l = false ∧
    hasPrefix "X-TIMESTAMP-MAP".toList l = false := by
  unfold opener at h
  simp only [Bool.or_eq_false_iff, decide_eq_false_iff_not] at h
  refine ⟨?_, h.1.1.2, h.1.2, h.2⟩
  unfold noteTest
  simp only [Bool.or_eq_false_iff, decide_eq_false_iff_not]
  exact ⟨h.1.1.1.1.1, h.1.1.1.1.2⟩

theorem run_css_lines (rest : List Str) : ∀ (st : St), st.block = .style →
    (∀ l ∈ rest, BLine l) → (∀ l ∈ rest, opener l = false ∧ contains Spec.VTT.arrow l = false) →
    run st (rest.map some) = .ok { st with styles := st.styles ++ rest } := by
  induction rest with
  | nil => intro st _ _ _; simp [run]
  | cons l rest ih =>
    intro st hb hl hg
    have hl0 := hl l (by simp)
    obtain ⟨ho, ha⟩ := hg l (by simp)
    obtain ⟨h1, h2, h3, h4⟩ := opener_false ho
    simp only [List.map_cons, run]
    rw [step_css st l hl0.1 hl0.2 hb h1 h3 h2 h4 (by rw [arrow_eq]; exact ha)]
    simp only
    rw [ih { st with styles := st.styles ++ [l] } hb (fun x hx => hl x (by simp [hx])) (fun x hx => hg x (by simp [hx]))]
    simp [List.append_assoc]

theorem getLast?_append_nil_or {α} (a b : List α) :
    (b = [] ∧ (a ++ b).getLast? = a.getLast?) ∨ (b ≠ [] ∧ (a ++ b).getLast? = b.getLast?) := by
  by_cases h : b = []
  · left; subst h; simp
  · right; exact ⟨h, getLast?_append_ne a b h⟩

/-- a STYLE block -/
theorem sim_style {ds ds' : DocSt} {ms : St} (hR : R ds ms) (hB : Between ms) (rest : List Str)
    (hl : ∀ l ∈ "STYLE".toList :: rest, BLine l)
    (h : block ds ("STYLE".toList :: rest) = some ds') :
    ∃ ms', run ms (("STYLE".toList :: rest).map some) = .ok ms' ∧ R ds' ms' := by
  have hn : noteLine "STYLE".toList = none := by decide
  simp only [block, hn, if_true] at h
  cases hany : rest.any (fun l => contains Spec.VTT.arrow l || opener l) with
  | true => rw [hany] at h; simp at h
  | false =>
    rw [hany] at h
    simp only [Bool.false_eq_true, if_false] at h
    have hg : ∀ l ∈ rest, opener l = false ∧ contains Spec.VTT.arrow l = false := by
      intro l hlm
      have := List.any_eq_false.mp hany l hlm
      simp only [Bool.or_eq_true, not_or, Bool.not_eq_true] at this
      exact ⟨this.2, this.1⟩
    have hl' : ∀ l ∈ rest, BLine l := fun x hx => hl x (by simp [hx])
    have hs0 := hl "STYLE".toList (by simp)
    simp only [List.map_cons, run]
    rw [step_style ms "STYLE".toList hs0.1 hs0.2 hB.1 (by decide) (by decide) (by decide)]
    -- the decoder's answer
    have hds : ds' = { ds with styles := ds.styles ++ rest } ∧
        (∀ l, rest.getLast? = some l → hasSuffix ['}'] l = true) := by
      cases hlast : rest.getLast? with
      | none =>
        rw [hlast] at h
        simp only [Option.some.injEq] at h
        have : rest = [] := by simpa using hlast
        subst this; subst h
        exact ⟨by simp, by intro l hl; cases hl⟩
      | some l =>
        rw [hlast] at h
        simp only at h
        by_cases hsx : hasSuffix ['}'] l = true
        · rw [if_pos hsx] at h
          simp only [Option.some.injEq] at h
          exact ⟨h.symm, by intro l' hl'; cases hl'; exact hsx⟩
        · rw [if_neg hsx] at h; cases h
    obtain ⟨hds1, hds2⟩ := hds
    subst hds1
    have hclosed : ∀ l, (ms.styles ++ rest).getLast? = some l → hasSuffix ['}'] l = true := by
      intro l hl
      rcases getLast?_append_nil_or ms.styles rest with ⟨_, e⟩ | ⟨_, e⟩
      · rw [e] at hl; exact hR.closed l hl
      · rw [e] at hl; exact hds2 l hl
    by_cases hseen : ms.styleSeen = true
    · rw [if_pos hseen]
      simp only
      rw [run_css_lines rest _ rfl hl' hg]
      refine ⟨_, rfl, ?_⟩
      exact ⟨hR.cues, hR.regions, by show ms.styles ++ rest = ds.styles ++ rest; rw [hR.styles],
        fun hf => by simp [hseen] at hf, hclosed, hR.tsmap, hR.comments, hR.index, hR.fresh⟩
    · rw [if_neg hseen]
      simp only
      rw [run_css_lines rest _ rfl hl' hg]
      refine ⟨_, rfl, ?_⟩
      have hs : ms.styles = [] := hR.seen (by simpa using hseen)
      have hds0 : ds.styles = [] := by rw [← hR.styles]; exact hs
      exact ⟨hR.cues, hR.regions, by show [] ++ rest = ds.styles ++ rest; rw [hds0],
        fun hf => by simp at hf, by simpa [hs] using hclosed, hR.tsmap, hR.comments, hR.index, hR.fresh⟩

end VTTRead
end Astisub
