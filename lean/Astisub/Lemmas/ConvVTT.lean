import Astisub.Lemmas.ConvView
import Astisub.Lemmas.SRTMerge
import Astisub.Lemmas.SRTBytes
import Astisub.Props.C02doc

/-!
# Lemmas/ConvVTT — conversion to WebVTT (C07, destination `vtt`)

* `view_readSubs` : what the WebVTT reader returns for a written cue list (`readSubs s`,
  `Props/C02doc.lean`) shows the cues of `s` with instants truncated to the millisecond;
* `flatS` : every line collapsed into a single bare run; `write_flatS`: the writer emits the same
  text when no run carries WebVTT markup (tags, a named `TTMLColor`, an inline timestamp);
* `PlainVTT` and `cueOk_flat` : plain cue lists satisfy the provisos of the document round trip
  once flattened.
-/

namespace Astisub
namespace ConvVTT
open Go VTT ConvView Spec.Conv Driver List
open SRT (kvGet escapeHTML)

/-! ## the view of what the reader returns -/

theorem lineTexts_readCue (s : Subs) (k : Nat) (it : CItem) : lineTexts (readCue s k it) = lineTexts it := by
  simp only [lineTexts, readCue, List.map_map]
  apply List.map_congr_left
  intro l _
  simp only [Function.comp, readLine, List.map_map]
  have : (fun x => x.text) ∘ readItem [] = fun (x : LItem) => x.text := by funext x; rfl
  rw [this]

theorem cueView_readCue (s : Subs) (k : Nat) (it : CItem) :
    cueView (readCue s k it) = truncCue 1000000 (cueView it) := by
  have h := cueView_congr (readCue s k it)
    { it with startAt := it.startAt - it.startAt % 1000000, endAt := it.endAt - it.endAt % 1000000 } rfl rfl
    (by rw [lineTexts_readCue]; rfl)
  rw [h]
  rfl

theorem view_readCues (s : Subs) (items : List CItem) (k : Nat) :
    (items.zipIdx k).map (cueView ∘ fun x => readCue s x.2 x.1) = items.map (truncCue 1000000 ∘ cueView) := by
  induction items generalizing k with
  | nil => rfl
  | cons it rest ih =>
    rw [List.zipIdx_cons, List.map_cons, List.map_cons, ih (k + 1)]
    simp only [Function.comp_apply, cueView_readCue]

/-- **View of what WebVTT gives back.** same cues in the same order, instants truncated to the
    millisecond, same text lines — for every cue list -/
theorem view_readSubs (s : Subs) : viewOf (readSubs s) = truncView 1000000 (viewOf s) := by
  simp only [viewOf_eq, readSubs, truncView, List.map_map]
  exact view_readCues s s.items 0

theorem unit_vtt : unitOfDst "vtt" = 1000000 := by decide

/-! ## bare runs: nothing but text is written -/

/-- a run for which the WebVTT writer emits only the (escaped) text: no `WebVTTTags`, no
    `TTMLColor` that has a CSS name (the writer turns `#ff0000` … into a `<c.red>` class), no
    positive start offset (written as an inline timestamp).  Every other attribute is free. -/
def bareRun (li : LItem) : Bool :=
  (kvGet li.attrs "WebVTTTags").isNone && (runColor li == []) && decide (li.startAt ≤ 0)

theorem runTags_bare {li : LItem} (h : bareRun li = true) : tagsOfAttrs li.attrs = [] := by
  simp only [bareRun, Bool.and_eq_true, Option.isNone_iff_eq_none] at h
  simp [tagsOfAttrs, h.1.1]

theorem runBytes_bare (prev next : Option LItem) (li : LItem) (h : bareRun li = true) :
    runBytes prev next li = escapeHTML li.text := by
  have ht : runTags li = [] := runTags_bare h
  simp only [bareRun, Bool.and_eq_true, beq_iff_eq, decide_eq_true_eq] at h
  obtain ⟨⟨_, hc⟩, hs⟩ := h
  have hs' : ¬ li.startAt > 0 := by omega
  rw [runBytes_eq prev next li hc]
  simp [runBytesPN, tsPart, hs', ht, opensBytes, closesBytes]

theorem itemsBytes_bare (items : List LItem) (h : ∀ li ∈ items, bareRun li = true) (prev : Option LItem) :
    itemsBytes prev items = escapeHTML (items.map (·.text)).flatten := by
  induction items generalizing prev with
  | nil => simp [itemsBytes, C01.escape_eq_flatMap]
  | cons li rest ih =>
    rw [itemsBytes, runBytes_bare _ _ li (h li (by simp)), ih (fun x hx => h x (by simp [hx]))]
    simp [SRTDoc.escape_append]

/-! ## flattening -/

/-- the line as one bare run carrying the whole text -/
def flatLine (l : Line) : Line := { voice := l.voice, items := [{ text := l.str }] }
def flatItem (it : CItem) : CItem := { it with lines := it.lines.map flatLine }
/-- every line of every cue collapsed into one bare run; everything else untouched -/
def flatS (s : Subs) : Subs := { s with items := s.items.map flatItem }

def bareLine (l : Line) : Bool := l.items.all bareRun
def bareS (s : Subs) : Bool := s.items.all fun it => it.lines.all bareLine

theorem lineBytes_flat (l : Line) (h : bareLine l = true) : lineBytes (flatLine l) = lineBytes l := by
  have hb : ∀ li ∈ l.items, bareRun li = true := by simpa [bareLine] using h
  unfold lineBytes
  rw [itemsBytes_bare l.items hb none]
  have : ∀ li ∈ [({ text := l.str } : LItem)], bareRun li = true := by
    simp [bareRun, runColor, kvGet]
  show (if (flatLine l).voice ≠ [] then _ else _) ++ itemsBytes none [{ text := l.str }] ++ ['\n'] = _
  rw [itemsBytes_bare _ this none]
  by_cases hv : l.voice = [] <;> simp [flatLine, Line.str, hv]

theorem cueBytes_flat (s : Subs) (k : Nat) (it : CItem) (h : it.lines.all bareLine = true) :
    cueBytes (flatS s) k (flatItem it) = cueBytes s k it := by
  have hl : (it.lines.map flatLine).map lineBytes = it.lines.map lineBytes := by
    rw [List.map_map]
    apply List.map_congr_left
    intro l hl
    exact lineBytes_flat l (List.all_eq_true.mp h l hl)
  unfold cueBytes
  simp only [flatItem, hl]
  rfl

/-- **Same text.** collapsing the runs of every line does not change what the writer emits, as long
    as no run carries WebVTT markup -/
theorem write_flatS (s : Subs) (h : bareS s = true) : VTT.write (flatS s) = VTT.write s := by
  have hb : ∀ it ∈ s.items, it.lines.all bareLine = true := by simpa [bareS] using h
  have e : ∀ (items : List CItem) (k : Nat), (∀ it ∈ items, it.lines.all bareLine = true) →
      ((items.map flatItem).zipIdx k).map (fun (x : CItem × Nat) => cueBytes (flatS s) x.2 x.1)
        = (items.zipIdx k).map (fun (x : CItem × Nat) => cueBytes s x.2 x.1) := by
    intro items
    induction items with
    | nil => intro k _; rfl
    | cons it rest ih =>
      intro k hh
      simp only [List.map_cons, List.zipIdx_cons]
      rw [ih (k + 1) (fun x hx => hh x (by simp [hx])), cueBytes_flat s k it (hh it (by simp))]
  have e0 := e s.items 0 hb
  unfold VTT.write
  have h1 : (flatS s).items = s.items.map flatItem := rfl
  have h2 : header (flatS s) = header s := rfl
  have h3 : styleLines (flatS s) = styleLines s := rfl
  have h4 : (flatS s).regions = s.regions := rfl
  have h5 : regionBytes (flatS s) = regionBytes s := rfl
  simp only [h1, h2, h3, h4, h5, List.isEmpty_map]
  have h6 : ((s.items.map flatItem).zipIdx.map fun (x : CItem × Nat) => match x with | (it, k) => cueBytes (flatS s) k it)
      = (s.items.zipIdx.map fun (x : CItem × Nat) => match x with | (it, k) => cueBytes s k it) := e0
  rw [h6]

theorem lineTexts_flat (it : CItem) : lineTexts (flatItem it) = lineTexts it := by
  simp only [lineTexts, flatItem, List.map_map]
  apply List.map_congr_left
  intro l _
  simp [flatLine, Line.str]

theorem view_flatS (s : Subs) : viewOf (flatS s) = viewOf s := by
  simp only [viewOf_eq, flatS, List.map_map]
  apply List.map_congr_left
  intro it _
  exact cueView_congr _ _ rfl rfl (lineTexts_flat it)

/-! ## plain cue lists -/

/-- a text that survives the reader's trimming: it begins and ends with something else than a blank -/
def edgesOk (t : Str) : Bool := t.head?.any (· != ' ') && t.getLast?.any (· != ' ')

/-- a plain line: no voice, no run with WebVTT markup, and the line's text (runs concatenated,
    however it is cut into runs) is made of the simple characters of `simpleText`, is not empty and
    has no blank at either end -/
def plainLine (l : Line) : Bool := (l.voice == []) && bareLine l && simpleText l.str && edgesOk l.str

/-- a plain cue: no comment block, no region, cue settings (own or inherited from the referenced
    style) absent or single words (`optOk`), plain lines.  Index, inline style reference and every
    other attribute are free; a cue may have no line at all. -/
def plainCue (s : Subs) (it : CItem) : Bool :=
  (it.comments == []) && (it.region == none) &&
  optOk (cueSetting s it "WebVTTAlign") && optOk (cueSetting s it "WebVTTLine") &&
  optOk (cueSetting s it "WebVTTPosition") && optOk (cueSetting s it "WebVTTSize") &&
  optOk (cueSetting s it "WebVTTVertical") && it.lines.all plainLine

/-- **Plain cue lists for WebVTT.** at least one cue, not more than an `int` counts; no region
    definitions, no style carrying a `STYLE` block text, no timestamp map in the metadata; every
    cue plain.  Styles (with any other attribute) and all other metadata are free. -/
def PlainVTT (s : Subs) : Bool :=
  !s.items.isEmpty && decide (s.items.length ≤ int64Max) && (s.regions == []) && (styleLines s == []) &&
  (kvGet s.metadata "WebVTTTimestampMap").isNone && s.items.all (plainCue s)

/-- non-vacuity: foreign attributes everywhere, several runs per line, a sub-millisecond instant,
    a style table, metadata, a cue setting inherited from a style -/
def exampleForeign : Subs :=
  { items := [
      { startAt := 1234567890, endAt := 3000000000, index := 7, style := some "s".toList,
        attrs := some [("STLJustificationCode".toList, "2".toList), ("WebVTTAlign".toList, "start".toList)],
        lines := [ { items := [ { text := "Hello, ".toList, attrs := some [("TTMLColor".toList, "#123456".toList)] },
                                { text := "".toList, startAt := -5 },
                                { text := "world  42!".toList, style := some "s".toList,
                                  attrs := some [("SSABold".toList, "true".toList), ("TeletextDoubleHeight".toList, "true".toList),
                                                 ("SRTBold".toList, "true".toList)] } ] },
                   { items := [ { text := "Is it?".toList, attrs := some [("SRTColor".toList, "#ff0000".toList)] } ] } ] },
      { startAt := 359999999999999, endAt := 0, lines := [] } ],
    styles := [{ id := "s".toList, attrs := some [("TTMLColor".toList, "red".toList), ("WebVTTLine".toList, "0".toList)] }],
    metadata := some [("Title".toList, "t".toList)] }

theorem exampleForeign_styleLines : styleLines exampleForeign = [] := by
  have : VTT.sortDefs exampleForeign.styles = exampleForeign.styles := by simp [VTT.sortDefs, exampleForeign]
  simp only [styleLines, this]
  decide

example : PlainVTT exampleForeign = true := by
  simp only [PlainVTT, exampleForeign_styleLines]
  decide
example : inRange "vtt" exampleForeign = true := by decide
example : bareRun { text := "x".toList, attrs := some [("TTMLColor".toList, "#ff0000".toList)] } = false := by decide
example : bareRun { text := "x".toList, startAt := 1000000 } = false := by decide
example : plainLine { items := [{ text := "x ".toList }] } = false := by decide

/-! ### a flattened plain line fits -/

theorem dropWhile_head {l : Str} {c : Char} (h : l.head? = some c) (hc : isSpace c = false) : l.dropWhile isSpace = l := by
  cases l with
  | nil => cases h
  | cons x xs => simp at h; subst h; simp [List.dropWhile, hc]

/-- `TrimSpace` is the identity on a text whose first and last characters are not white space -/
theorem trimSpace_edges {t : Str} {c0 c1 : Char} (h0 : t.head? = some c0) (h1 : t.getLast? = some c1)
    (hc0 : isSpace c0 = false) (hc1 : isSpace c1 = false) : trimSpace t = t := by
  unfold trimSpace trimRight trimLeft
  rw [dropWhile_head h0 hc0, dropWhile_head (c := c1) (by rw [List.head?_reverse]; exact h1) hc1, List.reverse_reverse]

theorem esc1_simple {c : Char} (h : simpleChar c = true) : C01.esc1 c = [c] := by
  have n1 := simpleChar_ne h (d := '&') (by decide)
  have n2 := simpleChar_ne h (d := '<') (by decide)
  have n3 := simpleChar_ne h (d := C01.nbsp) (by decide)
  simp [C01.esc1, n1, n2, n3]

/-- simple text is written as it is -/
theorem escape_simple (t : Str) (h : ∀ c ∈ t, simpleChar c = true) : escapeHTML t = t := by
  rw [C01.escape_eq_flatMap]
  induction t with
  | nil => rfl
  | cons c t ih =>
    simp only [List.flatMap_cons, esc1_simple (h c (by simp)), ih (fun x hx => h x (by simp [hx]))]
    rfl

theorem lineBody_flat (l : Line) (hv : l.voice = []) (hs : ∀ c ∈ l.str, simpleChar c = true) :
    lineBody (flatLine l) = l.str := by
  have : bareRun { text := l.str } = true := by simp [bareRun, runColor, kvGet]
  simp [lineBody, flatLine, hv, itemsBytes, runBytes_bare _ _ _ this, escape_simple _ hs]

theorem lineFit_flat (l : Line) (h : plainLine l = true) : lineFit (flatLine l) = true := by
  simp only [plainLine, Bool.and_eq_true, beq_iff_eq, simpleText_eq, List.all_eq_true, edgesOk] at h
  obtain ⟨⟨⟨hv, _⟩, hs⟩, he⟩ := h
  obtain ⟨c0, hc0, hc0b⟩ : ∃ c, l.str.head? = some c ∧ c ≠ ' ' := by
    cases hh : l.str.head? with
    | none => simp [hh] at he
    | some c => exact ⟨c, rfl, by simpa [hh] using he.1⟩
  obtain ⟨c1, hc1, hc1b⟩ : ∃ c, l.str.getLast? = some c ∧ c ≠ ' ' := by
    cases hh : l.str.getLast? with
    | none => simp [hh] at he
    | some c => exact ⟨c, rfl, by simpa [hh] using he.2⟩
  have hm0 : c0 ∈ l.str := by
    cases hl : l.str with
    | nil => rw [hl] at hc0; cases hc0
    | cons x xs => rw [hl] at hc0; simp at hc0; subst hc0; simp
  have hsp0 : isSpace c0 = false := simpleChar_space (hs c0 hm0) hc0b
  have hsp1 : isSpace c1 = false := simpleChar_space (hs c1 (List.mem_of_getLast? hc1)) hc1b
  have hbody := lineBody_flat l hv hs
  have hne : l.str ≠ [] := by intro e; rw [e] at hc0; cases hc0
  have hnul : ∀ c ∈ l.str, c ≠ '\x00' := fun c hc => simpleChar_ne (hs c hc) (by decide)
  have hrun : runOk { text := l.str } = true := by
    have hnb : trimSpace l.str ≠ [] := trimSpace_ne_nil c0 hm0 hsp0
    have hnc : l.str.contains '\x00' = false := by
      rw [Bool.eq_false_iff]
      intro hc
      exact hnul _ (List.contains_iff_mem.mp hc) rfl
    have hnm : '\x00' ∉ l.str := fun hc => hnul _ hc rfl
    simp [runOk, runTags, tagsOfAttrs, kvGet, runColor, hnb, hnm]
  have hok : lineOk (flatLine l) = true := by
    simp [lineOk, flatLine, hv, hrun, sepRuns]
  have harrow : contains arrow l.str = false :=
    contains_arrow_false (fun c hc => simpleChar_ne (hs c hc) (by decide))
  have hbr : ∀ c ∈ l.str, ¬ (c = '\n' ∨ c = '\r') := by
    intro c hc hh
    rcases hh with e | e
    · exact simpleChar_ne (hs c hc) (d := '\n') (by decide) e
    · exact simpleChar_ne (hs c hc) (d := '\r') (by decide) e
  simp only [lineFit, hok, hbody, Bool.true_and, Bool.and_eq_true, Bool.not_eq_true', bne_iff_ne, ne_eq, beq_iff_eq,
    List.all_eq_true, Bool.or_eq_false_iff, beq_eq_false_iff_ne]
  refine ⟨⟨⟨⟨by simp [flatLine], hne⟩, trimSpace_edges hc0 hc1 hsp0 hsp1⟩, harrow⟩, ?_⟩
  intro c hc
  exact ⟨fun e => hbr c hc (Or.inl e), fun e => hbr c hc (Or.inr e)⟩

theorem bareS_of_plain (s : Subs) (hp : PlainVTT s = true) : bareS s = true := by
  simp only [PlainVTT, Bool.and_eq_true, List.all_eq_true] at hp
  simp only [bareS, List.all_eq_true]
  intro it hit l hl
  have := hp.2 it hit
  simp only [plainCue, Bool.and_eq_true, List.all_eq_true] at this
  have := this.2 l hl
  simp only [plainLine, Bool.and_eq_true] at this
  exact this.1.1.2

/-- **Plain cues satisfy the provisos of the WebVTT document round trip** once flattened -/
theorem cueOk_flat (s : Subs) (hr : inRange "vtt" s = true) (hp : PlainVTT s = true) :
    ∀ it ∈ (flatS s).items, cueOk (flatS s) it = true := by
  simp only [PlainVTT, Bool.and_eq_true, List.all_eq_true] at hp
  have hrg := inRange_items (dst := "vtt") (by decide) hr
  intro it' hit'
  obtain ⟨it, hit, rfl⟩ := List.mem_map.mp hit'
  have hc := hp.2 it hit
  simp only [plainCue, Bool.and_eq_true, beq_iff_eq, List.all_eq_true] at hc
  obtain ⟨⟨⟨⟨⟨⟨⟨h1, h2⟩, h3⟩, h4⟩, h5⟩, h6⟩, h7⟩, h8⟩ := hc
  obtain ⟨r1, r2, r3, r4⟩ := hrg it hit
  have e : ∀ k, cueSetting (flatS s) (flatItem it) k = cueSetting s it k := fun _ => rfl
  have hlines : (flatItem it).lines.all lineFit = true := by
    simp only [flatItem, List.all_map, List.all_eq_true]
    intro l hl
    exact lineFit_flat l (h8 l hl)
  have c1 : (flatItem it).comments = [] := h1
  have c2 : (flatItem it).region = none := h2
  have c3 : (flatItem it).startAt = it.startAt := rfl
  have c4 : (flatItem it).endAt = it.endAt := rfl
  simp only [cueOk, e, c1, c2, c3, c4, h3, h4, h5, h6, h7, hlines, r1, r2, r3, r4, beq_self_eq_true, decide_true, Bool.and_self]

theorem doc_facts (s : Subs) (hp : PlainVTT s = true) :
    (flatS s).items ≠ [] ∧ (flatS s).items.length ≤ int64Max ∧ (flatS s).regions = [] ∧ styleLines (flatS s) = [] ∧
      kvGet (flatS s).metadata "WebVTTTimestampMap" = none := by
  simp only [PlainVTT, Bool.and_eq_true, Bool.not_eq_true', decide_eq_true_eq, beq_iff_eq, Option.isNone_iff_eq_none] at hp
  obtain ⟨⟨⟨⟨⟨h1, h2⟩, h3⟩, h4⟩, h5⟩, _⟩ := hp
  refine ⟨?_, by simpa [flatS] using h2, h3, h4, h5⟩
  intro e
  have : s.items = [] := by simpa [flatS] using e
  rw [this] at h1
  cases h1

/-! ## the byte level: UTF-8, line scanner, decoding -/

theorem unlines_eq (ls : List Str) : SRTDoc.unlines ls = VTT.unlines ls := by
  simp [SRTDoc.unlines, VTT.unlines, List.flatMap_def]

/-- **Write → read on bytes, as the check computes it.** UTF-8 encode the written text, cut the bytes
    into lines with the scanner model, decode every line, read (`VTT.read (docLines (utf8 doc))` is
    the model side of the `vtt.write` stream): the result is `readSubs s` -/
theorem read_write_bytes (s : Subs) (hne : s.items ≠ []) (hok : ∀ it ∈ s.items, cueOk s it = true)
    (hlen : s.items.length ≤ int64Max)
    (hreg : s.regions = []) (hsty : styleLines s = []) (hmeta : kvGet s.metadata "WebVTTTimestampMap" = none) :
    ∃ doc, VTT.write s = some doc ∧ VTT.read (docLines (utf8 doc)) = .ok (readSubs s) := by
  have hcm : ∀ it ∈ s.items, it.comments = [] := by
    intro it hit
    have := hok it hit
    simp only [cueOk, Bool.and_eq_true, beq_iff_eq] at this
    exact this.1.1.1.1.1.1.1.1.1.1.1
  refine ⟨_, write_lines s hne hcm hreg hsty hmeta, ?_⟩
  rw [← unlines_eq, SRTDoc.docLines_utf8_unlines _ (fun l hl => ?_)]
  · exact read_docLineList s hok hlen
  · have := noBreak_docLineList s hok l hl
    exact ⟨fun h => (this _ h).1 rfl, fun h => (this _ h).2 rfl⟩

end ConvVTT
end Astisub
