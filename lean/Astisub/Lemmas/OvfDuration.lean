import Astisub.Model.Duration
import Astisub.Lemmas.OvfBasic

/-!
# Lemmas/OvfDuration — `parseDuration`, `formatDuration` and the STL timecodes in `int64`

* `parse` is first split into its string stages (`msPart`, `hmsPart`: no arithmetic) and the final
  arithmetic `combine` (`parse_eq`: an equivalent formulation of `Duration.parse`, proved equal).
  `parseW` keeps the stages and evaluates `milliseconds *= int(math.Pow10(k))` and
  `ms*Millisecond + s*Second + m*Minute + h*Hour` in wrap-around `int64`.
* `CombineOK` is the exact, decidable condition "no step wraps"; `combineOK_clock` derives it from
  clock-shaped fields with `hours ≤ 2 562 046`, and the witnesses show that bound is sharp.
* `formatW`: `/` and `%` by positive constants cannot overflow.
* STL: `frames * 1e9 (+ fr - 1) / fr` on parse, `rem * fr / 1e9` and the `d -= delta * unit` chain on
  format.
-/

namespace Astisub
namespace Ovf
open Go Duration

/-! ## the string stages of `parseDuration` -/

def msPart (i : Str) (sep : Char) (digits : Nat) : Option ((Int × Nat) × Str) :=
  let parts := splitC sep i
  if parts.length ≥ 2 then
    let s := trimSpace (parts.getLast?.getD [])
    if s.length > 3 then none else
    match atoi s with
    | none => none
    | some ms => some ((ms, digits - s.length), join [sep] parts.dropLast)
  else some ((0, 0), i)

def hmsPart (s : Str) : Option (Int × Int × Int) :=
  let hms := splitC ':' (trimSpace s)
  let fieldsOf : Option (Str × Str × Str) :=
    match hms with
    | [pm, ps] => some ([], pm, ps)
    | [ph, pm, ps] => some (ph, pm, ps)
    | _ => none
  match fieldsOf with
  | none => none
  | some (ph, pm, ps) =>
    match atoi (trimSpace ps), atoi (trimSpace pm) with
    | some sec, some min =>
      let hours : Option Int := if ph.length > 0 then atoi (trimSpace ph) else some 0
      match hours with
      | some h => some (sec, min, h)
      | none => none
    | _, _ => none

def combine (ms sec min h : Int) : Int := ms * nsPerMs + sec * nsPerS + min * nsPerMin + h * nsPerH

/-- the part of `parse` after the milliseconds have been split off -/
def tailOf (ms : Int) (s : Str) : Option Int :=
    let hms := splitC ':' (trimSpace s)
    let fieldsOf : Option (Str × Str × Str) :=
      match hms with
      | [pm, ps] => some ([], pm, ps)
      | [ph, pm, ps] => some (ph, pm, ps)
      | _ => none
    match fieldsOf with
    | none => none
    | some (ph, pm, ps) =>
      match atoi (trimSpace ps), atoi (trimSpace pm) with
      | some sec, some min =>
        let hours : Option Int := if ph.length > 0 then atoi (trimSpace ph) else some 0
        match hours with
        | some h => some (ms * nsPerMs + sec * nsPerS + min * nsPerMin + h * nsPerH)
        | none => none
      | _, _ => none

theorem tailOf_eq (ms : Int) (s : Str) :
    tailOf ms s = (hmsPart s).map fun q => combine ms q.1 q.2.1 q.2.2 := by
  unfold tailOf hmsPart combine
  dsimp only
  split
  · rfl
  · split
    · split
      · rfl
      · rfl
    · rfl

theorem parse_eq (i : Str) (sep : Char) (digits : Nat) :
    parse i sep digits =
      (msPart i sep digits).bind fun p =>
        (hmsPart p.2).map fun q => combine (p.1.1 * (10 : Int) ^ p.1.2) q.1 q.2.1 q.2.2 := by
  have h0 : parse i sep digits =
      match (msPart i sep digits).map (fun p => (p.1.1 * (10 : Int) ^ p.1.2, p.2)) with
      | none => none
      | some (ms, s) => tailOf ms s := by
    unfold parse msPart tailOf
    dsimp only
    by_cases h1 : (splitC sep i).length ≥ 2
    · rw [if_pos h1, if_pos h1]
      by_cases h2 : (trimSpace ((splitC sep i).getLast?.getD [])).length > 3
      · rw [if_pos h2, if_pos h2]; rfl
      · rw [if_neg h2, if_neg h2]
        cases atoi (trimSpace ((splitC sep i).getLast?.getD [])) <;> rfl
    · rw [if_neg h1, if_neg h1]
      rfl
  rw [h0]
  cases msPart i sep digits with
  | none => rfl
  | some p => simp only [Option.map_some, Option.bind_some, tailOf_eq]
/-! ## bounds on what `strconv.Atoi` returns -/

theorem digitVal_lt {c : Char} {d : Nat} (h : digitVal c = some d) : d < 10 := by
  unfold digitVal at h
  split at h
  · rename_i hc
    cases h
    have h2 : c.toNat ≤ 57 := by
      have := hc.2
      rw [Char.le_def] at this
      exact UInt32.le_iff_toNat_le.mp this
    omega
  · cases h

theorem digitsVal_lt : ∀ (s : Str) (acc v : Nat), digitsVal s acc = some v → v < (acc + 1) * 10 ^ s.length
  | [], acc, v, h => by
    unfold digitsVal at h; cases h; simp
  | c :: cs, acc, v, h => by
    unfold digitsVal at h
    cases hd : digitVal c with
    | none => rw [hd] at h; cases h
    | some d =>
      rw [hd] at h
      have h1 := digitVal_lt hd
      have h2 := digitsVal_lt cs _ v h
      have h3 : (acc * 10 + d + 1) * 10 ^ cs.length ≤ ((acc + 1) * 10) * 10 ^ cs.length :=
        Nat.mul_le_mul_right _ (by omega)
      rw [List.length_cons, Nat.pow_succ, Nat.mul_comm (10 ^ cs.length) 10, ← Nat.mul_assoc]
      omega

theorem parseDigits_lt {s : Str} {v : Nat} (h : parseDigits s = some v) : v < 10 ^ s.length := by
  unfold parseDigits at h
  split at h
  · cases h
  · have := digitsVal_lt s 0 v h
    simpa using this

/-- a decimal string of `n` characters (sign included) denotes a number of magnitude below `10^n` -/
theorem atoi_natAbs_lt {s : Str} {x : Int} (h : atoi s = some x) : x.natAbs < 10 ^ s.length := by
  have step : ∀ (r : Str), 10 ^ r.length ≤ 10 ^ (r.length + 1) := fun r =>
    Nat.pow_le_pow_right (by decide) (Nat.le_succ _)
  unfold atoi at h
  split at h
  · rename_i r
    cases hp : parseDigits r with
    | none => rw [hp] at h; cases h
    | some v =>
      rw [hp] at h
      have := parseDigits_lt hp
      have := step r
      simp only at h
      split at h
      · cases h; simp only [List.length_cons]; omega
      · cases h
  · rename_i r
    cases hp : parseDigits r with
    | none => rw [hp] at h; cases h
    | some v =>
      rw [hp] at h
      have := parseDigits_lt hp
      have := step r
      simp only at h
      split at h
      · cases h; simp only [List.length_cons]; omega
      · cases h
  · cases hp : parseDigits s with
    | none => rw [hp] at h; cases h
    | some v =>
      rw [hp] at h
      have := parseDigits_lt hp
      simp only at h
      split at h
      · cases h; omega
      · cases h

/-- **`strconv.Atoi` returns an `int`**: the value is representable (the model has the range check) -/
theorem atoi_fits {s : Str} {x : Int} (h : atoi s = some x) : fits64 x := by
  unfold atoi at h
  unfold fits64
  split at h
  · cases hp : parseDigits _ with
    | none => rw [hp] at h; cases h
    | some v =>
      rw [hp] at h; simp only at h
      split at h
      · rename_i hv; cases h; unfold int64Max at hv; omega
      · cases h
  · cases hp : parseDigits _ with
    | none => rw [hp] at h; cases h
    | some v =>
      rw [hp] at h; simp only at h
      split at h
      · rename_i hv; cases h; unfold int64Max at hv; omega
      · cases h
  · cases hp : parseDigits s with
    | none => rw [hp] at h; cases h
    | some v =>
      rw [hp] at h; simp only at h
      split at h
      · rename_i hv; cases h; unfold int64Max at hv; omega
      · cases h

/-! ## the arithmetic of `parseDuration` in `int64` -/

/-- `milliseconds *= int(math.Pow10(k))` -/
def scaleW (ms : Int) (k : Nat) : Int := wmul ms ((10 : Int) ^ k)

/-- `Duration(ms)*Millisecond + Duration(s)*Second + Duration(m)*Minute + Duration(h)*Hour`,
    evaluated left to right in `int64` -/
def combineW (ms sec min h : Int) : Int :=
  wadd (wadd (wadd (wmul ms nsPerMs) (wmul sec nsPerS)) (wmul min nsPerMin)) (wmul h nsPerH)

/-- `parseDuration` with its arithmetic in `int64`. (When there is no fraction Go does not multiply;
    `scaleW 0 0 = 0` is the same value.) -/
def parseW (i : Str) (sep : Char) (digits : Nat) : Option Int :=
  (msPart i sep digits).bind fun p =>
    (hmsPart p.2).map fun q => combineW (scaleW p.1.1 p.1.2) q.1 q.2.1 q.2.2

/-- exact condition "no step of the arithmetic wraps", on the raw fields: the fraction `ms`, the
    exponent `k` of its scale factor, seconds, minutes, hours -/
def CombineOK (ms : Int) (k : Nat) (sec min h : Int) : Prop :=
  fits64 ((10 : Int) ^ k) ∧ fits64 (ms * (10 : Int) ^ k) ∧
  fits64 (ms * (10 : Int) ^ k * 1000000) ∧ fits64 (sec * 1000000000) ∧
  fits64 (min * 60000000000) ∧ fits64 (h * 3600000000000) ∧
  fits64 (ms * (10 : Int) ^ k * 1000000 + sec * 1000000000) ∧
  fits64 (ms * (10 : Int) ^ k * 1000000 + sec * 1000000000 + min * 60000000000) ∧
  fits64 (ms * (10 : Int) ^ k * 1000000 + sec * 1000000000 + min * 60000000000 + h * 3600000000000)

instance (ms : Int) (k : Nat) (sec min h : Int) : Decidable (CombineOK ms k sec min h) := by
  unfold CombineOK; infer_instance

theorem combineW_eq {ms : Int} {k : Nat} {sec min h : Int} (ok : CombineOK ms k sec min h) :
    combineW (scaleW ms k) sec min h = combine (ms * (10 : Int) ^ k) sec min h := by
  obtain ⟨_, h1, h2, h3, h4, h5, h6, h7, h8⟩ := ok
  unfold combineW scaleW combine nsPerMs nsPerS nsPerMin nsPerH
  rw [wmul_eq h1, wmul_eq h2, wmul_eq h3, wmul_eq h4, wmul_eq h5, wadd_eq h6, wadd_eq h7, wadd_eq h8]

/-- `P` holds of the content of an option, if there is one -/
def optAll {α} (o : Option α) (P : α → Prop) : Prop :=
  match o with
  | none => True
  | some a => P a

instance {α} (o : Option α) (P : α → Prop) [∀ a, Decidable (P a)] : Decidable (optAll o P) := by
  cases o with
  | none => exact isTrue trivial
  | some a => exact (inferInstance : Decidable (P a))

/-- the range condition on an input text: its fields, if it has any, satisfy `CombineOK` -/
def ParseOK (i : Str) (sep : Char) (digits : Nat) : Prop :=
  optAll (msPart i sep digits) fun p =>
    optAll (hmsPart p.2) fun q => CombineOK p.1.1 p.1.2 q.1 q.2.1 q.2.2

instance (i : Str) (sep : Char) (digits : Nat) : Decidable (ParseOK i sep digits) := by
  unfold ParseOK; infer_instance

theorem parseW_eq (i : Str) (sep : Char) (digits : Nat) (ok : ParseOK i sep digits) :
    parseW i sep digits = parse i sep digits := by
  rw [parse_eq]
  unfold parseW
  unfold ParseOK at ok
  cases hm : msPart i sep digits with
  | none => rfl
  | some p =>
    rw [hm] at ok
    simp only [Option.bind_some]
    cases hq : hmsPart p.2 with
    | none => rfl
    | some q =>
      have ok' : CombineOK p.1.1 p.1.2 q.1 q.2.1 q.2.2 := by
        have : optAll (hmsPart p.2) fun q => CombineOK p.1.1 p.1.2 q.1 q.2.1 q.2.2 := ok
        rw [hq] at this
        exact this
      simp only [Option.map_some]
      rw [combineW_eq ok']

theorem pow10_fits {k : Nat} (hk : k ≤ 18) : fits64 ((10 : Int) ^ k) := by
  have h1 : (10 : Nat) ^ k ≤ 10 ^ 18 := Nat.pow_le_pow_right (by decide) hk
  have h2 : (0 : Nat) < 10 ^ k := Nat.pow_pos (by decide)
  have e : (10 : Int) ^ k = ((10 ^ k : Nat) : Int) := by rw [Int.natCast_pow]; rfl
  have : (10 : Nat) ^ 18 = 1000000000000000000 := by decide
  rw [e]; unfold fits64
  omega

/-- **Clock-shaped fields never wrap below 2 562 047 hours**: a fraction of magnitude ≤ 999 ms after
    scaling, seconds and minutes in `[0, 59]`, hours in `[0, 2 562 046]` (about 292 years). -/
theorem combineOK_clock {ms : Int} {k : Nat} {sec min h : Int}
    (hk : k ≤ 18) (hms : -999 ≤ ms * (10 : Int) ^ k ∧ ms * (10 : Int) ^ k ≤ 999)
    (hsec : 0 ≤ sec ∧ sec ≤ 59) (hmin : 0 ≤ min ∧ min ≤ 59) (hh : 0 ≤ h ∧ h ≤ 2562046) :
    CombineOK ms k sec min h := by
  have hp : fits64 ((10 : Int) ^ k) := by
    exact pow10_fits hk
  refine ⟨hp, ?_⟩
  generalize ms * (10 : Int) ^ k = m at *
  unfold fits64
  omega

/-- the same with any sign on seconds / minutes garbage up to 32 bits and hours up to ±2 000 000:
    `strconv.Atoi` accepts `-5` or `99999` in any field; the sum still fits -/
theorem combineOK_wide {ms : Int} {k : Nat} {sec min h : Int}
    (hk : k ≤ 18) (hms : -999 ≤ ms * (10 : Int) ^ k ∧ ms * (10 : Int) ^ k ≤ 999)
    (hsec : -1000000 ≤ sec ∧ sec ≤ 1000000) (hmin : -1000000 ≤ min ∧ min ≤ 1000000)
    (hh : -2000000 ≤ h ∧ h ≤ 2000000) :
    CombineOK ms k sec min h := by
  have hp : fits64 ((10 : Int) ^ k) := by
    exact pow10_fits hk
  refine ⟨hp, ?_⟩
  generalize ms * (10 : Int) ^ k = m at *
  unfold fits64
  omega

/-- the hour product alone fits exactly up to 2 562 047 hours -/
theorem hour_product_fits (h : Int) : fits64 (h * 3600000000000) ↔ -2562047 ≤ h ∧ h ≤ 2562047 := by
  unfold fits64; constructor <;> intro hh <;> omega

/-- non-vacuity and sharpness on fields: `2562046:59:59.999` is in range; at `2562047:59:59.999`
    the last addition wraps; at 2 562 048 hours the hour product itself wraps -/
example : CombineOK 999 0 59 59 2562046 := by decide
example : ¬ CombineOK 999 0 59 59 2562047 ∧
    combineW (scaleW 999 0) 59 59 2562047 ≠ combine 999 59 59 2562047 := by decide
example : CombineOK 0 0 0 0 2562047 ∧ ¬ CombineOK 0 0 0 0 2562048 ∧
    combineW 0 0 0 2562048 ≠ combine 0 0 0 2562048 := by decide

/-- with three fraction digits (every caller) the scaled fraction is always within ±999 ms -/
theorem msPart_bound {i : Str} {sep : Char} {p : (Int × Nat) × Str} (h : msPart i sep 3 = some p) :
    p.1.2 ≤ 3 ∧ -999 ≤ p.1.1 * (10 : Int) ^ p.1.2 ∧ p.1.1 * (10 : Int) ^ p.1.2 ≤ 999 := by
  unfold msPart at h
  dsimp only at h
  split at h
  · split at h
    · cases h
    · rename_i hlen
      cases ha : atoi (trimSpace ((splitC sep i).getLast?.getD [])) with
      | none => rw [ha] at h; cases h
      | some ms =>
        rw [ha] at h
        have hb := atoi_natAbs_lt ha
        cases h
        dsimp only
        generalize (trimSpace ((splitC sep i).getLast?.getD [])).length = len at *
        have : len = 0 ∨ len = 1 ∨ len = 2 ∨ len = 3 := by omega
        rcases this with rfl | rfl | rfl | rfl
        · have e : (10 : Int) ^ (3 - 0) = 1000 := by decide
          have : 10 ^ 0 = 1 := by decide
          rw [e]; omega
        · have e : (10 : Int) ^ (3 - 1) = 100 := by decide
          have : 10 ^ 1 = 10 := by decide
          rw [e]; omega
        · have e : (10 : Int) ^ (3 - 2) = 10 := by decide
          have : 10 ^ 2 = 100 := by decide
          rw [e]; omega
        · have e : (10 : Int) ^ (3 - 3) = 1 := by decide
          have : 10 ^ 3 = 1000 := by decide
          rw [e]; omega
  · cases h
    dsimp only
    exact ⟨by decide, by decide, by decide⟩

/-- **`parseDuration` (three fraction digits) never wraps on a clock-shaped text**: whatever the
    fraction is, if seconds and minutes are in `[0, 59]` and hours in `[0, 2 562 046]` the `int64`
    evaluation equals the unbounded model. -/
theorem parseW_eq_clock (i : Str) (sep : Char)
    (hq : ∀ p q, msPart i sep 3 = some p → hmsPart p.2 = some q →
      (0 ≤ q.1 ∧ q.1 ≤ 59) ∧ (0 ≤ q.2.1 ∧ q.2.1 ≤ 59) ∧ (0 ≤ q.2.2 ∧ q.2.2 ≤ 2562046)) :
    parseW i sep 3 = parse i sep 3 := by
  apply parseW_eq
  unfold ParseOK
  cases hm : msPart i sep 3 with
  | none => exact trivial
  | some p =>
    show optAll (hmsPart p.2) _
    cases hh : hmsPart p.2 with
    | none => exact trivial
    | some q =>
      have b := msPart_bound hm
      have c := hq p q hm hh
      exact combineOK_clock (by omega) b.2 c.1 c.2.1 c.2.2

example : ParseOK "2562046:59:59.999".toList '.' 3 := by decide
example : parseW "01:02:03.5".toList '.' 3 = some 3723500000000 := by decide
/-- one hour more and the text is parsed to a negative duration by the `int64` evaluation -/
example : parseW "2562047:59:59.999".toList '.' 3 = some (-9223371273710551616) ∧
    parse "2562047:59:59.999".toList '.' 3 = some 9223372799999000000 := by decide
/-! ### the per-format wrappers -/

def parseSRTW (i : Str) : Option Int :=
  match parseW i ',' 3 with
  | some d => some d
  | none => parseW i '.' 3
def parseSSAW (i : Str) : Option Int := parseW i '.' 3
def parseVTTW (i : Str) : Option Int := parseW i '.' 3

theorem parseSRTW_eq (i : Str) (h1 : ParseOK i ',' 3) (h2 : ParseOK i '.' 3) : parseSRTW i = parseSRT i := by
  unfold parseSRTW parseSRT; rw [parseW_eq i ',' 3 h1, parseW_eq i '.' 3 h2]; rfl
theorem parseSSAW_eq (i : Str) (h : ParseOK i '.' 3) : parseSSAW i = parseSSA i := parseW_eq i '.' 3 h
theorem parseVTTW_eq (i : Str) (h : ParseOK i '.' 3) : parseVTTW i = parseVTT i := parseW_eq i '.' 3 h

/-! ## `formatDuration`: `/` and `%` only -/

/-- the integer part of `formatDuration` with Go's truncated `/`, `%` on `int64`
    (`hours = int(i / time.Hour)`, `n = i % time.Hour`, `minutes = int(n / time.Minute)`,
    `n = i % time.Minute`, …). The fraction goes through `float64`; its integer formula is the
    subject of `Props/C16float`, not of overflow. -/
def formatW (t : Int) (sep : Char) (digits : Nat) : Str :=
  let h := wdiv t nsPerH
  let m := wdiv (wmod t nsPerH) nsPerMin
  let s := wdiv (wmod t nsPerMin) nsPerS
  let n := wmod t nsPerS
  let frac := n.toNat / 1000000 / 10 ^ (3 - digits)
  pad2 h.toNat ++ ':' :: pad2 m.toNat ++ ':' :: pad2 s.toNat ++ sep :: padLeft0 digits (itoaNat frac)

/-- every intermediate of `formatDuration` is an `int64`, for **every** `int64` input -/
theorem format_steps_fit {t : Int} (ht : fits64 t) :
    fits64 (Int.tdiv t nsPerH) ∧ fits64 (Int.tmod t nsPerH) ∧
    fits64 (Int.tdiv (Int.tmod t nsPerH) nsPerMin) ∧ fits64 (Int.tmod t nsPerMin) ∧
    fits64 (Int.tdiv (Int.tmod t nsPerMin) nsPerS) ∧ fits64 (Int.tmod t nsPerS) := by
  have c1 : fits64 nsPerH := by decide
  have c2 : fits64 nsPerMin := by decide
  have c3 : fits64 nsPerS := by decide
  have m1 := fits64_tmod (a := t) c1 (by decide)
  have m2 := fits64_tmod (a := t) c2 (by decide)
  have m3 := fits64_tmod (a := t) c3 (by decide)
  exact ⟨fits64_tdiv ht (by decide), m1, fits64_tdiv m1 (by decide), m2, fits64_tdiv m2 (by decide), m3⟩

theorem formatW_eq (t : Int) (sep : Char) (digits : Nat) (ht : fits64 t) (h0 : 0 ≤ t) :
    formatW t sep digits = format t sep digits := by
  obtain ⟨_, f2, _, f4, _, _⟩ := format_steps_fit ht
  have n1 : 0 ≤ Int.tmod t nsPerH := Int.tmod_nonneg _ h0
  have n2 : 0 ≤ Int.tmod t nsPerMin := Int.tmod_nonneg _ h0
  unfold formatW format wmod
  dsimp only
  rw [wdiv_eq ht (by decide), wdiv_eq f2 (by decide), wdiv_eq f4 (by decide)]
  rw [tdiv_toNat h0 (by decide), tdiv_toNat n1 (by decide), tdiv_toNat n2 (by decide),
    tmod_toNat h0 (by decide), tmod_toNat h0 (by decide), tmod_toNat h0 (by decide)]
  rfl

example : fits64 359999999999999 ∧ (0 : Int) ≤ 359999999999999 := by decide

/-! ## STL timecodes -/

/-- `stlFramesToDuration`: `time.Duration((1e9*frames + framerate - 1) / framerate) * time.Nanosecond`
    in `int` / `int64` (pinned variant: `1e9*frames / framerate`) -/
def framesToNsW (ceil : Bool) (f : Int) (fr : Int) : Int :=
  if ceil then wmul (wdiv (wsub (wadd (wmul 1000000000 f) fr) 1) fr) 1
  else wmul (wdiv (wmul 1000000000 f) fr) 1

/-- exact range condition of the frame conversion (Go panics on `framerate = 0`; a negative rate is
    not a frame rate) -/
def FramesOK (f fr : Int) : Prop :=
  0 < fr ∧ fits64 (1000000000 * f) ∧ fits64 (1000000000 * f + fr) ∧ fits64 (1000000000 * f + fr - 1)

instance (f fr : Int) : Decidable (FramesOK f fr) := by unfold FramesOK; infer_instance

theorem framesToNsW_eq (ceil : Bool) {f fr : Int} (ok : FramesOK f fr) :
    framesToNsW ceil f fr = framesToNs ceil f fr := by
  obtain ⟨h0, h1, h2, h3⟩ := ok
  unfold framesToNsW framesToNs
  rw [wmul_eq h1, wadd_eq h2, wsub_eq h3, wdiv_eq h3 h0, wdiv_eq h1 h0,
    wmul_one (fits64_tdiv h3 h0), wmul_one (fits64_tdiv h1 h0)]

/-- frame counts up to ±2^31 at a rate up to 2^31 are in range (a field has two digits, a rate is 25 or 30) -/
theorem framesOK_of_small {f fr : Int} (hf : -2147483648 ≤ f ∧ f ≤ 2147483648) (hr : 0 < fr ∧ fr ≤ 2147483648) :
    FramesOK f fr := by
  unfold FramesOK fits64; omega

example : FramesOK 24 25 ∧ FramesOK 29 30 := by decide
/-- the bound cannot be dropped: ten thousand million frames overflow the product -/
example : framesToNsW false 10000000000 25 ≠ framesToNs false 10000000000 25 := by decide

theorem framesToNs_bounds (ceil : Bool) {f fr : Int} (hf : -9 ≤ f ∧ f ≤ 255) (hr : 0 < fr ∧ fr ≤ 2147483648) :
    -9000000000 ≤ framesToNs ceil f fr ∧ framesToNs ceil f fr ≤ 255000000000 + 2147483648 := by
  unfold framesToNs
  have b1 := tdiv_bounds (a := 1000000000 * f + fr - 1) hr.1
  have b2 := tdiv_bounds (a := 1000000000 * f) hr.1
  split
  · rcases Int.le_total 0 (1000000000 * f + fr - 1) with h | h
    · have := b1.1 h; omega
    · have := b1.2 h; omega
  · rcases Int.le_total 0 (1000000000 * f) with h | h
    · have := b2.1 h; omega
    · have := b2.2 h; omega

/-- the sum of `parseDurationSTL` in `int64` -/
def stlCombineW (ceil : Bool) (h m s f fr : Int) : Int :=
  wadd (wadd (wadd (wmul h nsPerH) (wmul m nsPerMin)) (wmul s nsPerS)) (framesToNsW ceil f fr)

theorem stlCombineW_eq (ceil : Bool) {h m s f fr : Int}
    (hh : -9 ≤ h ∧ h ≤ 255) (hm : -9 ≤ m ∧ m ≤ 255) (hs : -9 ≤ s ∧ s ≤ 255) (hf : -9 ≤ f ∧ f ≤ 255)
    (hr : 0 < fr ∧ fr ≤ 2147483648) :
    stlCombineW ceil h m s f fr = h * nsPerH + m * nsPerMin + s * nsPerS + framesToNs ceil f fr := by
  have ok : FramesOK f fr := framesOK_of_small (by omega) hr
  have b := framesToNs_bounds ceil hf hr
  unfold stlCombineW
  rw [framesToNsW_eq ceil ok]
  generalize framesToNs ceil f fr = F at *
  unfold nsPerH nsPerMin nsPerS
  have e1 : wmul h 3600000000000 = h * 3600000000000 := wmul_eq (by unfold fits64; omega)
  have e2 : wmul m 60000000000 = m * 60000000000 := wmul_eq (by unfold fits64; omega)
  have e3 : wmul s 1000000000 = s * 1000000000 := wmul_eq (by unfold fits64; omega)
  rw [e1, e2, e3]
  have e4 : wadd (h * 3600000000000) (m * 60000000000) = h * 3600000000000 + m * 60000000000 :=
    wadd_eq (by unfold fits64; omega)
  rw [e4]
  have e5 : wadd (h * 3600000000000 + m * 60000000000) (s * 1000000000)
      = h * 3600000000000 + m * 60000000000 + s * 1000000000 := wadd_eq (by unfold fits64; omega)
  rw [e5]
  exact wadd_eq (by unfold fits64; omega)

/-- `parseDurationSTL` in `int64` -/
def parseSTLW (ceil : Bool) (i : Str) (fr : Int) : Option Int :=
  match atoi (i.take 2), atoi ((i.drop 2).take 2), atoi ((i.drop 4).take 2), atoi ((i.drop 6).take 2) with
  | some h, some m, some s, some f => some (stlCombineW ceil h m s f fr)
  | _, _, _, _ => none

/-- a field of at most two characters is a number in `[-9, 99]` -/
theorem atoi_take2 {s : Str} {x : Int} (h : atoi (s.take 2) = some x) : -9 ≤ x ∧ x ≤ 255 := by
  have hl : (s.take 2).length ≤ 2 := by simp [List.length_take]; omega
  have h1 := atoi_natAbs_lt h
  have h2 : 10 ^ (s.take 2).length ≤ 10 ^ 2 := Nat.pow_le_pow_right (by decide) hl
  have hneg : x < 0 → -9 ≤ x := by
    intro hx
    -- a negative result needs the sign character: at most one digit is left
    unfold atoi at h
    split at h
    · rename_i r heq
      have hr : r.length ≤ 1 := by
        have := congrArg List.length heq
        simp only [List.length_cons] at this
        omega
      cases hp : parseDigits r with
      | none => rw [hp] at h; cases h
      | some v =>
        rw [hp] at h
        have hv := parseDigits_lt hp
        have : 10 ^ r.length ≤ 10 ^ 1 := Nat.pow_le_pow_right (by decide) hr
        simp only at h
        split at h
        · cases h; omega
        · cases h
    · cases hp : parseDigits _ with
      | none => rw [hp] at h; cases h
      | some v =>
        rw [hp] at h; simp only at h
        split at h
        · cases h; omega
        · cases h
    · cases hp : parseDigits _ with
      | none => rw [hp] at h; cases h
      | some v =>
        rw [hp] at h; simp only at h
        split at h
        · cases h; omega
        · cases h
  by_cases hx : x < 0
  · have := hneg hx; omega
  · omega

/-- **`parseDurationSTL` never wraps**, for every input text and every frame rate in `(0, 2^31]` -/
theorem parseSTLW_eq (ceil : Bool) (i : Str) (fr : Int) (hr : 0 < fr ∧ fr ≤ 2147483648) :
    parseSTLW ceil i fr = parseSTL ceil i fr := by
  unfold parseSTLW parseSTL
  cases h1 : atoi (i.take 2) with
  | none => rfl
  | some h =>
    cases h2 : atoi ((i.drop 2).take 2) with
    | none => rfl
    | some m =>
      cases h3 : atoi ((i.drop 4).take 2) with
      | none => rfl
      | some s =>
        cases h4 : atoi ((i.drop 6).take 2) with
        | none => rfl
        | some f =>
          simp only
          rw [stlCombineW_eq ceil (atoi_take2 h1) (atoi_take2 h2) (atoi_take2 h3) (atoi_take2 h4) hr]

/-- `parseDurationSTLBytes` in `int64` -/
def parseSTLBytesW (ceil : Bool) (b : List Nat) (fr : Int) : Int :=
  match b with
  | [h, m, s, f] => stlCombineW ceil (h : Int) (m : Int) (s : Int) (f : Int) fr
  | _ => 0

/-- the four operands are bytes -/
def BytesOK (b : List Nat) : Prop := ∀ x ∈ b, x < 256

instance (b : List Nat) : Decidable (BytesOK b) := by unfold BytesOK; infer_instance

theorem parseSTLBytesW_eq (ceil : Bool) (b : List Nat) (fr : Int) (hb : BytesOK b)
    (hr : 0 < fr ∧ fr ≤ 2147483648) : parseSTLBytesW ceil b fr = parseSTLBytes ceil b fr := by
  unfold parseSTLBytesW parseSTLBytes
  split
  · rename_i h m s f
    have hh := hb h (by simp)
    have hm := hb m (by simp)
    have hs := hb s (by simp)
    have hf := hb f (by simp)
    exact stlCombineW_eq ceil (by omega) (by omega) (by omega) (by omega) hr
  · rename_i hne
    split
    · exact absurd rfl (hne _ _ _ _)
    · rfl

example : BytesOK [23, 59, 59, 24] := by decide

/-- the integer steps of `formatDurationSTL` / `formatDurationSTLBytes` in `int64`: the deltas
    `int(math.Floor(d.Hours()))` … are the integer quotients (that is `Props/C16float`), the chain
    `d -= Duration(delta) * unit` and `int(d.Nanoseconds()) * framerate / 1e9` are evaluated here -/
def stlFieldsW (t : Int) (fr : Int) : Int × Int × Int × Int :=
  let h := wdiv t nsPerH
  let d1 := wsub t (wmul h nsPerH)
  let m := wdiv d1 nsPerMin
  let d2 := wsub d1 (wmul m nsPerMin)
  let s := wdiv d2 nsPerS
  let d3 := wsub d2 (wmul s nsPerS)
  let f := wdiv (wmul d3 fr) 1000000000
  (h, m, s, f)

/-- the fields the integer model of the STL formatters uses -/
def stlFields (t : Int) (fr : Nat) : Nat × Nat × Nat × Nat :=
  let n := t.toNat
  (n / 3600000000000, n % 3600000000000 / 60000000000, n % 60000000000 / 1000000000,
   n % 1000000000 * fr / 1000000000)

theorem formatSTLBytes_fields (t : Int) (fr : Nat) :
    formatSTLBytes t fr = [(stlFields t fr).1 % 256, (stlFields t fr).2.1, (stlFields t fr).2.2.1,
      (stlFields t fr).2.2.2] := rfl

theorem formatSTL_fields (t : Int) (fr : Nat) :
    formatSTL t fr = pad2 (stlFields t fr).1 ++ pad2 (stlFields t fr).2.1 ++ pad2 (stlFields t fr).2.2.1
      ++ pad2 (stlFields t fr).2.2.2 := rfl

/-- **the integer steps of the STL formatters never wrap** for `0 ≤ t` and a frame rate up to 2^33:
    the `int64` evaluation yields exactly the fields of the integer model -/
theorem stlFieldsW_eq (t : Int) (fr : Nat) (ht : fits64 t) (h0 : 0 ≤ t) (hr : fr ≤ 8589934592) :
    stlFieldsW t fr = (((stlFields t fr).1 : Int), ((stlFields t fr).2.1 : Int),
      ((stlFields t fr).2.2.1 : Int), ((stlFields t fr).2.2.2 : Int)) := by
  obtain ⟨n, rfl⟩ := Int.eq_ofNat_of_zero_le h0
  unfold stlFieldsW stlFields nsPerH nsPerMin nsPerS
  dsimp only
  rw [Int.toNat_natCast]
  generalize hN : (n : Int) = N at *
  unfold fits64 at ht
  have eh : wdiv N 3600000000000 = N / 3600000000000 := by
    rw [wdiv_eq (by unfold fits64; omega) (by decide), Int.tdiv_eq_ediv_of_nonneg h0]
  rw [eh]
  have e1 : wmul (N / 3600000000000) 3600000000000 = N / 3600000000000 * 3600000000000 :=
    wmul_eq (by unfold fits64; omega)
  rw [e1]
  have d1 : wsub N (N / 3600000000000 * 3600000000000) = N % 3600000000000 := by
    rw [wsub_eq (by unfold fits64; omega)]; omega
  rw [d1]
  have em : wdiv (N % 3600000000000) 60000000000 = N % 3600000000000 / 60000000000 := by
    rw [wdiv_eq (by unfold fits64; omega) (by decide), Int.tdiv_eq_ediv_of_nonneg (by omega)]
  rw [em]
  have e2 : wmul (N % 3600000000000 / 60000000000) 60000000000
      = N % 3600000000000 / 60000000000 * 60000000000 := wmul_eq (by unfold fits64; omega)
  rw [e2]
  have d2 : wsub (N % 3600000000000) (N % 3600000000000 / 60000000000 * 60000000000) = N % 60000000000 := by
    rw [wsub_eq (by unfold fits64; omega)]; omega
  rw [d2]
  have es : wdiv (N % 60000000000) 1000000000 = N % 60000000000 / 1000000000 := by
    rw [wdiv_eq (by unfold fits64; omega) (by decide), Int.tdiv_eq_ediv_of_nonneg (by omega)]
  rw [es]
  have e3 : wmul (N % 60000000000 / 1000000000) 1000000000
      = N % 60000000000 / 1000000000 * 1000000000 := wmul_eq (by unfold fits64; omega)
  rw [e3]
  have d3 : wsub (N % 60000000000) (N % 60000000000 / 1000000000 * 1000000000) = N % 1000000000 := by
    rw [wsub_eq (by unfold fits64; omega)]; omega
  rw [d3]
  have hp0 : 0 ≤ N % 1000000000 * (fr : Int) := Int.mul_nonneg (by omega) (by omega)
  have hp1 : N % 1000000000 * (fr : Int) ≤ 999999999 * 8589934592 :=
    Int.mul_le_mul (by omega) (by omega) (by omega) (by decide)
  have e4 : wmul (N % 1000000000) (fr : Int) = N % 1000000000 * (fr : Int) :=
    wmul_eq (by unfold fits64; omega)
  rw [e4]
  have ef : wdiv (N % 1000000000 * (fr : Int)) 1000000000 = N % 1000000000 * (fr : Int) / 1000000000 := by
    rw [wdiv_eq (by unfold fits64; omega) (by decide), Int.tdiv_eq_ediv_of_nonneg hp0]
  rw [ef]
  subst hN
  simp only [Int.natCast_ediv, Int.natCast_emod, Int.natCast_mul]
  rfl
example : fits64 86399999999999 ∧ (0 : Int) ≤ 86399999999999 ∧ (30 : Nat) ≤ 8589934592 := by decide

/-- the rate bound cannot be dropped: at 2^34 frames per second the product `rem * framerate` wraps -/
example : (stlFieldsW 999999999 17179869184).2.2.2 ≠ ((stlFields 999999999 17179869184).2.2.2 : Int) := by
  decide

end Ovf
end Astisub
