import Astisub.Lemmas.VTTRead2Defs
import Astisub.Lemmas.SSA2Fix

/-!
# Lemmas/VTTRead2Region — a `Region: ` line of the decoder's class, read by the model

`regionParts_of_regionLine`: when the decoder `Spec.VTT.regionLine` accepts a line (and its
canonical `lines` value has at most 18 digits, so that it fits the library's `int`), the reader's
loop `VTT.regionParts` over the same parts succeeds, and the region it defines, seen through
`regionView`, is the decoder's region.
-/

namespace Astisub
namespace VTTRead
open Go Spec.VTT List

/-! ### digit strings -/

theorem isDigit_digitChar {c : Char} (h : isDigit c = true) : ∃ k, k < 10 ∧ c = digitChar k := by
  unfold isDigit at h
  simp only [Bool.and_eq_true, decide_eq_true_eq] at h
  obtain ⟨h1, h2⟩ := h
  have h1' : 48 ≤ c.toNat := h1
  have h2' : c.toNat ≤ 57 := h2
  refine ⟨c.toNat - 48, by omega, ?_⟩
  unfold digitChar
  have : 48 + (c.toNat - 48) = c.toNat := by omega
  rw [this, Char.ofNat_toNat]

theorem digitStr_of_all {s : Str} (h : s.all isDigit = true) : DigitStr s := by
  intro c hc
  exact isDigit_digitChar (all_eq_true.mp h c hc)

theorem natOf_some {s : Str} {n : Nat} (h : natOf s = some n) : s ≠ [] ∧ DigitStr s ∧ natOfDigits s = n := by
  unfold natOf at h
  split at h
  · exact absurd h (by simp)
  · rename_i hc
    simp only [Bool.or_eq_true, Bool.not_eq_true', not_or, Bool.not_eq_false] at hc
    refine ⟨?_, digitStr_of_all hc.2, ?_⟩
    · intro e; subst e; simp at hc
    · simpa [natOfDigits] using h

theorem natOfDigits_nil : natOfDigits [] = 0 := rfl

theorem natOfDigits_zero_cons (s : Str) : natOfDigits ('0' :: s) = natOfDigits s := by
  simp [natOfDigits]

theorem natOfDigits_dropZeros (s : Str) : natOfDigits (s.dropWhile (· = '0')) = natOfDigits s := by
  induction s with
  | nil => rfl
  | cons c s ih =>
    by_cases hc : c = '0'
    · subst hc
      rw [dropWhile_cons_of_pos (by simp), ih, natOfDigits_zero_cons]
    · rw [dropWhile_cons_of_neg (by simpa using hc)]

theorem digitStr_dropZeros {s : Str} (h : DigitStr s) : DigitStr (s.dropWhile (· = '0')) :=
  fun c hc => h c ((dropWhile_sublist _).subset hc)

theorem head_dropZeros (s : Str) : (s.dropWhile (· = '0')).head? ≠ some '0' := by
  induction s with
  | nil => simp
  | cons c s ih =>
    by_cases hc : c = '0'
    · subst hc
      rw [dropWhile_cons_of_pos (by simp)]; exact ih
    · rw [dropWhile_cons_of_neg (by simpa using hc)]
      simpa using hc

theorem snoc_induction {P : Str → Prop} (nil : P []) (append_singleton : ∀ a c, P a → P (a ++ [c])) (s : Str) : P s := by
  have : ∀ r : Str, P r.reverse := by
    intro r
    induction r with
    | nil => exact nil
    | cons c r ih => rw [reverse_cons]; exact append_singleton _ _ ih
  simpa using this s.reverse

theorem natOfDigits_lt {s : Str} : DigitStr s → natOfDigits s < 10 ^ s.length := by
  induction s using snoc_induction with
  | nil => intro _; simp [natOfDigits]
  | append_singleton a c ih =>
    intro hd
    obtain ⟨k, hk, hc⟩ := hd c (by simp)
    subst hc
    have := ih (fun y hy => hd y (by simp [hy]))
    rw [natOfDigits_snoc, digitChar_sub48' hk, length_append, length_singleton, Nat.pow_succ]
    omega

/-- a digit string without leading zero is what `strconv.Itoa` prints for its value -/
theorem itoaAux_canon (s : Str) : DigitStr s → s ≠ [] → s.head? ≠ some '0' →
    1 ≤ natOfDigits s ∧ ∀ fuel acc, natOfDigits s < fuel → itoaAux fuel (natOfDigits s) acc = s ++ acc := by
  induction s using snoc_induction with
  | nil => intro _ h; exact absurd rfl h
  | append_singleton a c ih =>
    intro hd _ hh
    obtain ⟨k, hk, hc⟩ := hd c (by simp)
    subst hc
    rw [natOfDigits_snoc, digitChar_sub48' hk]
    cases a with
    | nil =>
      have hk0 : k ≠ 0 := by
        intro e; subst e; exact hh (by decide)
      refine ⟨by simp [natOfDigits]; omega, ?_⟩
      intro fuel acc hf
      cases fuel with
      | zero => omega
      | succ fuel => simp [natOfDigits, itoaAux, hk]
    | cons x xs =>
      obtain ⟨h1, h2⟩ := ih (fun y hy => hd y (mem_append_left _ hy)) (by simp) (by simpa using hh)
      refine ⟨by omega, ?_⟩
      intro fuel acc hf
      cases fuel with
      | zero => omega
      | succ fuel =>
        have h10 : ¬ (natOfDigits (x :: xs) * 10 + k < 10) := by omega
        have e1 : (natOfDigits (x :: xs) * 10 + k) / 10 = natOfDigits (x :: xs) := by omega
        have e2 : (natOfDigits (x :: xs) * 10 + k) % 10 = k := by omega
        rw [itoaAux, if_neg h10, e1, e2, h2 fuel _ (by omega)]
        simp

theorem itoaNat_canon {s : Str} (hd : DigitStr s) (hne : s ≠ []) (hh : s.head? ≠ some '0') :
    itoaNat (natOfDigits s) = s := by
  unfold itoaNat
  rw [(itoaAux_canon s hd hne hh).2 _ _ (by omega), append_nil]

/-- `Itoa` of the value of a digit string: the string without its leading zeros -/
theorem itoaNat_dropZeros {s : Str} (hd : DigitStr s) (hv : natOfDigits s ≠ 0) :
    itoaNat (natOfDigits s) = s.dropWhile (· = '0') := by
  have hne : s.dropWhile (· = '0') ≠ [] := by
    intro e
    have := natOfDigits_dropZeros s
    rw [e, natOfDigits_nil] at this
    exact hv this.symm
  have := itoaNat_canon (digitStr_dropZeros hd) hne (head_dropZeros s)
  rwa [natOfDigits_dropZeros] at this

theorem atoi_digits {s : Str} (hd : DigitStr s) (hne : s ≠ []) (hb : natOfDigits s ≤ int64Max) :
    atoi s = some (natOfDigits s : Int) := by
  cases s with
  | nil => exact absurd rfl hne
  | cons c cs =>
    obtain ⟨h1, h2⟩ := hd.head_ne_sign
    have hp : parseDigits (c :: cs) = some (natOfDigits (c :: cs)) := by
      unfold parseDigits
      simp only [isEmpty_cons, Bool.false_eq_true, if_false]
      rw [digitsVal_digitStr hd 0]; rfl
    unfold atoi
    split
    · rename_i r heq; simp at heq; exact absurd heq.1 h1
    · rename_i r heq; simp at heq; exact absurd heq.1 h2
    · rw [hp]; simp [hb]

/-! ### the reader's loop over `key=value` parts -/

/-- the decoder's reading of a part -/
def kvOf (p : Str) : Option (Str × Str) := match splitC '=' p with | [k, v] => some (k, v) | _ => none

theorem kvOf_some {p k v : Str} (h : kvOf p = some (k, v)) : splitC '=' p = [k, v] := by
  unfold kvOf at h
  split at h
  · rename_i k' v' heq
    simp only [Option.some.injEq, Prod.mk.injEq] at h
    rw [heq, h.1, h.2]
  · exact absurd h (by simp)

/-- what one part does to the reader's accumulator -/
def upd (k v : Str) (r : VTT.RegAcc) : VTT.RegAcc :=
  if k = "id".toList then { r with id := v }
  else if k = "lines".toList then { r with lines := (atoi v).getD 0 }
  else if k = "regionanchor".toList then { r with anchor := v }
  else if k = "scroll".toList then { r with scroll := v }
  else if k = "viewportanchor".toList then { r with viewport := v }
  else if k = "width".toList then { r with width := v }
  else r

theorem regionParts_step (p k v : Str) (ps : List Str) (r : VTT.RegAcc) (hp : kvOf p = some (k, v))
    (hl : k = "lines".toList → (atoi v).isSome = true) :
    VTT.regionParts (p :: ps) r = VTT.regionParts ps (upd k v r) := by
  have hs := kvOf_some hp
  rw [VTT.regionParts, hs]
  simp only
  unfold upd
  split
  · rfl
  · split
    · rename_i hk
      obtain ⟨n, hn⟩ := Option.isSome_iff_exists.mp (hl hk)
      rw [hn]; rfl
    · simp only [apply_ite (VTT.regionParts ps)]

theorem regionParts_kvs : ∀ (kvs : List (Str × Str)) (ps : List Str) (r : VTT.RegAcc),
    ps.map kvOf = kvs.map some → (∀ v, ("lines".toList, v) ∈ kvs → (atoi v).isSome = true) →
    VTT.regionParts ps r = some (kvs.foldl (fun r kv => upd kv.1 kv.2 r) r) := by
  intro kvs
  induction kvs with
  | nil =>
    intro ps r h _
    cases ps with
    | nil => rfl
    | cons p ps => simp at h
  | cons kv kvs ih =>
    intro ps r h hl
    cases ps with
    | nil => simp at h
    | cons p ps =>
      obtain ⟨k, v⟩ := kv
      simp only [map_cons, cons.injEq] at h
      rw [regionParts_step p k v ps r h.1 (fun hk => hl v (by simp [hk])),
        ih ps _ h.2 (fun v hv => hl v (mem_cons_of_mem _ hv))]
      rfl

/-- a field written by exactly one key: after the loop it holds the (only) value listed for the key -/
theorem foldl_upd_field {α : Type} (f : VTT.RegAcc → α) (key : Str) (g : Str → α)
    (hf : ∀ k v r, f (upd k v r) = if k = key then g v else f r) :
    ∀ (kvs : List (Str × Str)) (r : VTT.RegAcc), (kvs.map (·.1)).Nodup →
      f (kvs.foldl (fun r kv => upd kv.1 kv.2 r) r) = ((kvs.lookup key).map g).getD (f r) := by
  intro kvs
  induction kvs with
  | nil => intro r _; rfl
  | cons kv kvs ih =>
    intro r hnd
    obtain ⟨k, v⟩ := kv
    simp only [map_cons, nodup_cons] at hnd
    rw [foldl_cons, ih _ hnd.2, hf, lookup_cons]
    by_cases hk : k = key
    · subst hk
      have : kvs.lookup k = none := by
        rw [lookup_eq_none_iff]
        intro a ha
        simp only [bne_iff_ne, ne_eq]
        intro hka
        apply hnd.1
        rw [hka]
        exact mem_map_of_mem ha
      simp [this]
    · have : (key == k) = false := by simpa using fun e => hk e.symm
      simp [this, hk]

theorem upd_id (k v : Str) (r : VTT.RegAcc) : (upd k v r).id = if k = "id".toList then v else r.id := by
  unfold upd
  repeat' split
  all_goals first | rfl | simp_all (config := { decide := true })

theorem upd_lines (k v : Str) (r : VTT.RegAcc) :
    (upd k v r).lines = if k = "lines".toList then (atoi v).getD 0 else r.lines := by
  unfold upd
  repeat' split
  all_goals first | rfl | simp_all (config := { decide := true })

theorem upd_anchor (k v : Str) (r : VTT.RegAcc) :
    (upd k v r).anchor = if k = "regionanchor".toList then v else r.anchor := by
  unfold upd
  repeat' split
  all_goals first | rfl | simp_all (config := { decide := true })

theorem upd_scroll (k v : Str) (r : VTT.RegAcc) :
    (upd k v r).scroll = if k = "scroll".toList then v else r.scroll := by
  unfold upd
  repeat' split
  all_goals first | rfl | simp_all (config := { decide := true })

theorem upd_viewport (k v : Str) (r : VTT.RegAcc) :
    (upd k v r).viewport = if k = "viewportanchor".toList then v else r.viewport := by
  unfold upd
  repeat' split
  all_goals first | rfl | simp_all (config := { decide := true })

theorem upd_width (k v : Str) (r : VTT.RegAcc) :
    (upd k v r).width = if k = "width".toList then v else r.width := by
  unfold upd
  repeat' split
  all_goals first | rfl | simp_all (config := { decide := true })

/-! ### the region the reader defines, seen by the driver -/

theorem reg_keys_pairwise (a b c d e : Option Str) :
    ([("WebVTTLines", a), ("WebVTTRegionAnchor", b), ("WebVTTScroll", c), ("WebVTTViewportAnchor", d),
      ("WebVTTWidth", e)] : List (String × Option Str)).Pairwise (fun x y => x.1 ≠ y.1) := by
  simp [pairwise_cons]

theorem srt_kvGet_eq (a : Attrs) (k : String) : SRT.kvGet a k = SSA.kvGet a k := rfl

theorem regionView_regionDef (acc : VTT.RegAcc) :
    regionView (VTT.regionDef acc) =
      { id := acc.id, lines := if acc.lines = 0 then [] else itoa acc.lines, anchor := acc.anchor,
        scroll := acc.scroll, viewport := acc.viewport, width := acc.width } := by
  unfold regionView VTT.regionDef Driver.attrStr
  simp only [srt_kvGet_eq]
  rw [SSA.kvGet_mkAttrs_mem _ (reg_keys_pairwise _ _ _ _ _) "WebVTTLines" _ (.head _),
    SSA.kvGet_mkAttrs_mem _ (reg_keys_pairwise _ _ _ _ _) "WebVTTRegionAnchor" _ (.tail _ (.head _)),
    SSA.kvGet_mkAttrs_mem _ (reg_keys_pairwise _ _ _ _ _) "WebVTTScroll" _ (.tail _ (.tail _ (.head _))),
    SSA.kvGet_mkAttrs_mem _ (reg_keys_pairwise _ _ _ _ _) "WebVTTViewportAnchor" _ (.tail _ (.tail _ (.tail _ (.head _)))),
    SSA.kvGet_mkAttrs_mem _ (reg_keys_pairwise _ _ _ _ _) "WebVTTWidth" _ (.tail _ (.tail _ (.tail _ (.tail _ (.head _)))))]
  simp only [SSA.optStr_getD]
  congr 1
  split <;> rfl

/-! ### the decoder, taken apart -/

/-- `regionLine` after the parts are read as `key=value` pairs -/
def regionOfKvs (kvs : List (Str × Str)) : Option GRegion :=
  let keys := kvs.map (·.1)
  let known := ["id", "width", "lines", "regionanchor", "viewportanchor", "scroll"].map String.toList
  if !(keys.all (known.contains ·)) || !keys.Nodup || !(keys.contains "id".toList) || kvs.any (fun kv => kv.2.isEmpty) then none else
  let get (k : String) : Str := (kvs.lookup k.toList).getD []
  if get "lines" ≠ [] && (natOf (get "lines")).isNone then none else
  let ln := if (natOf (get "lines")) = some 0 then [] else
    (get "lines").dropWhile (· = '0')
  some { id := get "id", lines := ln, anchor := get "regionanchor", scroll := get "scroll", viewport := get "viewportanchor", width := get "width" }

theorem regionLine_eq (l : Str) :
    regionLine l = match dropPrefix? "Region: ".toList l with
      | none => none
      | some rest =>
        if ((splitC ' ' rest).map kvOf).any (·.isNone) then none
        else regionOfKvs (((splitC ' ' rest).map kvOf).filterMap id) := rfl

theorem map_some_filterMap {α : Type} : ∀ (l : List (Option α)), l.any (·.isNone) = false →
    l = (l.filterMap id).map some := by
  intro l
  induction l with
  | nil => intro _; rfl
  | cons a l ih =>
    intro h
    simp only [any_cons, Bool.or_eq_false_iff] at h
    cases a with
    | none => simp at h
    | some x =>
      rw [filterMap_cons_some (by rfl : id (some x) = some x), map_cons, ← ih h.2]

theorem regionOfKvs_some {kvs : List (Str × Str)} {r : GRegion} (h : regionOfKvs kvs = some r) :
    (kvs.map (·.1)).Nodup ∧ (∀ kv ∈ kvs, kv.2 ≠ []) ∧
    ((kvs.lookup "lines".toList).getD [] = [] ∨ (natOf ((kvs.lookup "lines".toList).getD [])).isSome = true) ∧
    r = { id := (kvs.lookup "id".toList).getD [],
          lines := if natOf ((kvs.lookup "lines".toList).getD []) = some 0 then []
                   else ((kvs.lookup "lines".toList).getD []).dropWhile (· = '0'),
          anchor := (kvs.lookup "regionanchor".toList).getD [], scroll := (kvs.lookup "scroll".toList).getD [],
          viewport := (kvs.lookup "viewportanchor".toList).getD [], width := (kvs.lookup "width".toList).getD [] } := by
  unfold regionOfKvs at h
  simp only at h
  split at h
  · exact absurd h (by simp)
  · rename_i h1
    split at h
    · exact absurd h (by simp)
    · rename_i h2
      simp only [Bool.or_eq_true, Bool.not_eq_true', not_or, Bool.not_eq_false, decide_eq_false_iff_not,
        Decidable.not_not, any_eq_true, not_exists, not_and] at h1
      simp only [Bool.and_eq_true, decide_eq_true_eq, not_and, Bool.not_eq_true, Option.isNone_eq_false_iff] at h2
      refine ⟨h1.1.1.2, ?_, ?_, ?_⟩
      · intro kv hkv e
        exact h1.2 kv hkv (by simp [e])
      · by_cases hL : (kvs.lookup "lines".toList).getD [] = []
        · exact Or.inl hL
        · exact Or.inr (by simpa using h2 hL)
      · simp only [Option.some.injEq] at h
        exact h.symm

/-! ### the `lines` setting -/

theorem pow18_le : 10 ^ 18 ≤ int64Max := by decide

theorem lines_some (v : Str) (n : Nat) (hn : natOf v = some n)
    (hb : (if natOf v = some 0 then [] else v.dropWhile (· = '0')).length ≤ 18) :
    atoi v = some (n : Int) ∧
    (if (n : Int) = 0 then [] else itoa (n : Int)) = if natOf v = some 0 then [] else v.dropWhile (· = '0') := by
  obtain ⟨hne, hd, hv⟩ := natOf_some hn
  rw [hn] at hb ⊢
  by_cases h0 : n = 0
  · subst h0
    refine ⟨?_, by simp⟩
    have := atoi_digits hd hne (by rw [hv]; decide)
    rwa [hv] at this
  · have hs : (some n = some 0) = False := by simp [h0]
    simp only [hs, if_false] at hb ⊢
    have hlt := natOfDigits_lt (digitStr_dropZeros hd)
    rw [natOfDigits_dropZeros, hv] at hlt
    have hle : n ≤ int64Max := by
      have h1 : 10 ^ (v.dropWhile (· = '0')).length ≤ 10 ^ 18 := Nat.pow_le_pow_right (by decide) hb
      have h2 := pow18_le
      omega
    refine ⟨?_, ?_⟩
    · have := atoi_digits hd hne (by rw [hv]; exact hle)
      rwa [hv] at this
    · have hi : ¬ ((n : Int) = 0) := by omega
      rw [if_neg hi]
      unfold itoa
      rw [if_neg (by omega), Int.toNat_natCast, ← hv]
      exact itoaNat_dropZeros hd (by rw [hv]; exact h0)

/-! ### the theorem -/

theorem regionParts_of_regionLine (l : Str) (r : GRegion) (h : regionLine l = some r)
    (hb : r.lines.length ≤ 18) :
    ∃ acc, VTT.regionParts (splitC ' ' (trimPrefix "Region: ".toList l)) {} = some acc ∧
           regionView (VTT.regionDef acc) = r := by
  rw [regionLine_eq] at h
  split at h
  · exact absurd h (by simp)
  · rename_i rest hrest
    have htp : trimPrefix "Region: ".toList l = rest := by
      unfold trimPrefix; rw [hrest]; rfl
    rw [htp]
    split at h
    · exact absurd h (by simp)
    · rename_i hany
      have hmap := map_some_filterMap _ (Bool.eq_false_iff.mpr hany)
      generalize ((splitC ' ' rest).map kvOf).filterMap id = kvs at h hmap
      obtain ⟨hnd, hval, hnat, hr⟩ := regionOfKvs_some h
      have hpw : kvs.Pairwise (fun a b => a.1 ≠ b.1) := pairwise_map.mp hnd
      -- the `lines` value, if any
      have hlines : ∀ v, kvs.lookup "lines".toList = some v →
          atoi v = some ((natOfDigits v : Nat) : Int) ∧
          (if ((natOfDigits v : Nat) : Int) = 0 then [] else itoa ((natOfDigits v : Nat) : Int)) = r.lines := by
        intro v hv
        have hmem : ("lines".toList, v) ∈ kvs := (SSA.lookup_some_iff kvs hpw _ _).mp hv
        have hvne : v ≠ [] := hval _ hmem
        rw [hv, Option.getD_some] at hnat
        rcases hnat with e | hs
        · exact absurd e hvne
        · obtain ⟨n, hn⟩ := Option.isSome_iff_exists.mp hs
          have hrl : r.lines = if natOf v = some 0 then [] else v.dropWhile (· = '0') := by
            rw [hr, hv, Option.getD_some]
          rw [hrl] at hb ⊢
          have := lines_some v n hn hb
          rwa [← (natOf_some hn).2.2] at this
      refine ⟨_, regionParts_kvs kvs _ {} hmap ?_, ?_⟩
      · intro v hv
        rw [(hlines v ((SSA.lookup_some_iff kvs hpw _ _).mpr hv)).1]; rfl
      · rw [regionView_regionDef,
          foldl_upd_field (·.id) _ (fun v => v) upd_id kvs {} hnd,
          foldl_upd_field (·.lines) _ _ upd_lines kvs {} hnd,
          foldl_upd_field (·.anchor) _ (fun v => v) upd_anchor kvs {} hnd,
          foldl_upd_field (·.scroll) _ (fun v => v) upd_scroll kvs {} hnd,
          foldl_upd_field (·.viewport) _ (fun v => v) upd_viewport kvs {} hnd,
          foldl_upd_field (·.width) _ (fun v => v) upd_width kvs {} hnd]
        have hl : (if ((kvs.lookup "lines".toList).map fun v => (atoi v).getD 0).getD (0 : Int) = 0 then []
            else itoa (((kvs.lookup "lines".toList).map fun v => (atoi v).getD 0).getD 0)) = r.lines := by
          cases hv : kvs.lookup "lines".toList with
          | none =>
            rw [hr, hv]
            simp
          | some v =>
            obtain ⟨h1, h2⟩ := hlines v hv
            simp only [Option.map_some, Option.getD_some, h1]
            exact h2
        rw [hl, hr]
        simp

/-- non-vacuity: the decoder accepts such a line -/
example : (regionLine "Region: id=a lines=3 width=40%".toList).isSome = true := by decide

example : regionLine "Region: id=a lines=007 width=40%".toList =
    some { id := "a".toList, lines := "7".toList, anchor := [], scroll := [], viewport := [], width := "40%".toList } := by
  decide

end VTTRead
end Astisub
