import Astisub.Model.Graph
import Astisub.Spec.Reach

namespace Astisub
open Graph Spec List

/-- `used` contains, with every identifier, all its ancestors (w.r.t. the chains of `g`) -/
def Closed (g : Graph) (used : List String) : Prop :=
  ∀ c ∈ allChains g, ∀ (id : String) (r : IdChain), (id :: r) <:+ c → id ∈ used → ∀ x ∈ r, x ∈ used

theorem consistent_nodup (g : Graph) (hc : Consistent g) : ∀ c ∈ allChains g, c.Nodup := by
  intro c hcm
  -- strengthen: every suffix of c is Nodup
  suffices h : ∀ s, s <:+ c → s.Nodup from h c (suffix_refl c)
  intro s
  induction s with
  | nil => intro _; exact nodup_nil
  | cons i q ih =>
    intro hs
    have hq : q <:+ c := (suffix_cons i q).trans hs
    refine nodup_cons.mpr ⟨?_, ih hq⟩
    intro hmem
    obtain ⟨q1, q2, rfl⟩ := append_of_mem hmem
    have h2 : (i :: q2) <:+ c := (suffix_append q1 (i :: q2)).trans hq
    have := hc c hcm c hcm i _ _ hs h2
    have hl := congrArg List.length this
    simp at hl; omega

/-- the marking loop with early exit adds exactly the identifiers of the chain -/
theorem markChain_mem (g : Graph) (hc : Consistent g) (used₀ : List String) (hcl : Closed g used₀)
    (pre c : IdChain) (hm : pre ++ c ∈ allChains g) (acc : List String)
    (hacc : ∀ x, x ∈ acc ↔ x ∈ used₀ ∨ x ∈ pre) :
    ∀ x, x ∈ markChain acc c ↔ x ∈ used₀ ∨ x ∈ pre ∨ x ∈ c := by
  induction c generalizing pre acc with
  | nil => intro x; simp [markChain, hacc]
  | cons id rest ih =>
    intro x
    have hnd := consistent_nodup g hc _ hm
    have hnpre : id ∉ pre := by
      intro h
      have := (nodup_append.mp hnd).2.2 id h id (by simp)
      exact this rfl
    unfold markChain
    by_cases hid : id ∈ acc
    · simp only [hid, ↓reduceIte]
      have hid0 : id ∈ used₀ := by
        rcases (hacc id).mp hid with h | h
        · exact h
        · exact absurd h hnpre
      have hrest : ∀ y ∈ rest, y ∈ used₀ := hcl _ hm id rest (suffix_append pre _) hid0
      rw [hacc]
      constructor
      · rintro (h | h)
        · exact Or.inl h
        · exact Or.inr (Or.inl h)
      · rintro (h | h | h)
        · exact Or.inl h
        · exact Or.inr h
        · rcases mem_cons.mp h with rfl | h
          · exact Or.inl hid0
          · exact Or.inl (hrest x h)
    · simp only [hid, ↓reduceIte]
      have := ih (pre ++ [id]) (by simpa using hm) (id :: acc) (by
        intro y; simp only [mem_cons, hacc, mem_append, not_mem_nil, or_false]
        constructor
        · rintro (h | h | h)
          · exact Or.inr (Or.inr h)
          · exact Or.inl h
          · exact Or.inr (Or.inl h)
        · rintro (h | h | h)
          · exact Or.inr (Or.inl h)
          · exact Or.inr (Or.inr h)
          · exact Or.inl h) x
      rw [this]
      simp only [mem_append, mem_cons, not_mem_nil, or_false]
      constructor
      · rintro (h | (h | h) | h)
        · exact Or.inl h
        · exact Or.inr (Or.inl h)
        · exact Or.inr (Or.inr (Or.inl h))
        · exact Or.inr (Or.inr (Or.inr h))
      · rintro (h | h | h | h)
        · exact Or.inl h
        · exact Or.inr (Or.inl (Or.inl h))
        · exact Or.inr (Or.inl (Or.inr h))
        · exact Or.inr (Or.inr h)

theorem markChain_spec (g : Graph) (hc : Consistent g) (used : List String) (hcl : Closed g used)
    (c : IdChain) (hm : c ∈ allChains g) :
    (∀ x, x ∈ markChain used c ↔ x ∈ used ∨ x ∈ c) ∧ Closed g (markChain used c) := by
  have hmem : ∀ x, x ∈ markChain used c ↔ x ∈ used ∨ x ∈ c := by
    intro x
    have := markChain_mem g hc used hcl [] c (by simpa using hm) used (by simp) x
    simpa using this
  refine ⟨hmem, ?_⟩
  intro c' hc' id r hsuf hid x hx
  rw [hmem] at hid ⊢
  rcases hid with hid | hid
  · exact Or.inl (hcl c' hc' id r hsuf hid x hx)
  · obtain ⟨p, q, rfl⟩ := append_of_mem hid
    have h2 : (id :: q) <:+ (p ++ id :: q) := suffix_append p _
    have := hc c' hc' _ hm id r q hsuf h2
    subst this
    exact Or.inr (by simp [hx])

/-- marking a list of chains one after the other -/
theorem foldl_markChain_spec (g : Graph) (hc : Consistent g) (cs : List IdChain)
    (hcs : ∀ c ∈ cs, c ∈ allChains g) (used : List String) (hcl : Closed g used) :
    (∀ x, x ∈ cs.foldl markChain used ↔ x ∈ used ∨ ∃ c ∈ cs, x ∈ c) ∧ Closed g (cs.foldl markChain used) := by
  induction cs generalizing used with
  | nil => simp [hcl]
  | cons c rest ih =>
    have ⟨h1, h2⟩ := markChain_spec g hc used hcl c (hcs c (by simp))
    have ⟨h3, h4⟩ := ih (fun c' hc' => hcs c' (by simp [hc'])) (markChain used c) h2
    refine ⟨?_, h4⟩
    intro x
    rw [foldl_cons, h3, h1]
    simp only [mem_cons, exists_eq_or_imp]
    exact or_assoc

end Astisub
