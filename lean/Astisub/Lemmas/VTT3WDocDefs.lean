import Astisub.Lemmas.VTT2Example
import Astisub.Lemmas.VTT3Defs

/-!
# Lemmas/VTT3WDocDefs — vocabulary of "the independent decoder accepts every written `DocOk` document"

`docW2 s`: the (decidable) extra proviso, beyond `VTT.DocOk s`, under which `Spec.VTT.decode` accepts the
written document and the document lies in the class `InClassWith ok`.  Every conjunct has a witness
(a `DocOk` document violating only this conjunct, rejected by the decoder or outside the class) in
`Lemmas/VTT3WDoc.lean`.
-/

namespace Astisub
namespace VTT3W
open Go Spec.VTT

/-- the decoder's lines of cue `it` -/
def glOf (it : CItem) : List GLine := (cueText (it.lines.map VTT.lineBody) []).getD []

/-- the line starts with `NOTE<tab>` -/
def tabNote (l : Str) : Bool := hasPrefix "NOTE\t".toList l

/-- comment block: no `-->` in the first line (`commentsOk` allows it there; the decoder rejects any
    comment line with `-->`); no later line starts with `NOTE<tab>` (class `noteOK`) -/
def commentsW2 (cs : List Str) : Bool :=
  match cs with
  | [] => true
  | c :: rest => !contains Spec.VTT.arrow c && rest.all (fun l => !tabNote l)

/-- CSS lines: none starts with `NOTE<tab>` (the decoder's `opener`) -/
def styleW2 (s : Subs) : Bool := (VTT.styleLines s).all (fun l => !tabNote l)

/-- the `lines=` value of a region: digits only (no sign: the decoder's `natOf`), at most 18 of them
    (class `regionOK`) -/
def linesW2 (o : Option Str) : Bool :=
  match o with
  | none => true
  | some v => v.all isDigit && decide (v.length ≤ 18)

def regionW2 (s : Subs) (d : Def) : Bool := linesW2 (VTT.regSetting s d "WebVTTLines")

/-- timestamp map: `MPEGTS` is an unsigned decimal below 2^62 -/
def tsmapW2 (s : Subs) : Bool :=
  match SRT.kvGet s.metadata "WebVTTTimestampMap" with
  | none => true
  | some v =>
    match splitC ',' v with
    | [_, m] => (match natOf m with | some n => decide (n < 2 ^ 62) | none => false)
    | _ => true

/-- a cue: its comment block `commentsW2`; no text line is a region definition line with a `lines` value of
    more than 18 digits (class `regionOK`, which `blockOKWith` asks of every line of a cue block) -/
def cueW2 (it : CItem) : Bool :=
  commentsW2 it.comments && it.lines.all (fun l => VTTRead.regionOK (VTT.lineBody l))

/-- **the extra proviso**: fewer than 2^62 cues (the decoder's identifier bound), every cue `cueW2`,
    CSS lines `styleW2`, region `lines` values `regionW2`, timestamp map `tsmapW2` -/
def docW2 (s : Subs) : Bool :=
  decide (s.items.length < 2 ^ 62) && s.items.all cueW2 && styleW2 s && s.regions.all (regionW2 s) && tsmapW2 s

structure W2Facts (s : Subs) : Prop where
  len : s.items.length < 2 ^ 62
  cues : ∀ it ∈ s.items, cueW2 it = true
  sty : ∀ l ∈ VTT.styleLines s, tabNote l = false
  regs : ∀ d ∈ s.regions, regionW2 s d = true
  ts : tsmapW2 s = true

theorem docW2_facts {s : Subs} (h : docW2 s = true) : W2Facts s := by
  simp only [docW2, styleW2, Bool.and_eq_true, List.all_eq_true, decide_eq_true_eq, Bool.not_eq_true'] at h
  obtain ⟨⟨⟨⟨h1, h2⟩, h3⟩, h4⟩, h5⟩ := h
  exact ⟨h1, h2, h3, h4, h5⟩

/-! ### non-vacuity: `VTT.exDoc` with an arrow-free comment and an unsigned `MPEGTS` -/

def exCueW : CItem :=
  { VTT.exCue1 with comments := ["first line".toList, "STYLE is fine here".toList, "Region: id=too".toList] }

def exDocW : Subs :=
  { VTT.exDoc with items := [exCueW, VTT.exCue2],
                   metadata := some [("WebVTTTimestampMap".toList, "10000000123,900000".toList)] }

example : cueW2 exCueW = true ∧ cueW2 VTT.exCue2 = true := by decide
example : exDocW.regions.all (regionW2 exDocW) = true := by decide
example : tsmapW2 exDocW = true := by decide
example : linesW2 (some "3".toList) = true ∧ linesW2 (some "-3".toList) = false := by decide
example : commentsW2 ["a".toList, "NOTE x".toList] = true ∧ commentsW2 ["a --> b".toList] = false := by decide

end VTT3W
end Astisub
