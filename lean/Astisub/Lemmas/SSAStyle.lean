import Astisub.Model.SSA
import Astisub.Lemmas.SSAStr
import Astisub.Props.C04

/-!
# Lemmas/SSAStyle — one `Style:` row: `ssaStyle.string` read back by `newSSAStyleFromString`,
for the Format `ssaStyle.updateFormat` builds
-/

namespace Astisub
namespace SSA
open Go List

/-! ### cells -/

def Val.kind : Val → Kind
  | .b _ => .bool | .c _ => .colour | .f _ => .float | .i _ => .int | .s _ => .str

/-- the double survives `FormatFloat(·, 'f', 3, 64)` followed by `ParseFloat` (as the `Numconv` model computes them) -/
def floatOK (bits : Nat) : Bool :=
  match formatFloat3 bits with
  | some str => parseFloat str == .ok bits
  | none => false

/-- a value that can be a cell of column `f`: of the column's type; a 32-bit colour; a 64-bit
    integer; a double that survives three decimals; a non-empty string without comma -/
def CellOK (f : Fld) (v : Val) : Prop :=
  v.kind = f.kind ∧
  match v with
  | .b _ => True
  | .c c => c < 4294967296
  | .f bits => floatOK bits = true
  | .i i => Int64 i
  | .s str => str ≠ [] ∧ ',' ∉ str

instance (f : Fld) : (v : Val) → Decidable (CellOK f v)
  | .b w => inferInstanceAs (Decidable ((Val.b w).kind = f.kind ∧ True))
  | .c c => inferInstanceAs (Decidable ((Val.c c).kind = f.kind ∧ c < 4294967296))
  | .f bits => inferInstanceAs (Decidable ((Val.f bits).kind = f.kind ∧ floatOK bits = true))
  | .i i => inferInstanceAs (Decidable ((Val.i i).kind = f.kind ∧ Int64 i))
  | .s str => inferInstanceAs (Decidable ((Val.s str).kind = f.kind ∧ str ≠ [] ∧ ',' ∉ str))

theorem hex_ne_commaFin : ∀ d : Fin 16, hexDigitLower d.val ≠ ',' := by decide

theorem comma_not_mem_hex8 (c : Nat) : ',' ∉ hex8 c := by
  have k : ∀ n, hexDigitLower (n % 16) ≠ ',' := fun n => hex_ne_commaFin ⟨n % 16, Nat.mod_lt _ (by decide)⟩
  intro h
  simp only [hex8, mem_cons, not_mem_nil, or_false] at h
  rcases h with h | h | h | h | h | h | h | h
  all_goals exact k _ h.symm

theorem numChar_padLeft0 (w n : Nat) : ∀ c ∈ padLeft0 w (itoaNat n), numChar c = true := by
  intro c hc
  unfold padLeft0 at hc
  rcases mem_append.mp hc with h | h
  · have := (mem_replicate.mp h).2
    subst this; decide
  · exact (digitStr_itoaNat n).numChar c h

theorem formatFloat3_shape (bits : Nat) (str : Str) (h : formatFloat3 bits = some str) :
    str ≠ [] ∧ ',' ∉ str := by
  unfold formatFloat3 at h
  split at h
  · cases h
  · rename_i neg m e _
    simp only [Option.some.injEq] at h
    subst h
    constructor
    · simp
    · apply not_mem_of_numChar
      intro c hc
      simp only [mem_append, mem_cons] at hc
      rcases hc with (hc | hc) | rfl | hc
      · split at hc
        · simp at hc; subst hc; decide
        · simp at hc
      · exact (digitStr_itoaNat _).numChar c hc
      · decide
      · exact numChar_padLeft0 _ _ c hc

/-- what the writer emits for a good value is a non-empty comma-free cell that is read back as the value -/
theorem cell_roundtrip (f : Fld) (v : Val) (h : CellOK f v) :
    ∃ cell, v.ssa = some cell ∧ cell ≠ [] ∧ ',' ∉ cell ∧ parseVal f.kind cell = .ok v := by
  obtain ⟨hk, hv⟩ := h
  rw [← hk]
  cases v with
  | b b =>
    refine ⟨if b then ['1'] else ['0'], rfl, ?_, ?_, ?_⟩ <;> cases b <;> decide
  | c c =>
    have hc : c < 4294967296 := hv
    refine ⟨colourString c, rfl, by simp [colourString], ?_, ?_⟩
    · intro hm
      unfold colourString at hm
      rcases mem_append.mp hm with h | h
      · revert h; decide
      · exact comma_not_mem_hex8 c h
    · simp only [Val.kind, parseVal, C04.colour_roundtrip c hc]
  | f bits =>
    have hf : floatOK bits = true := hv
    unfold floatOK at hf
    cases hs : formatFloat3 bits with
    | none => rw [hs] at hf; cases hf
    | some str =>
      rw [hs] at hf
      have hp : parseFloat str = .ok bits := by simpa using hf
      obtain ⟨h1, h2⟩ := formatFloat3_shape bits str hs
      exact ⟨str, hs, h1, h2, by simp only [Val.kind, parseVal, hp]⟩
  | i i =>
    have hi : Int64 i := hv
    exact ⟨itoa i, rfl, itoa_ne_nil i, comma_not_mem_itoa i, by simp only [Val.kind, parseVal, atoi_itoa i hi]⟩
  | s str =>
    have hs : str ≠ [] ∧ ',' ∉ str := hv
    exact ⟨str, rfl, hs.1, hs.2, rfl⟩

/-! ### the Format -/

/-- the Format line for the attribute columns `fs` -/
def formatOf (fs : List Fld) : List Str := "Name".toList :: fs.map fun f => f.col.toList

theorem col_ne_tertiary (f : Fld) : f.col.toList ≠ "TertiaryColour".toList := by cases f <;> decide
theorem col_ne_name (f : Fld) : f.col.toList ≠ "Name".toList := by cases f <;> decide

theorem col_toList_injective (f g : Fld) (h : f.col.toList = g.col.toList) : f = g := by
  cases f <;> cases g <;> first | rfl | (exact absurd h (by decide))

/-- the text of the cell of column `f` -/
def cellOf (s : Style) (f : Fld) : Option Str :=
  match s.vals.get f with
  | some v => v.ssa
  | none => some []

theorem allSome_map_some {α} (l : List (Option α)) :
    allSome (l.map fun o => o.map some) = (allSome l).map fun cs => cs.map some := by
  induction l with
  | nil => rfl
  | cons a as ih =>
    cases a with
    | none => simp [allSome]
    | some x =>
      simp only [map_cons, Option.map_some, allSome, ih]
      cases allSome as <;> simp

theorem filterMap_id_map_some {α} (l : List α) : (l.map some).filterMap id = l := by
  induction l with
  | nil => rfl
  | cons a as ih => simp

theorem allSome_cells {α} (n : Str) (l : List α) (F : Str → Option (Option Str)) (c : α → Str) (G : α → Option Str)
    (h : ∀ a, F (c a) = (G a).map some) :
    (allSome (some none :: l.map (F ∘ c))).map (fun cs => join [','] (n :: cs.filterMap id))
      = (allSome (l.map G)).map fun cs => join [','] (n :: cs) := by
  have e : l.map (F ∘ c) = (l.map G).map fun o => o.map some := by
    rw [map_map]
    exact map_congr_left fun a _ => h a
  rw [e]
  simp only [allSome, allSome_map_some]
  cases allSome (l.map G) with
  | none => rfl
  | some cs => simp

/-- `ssaStyle.string` for the Format of columns `fs`: the name, then one cell per column -/
theorem row_formatOf (s : Style) (fs : List Fld) :
    s.row (formatOf fs) = (allSome (fs.map (cellOf s))).map fun cs => join [','] (s.name :: cs) := by
  unfold Style.row formatOf
  simp only [map_cons, C04.name_col, map_map]
  refine allSome_cells s.name fs _ _ (cellOf s) ?_
  intro f
  simp only [C04.col_roundtrip, col_ne_tertiary, ↓reduceIte, cellOf]
  cases s.vals.get f <;> rfl

/-! ### reading the row -/

theorem splitC_joined (cells : List Str) (hne : cells ≠ []) (h : ∀ p ∈ cells, ',' ∉ p) :
    splitC ',' (join [','] cells) = cells := by
  obtain ⟨pre, last, rfl⟩ : ∃ pre last, cells = pre ++ [last] :=
    ⟨cells.dropLast, cells.getLast hne, (dropLast_concat_getLast hne).symm⟩
  rw [C04.splitC_row pre last (fun p hp => h p (by simp [hp])), splitC_not_mem (h last (by simp))]

theorem set_fresh (l : Vals Fld) (f : Fld) (v : Val) (h : ∀ p ∈ l, p.1 ≠ f) : l.set f v = l ++ [(f, v)] := by
  unfold Vals.set
  rw [filter_eq_self.mpr (by intro p hp; simpa using h p hp)]

/-- the attributes of `s` in the columns `fs`, in column order -/
def pick (s : Style) (fs : List Fld) : Vals Fld := fs.filterMap fun f => (s.vals.get f).map fun v => (f, v)

/-- a style all of whose attributes can be cells -/
def StyleOK (s : Style) : Prop := ',' ∉ s.name ∧ ∀ f ∈ Fld.all, ∀ v, s.vals.get f = some v → CellOK f v

/-- `∀ v, o = some v → P v` is decided by looking at `o` -/
instance decOptAll {α} {P : α → Prop} [DecidablePred P] : (o : Option α) → Decidable (∀ v, o = some v → P v)
  | none => isTrue (by intro v h; cases h)
  | some w => decidable_of_iff (P w) ⟨fun h v hv => by cases hv; exact h, fun h => h w rfl⟩

instance (s : Style) : Decidable (StyleOK s) :=
  inferInstanceAs (Decidable (',' ∉ s.name ∧ ∀ f ∈ Fld.all, ∀ v, s.vals.get f = some v → CellOK f v))

theorem styleFields_cells (s : Style) (hs : StyleOK s) : ∀ (fs : List Fld) (cs : List Str) (st : Style),
    fs.Nodup → (∀ p ∈ st.vals, p.1 ∉ fs) → allSome (fs.map (cellOf s)) = some cs →
    styleFields st ((fs.map fun f => f.col.toList).zip cs) = .ok { st with vals := st.vals ++ pick s fs }
      ∧ cs.length = fs.length ∧ ∀ c ∈ cs, ',' ∉ c := by
  intro fs
  induction fs with
  | nil =>
    intro cs st _ _ hc
    simp only [map_nil, allSome, Option.some.injEq] at hc
    subst hc
    simp [styleFields, pick]
  | cons f fs ih =>
    intro cs st hnd hfresh hc
    simp only [map_cons, allSome] at hc
    cases hcell : cellOf s f with
    | none => rw [hcell] at hc; simp at hc
    | some c =>
      cases hrest : allSome (fs.map (cellOf s)) with
      | none => rw [hcell, hrest] at hc; simp at hc
      | some cs' =>
        rw [hcell, hrest] at hc
        simp only [Option.some.injEq] at hc
        subst hc
        have hnd' : fs.Nodup := (nodup_cons.mp hnd).2
        have hf : f ∉ fs := (nodup_cons.mp hnd).1
        simp only [map_cons, zip_cons_cons, styleFields]
        unfold cellOf at hcell
        cases hget : s.vals.get f with
        | none =>
          simp only [hget, Option.some.injEq] at hcell
          subst hcell
          have hsf : styleField st f.col.toList [] = .ok st := C04.empty_field_unset st _
          simp only [hsf]
          obtain ⟨h1, h2, h3⟩ := ih cs' st hnd' (fun p hp hm => hfresh p hp (by simp [hm])) hrest
          refine ⟨?_, by simp [h2], ?_⟩
          · rw [h1]; simp [pick, hget]
          · intro c hc
            rcases mem_cons.mp hc with rfl | hc
            · simp
            · exact h3 c hc
        | some v =>
          obtain ⟨cell, e1, e2, e3, e4⟩ := cell_roundtrip f v (hs.2 f (C04.fld_all_complete f) v hget)
          simp only [hget, e1, Option.some.injEq] at hcell
          subst hcell
          have hne : cell.isEmpty = false := by cases cell with | nil => exact absurd rfl e2 | cons _ _ => rfl
          have hsf : styleField st f.col.toList cell = .ok { st with vals := st.vals.set f v } := by
            unfold styleField
            simp only [hne, Bool.false_eq_true, ↓reduceIte, C04.col_roundtrip, e4]
          simp only [hsf]
          have hset : st.vals.set f v = st.vals ++ [(f, v)] :=
            set_fresh st.vals f v (fun p hp e => hfresh p hp (by simp [e]))
          obtain ⟨h1, h2, h3⟩ := ih cs' { st with vals := st.vals.set f v } hnd' (by
            intro p hp hm
            rw [hset] at hp
            rcases mem_append.mp hp with hp | hp
            · exact hfresh p hp (by simp [hm])
            · simp at hp; subst hp; exact hf hm) hrest
          refine ⟨?_, by simp [h2], ?_⟩
          · rw [h1, hset]; simp [pick, hget]
          · intro c hc
            rcases mem_cons.mp hc with rfl | hc
            · exact e3
            · exact h3 c hc

/-- **Style row.** for any Format `Name, <distinct attribute columns>` the row written for a good
    style exists exactly when all its cells do, and is read back as the style's name and its
    attributes in these columns -/
theorem styleRow_row (s : Style) (fs : List Fld) (hs : StyleOK s) (hnd : fs.Nodup) (row : Str)
    (hrow : s.row (formatOf fs) = some row) :
    styleRow row (formatOf fs) = .ok { name := s.name, vals := pick s fs } := by
  rw [row_formatOf] at hrow
  cases hcs : allSome (fs.map (cellOf s)) with
  | none => rw [hcs] at hrow; cases hrow
  | some cs =>
    rw [hcs] at hrow
    simp only [Option.map_some, Option.some.injEq] at hrow
    subst hrow
    have hname : styleField {} "Name".toList s.name = .ok { name := s.name } := by
      unfold styleField
      by_cases he : s.name.isEmpty
      · have : s.name = [] := by cases hn : s.name with | nil => rfl | cons _ _ => rw [hn] at he; cases he
        simp [this]
      · simp only [he, Bool.false_eq_true, ↓reduceIte, C04.name_col]
    obtain ⟨h1, h2, h3⟩ := styleFields_cells s hs fs cs { name := s.name } hnd (by intro p hp; cases hp) hcs
    unfold styleRow
    rw [splitC_joined (s.name :: cs) (by simp) (by
      intro p hp
      rcases mem_cons.mp hp with rfl | hp
      · exact hs.1
      · exact h3 p hp)]
    have hlen : ¬ (s.name :: cs).length ≠ (formatOf fs).length := by simp [formatOf, h2]
    simp only [hlen, ↓reduceIte]
    unfold formatOf
    simp only [zip_cons_cons, styleFields, hname]
    rw [h1]
    simp

/-- the row of a good style exists: every cell does -/
theorem row_exists (s : Style) (fs : List Fld) (hs : StyleOK s) : ∃ row, s.row (formatOf fs) = some row := by
  rw [row_formatOf]
  have : ∀ fs : List Fld, ∃ cs, allSome (fs.map (cellOf s)) = some cs := by
    intro fs
    induction fs with
    | nil => exact ⟨[], rfl⟩
    | cons f fs ih =>
      obtain ⟨cs, hcs⟩ := ih
      have : ∃ c, cellOf s f = some c := by
        unfold cellOf
        cases hget : s.vals.get f with
        | none => exact ⟨[], rfl⟩
        | some v =>
          obtain ⟨cell, e1, _⟩ := cell_roundtrip f v (hs.2 f (C04.fld_all_complete f) v hget)
          exact ⟨cell, e1⟩
      obtain ⟨c, hc⟩ := this
      exact ⟨c :: cs, by simp [allSome, hc, hcs]⟩
  obtain ⟨cs, hcs⟩ := this fs
  exact ⟨_, by rw [hcs]; rfl⟩

/-! ### looking attributes up in what was read -/

theorem pick_get (s : Style) (fs : List Fld) (g : Fld) :
    (pick s fs).get g = if g ∈ fs then s.vals.get g else none := by
  unfold Vals.get
  induction fs with
  | nil => simp [pick]
  | cons f fs ih =>
    unfold pick at ih ⊢
    rw [filterMap_cons]
    cases hget : Vals.get s.vals f with
    | none =>
      simp only [Option.map_none]
      rw [ih]
      by_cases hg : g = f
      · subst hg
        unfold Vals.get at hget
        simp [hget]
      · simp [hg]
    | some v =>
      simp only [Option.map_some, lookup_cons]
      by_cases hg : g = f
      · subst hg
        unfold Vals.get at hget
        simp [hget]
      · have : (g == f) = false := by simpa using hg
        rw [this, ih]
        simp [hg]

/-- when the Format has a column for every attribute the style has, all attributes come back -/
theorem pick_get_covering (s : Style) (fs : List Fld) (hcov : ∀ f, (s.vals.get f).isSome → f ∈ fs) (g : Fld) :
    (pick s fs).get g = s.vals.get g := by
  rw [pick_get]
  by_cases hg : g ∈ fs
  · simp [hg]
  · simp only [hg, ↓reduceIte]
    cases h : s.vals.get g with
    | none => rfl
    | some v => exact absurd (hcov g (by simp [h])) hg

/-! ### `updateFormat` -/

/-- `ssaStyle.updateFormat` on the attribute columns -/
def updateFlds (s : Style) (fs : List Fld) : List Fld :=
  Fld.all.foldl (fun fs f => if (s.vals.get f).isSome && !fs.contains f then fs ++ [f] else fs) fs

theorem contains_formatOf (fs : List Fld) (f : Fld) : (formatOf fs).contains f.col.toList = fs.contains f := by
  unfold formatOf
  rw [Bool.eq_iff_iff]
  simp only [contains_iff_mem, mem_cons, mem_map]
  constructor
  · rintro (h | ⟨g, hg, he⟩)
    · exact absurd h (col_ne_name f)
    · rw [col_toList_injective g f he] at hg; exact hg
  · intro h; exact Or.inr ⟨f, h, rfl⟩

theorem updateFormat_step (s : Style) : ∀ (L fs : List Fld),
    L.foldl (fun fmt f => if (s.vals.get f).isSome && !fmt.contains f.col.toList then fmt ++ [f.col.toList] else fmt) (formatOf fs)
      = formatOf (L.foldl (fun fs f => if (s.vals.get f).isSome && !fs.contains f then fs ++ [f] else fs) fs) := by
  intro L
  induction L with
  | nil => intro fs; rfl
  | cons f L ih =>
    intro fs
    simp only [foldl_cons, contains_formatOf]
    by_cases hc : ((s.vals.get f).isSome && !fs.contains f) = true
    · rw [if_pos hc, if_pos hc]
      have : formatOf fs ++ [f.col.toList] = formatOf (fs ++ [f]) := by simp [formatOf]
      rw [this, ih]
    · rw [if_neg hc, if_neg hc, ih]

/-- `updateFormat` keeps the shape `Name, <attribute columns>` -/
theorem updateFormat_formatOf (s : Style) (fs : List Fld) :
    updateFormat s (formatOf fs) = formatOf (updateFlds s fs) := updateFormat_step s Fld.all fs

theorem updateFlds_props (s : Style) : ∀ (L fs : List Fld), fs.Nodup →
    let r := L.foldl (fun fs f => if (s.vals.get f).isSome && !fs.contains f then fs ++ [f] else fs) fs
    r.Nodup ∧ (∀ f ∈ fs, f ∈ r) ∧ (∀ f ∈ L, (s.vals.get f).isSome → f ∈ r) := by
  intro L
  induction L with
  | nil => intro fs h; exact ⟨h, fun f hf => hf, by simp⟩
  | cons g L ih =>
    intro fs hnd
    simp only [foldl_cons]
    by_cases hc : ((s.vals.get g).isSome && !fs.contains g) = true
    · rw [if_pos hc]
      have hc : (s.vals.get g).isSome = true ∧ g ∉ fs := by
        simp only [Bool.and_eq_true, Bool.not_eq_true'] at hc
        refine ⟨hc.1, fun hm => ?_⟩
        have := contains_iff_mem.mpr hm
        rw [hc.2] at this
        cases this
      have hnd' : (fs ++ [g]).Nodup := by
        rw [nodup_append]
        refine ⟨hnd, by simp, ?_⟩
        intro a ha b hb
        simp at hb; subst hb
        intro e; subst e; exact hc.2 ha
      obtain ⟨h1, h2, h3⟩ := ih (fs ++ [g]) hnd'
      refine ⟨h1, fun f hf => h2 f (by simp [hf]), ?_⟩
      intro f hf hs
      rcases mem_cons.mp hf with rfl | hf
      · exact h2 f (by simp)
      · exact h3 f hf hs
    · rw [if_neg hc]
      obtain ⟨h1, h2, h3⟩ := ih fs hnd
      refine ⟨h1, h2, ?_⟩
      intro f hf hs
      rcases mem_cons.mp hf with rfl | hf
      · simp only [hs, Bool.true_and, Bool.not_eq_true', Bool.not_eq_false, contains_iff_mem] at hc
        exact h2 f hc
      · exact h3 f hf hs

/-- the attribute columns of the Format the writer builds for a list of styles -/
def formatFlds (styles : List Style) : List Fld := styles.foldl (fun fs st => updateFlds st fs) []

theorem foldl_updateFormat (styles : List Style) (fs : List Fld) :
    styles.foldl (fun fmt st => updateFormat st fmt) (formatOf fs)
      = formatOf (styles.foldl (fun fs st => updateFlds st fs) fs) := by
  induction styles generalizing fs with
  | nil => rfl
  | cons s ss ih => simp only [foldl_cons, updateFormat_formatOf, ih]

/-- **The writer's Format** is `Name` followed by distinct attribute columns -/
theorem writer_format (styles : List Style) :
    styles.foldl (fun fmt st => updateFormat st fmt) ["Name".toList] = formatOf (formatFlds styles) :=
  foldl_updateFormat styles []

theorem foldl_updateFlds_props (styles : List Style) : ∀ fs : List Fld, fs.Nodup →
    let r := styles.foldl (fun fs st => updateFlds st fs) fs
    r.Nodup ∧ (∀ f ∈ fs, f ∈ r) ∧ ∀ st ∈ styles, ∀ f, (st.vals.get f).isSome → f ∈ r := by
  induction styles with
  | nil => intro fs h; exact ⟨h, fun f hf => hf, by simp⟩
  | cons s ss ih =>
    intro fs hnd
    simp only [foldl_cons]
    obtain ⟨a1, a2, a3⟩ := updateFlds_props s Fld.all fs hnd
    obtain ⟨b1, b2, b3⟩ := ih (updateFlds s fs) a1
    refine ⟨b1, fun f hf => b2 f (a2 f hf), ?_⟩
    intro st hst f hf
    rcases mem_cons.mp hst with rfl | hst
    · exact b2 f (a3 f (C04.fld_all_complete f) hf)
    · exact b3 st hst f hf

/-- … distinct, and with a column for every attribute any of the styles has -/
theorem formatFlds_nodup (styles : List Style) : (formatFlds styles).Nodup :=
  (foldl_updateFlds_props styles [] nodup_nil).1

theorem formatFlds_covering (styles : List Style) (st : Style) (h : st ∈ styles) (f : Fld)
    (hf : (st.vals.get f).isSome) : f ∈ formatFlds styles :=
  (foldl_updateFlds_props styles [] nodup_nil).2.2 st h f hf

end SSA
end Astisub
