import Astisub.Lemmas.VTT3WText

/-!
# Lemmas/VTT3WTextWitness — why the proviso `lineW2` of the W2 text theorems is needed

Every line below satisfies `VTT.lineFit`; (a), (c), (d) violate exactly one clause of `lineW2`, and the
conclusion of `textLine_lineBody` resp. `lineOK2_lineBody` fails for them.
-/

namespace Astisub
namespace VTT3W
open Go VTT

/-- the timestamps of the runs the decoder finds on the written line -/
def decodedTs (l : Line) : Option (List (Option Nat)) :=
  (Spec.VTT.textLine ((lineBody l).length + 2) (lineBody l) { stack := [] }).map fun st => st.runs.map (·.ts)

/-- (a) an inline instant in (0, 1 ms): written `<00:00:00.000>`, decoded as the timestamp 0 -/
def wSub : Line := { items := [{ text := "a".toList }, { text := "b".toList, startAt := 999999 }] }
example : lineFit wSub = true ∧ lineW2 wSub = false ∧ tsW2 wSub.items[1]! = false := by decide
example : lineBody wSub = "a<00:00:00.000>b".toList := by decide
example : decodedTs wSub = some [none, some 0] := by decide

/-- (b) U+00A0 in a text and an inline timestamp on the same line: `&nbsp;` is written; the piece of text is
    not blank, the line is in the class (no proviso needed) -/
def wNbsp : Line := { items := [{ text := [C01.nbsp, 'a'] }, { text := "b".toList, startAt := 1000000 }] }
example : lineFit wNbsp = true ∧ lineW2 wNbsp = true ∧ tsFree wNbsp = false ∧ nbspFree wNbsp = false := by decide
example : lineBody wNbsp = "&nbsp;a<00:00:00.001>b".toList := by decide
example : VTTRead.noNbsp (lineBody wNbsp) = false ∧ VTTRead.lineOK2 (lineBody wNbsp) = true := by decide

/-- (c) a `|` in the voice: between `<` and `>`, `lineOK2` is false -/
def wBar : Line := { voice := "a|b".toList, items := [{ text := "x".toList }] }
example : lineFit wBar = true ∧ lineW2 wBar = false ∧ VTTRead.lineOK2 (lineBody wBar) = false := by decide

/-- (d) a form feed in an annotation: `lineOK2` is false -/
def wFF : Line :=
  { items := [{ text := "x".toList, attrs := tagsAttrs [{ name := "c".toList, annotation := ['a', '\x0c', 'b'] }] }] }
example : lineFit wFF = true ∧ lineW2 wFF = false ∧ VTTRead.lineOK2 (lineBody wFF) = false := by decide

/-- a `|` in the tag attribute separates two tags: nothing to exclude -/
def wBarTag : Line := { items := [{ text := "x".toList, attrs := some [("WebVTTTags".toList, "c a|b".toList)] }] }
example : lineFit wBarTag = true ∧ lineW2 wBarTag = true ∧ lineBody wBarTag = "<c a><b>x</b></c>".toList := by decide

/-! the sub-predicates on non-trivial values -/
example : okc 'x' = true ∧ okc '|' = false ∧ okc '\x0c' = false := by decide
example : tagW2 { name := "c".toList, classes := ["red".toList], annotation := "x y".toList } = true := by decide
example : tsW2 exRun2 = true ∧ tsW2 exRun1 = true := by decide
example : runW2 exRun3 = true := by decide

end VTT3W
end Astisub
