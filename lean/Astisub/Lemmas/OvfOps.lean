import Astisub.Model.Ops
import Astisub.Lemmas.OvfBasic
import Astisub.Lemmas.OpsUnfragment

/-!
# Lemmas/OvfOps — the transformations re-evaluated in `int64`

For every function of `Model/Ops.lean` that does arithmetic (`add`, `fragment` / `cut`,
`forceDuration`) this file gives the *wrapping* evaluation (`…W`: the same control flow, every `+`, `-`
replaced by `wadd`, `wsub`; `%` is Go's truncated remainder already) and proves it equal to the
unbounded model under an explicit, decidable range predicate. `order`, `unfragment`, `mergeItems`
only compare and copy instants: there is nothing to wrap; for them (and for the others) the closure
theorems `…_fits` say that every instant of the result is again an `int64`.
-/

namespace Astisub
namespace Ovf
open Ops List

/-- every instant of the list is an `int64` (what the Go type guarantees for an input) -/
def AllFit (xs : List Item) : Prop := ∀ it ∈ xs, fits64 it.startAt ∧ fits64 it.endAt

instance (xs : List Item) : Decidable (AllFit xs) := by unfold AllFit; infer_instance

/-- the generous symmetric range used by the corollaries: ±2^61 ns, about 73 years -/
def R61 : Int := 2305843009213693952

theorem R61_eq : R61 = 2 ^ 61 := by decide

/-- `|x| ≤ 2^61` -/
def In61 (x : Int) : Prop := -2305843009213693952 ≤ x ∧ x ≤ 2305843009213693952

instance (x : Int) : Decidable (In61 x) := by unfold In61; infer_instance

/-- every instant of the list is within ±2^61 ns -/
def AllIn61 (xs : List Item) : Prop := ∀ it ∈ xs, In61 it.startAt ∧ In61 it.endAt

instance (xs : List Item) : Decidable (AllIn61 xs) := by unfold AllIn61; infer_instance

theorem In61.fits {x : Int} (h : In61 x) : fits64 x := by unfold In61 at h; unfold fits64; omega

theorem AllIn61.allFit {xs : List Item} (h : AllIn61 xs) : AllFit xs :=
  fun it hit => ⟨(h it hit).1.fits, (h it hit).2.fits⟩

/-- 100 h and -100 h are far inside the range; 2^61 + 1 is not -/
example : In61 360000000000000 ∧ In61 (-360000000000000) ∧ ¬ In61 2305843009213693953 := by decide

/-! ## `Subtitles.Add` -/

/-- body of `Add` in `int64`: `EndAt += d; StartAt += d`, then comparisons with 0 -/
def shift1W (d : Int) (it : Item) : Option Item :=
  let e := wadd it.endAt d
  let s := wadd it.startAt d
  if e ≤ 0 ∧ s ≤ 0 then none
  else if s ≤ 0 then some { it with startAt := 0, endAt := e }
  else some { it with startAt := s, endAt := e }

def addLoopW (d : Int) : List Item → List Item → List Item
  | done, [] => done.reverse
  | done, it :: todo =>
    match shift1W d it with
    | none => addLoopW d done todo
    | some it' => addLoopW d (it' :: done) todo

/-- `Subtitles.Add` in `int64` -/
def addW (d : Int) (xs : List Item) : List Item := addLoopW d [] xs

/-- exact range condition of `Add`: both shifted boundaries of every cue are `int64` values -/
def AddOK (d : Int) (xs : List Item) : Prop :=
  ∀ it ∈ xs, fits64 (it.startAt + d) ∧ fits64 (it.endAt + d)

instance (d : Int) (xs : List Item) : Decidable (AddOK d xs) := by unfold AddOK; infer_instance

theorem shift1W_eq {d : Int} {it : Item} (h : fits64 (it.startAt + d) ∧ fits64 (it.endAt + d)) :
    shift1W d it = shift1 d it := by
  unfold shift1W shift1
  rw [wadd_eq h.1, wadd_eq h.2]

theorem addLoopW_eq (d : Int) (done todo : List Item) (h : AddOK d todo) :
    addLoopW d done todo = addLoop d done todo := by
  induction todo generalizing done with
  | nil => rfl
  | cons it todo ih =>
    have h1 := h it (by simp)
    have h2 : AddOK d todo := fun x hx => h x (by simp [hx])
    unfold addLoopW addLoop
    rw [shift1W_eq h1]
    cases shift1 d it with
    | none => exact ih _ h2
    | some it' => exact ih _ h2

theorem addW_eq (d : Int) (xs : List Item) (h : AddOK d xs) : addW d xs = add d xs :=
  addLoopW_eq d [] xs h

theorem addOK_of_in61 {d : Int} {xs : List Item} (hd : In61 d) (hx : AllIn61 xs) : AddOK d xs := by
  intro it hit
  have := hx it hit
  unfold In61 at *; unfold fits64
  omega

/-- a shift by 2 h of cues inside [0, 100 h) is in range -/
example : AddOK 7200000000000 [{ uid := 1, startAt := 0, endAt := 359999999999999, lines := [], pay := 0 }] := by
  decide

/-- the condition cannot be dropped: one nanosecond past the range the end of the cue wraps to
    `MinInt64`, the cue looks dead and Go deletes it, while the unbounded model keeps it -/
example :
    let it : Item := { uid := 1, startAt := 9223372036854775806, endAt := 9223372036854775807, lines := [], pay := 0 }
    AllFit [it] ∧ fits64 1 ∧ addW 1 [it] ≠ add 1 [it] := by decide

/-! ## `Subtitles.ForceDuration` -/

/-- the filler item in `int64`: `StartAt: d - time.Millisecond` -/
def fillerW (d : Int) : Item :=
  { uid := 0, startAt := wsub d millisecond, endAt := d, lines := [["..."]], pay := 0 }

/-- `Subtitles.ForceDuration` in `int64` (everything else in it is a comparison or a copy) -/
def forceDurationW (d : Int) (addDummy : Bool) (xs : List Item) : List Item :=
  if duration xs = d then xs
  else
    let ys := if duration xs > d then fdScan d xs else xs
    if addDummy ∧ duration ys < d then ys ++ [fillerW d] else ys

/-- exact range condition of `ForceDuration`: `d - 1 ms` is an `int64` -/
def ForceOK (d : Int) : Prop := fits64 (d - 1000000)

instance (d : Int) : Decidable (ForceOK d) := by unfold ForceOK; infer_instance

theorem fillerW_eq {d : Int} (h : ForceOK d) : fillerW d = filler d := by
  unfold fillerW filler
  rw [wsub_eq (by unfold millisecond; exact h)]

theorem forceDurationW_eq (d : Int) (addDummy : Bool) (xs : List Item) (h : ForceOK d) :
    forceDurationW d addDummy xs = forceDuration d addDummy xs := by
  unfold forceDurationW forceDuration
  rw [fillerW_eq h]

theorem forceOK_of_in61 {d : Int} (hd : In61 d) : ForceOK d := by
  unfold In61 at hd; unfold ForceOK fits64; omega

example : ForceOK 0 ∧ ForceOK 86400000000000 := by decide

/-- the condition cannot be dropped: forcing the duration `MinInt64 + 1` on a list ending at
    `MinInt64` appends a filler whose start wraps to a large positive instant -/
example :
    let it : Item := { uid := 1, startAt := -9223372036854775808, endAt := -9223372036854775808, lines := [], pay := 0 }
    AllFit [it] ∧ fits64 (-9223372036854775807) ∧
      forceDurationW (-9223372036854775807) true [it] ≠ forceDuration (-9223372036854775807) true [it] := by
  decide

/-! ## `Subtitles.Fragment` -/

/-- `boundary := s - s%f; if boundary <= s { boundary += f }` in `int64` -/
def firstBoundaryW (f s : Int) : Int :=
  let b := wsub s (wmod s f)
  if b ≤ s then wadd b f else b

/-- the inner loop with `boundary += f` in `int64` -/
def cutLoopW (f : Int) : Nat → Item → Int → List Item
  | 0, it, _ => [it]
  | fuel + 1, it, b =>
    if b < it.endAt then
      { it with uid := 0, endAt := b } :: cutLoopW f fuel { it with startAt := b } (wadd b f)
    else [it]

def cutW (f : Int) (it : Item) : List Item :=
  let b := firstBoundaryW f it.startAt
  cutLoopW f ((it.endAt - b).toNat + 1) it b

/-- `Subtitles.Fragment` in `int64` -/
def fragmentW (f : Int) (xs : List Item) : List Item :=
  if xs = [] ∨ f ≤ 0 then xs else order (xs.flatMap (cutW f))

/-- range condition for one cue: its start is an `int64`, the first boundary `≤ start + f` is one,
    and the last increment — at most `end - 1 + f` — is one (sufficient; sharp by the witness below) -/
def CutOK (f : Int) (it : Item) : Prop :=
  fits64 it.startAt ∧ it.startAt + f < 9223372036854775808 ∧ it.endAt + f ≤ 9223372036854775808

instance (f : Int) (it : Item) : Decidable (CutOK f it) := by unfold CutOK; infer_instance

/-- range condition of `Fragment`: `CutOK` for every cue -/
def FragOK (f : Int) (xs : List Item) : Prop := ∀ it ∈ xs, CutOK f it

instance (f : Int) (xs : List Item) : Decidable (FragOK f xs) := by unfold FragOK; infer_instance

/-- `s - s % f` lies between `s` and 0 (truncation is toward zero) -/
theorem sub_tmod_between (f s : Int) :
    (0 ≤ s → 0 ≤ s - Int.tmod s f ∧ s - Int.tmod s f ≤ s) ∧
    (s ≤ 0 → s ≤ s - Int.tmod s f ∧ s - Int.tmod s f ≤ 0) := by
  have e : s - Int.tmod s f = f * Int.tdiv s f := by
    have := Int.mul_tdiv_add_tmod s f; omega
  constructor
  · intro hs
    have h1 : 0 ≤ Int.tmod s f := Int.tmod_nonneg f hs
    have h2 : 0 ≤ f * Int.tdiv s f := by
      rcases Int.le_total 0 f with hf | hf
      · exact Int.mul_nonneg hf (Int.tdiv_nonneg hs hf)
      · have : f * Int.tdiv s f = (-f) * Int.tdiv s (-f) := by rw [Int.tdiv_neg, Int.neg_mul_neg]
        rw [this]; exact Int.mul_nonneg (by omega) (Int.tdiv_nonneg hs (by omega))
    omega
  · intro hs
    have h1 : Int.tmod s f ≤ 0 := by
      have : Int.tmod s f = -Int.tmod (-s) f := by rw [Int.neg_tmod, Int.neg_neg]
      have := Int.tmod_nonneg f (a := -s) (by omega)
      omega
    have h2 : f * Int.tdiv s f ≤ 0 := by
      have e2 : Int.tdiv s f = -Int.tdiv (-s) f := by rw [Int.neg_tdiv, Int.neg_neg]
      rcases Int.le_total 0 f with hf | hf
      · have := Int.mul_nonneg hf (Int.tdiv_nonneg (a := -s) (by omega) hf)
        rw [e2, Int.mul_neg]; omega
      · have e3 : f * Int.tdiv (-s) f = (-f) * Int.tdiv (-s) (-f) := by rw [Int.tdiv_neg, Int.neg_mul_neg]
        have := Int.mul_nonneg (a := -f) (by omega) (Int.tdiv_nonneg (a := -s) (b := -f) (by omega) (by omega))
        rw [e2, Int.mul_neg, e3]; omega
    omega

theorem firstBoundaryW_eq {f s : Int} (hs : fits64 s) (hsf : s + f < 9223372036854775808) (hf : 0 < f) :
    firstBoundaryW f s = firstBoundary f s := by
  have hb := sub_tmod_between f s
  have hfit : fits64 (s - Int.tmod s f) := by
    unfold fits64 at *
    rcases Int.le_total 0 s with h | h
    · have := hb.1 h; omega
    · have := hb.2 h; omega
  unfold firstBoundaryW firstBoundary wmod
  simp only
  rw [wsub_eq hfit]
  split
  · rename_i hle
    apply wadd_eq
    unfold fits64 at *; omega
  · rfl

/-- the first boundary is not below `MinInt64` -/
theorem firstBoundary_ge {f s : Int} (hs : fits64 s) (hf : 0 < f) :
    -9223372036854775808 ≤ firstBoundary f s := by
  have hb := sub_tmod_between f s
  unfold firstBoundary
  simp only
  unfold fits64 at hs
  split
  · rcases Int.le_total 0 s with h | h
    · have := hb.1 h; omega
    · have := hb.2 h; omega
  · rcases Int.le_total 0 s with h | h
    · have := hb.1 h; omega
    · have := hb.2 h; omega

theorem cutLoopW_eq (f : Int) (hf : 0 < f) (fuel : Nat) (it : Item) (b : Int)
    (hb : -9223372036854775808 ≤ b) (he : it.endAt + f ≤ 9223372036854775808) :
    cutLoopW f fuel it b = cutLoop f fuel it b := by
  induction fuel generalizing it b with
  | zero => rfl
  | succ n ih =>
    unfold cutLoopW cutLoop
    split
    · rename_i hlt
      have hfit : fits64 (b + f) := by unfold fits64; omega
      rw [wadd_eq hfit]
      exact congrArg _ (ih _ _ (by omega) he)
    · rfl

theorem cutW_eq {f : Int} (hf : 0 < f) {it : Item} (h : CutOK f it) : cutW f it = cut f it := by
  unfold cutW cut
  simp only
  rw [firstBoundaryW_eq h.1 h.2.1 hf]
  exact cutLoopW_eq f hf _ it _ (firstBoundary_ge h.1 hf) h.2.2

theorem flatMap_congr' {α β} {f g : α → List β} : ∀ {l : List α}, (∀ a ∈ l, f a = g a) → l.flatMap f = l.flatMap g
  | [], _ => rfl
  | a :: l, h => by
    rw [List.flatMap_cons, List.flatMap_cons, h a (by simp), flatMap_congr' (fun x hx => h x (by simp [hx]))]

theorem fragmentW_eq (f : Int) (xs : List Item) (h : FragOK f xs) : fragmentW f xs = fragment f xs := by
  unfold fragmentW fragment
  split
  · rfl
  · rename_i hc
    have hf : 0 < f := by omega
    rw [flatMap_congr' (fun it hit => cutW_eq hf (h it hit))]

theorem fragOK_of_in61 {f : Int} {xs : List Item} (hf : In61 f) (hx : AllIn61 xs) : FragOK f xs := by
  intro it hit
  have := hx it hit
  unfold In61 at *; unfold CutOK fits64
  omega

/-- 2 s fragments of a cue inside [0, 100 h) are in range -/
example : FragOK 2000000000 [{ uid := 1, startAt := 1500000000, endAt := 359999999999999, lines := [], pay := 0 }] := by
  decide

/-- the condition is sharp: with `end + f = 2^63 + 1` the increment after the first cut wraps to
    `MinInt64`, which is again `< end`, so Go cuts once more (and would go on: the fuel of the model
    stops it) while the unbounded loop stops after one cut -/
example :
    let it : Item := { uid := 1, startAt := 0, endAt := 4611686018427387905, lines := [], pay := 0 }
    let f : Int := 4611686018427387904
    AllFit [it] ∧ fits64 f ∧ it.endAt + f = 9223372036854775808 + 1 ∧
      (cutW f it).length = 3 ∧ (cut f it).length = 2 := by decide

/-- … hence `Fragment` itself differs on that input (sorting keeps the length) -/
example :
    let it : Item := { uid := 1, startAt := 0, endAt := 4611686018427387905, lines := [], pay := 0 }
    fragmentW 4611686018427387904 [it] ≠ fragment 4611686018427387904 [it] := by
  intro it h
  have h' := congrArg List.length h
  have e1 : (cutW 4611686018427387904 it).length = 3 := by decide
  have e2 : (cut 4611686018427387904 it).length = 2 := by decide
  simp [fragmentW, fragment, order, List.length_mergeSort, e1, e2] at h'

/-- … and at `end + f = 2^63` exactly nothing wraps -/
example :
    let it : Item := { uid := 1, startAt := 0, endAt := 4611686018427387904, lines := [], pay := 0 }
    FragOK 4611686018427387904 [it] := by decide

/-- the first boundary alone: from the largest instant the increment wraps -/
example : firstBoundaryW 1 9223372036854775807 = -9223372036854775808 ∧
    firstBoundary 1 9223372036854775807 = 9223372036854775808 := by decide

/-! ## `Order`, `Merge`, `Unfragment`: comparisons and copies only -/

/-- `Subtitles.Order` does no arithmetic on instants: its `int64` evaluation is the model itself -/
def orderW (xs : List Item) : List Item := xs.mergeSort leStart
/-- `Subtitles.Merge` (items): append and `Order` -/
def mergeItemsW (a b : List Item) : List Item := orderW (a ++ b)
/-- `Subtitles.Unfragment`: `Order`, then comparisons and the copy `EndAt = other.EndAt` -/
def unfragmentW (xs : List Item) : List Item := if xs.length ≤ 1 then xs else unfragLoop (orderW xs)

theorem orderW_eq (xs : List Item) : orderW xs = order xs := rfl
theorem mergeItemsW_eq (a b : List Item) : mergeItemsW a b = mergeItems a b := rfl
theorem unfragmentW_eq (xs : List Item) : unfragmentW xs = unfragment xs := rfl

/-! ## closure: the results are lists of `int64` instants again -/

theorem order_fits {xs : List Item} (h : AllFit xs) : AllFit (order xs) :=
  fun it hit => h it ((mergeSort_perm xs leStart).mem_iff.mp hit)

theorem mergeItems_fits {a b : List Item} (ha : AllFit a) (hb : AllFit b) : AllFit (mergeItems a b) := by
  apply order_fits
  intro it hit
  rcases List.mem_append.mp hit with h | h
  · exact ha it h
  · exact hb it h

theorem shift1_fits {d : Int} {it it' : Item} (h : fits64 (it.startAt + d) ∧ fits64 (it.endAt + d))
    (he : shift1 d it = some it') : fits64 it'.startAt ∧ fits64 it'.endAt := by
  unfold shift1 at he
  simp only at he
  split at he
  · cases he
  · split at he
    · cases he; exact ⟨(by decide : fits64 0), h.2⟩
    · cases he; exact h

theorem addLoop_fits (d : Int) (done todo : List Item) (hd : AllFit done) (h : AddOK d todo) :
    AllFit (addLoop d done todo) := by
  induction todo generalizing done with
  | nil =>
    unfold addLoop
    intro it hit
    exact hd it (List.mem_reverse.mp hit)
  | cons it todo ih =>
    have h1 := h it (by simp)
    have h2 : AddOK d todo := fun x hx => h x (by simp [hx])
    unfold addLoop
    cases hs : shift1 d it with
    | none => exact ih _ hd h2
    | some it' =>
      refine ih _ ?_ h2
      intro x hx
      rcases List.mem_cons.mp hx with rfl | hx'
      · exact shift1_fits h1 hs
      · exact hd x hx'

theorem add_fits {d : Int} {xs : List Item} (h : AddOK d xs) : AllFit (add d xs) :=
  addLoop_fits d [] xs (fun _ h => by cases h) h

theorem fdScan_fits {d : Int} (hd : fits64 d) {xs : List Item} (h : AllFit xs) : AllFit (fdScan d xs) := by
  induction xs with
  | nil => intro it hit; cases hit
  | cons x rest ih =>
    have hx := h x (by simp)
    have hr : AllFit rest := fun y hy => h y (by simp [hy])
    unfold fdScan
    split
    · intro it hit; cases hit
    · intro it hit
      rcases List.mem_cons.mp hit with rfl | hit'
      · split
        · exact ⟨hx.1, hd⟩
        · exact hx
      · exact ih hr it hit'

theorem forceDuration_fits {d : Int} (hd : fits64 d) (hok : ForceOK d) (b : Bool) {xs : List Item}
    (h : AllFit xs) : AllFit (forceDuration d b xs) := by
  unfold forceDuration
  split
  · exact h
  · have hys : AllFit (if duration xs > d then fdScan d xs else xs) := by
      split
      · exact fdScan_fits hd h
      · exact h
    dsimp only
    generalize (if duration xs > d then fdScan d xs else xs) = ys at hys ⊢
    split
    · intro it hit
      rcases List.mem_append.mp hit with h1 | h1
      · exact hys it h1
      · have : it = filler d := by simpa using h1
        subst this
        exact ⟨by unfold filler millisecond; exact hok, hd⟩
    · exact hys

theorem cutLoop_fits (f : Int) (hf : 0 ≤ f) (fuel : Nat) (it : Item) (b : Int)
    (hb : -9223372036854775808 ≤ b) (hs : fits64 it.startAt) (he : fits64 it.endAt) :
    AllFit (cutLoop f fuel it b) := by
  induction fuel generalizing it b with
  | zero =>
    unfold cutLoop
    intro x hx
    have : x = it := by simpa using hx
    subst this; exact ⟨hs, he⟩
  | succ n ih =>
    unfold cutLoop
    split
    · rename_i hlt
      have hbf : fits64 b := by unfold fits64 at *; omega
      intro x hx
      rcases List.mem_cons.mp hx with rfl | hx'
      · exact ⟨hs, hbf⟩
      · exact ih { it with startAt := b } (b + f) (by omega) hbf he x hx'
    · intro x hx
      have : x = it := by simpa using hx
      subst this; exact ⟨hs, he⟩

/-- every piece `Fragment` produces starts and ends at an `int64` instant (no range condition beyond
    the input being `int64`: the boundaries lie between the cue's start and end) -/
theorem fragment_fits (f : Int) {xs : List Item} (h : AllFit xs) : AllFit (fragment f xs) := by
  unfold fragment
  split
  · exact h
  · rename_i hc
    have hf : 0 < f := by omega
    apply order_fits
    intro x hx
    obtain ⟨it, hit, hxi⟩ := List.mem_flatMap.mp hx
    have hi := h it hit
    unfold cut at hxi
    exact cutLoop_fits f (by omega) _ it _ (firstBoundary_ge hi.1 hf) hi.1 hi.2 x hxi

/-- the inner loop of `Unfragment` keeps the start of `cur` and gives it an end that was already there -/
theorem absorb_fits (cur : Item) (l : List Item) (hc : fits64 cur.startAt ∧ fits64 cur.endAt) (hl : AllFit l) :
    fits64 (absorb cur l).1.startAt ∧ fits64 (absorb cur l).1.endAt := by
  induction l generalizing cur with
  | nil => simpa [absorb] using hc
  | cons x rest ih =>
    have hx := hl x (by simp)
    have hr : AllFit rest := fun y hy => hl y (by simp [hy])
    rw [absorb_cons]
    split
    · apply ih _ _ hr
      unfold extend
      split
      · exact ⟨hc.1, hx.2⟩
      · exact hc
    · split
      · exact hc
      · exact ih cur hc hr

theorem unfragLoop_fits (l : List Item) (h : AllFit l) : AllFit (unfragLoop l) := by
  induction hn : l.length using Nat.strongRecOn generalizing l with
  | _ n ih =>
    cases l with
    | nil => rw [unfragLoop_nil]; intro it hit; cases hit
    | cons x xs =>
      rw [unfragLoop_cons]
      have hlen := absorb_length x xs
      have hx := h x (by simp)
      have hr : AllFit xs := fun y hy => h y (by simp [hy])
      have hsub : AllFit (absorb x xs).2 := fun y hy => hr y ((absorb_sublist x xs).subset hy)
      have := ih (absorb x xs).2.length (by subst hn; simp; omega) _ hsub rfl
      intro it hit
      rcases List.mem_cons.mp hit with rfl | hit'
      · exact absorb_fits x xs hx hr
      · exact this it hit'

theorem unfragment_fits {xs : List Item} (h : AllFit xs) : AllFit (unfragment xs) := by
  unfold unfragment
  split
  · exact h
  · exact unfragLoop_fits _ (order_fits h)

end Ovf
end Astisub
