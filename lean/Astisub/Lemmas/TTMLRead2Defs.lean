import Astisub.Model.TTML
import Astisub.Spec.TTML
import Astisub.Driver.TTML
import Astisub.Lemmas.TTMLDocXml

/-!
# Lemmas/TTMLRead2Defs — vocabulary of the READ clause of C03 (TTML)

The `ttml.read` stream hands the Lean side two views of the same bytes, both produced by `encoding/xml`:
the name-space-resolved token list of the document (input of the independent decoder `Spec.TTML.decode`) and the
`TTMLIn` value `xml.Decoder.Decode` filled, with the re-tokenised paragraphs (input of the reader model `TTML.read`).
What relates the two is `encoding/xml` itself — **an assumed contract**, written down here as `contractOk toks tin`:

* `unmarshal toks` — `Decode(&TTMLIn)` as a function of the token list: a path-tracking decoder; a field is found
  by the local-name path of its struct tag (`tt`, `head>metadata>title|copyright`, `head>styling>style`,
  `head>layout>region`, `body>div>p`), an attribute by its local name in **any** name space (the struct tags of the
  package carry none — this includes the `xmlns` pseudo name space, which is the known finding
  `ttml-xmlns-prefix-read-as-styling-attribute`); a string field keeps the last value, an `int` field parses every
  value (`copyValue`), `begin` / `end` hand every value to `UnmarshalText`, the fields of `TTMLInStyleAttributes`
  that are set are listed in struct order; character data of `title` / `copyright` is concatenated; every other
  element is skipped.  For a paragraph it collects the tokens between `<p …>` and `</p>`.
* `subOk raw given` — the re-tokenised paragraph: `given.stripped = stripIndent given.inner` (the inner XML itself
  is an unmodelled byte string), tokenising `"<p>" + stripped + "</p>"` succeeded, starts with `<p>`, and
  then yields the paragraph's own tokens and `</p>` **up to name spaces and white-space-only character data directly
  inside `<p>`** (`canon`).  This is what indentation stripping does to a paragraph of the decoder's class
  (no line break inside a text node other than indentation between elements; a line break inside a tag or a comment
  becomes a blank); it is claimed for that class only.

`InClass toks` (decidable) is the class on which the read clause is proved; it excludes three families of documents
of the decoder's class on which the reader model provably answers something else (`Props/C03read.lean`).
-/

namespace Astisub
namespace TTMLR
open Go TTML

abbrev XAttr := Str × Str × Str      -- name space, local name, value

/-! ## 1. `encoding/xml` into `TTMLIn` (contract) -/

/-- a `string` field: every attribute with this local name is copied into it in turn; `""` when there is none -/
def lastAttr (a : List XAttr) (name : String) : Str :=
  a.foldl (fun acc x => if x.2.1 = name.toList then x.2.2 else acc) []

/-- every value of the attributes with this local name, in order -/
def allAttr (a : List XAttr) (name : String) : List Str :=
  (a.filter fun x => x.2.1 = name.toList).map (·.2.2)

/-- an `int` field: every value is parsed (the first failure is an error), the last one stays; 0 when absent -/
def intAttr (a : List XAttr) (name : String) : Option Int :=
  (allAttr a name).foldl (fun acc v => acc.bind fun _ => parseIntAttr v) (some 0)

/-- every `zIndex` value is an integer (otherwise decoding the element fails) -/
def zOk (a : List XAttr) : Bool := (allAttr a "zIndex").all fun v => (parseIntAttr v).isSome

/-- the field of `TTMLInStyleAttributes` for the table row `(Field, localName)`: set iff an attribute with that
    local name occurs; the last value stays (`ZIndex`: the integer, printed canonically) -/
def fieldVal (a : List XAttr) (p : String × String) : Option (Str × Str) :=
  ((allAttr a p.2).getLast?).map fun v => (p.1.toList, if p.1 = "ZIndex" then itoa ((parseIntAttr v).getD 0) else v)

/-- the embedded `TTMLInStyleAttributes` of an element, set fields in struct order; `none` = decoding fails -/
def inAttrs (a : List XAttr) : Option KV :=
  if zOk a then some (attrTable.filterMap (fieldVal a)) else none

/-- `TTMLInStyle` / `TTMLInRegion` of a start tag -/
def mkDef (a : List XAttr) : Option InDef :=
  (inAttrs a).map fun kv => { id := lastAttr a "id", style := lastAttr a "style", attrs := kv }

/-- `TTMLInSubtitle` of a `<p>` start tag; `toks` will collect the tokens of its content -/
def mkSub (a : List XAttr) : Option InSub :=
  (inAttrs a).map fun kv =>
    { begins := allAttr a "begin", ends := allAttr a "end", id := lastAttr a "id", region := lastAttr a "region",
      style := lastAttr a "style", attrs := kv, inner := [], stripped := [], toks := [], toksOk := true }

/-- decoder state -/
structure USt where
  path : List Str := []
  finished : Bool := false
  framerate : Int := 0
  tickrate : Int := 0
  lang : Str := []
  title : Str := []
  copyright : Str := []
  regions : List InDef := []
  styles : List InDef := []
  subs : List InSub := []
  buf : Str := []
  cur : Option InSub := none
  deriving Inhabited

open TTMLDoc (ctxOf Ctx) in
/-- one token of the document -/
def ustep (st : USt) (t : XTok) : Option USt :=
  if st.finished then some st else
  match st.cur with
  | some p =>
    match t with
    | .start _ n _ => some { st with path := n :: st.path, cur := some { p with toks := p.toks ++ [t] } }
    | .stop _ _ =>
      if st.path.length = 4 then some { st with path := st.path.tail, cur := none, subs := st.subs ++ [p] }
      else some { st with path := st.path.tail, cur := some { p with toks := p.toks ++ [t] } }
    | _ => some { st with cur := some { p with toks := p.toks ++ [t] } }
  | none =>
    match t with
    | .start _ n a =>
      let path := n :: st.path
      match ctxOf path with
      | .root =>
        match intAttr a "frameRate", intAttr a "tickRate" with
        | some fr, some tr => some { st with path := path, framerate := fr, tickrate := tr, lang := lastAttr a "lang" }
        | _, _ => none
      | .style => (mkDef a).map fun d => { st with path := path, styles := st.styles ++ [d] }
      | .region => (mkDef a).map fun d => { st with path := path, regions := st.regions ++ [d] }
      | .title => some { st with path := path, buf := [] }
      | .copyright => some { st with path := path, buf := [] }
      | .para => (mkSub a).map fun p => { st with path := path, cur := some p }
      | .other => if st.path.isEmpty then none else some { st with path := path }
    | .text s =>
      match ctxOf st.path with
      | .title => some { st with buf := st.buf ++ s }
      | .copyright => some { st with buf := st.buf ++ s }
      | _ => some st
    | .other => some st
    | .stop _ _ =>
      match st.path with
      | [] => none
      | _ :: rest =>
        match ctxOf st.path with
        | .title => some { st with path := rest, title := st.buf }
        | .copyright => some { st with path := rest, copyright := st.buf }
        | _ => some { st with path := rest, finished := rest.isEmpty }

def urun : List XTok → USt → Option USt
  | [], st => some st
  | t :: ts, st =>
    match ustep st t with
    | some st' => urun ts st'
    | none => none

def tinOf (st : USt) : TIn :=
  { framerate := st.framerate, tickrate := st.tickrate, lang := st.lang, title := st.title, copyright := st.copyright,
    regions := st.regions, styles := st.styles, subs := st.subs }

/-- **The contract, part 1.** `xml.NewDecoder(bytes).Decode(&TTMLIn)` as a function of the tokens of the bytes;
    `none` = the decoder returns an error.  The `toks` of a paragraph are the document's tokens between `<p …>` and
    `</p>`; its `inner` / `stripped` are not determined here. -/
def unmarshal (toks : List XTok) : Option TIn :=
  match urun toks {} with
  | some st => if st.finished then some (tinOf st) else none
  | none => none

/-! ## 2. the re-tokenised paragraph (contract) -/

def eraseA (x : XAttr) : XAttr := ([], x.2.1, x.2.2)

/-- a token list up to name spaces and white-space-only character data at depth 0 (`d` = number of open elements) -/
def canon : Nat → List XTok → List XTok
  | _, [] => []
  | d, .start _ n a :: r => .start [] n (a.map eraseA) :: canon (d + 1) r
  | d, .stop _ n :: r => .stop [] n :: canon (d - 1) r
  | 0, .text s :: r => if s.all isSpace then canon 0 r else .text s :: canon 0 r
  | d + 1, .text s :: r => .text s :: canon (d + 1) r
  | d, .other :: r => .other :: canon d r

def pStart : XTok := .start [] ['p'] []
def pStop : XTok := .stop [] ['p']

/-- **The contract, part 2.** what the harness hands over for one paragraph (`given`) against the paragraph as
    `unmarshal` sees it in the document (`raw`) -/
def subOk (raw given : InSub) : Bool :=
  given.begins == raw.begins && given.ends == raw.ends && given.id == raw.id && given.region == raw.region &&
  given.style == raw.style && given.attrs == raw.attrs &&
  given.stripped == stripIndent given.inner && given.toksOk &&
  (match given.toks with
   | t :: rest => t == pStart && canon 0 rest == canon 0 (raw.toks ++ [pStop])
   | _ => false)

def defKey (d : InDef) : Str × Str × KV := (d.id, d.style, d.attrs)

/-- **The contract.** the `TTMLIn` view `tin` (`none` = `Decode` failed) belongs to the token list `toks` -/
def contractOk (toks : List XTok) (tin : Option TIn) : Bool :=
  match unmarshal toks, tin with
  | none, none => true
  | some r, some t =>
    t.framerate == r.framerate && t.tickrate == r.tickrate && t.lang == r.lang && t.title == r.title &&
    t.copyright == r.copyright && t.regions.map defKey == r.regions.map defKey &&
    t.styles.map defKey == r.styles.map defKey &&
    t.subs.length == r.subs.length && (r.subs.zip t.subs).all fun p => subOk p.1 p.2
  | _, _ => false

/-! ## 3. the class -/

def int64Max : Nat := 9223372036854775807

/-- local names `encoding/xml` matches against an attribute of `tt`, `style`, `region`, `p`, `span`, `br` -/
def matchedNames : List Str :=
  Spec.TTML.stylingNames.map String.toList ++
    ["style".toList, "region".toList, "begin".toList, "end".toList, "id".toList, "frameRate".toList,
     "tickRate".toList, "lang".toList]

/-- a time expression the library can hold: the hour field of a clock time / the count of an offset in frames or
    ticks fits 64 bits; an offset in `h`, `m`, `s`, `ms` is at most `math.MaxInt64` ns -/
def timeFits (s : Str) : Bool :=
  if s.contains ':' || s.getLast? == some 'f' || s.getLast? == some 't' then
    decide (natOfDigits (s.takeWhile isDigit) ≤ int64Max)
  else
    match Spec.TTML.denote s 0 0 with
    | some q => decide (q.1 / q.2 ≤ int64Max)
    | none => true

/-- an integer attribute value that fits 64 bits (values that are not integers are the decoder's business) -/
def zFits (v : Str) : Bool :=
  match Spec.TTML.int? (Spec.TTML.trimS v) with
  | some z => decide (-(int64Max : Int) - 1 ≤ z) && decide (z ≤ (int64Max : Int))
  | none => true

def rateFits (v : Str) : Bool :=
  match Spec.TTML.num? (Spec.TTML.trimS v) with
  | some n => decide (n ≤ int64Max)
  | none => true

def attrFits (x : XAttr) : Bool :=
  if Spec.TTML.isDecl x then !matchedNames.contains x.2.1
  else if x.2.1 = "zIndex".toList then zFits x.2.2
  else if x.2.1 = "begin".toList || x.2.1 = "end".toList then timeFits x.2.2
  else if x.2.1 = "frameRate".toList || x.2.1 = "tickRate".toList then rateFits x.2.2
  else true

/-- a `br` element is decoded into a `TTMLInItem` by the library: its `zIndex`, if any, must be an integer -/
def brFits (a : List XAttr) : Bool :=
  a.all fun x => x.2.1 != "zIndex".toList || (Spec.TTML.int? (Spec.TTML.trimS x.2.2)).isSome

def tokFits : XTok → Bool
  | .start _ n a => a.all attrFits && (n != "br".toList || brFits a)
  | _ => true

/-- **The class of the read clause**: no name-space declaration whose prefix is a name the library matches
    (`xmlns:color`), every number of a `begin`, `end`, `zIndex`, `frameRate`, `tickRate` attribute fits 64 bits,
    no `<br>` with a `zIndex` that is not an integer.  (Checked on every start tag, also those of foreign elements
    both sides skip: the class is a little smaller than necessary.) -/
def InClass (toks : List XTok) : Bool := toks.all tokFits

/-! ## 4. the shape of a paragraph of the decoder's class -/

/-- content of a `br`: comments, then its end tag -/
inductive BrBody : List XTok → Prop where
  | stop (sp n : Str) : BrBody [.stop sp n]
  | other {r : List XTok} : BrBody r → BrBody (.other :: r)

/-- content of a `span` up to and including its end tag, with the text segments the `br`s inside cut it into -/
inductive SpanBody : List XTok → List Str → Prop where
  | stop (sp n : Str) : SpanBody [.stop sp n] [[]]
  | other {r : List XTok} {segs : List Str} : SpanBody r segs → SpanBody (.other :: r) segs
  | text {s : Str} {r : List XTok} {seg : Str} {segs : List Str} :
      Spec.TTML.hasNL s = false → SpanBody r (seg :: segs) → SpanBody (.text s :: r) ((s ++ seg) :: segs)
  | br {sp : Str} {a : List XAttr} {b r : List XTok} {segs : List Str} :
      BrBody b → SpanBody r segs → SpanBody (.start sp "br".toList a :: b ++ r) ([] :: segs)

inductive PItem where
  | text (s : Str)
  | br (a : List XAttr)
  | span (a : List XAttr) (segs : List Str)
  deriving Repr, DecidableEq

/-- content of a `p` up to and including its end tag, with the items it consists of -/
inductive ParaBody : List XTok → List PItem → Prop where
  | stop (sp n : Str) : ParaBody [.stop sp n] []
  | other {r : List XTok} {its : List PItem} : ParaBody r its → ParaBody (.other :: r) its
  | ws {s : Str} {r : List XTok} {its : List PItem} :
      Spec.TTML.allSpace s = true → ParaBody r its → ParaBody (.text s :: r) its
  | text {s : Str} {r : List XTok} {its : List PItem} :
      Spec.TTML.allSpace s = false → Spec.TTML.hasNL s = false → ParaBody r its → ParaBody (.text s :: r) (.text s :: its)
  | br {sp : Str} {a : List XAttr} {b r : List XTok} {its : List PItem} :
      BrBody b → ParaBody r its → ParaBody (.start sp "br".toList a :: b ++ r) (.br a :: its)
  | span {sp : Str} {a : List XAttr} {b r : List XTok} {segs : List Str} {its : List PItem} :
      SpanBody b segs → ParaBody r its → ParaBody (.start sp "span".toList a :: b ++ r) (.span a segs :: its)

/-- a span with text segments `segs` (cut by the `br`s inside it) entering the state (finished lines, current line) -/
def spanFin {α : Type} (mk : Str → α) (done : List (List α)) (cur : List α) : List Str → List (List α) × List α
  | [] => (done, cur)
  | first :: more =>
    match more.getLast? with
    | none => (done, cur ++ [mk first])
    | some last => (done ++ [cur ++ [mk first]] ++ more.dropLast.map (fun s => [mk s]), [mk last])

/-- the lines a list of paragraph items builds: `mkT` makes the run of a bare text, `mkS` the run of a span segment -/
def semP {α : Type} (mkT : Str → α) (mkS : List XAttr → Str → α) :
    List PItem → List (List α) × List α → List (List α) × List α
  | [], s => s
  | .text s :: r, (d, c) => semP mkT mkS r (d, c ++ [mkT s])
  | .br _ :: r, (d, c) => semP mkT mkS r (d ++ [c], [])
  | .span a segs :: r, (d, c) => semP mkT mkS r (spanFin (mkS a) d c segs)

/-- decoder side: the run of a bare text / of a span segment -/
def mkTG (s : Str) : Spec.TTML.GRun := { text := s, style := none, attrs := [] }
def mkSG (a : List XAttr) (s : Str) : Spec.TTML.GRun :=
  { text := s, style := (Spec.TTML.ref? a "style").getD none, attrs := (Spec.TTML.styling a).getD [] }

/-- model side: the `TTMLInItem` of an item (`none`: decoding the element fails) -/
def itemM : PItem → Option InItem
  | .text s => some { text := s }
  | .br a => (itemOfStart "br".toList a {}).map fun it => { it with text := [] }
  | .span a segs => (itemOfStart "span".toList a {}).map fun it => { it with text := Go.join ['\n'] segs }

def itemsM : List PItem → Option (List InItem)
  | [] => some []
  | p :: r => match itemM p, itemsM r with
    | some i, some is => some (i :: is)
    | _, _ => none

/-- model side: the line item of a text under a `TTMLInItem` (as `linesLoop` builds it) -/
def mkLI (tt : InItem) (li : Str) : LItem :=
  { text := li, attrs := some (styleAttributes tt.attrs), style := if tt.style ≠ [] then some tt.style else none }

def mkTM (s : Str) : LItem := mkLI {} s
def mkSM (a : List XAttr) (s : Str) : LItem := mkLI ((itemOfStart "span".toList a {}).getD {}) s

def mkLine (l : List LItem) : Line := { items := l }

/-- every span's style reference is empty or defined -/
def stylesOk (styles : List Str) : List PItem → Bool
  | [] => true
  | .span a _ :: r =>
    (match itemOfStart "span".toList a {} with
     | some it => it.style.isEmpty || styles.contains it.style
     | none => true) && stylesOk styles r
  | _ :: r => stylesOk styles r

end TTMLR
end Astisub
