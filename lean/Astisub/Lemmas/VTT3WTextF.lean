import Astisub.Lemmas.VTT3WTextE

/-!
# Lemmas/VTT3WTextF — `hasTs` and `noNbsp` over the pieces of a written line
-/

namespace Astisub
namespace VTT3W
open Go Spec.VTT List
open VTT (runTags runOk runColor runBytesPN tsPart opensBytes closesBytes sharedWith itemsBytes lineBody)
open VTTRead (scanOK2 tsScan hasTs noNbsp lineOK2 tagCharOK)
open SRT (escapeHTML)

/-! ### `hasTs` (`tsScan`) -/

theorem tsScan_false_cons (c : Char) (cs : Str) :
    tsScan false (c :: cs) =
      if c = '<' then (match cs with | d :: _ => isDigit d | [] => false) || tsScan true cs else tsScan false cs := by
  simp only [tsScan]
  cases cs <;> rfl

theorem tsScan_true_cons (c : Char) (cs : Str) :
    tsScan true (c :: cs) = if c = '>' then tsScan false cs else tsScan true cs := by
  simp only [tsScan]

theorem tsScan_text (x r : Str) (hx : ∀ c ∈ x, c ≠ '<') : tsScan false (x ++ r) = tsScan false r := by
  induction x with
  | nil => rfl
  | cons c x ih =>
    rw [cons_append, tsScan_false_cons, if_neg (hx c (by simp))]
    exact ih (fun d hd => hx d (by simp [hd]))

theorem tsScan_body (body after : Str) (hb : ∀ c ∈ body, c ≠ '>') :
    tsScan true (body ++ '>' :: after) = tsScan false after := by
  induction body with
  | nil => rw [nil_append, tsScan_true_cons, if_pos rfl]
  | cons c body ih =>
    rw [cons_append, tsScan_true_cons, if_neg (hb c (by simp))]
    exact ih (fun d hd => hb d (by simp [hd]))

/-- a tag whose body does not start with a digit is no inline timestamp -/
theorem tsScan_tag (b : Char) (tl after : Str) (hb : isDigit b = false) (h : ∀ c ∈ b :: tl, c ≠ '>') :
    tsScan false ('<' :: ((b :: tl) ++ '>' :: after)) = tsScan false after := by
  rw [tsScan_false_cons, if_pos rfl, cons_append]
  simp only [hb, Bool.false_or]
  rw [← cons_append, tsScan_body _ _ h]

def Q2 (r : Str) : Prop := tsScan false r = false

theorem Q2_open (t : VTT.Tag) (r : Str) (h : WT t) (hr : Q2 r) : Q2 (VTT.Tag.startTag t ++ r) := by
  have w := VTT.wf_facts h.1
  obtain ⟨x, xs, e, hx⟩ := w.head
  have hb : startBody t = x :: (xs ++ VTT.clsPart t.classes ++ VTT.annPart t.annotation) := by
    simp [startBody, e]
  have e2 : VTT.Tag.startTag t ++ r = '<' :: (startBody t ++ '>' :: r) := by
    rw [startTag_body t w.name_ne]; simp
  have hch := startBody_chars t w
  rw [e2]
  rw [hb] at hch ⊢
  unfold Q2
  rw [tsScan_tag x _ r (isLetter_alpha hx).2.1 (fun c hc => (hch c hc).2.1)]
  exact hr

theorem Q2_close (t : VTT.Tag) (r : Str) (h : WT t) (hr : Q2 r) : Q2 (VTT.Tag.endTag t ++ r) := by
  have w := VTT.wf_facts h.1
  have e : VTT.Tag.endTag t ++ r = '<' :: (('/' :: t.name) ++ '>' :: r) := by
    simp [VTT.Tag.endTag, w.name_ne, litClose]
  rw [e]
  unfold Q2
  rw [tsScan_tag '/' t.name r (by decide)]
  · exact hr
  · intro c hc
    rcases mem_cons.mp hc with e | hc
    · subst e; decide
    · exact (alnum_safe (w.alnum c hc)).1.2.1

theorem Q2_ts (li : LItem) (r : Str) (h : li.startAt = 0) (hr : Q2 r) : Q2 (tsPart li ++ r) := by
  unfold tsPart
  rw [h]
  simpa using hr

theorem Q2_text (t r : Str) (hr : Q2 r) : Q2 (escapeHTML t ++ r) := by
  unfold Q2
  rw [tsScan_text _ _ (fun c hc e => C01.escape_no_lt t (e ▸ hc))]
  exact hr

/-! ### `noNbsp` -/

theorem noNbsp_cons (c : Char) (cs : Str) :
    noNbsp (c :: cs) = (!hasPrefix "&nbsp;".toList (c :: cs) && noNbsp cs) := by
  simp only [noNbsp]

theorem noNbsp_skip1 (c : Char) (cs : Str) (h : c ≠ '&') : noNbsp (c :: cs) = noNbsp cs := by
  rw [noNbsp_cons, litNbsp6, VTT.hasPrefix_ne _ _ (fun e => h e.symm)]
  rfl

theorem noNbsp_skip (x r : Str) (hx : ∀ c ∈ x, c ≠ '&') : noNbsp (x ++ r) = noNbsp r := by
  induction x with
  | nil => rfl
  | cons c x ih =>
    rw [cons_append, noNbsp_skip1 _ _ (hx c (by simp))]
    exact ih (fun d hd => hx d (by simp [hd]))

theorem noNbsp_amp (b : Char) (cs : Str) (h : b ≠ 'n') : noNbsp ('&' :: b :: cs) = noNbsp (b :: cs) := by
  rw [noNbsp_cons, litNbsp6, VTTRead.hasPrefix_cons, VTT.hasPrefix_ne _ _ (fun e => h e.symm)]
  rfl

theorem noNbsp_esc1 (c : Char) (r : Str) (h : c ≠ C01.nbsp) : noNbsp (C01.esc1 c ++ r) = noNbsp r := by
  unfold C01.esc1
  by_cases h1 : c = '&'
  · rw [if_pos h1, litAmp5]
    simp only [cons_append, nil_append]
    rw [noNbsp_amp _ _ (by decide)]
    exact noNbsp_skip ['a', 'm', 'p', ';'] r (by decide)
  · rw [if_neg h1]
    by_cases h2 : c = '<'
    · rw [if_pos h2, litLt4]
      simp only [cons_append, nil_append]
      rw [noNbsp_amp _ _ (by decide)]
      exact noNbsp_skip ['l', 't', ';'] r (by decide)
    · rw [if_neg h2, if_neg h]
      exact noNbsp_skip [c] r (by intro d hd; simp at hd; subst hd; exact h1)

theorem noNbsp_esc (t r : Str) (h : C01.nbsp ∉ t) : noNbsp (escapeHTML t ++ r) = noNbsp r := by
  rw [C01.escape_eq_flatMap]
  induction t with
  | nil => rfl
  | cons c t ih =>
    rw [flatMap_cons, append_assoc, noNbsp_esc1 c _ (fun e => h (by simp [e]))]
    exact ih (fun hm => h (by simp [hm]))

def Q3 (r : Str) : Prop := noNbsp r = true

theorem Q3_open (t : VTT.Tag) (r : Str) (h : WT t) (hr : Q3 r) : Q3 (VTT.Tag.startTag t ++ r) := by
  have w := VTT.wf_facts h.1
  unfold Q3
  rw [noNbsp_skip]
  · exact hr
  · rw [startTag_body t w.name_ne]
    intro c hc
    rcases mem_cons.mp hc with e | hc
    · subst e; decide
    · rcases mem_append.mp hc with hc | hc
      · exact (startBody_chars t w c hc).2.2.1
      · simp at hc; subst hc; decide

theorem Q3_close (t : VTT.Tag) (r : Str) (h : WT t) (hr : Q3 r) : Q3 (VTT.Tag.endTag t ++ r) := by
  have w := VTT.wf_facts h.1
  unfold Q3
  rw [noNbsp_skip]
  · exact hr
  · have e : VTT.Tag.endTag t = '<' :: '/' :: (t.name ++ ['>']) := by
      simp [VTT.Tag.endTag, w.name_ne, litClose]
    rw [e]
    intro c hc
    rcases mem_cons.mp hc with e | hc
    · subst e; decide
    · rcases mem_cons.mp hc with e | hc
      · subst e; decide
      · rcases mem_append.mp hc with hc | hc
        · exact (alnum_safe (w.alnum c hc)).1.2.2.1
        · simp at hc; subst hc; decide

theorem Q3_ts (li : LItem) (r : Str) (h : WI li) (hr : Q3 r) : Q3 (tsPart li ++ r) := by
  unfold tsPart
  split
  · unfold Q3
    rw [noNbsp_skip]
    · exact hr
    · have hch := format_tagchars li.startAt h.1 h.2
      intro c hc
      simp only [VTT.tsText, mem_cons, mem_append, not_mem_nil, or_false] at hc
      rcases hc with (e | hc) | e
      · subst e; decide
      · exact timeChar_ne (hch c hc) '&' (by decide) (by decide) (by decide)
      · subst e; decide
  · simpa using hr

theorem Q3_text (t r : Str) (h : C01.nbsp ∉ t) (hr : Q3 r) : Q3 (escapeHTML t ++ r) := by
  unfold Q3
  rw [noNbsp_esc t r h]
  exact hr

end VTT3W
end Astisub
