import Astisub.Lemmas.VTT3WDoc

/-!
# Lemmas/VTT3WDocWitness — non-vacuity and witnesses for `Lemmas/VTT3WDoc.lean`

* `exDocW_ok`, `exDocW_w2`: `VTT3W.exDocW` (comments, two regions, CSS block, timestamp map, settings, a region
  reference) satisfies `DocOk` and `docW2`; hence `decode_exDocW`.
* `inClass_needs_metaText`: the class statement without `metaTextW2` is false.
* the witnesses for the conjuncts of `docW2` (documents satisfying `DocOk`, violating one conjunct only, which
  the decoder rejects / which lie outside the class) are listed at the end; they were evaluated with `#eval`
  (results in the comments).
-/

namespace Astisub
namespace VTT3W
open Go Spec.VTT VTTRead

/-! ### non-vacuity -/

theorem exDocW_styleLines :
    VTT.styleLines exDocW = ["::cue(b) {".toList, "color: red".toList, "}".toList] := VTT.exDoc_styleLines

theorem exDocW_cue : VTT.cueOk2 exDocW exCueW = true := by decide
theorem exDocW_cue2 : VTT.cueOk2 exDocW VTT.exCue2 = true := by decide

theorem exDocW_ok : VTT.DocOk exDocW = true := by
  have h1 : exDocW.items.all (VTT.cueOk2 exDocW) = true := by
    show [exCueW, VTT.exCue2].all (VTT.cueOk2 exDocW) = true
    simp only [List.all_cons, List.all_nil, exDocW_cue, exDocW_cue2, Bool.and_self]
  have h2 : (!exDocW.items.isEmpty) = true := rfl
  have h3 : decide (exDocW.items.length ≤ int64Max) = true := by decide
  have h4 : decide ((exDocW.regions.map (·.id)).Nodup) = true := decide_eq_true VTT.exDoc_nodup
  have h5 : exDocW.regions.all (VTT.regionOk exDocW) = true := by decide
  have h6 : (VTT.styleLines exDocW).all VTT.styleLineOk = true ∧ VTT.styleEndOk exDocW = true := by
    simp only [VTT.styleEndOk, exDocW_styleLines]; decide
  have h7 : VTT.tsmapOk exDocW = true := by decide
  unfold VTT.DocOk
  rw [h1, h2, h3, h4, h5, h6.1, h6.2, h7]
  rfl

theorem exDocW_w2 : docW2 exDocW = true := by
  have h1 : decide (exDocW.items.length < 2 ^ 62) = true := by decide
  have h2 : exDocW.items.all cueW2 = true := by decide
  have h3 : styleW2 exDocW = true := by
    unfold styleW2; rw [exDocW_styleLines]; decide
  have h4 : exDocW.regions.all (regionW2 exDocW) = true := by decide
  have h5 : tsmapW2 exDocW = true := by decide
  unfold docW2
  rw [h1, h2, h3, h4, h5]
  rfl

/-- the decoder accepts the written `exDocW` (its two cues have one text line each, which it accepts) -/
theorem decode_exDocW :
    ∃ g, Spec.VTT.decode (VTT.unlines (VTT.docLines2 exDocW)) = some g ∧ g.cues.map (·.lines) = exDocW.items.map glOf := by
  apply decode_docLines2 exDocW exDocW_ok exDocW_w2
  intro it hit
  have : it = exCueW ∨ it = VTT.exCue2 := by simpa [exDocW] using hit
  rcases this with rfl | rfl <;> decide

/-! ### `metaTextW2`, `regionArrowFree`: examples -/

/-- one cue, the CSS block of `exDoc`, no region -/
def exDocM : Subs := { items := [VTT.exCue2], styles := VTT.exDoc.styles }

theorem exDocM_regionLines : regionLines exDocM = [] := by
  show (VTT.sortDefs []).map _ = []
  rw [VTT.sortDefs_nil]; rfl

example : metaTextW2 lineOK2 exDocM = true := by
  unfold metaTextW2
  rw [exDocM_regionLines, show VTT.styleLines exDocM = _ from VTT.exDoc_styleLines]
  decide

example : regionArrowFree exDocM = true := by
  unfold regionArrowFree; rw [exDocM_regionLines]; rfl

/-! ### the class statement needs `metaTextW2` -/

/-- a cue without text lines -/
def exCue0 : CItem := { startAt := 0, endAt := 1000000000, lines := [] }

/-- one cue without text, the three CSS lines of `exDoc` -/
def exDoc0 : Subs := { items := [exCue0], styles := VTT.exDoc.styles }

theorem exDoc0_styleLines :
    VTT.styleLines exDoc0 = ["::cue(b) {".toList, "color: red".toList, "}".toList] := VTT.exDoc_styleLines

theorem exDoc0_ok : VTT.DocOk exDoc0 = true := by
  have h1 : exDoc0.items.all (VTT.cueOk2 exDoc0) = true := by decide
  have h2 : (!exDoc0.items.isEmpty) = true := rfl
  have h3 : decide (exDoc0.items.length ≤ int64Max) = true := by decide
  have h4 : decide ((exDoc0.regions.map (·.id)).Nodup) = true := by decide
  have h5 : exDoc0.regions.all (VTT.regionOk exDoc0) = true := rfl
  have h6 : (VTT.styleLines exDoc0).all VTT.styleLineOk = true ∧ VTT.styleEndOk exDoc0 = true := by
    simp only [VTT.styleEndOk, exDoc0_styleLines]; decide
  have h7 : VTT.tsmapOk exDoc0 = true := by decide
  unfold VTT.DocOk
  rw [h1, h2, h3, h4, h5, h6.1, h6.2, h7]
  rfl

theorem exDoc0_w2 : docW2 exDoc0 = true := by
  have h1 : decide (exDoc0.items.length < 2 ^ 62) = true := by decide
  have h2 : exDoc0.items.all cueW2 = true := by decide
  have h3 : styleW2 exDoc0 = true := by
    unfold styleW2; rw [exDoc0_styleLines]; decide
  have h4 : exDoc0.regions.all (regionW2 exDoc0) = true := rfl
  have h5 : tsmapW2 exDoc0 = true := by decide
  unfold docW2
  rw [h1, h2, h3, h4, h5]
  rfl

theorem mem_styleBlocks (s : Subs) (h : VTT.styleLines s ≠ []) :
    ("STYLE".toList :: VTT.styleLines s) ∈ styleBlocks s := by
  unfold styleBlocks
  have : (VTT.styleLines s).isEmpty = false := by
    cases hs : VTT.styleLines s with
    | nil => exact absurd hs h
    | cons a b => rfl
  rw [this]
  simp

theorem blockOK_style_false (a b : Str) (rest : List Str) :
    blockOKWith (fun _ => false) ("STYLE".toList :: a :: b :: rest) = false := by
  unfold blockOKWith
  simp only [noteLine_style, Option.isSome_none, Bool.false_eq_true, if_false]
  rw [cueTextOf_cons, if_neg (by decide)]
  simp

/-- with `ok := fun _ => false`: no text line at all, yet the written `exDoc0` is outside `InClassWith ok`,
    because `blockOKWith` asks `ok` of the second and third CSS line -/
theorem exDoc0_outside : InClassWith (fun _ => false) (VTT.unlines (VTT.docLines2 exDoc0)) = false := by
  unfold InClassWith
  rw [docBlocks_docLines2 exDoc0 exDoc0_ok exDoc0_w2]
  simp only
  rw [List.all_eq_false]
  refine ⟨"STYLE".toList :: VTT.styleLines exDoc0, ?_, ?_⟩
  · apply List.mem_append_right
    unfold restBlocks
    apply List.mem_append_left
    apply List.mem_append_left
    apply mem_styleBlocks
    rw [exDoc0_styleLines]
    exact List.cons_ne_nil _ _
  · rw [exDoc0_styleLines, blockOK_style_false]
    exact Bool.false_ne_true

/-- **the class statement as first proposed is false** -/
theorem inClass_needs_metaText : ¬ inClass_docLines2_Statement := by
  intro h
  have := h (fun _ => false) exDoc0 exDoc0_ok exDoc0_w2 (by
    intro it hit l hl
    have : it = exCue0 := by simpa [exDoc0] using hit
    subst this
    cases hl)
  rw [exDoc0_outside] at this
  cases this

/-!
### witnesses for the conjuncts of `docW2` (evaluated with `#eval`; `dec d := (decode (unlines (docLines2 d))).isSome`,
`cls d := InClassWith lineOK2 (unlines (docLines2 d))`)

With `d1 := exDocW` (`dec = true, cls = true, DocOk = true`), each variant below keeps `DocOk = true`:

* `tsmapW2` — `metadata := "10000000123,+900000"`: `dec = false` (the decoder's `natOf` takes no sign);
  `"10000000123,4611686018427387904"` (2^62): `dec = false`.  (`-900000` of `VTT.exDoc`: `dec = false`.)
* `commentsW2`, first line — `comments := ["first --> line", …]` (`VTT.exDoc` itself): `dec = false`.
* `commentsW2`, later lines — `comments := ["first line", "NOTE\tx"]`: `dec = true`, `cls = false` (class `noteOK`).
* `regionW2` — `WebVTTLines := "-3"`: `dec = false`; `WebVTTLines := "1234567890123456789"` (19 digits):
  `dec = true`, `cls = false` (class `regionOK`).
* `styleW2` — CSS `"NOTE\tx {\n}"`: `dec = false` (the decoder's `opener` in a `STYLE` block).
* `cueW2`, text lines — a text line `Region: id=a lines=1234567890123456789`: `dec = true`, `cls = false`
  (`blockOKWith` asks `regionOK` of every line of a cue block).
* `items.length < 2^62` — `cueId` answers `none` for a number ≥ 2^62 (`Spec.VTT.cueId`); no document of that
  size can be evaluated.
* `metaTextW2` — CSS `"a {\nb <c=d> {}\n}"`: `dec = true`, `cls = false` with `ok := lineOK2`; formally
  `inClass_needs_metaText` above.
-/

end VTT3W
end Astisub
