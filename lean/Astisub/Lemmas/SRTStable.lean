import Astisub.Lemmas.SRTSpecView
import Astisub.Lemmas.SRTRead

/-!
# Lemmas/SRTStable — the SubRip normal form is stable

`norm s` is what a SubRip write → read round trip makes of a representable cue list.  This file
proves that the normal form is a fixed point of everything in sight:

* `write_norm` : writing the normal form reproduces the file byte for byte;
* `rep_norm`   : the normal form is itself representable;
* `norm_idem`  : normalising twice is normalising once.
-/

namespace Astisub
namespace SRTDoc
open Go SRT

/-! ## runs -/

/-- the reader never produces an `SRTPosition` attribute -/
theorem kvGet_runAttrs_position (r : Run) : kvGet (runAttrs r) "SRTPosition" = none := by
  cases hs : styled r with
  | false =>
    have : (r.bold || r.color.isSome || r.italics || r.underline) = false := hs
    unfold runAttrs
    simp only [this, Bool.false_eq_true, ↓reduceIte]
    rfl
  | true =>
    have : (r.bold || r.color.isSome || r.italics || r.underline) = true := hs
    unfold runAttrs
    simp only [this, ↓reduceIte]
    apply kvGet_mkAttrs _ (runAttrs_keys r _)
    intro v
    simp

/-- the colour `styleOf` reports is never the empty string -/
theorem styleOf_color_ne_nil (li : LItem) (c : Str) (h : (styleOf li).color = some c) : c ≠ [] := by
  unfold styleOf at h
  simp only at h
  cases hc : kvGet li.attrs "SRTColor" with
  | none => rw [hc] at h; simp at h
  | some d =>
    rw [hc] at h
    simp only at h
    by_cases hd : d = []
    · simp [hd] at h
    · simp only [ne_eq, hd, not_false_eq_true, ↓reduceIte, Option.some.injEq] at h
      rw [← h]; exact hd

/-- the markup of the run read back is the markup of the run written -/
theorem styleOf_normRun (li : LItem) : styleOf (normRun li) = styleOf li := by
  have hne := styleOf_color_ne_nil li
  unfold normRun
  generalize styleOf li = r at hne ⊢
  unfold styleOf
  simp only [kvGet_runAttrs_bold, kvGet_runAttrs_italics, kvGet_runAttrs_underline, kvGet_runAttrs_color,
    optBool_isSome]
  rcases r with ⟨b, i, u, c⟩
  cases c with
  | none => rfl
  | some c =>
    have : c ≠ [] := hne c rfl
    simp [this]

theorem normRun_text (li : LItem) : (normRun li).text = li.text := rfl

theorem normRun_pos (li : LItem) : (kvGet (normRun li).attrs "SRTPosition").getD [] = [] := by
  show (kvGet (runAttrs (styleOf li)) "SRTPosition").getD [] = []
  rw [kvGet_runAttrs_position]; rfl

theorem normRun_idem (li : LItem) : normRun (normRun li) = normRun li := by
  show ({ text := li.text, attrs := runAttrs (styleOf (normRun li)) } : LItem) = _
  rw [styleOf_normRun]; rfl

theorem plainRun_normRun (li : LItem) : plainRun (normRun li) = plainRun li := by
  unfold plainRun; rw [styleOf_normRun]

theorem runToks_normRun (li : LItem) : runToks (normRun li) = runToks li := by
  unfold runToks; rw [styleOf_normRun, normRun_text]

/-- the run read back is written as the original run was -/
theorem runBytes_normRun (li : LItem) (hpos : (kvGet li.attrs "SRTPosition").getD [] = []) :
    runBytes (normRun li) = runBytes li := by
  rw [runBytes_eq li hpos, runBytes_eq (normRun li) (normRun_pos li), runToks_normRun]

/-! ## lines and cues, as written -/

theorem lineBytes_normLine (l : Line) (h : ∀ li ∈ l.items, (kvGet li.attrs "SRTPosition").getD [] = []) :
    lineBytes (normLine l) = lineBytes l := by
  have e : (l.items.map normRun).map runBytes = l.items.map runBytes := by
    rw [List.map_map]
    apply List.map_congr_left
    intro li hli
    exact runBytes_normRun li (h li hli)
  show ((l.items.map normRun).map runBytes).flatten ++ ['\n'] = _
  rw [e]; rfl

theorem truncMs_format (t : Int) (h0 : 0 ≤ t) : Duration.formatSRT (truncMs t) = Duration.formatSRT t :=
  C16.format_idem3 t ',' h0

/-- a cue of the normal form is written as the original cue (whatever number it is given) -/
theorem itemBytes_normItem (j k : Nat) (it : CItem) (h : RepItem it = true) :
    itemBytes j (normItem k it) = itemBytes j it := by
  obtain ⟨hs0, _, he0, _⟩ := repItem_times h
  have hl : (it.lines.map normLine).map lineBytes = it.lines.map lineBytes := by
    rw [List.map_map]
    apply List.map_congr_left
    intro l hl
    exact lineBytes_normLine l (fun li hli => repRun_pos (repLine_runs (repItem_lines h l hl) li hli))
  unfold itemBytes normItem
  simp only [truncMs_format _ hs0, truncMs_format _ he0, hl]

theorem bytes_normItems (items : List CItem) (k j : Nat) (h : ∀ it ∈ items, RepItem it = true) :
    (((normItems k items).zipIdx j).map fun (it, k) => itemBytes k it).flatten
      = ((items.zipIdx j).map fun (it, k) => itemBytes k it).flatten := by
  induction items generalizing k j with
  | nil => rfl
  | cons it rest ih =>
    simp only [normItems, List.zipIdx_cons, List.map_cons, List.flatten_cons,
      ih (k + 1) (j + 1) (fun x hx => h x (by simp [hx])), itemBytes_normItem j k it (h it (by simp))]

theorem normItems_isEmpty (k : Nat) (items : List CItem) : (normItems k items).isEmpty = items.isEmpty := by
  cases items <;> rfl

/-- **Writing is stable.** writing what was read back reproduces the file byte for byte -/
theorem write_norm (s : Subs) (h : Rep s = true) : SRT.write (norm s) = SRT.write s := by
  have hit := rep_items h
  unfold write norm
  simp only [normItems_isEmpty, bytes_normItems s.items 0 0 hit]

/-! ## the normal form is representable -/

theorem repRun_normRun {li : LItem} (h : RepRun li = true) : RepRun (normRun li) = true := by
  have hp := repRun_pos h
  unfold RepRun at h ⊢
  rw [styleOf_normRun, normRun_pos, normRun_text]
  rw [hp] at h
  exact h

theorem noAdjPlain_normRun : ∀ items : List LItem, noAdjPlain (items.map normRun) = noAdjPlain items
  | [] => rfl
  | [_] => rfl
  | a :: b :: r => by
    show (!(plainRun (normRun a) && plainRun (normRun b)) && noAdjPlain ((b :: r).map normRun))
      = (!(plainRun a && plainRun b) && noAdjPlain (b :: r))
    rw [plainRun_normRun, plainRun_normRun, noAdjPlain_normRun (b :: r)]

theorem repLine_normLine {l : Line} (h : RepLine l = true) : RepLine (normLine l) = true := by
  have hruns := repLine_runs h
  simp only [RepLine, Bool.and_eq_true] at h
  obtain ⟨⟨⟨⟨h1, _⟩, h3⟩, h4⟩, h5⟩ := h
  simp only [RepLine, Bool.and_eq_true, normLine]
  refine ⟨⟨⟨⟨?_, ?_⟩, ?_⟩, ?_⟩, ?_⟩
  · rw [List.isEmpty_map]; exact h1
  · apply List.all_eq_true.mpr
    intro x hx
    obtain ⟨li, hli, rfl⟩ := List.mem_map.mp hx
    exact repRun_normRun (hruns li hli)
  · rw [noAdjPlain_normRun]; exact h3
  · rw [List.head?_map]
    cases hh : l.items.head? with
    | none => rw [hh] at h4; exact absurd h4 (by simp)
    | some li =>
      rw [hh] at h4
      show (styled (styleOf (normRun li)) || (normRun li).text.head?.any visible) = true
      rw [styleOf_normRun]; exact h4
  · rw [List.getLast?_map]
    cases hh : l.items.getLast? with
    | none => rw [hh] at h5; exact absurd h5 (by simp)
    | some li =>
      rw [hh] at h5
      show (styled (styleOf (normRun li)) || (normRun li).text.getLast?.any visible) = true
      rw [styleOf_normRun]; exact h5

theorem repItem_normItem (k : Nat) {it : CItem} (h : RepItem it = true) : RepItem (normItem k it) = true := by
  obtain ⟨a, b, c, d⟩ := repItem_times h
  have hl := repItem_lines h
  simp only [RepItem, hundredHours, normItem, truncMs, Bool.and_eq_true]
  refine ⟨⟨⟨⟨decide_eq_true (by omega), decide_eq_true (by omega)⟩, decide_eq_true (by omega)⟩, decide_eq_true (by omega)⟩, ?_⟩
  apply List.all_eq_true.mpr
  intro x hx
  obtain ⟨l, hl', rfl⟩ := List.mem_map.mp hx
  exact repLine_normLine (hl l hl')

theorem normItems_length (k : Nat) (items : List CItem) : (normItems k items).length = items.length := by
  induction items generalizing k with
  | nil => rfl
  | cons it rest ih => simp only [normItems, List.length_cons, ih]

theorem repItem_normItems (k : Nat) (items : List CItem) (h : ∀ it ∈ items, RepItem it = true) :
    ∀ x ∈ normItems k items, RepItem x = true := by
  induction items generalizing k with
  | nil => intro x hx; simp [normItems] at hx
  | cons it rest ih =>
    intro x hx
    simp only [normItems, List.mem_cons] at hx
    rcases hx with rfl | hx
    · exact repItem_normItem k (h it (by simp))
    · exact ih (k + 1) (fun y hy => h y (by simp [hy])) x hx

/-- **The normal form is representable.** -/
theorem rep_norm (s : Subs) (h : Rep s = true) : Rep (norm s) = true := by
  have hit := rep_items h
  simp only [Rep, Bool.and_eq_true, decide_eq_true_eq] at h
  obtain ⟨⟨h1, h2⟩, _⟩ := h
  simp only [Rep, norm, Bool.and_eq_true, decide_eq_true_eq, normItems_isEmpty, normItems_length]
  exact ⟨⟨h1, h2⟩, List.all_eq_true.mpr (repItem_normItems 0 s.items hit)⟩

/-! ## normalising twice -/

theorem truncMs_idem (t : Int) : truncMs (truncMs t) = truncMs t := by
  unfold truncMs; omega

theorem normLine_idem (l : Line) : normLine (normLine l) = normLine l := by
  show ({ items := (l.items.map normRun).map normRun } : Line) = { items := l.items.map normRun }
  rw [List.map_map]
  congr 1
  apply List.map_congr_left
  intro li _
  exact normRun_idem li

theorem normItem_idem (j k : Nat) (it : CItem) : normItem j (normItem k it) = normItem j it := by
  have hl : (it.lines.map normLine).map normLine = it.lines.map normLine := by
    rw [List.map_map]
    apply List.map_congr_left
    intro l _
    exact normLine_idem l
  unfold normItem
  simp only [truncMs_idem, hl]

theorem normItems_idem (j k : Nat) (items : List CItem) : normItems j (normItems k items) = normItems j items := by
  induction items generalizing j k with
  | nil => rfl
  | cons it rest ih => simp only [normItems, normItem_idem, ih]

/-- **Idempotence.** the normal form of a normal form is itself (no hypothesis needed) -/
theorem norm_idem (s : Subs) : norm (norm s) = norm s := by
  unfold norm
  simp only [normItems_idem]

end SRTDoc
end Astisub
