import Astisub.Lemmas.TelePacket

/-!
# Lemmas/TeleLife — the life of a page instance in the model's page buffer

A header of the selected page at `t1` opens an instance; row packets fill it; the next header of the selected page at
`t2` closes it: the finished page has `start = t1`, `end_ = t2` and the national option code of the first header.
-/

namespace Astisub
namespace Teletext
open Go Generated.Teletext
open Spec.Teletext (Packet)

/-- the buffer after a header of the selected page at `t`: the page under construction is finished with end `t`, a new
    one with the header's code starts at `t` -/
def openHeader (b : Buf) (t : Int) (code : Nat) : Buf :=
  { b with done := (match b.current with | some p => b.done ++ [{ p with end_ := t }] | none => b.done),
           receiving := true, current := some { charsetCode := code, start := t } }

/-- a header of the selected page (decimal digits `tens`, `units`; the buffer's magazine) -/
theorem headerStep_selected (b : Buf) (t : Int) (tens units : Nat) (subtitle serial : Bool) (code : Nat)
    (hsel : ¬ (b.mag = 0 ∧ b.page = 0)) (ht : tens ≤ 9) (hu : units ≤ 9) (hp : tens * 10 + units = b.page) :
    headerStep b t b.mag tens units subtitle serial code = openHeader b t code := by
  have hff : (decide (tens = 15) && decide (units = 15)) = false := by
    have : tens ≠ 15 := by omega
    simp [this]
  have hs : (decide (b.mag = 0) && decide (b.page = 0)) = false := by
    cases hd : (decide (b.mag = 0) && decide (b.page = 0))
    · rfl
    · exfalso
      simp only [Bool.and_eq_true, decide_eq_true_eq] at hd
      exact hsel hd
  have hpn : pageNo tens units = some b.page := by
    unfold pageNo
    have : ¬ (decide (tens > 9) || decide (units > 9)) = true := by simp; omega
    rw [if_neg this, hp]
  have hauto : autoSelect b b.mag (some b.page) subtitle = b := by
    unfold autoSelect
    simp only [hs, Bool.false_eq_true, if_false]
  unfold headerStep openHeader
  rw [hpn]
  simp only [hff, Bool.false_eq_true, if_false, hauto, headerCore, bne_self_eq_false, Bool.or_self, Bool.and_false,
    Bool.false_and, Bool.or_false]
  cases b.current <;> rfl

/-- an instance of the selected page that started at `t1` with code `code1` is being received -/
structure Open (b0 b : Buf) (t1 : Int) (code1 : Nat) : Prop where
  mag : b.mag = b0.mag
  page : b.page = b0.page
  done : b.done = b0.done
  cur : ∃ p, b.current = some p ∧ p.start = t1 ∧ p.charsetCode = code1

theorem Open.row {b0 b : Buf} {t1 : Int} {code1 : Nat} (h : Open b0 b t1 code1) (t : Int) (mag y : Nat) (cells : List (Option Nat)) :
    Open b0 (applyPacket t b (.row mag y cells)) t1 code1 := by
  simp only [applyPacket]
  split
  · obtain ⟨p, hp, h1, h2⟩ := h.cur
    simp only [storeRow, hp]
    exact ⟨h.mag, h.page, h.done, ⟨_, rfl, h1, h2⟩⟩
  · exact h

def isRow : Packet → Bool
  | .row _ _ _ => true
  | _ => false

theorem Open.rows {b0 : Buf} {t1 : Int} {code1 : Nat} (t : Int) : ∀ (ps : List Packet) {b : Buf}, Open b0 b t1 code1 →
    (∀ p ∈ ps, isRow p = true) → Open b0 (ps.foldl (applyPacket t) b) t1 code1
  | [], _, h, _ => h
  | p :: ps, b, h, hp => by
    rw [List.foldl_cons]
    have := hp p (by simp)
    cases p with
    | row mag y cells => exact Open.rows t ps (h.row t mag y cells) (fun q hq => hp q (by simp [hq]))
    | header _ _ _ _ _ _ => cases this
    | desig _ _ _ _ => cases this
    | other => cases this

/-- **Life of a page instance.**  With a page selected: a header of that page at `t1`, then any row packets (any
    magazine, received with PES time `t`), then the next header of that page at `t2`.  The buffer then holds exactly
    one more finished page than after the first header; it started at `t1`, ends at `t2` and has the first header's
    national option code; a new instance with the second header's code is open from `t2`. -/
theorem two_headers (b : Buf) (t1 t t2 : Int) (tens units : Nat) (sub1 ser1 sub2 ser2 : Bool) (code1 code2 : Nat)
    (rows : List Packet)
    (hsel : ¬ (b.mag = 0 ∧ b.page = 0)) (ht : tens ≤ 9) (hu : units ≤ 9) (hp : tens * 10 + units = b.page)
    (hrows : ∀ p ∈ rows, isRow p = true) :
    let b1 := applyPacket t1 b (.header b.mag tens units sub1 ser1 code1)
    let b2 := rows.foldl (applyPacket t) b1
    let b3 := applyPacket t2 b2 (.header b.mag tens units sub2 ser2 code2)
    ∃ p, b3.done = b1.done ++ [p] ∧ p.start = t1 ∧ p.end_ = t2 ∧ p.charsetCode = code1 ∧
      b3.current = some { charsetCode := code2, start := t2 } ∧ b3.receiving = true := by
  intro b1 b2 b3
  have h1 : b1 = openHeader b t1 code1 := headerStep_selected b t1 tens units sub1 ser1 code1 hsel ht hu hp
  have ho1 : Open b1 b1 t1 code1 :=
    ⟨rfl, rfl, rfl, ⟨{ charsetCode := code1, start := t1 }, by rw [h1]; rfl, rfl, rfl⟩⟩
  have ho2 : Open b1 b2 t1 code1 := Open.rows t rows ho1 hrows
  have hm1 : b1.mag = b.mag := by rw [h1]; rfl
  have hp1 : b1.page = b.page := by rw [h1]; rfl
  have hsel2 : ¬ (b2.mag = 0 ∧ b2.page = 0) := by rw [ho2.mag, ho2.page, hm1, hp1]; exact hsel
  have h3 : b3 = openHeader b2 t2 code2 := by
    show applyPacket t2 b2 (.header b.mag tens units sub2 ser2 code2) = _
    rw [← hm1, ← ho2.mag]
    exact headerStep_selected b2 t2 tens units sub2 ser2 code2 hsel2 ht hu (by rw [ho2.page, hp1]; exact hp)
  obtain ⟨p, hcur, hs, hc⟩ := ho2.cur
  refine ⟨{ p with end_ := t2 }, ?_, hs, rfl, hc, ?_, ?_⟩
  · rw [h3]; simp only [openHeader, hcur, ho2.done]
  · rw [h3]; rfl
  · rw [h3]; rfl

end Teletext
end Astisub
