import Astisub.Lemmas.VTTRead2Layer

/-!
# Lemmas/VTT3Defs — vocabulary of the WebVTT read clause with inline timestamps (C02read2)

* `lineOK2` / `InClass2`: the class of `Props/C02read.lean` **without** the wholesale exclusion of inline
  timestamps (`<` + digit).  One real difference lives among the lines with inline timestamps and is kept
  out explicitly: a line that holds an inline timestamp *and* a piece of text that is white space with `&nbsp;`
  (the library decides "is this text blank?" on the raw text, the decoder on the decoded text; witness in
  `Props/C02read2.lean`).
* `zeroTsRun …`: `Driver.zeroTs` piece by piece.
* `runItem2`: the cue-list item the reader builds for a run of the decoder (with its inline timestamp).
* `TextLayer2`: what the cue-text layer provides, *up to* white-space-only runs and zero timestamps.
* `Good2`: what the `vtt.read` case of the driver checks (with `zeroTs` applied to the denotation).
-/

namespace Astisub
namespace VTTRead
open Go Spec.VTT

/-! ### the class -/

/-- as `scanOK`, without the exclusion of `<` + digit.  The flag says whether the scan is between a `<` and
    the next `>` (a tag or an inline timestamp). -/
def scanOK2 : Bool → Str → Bool
  | _, [] => true
  | false, c :: cs => if c = '<' then scanOK2 true cs else scanOK2 false cs
  | true, c :: cs =>
    if c = '>' then scanOK2 false cs
    else !(c = '=' || c = '\x0c' || c = '|' || c = '\n' || c = '\r') && scanOK2 true cs

/-- the scan for inline timestamps: a `<` directly followed by a digit, outside a tag (the flag as in `scanOK2`) -/
def tsScan : Bool → Str → Bool
  | _, [] => false
  | false, c :: cs =>
    if c = '<' then (match cs with | d :: _ => isDigit d | [] => false) || tsScan true cs else tsScan false cs
  | true, c :: cs => if c = '>' then tsScan false cs else tsScan true cs

/-- the line holds an inline timestamp -/
def hasTs (l : Str) : Bool := tsScan false l

/-- the character reference `&nbsp;` does not occur -/
def noNbsp : Str → Bool
  | [] => true
  | c :: cs => !hasPrefix "&nbsp;".toList (c :: cs) && noNbsp cs

/-- a `<`-free piece of raw text is blank before decoding the character references iff it is blank after
    (false exactly for white space with at least one `&nbsp;`: not blank for `strings.TrimSpace`, but decoded to
    U+00A0, which is) -/
def chunkOK (x : Str) : Bool :=
  decide (trimSpace (SRT.unescapeHTML x) = []) == decide (trimSpace x = [])

/-- every piece of text of the line (between `<…>`s, before the first, after the last) is `chunkOK`; the flag as
    in `scanOK2`, `acc` is the piece read so far (reversed) -/
def chunksOK : Bool → Str → Str → Bool
  | _, [], acc => chunkOK acc.reverse
  | false, c :: cs, acc => if c = '<' then chunkOK acc.reverse && chunksOK true cs [] else chunksOK false cs (c :: acc)
  | true, c :: cs, _ => if c = '>' then chunksOK false cs [] else chunksOK true cs []

/-- cue text of the wider class: inside a tag none of `=`, form feed, `|`, CR, LF (as `lineOK`); inline
    timestamps anywhere — but then no piece of text that is blank only after decoding (white space with
    `&nbsp;`); in particular any line without `&nbsp;` (`lineOK2_of_noNbsp`) -/
def lineOK2 (l : Str) : Bool := scanOK2 false l && (!hasTs l || chunksOK false l [])

/-- the documents of the theorem (inside the decoder's class) -/
def InClass2 (doc : Str) : Bool := InClassWith lineOK2 doc

example : lineOK2 "<c.a x>a &amp; <00:01.000>b</c> <00:00:02.500> <i>c</i>".toList = true := by decide
example : lineOK2 "&nbsp;<b>x</b>".toList = true := by decide
example : lineOK2 "a&nbsp;b<00:01.000>&nbsp;c<b>x</b>".toList = true := by decide
example : lineOK2 "<00:01.000>&nbsp;<b>x</b>".toList = false := by decide

/-! ### `Driver.zeroTs`, piece by piece -/

def zeroTsRun (r : GRun) : GRun := if r.ts == some 0 then { r with ts := none } else r
def zeroTsLine (l : GLine) : GLine := { l with runs := l.runs.map zeroTsRun }
def zeroTsCue (c : GCue) : GCue := { c with lines := c.lines.map zeroTsLine }

theorem zeroTs_eq (g : GDoc) : Driver.zeroTs g = { g with cues := g.cues.map zeroTsCue } := rfl

/-! ### the cue-text layer, up to blank runs and zero timestamps -/

/-- a run with text (what `Spec.VTT.normLine` keeps) -/
def nb (r : GRun) : Bool := decide (trimSpace r.text ≠ [])

/-- the cue-list item the reader builds for a run of the decoder: the inline timestamp in nanoseconds,
    none = 0 -/
def runItem2 (r : GRun) : LItem :=
  { text := r.text, startAt := ((r.ts.getD 0 : Nat) : Int) * 1000000, attrs := VTT.tagsAttrs (r.tags.map modelTag) }

/-- what the cue-text layer has to provide for the lines accepted by `ok`: an invariant `good` of the
    decoder's tag stack, and for every line the decoder accepts, the reader's `parseText` returning
    the same stack and voice and a list of items `rs.map runItem2` whose runs-with-text are the decoder's
    runs-with-text, each viewed by the driver as the run with a zero timestamp erased
    (or the line is not covered by the tokenizer model) -/
structure TextLayer2 (ok : Str → Bool) where
  good : List GTag → Prop
  good_nil : good []
  agree : ∀ (l : Str) (stack : List GTag) (st : TextSt), ok l = true → good stack →
    textLine (l.length + 2) l { stack := stack } = some st →
    good st.stack ∧
    (VTT.parseText l (stack.map modelTag) = .unmodelled ∨
     ∃ rs : List GRun,
       VTT.parseText l (stack.map modelTag) =
         .ok (st.stack.map modelTag, { voice := st.voice.getD [], items := rs.map runItem2 }) ∧
       rs.filter nb = st.runs.filter nb ∧
       ∀ r ∈ rs, runView (runItem2 r) = some (zeroTsRun r))

/-! ### the outcome -/

/-- what the `vtt.read` case checks of the reader's answer `r` against the denotation `g`
    (`(Spec.VTT.decode text).map zeroTs` against the view, both under `norm`) -/
def Good2 (r : SRT.Res Subs) (g : GDoc) : Prop := Good r (Driver.zeroTs g)

end VTTRead
end Astisub
