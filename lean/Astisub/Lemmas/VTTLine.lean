import Astisub.Lemmas.VTTText
import Astisub.Lemmas.VTTTok
import Astisub.Lemmas.VTTTagRe

/-!
# Lemmas/VTTLine — a written WebVTT line is parsed back run by run

`J s acc st f`: with the parser in state `st` and the tokenizer holding the pending text `acc`
(reversed), the remaining input `s` leads to the final state `f`.  Each piece the writer emits
(text, inline timestamp, start tag, end tag, voice tag) is one backward step of `J`.
-/

namespace Astisub
namespace VTT
open Go List
open SRT (escapeHTML unescapeHTML)

/-! ### blank strings, escaped text -/

theorem dropWhile_eq_nil_iff {α} (p : α → Bool) (l : List α) : l.dropWhile p = [] ↔ ∀ x ∈ l, p x = true := by
  induction l with
  | nil => simp
  | cons a l ih =>
    cases h : p a <;> simp [dropWhile, h, ih]

theorem mem_dropWhile_of_not {α} (p : α → Bool) {l : List α} {c : α} (hc : c ∈ l) (h : p c = false) :
    c ∈ l.dropWhile p := by
  induction l with
  | nil => simp at hc
  | cons a l ih =>
    cases ha : p a with
    | false => simpa [dropWhile, ha] using hc
    | true =>
      simp only [dropWhile, ha]
      rcases mem_cons.mp hc with e | e
      · subst e; rw [h] at ha; exact absurd ha (by decide)
      · exact ih e

theorem trimSpace_nil_of_all {s : Str} (h : ∀ c ∈ s, isSpace c = true) : trimSpace s = [] := by
  have : s.dropWhile isSpace = [] := by rw [dropWhile_eq_nil_iff]; exact h
  simp [trimSpace, trimLeft, trimRight, this]

theorem exists_nonspace {s : Str} (h : trimSpace s ≠ []) : ∃ c ∈ s, isSpace c = false := by
  apply Classical.byContradiction
  intro hn
  apply h
  apply trimSpace_nil_of_all
  intro c hc
  cases hs : isSpace c with
  | true => rfl
  | false => exact absurd ⟨c, hc, hs⟩ hn

theorem trimSpace_ne_nil {s : Str} (c : Char) (hc : c ∈ s) (h : isSpace c = false) : trimSpace s ≠ [] := by
  intro he
  have h1 : (s.dropWhile isSpace).reverse.dropWhile isSpace = [] := by
    simpa [trimSpace, trimLeft, trimRight] using he
  rw [dropWhile_eq_nil_iff] at h1
  have h2 : c ∈ s.dropWhile isSpace := mem_dropWhile_of_not isSpace hc h
  have := h1 c (by simpa using h2)
  rw [h] at this; exact absurd this (by decide)

theorem esc1_mem_escape {c : Char} {t : Str} (h : c ∈ t) : ∀ x ∈ C01.esc1 c, x ∈ escapeHTML t := by
  intro x hx
  rw [C01.escape_eq_flatMap]
  exact mem_flatMap.mpr ⟨c, h, hx⟩

/-- a text with a visible character is still visible after escaping -/
theorem escape_nonblank {t : Str} (h : trimSpace t ≠ []) : trimSpace (escapeHTML t) ≠ [] := by
  obtain ⟨c, hc, hs⟩ := exists_nonspace h
  by_cases h1 : c = '&'
  · exact trimSpace_ne_nil '&' (esc1_mem_escape hc '&' (by simp [C01.esc1, h1])) (by decide)
  · by_cases h2 : c = '<'
    · exact trimSpace_ne_nil '&' (esc1_mem_escape hc '&' (by simp [C01.esc1, h2])) (by decide)
    · by_cases h3 : c = C01.nbsp
      · subst h3; exact absurd hs (by decide)
      · exact trimSpace_ne_nil c (esc1_mem_escape hc c (by simp [C01.esc1, h1, h2, h3])) hs

/-- escaping introduces no NUL -/
theorem escape_no_nul {t : Str} (h : '\x00' ∉ t) : '\x00' ∉ escapeHTML t := by
  rw [C01.escape_eq_flatMap]
  intro hm
  obtain ⟨c, hc, hx⟩ := mem_flatMap.mp hm
  unfold C01.esc1 at hx
  split at hx
  · simp at hx
  · split at hx
    · simp at hx
    · split at hx
      · simp at hx
      · simp at hx; subst hx; exact h hc

/-! ### the parser state after the pending text -/

theorem foldToks_append (st : PT) (a b : List Tok) :
    foldToks st (a ++ b) = (foldToks st a).bind fun st' => foldToks st' b := by
  induction a generalizing st with
  | nil => simp [foldToks]
  | cons t a ih =>
    simp only [cons_append, foldToks]
    cases stepTok st t with
    | none => simp
    | some st' => simp [ih]

/-- the state once the pending text (if any) has been handed over as a text token -/
def flushSt (st : PT) (acc : Str) : Option PT :=
  if acc = [] then some st else stepTok st (.text acc.reverse)

theorem foldToks_flushTok (st₀ st : PT) (acc : Str) (out : List Tok) (h : foldToks st₀ out.reverse = some st) :
    foldToks st₀ (flushTok acc out).reverse = flushSt st acc := by
  unfold flushTok flushSt
  cases acc with
  | nil => simpa using h
  | cons c acc =>
    simp only [isEmpty_cons, Bool.false_eq_true, if_false, reverse_cons, foldToks_append, h, Option.bind_some]
    simp only [foldToks, reduceCtorEq, if_false]
    cases stepTok st (Tok.text (acc.reverse ++ [c])) <;> simp

/-- from state `st` with pending text `acc`, input `s` ends in state `f` -/
def J (s acc : Str) (st f : PT) : Prop :=
  ∀ (out : List Tok) (st₀ : PT), foldToks st₀ out.reverse = some st →
    ∀ fuel, s.length + 1 ≤ fuel → ∃ toks, tokLoop fuel s acc out = .ok toks ∧ foldToks st₀ toks = some f

theorem J_nil {acc : Str} {st f : PT} (h : flushSt st acc = some f) : J [] acc st f := by
  intro out st₀ h0 fuel hf
  obtain ⟨k, rfl⟩ : ∃ k, fuel = k + 1 := ⟨fuel - 1, by simp at hf; omega⟩
  exact ⟨_, tokLoop_nil k acc out, by rw [foldToks_flushTok st₀ st acc out h0, h]⟩

theorem J_char {c : Char} {s acc : Str} {st f : PT} (h1 : c ≠ '<') (h2 : c ≠ '\x00')
    (h : J s (c :: acc) st f) : J (c :: s) acc st f := by
  intro out st₀ h0 fuel hf
  obtain ⟨k, rfl⟩ : ∃ k, fuel = k + 1 := ⟨fuel - 1, by simp at hf; omega⟩
  rw [tokLoop_char k c s acc out h1 h2]
  exact h out st₀ h0 k (by simp at hf; omega)

theorem J_text {x : Str} (hx : ∀ c ∈ x, c ≠ '<' ∧ c ≠ '\x00') {s acc : Str} {st f : PT}
    (h : J s (x.reverse ++ acc) st f) : J (x ++ s) acc st f := by
  induction x generalizing acc with
  | nil => simpa using h
  | cons c x ih =>
    obtain ⟨h1, h2⟩ := hx c (by simp)
    rw [cons_append]
    apply J_char h1 h2
    apply ih (fun d hd => hx d (by simp [hd]))
    simpa using h

theorem digitChar_not_markup_open {k : Nat} (h : k < 10) :
    isLetter (digitChar k) = false ∧ digitChar k ≠ '/' ∧ digitChar k ≠ '!' ∧ digitChar k ≠ '?' := by
  rcases digitChar_lt h with h|h|h|h|h|h|h|h|h|h <;> subst h <;> decide

/-- an inline timestamp joins the pending text -/
theorem J_ts {t : Int} (h0 : 0 ≤ t) (h1 : t < 360000000000000) {s acc : Str} {st f : PT}
    (h : J s ((tsText t).reverse ++ acc) st f) : J (tsText t ++ s) acc st f := by
  obtain ⟨k, r, hk, hfmt⟩ := format_head t h0 h1
  have hchars := format_chars t h0 h1
  have hJ : J ((Duration.formatVTT t ++ ['>']) ++ s) ('<' :: acc) st f := by
    apply J_text
    · intro c hc
      rcases mem_append.mp hc with hc | hc
      · exact hchars c hc
      · simp at hc; subst hc; exact ⟨by decide, by decide⟩
    · simpa [tsText] using h
  intro out st₀ hst fuel hf
  obtain ⟨n, rfl⟩ : ∃ n, fuel = n + 1 := ⟨fuel - 1, by simp at hf; omega⟩
  have e : tsText t ++ s = '<' :: digitChar k :: (r ++ ['>'] ++ s) := by simp [tsText, hfmt]
  rw [e, tokLoop_lt_text n _ _ acc out (digitChar_not_markup_open hk)]
  have e2 : digitChar k :: (r ++ ['>'] ++ s) = (Duration.formatVTT t ++ ['>']) ++ s := by simp [hfmt]
  rw [e2]
  apply hJ out st₀ hst n
  simp [tsText] at hf ⊢; omega

/-- a piece that the tokenizer turns into one token `tok` (with `P tok`), after the pending text -/
theorem J_tok {c s acc : Str} {st st1 st2 f : PT} (P : Tok → Prop) (hlen : 1 ≤ c.length)
    (hc : ∀ fuel out, ∃ tok, P tok ∧ tokLoop (fuel + 1) (c ++ s) acc out = tokLoop fuel s [] (tok :: flushTok acc out))
    (h1 : flushSt st acc = some st1) (h2 : ∀ tok, P tok → stepTok st1 tok = some st2)
    (h : J s [] st2 f) : J (c ++ s) acc st f := by
  intro out st₀ hst fuel hf
  obtain ⟨n, rfl⟩ : ∃ n, fuel = n + 1 := ⟨fuel - 1, by omega⟩
  obtain ⟨tok, hP, htl⟩ := hc n out
  rw [htl]
  apply h (tok :: flushTok acc out) st₀ _ n (by simp at hf; omega)
  rw [reverse_cons, foldToks_append, foldToks_flushTok st₀ st acc out hst, h1]
  simp [foldToks, h2 tok hP]

theorem J_startTag {t : Tag} (ht : t.wf = true) {s acc : Str} {st st1 f : PT}
    (h1 : flushSt st acc = some st1) (h : J s [] { st1 with tags := st1.tags ++ [t] } f) :
    J (Tag.startTag t ++ s) acc st f := by
  refine J_tok (fun tok => ∃ n a, tok = Tok.startTag (Tag.startTag t) n a) ?_ ?_ h1 ?_ h
  · have : t.name ≠ [] := by
      intro e; simp [Tag.wf, e] at ht
    simp [Tag.startTag, this]
  · intro fuel out
    obtain ⟨n, a, e⟩ := tokLoop_startTag t ht fuel s acc out
    exact ⟨_, ⟨n, a, rfl⟩, e⟩
  · rintro tok ⟨n, a, rfl⟩
    exact stepTok_startTag st1 t ht n a

theorem J_endTag {t : Tag} (ht : t.wf = true) {s acc : Str} {st st1 f : PT}
    (h1 : flushSt st acc = some st1) (h : J s [] { st1 with tags := st1.tags.dropLast } f) :
    J (Tag.endTag t ++ s) acc st f := by
  refine J_tok (fun tok => ∃ n, tok = Tok.endTag (Tag.endTag t) n) ?_ ?_ h1 ?_ h
  · have : t.name ≠ [] := by
      intro e; simp [Tag.wf, e] at ht
    simp [Tag.endTag, this]
  · intro fuel out
    obtain ⟨n, e⟩ := tokLoop_endTag t ht fuel s acc out
    exact ⟨_, ⟨n, rfl⟩, e⟩
  · rintro tok ⟨n, rfl⟩
    exact stepTok_endTag st1 t ht n

theorem J_voice {v : Str} (hv : voiceOk v = true) {s acc : Str} {st st1 f : PT}
    (h1 : flushSt st acc = some st1) (h : J s [] (if st1.voice = [] then { st1 with voice := v } else st1) f) :
    J (("<v ".toList ++ v ++ ['>']) ++ s) acc st f := by
  refine J_tok (fun tok => ∃ n a, tok = Tok.startTag ("<v ".toList ++ v ++ ['>']) n a) ?_ ?_ h1 ?_ h
  · simp
  · intro fuel out
    obtain ⟨n, a, e⟩ := tokLoop_voice v hv fuel s acc out
    exact ⟨_, ⟨n, a, rfl⟩, e⟩
  · rintro tok ⟨n, a, rfl⟩
    exact stepTok_voice st1 v hv n a

/-- the judgement from the initial state is the result of `parseText` -/
theorem parseText_of_J {s : Str} {sa : List Tag} {f : PT} (h : J s [] { tags := sa } f) :
    parseText s sa = .ok (f.tags, { voice := f.voice, items := f.items }) := by
  obtain ⟨toks, h1, h2⟩ := h [] { tags := sa } (by simp [foldToks]) (s.length + 2) (by omega)
  unfold parseText tokenize
  rw [h1]; simp only [h2]

/-! ### written text tokens in the pending text -/

/-- the pending text is a written text token: `<`-free text that is empty or visible, then
    timestamp segments -/
def GoodAcc (acc : Str) : Prop :=
  ∃ pre segs, acc.reverse = segsBytes pre segs ∧ '<' ∉ pre ∧ (pre = [] ∨ trimSpace pre ≠ []) ∧ SegsOk segs

theorem goodAcc_nil : GoodAcc [] :=
  ⟨[], [], rfl, by simp, Or.inl rfl, by intro p hp; simp at hp⟩

theorem flushSt_nil (st : PT) : flushSt st [] = some st := by simp [flushSt]

theorem flushSt_keeps {st st1 : PT} {acc : Str} (h : flushSt st acc = some st1) :
    st1.tags = st.tags ∧ st1.voice = st.voice := by
  unfold flushSt at h
  split at h
  · cases h; exact ⟨rfl, rfl⟩
  · simp only [stepTok] at h
    split at h
    · cases h; exact ⟨rfl, rfl⟩
    · cases h

theorem segBytes_ne_nil (p : Int × Str) : segBytes p ≠ [] := by simp [segBytes, tsText]

theorem segsBytes_eq_nil {pre : Str} {segs : List (Int × Str)} (h : segsBytes pre segs = []) :
    pre = [] ∧ segs = [] := by
  unfold segsBytes at h
  obtain ⟨h1, h2⟩ := append_eq_nil_iff.mp h
  refine ⟨h1, ?_⟩
  cases segs with
  | nil => rfl
  | cons p segs =>
    simp only [map_cons, flatten_cons] at h2
    exact absurd (append_eq_nil_iff.mp h2).1 (segBytes_ne_nil p)

/-- the state after the flush of a written text token, in closed form -/
theorem flushSt_good (st : PT) (acc pre : Str) (segs : List (Int × Str)) (h : acc.reverse = segsBytes pre segs)
    (hpre : '<' ∉ pre) (hgood : pre = [] ∨ trimSpace pre ≠ []) (hs : SegsOk segs) :
    flushSt st acc = some { st with
      items := st.items ++ (ttVal (tagsAttrs st.tags) pre segs st.pending).1,
      pending := (ttVal (tagsAttrs st.tags) pre segs st.pending).2 } := by
  unfold flushSt
  by_cases ha : acc = []
  · subst ha
    obtain ⟨rfl, rfl⟩ := segsBytes_eq_nil (by simpa using h.symm)
    simp [ttVal_nil_nil]
  · have hne : pre ≠ [] ∨ segs ≠ [] := by
      apply Classical.byContradiction
      intro hn
      have h1 : pre = [] := Classical.byContradiction fun e => hn (Or.inl e)
      have h2 : segs = [] := Classical.byContradiction fun e => hn (Or.inr e)
      subst h1; subst h2
      exact ha (by simpa [segsBytes] using h)
    rw [if_neg ha, h]
    simp only [stepTok, textToken_segsBytes _ pre segs st.pending hpre hs hgood hne]

/-- a visible `<`-free text alone in the pending text is one run, starting at the pending instant -/
theorem flush_text (st : PT) (x : Str) (hx : '<' ∉ x) (hnb : trimSpace x ≠ []) :
    GoodAcc x.reverse ∧
    flushSt st x.reverse = some { st with
      items := st.items ++ [{ text := unescapeHTML x, startAt := st.pending, attrs := tagsAttrs st.tags }],
      pending := 0 } := by
  have hs : SegsOk [] := by intro p hp; simp at hp
  refine ⟨⟨x, [], by simp [segsBytes], hx, Or.inr hnb, hs⟩, ?_⟩
  rw [flushSt_good st x.reverse x [] (by simp [segsBytes]) hx (Or.inr hnb) hs]
  simp [ttVal, ttFirst, hnb]

/-- one more segment `<ts>y` behind a written text token: a run if `y` is visible, else the
    instant stays pending -/
theorem flush_seg (st st1 : PT) (acc : Str) (t : Int) (y : Str) (hg : GoodAcc acc)
    (h1 : flushSt st acc = some st1) (h0 : 0 ≤ t) (ht : t < 360000000000000) (hy : '<' ∉ y) :
    GoodAcc ((tsText t ++ y).reverse ++ acc) ∧
    flushSt st ((tsText t ++ y).reverse ++ acc) = some { st1 with
      items := st1.items ++ (if trimSpace y = [] then []
                else [{ text := unescapeHTML y, startAt := truncMs t, attrs := tagsAttrs st.tags }]),
      pending := if trimSpace y = [] then truncMs t else 0 } := by
  obtain ⟨pre, segs, hacc, hpre, hgood, hs⟩ := hg
  have hs' : SegsOk (segs ++ [(t, y)]) := by
    intro p hp
    rcases mem_append.mp hp with hp | hp
    · exact hs p hp
    · simp at hp; subst hp; exact ⟨h0, ht, hy⟩
  have hacc' : ((tsText t ++ y).reverse ++ acc).reverse = segsBytes pre (segs ++ [(t, y)]) := by
    simp [segsBytes, hacc, segBytes]
  refine ⟨⟨pre, segs ++ [(t, y)], hacc', hpre, hgood, hs'⟩, ?_⟩
  rw [flushSt_good st acc pre segs hacc hpre hgood hs] at h1
  cases h1
  rw [flushSt_good st _ pre (segs ++ [(t, y)]) hacc' hpre hgood hs', ttVal_snoc]
  unfold ttStep
  by_cases hb : trimSpace y = []
  · simp [hb]
  · simp [hb]

/-! ### tag lists -/

/-- the start tags of a list of tags, as `runBytes` concatenates them -/
def opensBytes (l : List Tag) : Str := (l.map Tag.startTag).flatten
/-- the end tags of a list of tags (already in closing order) -/
def closesBytes (l : List Tag) : Str := (l.map Tag.endTag).flatten

theorem J_opens_flushed (l : List Tag) (hl : ∀ t ∈ l, t.wf = true) (st : PT) {s : Str} {f : PT}
    (h : J s [] { st with tags := st.tags ++ l } f) : J (opensBytes l ++ s) [] st f := by
  induction l generalizing st with
  | nil => simpa [opensBytes] using h
  | cons t l ih =>
    simp only [opensBytes, map_cons, flatten_cons, append_assoc]
    apply J_startTag (hl t (by simp)) (flushSt_nil st)
    apply ih (fun u hu => hl u (by simp [hu]))
    simpa using h

theorem J_opens (l : List Tag) (hl : ∀ t ∈ l, t.wf = true) (hne : l ≠ []) {st st1 : PT} {acc : Str}
    (h1 : flushSt st acc = some st1) {s : Str} {f : PT}
    (h : J s [] { st1 with tags := st1.tags ++ l } f) : J (opensBytes l ++ s) acc st f := by
  cases l with
  | nil => exact absurd rfl hne
  | cons t l =>
    simp only [opensBytes, map_cons, flatten_cons, append_assoc]
    apply J_startTag (hl t (by simp)) h1
    apply J_opens_flushed l (fun u hu => hl u (by simp [hu]))
    simpa using h

theorem J_closes_flushed (r : List Tag) (hr : ∀ t ∈ r, t.wf = true) (base : List Tag) (st : PT)
    (htags : st.tags = base ++ r.reverse) {s : Str} {f : PT}
    (h : J s [] { st with tags := base } f) : J (closesBytes r ++ s) [] st f := by
  induction r generalizing st with
  | nil =>
    have : ({ st with tags := base } : PT) = st := by cases st; simp_all
    simpa [closesBytes, this] using h
  | cons t r ih =>
    simp only [closesBytes, map_cons, flatten_cons, append_assoc]
    apply J_endTag (hr t (by simp)) (flushSt_nil st)
    apply ih (fun u hu => hr u (by simp [hu]))
    · simp [htags, ← append_assoc]
    · simpa using h

theorem J_closes (r : List Tag) (hr : ∀ t ∈ r, t.wf = true) (hne : r ≠ []) (base : List Tag)
    {st st1 : PT} {acc : Str} (h1 : flushSt st acc = some st1) (htags : st1.tags = base ++ r.reverse)
    {s : Str} {f : PT} (h : J s [] { st1 with tags := base } f) : J (closesBytes r ++ s) acc st f := by
  cases r with
  | nil => exact absurd rfl hne
  | cons t r =>
    simp only [closesBytes, map_cons, flatten_cons, append_assoc]
    apply J_endTag (hr t (by simp)) h1
    apply J_closes_flushed r (fun u hu => hr u (by simp [hu])) base
    · simp [htags, ← append_assoc]
    · simpa using h

/-! ### one run -/

/-- the tag stack of a run -/
def runTags (li : LItem) : List Tag := tagsOfAttrs li.attrs

/-- the colour class the writer derives from `TTMLColor` (empty: none) -/
def runColor (li : LItem) : Str :=
  match SRT.kvGet li.attrs "TTMLColor" with | some c => cssColor c | none => []

/-- a run the reader rebuilds exactly: well-formed tags, instant in the writer's range, visible
    text without NUL (outside the tokenizer model), no colour class -/
def runOk (li : LItem) : Bool :=
  (runTags li).all Tag.wf && decide (0 ≤ li.startAt) && decide (li.startAt < 360000000000000) &&
  (trimSpace li.text != []) && !(li.text.contains '\x00') && (runColor li == [])

structure RunFacts (li : LItem) : Prop where
  wf : ∀ t ∈ runTags li, t.wf = true
  t0 : 0 ≤ li.startAt
  t1 : li.startAt < 360000000000000
  nb : trimSpace li.text ≠ []
  nul : '\x00' ∉ li.text
  col : runColor li = []

theorem runOk_facts {li : LItem} (h : runOk li = true) : RunFacts li := by
  simp only [runOk, Bool.and_eq_true, all_eq_true, decide_eq_true_eq, bne_iff_ne, ne_eq,
    Bool.not_eq_true', beq_iff_eq] at h
  obtain ⟨⟨⟨⟨⟨h1, h2⟩, h3⟩, h4⟩, h5⟩, h6⟩ := h
  exact ⟨h1, h2, h3, h4, by simpa using h5, h6⟩

/-- what the reader makes of a run written under the outer stack `o` -/
def readItem (o : List Tag) (li : LItem) : LItem :=
  { text := li.text, startAt := truncMs li.startAt, attrs := tagsAttrs (o ++ runTags li) }

/-- the inline timestamp of a run, if it is written -/
def tsPart (li : LItem) : Str := if li.startAt > 0 then tsText li.startAt else []

theorem truncMs_zero : truncMs 0 = 0 := by decide

/-- timestamp, opening tags `l` and text of a run -/
theorem J_run_open (li : LItem) (hok : runOk li = true) (l : List Tag) (hl : ∀ t ∈ l, t.wf = true)
    {st st1 : PT} {acc : Str} (hg : GoodAcc acc) (h1 : flushSt st acc = some st1) (hpend : st1.pending = 0)
    (hsep : 0 < li.startAt ∨ l ≠ [] ∨ acc = []) :
    ∃ st' acc', GoodAcc acc' ∧
      flushSt st' acc' = some { st1 with
        items := st1.items ++ [{ text := li.text, startAt := truncMs li.startAt, attrs := tagsAttrs (st1.tags ++ l) }],
        tags := st1.tags ++ l, pending := 0 } ∧
      ∀ s f, J s acc' st' f → J (tsPart li ++ opensBytes l ++ escapeHTML li.text ++ s) acc st f := by
  have F := runOk_facts hok
  have hx : '<' ∉ escapeHTML li.text := C01.escape_no_lt li.text
  have hnb : trimSpace (escapeHTML li.text) ≠ [] := escape_nonblank F.nb
  have hun : unescapeHTML (escapeHTML li.text) = li.text := C01.unescape_escape li.text
  have hchars : ∀ c ∈ escapeHTML li.text, c ≠ '<' ∧ c ≠ '\x00' := by
    intro c hc
    exact ⟨fun e => hx (e ▸ hc), fun e => escape_no_nul F.nul (e ▸ hc)⟩
  have hk := flushSt_keeps h1
  by_cases hl0 : l = []
  · subst hl0
    by_cases ht : 0 < li.startAt
    · obtain ⟨hg', hf'⟩ := flush_seg st st1 acc li.startAt (escapeHTML li.text) hg h1 F.t0 F.t1 hx
      refine ⟨st, _, hg', ?_, ?_⟩
      · rw [hf']; simp [hnb, hun, hk.1]
      · intro s f hJ
        simp only [tsPart, ht, if_true, opensBytes, map_nil, flatten_nil, append_nil, append_assoc]
        apply J_ts F.t0 F.t1
        apply J_text hchars
        simpa using hJ
    · have hacc : acc = [] := by
        rcases hsep with h | h | h
        · exact absurd h ht
        · exact absurd rfl h
        · exact h
      subst hacc
      have hst : st1 = st := by simpa [flushSt] using h1.symm
      subst hst
      have ht0 : li.startAt = 0 := by have := F.t0; omega
      obtain ⟨hg', hf'⟩ := flush_text st1 (escapeHTML li.text) hx hnb
      refine ⟨st1, _, hg', ?_, ?_⟩
      · rw [hf']; simp [hun, hpend, ht0, truncMs_zero]
      · intro s f hJ
        simp only [tsPart, ht, if_false, opensBytes, map_nil, flatten_nil, append_nil, nil_append]
        apply J_text hchars
        simpa using hJ
  · -- the timestamp (if any) is flushed by the first opening tag and stays pending
    have hA : ∃ accA, flushSt st accA = some { st1 with pending := truncMs li.startAt } ∧
        ∀ s f, J s accA st f → J (tsPart li ++ s) acc st f := by
      by_cases ht : 0 < li.startAt
      · obtain ⟨_, hf'⟩ := flush_seg st st1 acc li.startAt [] hg h1 F.t0 F.t1 (by simp)
        refine ⟨(tsText li.startAt ++ []).reverse ++ acc, ?_, ?_⟩
        · rw [hf']; simp [trimSpace, trimLeft, trimRight]
        · intro s f hJ
          simp only [tsPart, ht, if_true]
          apply J_ts F.t0 F.t1
          simpa using hJ
      · have ht0 : li.startAt = 0 := by have := F.t0; omega
        refine ⟨acc, ?_, ?_⟩
        · rw [h1, ht0, truncMs_zero, ← hpend]
        · intro s f hJ
          simpa [tsPart, ht] using hJ
    obtain ⟨accA, hfA, hJA⟩ := hA
    obtain ⟨hg', hf'⟩ := flush_text
      { st1 with pending := truncMs li.startAt, tags := st1.tags ++ l } (escapeHTML li.text) hx hnb
    refine ⟨{ st1 with pending := truncMs li.startAt, tags := st1.tags ++ l }, _, hg', ?_, ?_⟩
    · rw [hf']; simp [hun]
    · intro s f hJ
      rw [append_assoc, append_assoc]
      apply hJA
      apply J_opens l hl hl0 hfA
      apply J_text hchars
      simpa using hJ

/-- the bytes of a run that shares `p` tags with the previous run and `n` with the next one -/
def runBytesPN (p n : Nat) (li : LItem) : Str :=
  tsPart li ++ opensBytes ((runTags li).drop p) ++ escapeHTML li.text
    ++ closesBytes ((runTags li).drop n).reverse

/-- number of leading tags a run shares with a neighbour (none: 0) -/
def sharedWith (o : Option LItem) (li : LItem) : Nat :=
  match o with | some x => commonTags (runTags li) (runTags x) | none => 0

theorem runBytes_eq (prev next : Option LItem) (li : LItem) (hc : runColor li = []) :
    runBytes prev next li = runBytesPN (sharedWith prev li) (sharedWith next li) li := by
  unfold runColor at hc
  unfold runBytes runBytesPN tsPart opensBytes closesBytes sharedWith runTags tsText
  cases hk : SRT.kvGet li.attrs "TTMLColor" <;> simp only [hk] at hc ⊢ <;>
    cases prev <;> cases next <;> simp [hc]

/-- **One run.** From a state whose open tags are the outer stack `o` plus the `p` tags shared with
    the previous run, the bytes of the run add exactly the run (text, truncated instant, stack
    `o ++ tags`) and leave `o` plus the `n` tags shared with the next run open. -/
theorem J_run (o : List Tag) (li : LItem) (hok : runOk li = true) (p n : Nat)
    {st st1 : PT} {acc : Str} (hg : GoodAcc acc) (h1 : flushSt st acc = some st1)
    (htags : st1.tags = o ++ (runTags li).take p) (hpend : st1.pending = 0)
    (hsep : 0 < li.startAt ∨ (runTags li).drop p ≠ [] ∨ acc = []) :
    ∃ st' acc', GoodAcc acc' ∧
      flushSt st' acc' = some { st1 with
        items := st1.items ++ [readItem o li], tags := o ++ (runTags li).take n, pending := 0 } ∧
      ((runTags li).drop n ≠ [] → acc' = []) ∧
      ∀ s f, J s acc' st' f → J (runBytesPN p n li ++ s) acc st f := by
  have F := runOk_facts hok
  obtain ⟨stC, accC, hgC, hfC, hJC⟩ := J_run_open li hok ((runTags li).drop p)
    (fun t ht => F.wf t (mem_of_mem_drop ht)) hg h1 hpend hsep
  have e1 : st1.tags ++ (runTags li).drop p = o ++ runTags li := by
    rw [htags, append_assoc, take_append_drop]
  rw [e1] at hfC
  by_cases hr : (runTags li).drop n = []
  · refine ⟨stC, accC, hgC, ?_, fun h => absurd hr h, ?_⟩
    · have : (runTags li).take n = runTags li := by
        have := take_append_drop n (runTags li)
        rw [hr, append_nil] at this; exact this
      rw [hfC, this]; rfl
    · intro s f hJ
      have := hJC s f hJ
      simpa [runBytesPN, hr, closesBytes] using this
  · refine ⟨_, [], goodAcc_nil, flushSt_nil _, fun _ => rfl, ?_⟩
    · intro s f hJ
      have hcl : J (closesBytes ((runTags li).drop n).reverse ++ s) accC stC f := by
        apply J_closes _ (fun t ht => F.wf t (mem_of_mem_drop (mem_reverse.mp ht))) (by simpa using hr)
          (o ++ (runTags li).take n) hfC
        · simp
        · exact hJ
      have := hJC _ f hcl
      simpa [runBytesPN] using this

/-! ### the runs of a line -/

/-- adjacent runs can be told apart by the reader: their stacks differ, or the later one carries
    an inline timestamp (two adjacent runs under the same stack and without a timestamp are
    written as one text, hence read as one run) -/
def sepRuns : List LItem → Bool
  | a :: b :: rest => (runTags a != runTags b || decide (0 < b.startAt)) && sepRuns (b :: rest)
  | _ => true

theorem eq_of_drop_common_nil (a b : List Tag) (ha : a.drop (commonTags a b) = [])
    (hb : b.drop (commonTags a b) = []) : a = b := by
  have h1 := take_append_drop (commonTags a b) a
  have h2 := take_append_drop (commonTags a b) b
  rw [ha, append_nil] at h1
  rw [hb, append_nil] at h2
  exact h1.symm.trans ((C02.take_commonTags a b).trans h2)

theorem J_items (o : List Tag) (rest : List LItem) :
    ∀ (li : LItem) (prev : Option LItem) (st st1 : PT) (acc : Str),
      (∀ x ∈ li :: rest, runOk x = true) → sepRuns (li :: rest) = true →
      GoodAcc acc → flushSt st acc = some st1 →
      st1.tags = o ++ (runTags li).take (sharedWith prev li) → st1.pending = 0 →
      (0 < li.startAt ∨ (runTags li).drop (sharedWith prev li) ≠ [] ∨ acc = []) →
      ∃ st' acc', flushSt st' acc' = some { st1 with
          items := st1.items ++ (li :: rest).map (readItem o), tags := o, pending := 0 } ∧
        ∀ s f, J s acc' st' f → J (itemsBytes prev (li :: rest) ++ s) acc st f := by
  induction rest with
  | nil =>
    intro li prev st st1 acc hok _ hg h1 htags hpend hsep
    have hli := hok li (by simp)
    obtain ⟨st', acc', _, hf', _, hJ'⟩ := J_run o li hli (sharedWith prev li) 0 hg h1 htags hpend hsep
    refine ⟨st', acc', ?_, ?_⟩
    · rw [hf']; simp
    · intro s f hJ
      have := hJ' s f hJ
      simpa [itemsBytes, runBytes_eq prev none li (runOk_facts hli).col, sharedWith] using this
  | cons b rest ih =>
    intro li prev st st1 acc hok hsepr hg h1 htags hpend hsep
    have hli := hok li (by simp)
    simp only [sepRuns, Bool.and_eq_true, Bool.or_eq_true, bne_iff_ne, ne_eq, decide_eq_true_eq] at hsepr
    obtain ⟨hab, hsepr'⟩ := hsepr
    obtain ⟨st', acc', hg', hf', hacc', hJ'⟩ :=
      J_run o li hli (sharedWith prev li) (sharedWith (some b) li) hg h1 htags hpend hsep
    have hn : sharedWith (some li) b = sharedWith (some b) li := by
      simp [sharedWith, C02.commonTags_comm]
    have htk : (runTags li).take (sharedWith (some b) li) = (runTags b).take (sharedWith (some li) b) := by
      rw [hn]; exact C02.take_commonTags _ _
    have hsep2 : 0 < b.startAt ∨ (runTags b).drop (sharedWith (some li) b) ≠ [] ∨ acc' = [] := by
      rcases hab with hab | hab
      · by_cases hd : (runTags b).drop (sharedWith (some li) b) = []
        · right; right
          apply hacc'
          intro hd2
          apply hab
          rw [hn] at hd
          exact eq_of_drop_common_nil _ _ hd2 hd
        · right; left; exact hd
      · left; exact hab
    obtain ⟨st'', acc'', hf'', hJ''⟩ := ih b (some li) st' _ acc'
      (fun x hx => hok x (by simp [mem_cons.mp hx])) hsepr' hg' hf' (by simp [htk]) rfl hsep2
    refine ⟨st'', acc'', ?_, ?_⟩
    · rw [hf'']; simp
    · intro s f hJ
      have := hJ' _ f (hJ'' s f hJ)
      simpa [itemsBytes, runBytes_eq prev (some b) li (runOk_facts hli).col] using this

/-! ### the line -/

/-- a written line without its line feed -/
def lineBody (l : Line) : Str :=
  (if l.voice ≠ [] then "<v ".toList ++ l.voice ++ ['>'] else []) ++ itemsBytes none l.items

theorem lineBytes_eq (l : Line) : lineBytes l = lineBody l ++ ['\n'] := rfl

/-- a line the reader rebuilds exactly -/
def lineOk (l : Line) : Bool :=
  (l.voice == [] || voiceOk l.voice) && l.items.all runOk && sepRuns l.items

/-! non-vacuity: a voiced line of four runs with nested, classed and annotated tags, an inline
    timestamp and text that needs escaping -/
def exRun1 : LItem := { text := "a & b".toList, attrs := tagsAttrs [{ name := "b".toList }] }
def exRun2 : LItem := { text := " c".toList, startAt := 1500000000, attrs := tagsAttrs [{ name := "b".toList }] }
def exRun3 : LItem :=
  { text := "d<".toList,
    attrs := tagsAttrs [{ name := "b".toList }, { name := "c".toList, classes := ["red".toList], annotation := "x y".toList }] }
def exRun4 : LItem := { text := "e".toList }
def exLine : Line := { voice := "Bob".toList, items := [exRun1, exRun2, exRun3, exRun4] }

example : runOk exRun3 = true := by decide
example : sepRuns exLine.items = true := by decide
example : lineOk exLine = true := by decide
example : lineBody exLine = "<v Bob><b>a &amp; b<00:00:01.500> c<c.red x y>d&lt;</c></b>e".toList := by decide

theorem J_line (l : Line) (hok : lineOk l = true) (sa : List Tag) :
    J (lineBody l) [] { tags := sa }
      { tags := sa, voice := l.voice, items := l.items.map (readItem sa), pending := 0 } := by
  simp only [lineOk, Bool.and_eq_true, Bool.or_eq_true, beq_iff_eq, all_eq_true] at hok
  obtain ⟨⟨hv, hitems⟩, hsep⟩ := hok
  have hrest : J (itemsBytes none l.items) [] { tags := sa, voice := l.voice }
      { tags := sa, voice := l.voice, items := l.items.map (readItem sa), pending := 0 } := by
    cases hi : l.items with
    | nil => exact J_nil (by simp [flushSt])
    | cons li rest =>
      rw [hi] at hitems hsep
      obtain ⟨st', acc', hf', hJ'⟩ := J_items sa rest li none { tags := sa, voice := l.voice }
        { tags := sa, voice := l.voice } [] hitems hsep goodAcc_nil (flushSt_nil _)
        (by simp [sharedWith]) rfl (Or.inr (Or.inr rfl))
      have := hJ' [] _ (J_nil hf')
      simpa using this
  unfold lineBody
  by_cases hvn : l.voice = []
  · simpa [hvn] using hrest
  · have hvo : voiceOk l.voice = true := by
      rcases hv with h | h
      · exact absurd h hvn
      · exact h
    rw [if_pos hvn]
    apply J_voice hvo (flushSt_nil _)
    simpa using hrest

/-- **Line round trip.** A written line (without its line feed), parsed with any outer stack `sa`
    left by the previous lines, gives back the voice and, run by run, the text, the instant
    truncated to the millisecond and the stack `sa ++ tags`; the stack left is `sa` again. -/
theorem parseText_lineBody (l : Line) (hok : lineOk l = true) (sa : List Tag) :
    parseText (lineBody l) sa = .ok (sa, { voice := l.voice, items := l.items.map (readItem sa) }) :=
  parseText_of_J (J_line l hok sa)

end VTT
end Astisub
