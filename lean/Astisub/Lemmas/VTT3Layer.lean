import Astisub.Lemmas.VTT3Text
import Astisub.Lemmas.VTT3Doc

/-!
# Lemmas/VTT3Layer — the cue-text layer for `lineOK2` lines (inline timestamps included), and the read
clause for `InClass2`
-/

namespace Astisub
namespace VTTRead
open Go Spec.VTT

theorem lineOK2_cases {l : Str} (h : lineOK2 l = true) :
    (scanOK2 false l = true ∧ hasTs l = false) ∨ (scanOK2 false l = true ∧ chunksOK false l [] = true) := by
  simp only [lineOK2, Bool.and_eq_true, Bool.or_eq_true, Bool.not_eq_true'] at h
  rcases h.2 with h2 | h2
  · exact Or.inl ⟨h.1, h2⟩
  · exact Or.inr ⟨h.1, h2⟩

theorem runItem2_of_ts_none (r : GRun) (h : r.ts = none) : runItem2 r = runItem r := by
  simp [runItem2, runItem, h]

theorem zeroTsRun_of_ts_none (r : GRun) (h : r.ts = none) : zeroTsRun r = r := by
  simp [zeroTsRun, h]

/-- the cue-text layer: tokenizer + tag expression + text tokens (with the inline-timestamp expression)
    against the decoder's `textLine`, for the lines of `lineOK2` -/
def textLayer2 : TextLayer2 lineOK2 where
  good stack := (∀ t ∈ stack, goodName t.name = true) ∧ (∀ t ∈ stack, tagOK t = true)
  good_nil := ⟨fun t ht => (by cases ht), fun t ht => (by cases ht)⟩
  agree := by
    intro l stack st hok hg h
    rcases lineOK2_cases hok with ⟨h1, h2⟩ | ⟨h1, h2⟩
    · -- no inline timestamp: the line is in the class of the first pass
      have hok1 : lineOK l = true := scanOK_of_noTs l h1 h2
      obtain ⟨hg', hview, hp⟩ := textLayer.agree l stack st hok1 hg h
      refine ⟨hg', ?_⟩
      rcases hp with hp | hp
      · exact Or.inl hp
      · right
        have hts := textLine_ts_none l stack st hok1 hg.1 h
        refine ⟨st.runs, ?_, rfl, ?_⟩
        · rw [hp]
          congr 3
          apply List.map_congr_left
          intro r hr
          exact (runItem2_of_ts_none r (hts r hr)).symm
        · intro r hr
          rw [runItem2_of_ts_none r (hts r hr), zeroTsRun_of_ts_none r (hts r hr)]
          exact hview r hr
    · exact parseText2_of_textLine l stack st h1 h2 hg.1 hg.2 h

/-- the class is wider than the class of the first pass -/
theorem inClass2_of_inClass (doc : Str) (h : InClass doc = true) : InClass2 doc = true := by
  rw [InClass_eq] at h
  unfold InClass2
  unfold InClassWith at h ⊢
  cases hb : docBlocks doc with
  | none => rfl
  | some bs =>
    rw [hb] at h
    simp only [List.all_eq_true] at h ⊢
    intro b hbm
    have hb1 := h b hbm
    unfold blockOKWith at hb1 ⊢
    cases b with
    | nil => rfl
    | cons first rest =>
      simp only at hb1 ⊢
      by_cases hn : (noteLine first).isSome = true
      · rw [if_pos hn] at hb1 ⊢; exact hb1
      · rw [if_neg hn] at hb1 ⊢
        simp only [Bool.and_eq_true, List.all_eq_true] at hb1 ⊢
        exact ⟨hb1.1, fun l hl => lineOK2_of_lineOK (hb1.2 l hl)⟩

/-- the read clause on character lines, for the class `InClass2` -/
theorem read_chars2 (text : Str) (g : GDoc) (hin : InClass2 text = true) (h : decode text = some g) :
    Good2 (VTT.read ((splitLines text []).map some)) g :=
  read_decode_chars2 textLayer2 text g hin h

/-- the read clause on bytes, for the class `InClass2` -/
theorem read_bytes2 (doc : List UInt8) (text : Str) (g : GDoc) (hdec : Driver.decodeLine doc = some text)
    (hin : InClass2 text = true) (h : decode text = some g) :
    Good2 (VTT.read (Driver.docLines doc)) g :=
  read_decode_bytes2 textLayer2 doc text g hdec hin h

end VTTRead
end Astisub
