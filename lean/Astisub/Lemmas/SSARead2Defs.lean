import Astisub.Model.SSA
import Astisub.Spec.SSA

/-!
# Lemmas/SSARead2Defs — vocabulary of the read clause of C04 (reader model = independent decoder)

Only definitions (all executable, all predicates `Bool`-valued hence decidable):

* `In64`, `hoursOk` — an integer fits Go's `int` (64 bits); the hour field of a time fits it;
* `runView`, `styleView` — what `Spec.SSA.view` makes of one run / one style of the reader's answer;
* `specStyleRow` — the body of the `Style:` case of `Spec.SSA.stylesOf`, named;
* `specLines` — the non-blank trimmed lines `Spec.SSA.decode` works on;
* `bomOk`, `headersOk`, `infoLineOk`, `infoOk`, `ints64`, `InClass` — the class of the theorem.
-/

namespace Astisub
namespace SSAR
open Go SSA

/-- the value fits a 64-bit `int` -/
def In64 (v : Int) : Bool := decide (-9223372036854775808 ≤ v) && decide (v ≤ 9223372036854775807)

/-- the hour field of an instant given in centiseconds fits a 64-bit `int` -/
def hoursOk (cs : Int) : Bool := decide (cs / 360000 ≤ 9223372036854775807)

/-- a run of the reader's answer as `Spec.SSA.view` sees it -/
def runView (li : LItem) : Spec.SSA.GRun := { effect := Spec.SSA.kvGet li.attrs "SSAEffect", text := li.text }

/-- a style of the reader's answer as `Spec.SSA.view` sees it -/
def defView (d : Def) : Option Spec.SSA.GStyle :=
  (Spec.SSA.attrsView Spec.SSA.styleTable d.attrs).map fun a => ({ name := d.id, attrs := a } : Spec.SSA.GStyle)

def styleView (s : Style) : Option Spec.SSA.GStyle := defView s.toDef

/-- the `Style:` case of `Spec.SSA.stylesOf`: one row under the (normalised) columns `cols` -/
def specStyleRow (cols : List String) (v : Str) : Option Spec.SSA.GStyle :=
  let cells := splitC ',' v
  if cells.length ≠ cols.length then none else
  let pairs := cols.zip cells
  let name := (pairs.lookup "Name").getD []
  let attrs := Spec.SSA.styleTable.map fun (col, _, kind) =>
    match pairs.lookup col with
    | none => some none
    | some cell => if cell.isEmpty then some none else (Spec.SSA.valOf kind cell).map fun v => some (col, v)
  (Spec.SSA.mapM id attrs).map fun a => { name := name, attrs := a.filterMap id }

/-- every integer attribute fits 64 bits -/
def attrs64 (a : List (String × Spec.SSA.GVal)) : Bool :=
  a.all fun p => match p.2 with | .i v => In64 v | _ => true

def opt64 (o : Option Int) : Bool := match o with | some v => In64 v | none => true

/-- the integers of an event fit 64 bits (layer, margins, the hour fields of both instants) -/
def event64 (e : Spec.SSA.GEvent) : Bool :=
  opt64 e.layer && opt64 e.marginL && opt64 e.marginR && opt64 e.marginV && hoursOk e.startCs && hoursOk e.endCs

/-- the document without a leading byte-order mark -/
def stripBom (text : Str) : Str :=
  match text with | c :: rest => if c = Char.ofNat 0xFEFF then rest else text | [] => text

/-- the lines `Spec.SSA.decode` works on: trimmed, blank ones dropped -/
def specLines (text : Str) : List Str :=
  ((Spec.SSA.splitLines (stripBom text) []).map trimSpace).filter fun l => !l.isEmpty

/-- a byte-order mark is not followed by blanks on the same line (the library trims the first line
    *before* it removes the mark, the decoder after) -/
def bomOk (text : Str) : Bool :=
  match text with
  | b :: c :: _ => !(b = Char.ofNat 0xFEFF) || !isSpace c || c = '\n' || c = '\r'
  | _ => true

/-- no section header contains `İ` (U+0130) or `K` (U+212A): `strings.ToLower` maps them to ASCII
    `i` / `k`, the decoder lower-cases ASCII only -/
def headersOk (lines : List Str) : Bool :=
  lines.all fun l => (Spec.SSA.secKind l).isNone || !(l.any fun c => c = Char.ofNat 0x130 || c = Char.ofNat 0x212A)

def commaToDot (s : Str) : Str := s.map fun c => if c = ',' then '.' else c

/-- a `Key: value` line of `[Script Info]` with an integer key (`PlayResX`, `PlayResY`, `PlayDepth`) carries a 64-bit
    integer — also when a later line overrides it (the library parses every line; the decoder checks the syntax of
    every line but reads arbitrarily long digit strings) -/
def infoLineOk (l : Str) : Bool :=
  match Spec.SSA.classify l with
  | .kv k v =>
    match Spec.SSA.infoTable.lookup (String.ofList k) with
    | some (_, .int) => (Spec.SSA.intOf v).all In64
    | _ => true
  | _ => true

def infoOk (secs : List (Spec.SSA.SecKind × List Str)) : Bool :=
  secs.all fun s => s.1 ≠ .info || s.2.all infoLineOk

/-- the integers of the decoded document fit 64 bits -/
def ints64 (g : Spec.SSA.GDoc) : Bool :=
  g.styles.all (fun s => attrs64 s.attrs) && g.events.all event64

/-- the class of documents of the read theorem, on top of `Spec.SSA.decode … = some _` -/
def InClass (text : Str) : Bool :=
  bomOk text && headersOk (specLines text) &&
  (match Spec.SSA.sections (specLines text) with | some secs => infoOk secs | none => true) &&
  (match Spec.SSA.decode text with | some g => ints64 g | none => true)

end SSAR
end Astisub
