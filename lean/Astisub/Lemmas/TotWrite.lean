import Astisub.Model.SRT
import Astisub.Model.VTT
import Astisub.Model.SSA
import Astisub.Model.STL
import Astisub.Model.TTML

/-!
# Lemmas/TotWrite — when exactly each writer refuses

The writer models are total Lean functions over `Subs` (every optional part — metadata, styles,
regions, inline attributes — is an `Option`/list that may be absent), so "never panics" holds by
construction.  What remains to be said is *which* answer they give: the only error of
`WriteToSRT`, `WriteToWebVTT`, `WriteToSSA`, `WriteToSTL`, `WriteToTTML` is `ErrNoSubtitlesToWrite`,
raised exactly for the empty cue list.
-/

namespace Astisub
namespace Tot
namespace Write

theorem isEmpty_iff {α} (l : List α) : l.isEmpty = true ↔ l = [] := by cases l <;> simp

theorem srt_none_iff (s : Subs) : SRT.write s = none ↔ s.items = [] := by
  unfold SRT.write
  by_cases h : s.items.isEmpty = true
  · rw [if_pos h]; exact ⟨fun _ => (isEmpty_iff _).mp h, fun _ => rfl⟩
  · rw [if_neg h]; exact ⟨fun e => (nomatch e), fun e => absurd ((isEmpty_iff _).mpr e) h⟩

theorem vtt_none_iff (s : Subs) : VTT.write s = none ↔ s.items = [] := by
  unfold VTT.write
  by_cases h : s.items.isEmpty = true
  · rw [if_pos h]; exact ⟨fun _ => (isEmpty_iff _).mp h, fun _ => rfl⟩
  · rw [if_neg h]; exact ⟨fun e => (nomatch e), fun e => absurd ((isEmpty_iff _).mpr e) h⟩

theorem ttml_none_iff (s : Subs) : TTML.write s = none ↔ s.items = [] := by
  unfold TTML.write
  by_cases h : s.items.isEmpty = true
  · rw [if_pos h]; exact ⟨fun _ => (isEmpty_iff _).mp h, fun _ => rfl⟩
  · rw [if_neg h]; exact ⟨fun e => (nomatch e), fun e => absurd ((isEmpty_iff _).mpr e) h⟩

theorem ssa_err_iff (s : Subs) : SSA.write s = .err ↔ s.items = [] := by
  unfold SSA.write
  by_cases h : s.items.isEmpty = true
  · rw [if_pos h]; exact ⟨fun _ => (isEmpty_iff _).mp h, fun _ => rfl⟩
  · have hne : s.items ≠ [] := fun e => h ((isEmpty_iff _).mpr e)
    rw [if_neg h]
    constructor
    · intro hw
      split at hw
      · cases hw
      · simp only at hw
        split at hw <;> cases hw
    · intro e; exact absurd e hne

/-- on a non-empty cue list the SSA writer model answers bytes, or "outside the model" (negative
    times; a float that the shortest-float model does not cover) — never an error -/
theorem ssa_answers (s : Subs) (h : s.items ≠ []) : (∃ b, SSA.write s = .ok b) ∨ SSA.write s = .unmodelled := by
  unfold SSA.write
  rw [if_neg (fun e => h ((isEmpty_iff _).mp e))]
  split
  · exact Or.inr rfl
  · simp only
    split
    · exact Or.inl ⟨_, rfl⟩
    · exact Or.inr rfl

theorem stl_err_iff (now : STL.Date) (md : Option STL.Meta) (cues : List STL.WCue) :
    (match STL.write now md cues with | .err => True | _ => False) ↔ cues = [] := by
  unfold STL.write
  by_cases h : cues.isEmpty = true
  · rw [if_pos h]; exact ⟨fun _ => (isEmpty_iff _).mp h, fun _ => trivial⟩
  · have hne : cues ≠ [] := fun e => h ((isEmpty_iff _).mpr e)
    rw [if_neg h]
    by_cases hu : STL.writeUnmodelled md cues = true
    · simp [hu, hne]
    · simp [hu, hne]

theorem stl_ok (now : STL.Date) (md : Option STL.Meta) (cues : List STL.WCue) (h : cues ≠ [])
    (hu : STL.writeUnmodelled md cues = false) :
    (match STL.write now md cues with | .ok b => b = STL.writeBody now md cues | _ => False) := by
  unfold STL.write
  rw [if_neg (fun e => h ((isEmpty_iff _).mp e)), hu]
  simp

end Write
end Tot
end Astisub
