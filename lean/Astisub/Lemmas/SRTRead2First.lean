import Astisub.Lemmas.SRTRead2Doc
import Astisub.Lemmas.SRTRead2Bytes

/-!
# Lemmas/SRTRead2First — the first line of a document: byte order mark

The decoder removes a byte order mark when it is the first character of the document; the reader
removes one from the front of the first line *after* trimming it.  The two views of the first line
(`d` for the decoder, `m` for the reader) are related by `HeadRel d m` in every case: that is all the
block simulation needs (`block_sim`).
-/

namespace Astisub
namespace SRTRead2
open Go SRT SRTDoc
open Spec.SRT (GRun GCue Sty runsOf tagAt cueLines timing timeMs decodeBlock)

def bomC : Char := Char.ofNat 0xFEFF

theorem bom_eq : bom = [bomC] := rfl
theorem bomC_not_space : isSpace bomC = false := by decide
theorem bomC_ne_dash : bomC ≠ '-' := by decide

/-! ## `dropWhile`, `trimRight` -/

theorem dropWhile_append_of_ne {α} (p : α → Bool) (x y : List α) (h : x.dropWhile p ≠ []) :
    (x ++ y).dropWhile p = x.dropWhile p ++ y := by
  induction x with
  | nil => exact absurd rfl h
  | cons a x ih =>
    by_cases ha : p a = true
    · simp only [List.cons_append, List.dropWhile_cons, ha, ↓reduceIte] at h ⊢
      exact ih h
    · simp only [List.cons_append, List.dropWhile_cons, ha, Bool.false_eq_true, ↓reduceIte]

theorem dropWhile_append_of_nil {α} (p : α → Bool) (x y : List α) (h : x.dropWhile p = []) :
    (x ++ y).dropWhile p = y.dropWhile p := by
  induction x with
  | nil => rfl
  | cons a x ih =>
    by_cases ha : p a = true
    · simp only [List.cons_append, List.dropWhile_cons, ha, ↓reduceIte] at h ⊢
      exact ih h
    · simp only [List.dropWhile_cons, ha, Bool.false_eq_true, ↓reduceIte] at h
      cases h

theorem dropWhile_all_nil {α} (p : α → Bool) (y : List α) (h : ∀ c ∈ y, p c = true) : y.dropWhile p = [] := by
  induction y with
  | nil => rfl
  | cons a y ih =>
    simp only [List.dropWhile_cons, h a (by simp), ↓reduceIte]
    exact ih (fun c hc => h c (by simp [hc]))

/-- white space in front of `x` survives `trimRight` exactly when `x` has something else -/
theorem trimRight_ws_append (w x : Str) (hw : ∀ c ∈ w, isSpace c = true) :
    trimRight (w ++ x) = if trimRight x = [] then [] else w ++ trimRight x := by
  unfold trimRight
  rw [List.reverse_append]
  by_cases h : x.reverse.dropWhile isSpace = []
  · rw [dropWhile_append_of_nil _ _ _ h, h,
      dropWhile_all_nil isSpace w.reverse (fun c hc => hw c (by simpa using hc))]
    simp
  · rw [dropWhile_append_of_ne _ _ _ h]
    have : (x.reverse.dropWhile isSpace).reverse ≠ [] := by simpa using h
    simp [this]

theorem trimRight_cons_ink (c : Char) (x : Str) (hc : isSpace c = false) :
    trimRight (c :: x) = c :: trimRight x := by
  unfold trimRight
  rw [List.reverse_cons]
  by_cases h : x.reverse.dropWhile isSpace = []
  · rw [dropWhile_append_of_nil _ _ _ h, h]
    simp [List.dropWhile, hc]
  · rw [dropWhile_append_of_ne _ _ _ h]
    simp

theorem trimLeft_ws_append (w x : Str) (hw : ∀ c ∈ w, isSpace c = true) : trimLeft (w ++ x) = trimLeft x := by
  unfold trimLeft
  exact dropWhile_append_of_nil _ _ _ (dropWhile_all_nil isSpace w hw)

theorem trimSpace_ws_append (w x : Str) (hw : ∀ c ∈ w, isSpace c = true) : trimSpace (w ++ x) = trimSpace x := by
  unfold trimSpace
  rw [trimLeft_ws_append w x hw]

theorem timeMs_ws_append (w x : Str) (hw : ∀ c ∈ w, isSpace c = true) : timeMs (w ++ x) = timeMs x := by
  unfold Spec.SRT.timeMs
  rw [trimSpace_ws_append w x hw]

/-! ## `-->` behind white space -/

theorem dropPrefix_arrow_ne (c : Char) (xs : Str) (h : c ≠ '-') : dropPrefix? arrow (c :: xs) = none := by
  show dropPrefix? ['-', '-', '>'] (c :: xs) = none
  simp only [dropPrefix?]
  have : ¬ ('-' = c) := fun e => h e.symm
  simp only [this, ↓reduceIte]

theorem space_ne_dash {c : Char} (h : isSpace c = true) : c ≠ '-' := by
  intro e; subst e; exact absurd h (by decide)

theorem contains_cons_ne (c : Char) (xs : Str) (h : c ≠ '-') : contains arrow (c :: xs) = contains arrow xs := by
  rw [contains]
  have : hasPrefix arrow (c :: xs) = false := by
    unfold hasPrefix; rw [dropPrefix_arrow_ne c xs h]; rfl
  rw [this, Bool.false_or]

theorem contains_ws_append (w x : Str) (hw : ∀ c ∈ w, isSpace c = true) :
    contains arrow (w ++ x) = contains arrow x := by
  induction w with
  | nil => rfl
  | cons c w ih =>
    rw [List.cons_append, contains_cons_ne c _ (space_ne_dash (hw c (by simp)))]
    exact ih (fun d hd => hw d (by simp [hd]))

/-- the accumulator of `splitOnAux` ends up in front of the first part -/
theorem splitOnAux_acc (sep : Str) : ∀ (fuel : Nat) (s acc : Str),
    splitOnAux sep fuel s acc = match splitOnAux sep fuel s [] with
      | h :: t => (acc.reverse ++ h) :: t
      | [] => [] := by
  intro fuel
  induction fuel with
  | zero => intro s acc; simp [splitOnAux]
  | succ fuel ih =>
    intro s acc
    cases s with
    | nil => simp [splitOnAux]
    | cons x xs =>
      rw [splitOnAux, splitOnAux]
      cases hd : dropPrefix? sep (x :: xs) with
      | some rest => simp
      | none =>
        simp only
        rw [ih xs (x :: acc), ih xs [x]]
        cases splitOnAux sep fuel xs [] with
        | nil => rfl
        | cons h t => simp

theorem splitOnAux_ws (w : Str) (hw : ∀ c ∈ w, c ≠ '-') : ∀ (fuel : Nat) (x acc : Str),
    splitOnAux arrow (w.length + fuel) (w ++ x) acc = splitOnAux arrow fuel x (w.reverse ++ acc) := by
  induction w with
  | nil => intro fuel x acc; simp
  | cons c w ih =>
    intro fuel x acc
    have e : (c :: w).length + fuel = (w.length + fuel) + 1 := by simp only [List.length_cons]; omega
    rw [e, List.cons_append, splitOnAux, dropPrefix_arrow_ne c _ (hw c (by simp))]
    simp only
    rw [ih (fun d hd => hw d (by simp [hd])) fuel x (c :: acc)]
    simp

/-- characters other than `-` in front of a line stay in front of the part left of the first `-->` -/
theorem splitOn_ws (w x : Str) (hw : ∀ c ∈ w, c ≠ '-') :
    splitOn arrow (w ++ x) = match splitOn arrow x with
      | h :: t => (w ++ h) :: t
      | [] => [] := by
  unfold splitOn
  have : arrow.isEmpty = false := rfl
  simp only [this, Bool.false_eq_true, ↓reduceIte]
  have e : (w ++ x).length + 1 = w.length + (x.length + 1) := by simp only [List.length_append]; omega
  rw [e, splitOnAux_ws w hw, splitOnAux_acc]
  cases splitOnAux arrow (x.length + 1) x [] with
  | nil => rfl
  | cons h t => simp

/-! ## `HeadRel` for the first line -/

theorem headRel_ws (w d : Str) (hw : ∀ c ∈ w, isSpace c = true) (hd : d ≠ []) : HeadRel d (w ++ d) := by
  refine ⟨fun e => absurd e hd, ?_, fun h => by rw [contains_ws_append w d hw]; exact h⟩
  intro s e ht hs he
  obtain ⟨l, r, e', rest, h1, h2, h3, h4⟩ := timing_parts ht
  have hsp := splitOn_ws w d (fun c hc => space_ne_dash (hw c hc))
  rw [h1] at hsp
  refine ⟨w ++ l, r, [], e', rest, ?_, hsp, h2, timeSim (w ++ l) s (by rw [timeMs_ws_append w l hw]; exact h3) hs,
    timeSim e' e h4 he⟩
  rw [contains_ws_append w d hw]
  exact timing_contains ht

/-- an accepted time stamp begins (after trimming) with a digit -/
theorem timeMs_head {s : Str} {ms : Nat} (h : timeMs s = some ms) :
    ∃ k rest, k < 10 ∧ trimSpace s = digitChar k :: rest := by
  obtain ⟨sep, hms, frac, f, hh, m, sec, _, ht, _, _, hf, _⟩ := timeMs_fields h
  have key : ∀ (a : Str) (n : Nat) (tail : Str), Spec.SRT.natOf a = some n →
      ∃ k rest, k < 10 ∧ a ++ tail = digitChar k :: rest := by
    intro a n tail ha
    obtain ⟨hne, hd, _⟩ := natOf_spec ha
    cases a with
    | nil => exact absurd rfl hne
    | cons c cs =>
      obtain ⟨k, hk, rfl⟩ := hd c (by simp)
      exact ⟨k, cs ++ tail, hk, rfl⟩
  rcases hf with ⟨a, b, c, hs, ha, _, _⟩ | ⟨b, c, hs, _, hb, _⟩
  · obtain ⟨rfl, _⟩ := splitC_three hs
    obtain ⟨k, rest, hk, e⟩ := key a hh (':' :: (b ++ ':' :: c) ++ sep :: frac) ha
    exact ⟨k, rest, hk, by rw [ht, ← e]; simp⟩
  · obtain ⟨rfl, _⟩ := splitC_two hs
    obtain ⟨k, rest, hk, e⟩ := key b m (':' :: c ++ sep :: frac) hb
    exact ⟨k, rest, hk, by rw [ht, ← e]; simp⟩

theorem digitChar_ne_bomC {k : Nat} (h : k < 10) : digitChar k ≠ bomC := by
  have : ∀ k, k < 10 → digitChar k ≠ bomC := by decide
  exact this k h

/-- a line that begins with a byte order mark is not a timing line for the decoder -/
theorem timing_bom_none (x : Str) : timing (bomC :: x) = none := by
  cases ht : timing (bomC :: x) with
  | none => rfl
  | some t =>
    exfalso
    obtain ⟨s, e⟩ := t
    obtain ⟨l, r, e', rest, h1, _, h3, _⟩ := timing_parts ht
    have hsp := splitOn_ws [bomC] x (by intro c hc; simp only [List.mem_singleton] at hc; subst hc; exact bomC_ne_dash)
    rw [List.singleton_append, h1] at hsp
    cases hx : splitOn arrow x with
    | nil => rw [hx] at hsp; cases hsp
    | cons h t =>
      rw [hx] at hsp
      injection hsp with hl _
      obtain ⟨k, rest', hk, hh⟩ := timeMs_head h3
      rw [hl] at hh
      unfold trimSpace at hh
      have : trimLeft ([bomC] ++ h) = bomC :: h := by
        simp [trimLeft, bomC_not_space]
      rw [this, trimRight_cons_ink bomC h bomC_not_space] at hh
      injection hh with hh _
      exact digitChar_ne_bomC hk hh.symm

theorem trimPrefix_bom_cons (x : Str) : trimPrefix bom (bomC :: x) = x := by
  simp [trimPrefix, bom_eq, dropPrefix?]

theorem trimPrefix_bom_other (d : Str) (h : ∀ x, d ≠ bomC :: x) : trimPrefix bom d = d := by
  cases d with
  | nil => rfl
  | cons c xs =>
    have : c ≠ bomC := fun e => h xs (by rw [e])
    have h' : ¬ (bomC = c) := fun e => this e.symm
    simp [trimPrefix, bom_eq, dropPrefix?, h']

/-- first line of a document that does not begin with a byte order mark: the reader strips a mark
    that only shows after trimming, the decoder keeps it (an index line either way) -/
theorem headRel_strip (d : Str) : HeadRel d (trimPrefix bom d) := by
  by_cases h : ∃ x, d = bomC :: x
  · obtain ⟨x, rfl⟩ := h
    rw [trimPrefix_bom_cons]
    refine ⟨fun e => (by cases e), ?_, ?_⟩
    · intro s e ht; rw [timing_bom_none] at ht; cases ht
    · intro hc; rw [contains_cons_ne bomC x bomC_ne_dash] at hc; exact hc
  · rw [trimPrefix_bom_other d (fun x e => h ⟨x, e⟩)]
    exact headRel_refl timeSim d

/-- first line of a document that begins with a byte order mark: the decoder sees the trimmed line, the
    reader the line trimmed on the right only -/
theorem headRel_bom (l : Str) : HeadRel (trimSpace l) (trimPrefix bom (trimSpace (bomC :: l))) := by
  have e1 : trimSpace (bomC :: l) = bomC :: trimRight l := by
    unfold trimSpace
    have : trimLeft (bomC :: l) = bomC :: l := by simp [trimLeft, List.dropWhile, bomC_not_space]
    rw [this, trimRight_cons_ink bomC l bomC_not_space]
  rw [e1, trimPrefix_bom_cons]
  have hl : l = l.takeWhile isSpace ++ trimLeft l := by
    unfold trimLeft; exact (List.takeWhile_append_dropWhile).symm
  have hw : ∀ c ∈ l.takeWhile isSpace, isSpace c = true := fun c hc => mem_takeWhile hc
  have e2 : trimRight l = if trimSpace l = [] then [] else l.takeWhile isSpace ++ trimSpace l := by
    conv => lhs; rw [hl]
    exact trimRight_ws_append _ _ hw
  rw [e2]
  by_cases hb : trimSpace l = []
  · simp only [hb, ↓reduceIte]
    exact headRel_refl timeSim []
  · simp only [hb, ↓reduceIte]
    exact headRel_ws _ _ hw hb

end SRTRead2
end Astisub
