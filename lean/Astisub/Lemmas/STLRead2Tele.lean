import Astisub.Lemmas.STLRead2Tti

/-!
# Lemmas/STLRead2Tele — teletext rows (display standards 1 and 2): the reader model's `parseTeletextRow` and the
independent decoder's `teleRow` on every row of the decoder's class

The simulation relation (`tst`): the model's row state is determined by the decoder's (style, box state, pending text,
closed runs): same style pointers, `started` iff the decoder is inside the box, same pending text, the closed runs as
line items (`teleItem`), no diacritic pending.  One lemma per kind of byte (`step_*`), then induction along the
decoder's recursion (`tele_sim`).
-/

set_option linter.unusedSimpArgs false

namespace Astisub
namespace C05
open Go STL

def lstyT (s : Spec.STL.Sty) : LSty :=
  { color := s.color, dh := s.dh, ds := s.ds, dw := s.dw, boxing := s.boxing, italics := s.italic, underline := s.underline }

def lstyR (r : Spec.STL.Run) : LSty :=
  { color := r.color, dh := r.dh, ds := r.ds, dw := r.dw, boxing := r.boxing, italics := r.italic, underline := r.underline }

def teleItem (r : Spec.STL.Run) : LItem :=
  { text := r.text, attrs := some (mkAttrs (stlAttrs (lstyR r) ++
      [("TeletextColor", r.color.map colorSSA), ("TTMLColor", r.color.map colorTTML),
       ("TeletextDoubleHeight", optB r.dh), ("TeletextDoubleSize", optB r.ds), ("TeletextDoubleWidth", optB r.dw),
       ("TeletextSpacesBefore", some (itoaNat r.spacesBefore)), ("TeletextSpacesAfter", some (itoaNat r.spacesAfter))])) }

def tst (s : Spec.STL.Sty) (box : Nat) (t : Str) (acc : List Spec.STL.Run) : RowSt :=
  { items := acc.map teleItem, text := t, sty := lstyT s, acc := none, started := box == 1 }

theorem countWhile_countSp : ∀ t : Str, countWhile (· == ' ') t = Spec.STL.countSp t
  | [] => rfl
  | c :: cs => by
    by_cases h : c = ' '
    · subst h; simp [countWhile, Spec.STL.countSp, countWhile_countSp cs]
    · have : Spec.STL.countSp (c :: cs) = 0 := by
        unfold Spec.STL.countSp
        split
        · rename_i heq; injection heq with h1 _; exact absurd h1 h
        · rfl
      simp [countWhile, h, this]

theorem appendTele_tst (s : Spec.STL.Sty) (box : Nat) (t : Str) (acc : List Spec.STL.Run) :
    appendTele (tst s box t acc) = (acc ++ (Spec.STL.mkRun s t true).toList).map teleItem := by
  unfold appendTele Spec.STL.mkRun tst
  by_cases h : trimSpace t = []
  · simp [h]
  · simp [h, teleItem, lstyT, lstyR, countWhile_countSp, stlAttrs]

/-- the model's "close the pending run" in terms of the decoder's state -/
theorem close_tst (s : Spec.STL.Sty) (box : Nat) (t : Str) (acc : List Spec.STL.Run) :
    (if ((tst s box t acc).started || decide ((tst s box t acc).text ≠ [])) = true
      then { tst s box t acc with items := appendTele (tst s box t acc), text := [] } else tst s box t acc)
    = tst s box [] (acc ++ (Spec.STL.mkRun s t true).toList) := by
  rw [appendTele_tst]
  split
  · rfl
  · rename_i h
    have h2 : t = [] := by
      simp only [Bool.or_eq_true, decide_eq_true_eq, not_or, Decidable.not_not] at h
      exact h.2
    subst h2
    simp [tst, Spec.STL.mkRun, trimSpace_nil]

theorem step_col (s : Spec.STL.Sty) (box : Nat) (t : Str) (acc : List Spec.STL.Run) (v : Nat) (hv : v ≤ 7)
    (hne : ¬ (s.color == some v) = true) :
    teleStep (tst s box t acc) v = tst { s with color := some v } box [] (acc ++ (Spec.STL.mkRun s t true).toList) := by
  have c1 : (v == 0x0A) = false := by simp; omega
  have c2 : (v == 0x0B) = false := by simp; omega
  have c3 : (v == 0x0C) = false := by simp; omega
  have c4 : (v == 0x0D) = false := by simp; omega
  have c5 : (v == 0x0E) = false := by simp; omega
  have c6 : (v == 0x0F) = false := by simp; omega
  have c7 : v ≤ 0x0F := by omega
  have hne' : (some v != (tst s box t acc).sty.color) = true := by
    simp only [tst, lstyT]
    simp at hne ⊢
    exact fun e => hne e.symm
  unfold teleStep
  simp only [hv, c1, c2, c3, c4, c5, c6, c7, if_true, Bool.false_eq_true, if_false, Option.isSome_some, Option.isSome_none,
    Bool.or_false, Bool.true_and, hne', Bool.true_or]
  rw [close_tst]
  rfl

/-! ## bytes that are not attributes -/

theorem tableGet_8F : tableGet 0x8F = none := by decide +kernel
theorem tableGet_0B : tableGet 0x0B = none := by decide +kernel

theorem step_sb (st : RowSt) : teleStep st 0x0B = { st with started := true } := by
  unfold teleStep
  simp [decode, tableGet_0B, str]

theorem step_eb (st : RowSt) : teleStep st 0x0A = { st with started := false } := by
  unfold teleStep
  simp

/-- a byte from 0x20 on that is not a style code goes to the character decoder inside the box and is ignored outside -/
theorem step_text (st : RowSt) (v : Nat) (hv : 0x20 ≤ v) (hnc : ¬ isCode v) :
    teleStep st v = if st.started = true
      then { st with text := st.text ++ str (decode st.acc v).1, acc := (decode st.acc v).2 } else st := by
  have c0 : ¬ v ≤ 7 := by omega
  have c1 : (v == 0x0A) = false := by simp; omega
  have c2 : (v == 0x0B) = false := by simp; omega
  have c3 : (v == 0x0C) = false := by simp; omega
  have c4 : (v == 0x0D) = false := by simp; omega
  have c5 : (v == 0x0E) = false := by simp; omega
  have c6 : (v == 0x0F) = false := by simp; omega
  have c7 : ¬ v ≤ 0x0F := by omega
  unfold teleStep
  simp only [c0, c1, c2, c3, c4, c5, c6, c7, if_false, Bool.false_eq_true, stlCode_none st.sty v hnc, Option.isSome_none,
    Bool.or_false]

theorem step_pad (st : RowSt) : teleStep st 0x8F = st := by
  rw [step_text st 0x8F (by omega) (by unfold isCode; omega)]
  have : decode st.acc 0x8F = ([], st.acc) := by simp [decode, tableGet_8F]
  rw [this]
  have e : ({ st with text := st.text ++ str [], acc := st.acc } : RowSt) = st := by cases st; simp [str]
  simp only [e, ite_self]

theorem tst_sb (s : Spec.STL.Sty) (box : Nat) (t : Str) (acc : List Spec.STL.Run) :
    teleStep (tst s box t acc) 0x0B = tst s 1 t acc := by rw [step_sb]; rfl

theorem tst_eb (s : Spec.STL.Sty) (box : Nat) (t : Str) (acc : List Spec.STL.Run) :
    teleStep (tst s box t acc) 0x0A = tst s (if (box == 1) = true then 2 else box) t acc := by
  rw [step_eb]
  unfold tst
  by_cases h : (box == 1) = true
  · rw [if_pos h]; rfl
  · rw [if_neg h]; simp only [RowSt.mk.injEq, true_and]; simpa using h

/-- a character cell -/
theorem tst_char (s : Spec.STL.Sty) (box : Nat) (t : Str) (acc : List Spec.STL.Run) (v : Nat) (cps : List Nat)
    (ht : tableGet v = some cps) (hlo : ¬ v < 0x20) (hnc : ¬ isCode v) (hd : Spec.STL.isDia v = false) :
    teleStep (tst s box t acc) v = tst s box (if (box == 1) = true then t ++ str cps else t) acc := by
  rw [step_text _ v (by omega) hnc]
  have e : (tst s box t acc).acc = none := rfl
  have hdec : decode none v = (cps, none) := by
    unfold decode
    rw [ht]
    simp only [not_accent_of_not_dia v cps ht hd, Bool.false_eq_true, if_false]
  rw [e, hdec]
  by_cases h : (box == 1) = true
  · have hs : (tst s box t acc).started = true := h
    rw [if_pos hs, if_pos h]; rfl
  · have hs : ¬ (tst s box t acc).started = true := h
    rw [if_neg hs, if_neg h]

/-- a floating diacritic followed by a letter -/
theorem tst_dia (s : Spec.STL.Sty) (box : Nat) (t : Str) (acc : List Spec.STL.Run) (v k : Nat)
    (hd : Spec.STL.isDia v = true) (hl : Spec.STL.isLetter k = true) :
    teleStep (teleStep (tst s box t acc) v) k = tst s box (if (box == 1) = true then t ++ str (nfcPair k v) else t) acc := by
  obtain ⟨d1, d2, d3⟩ := isDia_range v hd
  obtain ⟨l1, l2⟩ := isLetter_lt k hl
  obtain ⟨cv, hcv⟩ := Option.isSome_iff_exists.mp d3
  obtain ⟨ck, hck⟩ := Option.isSome_iff_exists.mp (letters_in_table k l2 hl)
  have hacc : isAccentByte v = true := by unfold isAccentByte; simp; omega
  rw [step_text _ v (by omega) (by unfold isCode; omega)]
  by_cases h : (box == 1) = true
  · have hs : (tst s box t acc).started = true := h
    have e : (tst s box t acc).acc = none := rfl
    have hdec : decode none v = ([], some v) := by
      unfold decode; rw [hcv]; simp only [hacc, if_true]
    rw [if_pos hs, if_pos h, e, hdec, step_text _ k (by omega) (by unfold isCode; omega)]
    have hdec2 : decode (some v) k = (nfcPair k v, none) := by
      unfold decode; rw [hck]
    simp only [hdec2]
    rw [if_pos hs]
    simp [tst, str]
  · have hs : ¬ (tst s box t acc).started = true := h
    rw [if_neg hs, if_neg h, step_text _ k (by omega) (by unfold isCode; omega), if_neg hs]

/-! ## attribute bytes: a new run -/

theorem step_0C (s : Spec.STL.Sty) (box : Nat) (t : Str) (acc : List Spec.STL.Run)
    (h : (s.dh == some true || s.ds == some true || s.dw == some true) = true) :
    teleStep (tst s box t acc) 0x0C =
      tst { s with dh := some false, ds := some false, dw := some false } box [] (acc ++ (Spec.STL.mkRun s t true).toList) := by
  have hch : ((false != (tst s box t acc).sty.dh.getD false) || (false != (tst s box t acc).sty.ds.getD false) ||
      (false != (tst s box t acc).sty.dw.getD false)) = true := by
    simp only [tst, lstyT]
    rcases s with ⟨_, _, _, _, dh, ds, dw⟩
    simp only at h ⊢
    rcases dh with _ | _ | _ <;> rcases ds with _ | _ | _ <;> rcases dw with _ | _ | _ <;> simp_all
  unfold teleStep
  simp only [Nat.reduceLeDiff, Nat.reduceBEq, if_true, Bool.false_eq_true, if_false, Option.isSome_some, Option.isSome_none,
    Bool.or_false, Bool.or_true, Bool.false_or, Bool.false_and, hch, Bool.true_or]
  rw [close_tst]
  rfl

theorem step_0D (s : Spec.STL.Sty) (box : Nat) (t : Str) (acc : List Spec.STL.Run) (h : ¬ (s.dh == some true) = true) :
    teleStep (tst s box t acc) 0x0D = tst { s with dh := some true } box [] (acc ++ (Spec.STL.mkRun s t true).toList) := by
  have hch : (true != (tst s box t acc).sty.dh.getD false) = true := by
    simp only [tst, lstyT]
    rcases s with ⟨_, _, _, _, dh, ds, dw⟩
    simp only at h ⊢
    rcases dh with _ | _ | _ <;> simp_all
  unfold teleStep
  simp only [Nat.reduceLeDiff, Nat.reduceBEq, if_true, Bool.false_eq_true, if_false, Option.isSome_some, Option.isSome_none,
    Bool.or_false, Bool.or_true, Bool.false_or, Bool.false_and, hch, Bool.true_or]
  rw [close_tst]
  rfl

theorem step_0E (s : Spec.STL.Sty) (box : Nat) (t : Str) (acc : List Spec.STL.Run) (h : ¬ (s.dw == some true) = true) :
    teleStep (tst s box t acc) 0x0E = tst { s with dw := some true } box [] (acc ++ (Spec.STL.mkRun s t true).toList) := by
  have hch : (true != (tst s box t acc).sty.dw.getD false) = true := by
    simp only [tst, lstyT]
    rcases s with ⟨_, _, _, _, dh, ds, dw⟩
    simp only at h ⊢
    rcases dw with _ | _ | _ <;> simp_all
  unfold teleStep
  simp only [Nat.reduceLeDiff, Nat.reduceBEq, if_true, Bool.false_eq_true, if_false, Option.isSome_some, Option.isSome_none,
    Bool.or_false, Bool.or_true, Bool.false_or, Bool.false_and, hch, Bool.true_or]
  rw [close_tst]
  rfl

theorem step_0F (s : Spec.STL.Sty) (box : Nat) (t : Str) (acc : List Spec.STL.Run) (h : ¬ (s.ds == some true) = true) :
    teleStep (tst s box t acc) 0x0F = tst { s with ds := some true } box [] (acc ++ (Spec.STL.mkRun s t true).toList) := by
  have hch : (true != (tst s box t acc).sty.ds.getD false) = true := by
    simp only [tst, lstyT]
    rcases s with ⟨_, _, _, _, dh, ds, dw⟩
    simp only at h ⊢
    rcases ds with _ | _ | _ <;> simp_all
  unfold teleStep
  simp only [Nat.reduceLeDiff, Nat.reduceBEq, if_true, Bool.false_eq_true, if_false, Option.isSome_some, Option.isSome_none,
    Bool.or_false, Bool.or_true, Bool.false_or, Bool.false_and, hch, Bool.true_or]
  rw [close_tst]
  rfl

theorem styCode_isCode (s s' : Spec.STL.Sty) (v : Nat) (h : Spec.STL.styCode s v = some s') : isCode v := by
  by_cases hc : isCode v
  · exact hc
  · rw [styCode_none s v hc] at h; cases h

theorem stlCode_lstyT (s s' : Spec.STL.Sty) (v : Nat) (h : Spec.STL.styCode s v = some s') :
    stlCode (lstyT s) v = some (lstyT s') := by
  have hc := styCode_isCode s s' v h
  unfold isCode at hc
  have : v = 0x80 ∨ v = 0x81 ∨ v = 0x82 ∨ v = 0x83 ∨ v = 0x84 ∨ v = 0x85 := by omega
  rcases this with rfl | rfl | rfl | rfl | rfl | rfl <;>
    (simp only [Spec.STL.styCode] at h; rw [← Option.some.inj h]; rfl)

theorem step_code (s s' : Spec.STL.Sty) (box : Nat) (t : Str) (acc : List Spec.STL.Run) (v : Nat)
    (h : Spec.STL.styCode s v = some s') :
    teleStep (tst s box t acc) v = tst s' box [] (acc ++ (Spec.STL.mkRun s t true).toList) := by
  have hc := styCode_isCode s s' v h
  unfold isCode at hc
  have c0 : ¬ v ≤ 7 := by omega
  have c1 : (v == 0x0A) = false := by simp; omega
  have c2 : (v == 0x0B) = false := by simp; omega
  have c3 : (v == 0x0C) = false := by simp; omega
  have c4 : (v == 0x0D) = false := by simp; omega
  have c5 : (v == 0x0E) = false := by simp; omega
  have c6 : (v == 0x0F) = false := by simp; omega
  have c7 : ¬ v ≤ 0x0F := by omega
  have e : stlCode (tst s box t acc).sty v = some (lstyT s') := stlCode_lstyT s s' v h
  unfold teleStep
  simp only [c0, c1, c2, c3, c4, c5, c6, c7, if_false, Bool.false_eq_true, e, Option.isSome_none,
    Option.isSome_some, Bool.or_true, Bool.true_or, Bool.false_or, if_true, Bool.false_and]
  rw [close_tst]
  rfl

/-! ## the decoder's recursion, one byte at a time -/

theorem spec_teleRow_nil (s : Spec.STL.Sty) (box : Nat) (t : Str) (acc : List Spec.STL.Run) :
    Spec.STL.teleRow [] s box t acc = some (acc ++ (Spec.STL.mkRun s t true).toList) := by
  rw [Spec.STL.teleRow]

theorem spec_teleRow_cons (v : Nat) (rest : Bytes) (s : Spec.STL.Sty) (box : Nat) (t : Str) (acc : List Spec.STL.Run) :
    Spec.STL.teleRow (v :: rest) s box t acc =
      if v == 0x8F then Spec.STL.teleRow rest s box t acc
      else if v == 0x0B then Spec.STL.teleRow rest s 1 t acc
      else if v == 0x0A then Spec.STL.teleRow rest s (if box == 1 then 2 else box) t acc
      else if v ≤ 0x07 then
        if s.color == some v then none
        else Spec.STL.teleRow rest { s with color := some v } box [] (acc ++ (Spec.STL.mkRun s t true).toList)
      else if v == 0x0C then
        if s.dh == some true || s.ds == some true || s.dw == some true then
          Spec.STL.teleRow rest { s with dh := some false, ds := some false, dw := some false } box []
            (acc ++ (Spec.STL.mkRun s t true).toList)
        else none
      else if v == 0x0D then (if s.dh == some true then none else
        Spec.STL.teleRow rest { s with dh := some true } box [] (acc ++ (Spec.STL.mkRun s t true).toList))
      else if v == 0x0E then (if s.dw == some true then none else
        Spec.STL.teleRow rest { s with dw := some true } box [] (acc ++ (Spec.STL.mkRun s t true).toList))
      else if v == 0x0F then (if s.ds == some true then none else
        Spec.STL.teleRow rest { s with ds := some true } box [] (acc ++ (Spec.STL.mkRun s t true).toList))
      else match Spec.STL.styCode s v with
        | some s' => if s' == s then none else Spec.STL.teleRow rest s' box [] (acc ++ (Spec.STL.mkRun s t true).toList)
        | none =>
          if v < 0x20 then none
          else if Spec.STL.isDia v then
            match rest with
            | k :: rest' =>
              if Spec.STL.isLetter k then
                (if box == 1 then Spec.STL.teleRow rest' s box (t ++ (Spec.STL.compose k v).map Char.ofNat) acc
                 else Spec.STL.teleRow rest' s box t acc)
              else none
            | [] => none
          else match Spec.STL.tab v with
            | some cps =>
              if box == 1 then Spec.STL.teleRow rest s box (t ++ cps.map Char.ofNat) acc
              else Spec.STL.teleRow rest s box t acc
            | none => none := by
  cases rest with
  | nil => rw [Spec.STL.teleRow.eq_3]; rfl
  | cons k r => rw [Spec.STL.teleRow.eq_2]; rfl

/-! ## the simulation -/

/-- **Teletext row, any bytes.**  Whenever the independent decoder, in state (style `s`, box state, pending text `t`,
    closed runs `acc`), accepts the rest of a row and denotes `res`, the model's loop started in the corresponding
    state `tst s box t acc` ends with exactly the line items of `res` and without a pending diacritic. -/
theorem tele_sim : ∀ (n : Nat) (row : Bytes), row.length ≤ n →
    ∀ (s : Spec.STL.Sty) (box : Nat) (t : Str) (acc res : List Spec.STL.Run),
    Spec.STL.teleRow row s box t acc = some res →
    appendTele (row.foldl teleStep (tst s box t acc)) = res.map teleItem ∧
      (row.foldl teleStep (tst s box t acc)).acc = none
  | _, [], _, s, box, t, acc, res, h => by
    rw [spec_teleRow_nil] at h
    rw [← Option.some.inj h]
    exact ⟨appendTele_tst s box t acc, rfl⟩
  | 0, v :: rest, hlen, _, _, _, _, _, _ => by simp at hlen
  | n + 1, v :: rest, hlen, s, box, t, acc, res, h => by
    have hlen' : rest.length ≤ n := by simpa using hlen
    rw [spec_teleRow_cons] at h
    rw [List.foldl_cons]
    by_cases e1 : (v == 0x8F) = true
    · rw [if_pos e1] at h; rw [eq_of_beq e1, step_pad]; exact tele_sim n rest hlen' _ _ _ _ _ h
    rw [if_neg e1] at h
    by_cases e2 : (v == 0x0B) = true
    · rw [if_pos e2] at h; rw [eq_of_beq e2, tst_sb]; exact tele_sim n rest hlen' _ _ _ _ _ h
    rw [if_neg e2] at h
    by_cases e3 : (v == 0x0A) = true
    · rw [if_pos e3] at h; rw [eq_of_beq e3, tst_eb]; exact tele_sim n rest hlen' _ _ _ _ _ h
    rw [if_neg e3] at h
    by_cases e4 : v ≤ 0x07
    · rw [if_pos e4] at h
      by_cases hc : (s.color == some v) = true
      · rw [if_pos hc] at h; cases h
      · rw [if_neg hc] at h; rw [step_col s box t acc v e4 hc]; exact tele_sim n rest hlen' _ _ _ _ _ h
    rw [if_neg e4] at h
    by_cases e5 : (v == 0x0C) = true
    · rw [if_pos e5] at h
      by_cases hc : (s.dh == some true || s.ds == some true || s.dw == some true) = true
      · rw [if_pos hc] at h; rw [eq_of_beq e5, step_0C s box t acc hc]; exact tele_sim n rest hlen' _ _ _ _ _ h
      · rw [if_neg hc] at h; cases h
    rw [if_neg e5] at h
    by_cases e6 : (v == 0x0D) = true
    · rw [if_pos e6] at h
      by_cases hc : (s.dh == some true) = true
      · rw [if_pos hc] at h; cases h
      · rw [if_neg hc] at h; rw [eq_of_beq e6, step_0D s box t acc hc]; exact tele_sim n rest hlen' _ _ _ _ _ h
    rw [if_neg e6] at h
    by_cases e7 : (v == 0x0E) = true
    · rw [if_pos e7] at h
      by_cases hc : (s.dw == some true) = true
      · rw [if_pos hc] at h; cases h
      · rw [if_neg hc] at h; rw [eq_of_beq e7, step_0E s box t acc hc]; exact tele_sim n rest hlen' _ _ _ _ _ h
    rw [if_neg e7] at h
    by_cases e8 : (v == 0x0F) = true
    · rw [if_pos e8] at h
      by_cases hc : (s.ds == some true) = true
      · rw [if_pos hc] at h; cases h
      · rw [if_neg hc] at h; rw [eq_of_beq e8, step_0F s box t acc hc]; exact tele_sim n rest hlen' _ _ _ _ _ h
    rw [if_neg e8] at h
    cases hsc : Spec.STL.styCode s v with
    | some s' =>
      rw [hsc] at h
      simp only at h
      by_cases hc : (s' == s) = true
      · rw [if_pos hc] at h; cases h
      · rw [if_neg hc] at h; rw [step_code s s' box t acc v hsc]; exact tele_sim n rest hlen' _ _ _ _ _ h
    | none =>
      rw [hsc] at h
      simp only at h
      have hnc : ¬ isCode v := by
        intro hc
        obtain ⟨s', hs'⟩ : ∃ s', Spec.STL.styCode s v = some s' := by
          unfold isCode at hc
          have : v = 0x80 ∨ v = 0x81 ∨ v = 0x82 ∨ v = 0x83 ∨ v = 0x84 ∨ v = 0x85 := by omega
          rcases this with rfl | rfl | rfl | rfl | rfl | rfl <;> exact ⟨_, rfl⟩
        rw [hs'] at hsc; cases hsc
      by_cases hlo : v < 0x20
      · rw [if_pos hlo] at h; cases h
      rw [if_neg hlo] at h
      by_cases hd : Spec.STL.isDia v = true
      · rw [if_pos hd] at h
        cases rest with
        | nil => cases h
        | cons k rest' =>
          simp only at h
          by_cases hl : Spec.STL.isLetter k = true
          · rw [if_pos hl] at h
            have hlen2 : rest'.length ≤ n := by simp at hlen'; omega
            rw [List.foldl_cons, tst_dia s box t acc v k hd hl]
            have hcomp : (Spec.STL.compose k v).map Char.ofNat = str (nfcPair k v) := rfl
            rw [hcomp] at h
            by_cases hb : (box == 1) = true
            · rw [if_pos hb] at h; rw [if_pos hb]; exact tele_sim n rest' hlen2 _ _ _ _ _ h
            · rw [if_neg hb] at h; rw [if_neg hb]; exact tele_sim n rest' hlen2 _ _ _ _ _ h
          · rw [if_neg hl] at h; cases h
      · rw [if_neg hd] at h
        cases ht : Spec.STL.tab v with
        | none => rw [ht] at h; cases h
        | some cps =>
          rw [ht] at h
          simp only at h
          rw [tst_char s box t acc v cps ht hlo hnc (by simpa using hd)]
          have hcomp : cps.map Char.ofNat = str cps := rfl
          rw [hcomp] at h
          by_cases hb : (box == 1) = true
          · rw [if_pos hb] at h; rw [if_pos hb]; exact tele_sim n rest hlen' _ _ _ _ _ h
          · rw [if_neg hb] at h; rw [if_neg hb]; exact tele_sim n rest hlen' _ _ _ _ _ h

/-- **Teletext row, any bytes (whole row).**  If the independent decoder accepts a row and denotes the runs `res`,
    the model's `parseTeletextRow`, entered without a pending diacritic, returns `res` seen as line items (one line,
    or no line when there is no run) and leaves no diacritic pending. -/
theorem tele_row_agree (row : Bytes) (res : List Spec.STL.Run) (h : Spec.STL.teleRow row {} 0 [] [] = some res) :
    STL.teleRow none row = (if res.isEmpty then none else some { items := res.map teleItem }, none) := by
  obtain ⟨h1, h2⟩ := tele_sim row.length row (Nat.le_refl _) {} 0 [] [] res h
  show (if (appendTele (row.foldl teleStep (tst {} 0 [] []))).isEmpty then none
      else some ({ items := appendTele (row.foldl teleStep (tst {} 0 [] [])) } : Line),
    (row.foldl teleStep (tst {} 0 [] [])).acc) = _
  rw [h1, h2]
  cases res <;> rfl

end C05
end Astisub
