import Astisub.Lemmas.VTT3WViewTags
import Astisub.Lemmas.VTT2View
import Astisub.Lemmas.VTTRead2View

/-!
# Lemmas/VTT3WViewCues — the cues of `wanted2 s` and of `Driver.vttWanted s` have the same view

* `cueView_normCue`: the view does not see what `VTT.normCue` erases (style references; of the run
  attributes only the tag stack is looked at, and the tags of an attribute list are canonical:
  `tagsOfAttrs_idem`) — no hypothesis.
* `cues_isSome`: under `DocOk` the view of `Driver.vttWanted s` exists (instants truncated to the
  millisecond and not negative).
-/

namespace Astisub
namespace VTT3W
open Go List VTTRead

/-! ### `mapM` -/

theorem mapM_map_congr {α β} (f : α → Option β) (g : α → α) :
    ∀ (l : List α), (∀ x ∈ l, f (g x) = f x) → Spec.VTT.mapM f (l.map g) = Spec.VTT.mapM f l := by
  intro l
  induction l with
  | nil => intro _; rfl
  | cons a l ih =>
    intro h
    simp only [map_cons, Spec.VTT.mapM]
    rw [h a (by simp), ih (fun x hx => h x (by simp [hx]))]

theorem mapM_isSome {α β} (f : α → Option β) :
    ∀ (l : List α), (∀ x ∈ l, (f x).isSome = true) → (Spec.VTT.mapM f l).isSome = true := by
  intro l
  induction l with
  | nil => intro _; rfl
  | cons a l ih =>
    intro h
    have ha := h a (by simp)
    have hl := ih (fun x hx => h x (by simp [hx]))
    simp only [Spec.VTT.mapM]
    cases hfa : f a with
    | none => rw [hfa] at ha; cases ha
    | some b =>
      cases hfl : Spec.VTT.mapM f l with
      | none => rw [hfl] at hl; cases hl
      | some bs => rfl

/-! ### the view does not see what `normCue` erases -/

theorem runView_normRun (li : LItem) : runView (VTT.normRun li) = runView li := by
  unfold runView VTT.normRun
  simp only
  rw [tagsOfAttrs_idem]

theorem lineView_normLine (l : Line) :
    lineView { l with items := l.items.map VTT.normRun } = lineView l := by
  unfold lineView
  simp only
  rw [mapM_map_congr runView VTT.normRun l.items (fun x _ => runView_normRun x)]

theorem cueView_normCue (c : CItem) : cueView (VTT.normCue c) = cueView c := by
  unfold cueView VTT.normCue
  simp only
  rw [mapM_map_congr lineView (fun l : Line => { l with items := l.items.map VTT.normRun }) c.lines
    (fun l _ => lineView_normLine l)]

theorem cues_norm (cs : List CItem) :
    Spec.VTT.mapM cueView (cs.map VTT.normCue) = Spec.VTT.mapM cueView cs :=
  mapM_map_congr cueView VTT.normCue cs (fun c _ => cueView_normCue c)

/-- the cues of `wanted2 s` are viewed as the cues of `Driver.vttWanted s` -/
theorem cues_wanted2 (s : Subs) :
    Spec.VTT.mapM cueView (VTT.wanted2 s).items = Spec.VTT.mapM cueView (Driver.vttWanted s).items := by
  rw [VTT.wanted2_items, cues_norm]

/-! ### the view of `Driver.vttWanted s` exists -/

theorem trunc_mod (x : Int) : (x - x % 1000000) % 1000000 = 0 := by omega

theorem trunc_nonneg (x : Int) (h : 0 ≤ x) : ¬ (x - x % 1000000 < 0) := by omega

theorem runView_isSome (li : LItem) (h1 : li.startAt % 1000000 = 0) (h2 : ¬ li.startAt < 0) :
    (runView li).isSome = true := by
  unfold runView
  have : (decide (li.startAt % 1000000 ≠ 0) || decide (li.startAt < 0)) = false := by
    simp only [ne_eq, h1, not_true_eq_false, decide_false, h2, Bool.or_self]
  rw [if_neg (by rw [this]; exact Bool.false_ne_true)]
  rfl

theorem lineView_isSome (l : Line) (h : ∀ li ∈ l.items, li.startAt % 1000000 = 0 ∧ ¬ li.startAt < 0) :
    (lineView l).isSome = true := by
  unfold lineView
  have := mapM_isSome runView l.items (fun li hli => runView_isSome li (h li hli).1 (h li hli).2)
  cases hm : Spec.VTT.mapM runView l.items with
  | none => rw [hm] at this; cases this
  | some runs => rfl

theorem cueView_isSome (c : CItem) (h1 : c.startAt % 1000000 = 0) (h2 : c.endAt % 1000000 = 0)
    (h3 : ¬ c.startAt < 0) (h4 : ¬ c.endAt < 0)
    (hl : ∀ l ∈ c.lines, ∀ li ∈ l.items, li.startAt % 1000000 = 0 ∧ ¬ li.startAt < 0) :
    (cueView c).isSome = true := by
  unfold cueView
  have hc : (decide (c.startAt % 1000000 ≠ 0) || decide (c.endAt % 1000000 ≠ 0) || decide (c.startAt < 0)
      || decide (c.endAt < 0)) = false := by
    simp only [ne_eq, h1, h2, not_true_eq_false, decide_false, h3, h4, Bool.or_self]
  rw [if_neg (by rw [hc]; exact Bool.false_ne_true)]
  have := mapM_isSome lineView c.lines (fun l hl' => lineView_isSome l (hl l hl'))
  cases hm : Spec.VTT.mapM lineView c.lines with
  | none => rw [hm] at this; cases this
  | some lines => rfl

/-- a cue of `Driver.vttWanted` -/
def wcue (s : Subs) (it : CItem) (k : Nat) : CItem :=
  { it with index := (k : Int) + 1,
            startAt := it.startAt - it.startAt % 1000000, endAt := it.endAt - it.endAt % 1000000,
            attrs := some (mkAttrs [("WebVTTAlign", VTT.fallback it.attrs (VTT.styleAttrs s it.style) "WebVTTAlign"),
              ("WebVTTLine", VTT.fallback it.attrs (VTT.styleAttrs s it.style) "WebVTTLine"),
              ("WebVTTPosition", VTT.fallback it.attrs (VTT.styleAttrs s it.style) "WebVTTPosition"),
              ("WebVTTSize", VTT.fallback it.attrs (VTT.styleAttrs s it.style) "WebVTTSize"),
              ("WebVTTVertical", VTT.fallback it.attrs (VTT.styleAttrs s it.style) "WebVTTVertical")]),
            lines := it.lines.map fun l =>
              { l with items := l.items.map fun li => { li with startAt := li.startAt - li.startAt % 1000000 } } }

theorem vttWanted_items (s : Subs) :
    (Driver.vttWanted s).items = s.items.zipIdx.map (fun x => wcue s x.1 x.2) := rfl

theorem wcue_startAt (s : Subs) (it : CItem) (k : Nat) :
    (wcue s it k).startAt = it.startAt - it.startAt % 1000000 := rfl
theorem wcue_endAt (s : Subs) (it : CItem) (k : Nat) :
    (wcue s it k).endAt = it.endAt - it.endAt % 1000000 := rfl
theorem wcue_lines (s : Subs) (it : CItem) (k : Nat) :
    (wcue s it k).lines = it.lines.map fun l =>
      { l with items := l.items.map fun li => { li with startAt := li.startAt - li.startAt % 1000000 } } := rfl

/-- the instants of a cue are not negative -/
structure CueTimes (it : CItem) : Prop where
  s0 : 0 ≤ it.startAt
  e0 : 0 ≤ it.endAt
  runs : ∀ l ∈ it.lines, ∀ li ∈ l.items, 0 ≤ li.startAt

theorem cueTimes_of_ok {s : Subs} {it : CItem} (h : VTT.cueOk2 s it = true) : CueTimes it := by
  simp only [VTT.cueOk2, Bool.and_eq_true, decide_eq_true_eq, all_eq_true] at h
  obtain ⟨⟨⟨⟨⟨⟨⟨⟨⟨⟨⟨_, _⟩, hs0⟩, _⟩, he0⟩, _⟩, _⟩, _⟩, _⟩, _⟩, _⟩, hlines⟩ := h
  refine ⟨hs0, he0, ?_⟩
  intro l hl li hli
  have hf := hlines l hl
  simp only [VTT.lineFit, Bool.and_eq_true] at hf
  have hlo := hf.1.1.1.1.1
  simp only [VTT.lineOk, Bool.and_eq_true, all_eq_true] at hlo
  exact (VTT.runOk_facts (hlo.1.2 li hli)).t0

theorem cueView_wcue (s : Subs) (it : CItem) (k : Nat) (h : CueTimes it) :
    (cueView (wcue s it k)).isSome = true := by
  apply cueView_isSome
  · rw [wcue_startAt]; exact trunc_mod _
  · rw [wcue_endAt]; exact trunc_mod _
  · rw [wcue_startAt]; exact trunc_nonneg _ h.s0
  · rw [wcue_endAt]; exact trunc_nonneg _ h.e0
  · intro l hl li hli
    rw [wcue_lines] at hl
    simp only [mem_map] at hl
    obtain ⟨l0, hl0, rfl⟩ := hl
    simp only [mem_map] at hli
    obtain ⟨li0, hli0, rfl⟩ := hli
    exact ⟨trunc_mod _, trunc_nonneg _ (h.runs l0 hl0 li0 hli0)⟩

theorem mem_of_zipIdx {α} {l : List α} {x : α × Nat} (hx : x ∈ l.zipIdx) : x.1 ∈ l := by
  have := mem_zipIdx hx
  simp at this
  rw [this.2]; exact getElem_mem _

/-- **the view of `Driver.vttWanted s` exists** under `DocOk` -/
theorem cues_isSome (s : Subs) (hok : VTT.DocOk s = true) :
    (Spec.VTT.mapM cueView (Driver.vttWanted s).items).isSome = true := by
  have F := VTT.docOk_facts hok
  rw [vttWanted_items]
  apply mapM_isSome
  intro c hc
  simp only [mem_map] at hc
  obtain ⟨x, hx, rfl⟩ := hc
  exact cueView_wcue s x.1 x.2 (cueTimes_of_ok (F.cues x.1 (mem_of_zipIdx hx)))

end VTT3W
end Astisub
