import Astisub.Lemmas.TTMLW2Run

/-!
# Lemmas/TTMLW2Doc — the independent decoder on a whole written document

`Spec.TTML.decode` on `specToks (resolve w)` for `TTML.write s = some w`: the decoder's state machine is run over the
writer's token sequence segment by segment (`run_written`), the final checks pass (`finalOk_docW`), and the decoded
document is `docW s`, whose normal form is `Driver.TTMLD.docOf s`.
-/

namespace Astisub
namespace TTMLW2
open Go TTML List
open Driver.TTMLD (specToks resolve nsTTML nsTTS nsTTM nsXML ttmlAttrsOf docOf normDoc defsOf sortG linesOf' runsOf)
open Spec.TTML (St PState GDoc GRun GCue GDef step run decode)
open TTMLR (pRoot pStyle pRegion pTitle pCopy pPara inP closeP finalOk okR)
open TTMLDoc (titleOf copyrightOf langIn bodyOf bodyW subToks_eq bodyW_eq write_eq metaToks)

/-! ### the class -/

/-- a cue the decoder reads back as it is: non-negative instants, references not the empty string, canonical
    `zIndex`, no line feed in a reference, an attribute value or the text of a run -/
def cueW (it : CItem) : Bool := cueHeadW it && it.lines.all fun l => l.items.all runW

/-- **the class of the W2 theorem** (decidable): the proviso of the `ttml.write` check (`Driver.TTMLD.rep`: non-negative
    instants, XML-legal text, non-empty identifiers, references defined) and, in addition: at least one cue, style and
    region identifiers pairwise distinct, `zIndex` in canonical form, and no line feed in an
    identifier, a reference, an attribute value or the text of a run -/
def repW (s : Subs) : Bool :=
  Driver.TTMLD.rep s && !s.items.isEmpty &&
  decide (s.styles.map Def.id).Nodup && decide (s.regions.map Def.id).Nodup &&
  s.styles.all defW && s.regions.all defW && s.items.all cueW

/-- what the decoder makes of a cue -/
def cueG (it : CItem) : GCue :=
  { b := ((it.startAt - it.startAt % 1000000).toNat, 1), e := ((it.endAt - it.endAt % 1000000).toNat, 1),
    style := it.style, region := it.region, attrs := ttmlAttrsOf it.attrs, lines := linesOf' it.lines }

/-- **the document the decoder returns for what `WriteToTTML` wrote from `s`** (definitions in identifier order) -/
def docW (s : Subs) : GDoc :=
  { cues := s.items.map cueG, styles := (sortDefs s.styles).map toG, regions := (sortDefs s.regions).map toG,
    title := titleOf s, copyright := copyrightOf s, lang := langIn s.metadata }

/-! ### one paragraph -/

theorem closeP_eq (doc : GDoc) (buf : Str) (p : PState) (dc : List (List GRun) × List GRun) :
    closeP (mkS pPara doc buf) p dc = mkS pDiv { doc with cues := doc.cues ++
      [{ b := p.b, e := p.e, style := p.style, region := p.region, attrs := p.attrs, lines := dc.1 ++ [dc.2] }] } buf := rfl

theorem runsOf_eq (l : Line) : runsOf l = l.items.map runG := rfl

/-- the decoder's paragraph state right after the start tag of the cue's `<p>` -/
def cueP (it : CItem) : PState :=
  { b := ((it.startAt - it.startAt % 1000000).toNat, 1), e := ((it.endAt - it.endAt % 1000000).toNat, 1),
    style := it.style, region := it.region, attrs := ttmlAttrsOf it.attrs }

theorem run_sub (doc : GDoc) (buf : Str) (it : CItem) (h : cueW it = true) :
    run ((subToks it).map sTok) (mkS pDiv doc buf) = some (mkS pDiv { doc with cues := doc.cues ++ [cueG it] } buf) := by
  simp only [cueW, Bool.and_eq_true, all_eq_true] at h
  obtain ⟨hh, hl⟩ := h
  obtain ⟨h1, h2, h3, h4, h5, h6, h7, h8⟩ := p_fields it hh 0 0
  rw [subToks_eq, map_cons, map_append, bodyW_eq]
  simp only [sTok, el_p, map_cons, map_nil]
  have hstep : step (mkS pDiv doc buf) (.start nsTTML ['p'] ((TTMLDoc.pAttrs it).map rAttr))
      = some (inP (mkS pPara doc buf) [] (pst (cueP it) [] [])) := by
    rw [step_p doc buf nsTTML _ _ _ _ _ _ _ _ h1 h2 h3 h4 h5 h6 h7 h8]
    rfl
  rw [run_step _ hstep]
  cases hls : it.lines with
  | nil =>
    simp only [bodyOf, map_nil, nil_append]
    rw [run_one (TTMLR.step_top_stop _ _ rfl rfl (base_len doc buf)), closeP_eq]
    simp only [pst, cueP, cueG, hls, linesOf', List.isEmpty_nil, if_true, nil_append]
  | cons l ls =>
    obtain ⟨d, cu, hr, hd⟩ := run_bodyOf doc buf (cueP it) l ls (by rw [← hls]; exact hl) []
    rw [run_append_some _ hr, run_one (TTMLR.step_top_stop _ _ rfl rfl (base_len doc buf)), closeP_eq]
    simp only [pst, cueP, cueG, hls, linesOf', List.isEmpty_cons, Bool.false_eq_true, if_false, hd, nil_append]
    rfl

theorem run_subs (buf : Str) (l : List CItem) (h : ∀ it ∈ l, cueW it = true) :
    ∀ doc : GDoc, run (((l.map subToks).flatten).map sTok) (mkS pDiv doc buf)
      = some (mkS pDiv { doc with cues := doc.cues ++ l.map cueG } buf) := by
  induction l with
  | nil => intro doc; simp [run]
  | cons it l ih =>
    intro doc
    rw [map_cons, flatten_cons, map_append, run_append_some _ (run_sub doc buf it (h it (by simp))),
      ih (fun x hx => h x (by simp [hx]))]
    simp

/-! ### definitions -/

theorem run_styles (buf : Str) (l : List Def) (h : ∀ d ∈ l, defW d = true) :
    ∀ doc : GDoc, run (((l.map (header "style")).flatten).map sTok) (mkS pStyling doc buf)
      = some (mkS pStyling { doc with styles := doc.styles ++ l.map toG } buf) := by
  induction l with
  | nil => intro doc; simp [run]
  | cons d l ih =>
    intro doc
    obtain ⟨hg, hnl⟩ := mkDef_header d (h d (by simp))
    rw [map_cons, flatten_cons, map_append]
    have e : (header "style" d).map sTok
        = [.start nsTTML ['s', 't', 'y', 'l', 'e'] ((TTMLDoc.headerAttrs d).map rAttr), .stop] := by
      simp only [header, map_cons, map_nil, sTok, el_style]
      rfl
    have r1 : run ((header "style" d).map sTok) (mkS pStyling doc buf)
        = some (mkS pStyling { doc with styles := doc.styles ++ [toG d] } buf) := by
      rw [e, run_step _ (step_style doc buf nsTTML _ _ hg hnl),
        run_one (step_close' _ buf _ _ (by simp) (by decide) (by decide))]
    rw [run_append_some _ r1, ih (fun x hx => h x (by simp [hx]))]
    simp

theorem run_regions (buf : Str) (l : List Def) (h : ∀ d ∈ l, defW d = true) :
    ∀ doc : GDoc, run (((l.map (header "region")).flatten).map sTok) (mkS pLayout doc buf)
      = some (mkS pLayout { doc with regions := doc.regions ++ l.map toG } buf) := by
  induction l with
  | nil => intro doc; simp [run]
  | cons d l ih =>
    intro doc
    obtain ⟨hg, hnl⟩ := mkDef_header d (h d (by simp))
    rw [map_cons, flatten_cons, map_append]
    have e : (header "region" d).map sTok
        = [.start nsTTML ['r', 'e', 'g', 'i', 'o', 'n'] ((TTMLDoc.headerAttrs d).map rAttr), .stop] := by
      simp only [header, map_cons, map_nil, sTok, el_region]
      rfl
    have r1 : run ((header "region" d).map sTok) (mkS pLayout doc buf)
        = some (mkS pLayout { doc with regions := doc.regions ++ [toG d] } buf) := by
      rw [e, run_step _ (step_region doc buf nsTTML _ _ hg hnl),
        run_one (step_close' _ buf _ _ (by simp) (by decide) (by decide))]
    rw [run_append_some _ r1, ih (fun x hx => h x (by simp [hx]))]
    simp

/-! ### metadata -/

theorem run_copyright (doc : GDoc) (buf s : Str) :
    run ((elemText "ttm:copyright" s).map sTok) (mkS pMeta doc buf)
      = some (mkS pMeta { doc with copyright := if s.isEmpty then doc.copyright else s } (if s.isEmpty then buf else s)) := by
  unfold elemText
  by_cases h : s.isEmpty = true
  · simp [h, run]
  · simp only [h, Bool.false_eq_true, if_false, map_cons, map_nil, sTok, el_copyright]
    rw [run_step _ (step_copy_open doc nsTTM buf), run_step _ (step_copy_text doc [] s),
      run_one (step_copy_close doc ([] ++ s))]
    rfl

theorem run_title (doc : GDoc) (buf s : Str) :
    run ((elemText "ttm:title" s).map sTok) (mkS pMeta doc buf)
      = some (mkS pMeta { doc with title := if s.isEmpty then doc.title else s } (if s.isEmpty then buf else s)) := by
  unfold elemText
  by_cases h : s.isEmpty = true
  · simp [h, run]
  · simp only [h, Bool.false_eq_true, if_false, map_cons, map_nil, sTok, el_title]
    rw [run_step _ (step_title_open doc nsTTM buf), run_step _ (step_title_text doc [] s),
      run_one (step_title_close doc ([] ++ s))]
    rfl

theorem run_metaToks (s : Subs) (lang : Str) :
    ∃ buf, run ((metaToks s).map sTok) (mkS pHead { lang := lang } [])
      = some (mkS pHead { title := titleOf s, copyright := copyrightOf s, lang := lang } buf) := by
  unfold metaToks
  by_cases h : s.metadata.isSome ∧ (copyrightOf s ≠ [] ∨ titleOf s ≠ [])
  · rw [if_pos h]
    refine ⟨if (titleOf s).isEmpty then (if (copyrightOf s).isEmpty then [] else copyrightOf s) else titleOf s, ?_⟩
    rw [append_assoc, append_assoc, singleton_append, map_cons, map_append, map_append]
    simp only [sTok, el_metadata, map_cons, map_nil]
    rw [run_step _ (step_metadata _ [] nsTTML), run_append_some _ (run_copyright _ _ _),
      run_append_some _ (run_title _ _ _), run_one (step_close' _ _ _ _ (by simp) (by decide) (by decide))]
    simp only [TTMLDoc.ite_empty]
  · rw [if_neg h]
    obtain ⟨h1, h2⟩ := TTMLDoc.titles_empty s h
    exact ⟨[], by rw [h1, h2]; rfl⟩

/-! ### the document -/

/-- **The decoder's state machine over the whole written document.** -/
theorem run_written (s : Subs) (hst : ∀ d ∈ s.styles, defW d = true) (hrg : ∀ d ∈ s.regions, defW d = true)
    (hit : ∀ it ∈ s.items, cueW it = true) (w : List WTok) (hw : write s = some w) :
    ∃ buf, run (w.map sTok) {} = some { mkS [] (docW s) buf with finished := true } := by
  have hne : s.items.isEmpty = false := by
    cases h : s.items.isEmpty with
    | false => rfl
    | true => simp [write, h] at hw
  rw [write_eq s hne] at hw
  simp only [Option.some.injEq] at hw
  subst hw
  obtain ⟨buf, hmeta⟩ := run_metaToks s (langIn s.metadata)
  refine ⟨buf, ?_⟩
  simp only [map_append, map_cons, map_nil, sTok, el_tt, el_head, el_styling, el_layout, el_body, el_div, cons_append,
    nil_append]
  rw [← rootR, run_step _ (step_root nsTTML s.metadata), run_step _ (step_head _ _ _),
    run_append_some _ hmeta, run_step _ (step_styling _ _ _),
    run_append_some _ (run_styles buf (sortDefs s.styles) (fun d hd => hst d (TTMLDoc.mem_sortDefs.mp hd)) _),
    run_step _ (step_close' _ _ _ _ (by simp) (by decide) (by decide)), run_step _ (step_layout _ _ _),
    run_append_some _ (run_regions buf (sortDefs s.regions) (fun d hd => hrg d (TTMLDoc.mem_sortDefs.mp hd)) _),
    run_step _ (step_close' _ _ _ _ (by simp) (by decide) (by decide)),
    run_step _ (step_close' _ _ _ _ (by simp) (by decide) (by decide)),
    run_step _ (step_body _ _ _), run_step _ (step_div _ _ _),
    run_append_some _ (run_subs buf s.items hit _),
    run_step _ (step_close' _ _ _ _ (by simp) (by decide) (by decide)),
    run_step _ (step_close' _ _ _ _ (by simp) (by decide) (by decide)),
    run_one (step_close _ _ _ _ (by decide) (by decide))]
  simp [docW]

end TTMLW2
end Astisub
