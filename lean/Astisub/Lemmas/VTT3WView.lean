import Astisub.Lemmas.VTT3WViewCues
import Astisub.Lemmas.VTT2Example

/-!
# Lemmas/VTT3WView — W2, view part: the view of the reader's answer is the view the check expects

`view_wanted2`: for a cue list satisfying `DocOk` whose timestamp map (if it has one in the
two-part shape) has a `LOCAL` value that is a whole number of milliseconds (`viewW2`), the
normalised view of `VTT.wanted2 s` — what the reader model returns for the written document,
`C02doc2.write_read_doc_bytes` — is the normalised view of `Driver.vttWanted s`, and that view
exists.  This is what the `vtt.write` case of `Driver/VTT.lean` compares.

Field by field:
* cues — `Lemmas/VTT3WViewCues.lean` (no hypothesis for equality; `DocOk` for existence);
* regions — `regionView` ignores `ref`; `VTT.sortDefs` is `Proto.sortDefs`; sorted twice = once;
* CSS lines — `styleLines (wanted2 s) = styleLines s` (the lines hold no LF under `DocOk`);
* timestamp map — the check parses the ORIGINAL metadata string, `wanted2` holds `LOCAL`
  truncated to the millisecond and re-printed: equal iff `LOCAL % 1000000 = 0` (`viewW2`;
  counter-example `VTT.exDoc`, LOCAL = 10000000123: `exDoc_not_viewW2`, `exDoc_tsmap_differs`).
  Non-canonical decimals (`+010…`, `-09…`) are harmless: both sides compare parsed integers.
-/

namespace Astisub
namespace VTT3W
open Go List VTTRead

/-! ### the extra proviso -/

/-- the `LOCAL` value of the timestamp map, as the check's view parses it, is a whole number of
    milliseconds (no timestamp map, or one that is not written at all: nothing to ask) -/
def viewW2 (s : Subs) : Bool :=
  match tsmapView s with
  | some (l, _) => l % 1000000 == 0
  | none => true

/-- `VTT.exDoc` with a `LOCAL` value carried exactly (written with a sign and a leading zero) -/
def exDocV : Subs :=
  { VTT.exDoc with metadata := some [("WebVTTTimestampMap".toList, "+010000000000,-0900000".toList)] }

example : viewW2 exDocV = true := by decide
example : tsmapView exDocV = some (10000000000, -900000) := by decide

/-- the witness for the proviso: `VTT.exDoc` (`DocOk`) has `LOCAL = 10000000123` -/
theorem exDoc_not_viewW2 : viewW2 VTT.exDoc = false := by decide

/-- … and there the two views differ: the check sees the original value, the reader's answer the truncated one -/
theorem exDoc_tsmap_differs :
    tsmapView (Driver.vttWanted VTT.exDoc) = some (10000000123, -900000) ∧
    VTT.tsmapVal VTT.exDoc = some (10000000000, -900000) := by decide

/-! ### regions -/

theorem sortDefs_same (l : List Def) : VTT.sortDefs l = Proto.sortDefs l := rfl

theorem regionView_noref (ds : List Def) :
    (ds.map fun d => ({ d with ref := none } : Def)).map regionView = ds.map regionView := by
  rw [map_map]
  apply map_congr_left
  intro d _
  rfl

theorem regions_wanted2 (s : Subs) :
    Spec.VTT.sortRegions ((Proto.sortDefs (VTT.wanted2 s).regions).map regionView)
      = Spec.VTT.sortRegions ((Proto.sortDefs (Driver.vttWanted s).regions).map regionView) := by
  rw [regions_result, VTT.wanted2_regions, regionView_noref, sortDefs_same]

/-! ### CSS lines -/

theorem styleLines_vttWanted (s : Subs) : VTT.styleLines (Driver.vttWanted s) = VTT.styleLines s := rfl

theorem styleLine_noLF {l : Str} (h : VTT.styleLineOk l = true) : '\n' ∉ l := by
  simp only [VTT.styleLineOk, Bool.and_eq_true] at h
  have hb := h.1.1.1.1.1.1.2
  exact fun hm => (VTT.noBreak_of_B hb _ hm).1 rfl

theorem wanted2_styles_empty (s : Subs) (h : (VTT.styleLines s).isEmpty = true) : (VTT.wanted2 s).styles = [] := by
  simp only [VTT.wanted2, h, if_true]

theorem wanted2_styles_ne (s : Subs) (h : (VTT.styleLines s).isEmpty = false) :
    (VTT.wanted2 s).styles = [{ id := VTT.defaultStyleID,
                                attrs := some (mkAttrs [("WebVTTStyles", some (join ['\n'] (VTT.styleLines s))),
                                  ("WebVTTTags", none)]) }] := by
  simp only [VTT.wanted2, h, Bool.false_eq_true, if_false]

theorem styleLines_wanted2 (s : Subs) (hnl : ∀ l ∈ VTT.styleLines s, '\n' ∉ l) :
    VTT.styleLines (VTT.wanted2 s) = VTT.styleLines s := by
  cases he : (VTT.styleLines s).isEmpty with
  | true =>
    rw [styleLines_nil _ (wanted2_styles_empty s he)]
    exact (isEmpty_iff.mp he).symm
  | false =>
    rw [styleLines_single _ _ (wanted2_styles_ne s he)]
    simp only
    rw [kvGet_styles]
    simp only
    exact SSA.splitC_join_nl _ (fun e => by rw [e] at he; cases he) hnl

/-! ### timestamp map -/

theorem tsmapView_vttWanted (s : Subs) : tsmapView (Driver.vttWanted s) = tsmapView s := rfl

theorem atoi_int64 {s : Str} {v : Int} (h : atoi s = some v) : Go.Int64 v := by
  unfold atoi at h
  unfold Go.Int64
  split at h
  · split at h
    · split at h
      · cases h; unfold int64Max at *; omega
      · cases h
    · cases h
  · split at h
    · split at h
      · cases h; unfold int64Max at *; omega
      · cases h
    · cases h
  · split at h
    · split at h
      · cases h; unfold int64Max at *; omega
      · cases h
    · cases h

theorem wanted2_metadata (s : Subs) :
    (VTT.wanted2 s).metadata
      = (VTT.tsmapVal s).map fun (l, m) => [("WebVTTTimestampMap".toList, itoa l ++ ',' :: itoa m)] := rfl

theorem tsmapView_meta_none (s : Subs) (h : s.metadata = none) : tsmapView s = none := by
  unfold tsmapView
  rw [h]
  rfl

/-- no timestamp map in the reader's answer -/
theorem tsmap_wanted2_none (s : Subs) (h : VTT.tsmapVal s = none) : tsmapView (VTT.wanted2 s) = none := by
  apply tsmapView_meta_none
  rw [wanted2_metadata, h]
  rfl

/-- a timestamp map in the reader's answer -/
theorem tsmap_wanted2_some (s : Subs) (l m : Int) (h : VTT.tsmapVal s = some (l, m)) (hl : Go.Int64 l) (hm : Go.Int64 m) :
    tsmapView (VTT.wanted2 s) = some (l, m) := by
  apply tsmap_some _ l m hl hm
  rw [wanted2_metadata, h]
  rfl

theorem trunc_whole (l : Int) (h : l % 1000000 = 0) : l - l % 1000000 = l := by omega

theorem tsmap_wanted2 (s : Subs) (hok : VTT.tsmapOk s = true) (hx : viewW2 s = true) :
    tsmapView (VTT.wanted2 s) = tsmapView s := by
  unfold viewW2 at hx
  cases hkv : SRT.kvGet s.metadata "WebVTTTimestampMap" with
  | none =>
    have h1 : VTT.tsmapVal s = none := by unfold VTT.tsmapVal; rw [hkv]
    have h2 : tsmapView s = none := by unfold tsmapView; rw [hkv]
    rw [tsmap_wanted2_none s h1, h2]
  | some v =>
    unfold VTT.tsmapOk at hok
    rw [hkv] at hok
    simp only [] at hok
    have hval : VTT.tsmapVal s = match splitC ',' v with
        | [l, m] => some ((atoi l).getD 0 - (atoi l).getD 0 % 1000000, (atoi m).getD 0)
        | _ => none := by unfold VTT.tsmapVal; rw [hkv]; rfl
    have hview : tsmapView s = match splitC ',' v with
        | [l, m] => (match atoi l, atoi m with
          | some l, some m => some (l, m)
          | _, _ => none)
        | _ => none := by unfold tsmapView; rw [hkv]; rfl
    generalize splitC ',' v = parts at hok hval hview
    match parts, hok, hval, hview with
    | [], _, hval, hview => rw [tsmap_wanted2_none s hval, hview]
    | [_], _, hval, hview => rw [tsmap_wanted2_none s hval, hview]
    | _ :: _ :: _ :: _, _, hval, hview => rw [tsmap_wanted2_none s hval, hview]
    | [l, m], hok, hval, hview =>
      simp only [Bool.and_eq_true] at hok
      obtain ⟨hl, hm⟩ := hok
      cases hal : atoi l with
      | none => rw [hal] at hl; cases hl
      | some lv =>
        cases ham : atoi m with
        | none => rw [ham] at hm; cases hm
        | some mv =>
          rw [hal] at hl
          simp only [Bool.and_eq_true, decide_eq_true_eq] at hl
          simp only [hal, ham, Option.getD_some] at hval hview
          rw [hview] at hx ⊢
          simp only [beq_iff_eq] at hx
          rw [trunc_whole lv hx] at hval
          exact tsmap_wanted2_some s lv mv hval (by unfold Go.Int64; omega) (atoi_int64 ham)

/-! ### assembly -/

/-- **W2, view part.**  Under `DocOk` and `viewW2`, the view of `Driver.vttWanted s` exists and the
    normalised view of the reader's answer `wanted2 s` is the normalised view of `Driver.vttWanted s`. -/
theorem view_wanted2 (s : Subs) (hok : VTT.DocOk s = true) (hx : viewW2 s = true) :
    (Driver.vttView (Driver.vttWanted s)).isSome = true ∧
    (Driver.vttView (VTT.wanted2 s)).map Spec.VTT.norm = (Driver.vttView (Driver.vttWanted s)).map Spec.VTT.norm := by
  have F := VTT.docOk_facts hok
  have hsome := cues_isSome s hok
  rw [vttView_eq (VTT.wanted2 s), vttView_eq (Driver.vttWanted s), cues_wanted2]
  cases hm : Spec.VTT.mapM cueView (Driver.vttWanted s).items with
  | none => rw [hm] at hsome; cases hsome
  | some cues =>
    refine ⟨rfl, ?_⟩
    simp only [Option.map_some]
    congr 1
    rw [norm_eq, norm_eq]
    simp only
    rw [regions_wanted2, styleLines_wanted2 s (fun l hl => styleLine_noLF (F.sty l hl)), styleLines_vttWanted,
      tsmap_wanted2 s F.ts hx, tsmapView_vttWanted]

theorem viewW2_of_none (s : Subs) (h : SRT.kvGet s.metadata "WebVTTTimestampMap" = none) : viewW2 s = true := by
  have h2 : tsmapView s = none := by unfold tsmapView; rw [h]
  unfold viewW2
  rw [h2]

/-- **W2, view part, cues only**: no regions, no CSS block, no timestamp map — no extra proviso -/
theorem view_wanted2_simple (s : Subs) (hok : VTT.DocOk s = true)
    (_hreg : s.regions = []) (_hsty : VTT.styleLines s = [])
    (hmeta : SRT.kvGet s.metadata "WebVTTTimestampMap" = none) :
    (Driver.vttView (Driver.vttWanted s)).isSome = true ∧
    (Driver.vttView (VTT.wanted2 s)).map Spec.VTT.norm = (Driver.vttView (Driver.vttWanted s)).map Spec.VTT.norm :=
  view_wanted2 s hok (viewW2_of_none s hmeta)

/-! ### non-vacuity: `DocOk` and `viewW2` together -/

theorem exDocV_styleLines : VTT.styleLines exDocV = VTT.styleLines VTT.exDoc := rfl

theorem exDocV_cue1 : VTT.cueOk2 exDocV VTT.exCue1 = true := by decide
theorem exDocV_cue2 : VTT.cueOk2 exDocV VTT.exCue2 = true := by decide
theorem exDocV_regions : exDocV.regions.all (VTT.regionOk exDocV) = true := by decide
theorem exDocV_tsmap : VTT.tsmapOk exDocV = true := by decide
theorem exDocV_css : (VTT.styleLines exDocV).all VTT.styleLineOk = true ∧ VTT.styleEndOk exDocV = true := by
  have := VTT.exDoc_css
  unfold VTT.styleEndOk at this ⊢
  rw [exDocV_styleLines]
  exact this

theorem exDocV_ok : VTT.DocOk exDocV = true := by
  have h1 : exDocV.items.all (VTT.cueOk2 exDocV) = true := by
    show [VTT.exCue1, VTT.exCue2].all (VTT.cueOk2 exDocV) = true
    simp only [all_cons, all_nil, exDocV_cue1, exDocV_cue2, Bool.and_self]
  have h2 : (!exDocV.items.isEmpty) = true := rfl
  have h3 : decide (exDocV.items.length ≤ int64Max) = true := by decide
  have h4 : decide ((exDocV.regions.map (·.id)).Nodup) = true := decide_eq_true VTT.exDoc_nodup
  unfold VTT.DocOk
  rw [h1, h2, h3, h4, exDocV_regions, exDocV_css.1, exDocV_css.2, exDocV_tsmap]
  rfl

/-- the theorem applies to a document with comments, regions, a CSS block and a timestamp map -/
theorem view_wanted2_example :
    (Driver.vttView (Driver.vttWanted exDocV)).isSome = true ∧
    (Driver.vttView (VTT.wanted2 exDocV)).map Spec.VTT.norm
      = (Driver.vttView (Driver.vttWanted exDocV)).map Spec.VTT.norm :=
  view_wanted2 exDocV exDocV_ok (by decide)

end VTT3W
end Astisub
