import Astisub.Lemmas.VTTRead2Step
import Astisub.Lemmas.VTTTiming

/-!
# Lemmas/VTTRead2Note — comment blocks: decoder (`noteLine`) against the reader's loop
-/

namespace Astisub
namespace VTTRead
open Go Spec.VTT
open VTT (St step run Block dropPrefix?_some dropPrefix?_append)

/-- a block line: trimmed and not blank -/
def BLine (l : Str) : Prop := trimSpace l = l ∧ l ≠ []

theorem trimmed_of_bline {l : Str} (h : BLine l) : Trimmed l := by
  have := trimmed_trimSpace l
  rwa [h.1] at this

theorem lit_note_tab : "NOTE\t".toList = ['N', 'O', 'T', 'E', '\t'] := rfl

theorem noteLine_none {l : Str} (h : noteLine l = none) : noteTest l = false := by
  unfold noteLine at h
  unfold noteTest
  simp only [lit_note, lit_note_sp] at *
  by_cases e : l = ['N', 'O', 'T', 'E']
  · simp [e] at h
  · simp only [e, if_false] at h
    have : hasPrefix ['N', 'O', 'T', 'E', ' '] l = false := by
      cases hp : hasPrefix ['N', 'O', 'T', 'E', ' '] l with
      | false => rfl
      | true =>
        exfalso
        unfold hasPrefix at hp
        cases hd : dropPrefix? ['N', 'O', 'T', 'E', ' '] l with
        | none => rw [hd] at hp; simp at hp
        | some r =>
          have e1 := dropPrefix?_some hd
          have e2 : dropPrefix? ['N', 'O', 'T', 'E'] l = some (' ' :: r) := by
            rw [e1]; exact dropPrefix?_append ['N', 'O', 'T', 'E'] (' ' :: r)
          rw [e2] at h
          simp [isBlank] at h
    simp [e, this]

theorem getLast?_append_ne {α} (a b : List α) (h : b ≠ []) : (a ++ b).getLast? = b.getLast? := by
  cases b with
  | nil => exact absurd rfl h
  | cons x xs =>
    rw [List.getLast?_append]
    have : (x :: xs).getLast? = some ((x :: xs).getLast (by simp)) := List.getLast?_eq_some_getLast _
    rw [this]; rfl

/-- a comment line of the class: the reader's test fires and it keeps what the decoder keeps -/
theorem noteLine_some {l c : Str} (hl : BLine l) (hok : noteOK l = true) (h : noteLine l = some c) :
    noteTest l = true ∧
    ((l = "NOTE".toList ∧ c = []) ∨ (l ≠ "NOTE".toList ∧ c ≠ [] ∧ trimPrefix "NOTE ".toList l = c)) := by
  unfold noteLine at h
  unfold noteOK at hok
  unfold noteTest
  simp only [lit_note, lit_note_sp, lit_note_tab] at *
  by_cases e : l = ['N', 'O', 'T', 'E']
  · simp only [e, if_true, Option.some.injEq] at h
    exact ⟨by simp [e], Or.inl ⟨e, h.symm⟩⟩
  · simp only [e, if_false] at h
    cases hd : dropPrefix? ['N', 'O', 'T', 'E'] l with
    | none => rw [hd] at h; simp at h
    | some r =>
      rw [hd] at h
      cases r with
      | nil => simp at h
      | cons ch rest =>
        simp only at h
        by_cases hbk : isBlank ch = true
        · simp only [hbk, if_true, Option.some.injEq] at h
          have e1 := dropPrefix?_some hd
          simp only [Bool.and_eq_true, Bool.not_eq_true'] at hok
          have hch : ch = ' ' := by
            simp only [isBlank, Bool.or_eq_true, decide_eq_true_eq] at hbk
            rcases hbk with hbk | hbk
            · exact hbk
            · exfalso
              subst hbk
              have : hasPrefix ['N', 'O', 'T', 'E', '\t'] l = true := by
                rw [e1]; unfold hasPrefix
                rw [show ['N', 'O', 'T', 'E'] ++ '\t' :: rest = ['N', 'O', 'T', 'E', '\t'] ++ rest from rfl, dropPrefix?_append]; rfl
              rw [this] at hok; exact absurd hok.1 (by simp)
          subst hch
          have e2 : l = ['N', 'O', 'T', 'E', ' '] ++ rest := by rw [e1]; rfl
          have hd2 : dropPrefix? ['N', 'O', 'T', 'E', ' '] l = some rest := by rw [e2]; exact dropPrefix?_append _ _
          have htr := trimmed_of_bline hl
          have hrne : rest ≠ [] := by
            intro hr; subst hr
            have := htr.2 ' ' (by rw [e2]; rfl)
            exact absurd this (by decide)
          have hrt : Trimmed rest := by
            constructor
            · intro c0 hc0
              have h2 := hok.2
              rw [hd2] at h2
              cases rest with
              | nil => exact absurd rfl hrne
              | cons x xs =>
                simp only [List.head?_cons, Option.some.injEq] at hc0
                subst hc0
                simpa using h2
            · intro c0 hc0
              apply htr.2 c0
              rw [e2, getLast?_append_ne _ _ hrne]; exact hc0
          have hts : trimSpace rest = rest := trimSpace_of_trimmed hrt
          refine ⟨?_, Or.inr ⟨e, ?_, ?_⟩⟩
          · simp [hasPrefix, hd2]
          · rw [← h, hts]; exact hrne
          · unfold trimPrefix; rw [hd2, ← h, hts]; rfl
        · simp [hbk] at h

end VTTRead
end Astisub
