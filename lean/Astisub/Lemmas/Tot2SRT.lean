import Astisub.Lemmas.Tot2Base
import Astisub.Model.SRT

/-!
# Lemmas/Tot2SRT — `WriteToSRT`, `Line.srtBytes`, `LineItem.srtBytes` (`srt.go`) with Go's run-time checks explicit

Sites of the writer that the model totalises:

* `LineItem.srtBytes`: `li.InlineStyle != nil` in front of `li.InlineStyle.SRTColor`, `.SRTBold`, `.SRTItalics`,
  `.SRTUnderline`, `.SRTPosition` (five tests), and `li.InlineStyle.SRTColor != nil` in front of `*li.InlineStyle.SRTColor`
  (the model reads all of them through `kvGet`, which answers `none` on a nil attribute set);
* `WriteToSRT`: "remove last new line" `c[:len(c)-1]` (the model: `dropLast`) — in range because the buffer starts with
  the byte order mark.
-/

namespace Astisub
namespace Tot
namespace SRTW
open Go Astisub.SRT

/-- a boolean / byte field of the inline style behind `li.InlineStyle != nil` (present in the
    canonical attribute list = set) -/
def flagC (a : Attrs) (k : String) : Chk Bool :=
  if a.isSome then do
    let kv ← deref a
    pure (kv.lookup k.toList).isSome
  else pure false

theorem flagC_eq (a : Attrs) (k : String) : flagC a k = .ok (kvGet a k).isSome := by cases a <;> rfl

/-- a string behind a pointer field of the inline style: `li.InlineStyle != nil && li.InlineStyle.X != nil`, then `*li.InlineStyle.X` -/
def strC (a : Attrs) (k : String) : Chk Str :=
  if a.isSome then do
    let kv ← deref a
    let p := kv.lookup k.toList
    if p.isSome then deref p else pure []
  else pure []

theorem strC_eq (a : Attrs) (k : String) : strC a k = .ok ((kvGet a k).getD []) := by
  cases a with
  | none => rfl
  | some kv =>
    unfold strC kvGet
    simp only [Option.isSome_some, if_true, deref, ok_bind]
    cases kv.lookup k.toList <;> rfl

/-- the pinned shape: the field is read without the nil test on the inline style -/
def strU (a : Attrs) (k : String) : Chk Str := do
  let kv ← deref a
  let p := kv.lookup k.toList
  if p.isSome then deref p else pure []

/-- the test is necessary: a run without inline style (plain text) is a nil dereference -/
theorem strU_nil (k : String) : strU none k = .error .nilDeref := rfl

/-- … and so is the test on the colour pointer -/
def strU2 (a : Attrs) (k : String) : Chk Str := do
  let kv ← deref a
  deref (kv.lookup k.toList)

theorem strU2_unset (kv : KV) (k : String) (h : kv.lookup k.toList = none) : strU2 (some kv) k = .error .nilDeref := by
  unfold strU2
  simp only [deref, ok_bind, h]

/-- `LineItem.srtBytes` -/
def runBytesC (li : LItem) : Chk Str := do
  let color ← strC li.attrs "SRTColor"
  let b ← flagC li.attrs "SRTBold"
  let i ← flagC li.attrs "SRTItalics"
  let u ← flagC li.attrs "SRTUnderline"
  let pos ← strC li.attrs "SRTPosition"
  pure ((if color ≠ [] then "<font color=\"".toList ++ color ++ "\">".toList else [])
    ++ (if b then "<b>".toList else []) ++ (if i then "<i>".toList else []) ++ (if u then "<u>".toList else [])
    ++ (if pos ≠ [] then "{\\an".toList ++ pos ++ "}".toList else [])
    ++ escapeHTML li.text
    ++ (if u then "</u>".toList else []) ++ (if i then "</i>".toList else []) ++ (if b then "</b>".toList else [])
    ++ (if color ≠ [] then "</font>".toList else []))

theorem runBytesC_eq (li : LItem) : runBytesC li = .ok (runBytes li) := by
  unfold runBytesC runBytes
  simp only [strC_eq, flagC_eq, ok_bind]
  rfl

/-- `Line.srtBytes` -/
def lineBytesC (l : Line) : Chk Str := do
  let rs ← mapC runBytesC l.items
  pure (rs.flatten ++ ['\n'])

theorem lineBytesC_eq (l : Line) : lineBytesC l = .ok (lineBytes l) := by
  unfold lineBytesC lineBytes
  rw [mapC_eq runBytesC_eq]; rfl

def itemBytesC (p : CItem × Nat) : Chk Str := do
  let ls ← mapC lineBytesC p.1.lines
  pure (itoaNat (p.2 + 1) ++ ['\n'] ++ Duration.formatSRT p.1.startAt ++ " --> ".toList ++ Duration.formatSRT p.1.endAt ++ ['\n']
    ++ ls.flatten ++ ['\n'])

theorem itemBytesC_eq (p : CItem × Nat) : itemBytesC p = .ok (itemBytes p.2 p.1) := by
  unfold itemBytesC itemBytes
  rw [mapC_eq lineBytesC_eq]; rfl

theorem itemBytes_ne_nil (k : Nat) (it : CItem) : itemBytes k it ≠ [] := by
  unfold itemBytes
  simp

theorem body_ne_nil (items : List CItem) (h : items ≠ []) :
    ((items.zipIdx.map fun (it, k) => itemBytes k it).flatten) ≠ [] := by
  cases items with
  | nil => exact absurd rfl h
  | cons it rest =>
    simp only [List.zipIdx_cons, List.map_cons, List.flatten_cons]
    intro hc
    exact itemBytes_ne_nil _ _ (List.append_eq_nil_iff.mp hc).1

/-- **`WriteToSRT` with every nil test and the final slice checked** -/
def writeC (s : Subs) : Chk (Option Str) :=
  if s.items.isEmpty then pure none
  else do
    let items ← mapC itemBytesC s.items.zipIdx
    let c ← initC (bom ++ items.flatten)
    pure (some c)

/-- **never panics and is the model, for every cue list** (no lines, empty lines, empty texts, nil inline styles) -/
theorem writeC_eq (s : Subs) : writeC s = .ok (SRT.write s) := by
  unfold writeC SRT.write
  by_cases he : s.items.isEmpty = true
  · rw [if_pos he, if_pos he]; rfl
  · rw [if_neg he, if_neg he, mapC_eq itemBytesC_eq]
    simp only [ok_bind]
    have hne : s.items ≠ [] := fun e => he (by rw [e]; rfl)
    rw [initC_ok (by simp [bom]), List.dropLast_append_of_ne_nil (body_ne_nil s.items hne)]
    rfl

/-- the final slice does not even need the `len(s.Items) == 0` test: the byte order mark is always there -/
theorem final_slice_safe (body : Str) : (initC (bom ++ body)).safe = true := by
  rw [initC_ok (by simp [bom])]; rfl

example : writeC { items := [{ startAt := 0, endAt := 1000000000, lines := [{ items := [{ text := [] }] }, { items := [] }] }] } =
    .ok (SRT.write { items := [{ startAt := 0, endAt := 1000000000, lines := [{ items := [{ text := [] }] }, { items := [] }] }] }) :=
  writeC_eq _

end SRTW
end Tot
end Astisub
