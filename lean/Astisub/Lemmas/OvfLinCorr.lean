import Astisub.Props.C15float
import Astisub.Lemmas.OvfBasic

/-!
# Lemmas/OvfLinCorr — `ApplyLinearCorrection`: the `int64` subtractions and the float → `int64` conversions

Go evaluates `float64(desired2-desired1) / float64(actual2-actual1)` (two `int64` subtractions),
`time.Duration(float64(desired1) - a*float64(actual1))` and `time.Duration(a*float64(t)) + b`
(two float → `int64` conversions, whose result is implementation-defined when the float is out
of range, and one `int64` addition). `apply1W` evaluates exactly that: subtractions and the addition
wrap, a conversion of an out-of-range float has no defined value (`none`).

Under the hypotheses of `C15float.close_exec` (instants within a day, exact slope of magnitude ≤ 2)
and with the two reference differences representable, everything is defined and equals the
unbounded model `LinCorr.apply1`.
-/

namespace Astisub
namespace Ovf
open Go F53

/-- `time.Duration(x)` for a `float64` `x`: defined by the language only when the truncated value is
    representable -/
def toI64 (x : Dy) : Option Int := if fits64 x.trunc then some x.trunc else none

/-- `float64(d2-d1) / float64(a2-a1)` with the subtractions in `int64` -/
def slopeW (a1 d1 a2 d2 : Int) : Dy := Dy.div (Dy.ofInt (wsub d2 d1)) (Dy.ofInt (wsub a2 a1))

/-- `b := time.Duration(float64(d1) - a*float64(a1))` -/
def interceptW (a1 d1 a2 d2 : Int) : Option Int :=
  toI64 (Dy.sub (Dy.ofInt d1) (Dy.mul (slopeW a1 d1 a2 d2) (Dy.ofInt a1)))

/-- `time.Duration(a*float64(t)) + b` -/
def apply1W (a1 d1 a2 d2 : Int) (t : Int) : Option Int :=
  match toI64 (Dy.mul (slopeW a1 d1 a2 d2) (Dy.ofInt t)), interceptW a1 d1 a2 d2 with
  | some x, some b => some (wadd x b)
  | _, _ => none

/-- the whole list; `none` as soon as one conversion is undefined -/
def applyW (a1 d1 a2 d2 : Int) (xs : List Item) : Option (List Item) :=
  xs.mapM fun it =>
    match apply1W a1 d1 a2 d2 it.endAt, apply1W a1 d1 a2 d2 it.startAt with
    | some e, some s => some { it with endAt := e, startAt := s }
    | _, _ => none

theorem tr_abs_lt (x : ℚ) : |(C15.tr x : ℚ)| < |x| + 1 := by
  have h := C15.tr_err x
  have := abs_sub_abs_le_abs_sub (C15.tr x : ℚ) x
  linarith

/-- the computed slope is within `10u` of an exact slope of magnitude ≤ 2, hence below 3 -/
theorem slope_abs_le (a1 d1 a2 d2 : ℤ) (hs : |((d2 - d1 : ℤ) : ℚ) / ((a2 - a1 : ℤ) : ℚ)| ≤ 2) :
    |(LinCorr.slope a1 d1 a2 d2).val| ≤ 3 := by
  have hu : (0 : ℚ) ≤ C15.u := le_of_lt C15.u_pos
  have hus := C15.u_small
  have h := C15.slope_err C15float.binary64 ((d2 - d1 : ℤ) : ℚ) ((a2 - a1 : ℤ) : ℚ)
  have h' : |rnd (rnd ((d2 - d1 : ℤ) : ℚ) / rnd ((a2 - a1 : ℤ) : ℚ))
      - ((d2 - d1 : ℤ) : ℚ) / ((a2 - a1 : ℤ) : ℚ)|
      ≤ |((d2 - d1 : ℤ) : ℚ) / ((a2 - a1 : ℤ) : ℚ)| * (5 * C15.u) := h
  have h2 : |((d2 - d1 : ℤ) : ℚ) / ((a2 - a1 : ℤ) : ℚ)| * (5 * C15.u) ≤ 2 * (5 * C15.u) :=
    mul_le_mul_of_nonneg_right hs (by linarith)
  rw [slope_val_rnd]
  have := abs_sub_abs_le_abs_sub (rnd (rnd ((d2 - d1 : ℤ) : ℚ) / rnd ((a2 - a1 : ℤ) : ℚ)))
    (((d2 - d1 : ℤ) : ℚ) / ((a2 - a1 : ℤ) : ℚ))
  linarith

theorem rnd_abs_le (x B : ℚ) (h : |x| ≤ B) : |rnd x| ≤ B * (1 + C15.u) :=
  C15.fl_abs_le C15float.binary64 x B h

/-- **Both floats that Go converts to `int64` are small**: for instants within a day and an exact
    slope of magnitude ≤ 2, `a*float64(t)` truncates to less than 4 days and the intercept to less than
    6 days (in nanoseconds) — nowhere near 2^63 ns ≈ 292 years. -/
theorem trunc_bounds (a1 d1 a2 d2 t : ℤ)
    (ht : |(t : ℚ)| ≤ C15.day) (ha1 : |(a1 : ℚ)| ≤ C15.day) (hd1 : |(d1 : ℚ)| ≤ C15.day)
    (hs : |((d2 - d1 : ℤ) : ℚ) / ((a2 - a1 : ℤ) : ℚ)| ≤ 2) :
    |(Dy.mul (LinCorr.slope a1 d1 a2 d2) (Dy.ofInt t)).trunc| ≤ 345600000000000 ∧
    |LinCorr.intercept a1 d1 a2 d2| ≤ 518400000000000 := by
  have hu : (0 : ℚ) ≤ C15.u := le_of_lt C15.u_pos
  have hus := C15.u_small
  have hday : (0 : ℚ) ≤ C15.day := by unfold C15.day; norm_num
  have ha3 := slope_abs_le a1 d1 a2 d2 hs
  set a : ℚ := (LinCorr.slope a1 d1 a2 d2).val with hadef
  have hat : |a * t| ≤ 3 * C15.day := by
    rw [abs_mul]; exact mul_le_mul ha3 ht (abs_nonneg _) (by norm_num)
  have haa1 : |a * a1| ≤ 3 * C15.day := by
    rw [abs_mul]; exact mul_le_mul ha3 ha1 (abs_nonneg _) (by norm_num)
  have h34 : 3 * C15.day * (1 + C15.u) ≤ 4 * C15.day - 1 := by unfold C15.day at *; nlinarith
  have hx1 : |rnd (a * t)| ≤ 4 * C15.day - 1 := le_trans (rnd_abs_le _ _ hat) h34
  have hx2 : |rnd (a * a1)| ≤ 4 * C15.day - 1 := le_trans (rnd_abs_le _ _ haa1) h34
  have hdx : |(d1 : ℚ) - rnd (a * a1)| ≤ 5 * C15.day := by
    have := abs_sub (d1 : ℚ) (rnd (a * a1))
    linarith
  have h56 : 5 * C15.day * (1 + C15.u) ≤ 6 * C15.day - 1 := by unfold C15.day at *; nlinarith
  have hx3 : |rnd ((d1 : ℚ) - rnd (a * a1))| ≤ 6 * C15.day - 1 := le_trans (rnd_abs_le _ _ hdx) h56
  constructor
  · rw [trunc_val, mul_val, ofInt_val, rnd_int _ (int_le_of_day ht), ← hadef]
    have := tr_abs_lt (rnd (a * t))
    have h : |(C15.tr (rnd (a * t)) : ℚ)| ≤ 345600000000000 := by unfold C15.day at *; linarith
    have : ((|C15.tr (rnd (a * t))| : ℤ) : ℚ) ≤ ((345600000000000 : ℤ) : ℚ) := by
      rw [Int.cast_abs]; exact_mod_cast h
    exact_mod_cast this
  · unfold LinCorr.intercept
    rw [trunc_val, sub_val, mul_val, ofInt_val, ofInt_val, rnd_int _ (int_le_of_day ha1),
      rnd_int _ (int_le_of_day hd1), ← hadef]
    have := tr_abs_lt (rnd ((d1 : ℚ) - rnd (a * a1)))
    have h : |(C15.tr (rnd ((d1 : ℚ) - rnd (a * a1))) : ℚ)| ≤ 518400000000000 := by
      unfold C15.day at *; linarith
    have : ((|C15.tr (rnd ((d1 : ℚ) - rnd (a * a1)))| : ℤ) : ℚ) ≤ ((518400000000000 : ℤ) : ℚ) := by
      rw [Int.cast_abs]; exact_mod_cast h
    exact_mod_cast this

theorem fits64_of_abs_le {x B : ℤ} (h : |x| ≤ B) (hB : B < 9223372036854775808) : fits64 x := by
  have := abs_le.mp h
  unfold fits64; omega

/-- an integer within a day in magnitude, as an integer inequality -/
theorem int_abs_le_day {n : ℤ} (h : |(n : ℚ)| ≤ C15.day) : |n| ≤ 86400000000000 := by
  have : ((|n| : ℤ) : ℚ) ≤ ((86400000000000 : ℤ) : ℚ) := by
    rw [Int.cast_abs]; unfold C15.day at h; exact_mod_cast h
  exact_mod_cast this

/-- **The differences Go subtracts in `int64` fit** when the four reference instants and `t` are
    within a day: `d2 - d1`, `a2 - a1` (computed by the code) and `t - a1` (of the exact formula). -/
theorem differences_fit (a1 d1 a2 d2 t : ℤ)
    (ht : |(t : ℚ)| ≤ C15.day) (ha1 : |(a1 : ℚ)| ≤ C15.day) (hd1 : |(d1 : ℚ)| ≤ C15.day)
    (ha2 : |(a2 : ℚ)| ≤ C15.day) (hd2 : |(d2 : ℚ)| ≤ C15.day) :
    fits64 (d2 - d1) ∧ fits64 (a2 - a1) ∧ fits64 (t - a1) := by
  have h1 := abs_le.mp (int_abs_le_day ht)
  have h2 := abs_le.mp (int_abs_le_day ha1)
  have h3 := abs_le.mp (int_abs_le_day hd1)
  have h4 := abs_le.mp (int_abs_le_day ha2)
  have h5 := abs_le.mp (int_abs_le_day hd2)
  unfold fits64
  refine ⟨⟨?_, ?_⟩, ⟨?_, ?_⟩, ⟨?_, ?_⟩⟩ <;> omega

/-- **Linear correction never leaves `int64`.** Under the hypotheses of `close_exec`, and with the two
    reference differences representable (true whenever `a2`, `d2` are within a day as well, or
    within ±2^62), the `int64` evaluation is defined — both float → `int64` conversions are in range —
    and equals the unbounded model. -/
theorem apply1W_eq (a1 d1 a2 d2 t : ℤ)
    (ht : |(t : ℚ)| ≤ C15.day) (ha1 : |(a1 : ℚ)| ≤ C15.day) (hd1 : |(d1 : ℚ)| ≤ C15.day)
    (hs : |((d2 - d1 : ℤ) : ℚ) / ((a2 - a1 : ℤ) : ℚ)| ≤ 2)
    (hD : fits64 (d2 - d1)) (hA : fits64 (a2 - a1)) :
    apply1W a1 d1 a2 d2 t = some (LinCorr.apply1 a1 d1 a2 d2 t) := by
  obtain ⟨b1, b2⟩ := trunc_bounds a1 d1 a2 d2 t ht ha1 hd1 hs
  have e : slopeW a1 d1 a2 d2 = LinCorr.slope a1 d1 a2 d2 := by
    unfold slopeW LinCorr.slope; rw [wsub_eq hD, wsub_eq hA]
  have f1 := fits64_of_abs_le b1 (by norm_num)
  have f2 := fits64_of_abs_le b2 (by norm_num)
  have f3 : fits64 ((Dy.mul (LinCorr.slope a1 d1 a2 d2) (Dy.ofInt t)).trunc + LinCorr.intercept a1 d1 a2 d2) := by
    have h1 := abs_le.mp b1
    have h2 := abs_le.mp b2
    unfold fits64; omega
  unfold apply1W interceptW toI64
  rw [e]
  have f2' : fits64 (Dy.sub (Dy.ofInt d1) (Dy.mul (LinCorr.slope a1 d1 a2 d2) (Dy.ofInt a1))).trunc := f2
  rw [if_pos f1, if_pos f2']
  exact congrArg some (wadd_eq f3)

/-- the result is itself far inside `int64`: less than 10 days in magnitude -/
theorem apply1_bound (a1 d1 a2 d2 t : ℤ)
    (ht : |(t : ℚ)| ≤ C15.day) (ha1 : |(a1 : ℚ)| ≤ C15.day) (hd1 : |(d1 : ℚ)| ≤ C15.day)
    (hs : |((d2 - d1 : ℤ) : ℚ) / ((a2 - a1 : ℤ) : ℚ)| ≤ 2) :
    |LinCorr.apply1 a1 d1 a2 d2 t| ≤ 864000000000000 := by
  obtain ⟨b1, b2⟩ := trunc_bounds a1 d1 a2 d2 t ht ha1 hd1 hs
  have h1 := abs_le.mp b1
  have h2 := abs_le.mp b2
  unfold LinCorr.apply1
  rw [abs_le]; constructor <;> omega

theorem mapM_some {α β} (f : α → Option β) (g : α → β) :
    ∀ (xs : List α), (∀ x ∈ xs, f x = some (g x)) → xs.mapM f = some (xs.map g)
  | [], _ => rfl
  | x :: xs, h => by
    rw [List.mapM_cons, h x (by simp), mapM_some f g xs (fun y hy => h y (by simp [hy]))]
    rfl

/-- the whole list: every cue boundary within a day -/
theorem applyW_eq (a1 d1 a2 d2 : ℤ) (xs : List Item)
    (hx : ∀ it ∈ xs, |(it.startAt : ℚ)| ≤ C15.day ∧ |(it.endAt : ℚ)| ≤ C15.day)
    (ha1 : |(a1 : ℚ)| ≤ C15.day) (hd1 : |(d1 : ℚ)| ≤ C15.day)
    (hs : |((d2 - d1 : ℤ) : ℚ) / ((a2 - a1 : ℤ) : ℚ)| ≤ 2)
    (hD : fits64 (d2 - d1)) (hA : fits64 (a2 - a1)) :
    applyW a1 d1 a2 d2 xs = some (LinCorr.apply a1 d1 a2 d2 xs) := by
  unfold applyW LinCorr.apply
  apply mapM_some
  intro it hit
  rw [apply1W_eq a1 d1 a2 d2 it.endAt (hx it hit).2 ha1 hd1 hs hD hA,
    apply1W_eq a1 d1 a2 d2 it.startAt (hx it hit).1 ha1 hd1 hs hD hA]

/-- non-vacuity: the +0.1 % correction anchored at 1 s and 1 h of `C15float` -/
example :
    let a1 : ℤ := 1000000000; let d1 : ℤ := 1500000000
    let a2 : ℤ := 3600000000000; let d2 : ℤ := 3604099000000
    fits64 (d2 - d1) ∧ fits64 (a2 - a1) ∧
      apply1W a1 d1 a2 d2 1800000000000 = some (LinCorr.apply1 a1 d1 a2 d2 1800000000000) := by decide

/-- the hypotheses cannot be dropped: with a slope of 2^62 the product `a*float64(4)` is 2^64, which
    no `int64` holds — the Go conversion has no defined value, while the model returns 2^64 -/
example : apply1W 0 0 1 4611686018427387904 4 = none ∧
    LinCorr.apply1 0 0 1 4611686018427387904 4 = 18446744073709551616 := by decide

/-- … and a reference difference that does not fit changes the slope (here its sign) -/
example : (slopeW 0 (-1) 1 9223372036854775807).m < 0 ∧ 0 < (LinCorr.slope 0 (-1) 1 9223372036854775807).m := by
  decide

end Ovf
end Astisub
