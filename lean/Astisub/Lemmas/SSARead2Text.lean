import Astisub.Lemmas.SSARead2Defs
import Astisub.Lemmas.SSAText

/-!
# Lemmas/SSARead2Text — event text: `\N` / `\n` splitting and `{…}` override blocks, model = decoder

* runs: `runsOf_shape` reads the structure of a line off an accepting run of the decoder (plain text, then
  block runs), `lineRuns_runsOf` concludes with `lineRuns_plain` / `lineRuns_blocks`;
* lines: `join_splitOnAux_N` (`strings.ReplaceAll` of `\N` = the left-to-right scan `replN`),
  `splitOnAux_replN` and `splitOn_replaceAll` (splitting the result at `\n` = `cutLines`);
* `mapM_trim` puts the two together.
-/

namespace Astisub
namespace SSAR
open Go SSA List

/-! ### runs -/

def innerOf (rest : Str) : Str := rest.takeWhile fun c => c ≠ '}' && c ≠ '{'

theorem runsOf_open_some (fuel : Nat) (rest after : Str) (eff : Option Str) (acc : Str) (out : List Spec.SSA.GRun)
    (h : rest.drop (innerOf rest).length = '}' :: after) :
    Spec.SSA.runsOf (fuel + 1) ('{' :: rest) eff acc out =
      if (innerOf rest).isEmpty then none else
        Spec.SSA.runsOf fuel after (some ('{' :: innerOf rest ++ ['}'])) []
          (if eff.isNone && acc.isEmpty then out else out ++ [{ effect := eff, text := acc.reverse }]) := by
  unfold innerOf at h ⊢
  simp only [Spec.SSA.runsOf]
  rw [h]
  rfl

theorem runsOf_open_none (fuel : Nat) (rest : Str) (eff : Option Str) (acc : Str) (out : List Spec.SSA.GRun)
    (h : ∀ after, rest.drop (innerOf rest).length ≠ '}' :: after) :
    Spec.SSA.runsOf (fuel + 1) ('{' :: rest) eff acc out = none := by
  unfold innerOf at h
  simp only [Spec.SSA.runsOf]

theorem runsOf_close (fuel : Nat) (rest : Str) (eff : Option Str) (acc : Str) (out : List Spec.SSA.GRun) :
    Spec.SSA.runsOf (fuel + 1) ('}' :: rest) eff acc out = none := by
  simp [Spec.SSA.runsOf]

theorem runsOf_other (fuel : Nat) (c : Char) (rest : Str) (eff : Option Str) (acc : Str) (out : List Spec.SSA.GRun)
    (h1 : c ≠ '{') (h2 : c ≠ '}') :
    Spec.SSA.runsOf (fuel + 1) (c :: rest) eff acc out = Spec.SSA.runsOf fuel rest eff (c :: acc) out := by
  simp only [Spec.SSA.runsOf]

theorem innerOf_split : ∀ (rest : Str), innerOf rest ++ rest.drop (innerOf rest).length = rest := by
  intro rest
  induction rest with
  | nil => rfl
  | cons c cs ih =>
    unfold innerOf at ih ⊢
    rw [takeWhile_cons]
    split
    · simp only [length_cons, drop_succ_cons, cons_append]
      rw [ih]
    · rfl

theorem innerOf_noBrace (rest : Str) : NoBrace (innerOf rest) := by
  constructor
  · intro h
    have := List.all_eq_true.1 (all_takeWhile (l := rest) (p := fun c => c ≠ '}' && c ≠ '{')) _ h
    simp at this
  · intro h
    have := List.all_eq_true.1 (all_takeWhile (l := rest) (p := fun c => c ≠ '}' && c ≠ '{')) _ h
    simp at this

theorem isBlock_mk (inner : Str) (hi : inner ≠ []) (hn : NoBrace inner) : IsBlock ('{' :: inner ++ ['}']) := by
  have hb : blockInner ('{' :: inner ++ ['}']) = inner := by simp [blockInner]
  refine ⟨by rw [hb], by rw [hb]; exact hi, by rw [hb]; exact hn⟩

def grun (r : Run) : Spec.SSA.GRun := { effect := r.1, text := r.2 }

/-- the decoder's answer on a pending run `(eff, txt)` followed by block runs -/
def tailRuns (eff : Option Str) (txt : Str) (rest : List Run) : List Spec.SSA.GRun :=
  match rest with
  | [] => [{ effect := eff, text := txt }]
  | _ :: _ => (if eff.isNone && txt.isEmpty then [] else [{ effect := eff, text := txt }]) ++ rest.map grun

theorem tailRuns_some (e txt : Str) (rest : List Run) : tailRuns (some e) txt rest = grun (some e, txt) :: rest.map grun := by
  cases rest <;> simp [tailRuns, grun]

theorem runsOf_shape : ∀ (fuel : Nat) (s : Str) (eff : Option Str) (acc : Str) (out rs : List Spec.SSA.GRun),
    Spec.SSA.runsOf fuel s eff acc out = some rs →
    ∃ (t : Str) (rest : List Run), s = t ++ lineStr rest ∧ NoBrace t ∧ (∀ r ∈ rest, BlockRun r) ∧
      rs = out ++ tailRuns eff (acc.reverse ++ t) rest := by
  intro fuel
  induction fuel with
  | zero => intro s eff acc out rs h; simp [Spec.SSA.runsOf] at h
  | succ f ih =>
    intro s eff acc out rs h
    cases s with
    | nil =>
      refine ⟨[], [], rfl, ⟨by simp, by simp⟩, by simp, ?_⟩
      simp only [Spec.SSA.runsOf, Option.some.injEq] at h
      simp [tailRuns, ← h]
    | cons c cs =>
      by_cases h1 : c = '{'
      · subst h1
        cases hd : cs.drop (innerOf cs).length with
        | nil =>
          rw [runsOf_open_none f cs eff acc out (by rw [hd]; simp)] at h
          exact absurd h (by simp)
        | cons d after =>
          by_cases hd2 : d = '}'
          · subst hd2
            rw [runsOf_open_some f cs after eff acc out hd] at h
            by_cases hi : (innerOf cs).isEmpty = true
            · simp [hi] at h
            · simp only [hi] at h
              have hi' : innerOf cs ≠ [] := by intro e; rw [e] at hi; exact hi rfl
              obtain ⟨t', rest', hs, ht, hr, hrs⟩ := ih _ _ _ _ _ h
              have hblk : BlockRun (some ('{' :: innerOf cs ++ ['}']), t') :=
                ⟨isBlock_mk _ hi' (innerOf_noBrace cs), ht⟩
              refine ⟨[], (some ('{' :: innerOf cs ++ ['}']), t') :: rest', ?_, ⟨by simp, by simp⟩, ?_, ?_⟩
              · have := innerOf_split cs
                rw [hd, hs] at this
                simp only [lineStr, map_cons, flatten_cons, runStr, Option.getD_some, nil_append]
                simp only [lineStr] at this
                conv => lhs; rw [← this]
                simp
              · intro r hr'
                rcases mem_cons.1 hr' with e | e
                · rw [e]; exact hblk
                · exact hr r e
              · rw [hrs, tailRuns_some]
                simp only [tailRuns, append_nil, map_cons]
                cases eff <;> cases acc <;> simp [grun]
          · rw [runsOf_open_none f cs eff acc out (by rw [hd]; intro a e; exact hd2 (by injection e))] at h
            exact absurd h (by simp)
      · by_cases h2 : c = '}'
        · subst h2
          rw [runsOf_close] at h
          exact absurd h (by simp)
        · rw [runsOf_other f c cs eff acc out h1 h2] at h
          obtain ⟨t', rest', hs, ht, hr, hrs⟩ := ih _ _ _ _ _ h
          refine ⟨c :: t', rest', by rw [hs]; rfl, ?_, hr, ?_⟩
          · exact ⟨by simp [Ne.symm h1, ht.1], by simp [Ne.symm h2, ht.2]⟩
          · rw [hrs]; simp


theorem runView_plain (t : Str) : runView (mkRun (none, t)) = { effect := none, text := t } := rfl

theorem runView_block (r : Run) (h : BlockRun r) : runView (mkRun r) = grun r := by
  obtain ⟨eo, t⟩ := r
  cases eo with
  | none => exact absurd h.1 id
  | some e => simp [runView, mkRun, grun, Spec.SSA.kvGet, List.lookup]

theorem map_runView_blocks (rs : List Run) (h : ∀ r ∈ rs, BlockRun r) : (rs.map mkRun).map runView = rs.map grun := by
  induction rs with
  | nil => rfl
  | cons r rs ih =>
    simp only [map_cons]
    rw [runView_block r (h r (by simp)), ih fun x hx => h x (by simp [hx])]

/-- **Runs.** what the decoder accepts, the model cuts the same way -/
theorem lineRuns_runsOf (l : Str) (rs : List Spec.SSA.GRun) (h : Spec.SSA.runsOf (l.length + 2) l none [] [] = some rs) :
    (lineRuns l).map runView = rs := by
  obtain ⟨t, rest, hs, ht, hr, hrs⟩ := runsOf_shape _ _ _ _ _ _ h
  subst hs
  rw [hrs]
  cases rest with
  | nil =>
    simp only [lineStr, map_nil, flatten_nil, append_nil]
    rw [lineRuns_plain t ht]
    simp [tailRuns, runView_plain]
  | cons r rest =>
    rw [lineRuns_blocks t r rest hr ht, map_append, map_runView_blocks _ hr]
    cases t with
    | nil => simp [tailRuns]
    | cons c cs => simp [tailRuns, runView_plain]


/-! ### lines -/

theorem cutLines_cons (c : Char) (rest acc : Str) :
    Spec.SSA.cutLines (c :: rest) acc =
      if c = '\\' ∧ (rest.head? = some 'N' ∨ rest.head? = some 'n') then acc.reverse :: Spec.SSA.cutLines (rest.drop 1) []
      else Spec.SSA.cutLines rest (c :: acc) := by
  by_cases hc : c = '\\'
  · subst hc
    cases rest with
    | nil => simp [Spec.SSA.cutLines]
    | cons d r =>
      by_cases h1 : d = 'N'
      · subst h1; simp [Spec.SSA.cutLines]
      · by_cases h2 : d = 'n'
        · subst h2; simp [Spec.SSA.cutLines]
        · simp [Spec.SSA.cutLines, h1, h2]
  · simp [Spec.SSA.cutLines, hc]

/-- `strings.ReplaceAll(s, "\\N", "\\n")`, scanning left to right -/
def replN : Nat → Str → Str
  | 0, s => s
  | _ + 1, [] => []
  | fuel + 1, c :: rest =>
    if c = '\\' ∧ rest.head? = some 'N' then '\\' :: 'n' :: replN fuel (rest.drop 1) else c :: replN fuel rest

theorem dropPrefix2_iff (a b x : Char) (xs r : Str) :
    dropPrefix? [a, b] (x :: xs) = some r ↔ x = a ∧ xs = b :: r := by
  cases xs with
  | nil => by_cases h : a = x <;> simp [dropPrefix?, h]
  | cons y ys =>
    by_cases h : a = x
    · by_cases h' : b = y
      · subst h; subst h'; simp [dropPrefix?]
      · have : ¬ y = b := fun e => h' e.symm
        simp [dropPrefix?, h, h', this]
    · have : ¬ x = a := fun e => h e.symm
      simp [dropPrefix?, h, this]

theorem join_cons_ne' (sep a : Str) (l : List Str) (h : l ≠ []) : join sep (a :: l) = a ++ sep ++ join sep l := by
  cases l with
  | nil => exact absurd rfl h
  | cons b r => rfl

theorem splitOnAux_ne_nil' (sep : Str) : ∀ (fuel : Nat) (s acc : Str), splitOnAux sep fuel s acc ≠ [] := by
  intro fuel
  induction fuel with
  | zero => intro s acc; simp [splitOnAux]
  | succ n ih =>
    intro s acc
    cases s with
    | nil => simp [splitOnAux]
    | cons x xs =>
      unfold splitOnAux
      split
      · simp
      · exact ih _ _

theorem join_splitOnAux_N : ∀ (fuel : Nat) (s acc : Str), s.length < fuel →
    join ['\\', 'n'] (splitOnAux ['\\', 'N'] fuel s acc) = acc.reverse ++ replN fuel s := by
  intro fuel
  induction fuel with
  | zero => intro s acc h; simp at h
  | succ n ih =>
    intro s acc h
    cases s with
    | nil => simp [splitOnAux, join, replN]
    | cons x xs =>
      have hlen : xs.length < n := by simpa using h
      unfold splitOnAux
      cases hd : dropPrefix? ['\\', 'N'] (x :: xs) with
      | some r =>
        obtain ⟨hx, hxs⟩ := (dropPrefix2_iff _ _ _ _ _).1 hd
        subst hx; subst hxs
        simp only
        rw [join_cons_ne' _ _ _ (splitOnAux_ne_nil' _ _ _ _), ih r [] (by simp at hlen; omega)]
        simp [replN]
      | none =>
        simp only
        rw [ih xs (x :: acc) hlen]
        have hno : ¬ (x = '\\' ∧ xs.head? = some 'N') := by
          rintro ⟨e1, e2⟩
          cases xs with
          | nil => simp at e2
          | cons y ys =>
            simp at e2
            subst e1; subst e2
            simp [dropPrefix?] at hd
        simp [replN, hno]


theorem replN_head (n : Nat) (s : Str) : (replN (n + 1) s).head? = s.head? := by
  cases s with
  | nil => rfl
  | cons c rest =>
    simp only [replN]
    split
    · rename_i h; simp [h.1]
    · rfl

theorem splitOnAux_replN : ∀ (k f1 f2 : Nat) (u acc : Str), u.length < k → u.length < f1 → (replN f1 u).length < f2 →
    splitOnAux ['\\', 'n'] f2 (replN f1 u) acc = Spec.SSA.cutLines u acc := by
  intro k
  induction k with
  | zero => intro f1 f2 u acc h; simp at h
  | succ k ih =>
    intro f1 f2 u acc hk h1 h2
    obtain ⟨n, rfl⟩ : ∃ n, f1 = n + 1 := ⟨f1 - 1, by omega⟩
    obtain ⟨m, rfl⟩ : ∃ m, f2 = m + 1 := ⟨f2 - 1, by omega⟩
    cases u with
    | nil => simp [replN, splitOnAux, Spec.SSA.cutLines]
    | cons c rest =>
      have hk' : rest.length < k := by simpa using hk
      have h1' : rest.length < n := by simpa using h1
      rw [cutLines_cons]
      by_cases hN : c = '\\' ∧ rest.head? = some 'N'
      · obtain ⟨hc, hr⟩ := hN
        subst hc
        cases rest with
        | nil => simp at hr
        | cons d r =>
          simp only [head?_cons, Option.some.injEq] at hr
          subst hr
          simp only [replN, head?_cons, and_self, ↓reduceIte, drop_succ_cons, drop_zero, true_or] at h2 ⊢
          simp only [splitOnAux, dropPrefix2_some]
          rw [ih n m r [] (by simp at hk'; omega) (by simp at h1'; omega) (by simp at h2; omega)]
      · have hrep : replN (n + 1) (c :: rest) = c :: replN n rest := by simp [replN, hN]
        rw [hrep] at h2 ⊢
        have h2' : (replN n rest).length < m := by simpa using h2
        by_cases hn : c = '\\' ∧ rest.head? = some 'n'
        · obtain ⟨hc, hr⟩ := hn
          subst hc
          cases rest with
          | nil => simp at hr
          | cons d r =>
            simp only [head?_cons, Option.some.injEq] at hr
            subst hr
            obtain ⟨n', rfl⟩ : ∃ n', n = n' + 1 := ⟨n - 1, by omega⟩
            have hrep2 : replN (n' + 1) ('n' :: r) = 'n' :: replN n' r := by simp [replN]
            rw [hrep2] at h2' ⊢
            simp only [splitOnAux, dropPrefix2_some, head?_cons, or_true, and_self, ↓reduceIte, drop_succ_cons, drop_zero]
            rw [ih n' m r [] (by simp at hk'; omega) (by simp at h1'; omega) (by simp at h2'; omega)]
        · have hcond : ¬ (c = '\\' ∧ (rest.head? = some 'N' ∨ rest.head? = some 'n')) := by
            rintro ⟨e1, e2 | e2⟩
            · exact hN ⟨e1, e2⟩
            · exact hn ⟨e1, e2⟩
          simp only [hcond, ↓reduceIte]
          obtain ⟨n', rfl⟩ : ∃ n', n = n' + 1 := ⟨n - 1, by omega⟩
          have hnone : dropPrefix? ['\\', 'n'] (c :: replN (n' + 1) rest) = none := by
            apply dropPrefix2_none
            rw [replN_head]
            by_cases e1 : c = '\\'
            · have : ¬ rest.head? = some 'n' := fun e2 => hn ⟨e1, e2⟩
              simp [this]
            · simp [e1]
          simp only [splitOnAux, hnone]
          exact ih (n' + 1) m rest (c :: acc) hk' h1' h2'

/-- **Lines.** `\\N` → `\\n`, then split at `\\n` = cut at both, scanning left to right -/
theorem splitOn_replaceAll (u : Str) :
    Go.splitOn "\\n".toList (replaceAll "\\N".toList "\\n".toList u) = Spec.SSA.cutLines u [] := by
  rw [sepn, sepN]
  have hr : replaceAll ['\\', 'N'] ['\\', 'n'] u = replN (u.length + 1) u := by
    unfold replaceAll Go.splitOn
    simp only [isEmpty_cons, Bool.false_eq_true, ↓reduceIte]
    rw [join_splitOnAux_N _ u [] (by omega)]
    rfl
  rw [hr]
  unfold Go.splitOn
  simp only [isEmpty_cons, Bool.false_eq_true, ↓reduceIte]
  exact splitOnAux_replN (u.length + 1) _ _ u [] (by omega) (by omega) (by omega)

theorem mapM_trim {β γ} (g : Str → Option β) (hfun : Str → γ) (view : γ → β) (hg : ∀ l b, g l = some b → view (hfun l) = b) :
    ∀ (ls : List Str) (gl : List β), Spec.SSA.mapM (fun l => g (trimSpace l)) ls = some gl →
      ((ls.map trimSpace).map hfun).map view = gl := by
  intro ls
  induction ls with
  | nil => intro gl h; simp [Spec.SSA.mapM] at h; simp [← h]
  | cons a as ih =>
    intro gl h
    simp only [Spec.SSA.mapM] at h
    cases h1 : g (trimSpace a) with
    | none => simp [h1] at h
    | some b =>
      cases h2 : Spec.SSA.mapM (fun l => g (trimSpace l)) as with
      | none => simp [h1, h2] at h
      | some bs =>
        simp only [h1, h2, Option.some.injEq] at h
        subst h
        simp only [map_cons]
        rw [hg _ _ h1, ih bs h2]

/-- **Text.** Whenever the decoder accepts the text of an event (no stray braces), the model's lines
    (`textLines` on the trimmed text, as `eventField` stores it) and runs (`lineRuns`) are, seen through the view,
    exactly the decoder's lines and runs. -/
theorem textLines_textOf (t : Str) (gl : List (List Spec.SSA.GRun)) (h : Spec.SSA.textOf t = some gl) :
    (textLines (trimSpace t)).map (fun s => (lineRuns s).map runView) = gl := by
  unfold textLines
  rw [splitOn_replaceAll]
  unfold Spec.SSA.textOf at h
  have := mapM_trim (fun l => Spec.SSA.runsOf (l.length + 2) l none [] []) lineRuns (fun x => x.map runView)
    (fun l b hb => lineRuns_runsOf l b hb) _ gl h
  simp only [List.map_map] at this ⊢
  exact this

end SSAR
end Astisub
