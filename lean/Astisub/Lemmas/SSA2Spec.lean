import Astisub.Lemmas.SSA2Total
import Astisub.Spec.SSA

/-!
# Lemmas/SSA2Spec — the independent decoder (`Spec.SSA`) on the cells the writer emits

First steps towards W2 (`Spec.SSA.decode (write s)`): the scalar readers of the independent decoder
accept every integer, colour, boolean and time cell the writer emits and give it the same value, and
its `Key: value` splitter sees the writer's lines as the model's reader does.
-/

namespace Astisub
namespace SSA
open Go List

theorem spec_isDigit_digitChar {k : Nat} (h : k < 10) : Spec.SSA.isDigit (digitChar k) = true := by
  rcases digitChar_lt h with h|h|h|h|h|h|h|h|h|h <;> subst h <;> decide

theorem spec_natOf_digitStr {s : Str} (hd : DigitStr s) (hne : s ≠ []) : Spec.SSA.natOf s = some (natOfDigits s) := by
  unfold Spec.SSA.natOf
  have h1 : s.isEmpty = false := by
    cases s with
    | nil => exact absurd rfl hne
    | cons _ _ => rfl
  have h2 : s.all Spec.SSA.isDigit = true := by
    rw [all_eq_true]
    intro c hc
    obtain ⟨k, hk, rfl⟩ := hd c hc
    exact spec_isDigit_digitChar hk
  simp only [h1, h2, Bool.not_true, Bool.or_self, Bool.false_eq_true, ↓reduceIte]
  rfl

theorem spec_natOf_itoaNat (n : Nat) : Spec.SSA.natOf (itoaNat n) = some n := by
  rw [spec_natOf_digitStr (digitStr_itoaNat n) (itoaNat_ne_nil' n), natOfDigits_itoaNat]

/-- **Integers.** The independent decoder reads every integer the writer emits (`strconv.Itoa`) as that integer -/
theorem spec_intOf_itoa (v : Int) : Spec.SSA.intOf (itoa v) = some v := by
  unfold itoa
  by_cases hv : v < 0
  · rw [if_pos hv]
    have := Int.ofNat_natAbs_of_nonpos (Int.le_of_lt hv)
    simp [Spec.SSA.intOf, spec_natOf_itoaNat]
    omega
  · rw [if_neg hv]
    have hne := itoaNat_ne_nil' v.toNat
    have hn := spec_natOf_itoaNat v.toNat
    cases hs : itoaNat v.toNat with
    | nil => exact absurd hs hne
    | cons c cs =>
      have hd : DigitStr (c :: cs) := hs ▸ digitStr_itoaNat v.toNat
      obtain ⟨h1, h2⟩ := hd.head_ne_sign
      rw [hs] at hn
      unfold Spec.SSA.intOf
      split
      · rename_i heq; cases heq; exact absurd rfl h1
      · rename_i heq; cases heq; exact absurd rfl h2
      · rw [hn]
        simp
        omega

theorem spec_hexVal_hexFin : ∀ d : Fin 16, Spec.SSA.hexVal (hexDigitLower d.val) = some d.val := by decide

theorem spec_hexVal_hex {n : Nat} (h : n < 16) : Spec.SSA.hexVal (hexDigitLower n) = some n := spec_hexVal_hexFin ⟨n, h⟩

/-- **Colours.** The independent decoder reads every `&Haabbggrr` the writer emits as that 32-bit colour -/
theorem spec_colourOf_colourString (c : Nat) (h : c < 4294967296) : Spec.SSA.colourOf (colourString c) = some c := by
  have h7 : c / 0x10000000 % 16 < 16 := Nat.mod_lt _ (by decide)
  have h6 : c / 0x1000000 % 16 < 16 := Nat.mod_lt _ (by decide)
  have h5 : c / 0x100000 % 16 < 16 := Nat.mod_lt _ (by decide)
  have h4 : c / 0x10000 % 16 < 16 := Nat.mod_lt _ (by decide)
  have h3 : c / 0x1000 % 16 < 16 := Nat.mod_lt _ (by decide)
  have h2 : c / 0x100 % 16 < 16 := Nat.mod_lt _ (by decide)
  have h1 : c / 0x10 % 16 < 16 := Nat.mod_lt _ (by decide)
  have h0 : c % 16 < 16 := Nat.mod_lt _ (by decide)
  have e : "&H".toList = ['&', 'H'] := by decide
  unfold colourString hex8
  rw [e]
  simp only [cons_append, nil_append, Spec.SSA.colourOf, isEmpty_cons, length_cons, length_nil, Bool.false_or,
    Spec.SSA.hexOf, spec_hexVal_hex h7, spec_hexVal_hex h6, spec_hexVal_hex h5, spec_hexVal_hex h4, spec_hexVal_hex h3,
    spec_hexVal_hex h2, spec_hexVal_hex h1, spec_hexVal_hex h0]
  have e1 : c / 16 / 16 = c / 256 := by rw [Nat.div_div_eq_div_mul]
  have e2 : c / 256 / 16 = c / 4096 := by rw [Nat.div_div_eq_div_mul]
  have e3 : c / 4096 / 16 = c / 65536 := by rw [Nat.div_div_eq_div_mul]
  have e4 : c / 65536 / 16 = c / 1048576 := by rw [Nat.div_div_eq_div_mul]
  have e5 : c / 1048576 / 16 = c / 16777216 := by rw [Nat.div_div_eq_div_mul]
  have e6 : c / 16777216 / 16 = c / 268435456 := by rw [Nat.div_div_eq_div_mul]
  have e7 : c / 268435456 / 16 = c / 4294967296 := by rw [Nat.div_div_eq_div_mul]
  simp
  omega

/-- **Booleans.** The `1` / `0` the writer emits are read as true / false -/
theorem spec_boolOf_cell (b : Bool) : Spec.SSA.boolOf (if b then ['1'] else ['0']) = some b := by
  cases b <;> decide

theorem drop_length_succ (a : Str) (c : Char) (b : Str) : (a ++ c :: b).drop (a.length + 1) = b := by
  induction a with
  | nil => rfl
  | cons x xs ih => simp [ih]

/-- **`Key: value` lines.** The independent decoder splits the (trimmed) line the writer emits for a
    header and a content into exactly this header and this content, like the model's reader (`step_kv`) -/
theorem spec_keyValue_kvTrim (hdr content : Str) (hh : HeaderOK hdr) (hc : Trimmed content) :
    Spec.SSA.keyValue (kvTrim hdr content) = some (hdr, content) := by
  obtain ⟨_, hcolon, htr, _, _⟩ := hh
  unfold Spec.SSA.keyValue kvTrim
  have hcont : (hdr ++ ':' :: (if content = [] then [] else ' ' :: content)).contains ':' = true := by simp
  have htake : (hdr ++ ':' :: (if content = [] then [] else ' ' :: content)).takeWhile (· ≠ ':') = hdr := by
    rw [takeWhile_append_of_pos (by
      intro c hc
      simp only [ne_eq, decide_not, Bool.not_eq_eq_eq_not, Bool.not_true, decide_eq_false_iff_not]
      intro e
      subst e
      exact hcolon hc)]
    simp
  simp only [hcont, ↓reduceIte, htake, Option.some.injEq, Prod.mk.injEq]
  refine ⟨trimSpace_of_trimmed htr, ?_⟩
  rw [drop_length_succ]
  exact kvTrim_content content hc

theorem natOfDigits_dd {v : Nat} (h : v < 100) : natOfDigits (dd v) = v := by
  unfold dd natOfDigits
  simp only [foldl_cons, foldl_nil, digitChar_sub48' (show v / 10 < 10 by omega), digitChar_sub48' (show v % 10 < 10 by omega)]
  omega

theorem spec_natOf_dd {v : Nat} (h : v < 100) : Spec.SSA.natOf (dd v) = some v := by
  rw [spec_natOf_digitStr (digitStr_dd h) (by simp [dd]), natOfDigits_dd h]

/-- **Times.** The independent decoder reads every `H:MM:SS.cc` the writer emits (instants below 100 h)
    as the instant in centiseconds, rounded down -/
theorem spec_timeOf_formatSSA (t : Int) (h : TimeOK t) : Spec.SSA.timeOf (Duration.formatSSA t) = some (t / 10000000) := by
  obtain ⟨hh, m, s, f, hhh, hm, hs, hf, hfmt, hval⟩ := C16.format_shape2 t '.' h.1 h.2
  unfold Duration.formatSSA
  rw [hfmt]
  unfold C16.canon2
  have c1 : ':' ∉ dd hh := (digitStr_dd hhh).not_mem (Or.inl rfl)
  have c2 : ':' ∉ dd m := (digitStr_dd (by omega)).not_mem (Or.inl rfl)
  have c3 : ':' ∉ dd s ++ '.' :: dd f := by
    intro hc
    rcases mem_append.mp hc with hc | hc
    · exact (digitStr_dd (by omega)).not_mem (Or.inl rfl) hc
    · rcases mem_cons.mp hc with e | hc
      · exact absurd e (by decide)
      · exact (digitStr_dd hf).not_mem (Or.inl rfl) hc
  have d1 : '.' ∉ dd s := (digitStr_dd (by omega)).not_mem (Or.inr (Or.inl rfl))
  have d2 : '.' ∉ dd f := (digitStr_dd hf).not_mem (Or.inr (Or.inl rfl))
  have e1 : splitC ':' (dd hh ++ ':' :: dd m ++ ':' :: dd s ++ '.' :: dd f) = [dd hh, dd m, dd s ++ '.' :: dd f] := by
    rw [show dd hh ++ ':' :: dd m ++ ':' :: dd s ++ '.' :: dd f = dd hh ++ ':' :: (dd m ++ ':' :: (dd s ++ '.' :: dd f)) by simp]
    rw [splitC_append _ c1, splitC_append _ c2, splitC_not_mem c3]
  have e2 : splitC '.' (dd s ++ '.' :: dd f) = [dd s, dd f] := by
    rw [splitC_append _ d1, splitC_not_mem d2]
  unfold Spec.SSA.timeOf
  rw [e1]
  simp only [e2, spec_natOf_dd hhh, spec_natOf_dd (show m < 100 by omega), spec_natOf_dd (show s < 100 by omega),
    spec_natOf_dd hf]
  have l2 : ∀ v, (dd v).length = 2 := fun _ => rfl
  simp only [l2, ne_eq, not_true_eq_false, decide_false, Bool.or_self, Bool.false_eq_true, ↓reduceIte, hm, hs,
    decide_true, Bool.and_self, Option.some.injEq]
  unfold Duration.nsPerMs Duration.nsPerS Duration.nsPerMin Duration.nsPerH at hval
  omega

end SSA
end Astisub
