import Astisub.Lemmas.TTMLRead2Defs
import Astisub.Lemmas.TTMLDocElems

/-!
# Lemmas/TTMLRead2XAttr — the attributes of one start tag: decoder (`Spec.TTML.attr?`, `ref?`, `styling`, `natAttr`)
against the `encoding/xml` contract (`lastAttr`, `allAttr`, `intAttr`, `inAttrs`) and the model (`itemOfStart`)
-/

namespace Astisub
namespace TTMLR
open Go TTML

def viewKV (kv : KV) : Spec.TTML.AttrL :=
  attrTable.filterMap (fun p => (TTML.get kv p.1).map fun v => (p.2.toList, v))

/-! ## attribute lookup -/

theorem lastAttr_acc (a : List XAttr) (name : String) (acc : Str) :
    a.foldl (fun acc x => if x.2.1 = name.toList then x.2.2 else acc) acc
      = ((allAttr a name).getLast?).getD acc := by
  induction a generalizing acc with
  | nil => rfl
  | cons x a ih =>
    rw [List.foldl_cons, ih]
    unfold allAttr
    by_cases hx : x.2.1 = name.toList
    · rw [if_pos hx, List.filter_cons_of_pos (by simpa using hx), List.map_cons, List.getLast?_cons]
      rfl
    · rw [if_neg hx, List.filter_cons_of_neg (by simpa using hx)]

theorem lastAttr_getLast (a : List XAttr) (name : String) :
    lastAttr a name = ((allAttr a name).getLast?).getD [] := lastAttr_acc a name []

/-- under `attrFits`, a declaration never carries a matched local name -/
theorem notDecl_of_fits {x : XAttr} {nm : Str} (hm : nm ∈ matchedNames) (hf : attrFits x = true)
    (hx : x.2.1 = nm) : Spec.TTML.isDecl x = false := by
  cases hd : Spec.TTML.isDecl x with
  | false => rfl
  | true =>
    unfold attrFits at hf
    rw [hd] at hf
    simp only [↓reduceIte, Bool.not_eq_true', List.contains_eq_mem, decide_eq_false_iff_not] at hf
    exact absurd (hx ▸ hm) hf

theorem filter_agree (a : List XAttr) (name : String) (hm : name.toList ∈ matchedNames) (hfit : a.all attrFits = true) :
    (a.filter fun x => !Spec.TTML.isDecl x && x.2.1 = name.toList) = a.filter fun x => x.2.1 = name.toList := by
  apply List.filter_congr
  intro x hx
  have hf := List.all_eq_true.mp hfit x hx
  by_cases h : x.2.1 = name.toList
  · rw [notDecl_of_fits hm hf h]; rfl
  · simp [h]

theorem allAttr_eq (a : List XAttr) (name : String) (hm : name.toList ∈ matchedNames) (hfit : a.all attrFits = true) :
    allAttr a name = (a.filter fun x => !Spec.TTML.isDecl x && x.2.1 = name.toList).map (·.2.2) := by
  rw [filter_agree a name hm hfit]; rfl

theorem attr_unique (a : List XAttr) (name : String) (hm : name.toList ∈ matchedNames) (hfit : a.all attrFits = true) :
    (Spec.TTML.attr? a name = none → allAttr a name = [] ∧ lastAttr a name = []) ∧
    (∀ v, Spec.TTML.attr? a name = some (some v) → allAttr a name = [v] ∧ lastAttr a name = v) := by
  rw [lastAttr_getLast, allAttr_eq a name hm hfit]
  unfold Spec.TTML.attr?
  generalize (a.filter fun x => !Spec.TTML.isDecl x && x.2.1 = name.toList) = l
  match l with
  | [] => exact ⟨fun _ => ⟨rfl, rfl⟩, fun v h => by simp at h⟩
  | [x] =>
    refine ⟨fun h => by simp at h, fun v h => ?_⟩
    simp only [Option.some.injEq] at h
    subst h
    exact ⟨rfl, rfl⟩
  | _ :: _ :: _ => exact ⟨fun h => by simp at h, fun v h => by simp at h⟩

/-- the attribute `attr?` found -/
theorem attr_witness (a : List XAttr) (name : String) (v : Str) (h : Spec.TTML.attr? a name = some (some v)) :
    ∃ x ∈ a, Spec.TTML.isDecl x = false ∧ x.2.1 = name.toList ∧ x.2.2 = v := by
  unfold Spec.TTML.attr? at h
  generalize hl : (a.filter fun x => !Spec.TTML.isDecl x && x.2.1 = name.toList) = l at h
  match l, h with
  | [x], h =>
    simp only [Option.some.injEq] at h
    have hx : x ∈ a.filter fun x => !Spec.TTML.isDecl x && x.2.1 = name.toList := by rw [hl]; simp
    rw [List.mem_filter] at hx
    simp only [Bool.and_eq_true, Bool.not_eq_true', decide_eq_true_eq] at hx
    exact ⟨x, hx.1, hx.2.1, hx.2.2, h⟩

theorem ref_lastAttr (a : List XAttr) (name : String) (r : Option Str) (hm : name.toList ∈ matchedNames)
    (hfit : a.all attrFits = true) (h : Spec.TTML.ref? a name = some r) :
    lastAttr a name = r.getD [] ∧ (∀ v, r = some v → v ≠ []) := by
  obtain ⟨h0, h1⟩ := attr_unique a name hm hfit
  unfold Spec.TTML.ref? at h
  cases ha : Spec.TTML.attr? a name with
  | none =>
    rw [ha] at h
    simp only [Option.some.injEq] at h
    subst h
    exact ⟨(h0 ha).2, fun v hv => by simp at hv⟩
  | some o =>
    cases o with
    | none => rw [ha] at h; simp at h
    | some w =>
      rw [ha] at h
      simp only at h
      by_cases hw : w.isEmpty = true
      · rw [if_pos hw] at h; simp at h
      · rw [if_neg hw] at h
        simp only [Option.some.injEq] at h
        subst h
        refine ⟨(h1 w ha).2, fun v hv => ?_⟩
        simp only [Option.some.injEq] at hv
        subst hv
        intro e; subst e; exact hw rfl


/-! ## numbers -/

theorem digitsVal_isDig (s : Str) (h : s.all Spec.TTML.isDig = true) (acc : Nat) :
    digitsVal s acc = some (s.foldl (fun a c => a * 10 + (c.toNat - 48)) acc) := by
  induction s generalizing acc with
  | nil => rfl
  | cons c cs ih =>
    rw [List.all_cons, Bool.and_eq_true] at h
    have hc : '0' ≤ c ∧ c ≤ '9' := by simpa [Spec.TTML.isDig] using h.1
    simp only [digitsVal, digitVal, hc, and_self, ↓reduceIte, List.foldl_cons]
    exact ih h.2 _

theorem num_parseDigits (s : Str) (n : Nat) (h : Spec.TTML.num? s = some n) :
    parseDigits s = some n ∧ s ≠ [] ∧ s.all Spec.TTML.isDig = true := by
  unfold Spec.TTML.num? at h
  by_cases hc : (s.isEmpty || !s.all Spec.TTML.isDig) = true
  · rw [if_pos hc] at h; simp at h
  · rw [if_neg hc] at h
    simp only [Bool.or_eq_true, Bool.not_eq_true', not_or, Bool.not_eq_true, Bool.not_eq_false] at hc
    simp only [Option.some.injEq] at h
    unfold parseDigits
    rw [if_neg (by simp [hc.1]), digitsVal_isDig s hc.2, h]
    refine ⟨rfl, ?_, hc.2⟩
    intro e; subst e; simp at hc

theorem atoi_of_num (s : Str) (n : Nat) (h : Spec.TTML.num? s = some n) (hle : n ≤ TTMLR.int64Max) :
    atoi s = some (n : Int) := by
  obtain ⟨hp, hne, hall⟩ := num_parseDigits s n h
  have hle' : n ≤ Go.int64Max := hle
  cases s with
  | nil => exact absurd rfl hne
  | cons c cs =>
    rw [List.all_cons, Bool.and_eq_true] at hall
    have hc : '0' ≤ c ∧ c ≤ '9' := by simpa [Spec.TTML.isDig] using hall.1
    unfold atoi
    split
    · rename_i r heq; simp only [List.cons.injEq] at heq; rw [heq.1] at hc; exact absurd hc (by decide)
    · rename_i r heq; simp only [List.cons.injEq] at heq; rw [heq.1] at hc; exact absurd hc (by decide)
    · rw [hp]; simp [hle']

theorem trimS_eq (v : Str) : Spec.TTML.trimS v = trimSpace v := rfl

theorem digitChar_eq (k : Nat) (h : k < 10) : Nat.digitChar k = Go.digitChar k := by
  have : k = 0 ∨ k = 1 ∨ k = 2 ∨ k = 3 ∨ k = 4 ∨ k = 5 ∨ k = 6 ∨ k = 7 ∨ k = 8 ∨ k = 9 := by omega
  rcases this with rfl | rfl | rfl | rfl | rfl | rfl | rfl | rfl | rfl | rfl <;> rfl

theorem itoaAux_toDigitsCore : ∀ (fuel n : Nat) (acc : Str), itoaAux fuel n acc = Nat.toDigitsCore 10 fuel n acc
  | 0, _, _ => rfl
  | fuel + 1, n, acc => by
    unfold itoaAux Nat.toDigitsCore
    simp only
    by_cases h : n < 10
    · have h0 : n / 10 = 0 := by omega
      have h1 : n % 10 = n := by omega
      rw [if_pos h, if_pos h0, h1, digitChar_eq n h]
    · have h0 : ¬ n / 10 = 0 := by omega
      rw [if_neg h, if_neg h0, digitChar_eq (n % 10) (by omega)]
      exact itoaAux_toDigitsCore fuel (n / 10) _

theorem itoaNat_repr (n : Nat) : (Nat.repr n).toList = itoaNat n := by
  unfold itoaNat Nat.repr Nat.toDigits
  rw [itoaAux_toDigitsCore, String.toList_ofList]

/-- Go's `strconv.Itoa` (model) prints what Lean's `toString` on `Int` prints -/
theorem itoa_showInt (z : Int) : itoa z = Spec.TTML.showInt z := by
  unfold Spec.TTML.showInt itoa
  cases z with
  | ofNat m =>
    have : ¬ (Int.ofNat m < 0) := by simp
    rw [if_neg this]
    show itoaNat m = (Nat.repr m).toList
    rw [itoaNat_repr]
  | negSucc m =>
    have : Int.negSucc m < 0 := Int.negSucc_lt_zero m
    rw [if_pos this]
    show '-' :: itoaNat (m + 1) = ("-" ++ Nat.repr (m + 1)).toList
    rw [String.toList_append, itoaNat_repr]
    rfl

theorem int_nonempty (v : Str) (z : Int) (h : Spec.TTML.int? (Spec.TTML.trimS v) = some z) : v ≠ [] := by
  intro e; subst e
  have : Spec.TTML.int? (Spec.TTML.trimS []) = none := by decide
  rw [this] at h; simp at h

theorem zIndex_value (v : Str) (z : Int) (h : Spec.TTML.int? (Spec.TTML.trimS v) = some z) (hf : zFits v = true) :
    parseIntAttr v = some z ∧ itoa z = Spec.TTML.showInt z := by
  refine ⟨?_, itoa_showInt z⟩
  have hne := int_nonempty v z h
  unfold parseIntAttr
  rw [if_neg (by cases v with | nil => exact absurd rfl hne | cons _ _ => simp), ← trimS_eq]
  unfold zFits at hf
  rw [h] at hf
  simp only [Bool.and_eq_true, decide_eq_true_eq] at hf
  generalize Spec.TTML.trimS v = s at h
  unfold Spec.TTML.int? at h
  split at h
  · rename_i r
    cases hn : Spec.TTML.num? r with
    | none => rw [hn] at h; simp at h
    | some n =>
      rw [hn] at h
      simp at h
      subst h
      obtain ⟨hp, _, _⟩ := num_parseDigits r n hn
      have hle : n ≤ Go.int64Max + 1 := by
        have := hf.1
        unfold TTMLR.int64Max at this
        unfold Go.int64Max
        omega
      simp only [atoi, hp, hle, ↓reduceIte]
  · rename_i r
    cases hn : Spec.TTML.num? r with
    | none => rw [hn] at h; simp at h
    | some n =>
      rw [hn] at h
      simp at h
      subst h
      obtain ⟨hp, _, _⟩ := num_parseDigits r n hn
      have hle : n ≤ Go.int64Max := by
        have := hf.2
        unfold TTMLR.int64Max at this
        unfold Go.int64Max
        omega
      simp only [atoi, hp, hle, ↓reduceIte]
  · cases hn : Spec.TTML.num? s with
    | none => rw [hn] at h; simp at h
    | some n =>
      rw [hn] at h
      simp at h
      subst h
      exact atoi_of_num s n hn (by have := hf.2; omega)


/-! ## `itemOfStart`: name, name spaces -/

theorem itemOfStart_name (name : Str) (a : List XAttr) (it₀ it : InItem) (h : itemOfStart name a it₀ = some it) :
    it.name = name := by
  induction a generalizing it₀ with
  | nil =>
    simp only [itemOfStart, Option.some.injEq] at h
    subst h; rfl
  | cons x a ih =>
    obtain ⟨sp, loc, v⟩ := x
    rw [itemOfStart] at h
    split at h
    · exact ih _ h
    · split at h
      · split at h
        · split at h
          · exact ih _ h
          · simp at h
        · exact ih _ h
      · exact ih _ h

theorem itemOfStart_erase (name : Str) (a : List XAttr) (it₀ : InItem) :
    itemOfStart name (a.map eraseA) it₀ = itemOfStart name a it₀ := by
  induction a generalizing it₀ with
  | nil => rfl
  | cons x a ih =>
    obtain ⟨sp, loc, v⟩ := x
    simp only [List.map_cons, eraseA, itemOfStart, ih]

/-! ## `frameRate` / `tickRate` -/

theorem rate_matched (name : String) (hm : name = "frameRate" ∨ name = "tickRate") : name.toList ∈ matchedNames := by
  rcases hm with rfl | rfl <;> decide

theorem attrFits_rate (x : XAttr) (name : String) (hm : name = "frameRate" ∨ name = "tickRate")
    (hd : Spec.TTML.isDecl x = false) (hx : x.2.1 = name.toList) (hf : attrFits x = true) : rateFits x.2.2 = true := by
  unfold attrFits at hf
  rw [hd, hx] at hf
  rcases hm with rfl | rfl
  · have e : ("frameRate".toList = "zIndex".toList) = False := by decide
    have e2 : ("frameRate".toList = "begin".toList) = False := by decide
    have e3 : ("frameRate".toList = "end".toList) = False := by decide
    simpa [e, e2, e3] using hf
  · have e : ("tickRate".toList = "zIndex".toList) = False := by decide
    have e2 : ("tickRate".toList = "begin".toList) = False := by decide
    have e3 : ("tickRate".toList = "end".toList) = False := by decide
    have e4 : ("tickRate".toList = "frameRate".toList) = False := by decide
    simpa [e, e2, e3, e4] using hf

theorem natAttr_intAttr (a : List XAttr) (name : String) (n : Nat) (hm : name = "frameRate" ∨ name = "tickRate")
    (hfit : a.all attrFits = true) (h : Spec.TTML.natAttr a name = some n) :
    intAttr a name = some (n : Int) ∧ n ≤ int64Max := by
  obtain ⟨h0, h1⟩ := attr_unique a name (rate_matched name hm) hfit
  unfold Spec.TTML.natAttr at h
  unfold intAttr
  cases ha : Spec.TTML.attr? a name with
  | none =>
    rw [ha] at h
    simp only [Option.some.injEq] at h
    subst h
    rw [(h0 ha).1]
    exact ⟨rfl, Nat.zero_le _⟩
  | some o =>
    cases o with
    | none => rw [ha] at h; simp at h
    | some v =>
      rw [ha] at h
      simp only at h
      rw [(h1 v ha).1]
      obtain ⟨x, hxa, hd, hx, hv⟩ := attr_witness a name v ha
      have hr := attrFits_rate x name hm hd hx (List.all_eq_true.mp hfit x hxa)
      rw [hv] at hr
      unfold rateFits at hr
      rw [h] at hr
      simp only [decide_eq_true_eq] at hr
      refine ⟨?_, hr⟩
      have hne : v ≠ [] := by
        intro e; subst e
        have : Spec.TTML.num? (Spec.TTML.trimS []) = none := by decide
        rw [this] at h; simp at h
      simp only [List.foldl_cons, List.foldl_nil, Option.bind_some]
      unfold parseIntAttr
      rw [if_neg (by cases v with | nil => exact absurd rfl hne | cons _ _ => simp), ← trimS_eq]
      exact atoi_of_num _ n h hr


/-! ## `itemOfStart` against `inAttrs` -/

theorem inj_of_nodup {α β : Type} [DecidableEq β] (f : α → β) (l : List α) (h : (l.map f).Nodup) {p q : α}
    (hp : p ∈ l) (hq : q ∈ l) (e : f p = f q) : p = q := by
  have h1 := TTMLDoc.find_self f l h hp
  have h2 := TTMLDoc.find_self f l h hq
  rw [e, h2] at h1
  exact (Option.some.inj h1).symm

theorem row_inj {p q : String × String} (hp : p ∈ attrTable) (hq : q ∈ attrTable) (e : p.2.toList = q.2.toList) : p = q :=
  inj_of_nodup (fun q : String × String => q.2.toList) attrTable
    (by rw [TTMLDoc.rowNames_eq]; exact TTMLDoc.rowNames_nodup) hp hq e

theorem field_inj {p q : String × String} (hp : p ∈ attrTable) (hq : q ∈ attrTable) (e : p.1.toList = q.1.toList) : p = q :=
  inj_of_nodup (fun q : String × String => q.1.toList) attrTable TTMLDoc.fields_nodup hp hq e

theorem zrow_mem : (("ZIndex", "zIndex") : String × String) ∈ attrTable := by decide

theorem lookup_filter_ne (kv : KV) (k k' : Str) (h : k' ≠ k) :
    (kv.filter fun p => p.1 != k).lookup k' = kv.lookup k' := by
  induction kv with
  | nil => rfl
  | cons q kv ih =>
    obtain ⟨a, b⟩ := q
    by_cases ha : a = k
    · subst ha
      have hb : (k' == a) = false := by simpa using h
      rw [List.filter_cons_of_neg (by simp), ih, List.lookup_cons, hb]
    · rw [List.filter_cons_of_pos (by simpa using ha), List.lookup_cons, List.lookup_cons, ih]

theorem lookup_filter_self (kv : KV) (k : Str) : (kv.filter fun p => p.1 != k).lookup k = none := by
  induction kv with
  | nil => rfl
  | cons q kv ih =>
    obtain ⟨a, b⟩ := q
    by_cases ha : a = k
    · subst ha
      rw [List.filter_cons_of_neg (by simp), ih]
    · have hb : (k == a) = false := by simpa using fun e => ha e.symm
      rw [List.filter_cons_of_pos (by simpa using ha), List.lookup_cons, hb, ih]

theorem lookup_kvSet_self (kv : KV) (k v : Str) : (kvSet kv k v).lookup k = some v := by
  unfold kvSet
  rw [List.lookup_append, lookup_filter_self]
  simp [List.lookup]

theorem lookup_kvSet_ne (kv : KV) (k k' v : Str) (h : k' ≠ k) : (kvSet kv k v).lookup k' = kv.lookup k' := by
  unfold kvSet
  have hb : (k' == k) = false := by simpa using h
  rw [List.lookup_append, lookup_filter_ne _ _ _ h]
  simp [List.lookup, hb]

/-- the value stored in the field of row `p` for the attribute value `v` -/
def rowVal (p : String × String) (v : Str) : Str := if p.1 = "ZIndex" then itoa ((parseIntAttr v).getD 0) else v

theorem fieldVal_eq (a : List XAttr) (p : String × String) :
    fieldVal a p = ((allAttr a p.2).getLast?).map fun v => (p.1.toList, rowVal p v) := rfl

theorem allAttr_cons_pos (x : XAttr) (a : List XAttr) (name : String) (h : x.2.1 = name.toList) :
    allAttr (x :: a) name = x.2.2 :: allAttr a name := by
  unfold allAttr
  rw [List.filter_cons_of_pos (by simpa using h), List.map_cons]

theorem allAttr_cons_neg (x : XAttr) (a : List XAttr) (name : String) (h : x.2.1 ≠ name.toList) :
    allAttr (x :: a) name = allAttr a name := by
  unfold allAttr
  rw [List.filter_cons_of_neg (by simpa using h)]

theorem zOk_cons_neg (x : XAttr) (a : List XAttr) (h : x.2.1 ≠ "zIndex".toList) : zOk (x :: a) = zOk a := by
  unfold zOk; rw [allAttr_cons_neg x a _ h]

theorem zOk_cons_pos (x : XAttr) (a : List XAttr) (h : x.2.1 = "zIndex".toList) :
    zOk (x :: a) = ((parseIntAttr x.2.2).isSome && zOk a) := by
  unfold zOk; rw [allAttr_cons_pos x a _ h, List.all_cons]

/-- the state after one attribute that belongs to row `(f, n)` -/
theorem itemOfStart_rowStep (name sp loc v : Str) (rest : List XAttr) (it : InItem) (f n : String)
    (hs : loc ≠ "style".toList) (hfind : attrTable.find? (fun p => p.2.toList = loc) = some (f, n))
    (hz : f = "ZIndex" → (parseIntAttr v).isSome = true) :
    itemOfStart name ((sp, loc, v) :: rest) it
      = itemOfStart name rest { it with attrs := kvSet it.attrs f.toList (rowVal (f, n) v) } := by
  rw [itemOfStart]
  simp only [hs, ↓reduceIte, hfind]
  unfold rowVal
  by_cases hf : f = "ZIndex"
  · have := hz hf
    cases hp : parseIntAttr v with
    | none => rw [hp] at this; simp at this
    | some z => simp only [hf, ↓reduceIte, Option.getD_some]
  · simp only [hf, ↓reduceIte]

def styleStep (acc : Str) (x : XAttr) : Str := if x.2.1 = "style".toList then x.2.2 else acc

theorem itemOfStart_gen (name : Str) (a : List XAttr) : ∀ (it₀ : InItem), zOk a = true →
    ∃ it, itemOfStart name a it₀ = some it ∧ it.name = name ∧ it.text = it₀.text ∧
      it.style = a.foldl styleStep it₀.style ∧
      ∀ p ∈ attrTable, TTML.get it.attrs p.1
        = (((allAttr a p.2).getLast?).map (rowVal p)).or (TTML.get it₀.attrs p.1) := by
  induction a with
  | nil =>
    intro it₀ _
    exact ⟨{ it₀ with name := name }, rfl, rfl, rfl, rfl, fun p _ => rfl⟩
  | cons x a ih =>
    intro it₀ hz
    obtain ⟨sp, loc, v⟩ := x
    by_cases hs : loc = "style".toList
    · -- the style reference
      have hnz : loc ≠ "zIndex".toList := by rw [hs]; decide
      rw [zOk_cons_neg _ _ hnz] at hz
      obtain ⟨it, h1, h2, h3, h4, h5⟩ := ih { it₀ with style := v } hz
      refine ⟨it, ?_, h2, h3, ?_, fun p hp => ?_⟩
      · rw [itemOfStart, if_pos hs]; exact h1
      · rw [h4, List.foldl_cons]; simp only [styleStep, hs, ↓reduceIte]
      · have hne : loc ≠ p.2.toList := by rw [hs]; exact fun e => TTMLDoc.row_not_style p hp e.symm
        rw [h5 p hp, allAttr_cons_neg _ _ _ hne]
    · cases hfind : attrTable.find? (fun p => p.2.toList = loc) with
      | none =>
        have hall : ∀ p ∈ attrTable, loc ≠ p.2.toList := by
          intro p hp e
          have := List.find?_eq_none.mp hfind p hp
          simp [e] at this
        rw [zOk_cons_neg _ _ (hall _ zrow_mem)] at hz
        obtain ⟨it, h1, h2, h3, h4, h5⟩ := ih it₀ hz
        refine ⟨it, ?_, h2, h3, ?_, fun p hp => ?_⟩
        · rw [TTMLDoc.itemOfStart_skip _ _ _ _ _ _ hs hfind]; exact h1
        · rw [h4, List.foldl_cons]; simp only [styleStep, hs, ↓reduceIte]
        · rw [h5 p hp, allAttr_cons_neg _ _ _ (hall p hp)]
      | some q =>
        obtain ⟨f, n⟩ := q
        have hq : (f, n) ∈ attrTable := List.mem_of_find?_eq_some hfind
        have hloc : n.toList = loc := by simpa using List.find?_some hfind
        have hzz : zOk a = true ∧ (f = "ZIndex" → (parseIntAttr v).isSome = true) := by
          by_cases hlz : loc = "zIndex".toList
          · rw [zOk_cons_pos _ _ hlz, Bool.and_eq_true] at hz
            exact ⟨hz.2, fun _ => hz.1⟩
          · rw [zOk_cons_neg _ _ hlz] at hz
            refine ⟨hz, fun hf => absurd ?_ hlz⟩
            have : (f, n) = ("ZIndex", "zIndex") := field_inj hq zrow_mem (by rw [hf])
            rw [← hloc, (Prod.mk.inj this).2]
        obtain ⟨it, h1, h2, h3, h4, h5⟩ := ih { it₀ with attrs := kvSet it₀.attrs f.toList (rowVal (f, n) v) } hzz.1
        refine ⟨it, ?_, h2, h3, ?_, fun p hp => ?_⟩
        · rw [itemOfStart_rowStep name sp loc v a it₀ f n hs hfind hzz.2]; exact h1
        · rw [h4, List.foldl_cons]; simp only [styleStep, hs, ↓reduceIte]
        · rw [h5 p hp]
          by_cases hpq : p = (f, n)
          · subst hpq
            rw [allAttr_cons_pos _ _ _ hloc.symm, List.getLast?_cons]
            simp only [TTML.get, lookup_kvSet_self]
            cases (allAttr a n).getLast? <;> rfl
          · have hne : loc ≠ p.2.toList := by
              rw [← hloc]; exact fun e => hpq (row_inj hp hq e.symm)
            have hne2 : p.1.toList ≠ f.toList := fun e => hpq (field_inj hp hq e)
            rw [allAttr_cons_neg _ _ _ hne]
            simp only [TTML.get, lookup_kvSet_ne _ _ _ _ hne2]

theorem get_inAttrs (a : List XAttr) {p : String × String} (hp : p ∈ attrTable) :
    TTML.get (attrTable.filterMap (fieldVal a)) p.1 = ((allAttr a p.2).getLast?).map (rowVal p) := by
  have e : attrTable.filterMap (fieldVal a) = attrTable.filterMap fun q =>
      (((allAttr a q.2).getLast?).map (rowVal q)).map fun v => (q.1.toList, v) := by
    apply TTMLDoc.filterMap_congr'
    intro q _
    rw [fieldVal_eq]
    cases (allAttr a q.2).getLast? <;> rfl
  unfold TTML.get
  rw [e]
  exact TTMLDoc.lookup_filterMap (fun q : String × String => q.1.toList) _ attrTable TTMLDoc.fields_nodup hp

theorem lastAttr_style (a : List XAttr) : lastAttr a "style" = a.foldl styleStep [] := rfl

theorem itemOfStart_get (name : Str) (a : List XAttr) (kv : KV) (h : inAttrs a = some kv) :
    ∃ it, itemOfStart name a {} = some it ∧ it.name = name ∧ it.text = [] ∧ it.style = lastAttr a "style" ∧
      ∀ p ∈ attrTable, TTML.get it.attrs p.1 = TTML.get kv p.1 := by
  unfold inAttrs at h
  by_cases hz : zOk a = true
  · rw [if_pos hz] at h
    simp only [Option.some.injEq] at h
    subst h
    obtain ⟨it, h1, h2, h3, h4, h5⟩ := itemOfStart_gen name a {} hz
    refine ⟨it, h1, h2, h3, h4, fun p hp => ?_⟩
    rw [h5 p hp, get_inAttrs a hp]
    cases ((allAttr a p.2).getLast?).map (rowVal p) <;> rfl
  · rw [if_neg hz] at h; simp at h


/-! ## `br` -/

theorem zIndex_matched : "zIndex".toList ∈ matchedNames := by decide

theorem attrFits_z (x : XAttr) (hx : x.2.1 = "zIndex".toList) (hf : attrFits x = true) : zFits x.2.2 = true := by
  have hd := notDecl_of_fits zIndex_matched hf hx
  unfold attrFits at hf
  rw [hd] at hf
  simpa [hx] using hf

theorem mem_allAttr {a : List XAttr} {name : String} {v : Str} (h : v ∈ allAttr a name) :
    ∃ x ∈ a, x.2.1 = name.toList ∧ x.2.2 = v := by
  unfold allAttr at h
  obtain ⟨x, hx, hv⟩ := List.mem_map.mp h
  rw [List.mem_filter] at hx
  exact ⟨x, hx.1, by simpa using hx.2, hv⟩

theorem zOk_of_br (a : List XAttr) (hfit : a.all attrFits = true) (hb : brFits a = true) : zOk a = true := by
  unfold zOk
  rw [List.all_eq_true]
  intro v hv
  obtain ⟨x, hxa, hx, hxv⟩ := mem_allAttr hv
  have hf := attrFits_z x hx (List.all_eq_true.mp hfit x hxa)
  have hi := List.all_eq_true.mp hb x hxa
  simp only [hx, bne_self_eq_false, Bool.false_or] at hi
  cases hz : Spec.TTML.int? (Spec.TTML.trimS x.2.2) with
  | none => rw [hz] at hi; simp at hi
  | some z =>
    rw [← hxv, (zIndex_value x.2.2 z hz hf).1]
    rfl

theorem itemOfStart_br (a : List XAttr) (hfit : a.all attrFits = true) (hb : brFits a = true) :
    ∃ it, itemOfStart "br".toList a {} = some it := by
  have hz := zOk_of_br a hfit hb
  obtain ⟨it, h, _⟩ := itemOfStart_get "br".toList a _ (by unfold inAttrs; rw [if_pos hz])
  exact ⟨it, h⟩


/-! ## `styling` against `inAttrs` -/

/-- what one styling name contributes: `none` = the element is rejected, `some none` = nothing -/
def rowD (a : List XAttr) (n : String) : Option (Option (Str × Str)) :=
  match Spec.TTML.attr? a n with
  | none => some none
  | some none => none
  | some (some v) =>
    if n = "zIndex" then (Spec.TTML.int? (Spec.TTML.trimS v)).map fun z => some (n.toList, Spec.TTML.showInt z)
    else some (some (n.toList, v))

def stylingStep (a : List XAttr) (n : String) (acc : Option Spec.TTML.AttrL) : Option Spec.TTML.AttrL :=
  match acc, Spec.TTML.attr? a n with
  | none, _ => none
  | some l, none => some l
  | some _, some none => none
  | some l, some (some v) =>
    if n = "zIndex" then (Spec.TTML.int? (Spec.TTML.trimS v)).map fun z => (n.toList, Spec.TTML.showInt z) :: l
    else some ((n.toList, v) :: l)

theorem styling_eq (a : List XAttr) : Spec.TTML.styling a = Spec.TTML.stylingNames.foldr (stylingStep a) (some []) := rfl

theorem stylingStep_some (a : List XAttr) (n : String) (acc : Option Spec.TTML.AttrL) (sa : Spec.TTML.AttrL)
    (h : stylingStep a n acc = some sa) :
    ∃ l o, acc = some l ∧ rowD a n = some o ∧ sa = o.toList ++ l := by
  unfold stylingStep at h
  unfold rowD
  cases acc with
  | none => simp at h
  | some l =>
    cases ha : Spec.TTML.attr? a n with
    | none =>
      rw [ha] at h
      simp only [Option.some.injEq] at h
      exact ⟨l, none, rfl, rfl, h.symm⟩
    | some o =>
      cases o with
      | none => rw [ha] at h; simp at h
      | some v =>
        rw [ha] at h
        simp only at h ⊢
        by_cases hn : n = "zIndex"
        · rw [if_pos hn] at h ⊢
          cases hz : Spec.TTML.int? (Spec.TTML.trimS v) with
          | none => rw [hz] at h; simp at h
          | some z =>
            rw [hz] at h
            simp only [Option.map_some, Option.some.injEq] at h
            exact ⟨l, _, rfl, rfl, h.symm⟩
        · rw [if_neg hn] at h ⊢
          simp only [Option.some.injEq] at h
          exact ⟨l, _, rfl, rfl, h.symm⟩

/-- the `foldr` of `styling`, row by row -/
theorem styling_rows (a : List XAttr) : ∀ (ns : List String) (sa : Spec.TTML.AttrL),
    ns.foldr (stylingStep a) (some []) = some sa →
    (∀ n ∈ ns, (rowD a n).isSome = true) ∧ sa = ns.filterMap fun n => (rowD a n).join := by
  intro ns
  induction ns with
  | nil =>
    intro sa h
    simp only [List.foldr_nil, Option.some.injEq] at h
    exact ⟨fun n hn => by simp at hn, h.symm⟩
  | cons n ns ih =>
    intro sa h
    rw [List.foldr_cons] at h
    obtain ⟨l, o, hl, ho, hsa⟩ := stylingStep_some a n _ sa h
    obtain ⟨h1, h2⟩ := ih l hl
    refine ⟨fun m hm => ?_, ?_⟩
    · rcases List.mem_cons.mp hm with e | e
      · rw [e, ho]; rfl
      · exact h1 m e
    · rw [List.filterMap_cons, ho, hsa, h2]
      cases o <;> rfl

theorem stylingNames_eq : Spec.TTML.stylingNames = attrTable.map (·.2) := by rfl

theorem row_matched {p : String × String} (hp : p ∈ attrTable) : p.2.toList ∈ matchedNames := by
  unfold matchedNames
  rw [stylingNames_eq]
  apply List.mem_append_left
  rw [List.map_map]
  exact List.mem_map_of_mem (f := String.toList ∘ fun p : String × String => p.2) hp

theorem zrow_iff : ∀ p ∈ attrTable, (p.2 = "zIndex") ↔ (p.1 = "ZIndex") := by decide

/-- one row: decoder side = contract side -/
theorem rowD_fieldVal (a : List XAttr) (hfit : a.all attrFits = true) {p : String × String} (hp : p ∈ attrTable)
    (h : (rowD a p.2).isSome = true) :
    (rowD a p.2).join = (fieldVal a p).map fun q => (p.2.toList, q.2) := by
  obtain ⟨h0, h1⟩ := attr_unique a p.2 (row_matched hp) hfit
  unfold rowD at h ⊢
  rw [fieldVal_eq]
  cases ha : Spec.TTML.attr? a p.2 with
  | none => rw [(h0 ha).1]; rfl
  | some o =>
    cases o with
    | none => rw [ha] at h; simp at h
    | some v =>
      rw [ha] at h
      rw [(h1 v ha).1]
      simp only [List.getLast?_singleton, Option.map_some] at h ⊢
      unfold rowVal
      by_cases hn : p.2 = "zIndex"
      · have hf : p.1 = "ZIndex" := (zrow_iff p hp).mp hn
        rw [if_pos hn] at h ⊢
        rw [if_pos hf]
        cases hz : Spec.TTML.int? (Spec.TTML.trimS v) with
        | none => rw [hz] at h; simp at h
        | some z =>
          obtain ⟨x, hxa, _, hx, hv⟩ := attr_witness a p.2 v ha
          have hzf : zFits v = true := by
            rw [← hv]; exact attrFits_z x (by rw [hx, hn]) (List.all_eq_true.mp hfit x hxa)
          obtain ⟨e1, e2⟩ := zIndex_value v z hz hzf
          rw [e1, Option.getD_some, e2]
          rfl
      · have hf : ¬ p.1 = "ZIndex" := fun e => hn ((zrow_iff p hp).mpr e)
        rw [if_neg hn, if_neg hf]
        rfl

theorem zOk_of_styling (a : List XAttr) (hfit : a.all attrFits = true) (h : (rowD a "zIndex").isSome = true) :
    zOk a = true := by
  obtain ⟨h0, h1⟩ := attr_unique a "zIndex" zIndex_matched hfit
  unfold zOk
  unfold rowD at h
  cases ha : Spec.TTML.attr? a "zIndex" with
  | none => rw [(h0 ha).1]; rfl
  | some o =>
    cases o with
    | none => rw [ha] at h; simp at h
    | some v =>
      rw [ha] at h
      rw [(h1 v ha).1]
      simp only [↓reduceIte] at h
      cases hz : Spec.TTML.int? (Spec.TTML.trimS v) with
      | none => rw [hz] at h; simp at h
      | some z =>
        obtain ⟨x, hxa, _, hx, hv⟩ := attr_witness a "zIndex" v ha
        have hzf : zFits v = true := by
          rw [← hv]; exact attrFits_z x hx (List.all_eq_true.mp hfit x hxa)
        simp [(zIndex_value v z hz hzf).1]

theorem viewKV_inAttrs (a : List XAttr) :
    viewKV (attrTable.filterMap (fieldVal a)) = attrTable.filterMap fun p => (fieldVal a p).map fun q => (p.2.toList, q.2) := by
  unfold viewKV
  apply TTMLDoc.filterMap_congr'
  intro p hp
  rw [get_inAttrs a hp, fieldVal_eq]
  cases (allAttr a p.2).getLast? <;> rfl

theorem styling_inAttrs (a : List XAttr) (sa : Spec.TTML.AttrL) (hfit : a.all attrFits = true)
    (h : Spec.TTML.styling a = some sa) : ∃ kv, inAttrs a = some kv ∧ viewKV kv = sa := by
  rw [styling_eq] at h
  obtain ⟨hall, hsa⟩ := styling_rows a _ sa h
  have hzr : (rowD a "zIndex").isSome = true := hall "zIndex" (by decide)
  refine ⟨_, by unfold inAttrs; rw [if_pos (zOk_of_styling a hfit hzr)], ?_⟩
  rw [viewKV_inAttrs, hsa, stylingNames_eq, List.filterMap_map]
  apply TTMLDoc.filterMap_congr'
  intro p hp
  have := hall p.2 (by rw [stylingNames_eq]; exact List.mem_map_of_mem (f := fun p : String × String => p.2) hp)
  exact (rowD_fieldVal a hfit hp this).symm


/-! ## non-vacuity -/

def exAttrs : List XAttr :=
  [("xmlns".toList, "tts".toList, "http://www.w3.org/ns/ttml#styling".toList),
   ([], "style".toList, "s1".toList),
   ("http://www.w3.org/ns/ttml#styling".toList, "color".toList, "red".toList),
   ("http://www.w3.org/ns/ttml#styling".toList, "zIndex".toList, " -3 ".toList)]

example : exAttrs.all attrFits = true := by decide
example : Spec.TTML.ref? exAttrs "style" = some (some "s1".toList) := by decide
example : Spec.TTML.styling exAttrs = some [("color".toList, "red".toList), ("zIndex".toList, "-3".toList)] := by decide
example : inAttrs exAttrs = some [("Color".toList, "red".toList), ("ZIndex".toList, "-3".toList)] := by decide
example : viewKV [("Color".toList, "red".toList), ("ZIndex".toList, "-3".toList)]
    = [("color".toList, "red".toList), ("zIndex".toList, "-3".toList)] := by decide
example : (itemOfStart "span".toList exAttrs {}).map (fun it => (it.name, it.style, it.attrs))
    = some ("span".toList, "s1".toList, [("Color".toList, "red".toList), ("ZIndex".toList, "-3".toList)]) := by decide

/-- the finding `ttml-xmlns-prefix-read-as-styling-attribute` is real: a declaration `xmlns:color="red"` is no
    styling attribute for the decoder, but `encoding/xml` stores it in the field `Color`; `attrFits` excludes it -/
example : Spec.TTML.styling [("xmlns".toList, "color".toList, "red".toList)] = some [] := by decide
example : inAttrs [("xmlns".toList, "color".toList, "red".toList)] = some [("Color".toList, "red".toList)] := by decide
example : attrFits ("xmlns".toList, "color".toList, "red".toList) = false := by decide

end TTMLR
end Astisub
