import Astisub.Lemmas.TTMLDocAttrs

/-!
# Lemmas/TTMLDocElems — the start tags of `style`, `region` and `p` as the decoder fills the `TTMLIn*` structs
-/

namespace Astisub
namespace TTMLDoc
open Go TTML List

/-! ### attribute look-up -/

theorem lastAttr_append (a b : List (Str × Str)) (nm : String) :
    lastAttr (a ++ b) nm = b.foldl (fun acc kv => if localName kv.1 = nm.toList then kv.2 else acc) (lastAttr a nm) := by
  simp [lastAttr]

theorem allAttr_append (a b : List (Str × Str)) (nm : String) : allAttr (a ++ b) nm = allAttr a nm ++ allAttr b nm := by
  simp [allAttr]

theorem localName_tts {p : String × String} (hp : p ∈ attrTable) : localName ("tts:" ++ p.2).toList = p.2.toList := by
  unfold localName; rw [splitName_tts p hp]

/-- `nm` is not the local name of a styling attribute -/
def NotRow (nm : String) : Prop := ∀ p ∈ attrTable, p.2.toList ≠ nm.toList

theorem notRow_of {nm : String} {cs : Str} (e : nm.toList = cs) (h : cs ∉ rowNames) : NotRow nm := by
  intro p hp e'
  exact h (e ▸ e' ▸ row_mem hp)

theorem id_toList : "id".toList = ['i', 'd'] := by rfl
theorem begin_toList : "begin".toList = ['b', 'e', 'g', 'i', 'n'] := by rfl
theorem end_toList : "end".toList = ['e', 'n', 'd'] := by rfl
theorem region_toList : "region".toList = ['r', 'e', 'g', 'i', 'o', 'n'] := by rfl

theorem notRow_id : NotRow "id" := notRow_of id_toList (by decide +kernel)
theorem notRow_begin : NotRow "begin" := notRow_of begin_toList (by decide +kernel)
theorem notRow_end : NotRow "end" := notRow_of end_toList (by decide +kernel)
theorem notRow_region : NotRow "region" := notRow_of region_toList (by decide +kernel)

theorem outAttrs_localName {a : Attrs} {nm : String} (h : NotRow nm) :
    ∀ kv ∈ outAttrs a, localName kv.1 ≠ nm.toList := by
  intro kv hkv
  unfold outAttrs at hkv
  obtain ⟨p, hp, he⟩ := mem_filterMap.mp hkv
  obtain ⟨f, x⟩ := p
  simp only at he
  cases hk : kvGet a ("TTML" ++ f) with
  | none => rw [hk] at he; simp at he
  | some v =>
    rw [hk] at he
    simp only [Option.map_some, Option.some.injEq] at he
    subst he
    simp only
    rw [localName_tts (p := (f, x)) hp]
    exact h (f, x) hp

theorem foldl_noMatch (nm : String) (l : List (Str × Str)) (h : ∀ kv ∈ l, localName kv.1 ≠ nm.toList) (acc : Str) :
    l.foldl (fun acc kv => if localName kv.1 = nm.toList then kv.2 else acc) acc = acc := by
  induction l generalizing acc with
  | nil => rfl
  | cons kv l ih =>
    rw [foldl_cons, if_neg (h kv (by simp))]
    exact ih (fun x hx => h x (by simp [hx])) acc

/-- the `tts:*` attributes do not touch a field that is not a styling attribute -/
theorem lastAttr_outAttrs (pre : List (Str × Str)) (a : Attrs) {nm : String} (h : NotRow nm) :
    lastAttr (pre ++ outAttrs a) nm = lastAttr pre nm := by
  rw [lastAttr_append, foldl_noMatch nm _ (outAttrs_localName h)]

theorem allAttr_outAttrs (a : Attrs) {nm : String} (h : NotRow nm) : allAttr (outAttrs a) nm = [] := by
  unfold allAttr
  rw [map_eq_nil_iff, filter_eq_nil_iff]
  intro kv hkv
  simpa using outAttrs_localName h kv hkv

/-- an optional attribute is written when its value is not empty -/
theorem optAttr_norm (k : String) (r : Option Str) :
    optAttr k r = (match normRef r with | some v => [(k.toList, v)] | none => []) := by
  cases r with
  | none => rfl
  | some v =>
    cases v with
    | nil => rfl
    | cons c cs => simp [optAttr, normRef]

/-! ### attributes that are not for `TTMLInStyleAttributes` -/

theorem itemOfStart_skip (name sp loc v : Str) (rest : List (Str × Str × Str)) (it : InItem)
    (h1 : loc ≠ "style".toList) (h2 : attrTable.find? (fun p => p.2.toList = loc) = none) :
    itemOfStart name ((sp, loc, v) :: rest) it = itemOfStart name rest it := by
  rw [itemOfStart]
  simp only [h1, ↓reduceIte, h2]

theorem find_none {nm : String} (h : NotRow nm) : attrTable.find? (fun p => p.2.toList = nm.toList) = none := by
  rw [find?_eq_none]
  intro p hp
  simpa using h p hp

theorem find_id : attrTable.find? (fun p => p.2.toList = "id".toList) = none := find_none notRow_id
theorem find_begin : attrTable.find? (fun p => p.2.toList = "begin".toList) = none := find_none notRow_begin
theorem find_end : attrTable.find? (fun p => p.2.toList = "end".toList) = none := find_none notRow_end
theorem find_region : attrTable.find? (fun p => p.2.toList = "region".toList) = none := find_none notRow_region

theorem rawAttr_xmlid (v : Str) : rawAttr ("xml:id".toList, v) = (nsXML, "id".toList, v) := by
  unfold rawAttr
  have : splitName "xml:id".toList = ("xml".toList, "id".toList) := by decide
  rw [this]; rfl

theorem rawAttr_plain {k : String} (h : splitName k.toList = ([], k.toList)) (v : Str) :
    rawAttr (k.toList, v) = ([], k.toList, v) := by
  unfold rawAttr; rw [h]; rfl

theorem splitName_begin : splitName "begin".toList = ([], "begin".toList) := by decide
theorem splitName_end : splitName "end".toList = ([], "end".toList) := by decide
theorem splitName_region : splitName "region".toList = ([], "region".toList) := by decide

/-! ### `style` / `region` headers -/

/-- the `TTMLInStyle` / `TTMLInRegion` a definition is decoded into -/
def inDef (d : Def) : InDef := { id := d.id, style := (normRef d.ref).getD [], attrs := inKV d.attrs }

/-- the attributes of the header element of `d` -/
def headerAttrs (d : Def) : List (Str × Str) := optAttr "xml:id" (some d.id) ++ optAttr "style" d.ref ++ outAttrs d.attrs

theorem localName_xmlid : localName "xml:id".toList = "id".toList := by decide
theorem localName_style : localName "style".toList = "style".toList := by decide
theorem localName_begin : localName "begin".toList = "begin".toList := by decide
theorem localName_end : localName "end".toList = "end".toList := by decide
theorem localName_region : localName "region".toList = "region".toList := by decide

theorem lastAttr_header_id (d : Def) : lastAttr (headerAttrs d) "id" = d.id := by
  unfold headerAttrs
  rw [lastAttr_outAttrs _ _ notRow_id, optAttr_norm "style"]
  cases hid : d.id with
  | nil => cases normRef d.ref <;> simp +decide [lastAttr, optAttr]
  | cons c cs => cases normRef d.ref <;> simp +decide [lastAttr, optAttr]

/-- **A `style` / `region` start tag is decoded into its identifier, its parent reference and its attributes.** -/
theorem mkDef_header (d : Def) (hok : attrsOk d.attrs = true) : mkDef (headerAttrs d) = some (inDef d) := by
  unfold mkDef
  rw [lastAttr_header_id]
  have e : (headerAttrs d).map rawAttr
      = (optAttr "xml:id" (some d.id)).map rawAttr ++ (optAttr "style" d.ref ++ outAttrs d.attrs).map rawAttr := by
    simp [headerAttrs]
  rw [e]
  have h2 : itemOfStart [] ((optAttr "xml:id" (some d.id)).map rawAttr ++ (optAttr "style" d.ref ++ outAttrs d.attrs).map rawAttr) {}
      = itemOfStart [] ((optAttr "style" d.ref ++ outAttrs d.attrs).map rawAttr) {} := by
    cases hid : d.id with
    | nil => rfl
    | cons c cs =>
      have e1 : optAttr "xml:id" (some (c :: cs)) = [("xml:id".toList, c :: cs)] := rfl
      rw [e1, map_cons, map_nil, rawAttr_xmlid, singleton_append,
        itemOfStart_skip _ _ _ _ _ _ (by decide) find_id]
  rw [h2, itemOfStart_written [] d.ref d.attrs hok]
  rfl

/-! ### `p` -/

/-- the attributes of the `<p>` of a cue -/
def pAttrs (it : CItem) : List (Str × Str) :=
  [("begin".toList, Duration.formatTTML it.startAt), ("end".toList, Duration.formatTTML it.endAt)]
    ++ optAttr "region" it.region ++ optAttr "style" it.style ++ outAttrs it.attrs

/-- the `TTMLInSubtitle` of a cue, before its children are read -/
def inSub0 (it : CItem) : InSub :=
  { begins := [Duration.formatTTML it.startAt], ends := [Duration.formatTTML it.endAt], id := [],
    region := (normRef it.region).getD [], style := (normRef it.style).getD [], attrs := inKV it.attrs,
    inner := [], stripped := [], toks := [], toksOk := true }

theorem pAttrs_fields (it : CItem) :
    allAttr (pAttrs it) "begin" = [Duration.formatTTML it.startAt] ∧
    allAttr (pAttrs it) "end" = [Duration.formatTTML it.endAt] ∧
    lastAttr (pAttrs it) "id" = [] ∧
    lastAttr (pAttrs it) "region" = (normRef it.region).getD [] := by
  unfold pAttrs
  simp only [lastAttr_outAttrs _ _ notRow_id, lastAttr_outAttrs _ _ notRow_region, allAttr_append,
    allAttr_outAttrs _ notRow_begin, allAttr_outAttrs _ notRow_end, optAttr_norm "region", optAttr_norm "style"]
  cases normRef it.region <;> cases normRef it.style <;>
    simp +decide [lastAttr, allAttr]

/-- **A `<p>` start tag is decoded into `begin`, `end` (raw texts), `region`, `style` and its attributes.** -/
theorem mkSub_pAttrs (it : CItem) (hok : attrsOk it.attrs = true) : mkSub (pAttrs it) = some (inSub0 it) := by
  unfold mkSub
  obtain ⟨h1, h2, h3, h4⟩ := pAttrs_fields it
  rw [h1, h2, h3, h4]
  have e : (pAttrs it).map rawAttr
      = ([], "begin".toList, Duration.formatTTML it.startAt) :: ([], "end".toList, Duration.formatTTML it.endAt)
          :: ((optAttr "region" it.region).map rawAttr ++ (optAttr "style" it.style ++ outAttrs it.attrs).map rawAttr) := by
    simp only [pAttrs, map_append, map_cons, rawAttr_plain splitName_begin, rawAttr_plain splitName_end,
      cons_append, nil_append, append_assoc]
  rw [e, itemOfStart_skip _ _ _ _ _ _ (by decide) find_begin, itemOfStart_skip _ _ _ _ _ _ (by decide) find_end]
  have h5 : itemOfStart [] ((optAttr "region" it.region).map rawAttr ++ (optAttr "style" it.style ++ outAttrs it.attrs).map rawAttr) {}
      = itemOfStart [] ((optAttr "style" it.style ++ outAttrs it.attrs).map rawAttr) {} := by
    rw [optAttr_norm "region"]
    cases normRef it.region with
    | none => rfl
    | some v =>
      simp only [map_cons, map_nil, rawAttr_plain splitName_region, singleton_append]
      rw [itemOfStart_skip _ _ _ _ _ _ (by decide) find_region]
  rw [h5, itemOfStart_written [] it.style it.attrs hok]
  rfl

end TTMLDoc
end Astisub
