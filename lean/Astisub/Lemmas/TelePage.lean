import Astisub.Lemmas.TelePacket

/-!
# Lemmas/TelePage — the page buffer and the specification's page automaton, packet by packet

`PRel P b s` relates the model's page buffer `b` (with the pages `P` already handed over by earlier PES packets) to
the specification's automaton state `s`: same selected page, same "rows still belong to the page" flag, the page
under construction is the specification's open instance (`pageOf`), the finished pages are the closed instances
with their end times, and the X/28 – M/29 triplets the model remembers carry designations the specification
has met.  `PRel.step`: one packet keeps the relation, unless the specification leaves its class (a row sent twice).
-/

namespace Astisub
namespace Teletext
open Go Generated.Teletext
open Spec.Teletext (Packet Inst St step)

/-- the page the model builds for an instance of the specification that ends at `e` -/
def pageOf (i : Inst) (e : Int) : Page :=
  { charsetCode := i.code, data := i.rows.map (fun r => (r.1, r.2.map storedCell)), rows := i.rows.map (·.1),
    start := i.startNs, end_ := e }

/-- what `decodePacket` guarantees about a packet: magazine 1..8, row numbers 1..25, designation packets 28 / 29 -/
def PacketOK : Packet → Prop
  | .header mag _ _ _ _ _ => 1 ≤ mag ∧ mag ≤ 8
  | .row mag y _ => 1 ≤ mag ∧ mag ≤ 8 ∧ 1 ≤ y ∧ y ≤ 25
  | .desig mag y _ _ => 1 ≤ mag ∧ mag ≤ 8 ∧ (y = 28 ∨ y = 29)
  | .other => True

instance (p : Packet) : Decidable (PacketOK p) := by
  cases p <;> unfold PacketOK <;> infer_instance

theorem decodePacket_ok (f : List Nat) (p : Packet) (h : Spec.Teletext.decodePacket f = some p) : PacketOK p := by
  unfold Spec.Teletext.decodePacket at h
  split at h
  · cases h
  · split at h
    · cases h; trivial
    · split at h
      · rename_i a b _ _
        have hm : 1 ≤ (if a % 8 = 0 then 8 else a % 8) ∧ (if a % 8 = 0 then 8 else a % 8) ≤ 8 := by split <;> omega
        simp only at h
        split at h
        · split at h
          · cases h; exact hm
          · cases h
        · split at h
          · cases h; exact ⟨hm.1, hm.2, by omega, by assumption⟩
          · split at h
            · split at h
              · cases h
                rename_i hy _ _ _
                simp at hy
                exact ⟨hm.1, hm.2, hy⟩
              · cases h
            · cases h; trivial
      · cases h

/-! ## the relation -/

/-- same selected page (none selected: the model's 0 / 0, and it is not receiving) -/
def SelRel (b : Buf) (s : St) : Prop :=
  (s.sel = none ∧ b.mag = 0 ∧ b.page = 0 ∧ b.receiving = false) ∨
  (∃ m pt pu, s.sel = some (m, pt, pu) ∧ pt ≤ 9 ∧ pu ≤ 9 ∧ b.mag = m ∧ b.page = pt * 10 + pu ∧ ¬ (m = 0 ∧ pt * 10 + pu = 0))

/-- the triplets the model remembers carry designations the specification has met -/
def KRel (b : Buf) (s : St) : Prop :=
  (∀ t, b.x28 = some t → keyOf t ∈ s.keys) ∧ (∀ t, b.m29 = some t → keyOf t ∈ s.keys) ∧
  (s.keys ≠ [] → b.x28.isSome = true ∨ b.m29.isSome = true)

structure PRel (P : List Page) (b : Buf) (s : St) : Prop where
  sel : SelRel b s
  recv : b.receiving = s.open_
  cur : b.current = s.cur.map fun i => pageOf i 0
  done : P ++ b.done = s.done.map fun ie => pageOf ie.1 ie.2
  keys : KRel b s

theorem SelRel.congr {b b' : Buf} {s s' : St} (h : SelRel b s) (e1 : b'.mag = b.mag) (e2 : b'.page = b.page)
    (e3 : b'.receiving = b.receiving) (e4 : s'.sel = s.sel) : SelRel b' s' := by
  unfold SelRel at *
  rw [e1, e2, e3, e4]; exact h

/-! ## rows -/

theorem setData_fresh (rows : List (Nat × List (Option Nat))) (y : Nat) (cells : List (Option Nat))
    (h : rows.any (·.1 == y) = false) :
    setData (rows.map fun r => (r.1, r.2.map storedCell)) y (cells.map storedCell) =
      (rows ++ [(y, cells)]).map fun r => (r.1, r.2.map storedCell) := by
  unfold setData
  have : ((rows.map fun r => (r.1, r.2.map storedCell)).any (·.1 == y)) = false := by
    rw [List.any_map]; exact h
  simp [this]

theorem PRel.row {P : List Page} {b : Buf} {s : St} (h : PRel P b s) (t : Int) (mag y : Nat) (cells : List (Option Nat))
    (hm : 1 ≤ mag) :
    (step t s (.row mag y cells)).bad = true ∨ PRel P (applyPacket t b (.row mag y cells)) (step t s (.row mag y cells)) := by
  rcases h.sel with ⟨hs, hb, hp, hr⟩ | ⟨m, pt, pu, hs, h1, h2, hbm, hbp, hne⟩
  · right
    have : (b.receiving && decide (mag = b.mag)) = false := by simp [hr]
    simp only [applyPacket, this, step, hs]
    exact h
  · cases hc : s.cur with
    | none =>
      right
      have hcur : b.current = none := by rw [h.cur, hc]; rfl
      have : applyPacket t b (.row mag y cells) = b := by
        simp only [applyPacket, storeRow, hcur]; split <;> rfl
      rw [this]
      simp only [step, hs, hc]
      exact h
    | some i =>
      have hcur : b.current = some (pageOf i 0) := by rw [h.cur, hc]; rfl
      by_cases hcond : mag = m ∧ s.open_ = true
      · have hc1 : (b.receiving && decide (mag = b.mag)) = true := by simp [h.recv, hbm, hcond.1, hcond.2]
        have hc2 : (decide (mag = m) && s.open_) = true := by simp [hcond.1, hcond.2]
        cases hdup : i.rows.any (·.1 == y)
        · right
          simp only [applyPacket, hc1, if_true, step, hs, hc, hc2, hdup, Bool.false_eq_true, if_false]
          refine ⟨h.sel.congr ?_ ?_ ?_ hs.symm, ?_, ?_, ?_, ?_⟩
          · simp only [storeRow, hcur]
          · simp only [storeRow, hcur]
          · simp only [storeRow, hcur]
          · simp only [storeRow, hcur]; exact h.recv
          · simp only [storeRow, hcur, Option.map_some, pageOf]
            rw [setData_fresh i.rows y cells hdup]
            simp
          · simp only [storeRow, hcur]; exact h.done
          · simp only [storeRow, hcur]; exact h.keys
        · left
          simp only [step, hs, hc, hc2, hdup, if_true]
      · right
        have hc1 : (b.receiving && decide (mag = b.mag)) = false := by
          rw [h.recv, hbm]
          by_cases h1 : mag = m
          · have : s.open_ = false := by
              cases ho : s.open_
              · rfl
              · exact absurd ⟨h1, ho⟩ hcond
            simp [this]
          · simp [h1]
        have hc2 : (decide (mag = m) && s.open_) = false := by
          by_cases h1 : mag = m
          · have : s.open_ = false := by
              cases ho : s.open_
              · rfl
              · exact absurd ⟨h1, ho⟩ hcond
            simp [this]
          · simp [h1]
        simp only [applyPacket, hc1, Bool.false_eq_true, if_false, step, hs, hc, hc2]
        exact h

/-! ## X/28 and M/29 -/

theorem PRel.desig {P : List Page} {b : Buf} {s : St} (h : PRel P b s) (t : Int) (mag y dc raw : Nat)
    (hm : 1 ≤ mag) (hy : y = 28 ∨ y = 29) :
    PRel P (applyPacket t b (.desig mag y dc raw)) (step t s (.desig mag y dc raw)) := by
  have hkey : keyOf raw = raw / 1024 % 16 := C06.C06_key_of_triplet raw
  rcases h.sel with ⟨hs, hb, hp, hr⟩ | ⟨m, pt, pu, hs, h1, h2, hbm, hbp, hne⟩
  · have : (decide (mag = b.mag) && (decide (dc = 0) || decide (dc = 4))) = false := by
      have : mag ≠ b.mag := by omega
      simp [this]
    simp only [applyPacket, desigStep, this, Bool.false_eq_true, if_false, step, hs]
    exact h
  · by_cases hc : mag = m ∧ (dc = 0 ∨ dc = 4)
    · have hc1 : (decide (mag = b.mag) && (decide (dc = 0) || decide (dc = 4))) = true := by
        rcases hc with ⟨h1, h2 | h2⟩ <;> simp [hbm, h1, h2]
      have hc0 : (decide (mag = m) && (decide (dc = 0) || decide (dc = 4))) = true := by rw [← hbm]; exact hc1
      rcases hy with hy | hy <;> subst hy
      · by_cases hx : b.receiving = true ∧ raw % 16 = 0
        · have hc2 : (b.receiving && decide (raw % 16 = 0)) = true := by simp [hx.1, hx.2]
          have hmodel : applyPacket t b (.desig mag 28 dc raw) = { b with x28 := some raw } := by
            simp only [applyPacket, desigStep, hc1, if_true, hc2]
          have hspec : step t s (.desig mag 28 dc raw) = { s with keys := s.keys ++ [raw / 1024 % 16] } := by
            have : (s.open_ && decide (raw % 16 = 0)) = true := by rw [← h.recv]; exact hc2
            simp only [step, hs, hc0, this, Bool.or_true, Bool.and_true, if_true]
          rw [hmodel, hspec]
          refine ⟨h.sel.congr rfl rfl rfl rfl, h.recv, h.cur, h.done, ?_, ?_, ?_⟩
          · intro t' ht'
            simp at ht'; subst ht'
            simp [hkey]
          · intro t' ht'
            exact List.mem_append_left _ (h.keys.2.1 t' ht')
          · intro _; left; rfl
        · have hc2 : (b.receiving && decide (raw % 16 = 0)) = false := by
            by_cases h1 : b.receiving = true
            · have : raw % 16 ≠ 0 := fun h2 => hx ⟨h1, h2⟩
              simp [this]
            · simp [h1]
          have hmodel : applyPacket t b (.desig mag 28 dc raw) = b := by
            simp only [applyPacket, desigStep, hc1, if_true, hc2, Bool.false_eq_true, if_false]
          have hspec : step t s (.desig mag 28 dc raw) = s := by
            have : (s.open_ && decide (raw % 16 = 0)) = false := by rw [← h.recv]; exact hc2
            simp [step, hs, this]
          rw [hmodel, hspec]; exact h
      · have hmodel : applyPacket t b (.desig mag 29 dc raw) = { b with m29 := some raw } := by
          simp only [applyPacket, desigStep, hc1, if_true, show (29 : Nat) ≠ 28 by decide, if_false]
        have hspec : step t s (.desig mag 29 dc raw) = { s with keys := s.keys ++ [raw / 1024 % 16] } := by
          simp only [step, hs, hc0, decide_true, Bool.true_or, Bool.and_true, if_true]
        rw [hmodel, hspec]
        refine ⟨h.sel.congr rfl rfl rfl rfl, h.recv, h.cur, h.done, ?_, ?_, ?_⟩
        · intro t' ht'
          exact List.mem_append_left _ (h.keys.1 t' ht')
        · intro t' ht'
          simp at ht'; subst ht'
          simp [hkey]
        · intro _; right; rfl
    · have hc1 : (decide (mag = b.mag) && (decide (dc = 0) || decide (dc = 4))) = false := by
        rw [hbm]
        by_cases h1 : mag = m
        · have h2 : dc ≠ 0 := fun h2 => hc ⟨h1, Or.inl h2⟩
          have h3 : dc ≠ 4 := fun h2 => hc ⟨h1, Or.inr h2⟩
          simp [h2, h3]
        · simp [h1]
      have hc3 : ∀ x : Bool, (decide (mag = m) && (decide (dc = 0) || decide (dc = 4)) && x) = false := by
        intro x; rw [← hbm, hc1]; rfl
      simp only [applyPacket, desigStep, hc1, Bool.false_eq_true, if_false, step, hs, hc3]
      exact h

/-! ## page headers -/

/-- the specification's automatic selection, as a function -/
def specSelect (s : St) (mag tens units : Nat) (subtitle : Bool) : St :=
  match s.sel with
  | none => if subtitle && Spec.Teletext.decimal tens units then { s with sel := some (mag, tens, units) } else s
  | some _ => s

/-- the specification's reaction to a header once the selection is made, as a function -/
def specCore (t : Int) (s : St) (mag tens units : Nat) (serial : Bool) (code : Nat) : St :=
  match s.sel with
  | none => s
  | some (m, pt, pu) =>
    if mag = m && tens = pt && units = pu then
      let done := match s.cur with | some i => s.done ++ [(i, t)] | none => s.done
      { s with done := done, cur := some { startNs := t, code := code }, open_ := true }
    else if mag = m || serial then { s with open_ := false }
    else s

theorem step_header (t : Int) (s : St) (mag tens units : Nat) (subtitle serial : Bool) (code : Nat) :
    step t s (.header mag tens units subtitle serial code) =
      if tens = 15 && units = 15 then s else specCore t (specSelect s mag tens units subtitle) mag tens units serial code := by
  simp only [step, specCore, specSelect]
  split
  · rfl
  · rfl

theorem pageNo_eq (tens units pt pu : Nat) (h1 : pt ≤ 9) (h2 : pu ≤ 9) :
    pageNo tens units = some (pt * 10 + pu) ↔ tens = pt ∧ units = pu := by
  unfold pageNo
  by_cases h : tens > 9 ∨ units > 9
  · have : (decide (tens > 9) || decide (units > 9)) = true := by rcases h with h | h <;> simp [h]
    rw [if_pos this]
    constructor
    · intro h'; cases h'
    · intro h'; omega
  · have : ¬ (decide (tens > 9) || decide (units > 9)) = true := by simp; omega
    rw [if_neg this]
    constructor
    · intro h'; simp at h'; omega
    · intro h'; rw [h'.1, h'.2]

theorem PRel.select {P : List Page} {b : Buf} {s : St} (h : PRel P b s) (mag tens units : Nat) (subtitle : Bool)
    (hm : 1 ≤ mag) : PRel P (autoSelect b mag (pageNo tens units) subtitle) (specSelect s mag tens units subtitle) := by
  rcases h.sel with ⟨hs, hb, hp, hr⟩ | ⟨m, pt, pu, hs, h1, h2, hbm, hbp, hne⟩
  · by_cases hd : subtitle = true ∧ tens ≤ 9 ∧ units ≤ 9
    · have hpn : pageNo tens units = some (tens * 10 + units) := (pageNo_eq tens units tens units hd.2.1 hd.2.2).mpr ⟨rfl, rfl⟩
      have hmodel : autoSelect b mag (pageNo tens units) subtitle = { b with mag := mag, page := tens * 10 + units } := by
        simp [autoSelect, hb, hp, hpn, hd.1]
      have hspec : specSelect s mag tens units subtitle = { s with sel := some (mag, tens, units) } := by
        simp [specSelect, hs, Spec.Teletext.decimal, hd.1, hd.2.1, hd.2.2]
      rw [hmodel, hspec]
      exact ⟨Or.inr ⟨mag, tens, units, rfl, hd.2.1, hd.2.2, rfl, rfl, by omega⟩, h.recv, h.cur, h.done, h.keys⟩
    · have hmodel : autoSelect b mag (pageNo tens units) subtitle = b := by
        unfold autoSelect
        simp only [hb, hp, decide_true, Bool.and_true, if_true]
        cases hpn : pageNo tens units with
        | none => rfl
        | some p =>
          cases hsub : subtitle
          · rfl
          · exfalso
            apply hd
            refine ⟨hsub, ?_⟩
            unfold pageNo at hpn
            split at hpn
            · cases hpn
            · rename_i hh; simp at hh; omega
      have hspec : specSelect s mag tens units subtitle = s := by
        unfold specSelect
        simp only [hs]
        split
        · rename_i hh
          simp [Spec.Teletext.decimal] at hh
          exact absurd hh hd
        · rfl
      rw [hmodel, hspec]; exact h
  · have hmodel : autoSelect b mag (pageNo tens units) subtitle = b := by
      unfold autoSelect
      have : (decide (b.mag = 0) && decide (b.page = 0)) = false := by
        cases hd : (decide (b.mag = 0) && decide (b.page = 0))
        · rfl
        · exfalso
          simp only [Bool.and_eq_true, decide_eq_true_eq] at hd
          exact hne ⟨hbm ▸ hd.1, hbp ▸ hd.2⟩
      simp only [this, Bool.false_eq_true, if_false]
    have hspec : specSelect s mag tens units subtitle = s := by simp only [specSelect, hs]
    rw [hmodel, hspec]; exact h

/-- the finished pages after a header of the selected page at `t` -/
def doneAfter (b : Buf) (t : Int) : List Page :=
  match b.current with
  | some p => b.done ++ [{ p with end_ := t }]
  | none => b.done

theorem PRel.core {P : List Page} {b : Buf} {s : St} (h : PRel P b s) (t : Int) (mag tens units : Nat) (serial : Bool)
    (code : Nat) (hm : 1 ≤ mag) :
    PRel P (headerCore b t mag (pageNo tens units) serial code) (specCore t s mag tens units serial code) := by
  rcases h.sel with ⟨hs, hb, hp, hr⟩ | ⟨m, pt, pu, hs, h1, h2, hbm, hbp, hne⟩
  · have hmm : mag ≠ 0 := by omega
    have hmodel : headerCore b t mag (pageNo tens units) serial code = b := by
      simp [headerCore, hr, hb, hmm]
    have hspec : specCore t s mag tens units serial code = s := by simp only [specCore, hs]
    rw [hmodel, hspec]; exact h
  · by_cases hmatch : mag = m ∧ tens = pt ∧ units = pu
    · have ho : (pageNo tens units != some b.page) = false := by
        rw [hbp, (pageNo_eq tens units pt pu h1 h2).mpr hmatch.2]; simp
      have hmm : (mag != b.mag) = false := by simp [hbm, hmatch.1]
      have hmodel : headerCore b t mag (pageNo tens units) serial code =
          { b with done := doneAfter b t, receiving := true, current := some { charsetCode := code, start := t } } := by
        simp only [headerCore, ho, hmm, Bool.or_false, Bool.and_false, Bool.false_and, Bool.or_self, Bool.false_eq_true, if_false,
          doneAfter]
        cases b.current <;> rfl
      have hspec : specCore t s mag tens units serial code =
          { s with done := (match s.cur with | some i => s.done ++ [(i, t)] | none => s.done),
                   cur := some { startNs := t, code := code }, open_ := true } := by
        simp only [specCore, hs, hmatch.1, hmatch.2.1, hmatch.2.2, decide_true, Bool.and_true, if_true]
      rw [hmodel, hspec]
      refine ⟨Or.inr ⟨m, pt, pu, hs, h1, h2, hbm, hbp, hne⟩, rfl, rfl, ?_, h.keys⟩
      show P ++ doneAfter b t = _
      unfold doneAfter
      cases hc : s.cur with
      | none =>
        have : b.current = none := by rw [h.cur, hc]; rfl
        simp only [this]; exact h.done
      | some i =>
        have : b.current = some (pageOf i 0) := by rw [h.cur, hc]; rfl
        simp only [this, List.map_append, List.map_cons, List.map_nil, ← h.done, List.append_assoc]
        rfl
    · have hom : (pageNo tens units != some b.page || mag != b.mag) = true := by
        by_cases e1 : mag = m
        · have : pageNo tens units ≠ some (pt * 10 + pu) := fun hh =>
            hmatch ⟨e1, (pageNo_eq tens units pt pu h1 h2).mp hh⟩
          simp [hbp, this]
        · simp [hbm, e1]
      have hspecm : ¬ ((decide (mag = m) && decide (tens = pt) && decide (units = pu)) = true) := by
        simp; intro a b; exact fun c => hmatch ⟨a, b, c⟩
      by_cases hclose : mag = m ∨ serial = true
      · have hspec : specCore t s mag tens units serial code = { s with open_ := false } := by
          have : (decide (mag = m) || serial) = true := by rcases hclose with e | e <;> simp [e]
          simp only [specCore, hs, hspecm, if_false, this, if_true, Bool.false_eq_true]
        have hcond : ((serial && (pageNo tens units != some b.page || mag != b.mag)) ||
            (!serial && pageNo tens units != some b.page && decide (mag = b.mag))) = true := by
          by_cases hser : serial = true
          · simp [hser, hom]
          · have e1 : mag = m := by rcases hclose with e | e; exact e; exact absurd e hser
            have : pageNo tens units ≠ some (pt * 10 + pu) := fun hh =>
              hmatch ⟨e1, (pageNo_eq tens units pt pu h1 h2).mp hh⟩
            simp [hser, hbm, hbp, e1, this]
        by_cases hrecv : b.receiving = true
        · have hmodel : headerCore b t mag (pageNo tens units) serial code = { b with receiving := false } := by
            simp only [headerCore, hrecv, hcond, Bool.true_and, if_true]
          rw [hmodel, hspec]
          exact ⟨Or.inr ⟨m, pt, pu, hs, h1, h2, hbm, hbp, hne⟩, rfl, h.cur, h.done, h.keys⟩
        · have hmodel : headerCore b t mag (pageNo tens units) serial code = b := by
            simp only [headerCore, hrecv, Bool.false_and, Bool.false_eq_true, if_false, hom, if_true]
          rw [hmodel, hspec]
          refine ⟨Or.inr ⟨m, pt, pu, hs, h1, h2, hbm, hbp, hne⟩, ?_, h.cur, h.done, h.keys⟩
          simpa using hrecv
      · have e1 : mag ≠ m := fun e => hclose (Or.inl e)
        have e2 : serial = false := by cases serial; rfl; exact absurd (Or.inr rfl) hclose
        have hspec : specCore t s mag tens units serial code = s := by
          simp [specCore, hs, e1, e2]
        have hmodel : headerCore b t mag (pageNo tens units) serial code = b := by
          simp [headerCore, e2, hbm, e1]
        rw [hmodel, hspec]; exact h

/-- **one packet**: the relation is kept, unless the specification leaves its class (a row sent twice in an instance) -/
theorem PRel.packet {P : List Page} {b : Buf} {s : St} (h : PRel P b s) (t : Int) (p : Packet) (hp : PacketOK p) :
    (step t s p).bad = true ∨ PRel P (applyPacket t b p) (step t s p) := by
  cases p with
  | header mag tens units subtitle serial code =>
    right
    rw [step_header]
    simp only [applyPacket, headerStep]
    split
    · exact h
    · exact (h.select mag tens units subtitle hp.1).core t mag tens units serial code hp.1
  | row mag y cells => exact h.row t mag y cells hp.1
  | desig mag y dc raw => exact Or.inr (h.desig t mag y dc raw hp.1 hp.2.2)
  | other => exact Or.inr h

theorem specSelect_bad (s : St) (mag tens units : Nat) (subtitle : Bool) :
    (specSelect s mag tens units subtitle).bad = s.bad := by
  unfold specSelect
  split
  · split <;> rfl
  · rfl

theorem specCore_bad (t : Int) (s : St) (mag tens units : Nat) (serial : Bool) (code : Nat) :
    (specCore t s mag tens units serial code).bad = s.bad := by
  unfold specCore
  split
  · rfl
  · split
    · rfl
    · split <;> rfl

theorem step_bad (t : Int) (s : St) (p : Packet) (h : s.bad = true) : (Spec.Teletext.step t s p).bad = true := by
  cases p with
  | header mag tens units subtitle serial code =>
    rw [step_header]
    split
    · exact h
    · rw [specCore_bad, specSelect_bad]; exact h
  | row mag y cells =>
    simp only [Spec.Teletext.step]
    repeat' split
    all_goals first | exact h | rfl
  | desig mag y dc raw =>
    simp only [Spec.Teletext.step]
    repeat' split
    all_goals exact h
  | other => exact h

theorem foldl_step_bad (t : Int) : ∀ (ps : List Packet) (s : St), s.bad = true → (ps.foldl (Spec.Teletext.step t) s).bad = true
  | [], _, h => h
  | p :: ps, s, h => by rw [List.foldl_cons]; exact foldl_step_bad t ps _ (step_bad t s p h)

/-- the packets of one PES packet -/
theorem PRel.foldl {P : List Page} (t : Int) : ∀ (ps : List Packet) {b : Buf} {s : St}, PRel P b s → (∀ p ∈ ps, PacketOK p) →
    (ps.foldl (Spec.Teletext.step t) s).bad = true ∨
      PRel P (ps.foldl (applyPacket t) b) (ps.foldl (Spec.Teletext.step t) s)
  | [], _, _, h, _ => Or.inr h
  | p :: ps, _, _, h, hp => by
    rw [List.foldl_cons, List.foldl_cons]
    rcases h.packet t p (hp p (by simp)) with hb | hr
    · exact Or.inl (foldl_step_bad t ps _ hb)
    · exact PRel.foldl t ps hr (fun q hq => hp q (by simp [hq]))

end Teletext
end Astisub
