import Astisub.Lemmas.STLFields

/-!
# Lemmas/STLGsiRT — `parseGSI (gsiBytes g)`: the textual timecode, the fixed fields, and the assembly
-/

namespace Astisub
namespace C05
open Go STL

/-! ## the textual timecode `HHMMSSFF` -/

theorem formatSTL_dd (t : Int) (fr : Nat) (hfr : fr = 25 ∨ fr = 30) (h1 : t < 360000000000000) :
    Duration.formatSTL t fr = dd (t.toNat / 3600000000000) ++ dd (t.toNat % 3600000000000 / 60000000000)
      ++ dd (t.toNat % 60000000000 / 1000000000) ++ dd (t.toNat % 1000000000 * fr / 1000000000) := by
  unfold Duration.formatSTL
  simp only
  have hf : t.toNat % 1000000000 * fr / 1000000000 < 100 := by rcases hfr with rfl | rfl <;> omega
  rw [C16.pad2_eq_dd (by omega), C16.pad2_eq_dd (by omega), C16.pad2_eq_dd (by omega), C16.pad2_eq_dd hf]

theorem parseSTL_dd (H M S F : Nat) (hH : H < 100) (hM : M < 100) (hS : S < 100) (hF : F < 100) (fr : Int) :
    Duration.parseSTL true (dd H ++ dd M ++ dd S ++ dd F) fr
      = some ((H : Int) * Duration.nsPerH + (M : Int) * Duration.nsPerMin + (S : Int) * Duration.nsPerS
          + Duration.framesToNs true (F : Int) fr) := by
  have e1 : (dd H ++ dd M ++ dd S ++ dd F).take 2 = dd H := rfl
  have e2 : ((dd H ++ dd M ++ dd S ++ dd F).drop 2).take 2 = dd M := rfl
  have e3 : ((dd H ++ dd M ++ dd S ++ dd F).drop 4).take 2 = dd S := rfl
  have e4 : ((dd H ++ dd M ++ dd S ++ dd F).drop 6).take 2 = dd F := rfl
  unfold Duration.parseSTL
  rw [e1, e2, e3, e4, atoi_dd hH, atoi_dd hM, atoi_dd hS, atoi_dd hF]

theorem dd_digitStr4 (H M S F : Nat) (hH : H < 100) (hM : M < 100) (hS : S < 100) (hF : F < 100) :
    DigitStr (dd H ++ dd M ++ dd S ++ dd F) := by
  intro c hc
  simp only [List.mem_append] at hc
  rcases hc with ((hc | hc) | hc) | hc
  · exact digitStr_dd hH c hc
  · exact digitStr_dd hM c hc
  · exact digitStr_dd hS c hc
  · exact digitStr_dd hF c hc

/-- **GSI timecodes** (TCP, TCF): the eight digits the writer emits for an instant below 100 h are read as
    the instant of the frame, the same value the binary timecode of a TTI block gives -/
theorem gsiTimecode_format (t : Int) (fr : Nat) (hfr : fr = 25 ∨ fr = 30) (h1 : t < 360000000000000) :
    gsiTimecode (trimB (padR 0x20 8 (ascii (Duration.formatSTL t fr)))) (fr : Int) = some (frameInstant (fr : Int) t) := by
  have hf : t.toNat % 1000000000 * fr / 1000000000 < 100 := by rcases hfr with rfl | rfl <;> omega
  have hH : t.toNat / 3600000000000 < 100 := by omega
  have hM : t.toNat % 3600000000000 / 60000000000 < 100 := by omega
  have hS : t.toNat % 60000000000 / 1000000000 < 100 := by omega
  rw [formatSTL_dd t fr hfr h1]
  generalize hHd : t.toNat / 3600000000000 = H at hH
  generalize hMd : t.toNat % 3600000000000 / 60000000000 = M at hM
  generalize hSd : t.toNat % 60000000000 / 1000000000 = S at hS
  generalize hFd : t.toNat % 1000000000 * fr / 1000000000 = F at hf
  have hlen : (ascii (dd H ++ dd M ++ dd S ++ dd F)).length = 8 := rfl
  have hp : padR 0x20 8 (ascii (dd H ++ dd M ++ dd S ++ dd F)) = ascii (dd H ++ dd M ++ dd S ++ dd F) := by
    rw [padR_fit _ _ _ (by rw [hlen]; omega), hlen]; simp
  rw [hp, trimB_digits _ (ascii_digitStr _ (dd_digitStr4 H M S F hH hM hS hf))]
  unfold gsiTimecode
  have he : (ascii (dd H ++ dd M ++ dd S ++ dd F)).isEmpty = false := rfl
  rw [he, hlen, chars_ascii, parseSTL_dd H M S F hH hM hS hf]
  simp only [Bool.false_eq_true, if_false, Nat.lt_irrefl]
  unfold frameInstant Duration.formatSTLBytes Duration.parseSTLBytes
  simp only [Int.toNat_natCast]
  have h256 : H % 256 = H := by omega
  rw [hHd, hMd, hSd, hFd, h256]

/-! ## the fixed fields -/

theorem dfc_roundtrip (fr : Nat) (hfr : fr = 25 ∨ fr = 30) :
    framerateOf (padR 0x20 8 ((dfcOf (fr : Int)).getD [])) = some fr := by
  rcases hfr with rfl | rfl <;> decide

theorem cct_ok : (!Generated.STL.cctNumbers.contains (0x30 * 256 + 0x30)) = false := by decide

theorem atoiByte_1 : atoiByte 0x31 = some (some 1) := by decide

theorem tng_ok : atoiField (trimB (num 3 1)) = some (some 1) := by decide

/-! ## the assembly -/

/-- **what the GSI block can carry** (decidable): frame rate 25 or 30; display standard, language code and
    the eleven text values fit their fields and start and end with a graphic ASCII character; the dates exist;
    revision number, maximum characters and maximum rows are within 0–99; the two timecodes are below 100 h -/
def GsiOK (g : WGSI) : Prop :=
  (g.m.framerate = 25 ∨ g.m.framerate = 30) ∧
  fieldOK 1 g.m.dsc = true ∧ fieldOK 2 g.langCode = true ∧ fieldOK 32 g.m.title = true ∧
  fieldOK 32 g.m.origEpisode = true ∧ fieldOK 32 g.m.translProgram = true ∧ fieldOK 32 g.m.translEpisode = true ∧
  fieldOK 32 g.m.translName = true ∧ fieldOK 32 g.m.translContact = true ∧ fieldOK 16 g.m.slr = true ∧
  fieldOK 3 g.m.country = true ∧ fieldOK 32 g.m.publisher = true ∧ fieldOK 32 g.m.editorName = true ∧
  fieldOK 32 g.m.editorContact = true ∧
  dateOK (g.m.creation.getD zeroDate) = true ∧ dateOK (g.m.revisionDate.getD zeroDate) = true ∧
  (0 ≤ g.m.revisionNumber ∧ g.m.revisionNumber < 100) ∧
  (0 ≤ g.m.maxChars.getD 0 ∧ g.m.maxChars.getD 0 < 100) ∧
  (0 ≤ g.m.maxRows.getD 0 ∧ g.m.maxRows.getD 0 < 100) ∧
  g.m.tcp < 360000000000000 ∧ g.tcf < 360000000000000

instance (g : WGSI) : Decidable (GsiOK g) := by unfold GsiOK; infer_instance

/-- what the reader returns for the block written from `g`: everything as given, except that the language
    is the name of the language code, the unset options show their written defaults, and the programme
    start is the instant of its frame -/
def gsiBack (g : WGSI) : GSI :=
  { cct := 12336, langCode := g.langCode, tcpFull := frameInstant g.m.framerate g.m.tcp,
    m := { g.m with language := (languageOf g.langCode).getD [],
                    creation := some (g.m.creation.getD zeroDate), revisionDate := some (g.m.revisionDate.getD zeroDate),
                    maxChars := some (g.m.maxChars.getD 0), maxRows := some (g.m.maxRows.getD 0),
                    tcp := frameInstant g.m.framerate g.m.tcp } }

theorem parseGSI_gsiBytes (g : WGSI) (h : GsiOK g) : parseGSI (gsiBytes g) = some (gsiBack g) := by
  obtain ⟨hfr, hdsc, hlang, htitle, horig, htp, hte, htn, htc, hslr, hcountry, hpub, hen, hec, hcd, hrd,
    ⟨hrn0, hrn1⟩, ⟨hmc0, hmc1⟩, ⟨hmr0, hmr1⟩, htcp, htcf⟩ := h
  obtain ⟨fr, hfrN, hfrI⟩ : ∃ fr : Nat, (fr = 25 ∨ fr = 30) ∧ g.m.framerate = (fr : Int) := by
    rcases hfr with e | e
    · exact ⟨25, Or.inl rfl, e⟩
    · exact ⟨30, Or.inr rfl, e⟩
  have hfrT : g.m.framerate.toNat = fr := by rw [hfrI]; rfl
  obtain ⟨v1, hv1⟩ := num_field_parses 5 g.n (by omega) (by omega)
  have e_dfc : framerateOf (slice (gsiBytes g) 3 11) = some fr := by rw [gsi_dfc, hfrI]; exact dfc_roundtrip fr hfrN
  have e_cd : dateField (field (gsiBytes g) 224 230) = some (g.m.creation.getD zeroDate) := by
    unfold field; rw [gsi_creation]; exact date_roundtrip _ hcd
  have e_rd : dateField (field (gsiBytes g) 230 236) = some (g.m.revisionDate.getD zeroDate) := by
    unfold field; rw [gsi_revisionDate]; exact date_roundtrip _ hrd
  have e_rn : atoiField (field (gsiBytes g) 236 238) = some (some g.m.revisionNumber) := by
    unfold field; rw [gsi_revisionNumber]; exact num2_int _ hrn0 hrn1
  have e_tnb : atoiField (field (gsiBytes g) 238 243) = some (some (v1 : Int)) := by
    unfold field; rw [gsi_tnb]; exact hv1
  have e_tns : atoiField (field (gsiBytes g) 243 248) = some (some (v1 : Int)) := by
    unfold field; rw [gsi_tns]; exact hv1
  have e_tng : atoiField (field (gsiBytes g) 248 251) = some (some 1) := by
    unfold field; rw [gsi_tng]; exact tng_ok
  have e_mc : atoiField (field (gsiBytes g) 251 253) = some (some (g.m.maxChars.getD 0)) := by
    unfold field; rw [gsi_maxChars]; exact num2_int _ hmc0 hmc1
  have e_mr : atoiField (field (gsiBytes g) 253 255) = some (some (g.m.maxRows.getD 0)) := by
    unfold field; rw [gsi_maxRows]; exact num2_int _ hmr0 hmr1
  have e_tcp : gsiTimecode (field (gsiBytes g) 256 264) (fr : Int) = some (frameInstant (fr : Int) g.m.tcp) := by
    unfold field; rw [gsi_tcp, hfrT]; exact gsiTimecode_format _ fr hfrN htcp
  have e_tcf : gsiTimecode (field (gsiBytes g) 264 272) (fr : Int) = some (frameInstant (fr : Int) g.tcf) := by
    unfold field; rw [gsi_tcf, hfrT]; exact gsiTimecode_format _ fr hfrN htcf
  have f_dsc : field (gsiBytes g) 11 12 = g.m.dsc := by unfold field; rw [gsi_dsc]; exact fieldOK_trim _ _ hdsc
  have f_lang : field (gsiBytes g) 14 16 = g.langCode := by unfold field; rw [gsi_lang]; exact fieldOK_trim _ _ hlang
  have f_title : field (gsiBytes g) 16 48 = g.m.title := by unfold field; rw [gsi_title]; exact fieldOK_trim _ _ htitle
  have f_orig : field (gsiBytes g) 48 80 = g.m.origEpisode := by unfold field; rw [gsi_origEpisode]; exact fieldOK_trim _ _ horig
  have f_tp : field (gsiBytes g) 80 112 = g.m.translProgram := by unfold field; rw [gsi_translProgram]; exact fieldOK_trim _ _ htp
  have f_te : field (gsiBytes g) 112 144 = g.m.translEpisode := by unfold field; rw [gsi_translEpisode]; exact fieldOK_trim _ _ hte
  have f_tn : field (gsiBytes g) 144 176 = g.m.translName := by unfold field; rw [gsi_translName]; exact fieldOK_trim _ _ htn
  have f_tc : field (gsiBytes g) 176 208 = g.m.translContact := by unfold field; rw [gsi_translContact]; exact fieldOK_trim _ _ htc
  have f_slr : field (gsiBytes g) 208 224 = g.m.slr := by unfold field; rw [gsi_slr]; exact fieldOK_trim _ _ hslr
  have f_country : field (gsiBytes g) 274 277 = g.m.country := by unfold field; rw [gsi_country]; exact fieldOK_trim _ _ hcountry
  have f_pub : field (gsiBytes g) 277 309 = g.m.publisher := by unfold field; rw [gsi_publisher]; exact fieldOK_trim _ _ hpub
  have f_en : field (gsiBytes g) 309 341 = g.m.editorName := by unfold field; rw [gsi_editorName]; exact fieldOK_trim _ _ hen
  have f_ec : field (gsiBytes g) 341 373 = g.m.editorContact := by unfold field; rw [gsi_editorContact]; exact fieldOK_trim _ _ hec
  unfold parseGSI
  simp only [e_dfc, gsi_get12, gsi_get13, cct_ok, Bool.false_eq_true, if_false, e_cd, e_rd, e_rn, e_tnb, e_tns, e_tng,
    e_mc, e_mr, e_tcp, e_tcf, gsi_get272, gsi_get273, atoiByte_1, f_dsc, f_lang, f_title, f_orig, f_tp, f_te, f_tn, f_tc,
    f_slr, f_country, f_pub, f_en, f_ec, Option.getD_some]
  unfold gsiBack
  simp only [hfrI]

end C05
end Astisub
